/-
  C01 helper lemmas added by the audit: every key handed to the treatment encoder is a cell of the screen
  (converse of `allKeys_getElem?`), and the ids *used by the rows* of a freshly encoded screen are the whole dense range.
-/
import Batchie.Lemmas.EncodeAccept

namespace Batchie.Screen
open Batchie.Proto

/-- converse of `allKeys_getElem?`: a key of the encoder's input is the (name, dose) of some cell `(i, c)` -/
theorem allKeys_mem_cell (r : Raw) (hd : r.tdoses.length = r.tnames.length)
    (han : ∀ row ∈ r.tnames, row.length = r.arity) (had : ∀ row ∈ r.tdoses, row.length = r.arity)
    (k : Name × Dose) (hk : k ∈ allKeys r) :
    ∃ (i c : Nat) (hi : i < r.tnames.length) (hc : c < r.arity),
      k = ((r.tnames[i])[c]'(by rw [han _ (List.getElem_mem hi)]; exact hc),
           (r.tdoses[i]'(hd ▸ hi))[c]'(by rw [had _ (List.getElem_mem (hd ▸ hi))]; exact hc)) := by
  obtain ⟨j, hj, rfl⟩ := List.getElem_of_mem hk
  have hlen := length_allKeys r hd
  have hj' : j < r.tnames.length * r.arity := by rw [← hlen]; exact hj
  have hn : 0 < r.tnames.length := by
    rcases Nat.eq_zero_or_pos r.tnames.length with h0 | h0
    · rw [h0] at hj'; simp at hj'
    · exact h0
  have hc : j / r.tnames.length < r.arity := by
    rw [Nat.div_lt_iff_lt_mul hn, Nat.mul_comm]; exact hj'
  have hi : j % r.tnames.length < r.tnames.length := Nat.mod_lt _ hn
  refine ⟨j % r.tnames.length, j / r.tnames.length, hi, hc, ?_⟩
  have h := allKeys_getElem? r hd han had (j % r.tnames.length) (j / r.tnames.length) hi hc
  have hidx : j / r.tnames.length * r.tnames.length + j % r.tnames.length = j := Nat.div_add_mod' j r.tnames.length
  rw [hidx, List.getElem?_eq_getElem hj] at h
  exact Option.some.inj h

/-- two rows of a table with duplicate-free keys that share a key are the same row -/
theorem tmap_id_unique (tm : TMap) (hnd : (tm.map tKey).Nodup) (k : Name × Dose) (a b : Int)
    (ha : (k.1, k.2, a) ∈ tm) (hb : (k.1, k.2, b) ∈ tm) : a = b := by
  have := inj_of_nodup_map tKey tm hnd _ _ ha hb rfl
  exact (Prod.mk.inj (Prod.mk.inj this).2).2

end Batchie.Screen
