/-
  C11 / C13: concrete non-vacuity examples (every hypothesis of the property theorems is satisfiable on a
  non-trivial screen) and the regression witness for the old NPlatePerCellLineSmoother.  Everything is evaluated by
  `decide` through the kernel-evaluable mirror of the constructor (`mk?_eqK`, insertion sort in place of the
  well-founded `mergeSort`).
-/
import Batchie.Lemmas.LifecycleEval
import Batchie.Lemmas.PrepOps
namespace Batchie.Prep
open Batchie.Proto Batchie.Screen Batchie.Lifecycle

def isOk {ε α : Type} : Except ε α → Bool
  | .ok _ => true
  | .error _ => false

theorem exists_of_isOk {ε α : Type} {x : Except ε α} (h : isOk x = true) : ∃ a, x = .ok a := by
  cases x with
  | ok a => exact ⟨a, rfl⟩
  | error e => simp [isOk] at h

def uniqueSortedK (ids : List Int) : List Int := isort (fun a b => decide (a ≤ b)) ids.eraseDups

theorem uniqueSorted_eqK (ids : List Int) : uniqueSorted ids = uniqueSortedK ids := by
  unfold uniqueSorted uniqueSortedK
  rw [mergeSort_eq_isort _ intLe_trans intLe_total intLe_antisymm]

def mkRow' (s : Nat) (t1 t2 : Nat) (d1 d2 : Dose) (o : Nat) (p : Nat) (m : Bool) : Row :=
  ⟨[115, s], [[t1], [t2]], [d1, d2], o, [112, p], m⟩

/-- 7 experiments, arity 2: sample s1 with unobserved plates p1 (2 rows) and p2 (1 row), sample s2 with the unobserved plate
    p3 (3 rows, one single-agent row, one duplicate condition), and one observed plate p4 -/
def exRows : List Row :=
  [mkRow' 49 97 98 1 1 11 49 false, mkRow' 50 97 98 1 2 12 51 false, mkRow' 49 98 99 1 1 13 49 false,
   mkRow' 49 97 99 2 1 14 50 false, mkRow' 50 97 98 1 2 15 51 false, mkRow' 50 97 99 1 0 16 51 false,
   mkRow' 50 98 99 1 1 17 52 true]

def exRaw : Raw := rawOfRows [] 2 exRows none none


theorem exists_of_isOk_bind {α : Type} {f : Screen → Except Err α} {r : Raw} (h : isOk (mk? r >>= f) = true) :
    ∃ s a, mk? r = .ok s ∧ f s = .ok a := by
  cases hm : mk? r with
  | error e => rw [hm] at h; simp [isOk, bind, Except.bind] at h
  | ok s =>
    rw [hm] at h
    obtain ⟨a, ha⟩ := exists_of_isOk (x := f s) h
    exact ⟨s, a, rfl, ha⟩

set_option maxRecDepth 20000



def natLeK (a b : Nat) : Bool := decide (a ≤ b)

theorem optimalSize_eqK (sizes : List Nat) :
    optimalSize sizes =
      (let srt := isort (fun a b => decide (a ≤ b)) sizes
       let vals := srt.zipIdx.map (fun p => p.1 * (srt.length - p.2))
       srt[argmaxFirst vals]!) := by
  unfold optimalSize
  rw [mergeSort_eq_isort (fun (a b : Nat) => decide (a ≤ b)) (by intro a b c; simp only [decide_eq_true_eq]; omega)
    (by intro a b; simp only [Bool.or_eq_true, decide_eq_true_eq]; omega) (by intro a b; simp only [decide_eq_true_eq]; omega)]

theorem lexLe_trans (a b c : List Int) : lexLe a b = true → lexLe b c = true → lexLe a c = true := by
  simp only [lexLe, decide_eq_true_eq]; exact List.le_trans
theorem lexLe_total (a b : List Int) : (lexLe a b || lexLe b a) = true := by
  simp only [lexLe, Bool.or_eq_true, decide_eq_true_eq]; exact List.le_total a b
theorem lexLe_antisymm (a b : List Int) : lexLe a b = true → lexLe b a = true → a = b := by
  simp only [lexLe, decide_eq_true_eq]; exact List.le_antisymm

/-! ### kernel-evaluable mirrors of the merge loops (the recursive functions call `encode1d` / `uniqueSorted`) -/

def selsOfK (pn : List Name) : Except Err (List (List Bool)) := do
  let ids ← (·.1) <$> encode1dK pn none
  pure ((uniqueSortedK ids).map (fun x => ids.map (· == x)))

theorem selsOf_eqK (pn : List Name) : selsOf pn = selsOfK pn := by
  unfold selsOf selsOfK encIds
  simp only [encode1d_eqK, uniqueSorted_eqK]

def platesOfSampleK (sids : List Int) (pn : List Name) (x : Int) : Except Err (List (List Bool)) := do
  let sels ← selsOfK pn
  let ids ← sels.mapM (selSampleId sids)
  pure ((sels.zip ids).filter (fun p => p.2 == x) |>.map (·.1))

theorem platesOfSample_eqK (sids : List Int) (pn : List Name) (x : Int) : platesOfSample sids pn x = platesOfSampleK sids pn x := by
  unfold platesOfSample platesOfSampleK
  rw [selsOf_eqK]

def mmSamplesK (sids : List Int) (minSize : Int) : List Int → List Nat → List Name → Except Err (List Name)
  | [], _, pn => .ok pn
  | x :: xs, pops, pn => do
    let heap ← platesOfSampleK sids pn x
    let (pn', pops') ← mmLoop minSize heap.length heap pops pn
    mmSamplesK sids minSize xs pops' pn'

theorem mmSamples_eqK (sids : List Int) (minSize : Int) (xs : List Int) (pops : List Nat) (pn : List Name) :
    mmSamples sids minSize xs pops pn = mmSamplesK sids minSize xs pops pn := by
  induction xs generalizing pops pn with
  | nil => rfl
  | cons x xs ih =>
    unfold mmSamples mmSamplesK
    rw [platesOfSample_eqK]
    simp only [ih]

def tbStepK (sids : List Int) (pn : List Name) (x : Int) : Except Err (Option (List Name)) := do
  let plates ← platesOfSampleK sids pn x
  if plates.length ≤ 1 then pure none
  else
    let srt := plates.mergeSort (fun a b => decide (selSize a ≤ selSize b))
    let half := srt.length / 2
    let pairs := (srt.take half).zip (srt.reverse.take half)
    pure (some (pairs.foldl (fun acc p => (mergeSel acc p.2 p.1).1) pn))

theorem tbStep_eqK (sids : List Int) (pn : List Name) (x : Int) : tbStep sids pn x = tbStepK sids pn x := by
  unfold tbStep tbStepK
  rw [platesOfSample_eqK]

def tbIterK (sids : List Int) (x : Int) : Nat → List Name → Except Err (List Name)
  | 0, pn => .ok pn
  | n + 1, pn => do
    match ← tbStepK sids pn x with
    | none => pure pn
    | some pn' => tbIterK sids x n pn'

theorem tbIter_eqK (sids : List Int) (x : Int) (n : Nat) (pn : List Name) : tbIter sids x n pn = tbIterK sids x n pn := by
  induction n generalizing pn with
  | zero => rfl
  | succ n ih =>
    unfold tbIter tbIterK
    rw [tbStep_eqK]
    simp only [ih]
    congr 1

def tbSamplesK (sids : List Int) (nIter : Nat) : List Int → List Name → Except Err (List Name)
  | [], pn => .ok pn
  | x :: xs, pn => do
    let pn' ← tbIterK sids x nIter pn
    tbSamplesK sids nIter xs pn'

theorem tbSamples_eqK (sids : List Int) (nIter : Nat) (xs : List Int) (pn : List Name) :
    tbSamples sids nIter xs pn = tbSamplesK sids nIter xs pn := by
  induction xs generalizing pn with
  | nil => rfl
  | cons x xs ih =>
    unfold tbSamples tbSamplesK
    rw [tbIter_eqK]
    simp only [ih]

def remainingK (tids : List (List Int)) (covered : List Int) : List Int :=
  (uniqueSortedK tids.flatten).filter (fun t => !covered.contains t)

theorem remaining_eqK (tids : List (List Int)) (covered : List Int) : remaining tids covered = remainingK tids covered := by
  unfold remaining remainingK; rw [uniqueSorted_eqK]

def coverGreedyK (tids : List (List Int)) : List Nat → CoverSt → Except Err CoverSt
  | log, st =>
    let rem := remainingK tids st.covered
    if rem.isEmpty then .ok st
    else match log with
      | [] => .error .other
      | c :: rest =>
        let cand := (List.range tids.length).filter (fun i => (tids[i]!).any (fun t => rem.contains t))
        if !cand.contains c then .error .other
        else coverGreedyK tids rest { covered := st.covered ++ tids[c]!, chosen := st.chosen ++ [c] }

theorem coverGreedy_eqK (tids : List (List Int)) (log : List Nat) (st : CoverSt) :
    coverGreedy tids log st = coverGreedyK tids log st := by
  induction log generalizing st with
  | nil => unfold coverGreedy coverGreedyK; simp only [remaining_eqK]
  | cons c rest ih => unfold coverGreedy coverGreedyK; simp only [remaining_eqK, ih]

def nPlateOldLoopK : List Int → Screen → Except Err Screen
  | [], s => .ok s
  | x :: xs, s => do
    let t ← mkK? (rawOfRows s.ctrl s.arity (maskFilter (rowsOf s) (s.sids.map (fun y => y != x))) none none)
    nPlateOldLoopK xs t

theorem nPlateOldLoop_eqK (xs : List Int) (s : Screen) : nPlateOldLoop xs s = nPlateOldLoopK xs s := by
  induction xs generalizing s with
  | nil => rfl
  | cons x xs ih =>
    unfold nPlateOldLoop nPlateOldLoopK
    simp only [select, build, mk?_eqK, ih]

/-- the unobserved rows of the example, and a fully observed variant -/
def exU : List Row := exRows.filter (fun r => !r.mask)
def exFull : List Row := exRows.map (fun r => { r with mask := true })
/-- a design where every sample has a single plate (rows 0, 2 of sample s1 on p1; rows 1, 4, 5 of sample s2 on p3) -/
def exOne : List Row := [exRows[0]!, exRows[1]!, exRows[2]!, exRows[4]!, exRows[5]!]

set_option maxRecDepth 40000

/-! ### C11 / C13: hypotheses of the wrapped-operation theorems are satisfiable -/

theorem ex_wrapped_permutation : ∃ s out, mk? exRaw = .ok s ∧
    (Generator.permutation [] [[112,51],[112,49],[112,49],[112,50],[112,51],[112,51]]).wrapped s = .ok out := by
  apply exists_of_isOk_bind (f := fun s => (Generator.permutation [] [[112,51],[112,49],[112,49],[112,50],[112,51],[112,51]]).wrapped s)
  simp only [Generator.wrapped, Generator.run, wrap, select, combine, build, genPermutation, mk?_eqK]
  decide

theorem ex_wrapped_segregating : ∃ s out, mk? exRaw = .ok s ∧ (Generator.segregating 2 [[0,3,2],[5,1,4]]).wrapped s = .ok out := by
  apply exists_of_isOk_bind (f := fun s => (Generator.segregating 2 [[0,3,2],[5,1,4]]).wrapped s)
  simp only [Generator.wrapped, Generator.run, wrap, select, combine, build, genSegregating, uniqueSorted_eqK, mk?_eqK]
  decide

theorem ex_wrapped_pairwise : ∃ s out, mk? exRaw = .ok s ∧ (Generator.pairwise 1 0 [] [[2,0,4,1,3]] [[genName 3]]).wrapped s = .ok out := by
  apply exists_of_isOk_bind (f := fun s => (Generator.pairwise 1 0 [] [[2,0,4,1,3]] [[genName 3]]).wrapped s)
  simp only [Generator.wrapped, Generator.run, wrap, select, combine, build, genPairwise, uniqueSorted_eqK, mk?_eqK,
    mergeSort_eq_isort _ intLe_trans intLe_total intLe_antisymm, mergeSort_eq_isort _ lexLe_trans lexLe_total lexLe_antisymm,
    mergeSort_eq_isort _ Lifecycle.nameLe_trans Lifecycle.nameLe_total Lifecycle.nameLe_antisymm]
  decide

theorem ex_wrapped_mergeMin : ∃ s out, mk? exRaw = .ok s ∧ (Smoother.mergeMin 3 [3,0]).wrapped s = .ok out := by
  apply exists_of_isOk_bind (f := fun s => (Smoother.mergeMin 3 [3,0]).wrapped s)
  simp only [Smoother.wrapped, Smoother.run, wrap, select, combine, build, mergeMin, relabel, encIds, mmSamples_eqK,
    uniqueSorted_eqK, mk?_eqK, encode1d_eqK]
  decide

theorem ex_wrapped_fixedSize : ∃ s out, mk? exRaw = .ok s ∧ (Smoother.fixedSize 2 [[1,4]]).wrapped s = .ok out := by
  apply exists_of_isOk_bind (f := fun s => (Smoother.fixedSize 2 [[1,4]]).wrapped s)
  simp only [Smoother.wrapped, Smoother.run, wrap, select, combine, build, fixedSize, plateIdx, uniqueSorted_eqK, mk?_eqK]
  decide

theorem ex_wrapped_optimalSize : ∃ s out, mk? exRaw = .ok s ∧ (Smoother.optimalSize [[4,5]]).wrapped s = .ok out := by
  apply exists_of_isOk_bind (f := fun s => (Smoother.optimalSize [[4,5]]).wrapped s)
  simp only [Smoother.wrapped, Smoother.run, wrap, select, combine, build, optimalSizeSmoother, plateIdx, uniqueSorted_eqK, mk?_eqK,
    optimalSize_eqK]
  decide

theorem ex_wrapped_nPlate : ∃ s out, mk? exRaw = .ok s ∧ (Smoother.nPlate 2).wrapped s = .ok out := by
  apply exists_of_isOk_bind (f := fun s => (Smoother.nPlate 2).wrapped s)
  simp only [Smoother.wrapped, Smoother.run, wrap, select, combine, build, nPlate, plateIdx, uniqueSorted_eqK, mk?_eqK]
  decide

theorem ex_wrapped_mergeTopBottom : ∃ s out, mk? (rawOfRows [] 2 exOne none none) = .ok s ∧ (Smoother.mergeTopBottom 2).wrapped s = .ok out := by
  apply exists_of_isOk_bind (f := fun s => (Smoother.mergeTopBottom 2).wrapped s)
  simp only [Smoother.wrapped, Smoother.run, wrap, select, combine, build, mergeTopBottom, relabel, encIds, tbSamples_eqK,
    uniqueSorted_eqK, mk?_eqK, encode1d_eqK]
  decide

theorem ex_wrapped_ensemble : ∃ s out, mk? exRaw = .ok s ∧ (Smoother.ensemble 3 1 1 [3,0] []).wrapped s = .ok out := by
  apply exists_of_isOk_bind (f := fun s => (Smoother.ensemble 3 1 1 [3,0] []).wrapped s)
  simp only [Smoother.wrapped, Smoother.run, ensemble, wrap, select, combine, build, mergeMin, mergeTopBottom, relabel, encIds,
    mmSamples_eqK, tbSamples_eqK, optimalSizeSmoother, optimalSize_eqK, nPlate, plateIdx, uniqueSorted_eqK, mk?_eqK, encode1d_eqK]
  decide

/-! ### hold-outs, initial plate, combination filter -/

theorem ex_holdout_balanced : ∃ s kh, mk? exRaw = .ok s ∧ holdoutBalanced (fun n => (n + 1) / 2) [[0],[3],[1,5]] s = .ok kh := by
  apply exists_of_isOk_bind (f := fun s => holdoutBalanced (fun n => (n + 1) / 2) [[0],[3],[1,5]] s)
  simp only [holdoutBalanced, holdoutSplit, plateIdx, uniqueSorted_eqK, mk?_eqK]
  decide

theorem ex_holdout_random : ∃ s kh, mk? exRaw = .ok s ∧ holdoutRandom (fun n => (n + 1) / 2) [0,2,4,6] s = .ok kh := by
  apply exists_of_isOk_bind (f := fun s => holdoutRandom (fun n => (n + 1) / 2) [0,2,4,6] s)
  simp only [holdoutRandom, holdoutSplit, mk?_eqK]
  decide

/-- both ends of the fraction range: `kf = 0` (fraction 0) and `kf = id` (fraction 1) -/
theorem ex_holdout_fraction_zero : ∃ s kh, mk? exRaw = .ok s ∧ holdoutBalanced (fun _ => 0) [[],[],[]] s = .ok kh := by
  apply exists_of_isOk_bind (f := fun s => holdoutBalanced (fun _ => 0) [[],[],[]] s)
  simp only [holdoutBalanced, holdoutSplit, plateIdx, uniqueSorted_eqK, mk?_eqK]
  decide

theorem ex_holdout_fraction_one : ∃ s kh, mk? exRaw = .ok s ∧ holdoutBalanced (fun n => n) [[2,0],[3],[1,5,4]] s = .ok kh := by
  apply exists_of_isOk_bind (f := fun s => holdoutBalanced (fun n => n) [[2,0],[3],[1,5,4]] s)
  simp only [holdoutBalanced, holdoutSplit, plateIdx, uniqueSorted_eqK, mk?_eqK]
  decide

theorem ex_sparse_cover : ∃ s out, mk? (rawOfRows [] 2 exFull none none) = .ok s ∧ sparseCover true [0, 1, 3, 5] s = .ok out := by
  apply exists_of_isOk_bind (f := fun s => sparseCover true [0, 1, 3, 5] s)
  simp only [sparseCover, coverSel, build, coverGreedy_eqK, uniqueSorted_eqK, mk?_eqK]
  decide

theorem ex_combo_filter : ∃ s out, mk? exRaw = .ok s ∧ comboFilter s = .ok out := by
  apply exists_of_isOk_bind (f := fun s => comboFilter s)
  simp only [comboFilter, select, build, mk?_eqK]
  decide

/-! ### the inner operations on a screen built from rows (hypotheses of the C13 shape theorems) -/

theorem ex_inner_segregating : ∃ u nu, build [] 2 exU = .ok u ∧ genSegregating 2 [[0,3,2],[5,1,4]] u = .ok nu := by
  apply exists_of_isOk_bind (f := fun s => genSegregating 2 [[0,3,2],[5,1,4]] s)
  simp only [build, genSegregating, uniqueSorted_eqK, mk?_eqK]
  decide

theorem ex_inner_fixedSize : ∃ u nu, build [] 2 exU = .ok u ∧ fixedSize 2 [[1,4]] u = .ok nu := by
  apply exists_of_isOk_bind (f := fun s => fixedSize 2 [[1,4]] s)
  simp only [select, build, fixedSize, plateIdx, uniqueSorted_eqK, mk?_eqK]
  decide

theorem ex_inner_optimalSize : ∃ u nu, build [] 2 exU = .ok u ∧ optimalSizeSmoother [[4,5]] u = .ok nu := by
  apply exists_of_isOk_bind (f := fun s => optimalSizeSmoother [[4,5]] s)
  simp only [select, build, optimalSizeSmoother, plateIdx, uniqueSorted_eqK, mk?_eqK, optimalSize_eqK]
  decide

theorem ex_inner_nPlate : ∃ u nu, build [] 2 exU = .ok u ∧ nPlate 2 u = .ok nu := by
  apply exists_of_isOk_bind (f := fun s => nPlate 2 s)
  simp only [select, build, nPlate, plateIdx, uniqueSorted_eqK, mk?_eqK]
  decide

theorem ex_inner_mergeMin : ∃ u nu, build [] 2 exU = .ok u ∧ mergeMin 3 [3,0] u = .ok nu := by
  apply exists_of_isOk_bind (f := fun s => mergeMin 3 [3,0] s)
  simp only [build, mergeMin, relabel, encIds, mmSamples_eqK, uniqueSorted_eqK, mk?_eqK, encode1d_eqK]
  decide

theorem ex_inner_mergeTopBottom : ∃ u nu, build [] 2 exOne = .ok u ∧ mergeTopBottom 2 u = .ok nu := by
  apply exists_of_isOk_bind (f := fun s => mergeTopBottom 2 s)
  simp only [build, mergeTopBottom, relabel, encIds, tbSamples_eqK, uniqueSorted_eqK, mk?_eqK, encode1d_eqK]
  decide

theorem ex_inner_pairwise : ∃ u nu, build [] 2 exU = .ok u ∧ genPairwise 1 0 [] [[2,0,4,1,3]] [[genName 3]] u = .ok nu := by
  apply exists_of_isOk_bind (f := fun s => genPairwise 1 0 [] [[2,0,4,1,3]] [[genName 3]] s)
  simp only [select, combine, build, genPairwise, uniqueSorted_eqK, mk?_eqK,
    mergeSort_eq_isort _ intLe_trans intLe_total intLe_antisymm, mergeSort_eq_isort _ lexLe_trans lexLe_total lexLe_antisymm,
    mergeSort_eq_isort _ Lifecycle.nameLe_trans Lifecycle.nameLe_total Lifecycle.nameLe_antisymm]
  decide

/-! ### regression: the NPlatePerCellLineSmoother before commit 71ddddc (DESIGN section 7 #11)

  samples `s1`, `s2` with one unobserved plate each, `s3` with two, minimum 2.  The old smoother decided to drop the ids
  of `s1` and `s2` on the input screen but removed them one at a time through `to_screen()`, which renumbers the
  samples: it ends up keeping `s2` (one plate -- post-condition violated) and has lost `s3`; the current smoother keeps
  exactly `s3`. -/

def wRow (s p : Nat) : Row := ⟨[115, s], [[97], [98]], [1, 1], 5, [112, p], false⟩
def wRows : List Row := [wRow 49 49, wRow 50 50, wRow 51 51, wRow 51 52]

def sampleAndPlateCols (r : Except Err Screen) : Option (List Name × List Name) :=
  match r with | .ok s => some (s.snames, s.pnames) | .error _ => none

theorem nplate_old_violates :
    sampleAndPlateCols (build [] 2 wRows >>= fun u => nPlateOld 2 u) = some ([[115, 50]], [[112, 50]]) := by
  simp only [nPlateOld, nPlateOldLoop_eqK, select, build, plateIdx, uniqueSorted_eqK, mk?_eqK]
  decide

theorem nplate_new_keeps :
    sampleAndPlateCols (build [] 2 wRows >>= fun u => nPlate 2 u) = some ([[115, 51], [115, 51]], [[112, 51], [112, 52]]) := by
  simp only [nPlate, select, build, plateIdx, uniqueSorted_eqK, mk?_eqK]
  decide

end Batchie.Prep
