/-
  Conjugate-gamma bookkeeping for C08.  All identities are stated with `L` standing for the
  logarithm of the precision `p` being resampled; they hold for every real `L`, in particular for
  `L = Real.log p`.
-/
import Mathlib.Tactic.FieldSimp
import Batchie.Lemmas.GibbsSum

namespace Batchie.Gibbs
open Finset

theorem eps_val : (eps : ℝ) = 1 / 1000 := rfl
theorem half_val : (half : ℝ) = 1 / 2 := rfl

/-- a `Gamma(a, rate b)` prior times `n` Gaussian factors `p^{1/2} exp(−½ p q_i)`:
    the log-density is that of `Gamma(a + n/2, rate b + ½ Σ q_i)` -/
theorem gamma_conj (n : ℕ) (a b L p : ℝ) (q : ℕ → ℝ) :
    (a - 1) * L - b * p + ∑ i ∈ range n, ((1/2) * L - (1/2) * p * q i)
      = ((a + (1/2) * (n : ℝ)) - 1) * L - (b + (1/2) * ∑ i ∈ range n, q i) * p := by
  rw [sum_sub_distrib, sum_const, card_range, ← mul_sum, nsmul_eq_mul]
  ring

/-- `1/scale − ε` recovers the rate the code computed -/
theorem rate_of_scale (x : ℝ) : 1 / (1 / (x + eps)) - (eps : ℝ) = x := by
  rw [one_div_one_div]; ring

theorem sum_ite_ge_const (D d : ℕ) (k : ℝ) :
    ∑ e ∈ range D, (if d ≤ e then k else 0) = ((D - d : ℕ) : ℝ) * k := by
  induction D with
  | zero => simp
  | succ n ih =>
    rw [sum_range_succ, ih]
    by_cases h : d ≤ n
    · rw [if_pos h, Nat.succ_sub h]; push_cast; ring
    · rw [if_neg h]
      have h1 : n - d = 0 := by omega
      have h2 : n + 1 - d = 0 := by omega
      rw [h1, h2]; simp

/-- replacing one factor of a cumulative product -/
theorem cumprod_upd (g : ℕ → ℝ) (d e : ℕ) (p : ℝ) (hde : d ≤ e) (hg : g d ≠ 0) :
    cumprod (upd g d p) e = p * (cumprod g e / g d) := by
  unfold cumprod
  rw [prodN_eq, prodN_eq]
  have hm : d ∈ range (e + 1) := mem_range.mpr (by omega)
  rw [← mul_prod_erase _ _ hm, ← mul_prod_erase _ g hm, upd_same]
  have : ∏ x ∈ (range (e + 1)).erase d, upd g d p x = ∏ x ∈ (range (e + 1)).erase d, g x :=
    prod_congr rfl (fun x hx => upd_other _ _ _ _ (ne_of_mem_erase hx))
  rw [this]
  field_simp

end Batchie.Gibbs
