/-
  C16 across ROUNDS: between two batches the plates of the finished batch are reported with `Screen.set_observed`
  (`markObserved`); the next batch starts from the empty batch on that screen (`afterRounds s0 done`).  The side conditions of
  the history theorems survive ANY such report (whatever ids are reported), so they hold in every round.
-/
import Batchie.Lemmas.Policy

namespace Batchie.Lemmas.PolicyRounds

open Batchie.Policy
open Batchie.Lemmas.Policy

theorem markObserved_ids (s : List Plate) (ids : List Nat) :
    (markObserved s ids).map (·.id) = s.map (·.id) := by
  unfold markObserved
  rw [List.map_map]
  apply List.map_congr_left
  intro p _
  simp only [Function.comp]
  split <;> rfl

theorem mem_markObserved {s : List Plate} {ids : List Nat} {p : Plate} (h : p ∈ markObserved s ids) :
    ∃ q ∈ s, p.id = q.id ∧ p.samples = q.samples ∧
      ((ids.contains q.id = true ∧ p.observed = true) ∨ (ids.contains q.id = false ∧ p = q)) := by
  unfold markObserved at h
  obtain ⟨q, hq, rfl⟩ := List.mem_map.1 h
  refine ⟨q, hq, ?_⟩
  by_cases hc : ids.contains q.id = true
  · simp only [if_pos hc]
    exact ⟨trivial, trivial, Or.inl ⟨hc, trivial⟩⟩
  · have hc' : ids.contains q.id = false := by
      cases h' : ids.contains q.id
      · rfl
      · exact absurd h' hc
    simp only [if_neg hc]
    exact ⟨trivial, trivial, Or.inr ⟨hc', trivial⟩⟩

/-- the side conditions of `C16_select_histories` survive a round -/
theorem markObserved_ok {s : List Plate} (ids : List Nat) (hS : (s.map (·.id)).Nodup)
    (h1 : ∀ p ∈ s, p.observed = false → p.single = true) :
    ((markObserved s ids).map (·.id)).Nodup ∧ ∀ p ∈ markObserved s ids, p.observed = false → p.single = true := by
  refine ⟨by rw [markObserved_ids]; exact hS, ?_⟩
  intro p hp hobs
  obtain ⟨q, hq, _, hsam, hcase⟩ := mem_markObserved hp
  rcases hcase with ⟨_, ho⟩ | ⟨_, rfl⟩
  · rw [ho] at hobs; cases hobs
  · exact h1 p hq hobs

/-- a plate reported in a finished batch is observed afterwards -/
theorem observed_after_round {s : List Plate} {ids : List Nat} {p : Plate} (hp : p ∈ markObserved s ids)
    (hid : p.id ∈ ids) : p.observed = true := by
  obtain ⟨q, _, hpid, _, hcase⟩ := mem_markObserved hp
  rcases hcase with ⟨_, ho⟩ | ⟨hc, rfl⟩
  · exact ho
  · have : ids.contains p.id = true := by simpa using hid
    rw [this] at hc; cases hc

/-- observed plates stay observed -/
theorem observed_pres {s : List Plate} {ids : List Nat} (i : Nat) (h : ∀ q ∈ s, q.id = i → q.observed = true) :
    ∀ p ∈ markObserved s ids, p.id = i → p.observed = true := by
  intro p hp hid
  obtain ⟨q, hq, hpid, _, hcase⟩ := mem_markObserved hp
  rcases hcase with ⟨_, ho⟩ | ⟨_, rfl⟩
  · exact ho
  · exact h p hq hid

/-- after any number of rounds, every plate that was in one of the finished batches (or was observed before) is observed -/
theorem afterRounds_observed (done : List (List Nat)) (s : List Plate) (i : Nat)
    (h : (∃ b ∈ done, i ∈ b) ∨ (∀ q ∈ s, q.id = i → q.observed = true)) :
    ∀ p ∈ afterRounds s done, p.id = i → p.observed = true := by
  induction done generalizing s with
  | nil =>
    rcases h with ⟨b, hb, _⟩ | h
    · cases hb
    · simpa [afterRounds] using h
  | cons b rest ih =>
    have e : afterRounds s (b :: rest) = afterRounds (markObserved s b) rest := rfl
    rw [e]
    apply ih
    rcases h with ⟨b', hb', hi⟩ | h
    · rcases List.mem_cons.1 hb' with rfl | hr
      · exact Or.inr (fun q hq hid => observed_after_round hq (hid ▸ hi))
      · exact Or.inl ⟨b', hr, hi⟩
    · exact Or.inr (observed_pres i h)

theorem afterRounds_ok (done : List (List Nat)) {s : List Plate} (hS : (s.map (·.id)).Nodup)
    (h1 : ∀ p ∈ s, p.observed = false → p.single = true) :
    ((afterRounds s done).map (·.id)).Nodup ∧ ∀ p ∈ afterRounds s done, p.observed = false → p.single = true := by
  induction done generalizing s with
  | nil => exact ⟨hS, h1⟩
  | cons b rest ih =>
    have e : afterRounds s (b :: rest) = afterRounds (markObserved s b) rest := rfl
    rw [e]
    exact ih (markObserved_ok b hS h1).1 (markObserved_ok b hS h1).2

end Batchie.Lemmas.PolicyRounds
