/-
  Relabelling lemma for C05: a summand that is symmetric in its three indices, summed over all
  strictly decreasing triples below `n`, does not change when the indices are renamed by a
  permutation of `{0..n-1}`.
-/
import Mathlib.Algebra.BigOperators.Group.Finset.Basic
import Mathlib.Algebra.BigOperators.Ring.Finset
import Mathlib.Algebra.BigOperators.Group.Finset.Sigma
import Mathlib.Data.Real.Basic
import Mathlib.Tactic.Ring
import Mathlib.Tactic.Linarith
import Batchie.Lemmas.Dbal

namespace Batchie.Dbal
open Finset

/-- triple sum over the cube `{0..n-1}³` -/
def S3 (n : ℕ) (F : ℕ → ℕ → ℕ → ℝ) : ℝ := ∑ a ∈ range n, ∑ b ∈ range n, ∑ c ∈ range n, F a b c

theorem S3_swap23 (n : ℕ) (F : ℕ → ℕ → ℕ → ℝ) : S3 n F = S3 n (fun a b c => F a c b) := by
  unfold S3
  exact Finset.sum_congr rfl (fun a _ => Finset.sum_comm)

theorem S3_swap12 (n : ℕ) (F : ℕ → ℕ → ℕ → ℝ) : S3 n F = S3 n (fun a b c => F b a c) := by
  unfold S3
  exact Finset.sum_comm

theorem S3_add (n : ℕ) (F G : ℕ → ℕ → ℕ → ℝ) : S3 n (fun a b c => F a b c + G a b c) = S3 n F + S3 n G := by
  unfold S3
  simp only [Finset.sum_add_distrib]

theorem S3_congr (n : ℕ) (F G : ℕ → ℕ → ℕ → ℝ) (h : ∀ a b c, F a b c = G a b c) : S3 n F = S3 n G := by
  unfold S3
  simp only [h]

/-- sum over strictly decreasing triples -/
def T3 (n : ℕ) (G : ℕ → ℕ → ℕ → ℝ) : ℝ := S3 n (fun a b c => if c < b ∧ b < a then G a b c else 0)

/-- sum over pairwise distinct triples -/
def U3 (n : ℕ) (G : ℕ → ℕ → ℕ → ℝ) : ℝ := S3 n (fun a b c => if a ≠ b ∧ b ≠ c ∧ a ≠ c then G a b c else 0)

theorem indicator_split (a b c : ℕ) (x : ℝ) :
    (if a ≠ b ∧ b ≠ c ∧ a ≠ c then x else 0)
      = (if c < b ∧ b < a then x else 0) + (if b < c ∧ c < a then x else 0) + (if c < a ∧ a < b then x else 0)
        + (if a < c ∧ c < b then x else 0) + (if b < a ∧ a < c then x else 0) + (if a < b ∧ b < c then x else 0) := by
  split_ifs <;> first | (exfalso; omega) | simp

theorem U3_eq_six_T3 (n : ℕ) (G : ℕ → ℕ → ℕ → ℝ) (h12 : ∀ a b c, G a b c = G b a c)
    (h23 : ∀ a b c, G a b c = G a c b) : U3 n G = 6 * T3 n G := by
  have e2 : S3 n (fun a b c => if b < c ∧ c < a then G a b c else 0) = T3 n G := by
    rw [S3_swap23]; unfold T3; apply S3_congr; intro a b c; rw [h23 a c b]
  have e3 : S3 n (fun a b c => if c < a ∧ a < b then G a b c else 0) = T3 n G := by
    rw [S3_swap12]; unfold T3; apply S3_congr; intro a b c; rw [h12 b a c]
  have e4 : S3 n (fun a b c => if a < c ∧ c < b then G a b c else 0) = T3 n G := by
    rw [S3_swap12, S3_swap23]; unfold T3; apply S3_congr; intro a b c; rw [h12 c a b, h23 a c b]
  have e5 : S3 n (fun a b c => if b < a ∧ a < c then G a b c else 0) = T3 n G := by
    rw [S3_swap23, S3_swap12]; unfold T3; apply S3_congr; intro a b c; rw [h23 b c a, h12 b a c]
  have e6 : S3 n (fun a b c => if a < b ∧ b < c then G a b c else 0) = T3 n G := by
    rw [S3_swap12, S3_swap23, S3_swap12]; unfold T3; apply S3_congr; intro a b c
    rw [h12 c b a, h23 b c a, h12 b a c]
  unfold U3
  rw [S3_congr n _ _ (fun a b c => indicator_split a b c (G a b c))]
  simp only [S3_add]
  rw [e2, e3, e4, e5, e6]
  unfold T3
  ring

theorem S3_reindex (n : ℕ) (σ : Equiv.Perm ℕ) (hσ : ∀ i, σ i < n ↔ i < n) (F : ℕ → ℕ → ℕ → ℝ) :
    S3 n (fun a b c => F (σ a) (σ b) (σ c)) = S3 n F := by
  unfold S3
  have hm : ∀ i, i ∈ range n ↔ σ i ∈ range n := by intro i; simp [hσ]
  refine Finset.sum_equiv σ hm (fun a _ => ?_)
  refine Finset.sum_equiv σ hm (fun b _ => ?_)
  exact Finset.sum_equiv σ hm (fun c _ => rfl)

theorem U3_reindex (n : ℕ) (σ : Equiv.Perm ℕ) (hσ : ∀ i, σ i < n ↔ i < n) (G : ℕ → ℕ → ℕ → ℝ) :
    U3 n (fun a b c => G (σ a) (σ b) (σ c)) = U3 n G := by
  unfold U3
  rw [← S3_reindex n σ hσ (fun a b c => if a ≠ b ∧ b ≠ c ∧ a ≠ c then G a b c else 0)]
  apply S3_congr
  intro a b c
  simp only [ne_eq, EmbeddingLike.apply_eq_iff_eq]

/-- a symmetric summand summed over all strictly decreasing triples is invariant under relabelling -/
theorem T3_reindex (n : ℕ) (σ : Equiv.Perm ℕ) (hσ : ∀ i, σ i < n ↔ i < n) (G : ℕ → ℕ → ℕ → ℝ)
    (h12 : ∀ a b c, G a b c = G b a c) (h23 : ∀ a b c, G a b c = G a c b) :
    T3 n (fun a b c => G (σ a) (σ b) (σ c)) = T3 n G := by
  have h1 := U3_eq_six_T3 n (fun a b c => G (σ a) (σ b) (σ c)) (fun a b c => h12 _ _ _) (fun a b c => h23 _ _ _)
  have h2 := U3_eq_six_T3 n G h12 h23
  rw [U3_reindex n σ hσ G] at h1
  linarith

/-! ### from the list `allTriples n` to `T3` -/

theorem sum_map_flatMap {ι κ : Type} (l : List ι) (f : ι → List κ) (g : κ → ℝ) :
    ((l.flatMap f).map g).sum = (l.map (fun x => ((f x).map g).sum)).sum := by
  induction l with
  | nil => simp
  | cons a l ih => simp [List.flatMap_cons, ih]

theorem sum_list_range (n : ℕ) (h : ℕ → ℝ) : ((List.range n).map h).sum = ∑ a ∈ range n, h a := by
  induction n with
  | zero => simp
  | succ n ih => simp [List.range_succ, Finset.sum_range_succ, ih]

theorem sum_range_lt (n a : ℕ) (ha : a ≤ n) (F : ℕ → ℝ) :
    ∑ b ∈ range a, F b = ∑ b ∈ range n, if b < a then F b else 0 := by
  rw [← Finset.sum_filter]
  congr 1
  ext b
  simp only [mem_range, mem_filter]
  omega

theorem sum_allTriples (n : ℕ) (G : ℕ → ℕ → ℕ → ℝ) :
    ((allTriples n).map (fun t => G t.1 t.2.1 t.2.2)).sum = T3 n G := by
  unfold allTriples T3 S3
  rw [sum_map_flatMap, sum_list_range]
  apply Finset.sum_congr rfl
  intro a ha
  rw [sum_map_flatMap, sum_list_range, sum_range_lt n a (le_of_lt (mem_range.mp ha))]
  apply Finset.sum_congr rfl
  intro b hb
  rw [List.map_map, sum_list_range]
  by_cases hba : b < a
  · rw [if_pos hba, sum_range_lt n b (le_of_lt (mem_range.mp hb))]
    apply Finset.sum_congr rfl
    intro c _
    by_cases hcb : c < b <;> simp [hcb, hba]
  · rw [if_neg hba]
    symm
    apply Finset.sum_eq_zero
    intro c _
    simp [hba]

/-! ### the weight of a triple is symmetric in the triple -/

theorem gaussTerm_swap12 (e : Experiment ℝ) (a b c : ℕ) : gaussTerm e (a, b, c) = gaussTerm e (b, a, c) := by
  unfold gaussTerm
  simp only []
  have ha : tripleA (e.v a) (e.v b) (e.v c) = tripleA (e.v b) (e.v a) (e.v c) := by unfold tripleA; ring
  rw [ha]
  congr 2
  unfold sq
  ring

theorem gaussTerm_swap23 (e : Experiment ℝ) (a b c : ℕ) : gaussTerm e (a, b, c) = gaussTerm e (a, c, b) := by
  unfold gaussTerm
  simp only []
  have ha : tripleA (e.v a) (e.v b) (e.v c) = tripleA (e.v a) (e.v c) (e.v b) := by unfold tripleA; ring
  rw [ha]
  congr 2
  unfold sq
  ring

theorem tripleWeight_swap12 (D : ℕ → ℕ → ℝ) (hD : ∀ i j, D i j = D j i) (f : ℝ) (p : Plate ℝ) (a b c : ℕ) :
    tripleWeight D f p (a, b, c) = tripleWeight D f p (b, a, c) := by
  have hd : distSum D (a, b, c) = distSum D (b, a, c) := by
    unfold distSum; simp only []; rw [hD b a]; ring
  unfold tripleWeight
  rw [hd]
  simp only [gaussTerm_swap12 _ a b c]

theorem tripleWeight_swap23 (D : ℕ → ℕ → ℝ) (hD : ∀ i j, D i j = D j i) (f : ℝ) (p : Plate ℝ) (a b c : ℕ) :
    tripleWeight D f p (a, b, c) = tripleWeight D f p (a, c, b) := by
  have hd : distSum D (a, b, c) = distSum D (a, c, b) := by
    unfold distSum; simp only []; rw [hD c b]; ring
  unfold tripleWeight
  rw [hd]
  simp only [gaussTerm_swap23 _ a b c]

theorem tripleWeight_relabel (D : ℕ → ℕ → ℝ) (f : ℝ) (p : Plate ℝ) (σ : ℕ → ℕ) (a b c : ℕ) :
    tripleWeight (fun i j => D (σ i) (σ j)) f (p.map (Experiment.relabel σ)) (a, b, c)
      = tripleWeight D f p (σ a, σ b, σ c) := by
  unfold tripleWeight
  rw [List.map_map]
  rfl

theorem scoreDirect_relabel (n : ℕ) (D : ℕ → ℕ → ℝ) (hD : ∀ i j, D i j = D j i) (f : ℝ) (p : Plate ℝ)
    (σ : Equiv.Perm ℕ) (hσ : ∀ i, σ i < n ↔ i < n) :
    scoreDirect (fun i j => D (σ i) (σ j)) f (p.map (Experiment.relabel σ)) (allTriples n)
      = scoreDirect D f p (allTriples n) := by
  unfold scoreDirect
  congr 1
  have h1 := sum_allTriples n (fun a b c =>
    tripleWeight (fun i j => D (σ i) (σ j)) f (p.map (Experiment.relabel σ)) (a, b, c))
  have h2 := sum_allTriples n (fun a b c => tripleWeight D f p (a, b, c))
  simp only [Prod.mk.eta] at h1 h2
  rw [h1, h2]
  simp only [tripleWeight_relabel]
  exact T3_reindex n σ hσ (fun a b c => tripleWeight D f p (a, b, c))
    (tripleWeight_swap12 D hD f p) (tripleWeight_swap23 D hD f p)

end Batchie.Dbal
