/-
  The reference `scoreDirect` of the C05 model (written with `exp`/`log` only, so that it runs at
  `Float`) is the documented estimator written with real powers.
-/
import Mathlib.Analysis.SpecialFunctions.Pow.Real
import Batchie.Lemmas.Dbal
namespace Batchie.Dbal
open List

/-- the documented estimator's weight of a triple `(i, j, l)` for one plate, written with real
    powers: `(D i j + D j l + D i l)^factor · Π_e a_e^(-1/2) ·
    exp(-(v1 v2 v3)/(2 a_e²) · (v3 (m1-m2)² + v2 (m1-m3)² + v1 (m2-m3)²))`, `a_e = v1 v2 + v2 v3 + v1 v3` -/
noncomputable def documentedWeight (D : Nat → Nat → ℝ) (factor : ℝ) (p : Plate ℝ) (t : Triple) : ℝ :=
  (D t.1 t.2.1 + D t.2.1 t.2.2 + D t.1 t.2.2) ^ factor *
    (p.map (fun e =>
      (e.v t.1 * e.v t.2.1 + e.v t.2.1 * e.v t.2.2 + e.v t.1 * e.v t.2.2) ^ (-(1 / 2) : ℝ) *
        Real.exp (-(e.v t.1 * e.v t.2.1 * e.v t.2.2) /
            (2 * (e.v t.1 * e.v t.2.1 + e.v t.2.1 * e.v t.2.2 + e.v t.1 * e.v t.2.2) ^ 2) *
          (e.v t.2.2 * (e.m t.1 - e.m t.2.1) ^ 2 + e.v t.2.1 * (e.m t.1 - e.m t.2.2) ^ 2
            + e.v t.1 * (e.m t.2.1 - e.m t.2.2) ^ 2)))).prod

theorem gaussTerm_eq_documented (e : Experiment ℝ) (t : Triple)
    (hv : 0 < e.v t.1 ∧ 0 < e.v t.2.1 ∧ 0 < e.v t.2.2) :
    gaussTerm e t =
      (e.v t.1 * e.v t.2.1 + e.v t.2.1 * e.v t.2.2 + e.v t.1 * e.v t.2.2) ^ (-(1 / 2) : ℝ) *
        Real.exp (-(e.v t.1 * e.v t.2.1 * e.v t.2.2) /
            (2 * (e.v t.1 * e.v t.2.1 + e.v t.2.1 * e.v t.2.2 + e.v t.1 * e.v t.2.2) ^ 2) *
          (e.v t.2.2 * (e.m t.1 - e.m t.2.1) ^ 2 + e.v t.2.1 * (e.m t.1 - e.m t.2.2) ^ 2
            + e.v t.1 * (e.m t.2.1 - e.m t.2.2) ^ 2)) := by
  obtain ⟨h1, h2, h3⟩ := hv
  have ha : 0 < e.v t.1 * e.v t.2.1 + e.v t.2.1 * e.v t.2.2 + e.v t.1 * e.v t.2.2 := by positivity
  unfold gaussTerm invSqrt tripleA
  simp only [expLog_exp, expLog_log]
  rw [Real.rpow_def_of_pos ha]
  congr 2
  · unfold half; ring
  · unfold sq; ring

theorem tripleWeight_eq_documented (D : Nat → Nat → ℝ) (factor : ℝ) (hf : factor ≠ 0) (p : Plate ℝ) (t : Triple)
    (hd : 0 ≤ distSum D t) (hv : ∀ e ∈ p, 0 < e.v t.1 ∧ 0 < e.v t.2.1 ∧ 0 < e.v t.2.2) :
    tripleWeight D factor p t = documentedWeight D factor p t := by
  unfold tripleWeight documentedWeight
  have hmap : p.map (fun e => gaussTerm e t) = p.map (fun e =>
      (e.v t.1 * e.v t.2.1 + e.v t.2.1 * e.v t.2.2 + e.v t.1 * e.v t.2.2) ^ (-(1 / 2) : ℝ) *
        Real.exp (-(e.v t.1 * e.v t.2.1 * e.v t.2.2) /
            (2 * (e.v t.1 * e.v t.2.1 + e.v t.2.1 * e.v t.2.2 + e.v t.1 * e.v t.2.2) ^ 2) *
          (e.v t.2.2 * (e.m t.1 - e.m t.2.1) ^ 2 + e.v t.2.1 * (e.m t.1 - e.m t.2.2) ^ 2
            + e.v t.1 * (e.m t.2.1 - e.m t.2.2) ^ 2))) :=
    List.map_congr_left (fun e he => gaussTerm_eq_documented e t (hv e he))
  rw [hmap, prodL_eq_prod]
  by_cases hz : distSum D t = 0
  · have hz' : D t.1 t.2.1 + D t.2.1 t.2.2 + D t.1 t.2.2 = 0 := hz
    simp [hz, hz', Real.zero_rpow hf]
  · have hpos : 0 < D t.1 t.2.1 + D t.2.1 t.2.2 + D t.1 t.2.2 := lt_of_le_of_ne hd (Ne.symm hz)
    simp only [expLog_isZero, hz, decide_false, Bool.false_eq_true, if_false, expLog_exp, expLog_log]
    rw [Real.rpow_def_of_pos hpos]
    unfold distSum
    rw [mul_comm factor]

end Batchie.Dbal
