/-
  Every screen returned by the model's `Screen.__init__` (`mk?`) has one sample id, one row of treatment
  ids and one plate id per experiment (`ScreenWF`), so the well-formedness hypothesis of the C06 theorems
  holds for every constructed screen.
-/
import Batchie.Lemmas.Scores
namespace Batchie.Lemmas.Scores
open Batchie.Scores Batchie.Screen Batchie.Proto

/-! ### every constructed screen is well formed -/

theorem zipIdx_filter_length {α : Type} (l : List α) (q : α → Bool) (n : Nat) :
    ((l.zipIdx n).filter (fun p => q p.1)).length = (l.filter q).length := by
  induction l generalizing n with
  | nil => rfl
  | cons a l ih =>
    simp only [List.zipIdx_cons, List.filter_cons]
    split <;> simp [ih]

theorem sLookup_fresh_length_le (xs : List Name) (k : Name) : (sLookup (freshSMap xs) k).length ≤ 1 := by
  unfold sLookup freshSMap
  simp only [List.length_map, List.filter_map, Function.comp_def]
  rw [zipIdx_filter_length _ (fun x => x == k)]
  have hnd : ((xs.eraseDups).mergeSort nameLe).Nodup :=
    (List.mergeSort_perm _ _).nodup_iff.mpr (nodup_eraseDups _)
  rw [← List.count_eq_length_filter]
  exact List.nodup_iff_count.mp hnd k

theorem sum_map_length_eq {α : Type} (L : List (List α)) (h : ∀ l ∈ L, l.length = 1) : (L.map List.length).sum = L.length := by
  induction L with
  | nil => rfl
  | cons l L ih =>
    simp only [List.map_cons, List.sum_cons, List.length_cons]
    rw [h l (by simp), ih (fun x hx => h x (by simp [hx]))]
    omega

theorem encode1d_fresh_length (xs : List Name) (v : List Int × SMap) (h : encode1d xs none = .ok v) :
    v.1.length = xs.length := by
  unfold encode1d at h
  simp only at h
  split at h
  · cases h
  · next hany =>
    cases h
    simp only [List.length_flatten, List.map_map]
    have : ∀ l ∈ xs.map (sLookup (freshSMap xs)), l.length = 1 := by
      intro l hl
      obtain ⟨k, _, rfl⟩ := List.mem_map.mp hl
      have h1 := sLookup_fresh_length_le xs k
      have h2 : (sLookup (freshSMap xs) k).isEmpty = false := by
        cases hemp : (sLookup (freshSMap xs) k).isEmpty with
        | false => rfl
        | true =>
          exfalso; apply hany
          exact List.any_eq_true.mpr ⟨_, hl, hemp⟩
      cases hs : sLookup (freshSMap xs) k with
      | nil => simp [hs] at h2
      | cons a t => rw [hs] at h1; simp at h1; simp [h1]
    have := sum_map_length_eq _ this
    simpa [List.map_map] using this

theorem unflattenColumns_length (flat : List Int) (n arity : Nat) : (unflattenColumns flat n arity).length = n := by
  simp [unflattenColumns]

theorem mk?_wf_0000 (ctrl : Name) (arity : Nat) (tnames : List (List Name)) (tdoses : List (List Dose)) (snames pnames : List Name)
    (s : Screen)
    (h : mk? ⟨ctrl, arity, tnames, tdoses, snames, pnames, none, none, none, none⟩ = .ok s) : ScreenWF s := by
  unfold mk? at h
  generalize hep : encode1d pnames none = ep at h
  generalize encode1d snames _ = es at h
  simp only [bind, Except.bind, pure, Except.pure, throw, throwThe, MonadExceptOf.throw] at h
  split at h
  · cases h
  next h1 =>
  repeat (split at h <;> try (cases h; done))
  all_goals
    cases h
    have hp := encode1d_fresh_length _ _ hep
    simp only [Bool.or_eq_true, bne_iff_ne, ne_eq, not_or, Decidable.not_not] at *
    exact ⟨by simp [*], by simp [unflattenColumns_length, *]⟩

theorem mk?_wf_0001 (ctrl : Name) (arity : Nat) (tnames : List (List Name)) (tdoses : List (List Dose)) (snames pnames : List Name)
    (sm : SMap) (s : Screen)
    (h : mk? ⟨ctrl, arity, tnames, tdoses, snames, pnames, none, none, none, some sm⟩ = .ok s) : ScreenWF s := by
  unfold mk? at h
  generalize hep : encode1d pnames none = ep at h
  generalize encode1d snames _ = es at h
  simp only [bind, Except.bind, pure, Except.pure, throw, throwThe, MonadExceptOf.throw] at h
  split at h
  · cases h
  next h1 =>
  repeat (split at h <;> try (cases h; done))
  all_goals
    cases h
    have hp := encode1d_fresh_length _ _ hep
    simp only [Bool.or_eq_true, bne_iff_ne, ne_eq, not_or, Decidable.not_not] at *
    exact ⟨by simp [*], by simp [unflattenColumns_length, *]⟩

theorem mk?_wf_0010 (ctrl : Name) (arity : Nat) (tnames : List (List Name)) (tdoses : List (List Dose)) (snames pnames : List Name)
    (tm : TMap) (s : Screen)
    (h : mk? ⟨ctrl, arity, tnames, tdoses, snames, pnames, none, none, some tm, none⟩ = .ok s) : ScreenWF s := by
  unfold mk? at h
  generalize hep : encode1d pnames none = ep at h
  generalize encode1d snames _ = es at h
  simp only [bind, Except.bind, pure, Except.pure, throw, throwThe, MonadExceptOf.throw] at h
  split at h
  · cases h
  next h1 =>
  repeat (split at h <;> try (cases h; done))
  all_goals
    cases h
    have hp := encode1d_fresh_length _ _ hep
    simp only [Bool.or_eq_true, bne_iff_ne, ne_eq, not_or, Decidable.not_not] at *
    exact ⟨by simp [*], by simp [unflattenColumns_length, *]⟩

theorem mk?_wf_0011 (ctrl : Name) (arity : Nat) (tnames : List (List Name)) (tdoses : List (List Dose)) (snames pnames : List Name)
    (tm : TMap) (sm : SMap) (s : Screen)
    (h : mk? ⟨ctrl, arity, tnames, tdoses, snames, pnames, none, none, some tm, some sm⟩ = .ok s) : ScreenWF s := by
  unfold mk? at h
  generalize hep : encode1d pnames none = ep at h
  generalize encode1d snames _ = es at h
  simp only [bind, Except.bind, pure, Except.pure, throw, throwThe, MonadExceptOf.throw] at h
  split at h
  · cases h
  next h1 =>
  repeat (split at h <;> try (cases h; done))
  all_goals
    cases h
    have hp := encode1d_fresh_length _ _ hep
    simp only [Bool.or_eq_true, bne_iff_ne, ne_eq, not_or, Decidable.not_not] at *
    exact ⟨by simp [*], by simp [unflattenColumns_length, *]⟩

theorem mk?_wf_0100 (ctrl : Name) (arity : Nat) (tnames : List (List Name)) (tdoses : List (List Dose)) (snames pnames : List Name)
    (m : List Bool) (s : Screen)
    (h : mk? ⟨ctrl, arity, tnames, tdoses, snames, pnames, none, some m, none, none⟩ = .ok s) : ScreenWF s := by
  unfold mk? at h
  generalize hep : encode1d pnames none = ep at h
  generalize encode1d snames _ = es at h
  simp only [bind, Except.bind, pure, Except.pure, throw, throwThe, MonadExceptOf.throw] at h
  split at h
  · cases h
  next h1 =>
  repeat (split at h <;> try (cases h; done))
  all_goals
    cases h
    have hp := encode1d_fresh_length _ _ hep
    simp only [Bool.or_eq_true, bne_iff_ne, ne_eq, not_or, Decidable.not_not] at *
    exact ⟨by simp [*], by simp [unflattenColumns_length, *]⟩

theorem mk?_wf_0101 (ctrl : Name) (arity : Nat) (tnames : List (List Name)) (tdoses : List (List Dose)) (snames pnames : List Name)
    (m : List Bool) (sm : SMap) (s : Screen)
    (h : mk? ⟨ctrl, arity, tnames, tdoses, snames, pnames, none, some m, none, some sm⟩ = .ok s) : ScreenWF s := by
  unfold mk? at h
  generalize hep : encode1d pnames none = ep at h
  generalize encode1d snames _ = es at h
  simp only [bind, Except.bind, pure, Except.pure, throw, throwThe, MonadExceptOf.throw] at h
  split at h
  · cases h
  next h1 =>
  repeat (split at h <;> try (cases h; done))
  all_goals
    cases h
    have hp := encode1d_fresh_length _ _ hep
    simp only [Bool.or_eq_true, bne_iff_ne, ne_eq, not_or, Decidable.not_not] at *
    exact ⟨by simp [*], by simp [unflattenColumns_length, *]⟩

theorem mk?_wf_0110 (ctrl : Name) (arity : Nat) (tnames : List (List Name)) (tdoses : List (List Dose)) (snames pnames : List Name)
    (m : List Bool) (tm : TMap) (s : Screen)
    (h : mk? ⟨ctrl, arity, tnames, tdoses, snames, pnames, none, some m, some tm, none⟩ = .ok s) : ScreenWF s := by
  unfold mk? at h
  generalize hep : encode1d pnames none = ep at h
  generalize encode1d snames _ = es at h
  simp only [bind, Except.bind, pure, Except.pure, throw, throwThe, MonadExceptOf.throw] at h
  split at h
  · cases h
  next h1 =>
  repeat (split at h <;> try (cases h; done))
  all_goals
    cases h
    have hp := encode1d_fresh_length _ _ hep
    simp only [Bool.or_eq_true, bne_iff_ne, ne_eq, not_or, Decidable.not_not] at *
    exact ⟨by simp [*], by simp [unflattenColumns_length, *]⟩

theorem mk?_wf_0111 (ctrl : Name) (arity : Nat) (tnames : List (List Name)) (tdoses : List (List Dose)) (snames pnames : List Name)
    (m : List Bool) (tm : TMap) (sm : SMap) (s : Screen)
    (h : mk? ⟨ctrl, arity, tnames, tdoses, snames, pnames, none, some m, some tm, some sm⟩ = .ok s) : ScreenWF s := by
  unfold mk? at h
  generalize hep : encode1d pnames none = ep at h
  generalize encode1d snames _ = es at h
  simp only [bind, Except.bind, pure, Except.pure, throw, throwThe, MonadExceptOf.throw] at h
  split at h
  · cases h
  next h1 =>
  repeat (split at h <;> try (cases h; done))
  all_goals
    cases h
    have hp := encode1d_fresh_length _ _ hep
    simp only [Bool.or_eq_true, bne_iff_ne, ne_eq, not_or, Decidable.not_not] at *
    exact ⟨by simp [*], by simp [unflattenColumns_length, *]⟩

theorem mk?_wf_1000 (ctrl : Name) (arity : Nat) (tnames : List (List Name)) (tdoses : List (List Dose)) (snames pnames : List Name)
    (o : List Nat) (s : Screen)
    (h : mk? ⟨ctrl, arity, tnames, tdoses, snames, pnames, some o, none, none, none⟩ = .ok s) : ScreenWF s := by
  unfold mk? at h
  generalize hep : encode1d pnames none = ep at h
  generalize encode1d snames _ = es at h
  simp only [bind, Except.bind, pure, Except.pure, throw, throwThe, MonadExceptOf.throw] at h
  split at h
  · cases h
  next h1 =>
  repeat (split at h <;> try (cases h; done))
  all_goals
    cases h
    have hp := encode1d_fresh_length _ _ hep
    simp only [Bool.or_eq_true, bne_iff_ne, ne_eq, not_or, Decidable.not_not] at *
    exact ⟨by simp [*], by simp [unflattenColumns_length, *]⟩

theorem mk?_wf_1001 (ctrl : Name) (arity : Nat) (tnames : List (List Name)) (tdoses : List (List Dose)) (snames pnames : List Name)
    (o : List Nat) (sm : SMap) (s : Screen)
    (h : mk? ⟨ctrl, arity, tnames, tdoses, snames, pnames, some o, none, none, some sm⟩ = .ok s) : ScreenWF s := by
  unfold mk? at h
  generalize hep : encode1d pnames none = ep at h
  generalize encode1d snames _ = es at h
  simp only [bind, Except.bind, pure, Except.pure, throw, throwThe, MonadExceptOf.throw] at h
  split at h
  · cases h
  next h1 =>
  repeat (split at h <;> try (cases h; done))
  all_goals
    cases h
    have hp := encode1d_fresh_length _ _ hep
    simp only [Bool.or_eq_true, bne_iff_ne, ne_eq, not_or, Decidable.not_not] at *
    exact ⟨by simp [*], by simp [unflattenColumns_length, *]⟩

theorem mk?_wf_1010 (ctrl : Name) (arity : Nat) (tnames : List (List Name)) (tdoses : List (List Dose)) (snames pnames : List Name)
    (o : List Nat) (tm : TMap) (s : Screen)
    (h : mk? ⟨ctrl, arity, tnames, tdoses, snames, pnames, some o, none, some tm, none⟩ = .ok s) : ScreenWF s := by
  unfold mk? at h
  generalize hep : encode1d pnames none = ep at h
  generalize encode1d snames _ = es at h
  simp only [bind, Except.bind, pure, Except.pure, throw, throwThe, MonadExceptOf.throw] at h
  split at h
  · cases h
  next h1 =>
  repeat (split at h <;> try (cases h; done))
  all_goals
    cases h
    have hp := encode1d_fresh_length _ _ hep
    simp only [Bool.or_eq_true, bne_iff_ne, ne_eq, not_or, Decidable.not_not] at *
    exact ⟨by simp [*], by simp [unflattenColumns_length, *]⟩

theorem mk?_wf_1011 (ctrl : Name) (arity : Nat) (tnames : List (List Name)) (tdoses : List (List Dose)) (snames pnames : List Name)
    (o : List Nat) (tm : TMap) (sm : SMap) (s : Screen)
    (h : mk? ⟨ctrl, arity, tnames, tdoses, snames, pnames, some o, none, some tm, some sm⟩ = .ok s) : ScreenWF s := by
  unfold mk? at h
  generalize hep : encode1d pnames none = ep at h
  generalize encode1d snames _ = es at h
  simp only [bind, Except.bind, pure, Except.pure, throw, throwThe, MonadExceptOf.throw] at h
  split at h
  · cases h
  next h1 =>
  repeat (split at h <;> try (cases h; done))
  all_goals
    cases h
    have hp := encode1d_fresh_length _ _ hep
    simp only [Bool.or_eq_true, bne_iff_ne, ne_eq, not_or, Decidable.not_not] at *
    exact ⟨by simp [*], by simp [unflattenColumns_length, *]⟩

theorem mk?_wf_1100 (ctrl : Name) (arity : Nat) (tnames : List (List Name)) (tdoses : List (List Dose)) (snames pnames : List Name)
    (o : List Nat) (m : List Bool) (s : Screen)
    (h : mk? ⟨ctrl, arity, tnames, tdoses, snames, pnames, some o, some m, none, none⟩ = .ok s) : ScreenWF s := by
  unfold mk? at h
  generalize hep : encode1d pnames none = ep at h
  generalize encode1d snames _ = es at h
  simp only [bind, Except.bind, pure, Except.pure, throw, throwThe, MonadExceptOf.throw] at h
  split at h
  · cases h
  next h1 =>
  repeat (split at h <;> try (cases h; done))
  all_goals
    cases h
    have hp := encode1d_fresh_length _ _ hep
    simp only [Bool.or_eq_true, bne_iff_ne, ne_eq, not_or, Decidable.not_not] at *
    exact ⟨by simp [*], by simp [unflattenColumns_length, *]⟩

theorem mk?_wf_1101 (ctrl : Name) (arity : Nat) (tnames : List (List Name)) (tdoses : List (List Dose)) (snames pnames : List Name)
    (o : List Nat) (m : List Bool) (sm : SMap) (s : Screen)
    (h : mk? ⟨ctrl, arity, tnames, tdoses, snames, pnames, some o, some m, none, some sm⟩ = .ok s) : ScreenWF s := by
  unfold mk? at h
  generalize hep : encode1d pnames none = ep at h
  generalize encode1d snames _ = es at h
  simp only [bind, Except.bind, pure, Except.pure, throw, throwThe, MonadExceptOf.throw] at h
  split at h
  · cases h
  next h1 =>
  repeat (split at h <;> try (cases h; done))
  all_goals
    cases h
    have hp := encode1d_fresh_length _ _ hep
    simp only [Bool.or_eq_true, bne_iff_ne, ne_eq, not_or, Decidable.not_not] at *
    exact ⟨by simp [*], by simp [unflattenColumns_length, *]⟩

theorem mk?_wf_1110 (ctrl : Name) (arity : Nat) (tnames : List (List Name)) (tdoses : List (List Dose)) (snames pnames : List Name)
    (o : List Nat) (m : List Bool) (tm : TMap) (s : Screen)
    (h : mk? ⟨ctrl, arity, tnames, tdoses, snames, pnames, some o, some m, some tm, none⟩ = .ok s) : ScreenWF s := by
  unfold mk? at h
  generalize hep : encode1d pnames none = ep at h
  generalize encode1d snames _ = es at h
  simp only [bind, Except.bind, pure, Except.pure, throw, throwThe, MonadExceptOf.throw] at h
  split at h
  · cases h
  next h1 =>
  repeat (split at h <;> try (cases h; done))
  all_goals
    cases h
    have hp := encode1d_fresh_length _ _ hep
    simp only [Bool.or_eq_true, bne_iff_ne, ne_eq, not_or, Decidable.not_not] at *
    exact ⟨by simp [*], by simp [unflattenColumns_length, *]⟩

theorem mk?_wf_1111 (ctrl : Name) (arity : Nat) (tnames : List (List Name)) (tdoses : List (List Dose)) (snames pnames : List Name)
    (o : List Nat) (m : List Bool) (tm : TMap) (sm : SMap) (s : Screen)
    (h : mk? ⟨ctrl, arity, tnames, tdoses, snames, pnames, some o, some m, some tm, some sm⟩ = .ok s) : ScreenWF s := by
  unfold mk? at h
  generalize hep : encode1d pnames none = ep at h
  generalize encode1d snames _ = es at h
  simp only [bind, Except.bind, pure, Except.pure, throw, throwThe, MonadExceptOf.throw] at h
  split at h
  · cases h
  next h1 =>
  repeat (split at h <;> try (cases h; done))
  all_goals
    cases h
    have hp := encode1d_fresh_length _ _ hep
    simp only [Bool.or_eq_true, bne_iff_ne, ne_eq, not_or, Decidable.not_not] at *
    exact ⟨by simp [*], by simp [unflattenColumns_length, *]⟩

/-- every screen the constructor returns has one sample id, one treatment-id row and one plate id per experiment -/
theorem mk?_wf (r : Raw) (s : Screen) (h : mk? r = .ok s) : ScreenWF s := by
  obtain ⟨ctrl, arity, tnames, tdoses, snames, pnames, obs, mask, tmap, smap⟩ := r
  cases obs <;> cases mask <;> cases tmap <;> cases smap
  · exact mk?_wf_0000 _ _ _ _ _ _ s h
  · exact mk?_wf_0001 _ _ _ _ _ _ _ s h
  · exact mk?_wf_0010 _ _ _ _ _ _ _ s h
  · exact mk?_wf_0011 _ _ _ _ _ _ _ _ s h
  · exact mk?_wf_0100 _ _ _ _ _ _ _ s h
  · exact mk?_wf_0101 _ _ _ _ _ _ _ _ s h
  · exact mk?_wf_0110 _ _ _ _ _ _ _ _ s h
  · exact mk?_wf_0111 _ _ _ _ _ _ _ _ _ s h
  · exact mk?_wf_1000 _ _ _ _ _ _ _ s h
  · exact mk?_wf_1001 _ _ _ _ _ _ _ _ s h
  · exact mk?_wf_1010 _ _ _ _ _ _ _ _ s h
  · exact mk?_wf_1011 _ _ _ _ _ _ _ _ _ s h
  · exact mk?_wf_1100 _ _ _ _ _ _ _ _ s h
  · exact mk?_wf_1101 _ _ _ _ _ _ _ _ _ s h
  · exact mk?_wf_1110 _ _ _ _ _ _ _ _ _ s h
  · exact mk?_wf_1111 _ _ _ _ _ _ _ _ _ _ s h

end Batchie.Lemmas.Scores
