/-
  C11 / C13 helper lemmas, part 10: the row-level `select` of `Model/Prep.lean` *is* the shared model's
  `Screen.viewToScreen` (`subset(sel).to_screen()`) on every constructed screen.
-/
import Batchie.Lemmas.PrepBasic
namespace Batchie.Prep
open Batchie.Proto Batchie.Screen

theorem rowsOf_cols' {s : Screen} (n : Nat) (h1 : s.snames.length = n) (h2 : s.tnames.length = n) (h3 : s.tdoses.length = n)
    (h4 : s.obs.length = n) (h5 : s.pnames.length = n) (h6 : s.mask.length = n) :
    s.tnames = (rowsOf s).map (·.tn) ∧ s.tdoses = (rowsOf s).map (·.td) ∧ s.obs = (rowsOf s).map (·.obs) := by
  unfold rowsOf
  refine ⟨?_, ?_, ?_⟩
  · simp only [List.map_map]
    have : ((fun x : Row => x.tn) ∘ mkRow) = Prod.snd ∘ Prod.fst ∘ Prod.fst ∘ Prod.fst ∘ Prod.fst := rfl
    rw [this]
    simp only [← List.map_map]
    rw [List.map_fst_zip (by simp [List.length_zip]; omega), List.map_fst_zip (by simp [List.length_zip]; omega),
      List.map_fst_zip (by simp [List.length_zip]; omega), List.map_fst_zip (by simp [List.length_zip]; omega),
      List.map_snd_zip (by omega)]
  · simp only [List.map_map]
    have : ((fun x : Row => x.td) ∘ mkRow) = Prod.snd ∘ Prod.fst ∘ Prod.fst ∘ Prod.fst := rfl
    rw [this]
    simp only [← List.map_map]
    rw [List.map_fst_zip (by simp [List.length_zip]; omega), List.map_fst_zip (by simp [List.length_zip]; omega),
      List.map_fst_zip (by simp [List.length_zip]; omega), List.map_snd_zip (by simp [List.length_zip]; omega)]
  · simp only [List.map_map]
    have : ((fun x : Row => x.obs) ∘ mkRow) = Prod.snd ∘ Prod.fst ∘ Prod.fst := rfl
    rw [this]
    simp only [← List.map_map]
    rw [List.map_fst_zip (by simp [List.length_zip]; omega), List.map_fst_zip (by simp [List.length_zip]; omega),
      List.map_snd_zip (by simp [List.length_zip]; omega)]

/-- `Prep.select` agrees with the shared `Screen.viewToScreen` on every constructed screen and every selection vector -/
theorem select_eq_viewToScreen {r : Raw} {s : Screen} (hs : mk? r = .ok s) (sel : List Bool) :
    select s sel = s.viewToScreen { parent := 0, sel := sel } := by
  have m := (mk?_ok_iff r s).mp hs
  have ho : s.obs.length = r.tnames.length := by
    rw [m.obs_eq]
    have := m.len_obs
    unfold obsLenBad at this; unfold obsOf
    cases hobs : r.obs with
    | none => simp
    | some o => rw [hobs] at this; simpa using this
  have l1 : s.snames.length = r.tnames.length := by rw [m.snames_eq, m.len_snames]
  have l2 : s.tnames.length = r.tnames.length := by rw [m.tnames_eq]
  have l3 : s.tdoses.length = r.tnames.length := by rw [m.tdoses_eq, m.len_tdoses]
  have l5 : s.pnames.length = r.tnames.length := by rw [m.pnames_eq, m.len_pnames]
  have l6 : s.mask.length = r.tnames.length := by rw [m.mask_eq, m.len_mask]
  obtain ⟨_, e1, e2, e3⟩ := rowsOf_cols (s := s) r.tnames.length l1 l2 l3 ho l5 l6
  obtain ⟨e4, e5, e6⟩ := rowsOf_cols' (s := s) r.tnames.length l1 l2 l3 ho l5 l6
  unfold select build Screen.viewToScreen rawOfRows
  simp only [← maskFilter_map]
  rw [← e1, ← e2, ← e3, ← e4, ← e5, ← e6]

end Batchie.Prep
