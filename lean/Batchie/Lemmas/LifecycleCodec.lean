/-
  The string-table codec of `Model/Persist.lean`: strict UTF-8 decode after encode is the identity on
  Unicode scalar values, zero padding is removed again unless the name itself ends in U+0000, hence
  `decodeTable (encodeTable names) = names`.
-/
import Batchie.Model.Persist

namespace Batchie.Lifecycle
open Batchie.Proto Batchie.Screen Batchie.Persist

/-- a Unicode scalar value (what a Python `str` that can be UTF-8 encoded consists of) -/
def IsScalar (c : Nat) : Prop := c < 0xD800 ∨ (0xE000 ≤ c ∧ c < 0x110000)

instance (c : Nat) : Decidable (IsScalar c) := by unfold IsScalar; infer_instance

/-- a name numpy can store: scalar values only, and not ending in U+0000 (numpy strips those itself) -/
def NameOK (n : Name) : Prop := (∀ c ∈ n, IsScalar c) ∧ n.getLast? ≠ some 0

instance (n : Name) : Decidable (NameOK n) := by unfold NameOK; infer_instance

theorem utf8Decode_encodeChar (c : Nat) (hc : IsScalar c) (rest : List Nat) :
    utf8Decode (utf8EncodeChar c ++ rest) = (utf8Decode rest).map (c :: ·) := by
  unfold IsScalar at hc
  unfold utf8EncodeChar
  by_cases h1 : c < 0x80
  · simp only [h1, ↓reduceIte, List.cons_append, List.nil_append]
    conv => lhs; rw [utf8Decode.eq_def]
    simp only [h1, ↓reduceIte]
  · by_cases h2 : c < 0x800
    · simp only [h1, h2, ↓reduceIte, List.cons_append, List.nil_append]
      conv => lhs; rw [utf8Decode.eq_def]
      have a1 : ¬ (0xC0 + c / 0x40 < 0x80) := by omega
      have a2 : ¬ (0xC0 + c / 0x40 < 0xC0) := by omega
      have a3 : 0xC0 + c / 0x40 < 0xE0 := by omega
      have a4 : (0xC0 + c / 0x40 - 0xC0) * 0x40 + (0x80 + c % 0x40 - 0x80) = c := by omega
      have a5 : isCont (0x80 + c % 0x40) = true := by
        simp only [isCont, Bool.and_eq_true, decide_eq_true_eq]; omega
      have a6 : 0x80 ≤ c := by omega
      simp only [a1, a2, a3, a4, a5, a6, ↓reduceIte, decide_true, Bool.and_self]
    · by_cases h3 : c < 0x10000
      · simp only [h1, h2, h3, ↓reduceIte, List.cons_append, List.nil_append]
        conv => lhs; rw [utf8Decode.eq_def]
        have a1 : ¬ (0xE0 + c / 0x1000 < 0x80) := by omega
        have a2 : ¬ (0xE0 + c / 0x1000 < 0xC0) := by omega
        have a3 : ¬ (0xE0 + c / 0x1000 < 0xE0) := by omega
        have a3' : 0xE0 + c / 0x1000 < 0xF0 := by omega
        have a4 : (0xE0 + c / 0x1000 - 0xE0) * 0x1000 + (0x80 + c / 0x40 % 0x40 - 0x80) * 0x40
            + (0x80 + c % 0x40 - 0x80) = c := by omega
        have a5 : isCont (0x80 + c / 0x40 % 0x40) = true := by
          simp only [isCont, Bool.and_eq_true, decide_eq_true_eq]; omega
        have a5' : isCont (0x80 + c % 0x40) = true := by
          simp only [isCont, Bool.and_eq_true, decide_eq_true_eq]; omega
        have a6 : 0x800 ≤ c := by omega
        have a7 : (decide (0xD800 ≤ c) && decide (c < 0xE000)) = false := by
          simp only [Bool.and_eq_false_iff, decide_eq_false_iff_not]; omega
        simp only [a1, a2, a3, a3', a4, a5, a5', a6, a7, ↓reduceIte, decide_true, Bool.and_self, Bool.not_false]
      · simp only [h1, h2, h3, ↓reduceIte, List.cons_append, List.nil_append]
        conv => lhs; rw [utf8Decode.eq_def]
        have a1 : ¬ (0xF0 + c / 0x40000 < 0x80) := by omega
        have a2 : ¬ (0xF0 + c / 0x40000 < 0xC0) := by omega
        have a3 : ¬ (0xF0 + c / 0x40000 < 0xE0) := by omega
        have a3' : ¬ (0xF0 + c / 0x40000 < 0xF0) := by omega
        have a3'' : 0xF0 + c / 0x40000 < 0xF8 := by omega
        have a4 : (0xF0 + c / 0x40000 - 0xF0) * 0x40000 + (0x80 + c / 0x1000 % 0x40 - 0x80) * 0x1000
            + (0x80 + c / 0x40 % 0x40 - 0x80) * 0x40 + (0x80 + c % 0x40 - 0x80) = c := by omega
        have a5 : isCont (0x80 + c / 0x1000 % 0x40) = true := by
          simp only [isCont, Bool.and_eq_true, decide_eq_true_eq]; omega
        have a5' : isCont (0x80 + c / 0x40 % 0x40) = true := by
          simp only [isCont, Bool.and_eq_true, decide_eq_true_eq]; omega
        have a5'' : isCont (0x80 + c % 0x40) = true := by
          simp only [isCont, Bool.and_eq_true, decide_eq_true_eq]; omega
        have a6 : 0x10000 ≤ c := by omega
        have a7 : c < 0x110000 := by omega
        simp only [a1, a2, a3, a3', a3'', a4, a5, a5', a5'', a6, a7, ↓reduceIte, decide_true, Bool.and_self]

/-- strict UTF-8 decoding inverts encoding on scalar values -/
theorem utf8Decode_encode (n : Name) (h : ∀ c ∈ n, IsScalar c) : utf8Decode (utf8Encode n) = some n := by
  induction n with
  | nil => simp [utf8Encode, utf8Decode]
  | cons c cs ih =>
    have : utf8Encode (c :: cs) = utf8EncodeChar c ++ utf8Encode cs := by simp [utf8Encode]
    rw [this, utf8Decode_encodeChar c (h c List.mem_cons_self), ih (fun x hx => h x (List.mem_cons_of_mem _ hx))]
    rfl

/-! ### padding and stripping -/

theorem stripZeros_replicate (k : Nat) : stripZeros (List.replicate k 0) = [] := by
  induction k with
  | zero => rfl
  | succ k ih => simp [List.replicate_succ, stripZeros, ih]

theorem stripZeros_append_zeros (l : List Nat) (k : Nat) :
    stripZeros (l ++ List.replicate k 0) = stripZeros l := by
  induction l with
  | nil => simp [stripZeros_replicate, stripZeros]
  | cons b bs ih => simp only [List.cons_append, stripZeros, ih]

theorem stripZeros_eq_self (l : List Nat) (h : l.getLast? ≠ some 0) : stripZeros l = l := by
  induction l with
  | nil => rfl
  | cons b bs ih =>
    cases bs with
    | nil =>
      have hb : b ≠ 0 := by simpa using h
      simp [stripZeros, hb]
    | cons b' bs' =>
      have h' : (b' :: bs').getLast? ≠ some 0 := by simpa [List.getLast?_cons_cons] using h
      show (if (stripZeros (b' :: bs')).isEmpty && b == 0 then [] else b :: stripZeros (b' :: bs')) = _
      rw [ih h']
      simp

theorem getLast?_encodeChar (c : Nat) (hc : c ≠ 0) : (utf8EncodeChar c).getLast? ≠ some 0 := by
  unfold utf8EncodeChar
  split
  · simpa using hc
  · split
    · (simp) <;> omega
    · split
      · (simp) <;> omega
      · (simp) <;> omega

theorem encodeChar_ne_nil (c : Nat) : utf8EncodeChar c ≠ [] := by
  unfold utf8EncodeChar
  split
  · simp
  · split
    · simp
    · split <;> simp

theorem getLast?_encode (n : Name) (h : n.getLast? ≠ some 0) : (utf8Encode n).getLast? ≠ some 0 := by
  rcases List.eq_nil_or_concat n with rfl | ⟨l, c, rfl⟩
  · simp [utf8Encode]
  · simp only [List.concat_eq_append] at h ⊢
    have hc : c ≠ 0 := by simpa using h
    have e : utf8Encode (l ++ [c]) = utf8Encode l ++ utf8EncodeChar c := by simp [utf8Encode]
    have h0 := getLast?_encodeChar c hc
    cases hx : (utf8EncodeChar c).getLast? with
    | none => exact absurd (List.getLast?_eq_none_iff.1 hx) (encodeChar_ne_nil c)
    | some x =>
      rw [e, List.getLast?_append, hx, Option.some_or]
      rw [hx] at h0
      exact h0

/-- one `S<w>` cell: whatever the width, a storable name comes back -/
theorem decodeCell_pad (w : Nat) (n : Name) (h : NameOK n) : decodeCell (pad w (utf8Encode n)) = .ok n := by
  unfold decodeCell pad
  rw [stripZeros_append_zeros, stripZeros_eq_self _ (getLast?_encode n h.2), utf8Decode_encode n h.1]

theorem mapM_map_ok {α β : Type} (f : β → Except Err α) (g : α → β) :
    ∀ (l : List α), (∀ a ∈ l, f (g a) = .ok a) → (l.map g).mapM f = .ok l
  | [], _ => rfl
  | a :: t, h => by
    simp only [List.map_cons, List.mapM_cons, h a List.mem_cons_self,
      mapM_map_ok f g t (fun b hb => h b (List.mem_cons_of_mem _ hb))]
    rfl

/-- `np.char.decode(np.char.encode(names))` is the identity on a non-empty table of storable names -/
theorem decodeTable_encodeTable (names : List Name) (hne : names ≠ []) (h : ∀ n ∈ names, NameOK n) :
    decodeTable (encodeTable names) = .ok names := by
  unfold decodeTable encodeTable
  simp only [List.isEmpty_map, List.map_map]
  have : names.isEmpty = false := by cases names with | nil => exact absurd rfl hne | cons _ _ => rfl
  simp only [this, Bool.false_eq_true, ↓reduceIte]
  exact mapM_map_ok decodeCell _ names (fun n hn => decodeCell_pad _ n (h n hn))

/-- the empty table does not come back: h5py stores it as float64 and `np.char.decode` raises -/
theorem decodeTable_encodeTable_nil : decodeTable (encodeTable []) = .error .typeError := rfl

theorem decodeTable2_encodeTable2 (rows : List (List Name)) (hne : rows.flatten ≠ [])
    (h : ∀ row ∈ rows, ∀ n ∈ row, NameOK n) : decodeTable2 (encodeTable2 rows) = .ok rows := by
  unfold decodeTable2 encodeTable2
  simp only [List.map_map]
  have hemp : ((rows.map ((fun x => x.map (pad (tableWidth (rows.map (·.map utf8Encode)).flatten))) ∘
      fun x => x.map utf8Encode)).flatten).isEmpty = false := by
    rw [List.isEmpty_eq_false_iff]
    intro hf
    apply hne
    rw [List.flatten_eq_nil_iff] at hf ⊢
    intro l hl
    have := hf _ (List.mem_map.2 ⟨l, hl, rfl⟩)
    simpa using this
  simp only [hemp, Bool.false_eq_true, ↓reduceIte]
  refine mapM_map_ok (fun (x : List (List Nat)) => x.mapM decodeCell) _ rows (fun row hrow => ?_)
  simp only [Function.comp, List.map_map]
  exact mapM_map_ok decodeCell _ row (fun n hn => decodeCell_pad _ n (h row hrow n hn))

theorem decodeTable2_encodeTable2_empty (rows : List (List Name)) (he : rows.flatten = []) :
    decodeTable2 (encodeTable2 rows) = .error .typeError := by
  unfold decodeTable2 encodeTable2
  have hemp : ((rows.map (·.map utf8Encode)).map (·.map (pad (tableWidth (rows.map (·.map utf8Encode)).flatten)))).flatten.isEmpty
      = true := by
    rw [List.isEmpty_iff, List.flatten_eq_nil_iff]
    rw [List.flatten_eq_nil_iff] at he
    intro l hl
    simp only [List.map_map, List.mem_map] at hl
    obtain ⟨row, hrow, rfl⟩ := hl
    simp [he row hrow]
  simp only [hemp, ↓reduceIte]

end Batchie.Lifecycle
