/-
  C07, part 1: the translated enumeration `lower_triangular_indices` and the translated pair count.
  Everything here is about the GENERATED definitions (`Batchie.Gen.LowerTri`, `Batchie.Gen.NumLowerTri`)
  through the thin wrappers `lowerTri` / `numLowerTri` of `Model/Chunks.lean`.
-/
import Batchie.Model.Chunks
import Mathlib.Tactic.Ring
import Mathlib.Tactic.Linarith

namespace Batchie.Chunks
open Batchie.PyInt Batchie.Gen

theorem pyRange_zero_one (n : Int) :
    pyRange 0 n 1 = (List.range n.toNat).map (fun (i : Nat) => (i : Int)) := by
  unfold pyRange pyRangeLen
  by_cases h : 0 < n
  · simp [h]
  · have : n.toNat = 0 := by omega
    simp [h, this]

/-- specification of the enumeration: rows `i = 0..m-1`, in each row `j = 0..i-1` -/
def triSpec (m : Nat) : List (Int × Int) :=
  (List.range m).flatMap (fun (i : Nat) => (List.range i).map (fun (j : Nat) => ((i : Int), (j : Int))))

theorem inner_foldl (js : List Int) (st : LowerTri.St) :
    let r := List.foldl (fun (st : LowerTri.St) (v : Int) =>
              let st : LowerTri.St := { st with j := v }
              let st : LowerTri.St := { st with out := st.out ++ [(st.i, st.j)] }
              st) st js
    r.out = st.out ++ js.map (fun j => (st.i, j)) ∧ r.i = st.i ∧ r.n = st.n := by
  induction js generalizing st with
  | nil => simp
  | cons j js ih =>
    have := ih { st with j := j, out := st.out ++ [(st.i, j)] }
    simp only [List.foldl_cons] at this ⊢
    obtain ⟨h1, h2, h3⟩ := this
    refine ⟨?_, h2, h3⟩
    rw [h1]; simp

theorem outer_foldl (is : List Int) (st : LowerTri.St) :
    let r := List.foldl (fun (st : LowerTri.St) (v : Int) =>
        let st : LowerTri.St := { st with i := v }
        let st : LowerTri.St := List.foldl (fun (st : LowerTri.St) (v : Int) =>
              let st : LowerTri.St := { st with j := v }
              let st : LowerTri.St := { st with out := st.out ++ [(st.i, st.j)] }
              st)
          st (pyRange 0 st.i 1)
        st) st is
    r.out = st.out ++ is.flatMap (fun i => (pyRange 0 i 1).map (fun j => (i, j))) := by
  induction is generalizing st with
  | nil => simp
  | cons i is ih =>
    simp only [List.foldl_cons, List.flatMap_cons]
    rw [ih]
    have := inner_foldl (pyRange 0 i 1) { st with i := i }
    simp only at this
    rw [this.1]; simp

theorem lowerTri_eq_pyRange (n : Int) :
    lowerTri n = (pyRange 0 n 1).flatMap (fun i => (pyRange 0 i 1).map (fun j => (i, j))) := by
  unfold lowerTri LowerTri.run LowerTri.body
  have := outer_foldl (pyRange 0 n 1) { n := n }
  simp only at this
  rw [this]; simp

theorem lowerTri_eq_triSpec (n : Int) : lowerTri n = triSpec n.toNat := by
  rw [lowerTri_eq_pyRange, pyRange_zero_one]
  unfold triSpec
  rw [List.flatMap_map]
  congr 1; funext i
  rw [pyRange_zero_one]; simp

/-- strict row-major (lexicographic) order on pairs -/
def lexLt (p q : Int × Int) : Prop := p.1 < q.1 ∨ (p.1 = q.1 ∧ p.2 < q.2)

theorem triSpec_succ (m : Nat) :
    triSpec (m + 1) = triSpec m ++ (List.range m).map (fun (j : Nat) => ((m : Int), (j : Int))) := by
  unfold triSpec
  rw [List.range_succ, List.flatMap_append]; simp

theorem mem_triSpec {m : Nat} {p : Int × Int} :
    p ∈ triSpec m ↔ 0 ≤ p.2 ∧ p.2 < p.1 ∧ p.1 < m := by
  unfold triSpec
  simp only [List.mem_flatMap, List.mem_map, List.mem_range]
  constructor
  · rintro ⟨i, hi, j, hj, rfl⟩
    simp only; omega
  · rintro ⟨h1, h2, h3⟩
    refine ⟨p.1.toNat, by omega, p.2.toNat, by omega, ?_⟩
    apply Prod.ext <;> simp <;> omega

theorem length_triSpec (m : Nat) : (2 : Int) * ((triSpec m).length : Int) = (m : Int) * ((m : Int) - 1) := by
  induction m with
  | zero => simp [triSpec]
  | succ m ih =>
    rw [triSpec_succ]
    simp only [List.length_append, List.length_map, List.length_range]
    push_cast
    linarith

theorem pairwise_triSpec (m : Nat) : (triSpec m).Pairwise lexLt := by
  induction m with
  | zero => simp [triSpec]
  | succ m ih =>
    rw [triSpec_succ, List.pairwise_append]
    refine ⟨ih, ?_, ?_⟩
    · rw [List.pairwise_map]
      refine List.Pairwise.imp ?_ List.pairwise_lt_range
      intro a b hab
      right; simp; omega
    · intro p hp q hq
      rw [mem_triSpec] at hp
      simp only [List.mem_map, List.mem_range] at hq
      obtain ⟨j, _, rfl⟩ := hq
      left; simp; omega

theorem nodup_triSpec (m : Nat) : (triSpec m).Nodup := by
  refine List.Pairwise.imp ?_ (pairwise_triSpec m)
  intro p q h heq
  subst heq
  unfold lexLt at h; omega

/-! ### the generated enumeration, restated -/

theorem mem_lowerTri {n : Int} {p : Int × Int} :
    p ∈ lowerTri n ↔ 0 ≤ p.2 ∧ p.2 < p.1 ∧ p.1 < n := by
  rw [lowerTri_eq_triSpec, mem_triSpec]
  constructor
  · rintro ⟨h1, h2, h3⟩; omega
  · rintro ⟨h1, h2, h3⟩; omega

theorem nodup_lowerTri (n : Int) : (lowerTri n).Nodup := by
  rw [lowerTri_eq_triSpec]; exact nodup_triSpec _

theorem pairwise_lowerTri (n : Int) : (lowerTri n).Pairwise lexLt := by
  rw [lowerTri_eq_triSpec]; exact pairwise_triSpec _

theorem numLowerTri_eq (n : Int) : numLowerTri n = (n * (n - 1)) / 2 := by
  unfold numLowerTri NumLowerTri.run NumLowerTri.body
  simp only
  exact Int.fdiv_eq_ediv_of_nonneg _ (by decide)

theorem length_lowerTri (n : Int) (hn : 0 ≤ n) : ((lowerTri n).length : Int) = numLowerTri n := by
  rw [lowerTri_eq_triSpec, numLowerTri_eq]
  have h := length_triSpec n.toNat
  have hc : ((n.toNat : Nat) : Int) = n := Int.toNat_of_nonneg hn
  rw [hc] at h
  omega

theorem numLowerTri_nonneg (n : Int) : 0 ≤ numLowerTri n := by
  rw [numLowerTri_eq]
  have : 0 ≤ n * (n - 1) := by
    rcases Int.le_total n 0 with h | h
    · have h1 : n - 1 ≤ 0 := by omega
      exact Int.mul_nonneg_of_nonpos_of_nonpos h h1
    · rcases Int.le_total n 1 with h1 | h1
      · have : n = 0 ∨ n = 1 := by omega
        rcases this with rfl | rfl <;> simp
      · exact Int.mul_nonneg h (by omega)
  omega

end Batchie.Chunks
