/-
  Witness evaluations for the regression definitions of `Model/PrepRegress.lean` (kernel-evaluable through the mirrors of
  `Lemmas/LifecycleEval.lean` / `Lemmas/PrepExamples.lean`) and the general lemmas that go with them.
-/
import Batchie.Model.PrepRegress
import Batchie.Lemmas.PrepExamples

namespace Batchie.Prep
open Batchie.Proto Batchie.Screen Batchie.Lifecycle

set_option maxRecDepth 40000

/-! ### S7-C13 -/

/-- A@1 + B@1 is a full combination; A@10 only occurs alone (second slot = control by name) -/
def wDoseRows : List Row :=
  [⟨[115, 49], [[65], [66]], [1, 1], 11, [112, 49], false⟩, ⟨[115, 49], [[65], []], [10, 1], 12, [112, 49], false⟩]

/-- the faithful filter drops the A@10 row, the dose-blind one keeps it -/
theorem filter_by_name_witness :
    ((mk? (rawOfRows [] 2 wDoseRows none none)).toOption.map
      (fun s => (comboFilterSel s.tids, comboFilterSelByName s.tnames s.tids, s.tids))) =
      some ([true, false], [true, true], [[0, 2], [1, -1]]) := by
  rw [mk?_eqK]; decide

/-! ### S6-C13 -/

theorem optimalSizeDistinct_witness :
    optimalSizeDistinct [2, 2, 2, 3] = 3 ∧ retainedBy [2, 2, 2, 3] 3 = 3 ∧ retainedBy [2, 2, 2, 3] 2 = 8 := by decide

/-! ### S7-C11 -/

/-- the positional recombination agrees with the faithful one whenever the generator returns the rows in input order
    (why fixtures with order-preserving generators do not notice) -/
theorem recombinePositional_same_order (nuRows inputUnobs observed : List Row)
    (h : nuRows.map (·.obs) = inputUnobs.map (·.obs)) :
    recombinePositional nuRows inputUnobs observed = recombineFaithful nuRows observed := by
  unfold recombinePositional recombineFaithful
  rw [List.map_append, ← h, ← List.map_append]
  generalize nuRows ++ observed = l
  induction l with
  | nil => rfl
  | cons r l ih => simp only [List.map_cons, List.zipWith_cons_cons, ih]

/-- two unobserved rows with different observation values; the generator output lists them in the other order -/
def wSwapIn : List Row := wDoseRows
def wSwapOut : List Row := [{ wDoseRows[1]! with plate := genName 0 }, { wDoseRows[0]! with plate := genName 1 }]

theorem recombine_witness :
    ((recombineFaithful wSwapOut []).map Row.exp).isPerm (wSwapIn.map Row.exp) = true ∧
    ((recombinePositional wSwapOut wSwapIn []).map Row.exp).isPerm (wSwapIn.map Row.exp) = false := by decide

/-! ### S5-C11 -/

/-- fraction 0 (`kf = 0`) on the 7-row example screen with the identity permutation: sizes of the two halves -/
theorem holdoutRandomSlices_witness :
    ((mk? exRaw >>= fun s => holdoutRandomSlices (fun _ => 0) [0, 1, 2, 3, 4, 5, 6] s).toOption.map
      (fun kh => ((rowsOf kh.1).length, (rowsOf kh.2).length))) = some (7, 7) := by
  simp only [holdoutRandomSlices, mk?_eqK]; decide

theorem holdoutRandom_witness :
    ((mk? exRaw >>= fun s => holdoutRandom (fun _ => 0) [] s).toOption.map
      (fun kh => ((rowsOf kh.1).length, (rowsOf kh.2).length))) = some (7, 0) := by
  simp only [holdoutRandom, holdoutSplit, mk?_eqK]; decide

end Batchie.Prep
