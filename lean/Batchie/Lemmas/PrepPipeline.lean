/-
  Lemmas for `Model/PrepPipeline.lean` (the CLI `prepare_retrospective_simulation` as a composition): decomposition of a
  successful run into its stages, experiments are a function of the non-mask / non-plate columns, what each stage does
  to the experiments, validity (`Built`) of the intermediate screens, the hold-out never takes an observed row.
-/
import Batchie.Model.PrepPipeline
import Batchie.Lemmas.PrepOps
import Batchie.Lemmas.PrepHoldout
import Batchie.Lemmas.LifecycleHistory

namespace Batchie.Prep
open Batchie.Proto Batchie.Screen

/-! ### decomposition -/

theorem prepare_ok {kf : Nat → Nat} {cfg : PrepConfig} {s : Screen} {p : Prepared} (h : prepare kf cfg s = .ok p) :
    comboFilter s = .ok p.filtered ∧ initialStage cfg.initial p.filtered = .ok p.initialized ∧
    generatorStage cfg.generator p.initialized = .ok p.generated ∧
    firstPlateStage cfg.initial cfg.firstPlate p.generated = .ok p.revealed ∧
    smoothStage cfg.smoother p.revealed = .ok p.smoothed ∧
    holdoutBalanced kf cfg.holdoutLog p.smoothed = .ok (p.training, p.test) := by
  unfold prepare at h
  obtain ⟨f, hf, h⟩ := bind_ok h
  obtain ⟨i, hi, h⟩ := bind_ok h
  obtain ⟨g, hg, h⟩ := bind_ok h
  obtain ⟨r, hr, h⟩ := bind_ok h
  obtain ⟨sm, hsm, h⟩ := bind_ok h
  obtain ⟨⟨tr, te⟩, hho, h⟩ := bind_ok h
  cases h
  exact ⟨hf, hi, hg, hr, hsm, hho⟩

/-! ### experiments depend on the sample / treatment / dose / observation columns only -/

theorem map_fst_zip_take {α β : Type} : ∀ (a : List α) (b : List β), (a.zip b).map Prod.fst = a.take b.length
  | [], _ => by simp
  | _ :: _, [] => by simp
  | x :: a, y :: b => by simp [map_fst_zip_take a b]

def expCols (s : Screen) : List (Name × List Name × List Dose × Nat) :=
  (((s.snames.zip s.tnames).zip s.tdoses).zip s.obs).map (fun x => (x.1.1.1, x.1.1.2, x.1.2, x.2))

theorem map_exp_rowsOf (s : Screen) :
    (rowsOf s).map Row.exp = (expCols s).take (min s.pnames.length s.mask.length) := by
  unfold rowsOf expCols
  rw [List.map_map]
  have e : (Row.exp ∘ mkRow) = (fun x : ((Name × List Name) × List Dose) × Nat => (x.1.1.1, x.1.1.2, x.1.2, x.2)) ∘ Prod.fst ∘ Prod.fst := rfl
  rw [e, ← List.map_map, ← List.map_map, map_fst_zip_take, List.map_take, map_fst_zip_take, List.take_take, List.map_take, Nat.min_comm]

/-- two screens with the same experiment columns, whose plate and mask columns are at least as long, have the same experiments -/
theorem exp_of_cols {s t : Screen} (h1 : t.snames = s.snames) (h2 : t.tnames = s.tnames) (h3 : t.tdoses = s.tdoses)
    (h4 : t.obs = s.obs) (hs : s.snames.length ≤ min s.pnames.length s.mask.length)
    (ht : t.snames.length ≤ min t.pnames.length t.mask.length) :
    (rowsOf t).map Row.exp = (rowsOf s).map Row.exp := by
  have hl : ∀ u : Screen, (expCols u).length ≤ u.snames.length := by
    intro u; unfold expCols; simp only [List.length_map, List.length_zip]; omega
  rw [map_exp_rowsOf, map_exp_rowsOf]
  have ec : expCols t = expCols s := by unfold expCols; rw [h1, h2, h3, h4]
  rw [List.take_of_length_le (by have := hl t; omega), List.take_of_length_le (by have := hl s; omega), ec]

/-! ### screens made by the constructor from rows -/

/-- `s` is the result of `Screen(...)` on some rows (any mappings) -/
def Made (s : Screen) : Prop := ∃ c a rows tm sm, mk? (rawOfRows c a rows tm sm) = .ok s

theorem made_of_build {c : Name} {a : Nat} {rows : List Row} {s : Screen} (h : build c a rows = .ok s) : Made s :=
  ⟨c, a, rows, none, none, h⟩

/-- all six row columns of a made screen are the columns of its rows -/
structure Cols (s : Screen) : Prop where
  sn : s.snames = (rowsOf s).map (·.sample)
  tn : s.tnames = (rowsOf s).map (·.tn)
  td : s.tdoses = (rowsOf s).map (·.td)
  ob : s.obs = (rowsOf s).map (·.obs)
  pn : s.pnames = (rowsOf s).map (·.plate)
  ms : s.mask = (rowsOf s).map (·.mask)

theorem Made.cols {s : Screen} (h : Made s) : Cols s := by
  obtain ⟨c, a, rows, tm, sm, h⟩ := h
  have k := (mk?_ok_iff _ _).mp h
  have r := (raw_ok h).1.rows_eq
  exact ⟨by rw [r]; exact k.snames_eq, by rw [r]; exact k.tnames_eq, by rw [r]; exact k.tdoses_eq, by rw [r]; exact k.obs_eq,
    by rw [r]; exact k.pnames_eq, by rw [r]; exact k.mask_eq⟩

theorem Made.rawOk {s : Screen} (h : Made s) : RawOk (rowsOf s) s := by
  obtain ⟨c, a, rows, tm, sm, h⟩ := h
  have r := (raw_ok h).1
  rw [r.rows_eq]; exact r

def setMasks (rows : List Row) (m : List Bool) : List Row := List.zipWith (fun r b => { r with mask := b }) rows m

theorem setMasks_cols (rows : List Row) (m : List Bool) (h : m.length = rows.length) :
    (setMasks rows m).map (·.sample) = rows.map (·.sample) ∧ (setMasks rows m).map (·.tn) = rows.map (·.tn) ∧
    (setMasks rows m).map (·.td) = rows.map (·.td) ∧ (setMasks rows m).map (·.obs) = rows.map (·.obs) ∧
    (setMasks rows m).map (·.plate) = rows.map (·.plate) ∧ (setMasks rows m).map (·.mask) = m ∧
    (setMasks rows m).map Row.exp = rows.map Row.exp := by
  induction rows generalizing m with
  | nil => cases m with
    | nil => simp [setMasks]
    | cons b m => simp at h
  | cons r rows ih =>
    cases m with
    | nil => simp at h
    | cons b m =>
      obtain ⟨i1, i2, i3, i4, i5, i6, i7⟩ := ih m (by simpa using h)
      unfold setMasks at *
      simp only [List.zipWith_cons_cons, List.map_cons, i1, i2, i3, i4, i5, i6, i7]
      exact ⟨trivial, trivial, trivial, trivial, trivial, trivial, by rfl⟩

/-- `Retro.rebuild` (the constructor call of `mask_screen` / `reveal_plates`) on a made screen: the same rows with the new mask -/
theorem rebuild_rows {s t : Screen} {m : List Bool} (hs : Made s) (h : Retro.rebuild s m = .ok t) :
    rowsOf t = setMasks (rowsOf s) m ∧ m.length = (rowsOf s).length ∧ Made t ∧ t.tmap = s.tmap ∧ t.smap = s.smap := by
  have c := hs.cols
  have k := (mk?_ok_iff _ _).mp h
  have hl : m.length = (rowsOf s).length := by
    have := k.len_mask
    simp only [maskOf] at this
    rw [this, c.tn, List.length_map]
  obtain ⟨i1, i2, i3, i4, i5, i6, _⟩ := setMasks_cols (rowsOf s) m hl
  have e : Retro.rebuild s m = mk? (rawOfRows s.ctrl s.arity (setMasks (rowsOf s) m) (some s.tmap) (some s.smap)) := by
    unfold Retro.rebuild rawOfRows
    rw [i1, i2, i3, i4, i5, i6, ← c.sn, ← c.tn, ← c.td, ← c.ob, ← c.pn]
  rw [e] at h
  have mm := Batchie.Lifecycle.mk?_maps h
  exact ⟨(raw_ok h).1.rows_eq, hl, ⟨_, _, _, _, _, h⟩, mm.1 _ rfl, mm.2 _ rfl⟩

/-! ### every intermediate screen is made by the constructor -/

theorem made_of_select {s t : Screen} {sel : List Bool} (h : select s sel = .ok t) : Made t := made_of_build h

theorem made_of_combine {a b t : Screen} (h : combine a b = .ok t) : Made t := by
  unfold combine at h
  split at h
  · cases h
  · exact made_of_build h

theorem comboFilter_made {s f : Screen} (h : comboFilter s = .ok f) : Made f := by
  unfold comboFilter at h
  split at h
  · cases h
  · exact made_of_select h

theorem sparseCover_made {reveal : Bool} {log : List Nat} {s out : Screen} (h : sparseCover reveal log s = .ok out) : Made out := by
  unfold sparseCover at h
  simp only at h
  split at h
  · cases h
  · obtain ⟨sel, _, h⟩ := bind_ok h
    exact made_of_build h

theorem genSegregating_made {mx : Int} {perms : List (List Nat)} {u nu : Screen} (h : genSegregating mx perms u = .ok nu) : Made nu := by
  unfold genSegregating at h
  obtain ⟨chunks, _, h⟩ := bind_ok h
  exact made_of_build h

theorem genPermutation_made {force perm : List Name} {u nu : Screen} (h : genPermutation force perm u = .ok nu) : Made nu := by
  unfold genPermutation at h
  simp only at h
  generalize (if force.isEmpty = true then List.map (fun _ => true) (rowsOf u)
      else List.map (fun r => !force.contains r.plate) (rowsOf u)) = sel at h
  obtain ⟨tp, htp, h⟩ := bind_ok h
  split at h
  · cases h
  obtain ⟨pm, hpm, h⟩ := bind_ok h
  split at h
  · obtain ⟨np, hnp, h⟩ := bind_ok h
    exact made_of_combine h
  · cases h
    exact made_of_build hpm

theorem genPairwise_made {sub anc : Int} {anchor : List Int} {perms : List (List Int)} {assign : List (List Name)}
    {u nu : Screen} (h : genPairwise sub anc anchor perms assign u = .ok nu) : Made nu := by
  unfold genPairwise at h
  obtain ⟨combo, hcombo, h⟩ := bind_ok h
  simp only at h
  split at h
  · obtain ⟨single, hsingle, h⟩ := bind_ok h
    obtain ⟨sg, hsg, rfl⟩ := map_ok hsingle
    obtain ⟨groups, hgroups, h⟩ := bind_ok h
    obtain ⟨comboGen, hcg, h⟩ := bind_ok h
    simp only at h
    obtain ⟨asg, hasg, h⟩ := bind_ok h
    obtain ⟨sgen, hsgen, h⟩ := bind_ok h
    exact made_of_combine h
  · obtain ⟨single, hsingle, h⟩ := bind_ok h
    simp only [pure, Except.pure] at hsingle
    injection hsingle with hsingle
    subst hsingle
    obtain ⟨groups, hgroups, h⟩ := bind_ok h
    obtain ⟨comboGen, hcg, h⟩ := bind_ok h
    simp only [pure, Except.pure] at h
    injection h with h
    subst h
    exact made_of_build hcg

theorem generator_made (g : Generator) {u nu : Screen} (h : g.run u = .ok nu) : Made nu := by
  cases g with
  | permutation force perm => exact genPermutation_made h
  | segregating mx perms => exact genSegregating_made h
  | pairwise sub anc anchor perms assign => exact genPairwise_made h

theorem wrap_made {op : Screen → Except Err Screen} (hop : ∀ u nu, op u = .ok nu → Made nu) {s out : Screen}
    (hs : Made s) (h : wrap op s = .ok out) : Made out := by
  unfold wrap at h
  simp only at h
  split at h
  · cases h; exact hs
  · obtain ⟨u, hu, h⟩ := bind_ok h
    obtain ⟨nu, hnu, h⟩ := bind_ok h
    split at h
    · cases h; exact hop _ _ hnu
    · obtain ⟨o, ho, h⟩ := bind_ok h
      exact made_of_combine h

/-! ### what each stage does to the rows -/

theorem mem_setMasks {rows : List Row} {m : List Bool} {x : Row} (h : x ∈ setMasks rows m) :
    ∃ y ∈ rows, x.sample = y.sample ∧ x.plate = y.plate ∧ x.exp = y.exp := by
  induction rows generalizing m with
  | nil => simp [setMasks] at h
  | cons r rows ih =>
    cases m with
    | nil => simp [setMasks] at h
    | cons b m =>
      simp only [setMasks, List.zipWith_cons_cons, List.mem_cons] at h
      rcases h with rfl | h
      · exact ⟨r, List.mem_cons_self, rfl, rfl, rfl⟩
      · obtain ⟨y, hy, e⟩ := ih (m := m) h
        exact ⟨y, List.mem_cons_of_mem _ hy, e⟩

theorem unlabelled_exp (rows : List Row) : (rows.map unlabelled).map Prod.fst = rows.map Row.exp := by
  rw [List.map_map]; rfl

theorem initialStage_facts {ini : Option (Bool × List Nat)} {f i : Screen} (hf : Made f) (h : initialStage ini f = .ok i) :
    Made i ∧ (rowsOf i).map Row.exp = (rowsOf f).map Row.exp ∧ (ini = none → ∀ r ∈ rowsOf i, r.mask = false) := by
  cases ini with
  | none =>
    unfold initialStage Retro.maskScreen at h
    obtain ⟨hr, hl, hm, _, _⟩ := rebuild_rows hf h
    obtain ⟨_, _, _, _, _, i6, i7⟩ := setMasks_cols (rowsOf f) _ hl
    refine ⟨hm, by rw [hr]; exact i7, fun _ r hr' => ?_⟩
    have : r.mask ∈ (rowsOf i).map (·.mask) := List.mem_map_of_mem hr'
    rw [hr, i6] at this
    exact (List.mem_replicate.mp this).2
  | some p =>
    obtain ⟨rev, log⟩ := p
    unfold initialStage at h
    exact ⟨sparseCover_made h, sparseCover_exp h hf.rawOk.tids_len, fun hn => by cases hn⟩

theorem generatorStage_facts {gen : Option Generator} {i g : Screen} (hi : Made i) (h : generatorStage gen i = .ok g) :
    Made g ∧ ((rowsOf g).map unlabelled).Perm ((rowsOf i).map unlabelled) ∧ observedRows g = observedRows i := by
  cases gen with
  | none => unfold generatorStage at h; cases h; exact ⟨hi, List.Perm.refl _, rfl⟩
  | some x =>
    unfold generatorStage at h
    refine ⟨wrap_made (fun u nu hu => generator_made x hu) hi h, ?_, ?_⟩
    · rcases wrap_ok' h with ⟨_, rfl⟩ | ⟨u, nu, hu, hnu, hrows⟩
      · exact List.Perm.refl _
      · exact assemble_perm (generator_facts x hu unobserved_mask hnu).1 hrows
    · rcases wrap_ok' h with ⟨_, rfl⟩ | ⟨u, nu, hu, hnu, hrows⟩
      · rfl
      · exact (assemble_observed (generator_facts x hu unobserved_mask hnu).2 hrows).1

theorem firstPlateStage_facts {ini : Option (Bool × List Nat)} {first : Int} {g r : Screen} (hg : Made g)
    (h : firstPlateStage ini first g = .ok r) :
    Made r ∧ (rowsOf r).map Row.exp = (rowsOf g).map Row.exp ∧ (ini ≠ none → r = g) ∧
      (∀ x ∈ rowsOf r, ∃ y ∈ rowsOf g, x.sample = y.sample ∧ x.plate = y.plate) := by
  cases ini with
  | some p =>
    unfold firstPlateStage at h; cases h
    exact ⟨hg, rfl, fun _ => rfl, fun x hx => ⟨x, hx, rfl, rfl⟩⟩
  | none =>
    unfold firstPlateStage at h
    simp only at h
    split at h
    · cases h
    split at h
    · cases h
    unfold Retro.revealPlates at h
    split at h
    · cases h
    obtain ⟨hr, hl, hm, _, _⟩ := rebuild_rows hg h
    obtain ⟨_, _, _, _, _, _, i7⟩ := setMasks_cols (rowsOf g) _ hl
    refine ⟨hm, by rw [hr]; exact i7, fun hn => absurd rfl hn, fun x hx => ?_⟩
    rw [hr] at hx
    obtain ⟨y, hy, e1, e2, _⟩ := mem_setMasks hx
    exact ⟨y, hy, e1, e2⟩

theorem smoothStage_facts {sm : Option Smoother} {r t : Screen} (h : smoothStage sm r = .ok t) :
    ((rowsOf t).map unlabelled).Subperm ((rowsOf r).map unlabelled) ∧ (sm = none → t = r) ∧
      (∀ x, sm = some x → x.wrapped r = .ok t) := by
  cases sm with
  | none => unfold smoothStage at h; cases h; exact ⟨List.Subperm.refl _, fun _ => rfl, fun x hx => by cases hx⟩
  | some x =>
    unfold smoothStage at h
    obtain ⟨t', ht, h⟩ := bind_ok h
    split at h
    · cases h
    · cases h
      refine ⟨(wrap_smoothOk (fun _ _ _ _ _ hu hm h => smoother_facts x hu hm h) ht).1, fun hn => (by cases hn), fun y hy => ?_⟩
      cases hy
      exact ht

theorem holdout_exp {kf : Nat → Nat} {log : List (List Nat)} {s keep hold : Screen} (h : holdoutBalanced kf log s = .ok (keep, hold)) :
    ((rowsOf keep ++ rowsOf hold).map Row.exp).Perm ((rowsOf s).map Row.exp) := by
  unfold holdoutBalanced at h
  obtain ⟨chosen, _, h⟩ := bind_ok h
  obtain ⟨hk, hh⟩ := holdoutSplit_ok h
  rw [List.map_append, hk, hh, List.map_map]
  have e : (Row.exp ∘ fun r : Row => { r with mask := true }) = Row.exp := rfl
  rw [e, ← List.map_append]
  apply List.Perm.map
  have := maskFilter_perm_split (rowsOf s) (selOfIdx (rowsOf s).length chosen) (length_selOfIdx _ _)
  exact List.perm_append_comm.trans this

theorem holdout_shared_maps {kf : Nat → Nat} {log : List (List Nat)} {s keep hold : Screen}
    (h : holdoutBalanced kf log s = .ok (keep, hold)) :
    keep.tmap = s.tmap ∧ keep.smap = s.smap ∧ hold.tmap = s.tmap ∧ hold.smap = s.smap := by
  unfold holdoutBalanced at h
  obtain ⟨chosen, _, h⟩ := bind_ok h
  unfold holdoutSplit at h
  obtain ⟨k, hk, h⟩ := bind_ok h
  obtain ⟨hd, hh, h⟩ := bind_ok h
  cases h
  have mk := Batchie.Lifecycle.mk?_maps hk
  have mh := Batchie.Lifecycle.mk?_maps hh
  exact ⟨mk.1 _ rfl, mk.2 _ rfl, mh.1 _ rfl, mh.2 _ rfl⟩

/-! ### single-sample unobserved plates along the pipeline -/

/-- unobserved rows that share a plate label share the sample -/
def SingleSample (rows : List Row) : Prop :=
  ∀ r1 ∈ rows, ∀ r2 ∈ rows, r1.mask = false → r2.mask = false → r1.plate = r2.plate → r1.sample = r2.sample

/-- the same for all rows, observed or not -/
def SingleSampleAll (rows : List Row) : Prop := ∀ r1 ∈ rows, ∀ r2 ∈ rows, r1.plate = r2.plate → r1.sample = r2.sample

theorem SingleSampleAll.single {rows : List Row} (h : SingleSampleAll rows) : SingleSample rows :=
  fun r1 h1 r2 h2 _ _ e => h r1 h1 r2 h2 e

theorem SingleSample.sublist {a b : List Row} (h : SingleSample b) (hs : a.Sublist b) : SingleSample a :=
  fun r1 h1 r2 h2 => h r1 (hs.subset h1) r2 (hs.subset h2)

theorem mem_unobserved {s : Screen} {r : Row} (h : r ∈ rowsOf s) (hm : r.mask = false) : r ∈ unobservedRows s := by
  unfold unobservedRows; exact List.mem_filter.mpr ⟨h, by simp [hm]⟩

theorem mem_of_mem_unobserved {s : Screen} {r : Row} (h : r ∈ unobservedRows s) : r ∈ rowsOf s ∧ r.mask = false := by
  unfold unobservedRows at h
  have := List.mem_filter.mp h
  exact ⟨this.1, by simpa using this.2⟩

/-- a wrapped operation whose inner result is single-sample (given that its input was) keeps the property -/
theorem wrap_singleSample {op : Screen → Except Err Screen} {s out : Screen} (h : wrap op s = .ok out) (hs : SingleSample (rowsOf s))
    (hop : ∀ u nu, build s.ctrl s.arity (unobservedRows s) = .ok u → op u = .ok nu →
      (∀ r ∈ rowsOf nu, r.mask = false) ∧ SingleSampleAll (rowsOf nu)) : SingleSample (rowsOf out) := by
  rcases wrap_ok' h with ⟨_, rfl⟩ | ⟨u, nu, hu, hnu, hrows⟩
  · exact hs
  · obtain ⟨hm, hss⟩ := hop u nu hu hnu
    obtain ⟨_, e2⟩ := assemble_observed hm hrows
    intro r1 h1 r2 h2 m1 m2 e
    have a1 := mem_unobserved h1 m1
    have a2 := mem_unobserved h2 m2
    rw [e2] at a1 a2
    exact hss r1 a1 r2 a2 e

/-- the segregating / pairwise generator on any screen: all unobserved rows that share a plate share the sample; and when
    the input has no observed row, all rows do -/
theorem generator_singleSample {g : Generator} (hg : (∃ mx perms, g = .segregating mx perms) ∨ (∃ a b c d e, g = .pairwise a b c d e))
    {i out : Screen} (h : g.wrapped i = .ok out) :
    SingleSample (rowsOf out) ∧ ((∀ r ∈ rowsOf i, r.mask = false) → SingleSampleAll (rowsOf out)) := by
  have inner : ∀ u nu, build i.ctrl i.arity (unobservedRows i) = .ok u → g.run u = .ok nu →
      (∀ r ∈ rowsOf nu, r.mask = false) ∧ SingleSampleAll (rowsOf nu) := by
    intro u nu hu hnu
    refine ⟨(generator_facts g hu unobserved_mask hnu).2, ?_⟩
    rcases hg with ⟨mx, perms, rfl⟩ | ⟨a, b, c, d, e, rfl⟩
    · exact (genSegregating_shape hu hnu).1
    · exact genPairwise_single_sample hnu
  rcases wrap_ok' h with ⟨he, rfl⟩ | ⟨u, nu, hu, hnu, hrows⟩
  · refine ⟨fun r1 h1 r2 h2 m1 _ _ => ?_, fun hall r1 h1 r2 h2 _ => ?_⟩
    · have := mem_unobserved h1 m1; rw [he] at this; cases this
    · have := mem_unobserved h1 (hall r1 h1); rw [he] at this; cases this
  · obtain ⟨hm, hss⟩ := inner u nu hu hnu
    obtain ⟨e1, e2⟩ := assemble_observed hm hrows
    refine ⟨fun r1 h1 r2 h2 m1 m2 e => ?_, fun hall => ?_⟩
    · have a1 := mem_unobserved h1 m1
      have a2 := mem_unobserved h2 m2
      rw [e2] at a1 a2
      exact hss r1 a1 r2 a2 e
    · have ho : observedRows i = [] := by
        unfold observedRows
        exact List.filter_eq_nil_iff.mpr (fun r hr => by simp [hall r hr])
      rw [hrows, ho, List.append_nil]
      exact hss

/-- the smoothers other than the ensemble keep single-sample unobserved plates -/
theorem smoother_singleSample_basic {sm : Smoother} (hsm : ∀ a b c d e, sm ≠ .ensemble a b c d e) {r out : Screen}
    (h : sm.wrapped r = .ok out) (hs : SingleSample (rowsOf r)) : SingleSample (rowsOf out) := by
  apply wrap_singleSample h hs
  intro u nu hu hnu
  have B := build_ok hu
  have hu' : SingleSampleAll (unobservedRows r) := by
    intro r1 h1 r2 h2 e
    obtain ⟨a1, m1⟩ := mem_of_mem_unobserved h1
    obtain ⟨a2, m2⟩ := mem_of_mem_unobserved h2
    exact hs r1 a1 r2 a2 m1 m2 e
  refine ⟨(smoother_facts sm hu unobserved_mask hnu).2, ?_⟩
  have ofSub : (rowsOf nu).Sublist (rowsOf u) → SingleSampleAll (rowsOf nu) := by
    intro hsub r1 h1 r2 h2 e
    rw [B.rows_eq] at hsub
    exact hu' r1 (hsub.subset h1) r2 (hsub.subset h2) e
  have ofShape : MergeShape (unobservedRows r) (rowsOf nu) → SingleSampleAll (rowsOf nu) := by
    intro hshape r1 h1 r2 h2 e
    obtain ⟨ρ, hr, hρ⟩ := hshape.rename
    rw [hr] at h1 h2
    unfold renamePlates at h1 h2
    obtain ⟨y1, hy1, rfl⟩ := List.mem_map.mp h1
    obtain ⟨y2, hy2, rfl⟩ := List.mem_map.mp h2
    rcases hρ y1 hy1 y2 hy2 e with e' | e'
    · exact hu' y1 hy1 y2 hy2 e'
    · exact e'
  cases sm with
  | mergeMin k pops => exact ofShape (mergeMin_shape hu hnu)
  | mergeTopBottom n => exact ofShape (mergeTopBottom_shape hu hnu)
  | fixedSize k ch => exact ofSub (fixedSize_sublist hnu)
  | optimalSize ch => exact ofSub (optimal_sublist hnu)
  | nPlate k => exact ofSub (nPlate_sublist hnu)
  | ensemble a b c d e => exact absurd rfl (hsm a b c d e)

theorem singleSampleAll_of_unmasked {rows : List Row} (h : SingleSample rows) (hm : ∀ r ∈ rows, r.mask = false) : SingleSampleAll rows :=
  fun r1 h1 r2 h2 e => h r1 h1 r2 h2 (hm r1 h1) (hm r2 h2) e

/-- the ensemble (four wrapped smoothers in sequence) on a fully unobserved screen whose plates are single-sample -/
theorem ensemble_singleSample {minSize nIter minN : Int} {pops : List Nat} {choices : List (List Nat)} {u nu : Screen}
    (hm0 : ∀ r ∈ rowsOf u, r.mask = false) (hs0 : SingleSample (rowsOf u))
    (h : ensemble minSize nIter minN pops choices u = .ok nu) :
    (∀ r ∈ rowsOf nu, r.mask = false) ∧ SingleSample (rowsOf nu) := by
  simp only [ensemble] at h
  obtain ⟨s1, h1, h⟩ := bind_ok h
  obtain ⟨s2, h2, h⟩ := bind_ok h
  obtain ⟨s3, h3, h⟩ := bind_ok h
  have ne1 : ∀ a b c d e, Smoother.mergeMin minSize pops ≠ .ensemble a b c d e := fun _ _ _ _ _ hx => by cases hx
  have ne2 : ∀ a b c d e, Smoother.mergeTopBottom nIter ≠ .ensemble a b c d e := fun _ _ _ _ _ hx => by cases hx
  have ne3 : ∀ a b c d e, Smoother.optimalSize choices ≠ .ensemble a b c d e := fun _ _ _ _ _ hx => by cases hx
  have ne4 : ∀ a b c d e, Smoother.nPlate minN ≠ .ensemble a b c d e := fun _ _ _ _ _ hx => by cases hx
  have w1 : (Smoother.mergeMin minSize pops).wrapped u = .ok s1 := h1
  have w2 : (Smoother.mergeTopBottom nIter).wrapped s1 = .ok s2 := h2
  have w3 : (Smoother.optimalSize choices).wrapped s2 = .ok s3 := h3
  have w4 : (Smoother.nPlate minN).wrapped s3 = .ok nu := h
  have m1 := (wrap_smoothOk (fun _ _ _ _ _ hu hm h => smoother_facts (Smoother.mergeMin minSize pops) hu hm h) w1).2.2 hm0
  have m2 := (wrap_smoothOk (fun _ _ _ _ _ hu hm h => smoother_facts (Smoother.mergeTopBottom nIter) hu hm h) w2).2.2 m1
  have m3 := (wrap_smoothOk (fun _ _ _ _ _ hu hm h => smoother_facts (Smoother.optimalSize choices) hu hm h) w3).2.2 m2
  have m4 := (wrap_smoothOk (fun _ _ _ _ _ hu hm h => smoother_facts (Smoother.nPlate minN) hu hm h) w4).2.2 m3
  exact ⟨m4, smoother_singleSample_basic ne4 w4 (smoother_singleSample_basic ne3 w3
    (smoother_singleSample_basic ne2 w2 (smoother_singleSample_basic ne1 w1 hs0)))⟩

/-- every shipped smoother, the ensemble included, keeps single-sample unobserved plates -/
theorem smoother_singleSample (sm : Smoother) {r out : Screen} (h : sm.wrapped r = .ok out) (hs : SingleSample (rowsOf r)) :
    SingleSample (rowsOf out) := by
  by_cases he : ∃ a b c d e, sm = .ensemble a b c d e
  · obtain ⟨a, b, c, d, e, rfl⟩ := he
    apply wrap_singleSample h hs
    intro u nu hu hnu
    have B := build_ok hu
    have hm0 : ∀ x ∈ rowsOf u, x.mask = false := by rw [B.rows_eq]; exact unobserved_mask
    have hs0 : SingleSample (rowsOf u) := by
      rw [B.rows_eq]
      intro r1 h1 r2 h2 _ _ e'
      obtain ⟨a1, m1⟩ := mem_of_mem_unobserved h1
      obtain ⟨a2, m2⟩ := mem_of_mem_unobserved h2
      exact hs r1 a1 r2 a2 m1 m2 e'
    obtain ⟨mm, ss⟩ := ensemble_singleSample hm0 hs0 hnu
    exact ⟨mm, singleSampleAll_of_unmasked ss mm⟩
  · exact smoother_singleSample_basic (fun a b c d e hx => he ⟨a, b, c, d, e, hx⟩) h hs

end Batchie.Prep
