/-
  C11 / C13 lemmas: `PairwisePlateGenerator` (`genPairwise`).
    * shape of a successful run (`genPairwise_ok`),
    * conservation: the generated screen holds the experiments of the input, each exactly once, all unobserved,
    * every generated plate holds rows of a single sample (combination rows by the tuple encoding of the plate
      name, single-agent rows because they are assigned to a combination plate of their own sample).
-/
import Batchie.Lemmas.PrepWrap
namespace Batchie.Prep
open Batchie.Proto Batchie.Screen

/-! ### decimal plate names are injective (self-contained copy, independent of `PrepSeg`) -/

/-- left inverse of `decDigits` -/
def pwOfDec (ds : List Nat) : Nat := ds.foldl (fun acc d => acc * 10 + (d - 48)) 0

theorem pwOfDec_append_single (ds : List Nat) (d : Nat) : pwOfDec (ds ++ [d]) = pwOfDec ds * 10 + (d - 48) := by
  simp [pwOfDec, List.foldl_append]

theorem pwOfDec_decDigitsF (f n : Nat) (h : n < 10 ^ (f + 1)) : pwOfDec (decDigitsF f n) = n := by
  induction f generalizing n with
  | zero =>
    have h' : n < 10 := by simpa using h
    simp [decDigitsF, pwOfDec]
    omega
  | succ f ih =>
    unfold decDigitsF
    split
    · simp [pwOfDec]
    · rw [pwOfDec_append_single, ih (n / 10) (by rw [Nat.pow_succ] at h; omega)]
      omega

theorem pwOfDec_decDigits (n : Nat) : pwOfDec (decDigits n) = n := by
  unfold decDigits
  apply pwOfDec_decDigitsF
  have h1 : n < 10 ^ n := Nat.lt_pow_self (by omega)
  have h2 : 10 ^ n ≤ 10 ^ (n + 1) := Nat.pow_le_pow_right (by omega) (by omega)
  omega

theorem pwGenName_inj (a b : Nat) (h : genName a = genName b) : a = b := by
  unfold genName at h
  have := congrArg pwOfDec (List.append_cancel_left h)
  rwa [pwOfDec_decDigits, pwOfDec_decDigits] at this

theorem pw_idxOf_inj {α : Type} [BEq α] [LawfulBEq α] {l : List α} {x y : α} (hx : x ∈ l) (hy : y ∈ l)
    (h : l.idxOf x = l.idxOf y) : x = y := by
  have h1 := List.idxOf_lt_length_of_mem hx
  have h2 := List.idxOf_lt_length_of_mem hy
  have e1 := List.getElem_idxOf h1
  have e2 := List.getElem_idxOf h2
  calc x = l[l.idxOf x] := e1.symm
    _ = l[l.idxOf y] := by simp only [h]
    _ = y := e2

/-! ### relabelling helpers -/

theorem pw_relabel_exp (rows : List Row) (names : List Name) (h : rows.length ≤ names.length) :
    (clearMask (setPlates rows names)).map Row.exp = rows.map Row.exp := by
  unfold clearMask setPlates
  induction rows generalizing names with
  | nil => simp
  | cons r rows ih =>
    cases names with
    | nil => simp at h
    | cons p names =>
      simp only [List.zipWith_cons_cons, List.map_cons]
      rw [ih names (by simpa using h)]
      rfl

theorem pw_clearMask_mask (rows : List Row) : ∀ r ∈ clearMask rows, r.mask = false := by
  intro r hr
  obtain ⟨r0, _, rfl⟩ := List.mem_map.mp hr
  rfl

theorem pw_relabel_length (rows : List Row) (names : List Name) (h : names.length = rows.length) :
    (clearMask (setPlates rows names)).length = rows.length := by
  simp [clearMask, setPlates, h]

theorem pw_relabel_getElem (rows : List Row) (names : List Name) (i : Nat) (h : i < (clearMask (setPlates rows names)).length)
    (h1 : i < rows.length) (h2 : i < names.length) :
    (clearMask (setPlates rows names))[i] = { rows[i] with plate := names[i], mask := false } := by
  simp [clearMask, setPlates]

/-- C1 helper: `assignSingles` keeps every field except plate and mask, in order -/
theorem assignSingles_exp : ∀ (rows : List Row) (asg : List (Name × List Name)),
    (assignSingles rows asg).map Row.exp = rows.map Row.exp := by
  intro rows
  induction rows with
  | nil => intro asg; simp [assignSingles]
  | cons r rs ih =>
    intro asg
    unfold assignSingles
    split
    · simp only [List.map_cons, ih]; rfl
    · simp only [List.map_cons, ih]; rfl

theorem assignSingles_mask : ∀ (rows : List Row) (asg : List (Name × List Name)),
    ∀ r ∈ assignSingles rows asg, r.mask = false := by
  intro rows
  induction rows with
  | nil => intro asg r hr; simp [assignSingles] at hr
  | cons r rs ih =>
    intro asg r' hr'
    unfold assignSingles at hr'
    split at hr'
    · rcases List.mem_cons.mp hr' with rfl | h
      · rfl
      · exact ih _ _ h
    · rcases List.mem_cons.mp hr' with rfl | h
      · rfl
      · exact ih _ _ h

theorem pw_maskFilter_all_false {α : Type} (l : List α) (m : List Bool) (h : ∀ b ∈ m, b = false) : maskFilter l m = [] := by
  induction l generalizing m with
  | nil => cases m <;> rfl
  | cons a l ih =>
    cases m with
    | nil => rfl
    | cons b m =>
      have hb : b = false := h b List.mem_cons_self
      subst hb
      simp only [maskFilter, Bool.false_eq_true, if_false]
      exact ih m (fun b hb => h b (List.mem_cons_of_mem _ hb))

/-! ### shape of a successful run -/

/-- the `(sample_id, sorted group ids…)` tuple of every combination row -/
def pairTuples (combo : Screen) (groups : List (List Int)) : List (List Int) :=
  (combo.sids.zip combo.tids).map (fun p =>
    p.1 :: (p.2.map (groupOf groups)).mergeSort (fun a b => decide (a ≤ b)))

/-- the generated plate name of every combination row -/
def pairNames (combo : Screen) (groups : List (List Int)) : List Name :=
  (pairTuples combo groups).map (fun t =>
    genName ((((pairTuples combo groups).eraseDups).mergeSort lexLe).idxOf t))

/-- the sorted distinct sample names of the single-agent rows -/
def pairSNames (sRows : List Row) : List Name := ((sRows.map (·.sample)).eraseDups).mergeSort nameLe

/-- the relabelled, unmasked combination rows -/
def pairComboRows (combo : Screen) (groups : List (List Int)) : List Row :=
  clearMask (setPlates (rowsOf combo) (pairNames combo groups))

theorem genPairwise_ok {sub anc : Int} {anchor : List Int} {perms : List (List Int)} {assign : List (List Name)}
    {u nu : Screen} (h : genPairwise sub anc anchor perms assign u = .ok nu) :
    ∃ combo groups, select u (u.tids.map comboRow) = .ok combo ∧
      pairwiseGroups sub anc (uniqueSorted combo.tids.flatten)
        ((uniqueSorted combo.tids.flatten).map (fun t => combo.tids.flatten.count t)) anchor perms = .ok groups ∧
      (((u.tids.map comboRow).any (!·) = false ∧ rowsOf nu = pairComboRows combo groups) ∨
       ∃ sg asg, (u.tids.map comboRow).any (!·) = true ∧ select u ((u.tids.map comboRow).map (!·)) = .ok sg ∧
         pairwiseSingles (pairComboRows combo groups) (rowsOf sg) (pairSNames (rowsOf sg)) assign = .ok asg ∧
         rowsOf nu = pairComboRows combo groups ++ assignSingles (rowsOf sg) asg) := by
  unfold genPairwise at h
  obtain ⟨combo, hcombo, h⟩ := bind_ok h
  refine ⟨combo, ?_⟩
  simp only at h
  split at h
  · rename_i hc
    obtain ⟨single, hsingle, h⟩ := bind_ok h
    obtain ⟨sg, hsg, rfl⟩ := map_ok hsingle
    obtain ⟨groups, hgroups, h⟩ := bind_ok h
    obtain ⟨comboGen, hcg, h⟩ := bind_ok h
    have rcg : rowsOf comboGen = pairComboRows combo groups := (build_ok hcg).rows_eq
    refine ⟨groups, hcombo, hgroups, Or.inr ?_⟩
    simp only at h
    obtain ⟨asg, hasg, h⟩ := bind_ok h
    obtain ⟨sgen, hsgen, h⟩ := bind_ok h
    have r1 := (combine_ok h).rows_eq
    rw [rcg, (build_ok hsgen).rows_eq] at r1
    rw [rcg] at hasg
    exact ⟨sg, asg, hc, hsg, hasg, r1⟩
  · rename_i hc
    obtain ⟨single, hsingle, h⟩ := bind_ok h
    simp only [pure, Except.pure] at hsingle
    injection hsingle with hsingle
    subst hsingle
    obtain ⟨groups, hgroups, h⟩ := bind_ok h
    obtain ⟨comboGen, hcg, h⟩ := bind_ok h
    have rcg : rowsOf comboGen = pairComboRows combo groups := (build_ok hcg).rows_eq
    refine ⟨groups, hcombo, hgroups, Or.inl ⟨by simpa using hc, ?_⟩⟩
    simp only [pure, Except.pure] at h
    injection h with h
    subst h
    exact rcg

/-! ### C1: conservation -/

theorem length_pairNames {c : Name} {a : Nat} {rows : List Row} {combo : Screen} (hb : BuildOk c a rows combo)
    (groups : List (List Int)) : (pairNames combo groups).length = rows.length := by
  simp [pairNames, pairTuples, hb.sids_len, hb.tids_len]

theorem pairComboRows_exp {c : Name} {a : Nat} {rows : List Row} {combo : Screen} (hb : BuildOk c a rows combo)
    (groups : List (List Int)) : (pairComboRows combo groups).map Row.exp = rows.map Row.exp := by
  unfold pairComboRows
  rw [hb.rows_eq]
  exact pw_relabel_exp _ _ (by rw [length_pairNames hb]; exact Nat.le_refl _)

/-- C1: the generated screen holds exactly the experiments of the input, all unobserved -/
theorem genPairwise_conserve {sub anc : Int} {anchor : List Int} {perms : List (List Int)} {assign : List (List Name)}
    {u nu : Screen} (h : genPairwise sub anc anchor perms assign u = .ok nu) (hlen : u.tids.length = (rowsOf u).length) :
    ((rowsOf nu).map Row.exp).Perm ((rowsOf u).map Row.exp) ∧ ∀ r ∈ rowsOf nu, r.mask = false := by
  obtain ⟨combo, groups, hcombo, _, hcase⟩ := genPairwise_ok h
  have hb := select_ok hcombo
  have hml : (u.tids.map comboRow).length = (rowsOf u).length := by simpa using hlen
  have hsplit := (maskFilter_perm_split (rowsOf u) (u.tids.map comboRow) hml).map Row.exp
  rcases hcase with ⟨hc, hrows⟩ | ⟨sg, asg, hc, hsg, hasg, hrows⟩
  · constructor
    · rw [hrows, pairComboRows_exp hb]
      have : maskFilter (rowsOf u) ((u.tids.map comboRow).map (!·)) = [] := by
        apply pw_maskFilter_all_false
        intro b hb'
        obtain ⟨b0, hb0, rfl⟩ := List.mem_map.mp hb'
        have := (any_not_eq_false_iff _).mp hc b0 hb0
        simp [this]
      rw [this, List.append_nil] at hsplit
      exact hsplit
    · rw [hrows]; exact pw_clearMask_mask _
  · have hs := select_ok hsg
    constructor
    · rw [hrows, List.map_append, pairComboRows_exp hb, assignSingles_exp, hs.rows_eq, ← List.map_append]
      exact hsplit
    · rw [hrows]
      intro r hr
      rcases List.mem_append.mp hr with hr | hr
      · exact pw_clearMask_mask _ r hr
      · exact assignSingles_mask _ _ r hr

/-- C1 for a constructed input -/
theorem genPairwise_conserve_of_build {sub anc : Int} {anchor : List Int} {perms : List (List Int)} {assign : List (List Name)}
    {c : Name} {a : Nat} {rows : List Row} {u nu : Screen} (hu : build c a rows = .ok u)
    (h : genPairwise sub anc anchor perms assign u = .ok nu) :
    ((rowsOf nu).map Row.exp).Perm (rows.map Row.exp) ∧ ∀ r ∈ rowsOf nu, r.mask = false := by
  have hb := build_ok hu
  have := genPairwise_conserve h (by rw [hb.tids_len, hb.rows_eq])
  rwa [hb.rows_eq] at this

/-! ### C2: a single sample per generated plate -/

/-- equal generated names ⇒ equal tuples ⇒ equal (fresh) sample ids ⇒ equal sample names -/
theorem pairNames_sample {c : Name} {a : Nat} {rows : List Row} {combo : Screen} (hb : BuildOk c a rows combo)
    (groups : List (List Int)) (i j : Nat) (hi : i < rows.length) (hj : j < rows.length)
    (h : (pairNames combo groups)[i]'(by rw [length_pairNames hb]; exact hi)
       = (pairNames combo groups)[j]'(by rw [length_pairNames hb]; exact hj)) :
    rows[i].sample = rows[j].sample := by
  have hsl := hb.sids_len
  have htl := hb.tids_len
  have hlt : (pairTuples combo groups).length = rows.length := by simp [pairTuples, hsl, htl]
  have hmem : ∀ k (hk : k < (pairTuples combo groups).length),
      (pairTuples combo groups)[k] ∈ ((pairTuples combo groups).eraseDups).mergeSort lexLe := by
    intro k hk
    rw [(List.mergeSort_perm _ _).mem_iff, List.mem_eraseDups]
    exact List.getElem_mem hk
  simp only [pairNames, List.getElem_map] at h
  have h1 := pwGenName_inj _ _ h
  have h2 := pw_idxOf_inj (hmem i (by omega)) (hmem j (by omega)) h1
  simp only [pairTuples, List.getElem_map, List.getElem_zip] at h2
  injection h2 with h3 _
  have e : ∀ k (hk : k < rows.length), combo.sids[k]'(by omega) = sId (freshSMap (rows.map (·.sample))) rows[k].sample := by
    intro k hk
    simp only [hb.sids_eq, List.getElem_map]
  rw [e i hi, e j hj] at h3
  exact sId_inj _ _ _ (List.mem_map.mpr ⟨_, List.getElem_mem hi, rfl⟩) (List.mem_map.mpr ⟨_, List.getElem_mem hj, rfl⟩) h3

/-- C2, combination rows: rows of the relabelled combination part with equal plate names have equal sample names -/
theorem pairComboRows_single_sample {c : Name} {a : Nat} {rows : List Row} {combo : Screen} (hb : BuildOk c a rows combo)
    (groups : List (List Int)) :
    ∀ r1 ∈ pairComboRows combo groups, ∀ r2 ∈ pairComboRows combo groups, r1.plate = r2.plate → r1.sample = r2.sample := by
  have hnl := length_pairNames hb groups
  have hlen : (pairComboRows combo groups).length = rows.length := by
    unfold pairComboRows; rw [hb.rows_eq]; exact pw_relabel_length _ _ hnl
  have hget : ∀ k (hk : k < (pairComboRows combo groups).length),
      (pairComboRows combo groups)[k].plate = (pairNames combo groups)[k]'(by omega) ∧
      (pairComboRows combo groups)[k].sample = (rows[k]'(by omega)).sample := by
    intro k hk
    have hk' : k < rows.length := by omega
    have := pw_relabel_getElem (rowsOf combo) (pairNames combo groups) k hk (by rw [hb.rows_eq]; exact hk') (by omega)
    unfold pairComboRows
    rw [this]
    simp only [hb.rows_eq, and_self]
  intro r1 hr1 r2 hr2 hp
  obtain ⟨i, hi, rfl⟩ := List.getElem_of_mem hr1
  obtain ⟨j, hj, rfl⟩ := List.getElem_of_mem hr2
  rw [(hget i hi).1, (hget j hj).1] at hp
  rw [(hget i hi).2, (hget j hj).2]
  exact pairNames_sample hb groups i j (by omega) (by omega) hp

/-- the recorded assignments: one entry per sample name, as many plates as the sample has single-agent rows,
    every plate taken from a combination row of the same sample name -/
theorem pairwiseSingles_ok {comboRows singleRows : List Row} :
    ∀ (snames : List Name) (log : List (List Name)) (asg : List (Name × List Name)),
      pairwiseSingles comboRows singleRows snames log = .ok asg →
      asg.map (·.1) = snames ∧
      ∀ a ∈ asg, a.2.length = (singleRows.filter (·.sample == a.1)).length ∧
        ∀ p ∈ a.2, ∃ cr ∈ comboRows, cr.sample = a.1 ∧ cr.plate = p := by
  intro snames
  induction snames with
  | nil =>
    intro log asg h
    simp only [pairwiseSingles] at h
    injection h with h; subst h
    simp
  | cons nm rest ih =>
    intro log asg h
    unfold pairwiseSingles at h
    simp only at h
    split at h
    · cases h
    · cases log with
      | nil => cases h
      | cons a log' =>
        simp only at h
        split at h
        · cases h
        · rename_i hc
          obtain ⟨more, hmore, h⟩ := bind_ok h
          simp only [pure, Except.pure] at h
          injection h with h; subst h
          obtain ⟨ih1, ih2⟩ := ih _ _ hmore
          simp only [Bool.not_eq_true, Bool.not_eq_false', Bool.and_eq_true, beq_iff_eq, List.all_eq_true] at hc
          refine ⟨by simp [ih1], ?_⟩
          intro b hb
          rcases List.mem_cons.mp hb with rfl | hb
          · refine ⟨hc.1, ?_⟩
            intro p hp
            have := List.contains_iff_mem.mp (hc.2 p hp)
            rw [List.mem_eraseDups] at this
            obtain ⟨cr, hcr, rfl⟩ := List.mem_map.mp this
            obtain ⟨hcr1, hcr2⟩ := List.mem_filter.mp hcr
            exact ⟨cr, hcr1, by simpa using hcr2, rfl⟩
          · exact ih2 b hb

/-- invariant of `assignSingles`: every sample still to be served has an entry with enough plates left, all admissible -/
def AsgInv (Q : Name → Name → Prop) (rs : List Row) (asg : List (Name × List Name)) : Prop :=
  ∀ nm, nm ∈ rs.map (·.sample) →
    ∃ a, asg.find? (fun a => a.1 == nm) = some a ∧ (rs.filter (·.sample == nm)).length ≤ a.2.length ∧ ∀ p ∈ a.2, Q nm p

theorem assignSingles_spec (Q : Name → Name → Prop) : ∀ (rs : List Row) (asg : List (Name × List Name)),
    AsgInv Q rs asg → ∀ r' ∈ assignSingles rs asg, Q r'.sample r'.plate := by
  intro rs
  induction rs with
  | nil => intro asg _ r' hr'; simp [assignSingles] at hr'
  | cons r rs ih =>
    intro asg hinv r' hr'
    obtain ⟨a, hfind, hlen, hQ⟩ := hinv r.sample (by simp)
    obtain ⟨anm, al⟩ := a
    have hanm : anm = r.sample := by
      have := List.find?_some hfind
      simpa using this
    subst hanm
    cases al with
    | nil => simp at hlen
    | cons p ps =>
      unfold assignSingles at hr'
      rw [hfind] at hr'
      simp only at hr'
      rcases List.mem_cons.mp hr' with rfl | hr'
      · exact hQ p List.mem_cons_self
      · refine ih _ ?_ r' hr'
        intro nm hnm
        obtain ⟨a', hf', hl', hQ'⟩ := hinv nm (by simp only [List.map_cons, List.mem_cons]; exact Or.inr hnm)
        have hcomp : ((fun a : Name × List Name => a.1 == nm) ∘
            (fun a : Name × List Name => if a.1 == r.sample then (a.1, ps) else a)) = (fun a : Name × List Name => a.1 == nm) := by
          funext b
          simp only [Function.comp]
          split <;> rfl
        rw [List.find?_map, hcomp, hf']
        simp only [Option.map_some]
        by_cases e : nm = r.sample
        · subst e
          rw [hfind] at hf'
          injection hf' with hf'
          subst hf'
          refine ⟨_, rfl, ?_, ?_⟩
          · simp only [beq_self_eq_true, if_true]
            simp only [List.filter_cons, beq_self_eq_true, if_true, List.length_cons] at hl'
            omega
          · simp only [beq_self_eq_true, if_true]
            intro p' hp'
            exact hQ p' (List.mem_cons_of_mem _ hp')
        · have ha' : a'.1 = nm := by
            have := List.find?_some hf'
            simpa using this
          have hne : (a'.1 == r.sample) = false := by
            rw [ha']; simpa using e
          have hne' : (r.sample == nm) = false := by
            simpa using fun h => e h.symm
          refine ⟨_, rfl, ?_, ?_⟩
          · simp only [hne, Bool.false_eq_true, if_false]
            simp only [List.filter_cons, hne', Bool.false_eq_true, if_false] at hl'
            exact hl'
          · simp only [hne, Bool.false_eq_true, if_false]
            exact hQ'

/-- C2, single-agent rows: every assigned row sits on a plate of a combination row of its own sample name -/
theorem assignSingles_eligible {comboRows sRows : List Row} {log : List (List Name)} {asg : List (Name × List Name)}
    (h : pairwiseSingles comboRows sRows (pairSNames sRows) log = .ok asg) :
    ∀ r' ∈ assignSingles sRows asg, ∃ cr ∈ comboRows, cr.sample = r'.sample ∧ cr.plate = r'.plate := by
  obtain ⟨h1, h2⟩ := pairwiseSingles_ok _ _ _ h
  apply assignSingles_spec (fun nm p => ∃ cr ∈ comboRows, cr.sample = nm ∧ cr.plate = p)
  intro nm hnm
  have hnm' : nm ∈ pairSNames sRows := by
    unfold pairSNames
    rw [(List.mergeSort_perm _ _).mem_iff, List.mem_eraseDups]
    exact hnm
  rw [← h1] at hnm'
  obtain ⟨a0, ha0, ha0nm⟩ := List.mem_map.mp hnm'
  have hsome : (asg.find? (fun a => a.1 == nm)).isSome = true := by
    rw [List.find?_isSome]
    exact ⟨a0, ha0, by simpa using ha0nm⟩
  obtain ⟨a, ha⟩ := Option.isSome_iff_exists.mp hsome
  have hanm : a.1 = nm := by
    have := List.find?_some ha
    simpa using this
  obtain ⟨hl, hq⟩ := h2 a (List.mem_of_find?_eq_some ha)
  refine ⟨a, ha, ?_, ?_⟩
  · rw [hl, hanm]; exact Nat.le_refl _
  · intro p hp
    obtain ⟨cr, hcr, hs, hpl⟩ := hq p hp
    exact ⟨cr, hcr, hs.trans hanm, hpl⟩

/-- C2: every generated plate holds rows of a single sample -/
theorem genPairwise_single_sample {sub anc : Int} {anchor : List Int} {perms : List (List Int)} {assign : List (List Name)}
    {u nu : Screen} (h : genPairwise sub anc anchor perms assign u = .ok nu) :
    ∀ r1 ∈ rowsOf nu, ∀ r2 ∈ rowsOf nu, r1.plate = r2.plate → r1.sample = r2.sample := by
  obtain ⟨combo, groups, hcombo, _, hcase⟩ := genPairwise_ok h
  have hb := select_ok hcombo
  have hF1 := pairComboRows_single_sample hb groups
  rcases hcase with ⟨_, hrows⟩ | ⟨sg, asg, _, _, hasg, hrows⟩
  · rw [hrows]; exact hF1
  · have hF2 := assignSingles_eligible hasg
    have key : ∀ r ∈ rowsOf nu, ∃ cr ∈ pairComboRows combo groups, cr.sample = r.sample ∧ cr.plate = r.plate := by
      intro r hr
      rw [hrows] at hr
      rcases List.mem_append.mp hr with hr | hr
      · exact ⟨r, hr, rfl, rfl⟩
      · exact hF2 r hr
    intro r1 hr1 r2 hr2 hp
    obtain ⟨c1, hc1, hs1, hp1⟩ := key r1 hr1
    obtain ⟨c2, hc2, hs2, hp2⟩ := key r2 hr2
    rw [← hs1, ← hs2]
    exact hF1 c1 hc1 c2 hc2 (by rw [hp1, hp2, hp])

/-- C2 (supplement): every single-agent row is placed on a plate that also holds a combination row of the same sample -/
theorem genPairwise_rows_on_combo_plates {sub anc : Int} {anchor : List Int} {perms : List (List Int)}
    {assign : List (List Name)} {u nu : Screen} (h : genPairwise sub anc anchor perms assign u = .ok nu) :
    ∃ combo groups, select u (u.tids.map comboRow) = .ok combo ∧
      (∀ cr ∈ pairComboRows combo groups, cr ∈ rowsOf nu) ∧
      ∀ r ∈ rowsOf nu, ∃ cr ∈ pairComboRows combo groups, cr.sample = r.sample ∧ cr.plate = r.plate := by
  obtain ⟨combo, groups, hcombo, _, hcase⟩ := genPairwise_ok h
  refine ⟨combo, groups, hcombo, ?_⟩
  rcases hcase with ⟨_, hrows⟩ | ⟨sg, asg, _, _, hasg, hrows⟩
  · rw [hrows]
    exact ⟨fun cr h => h, fun r hr => ⟨r, hr, rfl, rfl⟩⟩
  · have hF2 := assignSingles_eligible hasg
    rw [hrows]
    refine ⟨fun cr h => List.mem_append_left _ h, ?_⟩
    intro r hr
    rcases List.mem_append.mp hr with hr | hr
    · exact ⟨r, hr, rfl, rfl⟩
    · exact hF2 r hr

end Batchie.Prep
