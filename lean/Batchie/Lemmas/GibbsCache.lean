/-
  The fitted-value cache invariant `Mu = mu(params)`: established by `_reconstruct_Mu`, preserved by
  every block for every drawn value (treatment blocks: on data without self pairs), hence by every
  stage of a sweep.
-/
import Batchie.Lemmas.GibbsState

namespace Batchie.Gibbs
open Finset

theorem cacheOK_push (dt : Data ℝ) (st : State ℝ) (r : Rec ℝ) (h : CacheOK dt st) : CacheOK dt (st.push r) :=
  fun n hn => h n hn

theorem Blk.design_of_not_has (b : Blk ℝ) (h : b.has = false) (n d : ℕ) (hn : n < b.N) : b.design n d = 0 := by
  unfold Blk.has at h
  rw [Bool.or_eq_false_iff, anyN_false_iff, anyN_false_iff] at h
  simp [Blk.design, h.1 n hn, h.2 n hn]

/-- generic vector block: the code's cache update is right for every drawn value `w` -/
theorem cache_blk (b : Blk ℝ) (Mu : ℕ → ℝ) (μ : (ℕ → ℝ) → ℕ → ℝ)
    (haff : ∀ x n, n < b.N → μ x n = μ (fun _ => 0) n + ∑ d ∈ range b.D, b.design n d * x d)
    (hcache : ∀ n, n < b.N → Mu n = μ b.cur n) (w : ℕ → ℝ) (n : ℕ) (hn : n < b.N) :
    (if b.has then b.muNext Mu w else Mu) n = μ w n := by
  have hc : Mu n = μ (fun _ => 0) n + ∑ d ∈ range b.D, b.design n d * b.cur d := by
    rw [hcache n hn, ← haff _ n hn]
  by_cases hh : b.has = true
  · simp only [hh, if_true]
    rw [haff w n hn]
    exact b.muNext_spec Mu (fun n => μ (fun _ => 0) n) w n hc
  · have hf : b.has = false := by simpa using hh
    simp only [hf, Bool.false_eq_true, if_false]
    rw [haff w n hn, hc]
    congr 1
    apply sum_congr rfl; intro d _
    rw [b.design_of_not_has hf n d hn]; ring

/-- generic scalar block -/
theorem cache_sblk (N : ℕ) (s1 s2 : ℕ → Bool) (Mu : ℕ → ℝ) (old : ℝ) (μ : ℝ → ℕ → ℝ)
    (haff : ∀ x n, n < N → μ x n = μ 0 n + sDesign s1 s2 n * x)
    (hcache : ∀ n, n < N → Mu n = μ old n) (v : ℝ) (n : ℕ) (hn : n < N) :
    sMuNext N s1 s2 Mu old v n = μ v n := by
  rw [haff v n hn]
  apply sMuNext_spec N s1 s2 Mu (fun n => μ 0 n) old v n hn
  rw [hcache n hn, ← haff _ n hn]

/-! ### the stages of a sweep -/

theorem cache_reconstruct (dt : Data ℝ) (st : State ℝ) : CacheOK dt (reconstructMu dt st) := by
  intro n hn
  unfold reconstructMu
  have : ¬ dt.N = 0 := by omega
  simp only [this, if_false]
  rfl

theorem cache_alpha (dt : Data ℝ) (st : State ℝ) (h : CacheOK dt st) : CacheOK dt (alphaStep dt st) := by
  intro n hn
  unfold alphaStep
  have : ¬ dt.N = 0 := by omega
  simp only [this, if_false]
  show st.Mu n + (alphaValue dt - st.alpha) = mu dt { st with alpha := alphaValue dt } n
  rw [h n hn, mu_eq, mu_eq]; ring

theorem cache_w0Next (dt : Data ℝ) (st : State ℝ) (h : CacheOK dt st) (c : ℕ) (v : ℝ) :
    CacheOK dt (w0Next dt st c v) := by
  intro n hn
  exact cache_sblk dt.N (selC dt c) selNone st.Mu (st.W0 c) (fun x n => mu dt (setW0 st c x) n)
    (fun x n _ => mu_affine_W0 dt st c x n) (fun n hn => by rw [setW0_self]; exact h n hn) v n hn

theorem cache_w0Step (dt : Data ℝ) (ω : Draws ℝ) (st : State ℝ) (h : CacheOK dt st) :
    CacheOK dt (w0Step dt ω st) :=
  iter_induction (CacheOK dt) _ _ _ h (fun c _ t ht => cacheOK_push dt _ _ (cache_w0Next dt t ht c (ω.w0 c)))

theorem cache_v0Next (dt : Data ℝ) (hw : WellFormed dt) (hp : NoSelfPair dt) (st : State ℝ) (h : CacheOK dt st)
    (m : ℕ) (v : ℝ) : CacheOK dt (v0Next dt st m v) := by
  intro n hn
  exact cache_sblk dt.N (sel1 dt m) (sel2 dt m) st.Mu (st.V0 m) (fun x n => mu dt (setV0 st m x) n)
    (fun x n hn => mu_affine_V0 dt hw hp st m x n hn) (fun n hn => by rw [setV0_self]; exact h n hn) v n hn

theorem cache_v0Step (dt : Data ℝ) (hw : WellFormed dt) (hp : NoSelfPair dt) (ω : Draws ℝ) (st : State ℝ)
    (h : CacheOK dt st) : CacheOK dt (v0Step dt ω st) :=
  iter_induction (CacheOK dt) _ _ _ h
    (fun m _ t ht => cacheOK_push dt _ _ (cache_v0Next dt hw hp t ht m (ω.v0 m)))

theorem cache_wNext (dt : Data ℝ) (st : State ℝ) (h : CacheOK dt st) (c : ℕ) (v : Option (ℕ → ℝ)) :
    CacheOK dt (wNext dt st c v) := by
  cases v with
  | none => exact h
  | some w =>
    intro n hn
    have key := cache_blk (wBlk dt st c) st.Mu (fun x n => mu dt (setW st c x) n)
      (fun x n _ => mu_affine_W dt st c x n) (fun n hn => by show st.Mu n = mu dt (setW st c (st.W c)) n; rw [setW_self]; exact h n hn) w n hn
    unfold wNext
    by_cases hh : (wBlk dt st c).has = true
    · simp only [hh, if_true] at key ⊢; exact key
    · have hf : (wBlk dt st c).has = false := by simpa using hh
      simp only [hf, Bool.false_eq_true, if_false] at key ⊢; exact key

theorem cache_wStep (dt : Data ℝ) (ω : Draws ℝ) (st : State ℝ) (h : CacheOK dt st) :
    CacheOK dt (wStep dt ω st) :=
  iter_induction (CacheOK dt) _ _ _ h (fun c _ t ht => cacheOK_push dt _ _ (cache_wNext dt t ht c (ω.w c)))

theorem cache_v2Next (dt : Data ℝ) (hw : WellFormed dt) (hp : NoSelfPair dt) (st : State ℝ) (h : CacheOK dt st)
    (m : ℕ) (v : Option (ℕ → ℝ)) : CacheOK dt (v2Next dt st m v) := by
  cases v with
  | none => exact h
  | some w =>
    intro n hn
    have key := cache_blk (v2Blk dt st m) st.Mu (fun x n => mu dt (setV2 st m x) n)
      (fun x n hn => mu_affine_V2 dt hw hp st m x n hn) (fun n hn => by show st.Mu n = mu dt (setV2 st m (st.V2 m)) n; rw [setV2_self]; exact h n hn) w n hn
    unfold v2Next
    by_cases hh : (v2Blk dt st m).has = true
    · simp only [hh, if_true] at key ⊢; exact key
    · have hf : (v2Blk dt st m).has = false := by simpa using hh
      simp only [hf, Bool.false_eq_true, if_false] at key ⊢; exact key

theorem cache_v2Step (dt : Data ℝ) (hw : WellFormed dt) (hp : NoSelfPair dt) (ω : Draws ℝ) (st : State ℝ)
    (h : CacheOK dt st) : CacheOK dt (v2Step dt ω st) :=
  iter_induction (CacheOK dt) _ _ _ h
    (fun m _ t ht => cacheOK_push dt _ _ (cache_v2Next dt hw hp t ht m (ω.v2 m)))

theorem cache_v1Next (dt : Data ℝ) (hw : WellFormed dt) (hp : NoSelfPair dt) (st : State ℝ) (h : CacheOK dt st)
    (m : ℕ) (v : Option (ℕ → ℝ)) : CacheOK dt (v1Next dt st m v) := by
  cases v with
  | none => exact h
  | some w =>
    intro n hn
    have key := cache_blk (v1Blk dt st m) st.Mu (fun x n => mu dt (setV1 st m x) n)
      (fun x n hn => mu_affine_V1 dt hw hp st m x n hn) (fun n hn => by show st.Mu n = mu dt (setV1 st m (st.V1 m)) n; rw [setV1_self]; exact h n hn) w n hn
    unfold v1Next
    by_cases hh : (v1Blk dt st m).has = true
    · simp only [hh, if_true] at key ⊢; exact key
    · have hf : (v1Blk dt st m).has = false := by simpa using hh
      simp only [hf, Bool.false_eq_true, if_false] at key ⊢; exact key

theorem cache_v1Step (dt : Data ℝ) (hw : WellFormed dt) (hp : NoSelfPair dt) (ω : Draws ℝ) (st : State ℝ)
    (h : CacheOK dt st) : CacheOK dt (v1Step dt ω st) :=
  iter_induction (CacheOK dt) _ _ _ h
    (fun m _ t ht => cacheOK_push dt _ _ (cache_v1Next dt hw hp t ht m (ω.v1 m)))

/-- the precision stages touch neither `Mu` nor any parameter `mu` depends on -/
theorem cache_precW0 (dt : Data ℝ) (ω : Draws ℝ) (st : State ℝ) (h : CacheOK dt st) :
    CacheOK dt (precW0Step dt ω st) := fun n hn => h n hn

theorem cache_precV0 (dt : Data ℝ) (ω : Draws ℝ) (st : State ℝ) (h : CacheOK dt st) :
    CacheOK dt (precV0Step dt ω st) := fun n hn => h n hn

theorem cache_precObs (dt : Data ℝ) (ω : Draws ℝ) (st : State ℝ) (h : CacheOK dt st) :
    CacheOK dt (precObsStep dt ω st) := fun n hn => h n hn

theorem cache_precV2 (dt : Data ℝ) (ω : Draws ℝ) (st : State ℝ) (h : CacheOK dt st) :
    CacheOK dt (precV2Step dt ω st) := fun n hn => h n hn

theorem cache_precV1 (dt : Data ℝ) (ω : Draws ℝ) (st : State ℝ) (h : CacheOK dt st) :
    CacheOK dt (precV1Step dt ω st) := fun n hn => h n hn

theorem cache_precW (dt : Data ℝ) (ω : Draws ℝ) (st : State ℝ) (h : CacheOK dt st) :
    CacheOK dt (precWStep dt ω st) := by
  have : CacheOK dt (iter dt.D (gamBlock dt ω) st) :=
    iter_induction (CacheOK dt) _ _ _ h (fun d _ t ht => fun n hn => ht n hn)
  exact fun n hn => this n hn

/-- an invariant kept by every stage holds after every stage of `runTrace` -/
theorem runTrace_invariant {σ : Type} (P : σ → Prop) (fs : List (σ → σ)) (hf : ∀ f ∈ fs, ∀ s, P s → P (f s)) :
    ∀ (s : σ) (acc : List σ), P s → (∀ t ∈ acc, P t) →
      P (runTrace fs s acc).1 ∧ ∀ t ∈ (runTrace fs s acc).2, P t := by
  induction fs with
  | nil => intro s acc hs hacc; exact ⟨hs, hacc⟩
  | cons f fs ih =>
    intro s acc hs hacc
    have hfs : P (f s) := hf f (List.mem_cons_self) s hs
    have := ih (fun g hg => hf g (List.mem_cons_of_mem _ hg)) (f s) (acc ++ [f s]) hfs
      (fun t ht => by
        rcases List.mem_append.mp ht with h | h
        · exact hacc t h
        · rw [List.mem_singleton.mp h]; exact hfs)
    exact this

theorem cache_stepsTail (dt : Data ℝ) (hw : WellFormed dt) (hp : NoSelfPair dt) (ω : Draws ℝ) :
    ∀ f ∈ stepsTail dt ω, ∀ s, CacheOK dt s → CacheOK dt (f s) := by
  intro f hf s hs
  simp only [stepsTail, List.mem_cons, List.not_mem_nil, or_false] at hf
  rcases hf with rfl | rfl | rfl | rfl | rfl | rfl | rfl | rfl | rfl | rfl | rfl | rfl
  · exact cache_alpha dt s hs
  · exact cache_w0Step dt ω s hs
  · exact cache_v0Step dt hw hp ω s hs
  · exact cache_wStep dt ω s hs
  · exact cache_v2Step dt hw hp ω s hs
  · exact cache_v1Step dt hw hp ω s hs
  · exact cache_precW0 dt ω s hs
  · exact cache_precV0 dt ω s hs
  · exact cache_precObs dt ω s hs
  · exact cache_precV2 dt ω s hs
  · exact cache_precV1 dt ω s hs
  · exact cache_precW dt ω s hs

theorem cache_sweep (dt : Data ℝ) (hw : WellFormed dt) (hp : NoSelfPair dt) (ω : Draws ℝ) (st : State ℝ) :
    CacheOK dt (mcmcStep dt ω st) ∧ ∀ s ∈ mcmcTrace dt ω st, CacheOK dt s := by
  have h0 := cache_reconstruct dt st
  have := runTrace_invariant (CacheOK dt) (stepsTail dt ω) (cache_stepsTail dt hw hp ω)
    (reconstructMu dt st) ([] ++ [reconstructMu dt st]) h0
    (fun t ht => by
      rw [List.nil_append, List.mem_singleton] at ht; rw [ht]; exact h0)
  exact this

end Batchie.Gibbs
