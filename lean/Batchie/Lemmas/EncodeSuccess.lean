/-
  C01 helper lemmas, part 8: without supplied mappings `Screen.mk?` succeeds on every well-shaped input
  (the fresh encoders never fail), and the result is given in closed form.
-/
import Batchie.Lemmas.EncodeDense

namespace Batchie.Screen
open Batchie.Proto

/-- the screen `Screen(...)` builds when no mapping is supplied -/
def mkFresh (r : Raw) : Screen :=
  { ctrl := r.ctrl, arity := r.arity, tnames := r.tnames, tdoses := r.tdoses, snames := r.snames, pnames := r.pnames,
    obs := obsOf r, mask := maskOf r,
    tids := unflattenColumns ((allKeys r).map (tId (freshTMap r.ctrl (allKeys r)))) r.tnames.length r.arity,
    sids := r.snames.map (sId (freshSMap r.snames)), pids := r.pnames.map (sId (freshSMap r.pnames)),
    tmap := freshTMap r.ctrl (allKeys r), smap := freshSMap r.snames, pmap := freshSMap r.pnames }

/-- shape conditions of `Screen.__init__` -/
structure WellShaped (r : Raw) : Prop where
  len_tdoses : r.tdoses.length = r.tnames.length
  len_snames : r.snames.length = r.tnames.length
  len_pnames : r.pnames.length = r.tnames.length
  arity_tnames : ∀ row ∈ r.tnames, row.length = r.arity
  arity_tdoses : ∀ row ∈ r.tdoses, row.length = r.arity
  mask_needs_obs : (r.obs.isNone && r.mask.isSome) = false
  len_obs : obsLenBad r = false
  len_mask : (maskOf r).length = r.tnames.length
  uniform : plateUniform r.pnames (maskOf r) = true

theorem mk?_fresh (r : Raw) (w : WellShaped r) (ht : r.tmap = none) (hs : r.smap = none) : mk? r = .ok (mkFresh r) := by
  rw [mk?_ok_iff]
  exact
    { len_tdoses := w.len_tdoses, len_snames := w.len_snames, len_pnames := w.len_pnames,
      arity_tnames := w.arity_tnames, arity_tdoses := w.arity_tdoses, mask_needs_obs := w.mask_needs_obs,
      len_obs := w.len_obs, len_mask := w.len_mask, uniform := w.uniform,
      tmap_dense := by simp [tmapBad, ht], smap_dense := by simp [smapBad, hs],
      tenc := ⟨_, by rw [ht]; exact encodeTreatments_fresh r.ctrl (allKeys r),
               by rw [List.length_map, length_allKeys r w.len_tdoses], rfl⟩,
      senc := by rw [hs]; exact encode1d_fresh r.snames,
      len_sids := by simp [mkFresh, w.len_snames],
      penc := encode1d_fresh r.pnames,
      ctrl_eq := rfl, arity_eq := rfl, tnames_eq := rfl, tdoses_eq := rfl, snames_eq := rfl, pnames_eq := rfl,
      obs_eq := rfl, mask_eq := rfl }

/-- conversely a built screen's input was well shaped -/
theorem MkOk.wellShaped {r : Raw} {s : Screen} (m : MkOk r s) : WellShaped r :=
  { len_tdoses := m.len_tdoses, len_snames := m.len_snames, len_pnames := m.len_pnames,
    arity_tnames := m.arity_tnames, arity_tdoses := m.arity_tdoses, mask_needs_obs := m.mask_needs_obs,
    len_obs := m.len_obs, len_mask := m.len_mask, uniform := m.uniform }

end Batchie.Screen
