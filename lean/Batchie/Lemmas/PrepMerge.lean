/-
  C13 helper lemmas: `Plate.merge` on class selections.

  Every plate view produced by `selsOf pn` is the *class selection* `cls pn nm = pn.map (· == nm)` of a name `nm ∈ pn`,
  one per distinct name; `mergeSel` of two class selections is a *renaming* of the name column that identifies the two
  names.  All later reasoning about the merge smoothers is done on `List.map` over the name column.
-/
import Batchie.Lemmas.PrepWrap
namespace Batchie.Prep
open Batchie.Proto Batchie.Screen

/-! ### class selections -/

/-- the selection vector of the plate named `nm` -/
def cls (pn : List Name) (nm : Name) : List Bool := pn.map (· == nm)

theorem cls_inj {pn : List Name} {x y : Name} (hx : x ∈ pn) (h : cls pn x = cls pn y) : x = y := by
  unfold cls at h
  have := (List.map_inj_left.mp h) x hx
  simpa using this

theorem encIds_eq (pn : List Name) : encIds pn = .ok (pn.map (sId (freshSMap pn))) := by
  unfold encIds
  rw [encode1d_fresh]
  rfl

theorem exists_preimage_list {α β : Type} (f : α → β) (l : List α) (us : List β) (h : ∀ u ∈ us, ∃ a ∈ l, f a = u) :
    ∃ names : List α, names.map f = us ∧ ∀ a ∈ names, a ∈ l := by
  induction us with
  | nil => exact ⟨[], rfl, by simp⟩
  | cons u us ih =>
    obtain ⟨names, h1, h2⟩ := ih (fun u hu => h u (List.mem_cons_of_mem _ hu))
    obtain ⟨a, ha, hfa⟩ := h u List.mem_cons_self
    refine ⟨a :: names, by simp [h1, hfa], ?_⟩
    intro b hb
    rcases List.mem_cons.mp hb with rfl | hb
    · exact ha
    · exact h2 b hb

/-- `current_screen.plates`: one class selection per distinct plate name -/
theorem selsOf_spec (pn : List Name) :
    ∃ names : List Name, names.Nodup ∧ (∀ nm, nm ∈ names ↔ nm ∈ pn) ∧ selsOf pn = .ok (names.map (cls pn)) := by
  obtain ⟨f, hf⟩ : ∃ f, f = sId (freshSMap pn) := ⟨_, rfl⟩
  have hinj : ∀ a ∈ pn, ∀ b ∈ pn, f a = f b → a = b := fun a ha b hb h => sId_inj pn a b ha hb (hf ▸ h)
  obtain ⟨names, hmap, hsub⟩ := exists_preimage_list f pn (uniqueSorted (pn.map f)) (by
    intro u hu
    have := mem_uniqueSorted.mp hu
    obtain ⟨a, ha, rfl⟩ := List.mem_map.mp this
    exact ⟨a, ha, rfl⟩)
  have hnd : names.Nodup := by
    have := nodup_uniqueSorted (pn.map f)
    rw [← hmap] at this
    exact List.Pairwise.of_map f (fun a b h hab => h (hab ▸ rfl)) this
  refine ⟨names, hnd, ?_, ?_⟩
  · intro nm
    refine ⟨hsub nm, fun h => ?_⟩
    have h1 : f nm ∈ uniqueSorted (pn.map f) := mem_uniqueSorted.mpr (List.mem_map_of_mem h)
    rw [← hmap] at h1
    obtain ⟨a, ha, hfa⟩ := List.mem_map.mp h1
    have := hinj a (hsub a ha) nm h hfa
    rw [← this]; exact ha
  · unfold selsOf
    rw [encIds_eq, ← hf]
    show Except.ok _ = _
    congr 1
    rw [← hmap, List.map_map]
    apply List.map_congr_left
    intro nm hnm
    simp only [Function.comp, cls, List.map_map]
    apply List.map_congr_left
    intro p hp
    simp only [Function.comp]
    by_cases hpn : p = nm
    · subst hpn; simp
    · have : f p ≠ f nm := fun h => hpn (hinj p hp nm (hsub nm hnm) h)
      rw [beq_eq_false_iff_ne.mpr this, beq_eq_false_iff_ne.mpr hpn]

/-! ### merging two class selections is a renaming -/

/-- the renaming performed by merging the plates named `x` and `y` into the plate named `k` -/
def rho (x y k : Name) (p : Name) : Name := if (p == y || p == x) then k else p

/-- the name the merged plate gets: the name of the first row of either plate -/
def mergeKey (pn : List Name) (x y : Name) : Name := (pn.filter (fun p => p == y || p == x)).head!

theorem zipWith_map_map_self {α β γ δ : Type} (f : β → γ → δ) (g : α → β) (h : α → γ) (l : List α) :
    List.zipWith f (l.map g) (l.map h) = l.map (fun a => f (g a) (h a)) := by
  induction l with
  | nil => rfl
  | cons a l ih => simp [ih]

theorem zipWith_self_map {α γ δ : Type} (f : α → γ → δ) (h : α → γ) (l : List α) :
    List.zipWith f l (l.map h) = l.map (fun a => f a (h a)) := by
  induction l with
  | nil => rfl
  | cons a l ih => simp [ih]

theorem mergeSel_cls (pn : List Name) (x y : Name) :
    mergeSel pn (cls pn y) (cls pn x) = (pn.map (rho x y (mergeKey pn x y)), pn.map (fun p => p == y || p == x)) := by
  unfold mergeSel cls mergeKey
  simp only []
  rw [zipWith_map_map_self, zipWith_self_map, maskFilter_map_pred]
  rfl

theorem mergeKey_spec {pn : List Name} {x y : Name} (h : x ∈ pn ∨ y ∈ pn) :
    (mergeKey pn x y = x ∨ mergeKey pn x y = y) ∧ mergeKey pn x y ∈ pn := by
  unfold mergeKey
  cases hf : pn.filter (fun p => p == y || p == x) with
  | nil =>
    exfalso
    rw [List.filter_eq_nil_iff] at hf
    rcases h with h | h
    · exact hf x h (by simp)
    · exact hf y h (by simp)
  | cons a l =>
    have ha : a ∈ pn.filter (fun p => p == y || p == x) := by rw [hf]; exact List.mem_cons_self
    rw [List.mem_filter] at ha
    have h2 : a = y ∨ a = x := by simpa using ha.2
    refine ⟨?_, ha.1⟩
    show a = x ∨ a = y
    exact h2.symm

theorem rho_beq_key {x y k : Name} (hk : k = x ∨ k = y) (p : Name) : (rho x y k p == k) = (p == y || p == x) := by
  unfold rho
  by_cases h : (p == y || p == x) = true
  · simp [h]
  · have h' : (p == y || p == x) = false := by simpa using h
    rw [if_neg h, h']
    have : p ≠ y ∧ p ≠ x := by simpa using h'
    rcases hk with rfl | rfl
    · exact beq_eq_false_iff_ne.mpr this.2
    · exact beq_eq_false_iff_ne.mpr this.1

theorem rho_beq_other {x y k z : Name} (hk : k = x ∨ k = y) (hzx : z ≠ x) (hzy : z ≠ y) (p : Name) :
    (rho x y k p == z) = (p == z) := by
  unfold rho
  by_cases h : (p == y || p == x) = true
  · rw [if_pos h]
    have : p = y ∨ p = x := by simpa using h
    have h1 : k ≠ z := by rcases hk with rfl | rfl <;> exact fun e => by simp_all
    have h2 : p ≠ z := by rcases this with rfl | rfl <;> exact fun e => by simp_all
    rw [beq_eq_false_iff_ne.mpr h1, beq_eq_false_iff_ne.mpr h2]
  · rw [if_neg h]

theorem rho_key {x y k : Name} (hk : k = x ∨ k = y) : rho x y k k = k := by
  unfold rho; rcases hk with rfl | rfl <;> simp

theorem rho_other {x y k z : Name} (hzx : z ≠ x) (hzy : z ≠ y) : rho x y k z = z := by
  unfold rho; simp [hzx, hzy]

theorem rho_left {x y k : Name} : rho x y k x = k := by unfold rho; simp
theorem rho_right {x y k : Name} : rho x y k y = k := by unfold rho; simp

/-- the merged plate is the class selection of the merged name in the new column -/
theorem merged_eq_cls (pn : List Name) {x y k : Name} (hk : k = x ∨ k = y) :
    pn.map (fun p => p == y || p == x) = cls (pn.map (rho x y k)) k := by
  unfold cls
  rw [List.map_map]
  apply List.map_congr_left
  intro p _
  exact (rho_beq_key hk p).symm

/-- the other plates are untouched -/
theorem cls_rho_other (pn : List Name) {x y k z : Name} (hk : k = x ∨ k = y) (hzx : z ≠ x) (hzy : z ≠ y) :
    cls (pn.map (rho x y k)) z = cls pn z := by
  unfold cls
  rw [List.map_map]
  apply List.map_congr_left
  intro p _
  exact rho_beq_other hk hzx hzy p

/-! ### sizes -/

theorem selSize_cls (pn : List Name) (nm : Name) : selSize (cls pn nm) = pn.count nm := by
  unfold selSize cls
  rw [List.count_eq_countP, List.countP_map, List.count_eq_countP]
  apply List.countP_congr
  intro p _
  simp

theorem count_eq_length_filter (pn : List Name) (nm : Name) : pn.count nm = (pn.filter (· == nm)).length := by
  rw [List.count_eq_countP, List.countP_eq_length_filter]

theorem countP_or_disjoint {α : Type} (p q : α → Bool) (l : List α) (h : ∀ a, ¬ (p a = true ∧ q a = true)) :
    l.countP (fun a => p a || q a) = l.countP p + l.countP q := by
  induction l with
  | nil => rfl
  | cons a l ih =>
    simp only [List.countP_cons, ih]
    have := h a
    cases hp : p a <;> cases hq : q a <;> simp_all <;> omega

theorem count_map_eq_countP (pn : List Name) (ρ : Name → Name) (z : Name) :
    (pn.map ρ).count z = pn.countP (fun p => ρ p == z) := by
  rw [List.count_eq_countP, List.countP_map]; rfl

theorem count_rho_key (pn : List Name) {x y k : Name} (hk : k = x ∨ k = y) (hxy : x ≠ y) :
    (pn.map (rho x y k)).count k = pn.count x + pn.count y := by
  rw [count_map_eq_countP]
  rw [List.countP_congr (fun p _ => by rw [rho_beq_key hk p])]
  rw [countP_or_disjoint (fun p => p == y) (fun p => p == x)]
  · rw [List.count_eq_countP, List.count_eq_countP]; omega
  · intro a ⟨h1, h2⟩
    have h1 : a = y := by simpa using h1
    have h2 : a = x := by simpa using h2
    exact hxy (h2 ▸ h1)

theorem count_rho_other (pn : List Name) {x y k z : Name} (hk : k = x ∨ k = y) (hzx : z ≠ x) (hzy : z ≠ y) :
    (pn.map (rho x y k)).count z = pn.count z := by
  rw [← selSize_cls, ← selSize_cls, cls_rho_other pn hk hzx hzy]

/-! ### frames: which names a renaming may touch -/

/-- `ρ` only renames names of `ns`, and maps them into `ns' ⊆ ns` -/
structure Frame (ns ns' : List Name) (ρ : Name → Name) : Prop where
  fix : ∀ p, p ∉ ns → ρ p = p
  into : ∀ p ∈ ns, ρ p ∈ ns'
  sub : ∀ z ∈ ns', z ∈ ns
  idem : ∀ z ∈ ns', ρ z = z

theorem Frame.refl (ns : List Name) : Frame ns ns id := ⟨fun _ _ => rfl, fun _ h => h, fun _ h => h, fun _ _ => rfl⟩

theorem Frame.comp {ns ns1 ns2 : List Name} {ρ1 ρ2 : Name → Name} (h1 : Frame ns ns1 ρ1) (h2 : Frame ns1 ns2 ρ2) :
    Frame ns ns2 (ρ2 ∘ ρ1) where
  fix p hp := by
    have : ρ1 p = p := h1.fix p hp
    simp only [Function.comp, this]
    exact h2.fix p (fun h => hp (h1.sub p h))
  into p hp := h2.into _ (h1.into p hp)
  sub z hz := h1.sub z (h2.sub z hz)
  idem z hz := by
    simp only [Function.comp]
    rw [h1.idem z (h2.sub z hz), h2.idem z hz]

theorem Frame.beq {ns ns' : List Name} {ρ : Name → Name} (hf : Frame ns ns' ρ) {z : Name} (hz : z ∉ ns) (p : Name) :
    (ρ p == z) = (p == z) := by
  by_cases hp : p ∈ ns
  · have h1 : ρ p ≠ z := fun e => hz (e ▸ hf.sub _ (hf.into p hp))
    have h2 : p ≠ z := fun e => hz (e ▸ hp)
    rw [beq_eq_false_iff_ne.mpr h1, beq_eq_false_iff_ne.mpr h2]
  · rw [hf.fix p hp]

theorem Frame.count {ns ns' : List Name} {ρ : Name → Name} (hf : Frame ns ns' ρ) (pn : List Name) {z : Name} (hz : z ∉ ns) :
    (pn.map ρ).count z = pn.count z := by
  rw [count_map_eq_countP, List.count_eq_countP]
  exact List.countP_congr (fun p _ => by rw [hf.beq hz p])

theorem Frame.cls {ns ns' : List Name} {ρ : Name → Name} (hf : Frame ns ns' ρ) (pn : List Name) {z : Name} (hz : z ∉ ns) :
    cls (pn.map ρ) z = cls pn z := by
  unfold Prep.cls
  rw [List.map_map]
  exact List.map_congr_left (fun p _ => hf.beq hz p)

/-- the name list after merging `x, y ∈ ns` -/
def mergedNames (ns : List Name) (x y k : Name) : List Name := k :: (ns.erase x).erase y

theorem mem_mergedNames {ns : List Name} {x y k z : Name} (hnd : ns.Nodup) :
    z ∈ mergedNames ns x y k ↔ z = k ∨ (z ≠ x ∧ z ≠ y ∧ z ∈ ns) := by
  unfold mergedNames
  rw [List.mem_cons, (hnd.erase x).mem_erase_iff, hnd.mem_erase_iff]
  constructor
  · rintro (h | ⟨h1, h2, h3⟩)
    · exact Or.inl h
    · exact Or.inr ⟨h2, h1, h3⟩
  · rintro (h | ⟨h1, h2, h3⟩)
    · exact Or.inl h
    · exact Or.inr ⟨h2, h1, h3⟩

theorem frame_merge {ns : List Name} {x y k : Name} (hnd : ns.Nodup) (hx : x ∈ ns) (hy : y ∈ ns) (hk : k = x ∨ k = y) :
    Frame ns (mergedNames ns x y k) (rho x y k) where
  fix p hp := rho_other (fun e => hp (e ▸ hx)) (fun e => hp (e ▸ hy))
  into p hp := by
    rw [mem_mergedNames hnd]
    by_cases h : p = x ∨ p = y
    · left; rcases h with rfl | rfl
      · exact rho_left
      · exact rho_right
    · have h1 : p ≠ x := fun e => h (Or.inl e)
      have h2 : p ≠ y := fun e => h (Or.inr e)
      right; rw [rho_other h1 h2]; exact ⟨h1, h2, hp⟩
  sub z hz := by
    rw [mem_mergedNames hnd] at hz
    rcases hz with rfl | ⟨_, _, h⟩
    · rcases hk with rfl | rfl <;> assumption
    · exact h
  idem z hz := by
    rw [mem_mergedNames hnd] at hz
    rcases hz with rfl | ⟨h1, h2, _⟩
    · exact rho_key hk
    · exact rho_other h1 h2

theorem nodup_mergedNames {ns : List Name} {x y k : Name} (hnd : ns.Nodup) (hk : k = x ∨ k = y) :
    (mergedNames ns x y k).Nodup := by
  unfold mergedNames
  refine List.nodup_cons.mpr ⟨?_, (hnd.erase x).erase y⟩
  rw [(hnd.erase x).mem_erase_iff, hnd.mem_erase_iff]
  rintro ⟨h1, h2, _⟩
  rcases hk with rfl | rfl <;> contradiction

theorem length_mergedNames {ns : List Name} {x y k : Name} (hnd : ns.Nodup) (hx : x ∈ ns) (hy : y ∈ ns) (hxy : x ≠ y) :
    (mergedNames ns x y k).length + 1 = ns.length := by
  unfold mergedNames
  have hy' : y ∈ ns.erase x := (hnd.mem_erase_iff).mpr ⟨fun e => hxy e.symm, hy⟩
  rw [List.length_cons, List.length_erase_of_mem hy', List.length_erase_of_mem hx]
  have : 0 < ns.length := List.length_pos_of_mem hx
  have : 0 < (ns.erase x).length := List.length_pos_of_mem hy'
  rw [List.length_erase_of_mem hx] at this
  omega

theorem mem_map_of_frame_names {ns : List Name} {pn : List Name} {x y k : Name} (hnd : ns.Nodup) (hsub : ∀ z ∈ ns, z ∈ pn)
    (hx : x ∈ ns) (hy : y ∈ ns) (hk : k = x ∨ k = y) : ∀ z ∈ mergedNames ns x y k, z ∈ pn.map (rho x y k) := by
  intro z hz
  rw [mem_mergedNames hnd] at hz
  rw [List.mem_map]
  rcases hz with rfl | ⟨h1, h2, h3⟩
  · refine ⟨z, ?_, rho_key hk⟩
    rcases hk with rfl | rfl
    · exact hsub _ hx
    · exact hsub _ hy
  · exact ⟨z, hsub z h3, rho_other h1 h2⟩

/-! ### the sample of a plate -/

theorem mem_zip_map_left {pn : List Name} {ρ : Name → Name} {sids : List Int} {p' : Name} {s : Int} :
    (p', s) ∈ (pn.map ρ).zip sids ↔ ∃ p, (p, s) ∈ pn.zip sids ∧ ρ p = p' := by
  rw [List.zip_map_left, List.mem_map]
  constructor
  · rintro ⟨⟨p, t⟩, h1, h2⟩
    simp only [Prod.map, id, Prod.mk.injEq] at h2
    exact ⟨p, h2.2 ▸ h1, h2.1⟩
  · rintro ⟨p, h1, h2⟩
    exact ⟨(p, s), h1, by simp [Prod.map, h2]⟩

theorem mem_maskFilter_map {pn : List Name} {q : Name → Bool} {sids : List Int} {t : Int} :
    t ∈ maskFilter sids (pn.map q) ↔ ∃ p, (p, t) ∈ pn.zip sids ∧ q p = true := by
  induction pn generalizing sids with
  | nil => cases sids <;> simp [maskFilter]
  | cons a pn ih =>
    cases sids with
    | nil => simp [maskFilter]
    | cons b sids =>
      simp only [List.map_cons, maskFilter, List.zip_cons_cons, List.mem_cons, Prod.mk.injEq]
      cases hq : q a
      · simp only [Bool.false_eq_true, if_false, ih]
        constructor
        · rintro ⟨p, h1, h2⟩; exact ⟨p, Or.inr h1, h2⟩
        · rintro ⟨p, h1 | h1, h2⟩
          · rw [h1.1, hq] at h2; cases h2
          · exact ⟨p, h1, h2⟩
      · simp only [if_true, List.mem_cons, ih]
        constructor
        · rintro (h | ⟨p, h1, h2⟩)
          · exact ⟨a, Or.inl ⟨rfl, h⟩, hq⟩
          · exact ⟨p, Or.inr h1, h2⟩
        · rintro ⟨p, h1 | h1, h2⟩
          · exact Or.inl h1.2
          · exact Or.inr ⟨p, h1, h2⟩

/-- a plate whose `_get_plate_sample_id` is `s` has all its rows on sample `s`, and has a row -/
theorem selSampleId_cls_ok {sids : List Int} {pn : List Name} {nm : Name} {s : Int}
    (h : selSampleId sids (cls pn nm) = .ok s) : (∀ t, (nm, t) ∈ pn.zip sids → t = s) ∧ (nm, s) ∈ pn.zip sids := by
  unfold selSampleId at h
  simp only [] at h
  split at h
  · cases h
  · rename_i hlen
    split at h
    · rename_i x l hus
      injection h with h; subst h
      have hl : l = [] := by
        rw [hus] at hlen
        cases l with
        | nil => rfl
        | cons b l => simp at hlen
      subst hl
      have hmem : ∀ t, t ∈ maskFilter sids (cls pn nm) ↔ t = x := by
        intro t
        rw [← List.mem_eraseDups, hus]; simp
      constructor
      · intro t ht
        apply (hmem t).mp
        unfold cls
        rw [mem_maskFilter_map]
        exact ⟨nm, ht, by simp⟩
      · have := (hmem x).mpr rfl
        unfold cls at this
        rw [mem_maskFilter_map] at this
        obtain ⟨p, h1, h2⟩ := this
        have : p = nm := by simpa using h2
        exact this ▸ h1
    · cases h

/-- `x` is the sample id of the plate named `nm` -/
def sampIs (sids : List Int) (pn : List Name) (x : Int) (nm : Name) : Bool :=
  match selSampleId sids (cls pn nm) with
  | .ok s => s == x
  | .error _ => false

theorem mapM_zip_filter {α β : Type} (c : α → β) (f : β → Except Err Int) (x : Int) (l : List α) (r : List Int)
    (h : (l.map c).mapM f = .ok r) :
    (((l.map c).zip r).filter (fun p => p.2 == x)).map (·.1)
        = (l.filter (fun a => match f (c a) with | .ok s => s == x | .error _ => false)).map c ∧
      ∀ a ∈ l, ∃ s, f (c a) = .ok s := by
  induction l generalizing r with
  | nil => simp
  | cons a l ih =>
    rw [List.map_cons, List.mapM_cons] at h
    obtain ⟨b, hb, h⟩ := bind_ok h
    obtain ⟨bs, hbs, h⟩ := bind_ok h
    injection h with h; subst h
    obtain ⟨ih1, ih2⟩ := ih bs hbs
    constructor
    · simp only [List.map_cons, List.zip_cons_cons, List.filter_cons, hb]
      cases hx : (b == x)
      · simp only [Bool.false_eq_true, if_false, ih1]
      · simp only [if_true, List.map_cons, ih1]
    · intro a' ha'
      rcases List.mem_cons.mp ha' with rfl | ha'
      · exact ⟨b, hb⟩
      · exact ih2 a' ha'

/-- the rows of the plates of `ns` are exactly the rows of sample `x` -/
def SInv (sids : List Int) (x : Int) (ns pn : List Name) : Prop :=
  ∀ p s, (p, s) ∈ pn.zip sids → (p ∈ ns ↔ s = x)

theorem SInv.frame {sids : List Int} {x : Int} {ns ns' pn : List Name} {ρ : Name → Name}
    (h : SInv sids x ns pn) (hf : Frame ns ns' ρ) : SInv sids x ns' (pn.map ρ) := by
  intro p' s hp'
  obtain ⟨p, hp, rfl⟩ := mem_zip_map_left.mp hp'
  rw [← h p s hp]
  constructor
  · intro h1
    by_cases hp : p ∈ ns
    · exact hp
    · rw [hf.fix p hp] at h1; exact hf.sub p h1
  · exact hf.into p

/-- every plate of `ns` has a row, on sample `x` -/
def HasRows (sids : List Int) (x : Int) (ns pn : List Name) : Prop := ∀ z ∈ ns, (z, x) ∈ pn.zip sids

theorem HasRows.frame {sids : List Int} {x : Int} {ns ns' pn : List Name} {ρ : Name → Name}
    (h : HasRows sids x ns pn) (hf : Frame ns ns' ρ) : HasRows sids x ns' (pn.map ρ) :=
  fun z hz => mem_zip_map_left.mpr ⟨z, h z (hf.sub z hz), hf.idem z hz⟩

theorem HasRows.mem {sids : List Int} {x : Int} {ns pn : List Name} (h : HasRows sids x ns pn) : ∀ z ∈ ns, z ∈ pn :=
  fun z hz => (List.of_mem_zip (h z hz)).1

/-- the plates of a sample: class selections of distinct names, covering exactly the rows of the sample -/
theorem platesOfSample_spec {sids : List Int} {pn : List Name} {x : Int} {heap : List (List Bool)}
    (h : platesOfSample sids pn x = .ok heap) :
    ∃ ns : List Name, heap = ns.map (cls pn) ∧ ns.Nodup ∧ (∀ z ∈ ns, (z, x) ∈ pn.zip sids) ∧ SInv sids x ns pn := by
  obtain ⟨names, hnd, hmem, hsels⟩ := selsOf_spec pn
  unfold platesOfSample at h
  obtain ⟨sels, h1, h⟩ := bind_ok h
  rw [hsels] at h1; injection h1 with h1; subst h1
  obtain ⟨ids, h2, h⟩ := bind_ok h
  injection h with h
  obtain ⟨e1, e2⟩ := mapM_zip_filter (cls pn) (selSampleId sids) x names ids h2
  refine ⟨names.filter (sampIs sids pn x), ?_, hnd.filter _, ?_, ?_⟩
  · rw [← h, e1]; rfl
  · intro z hz
    obtain ⟨hz1, hz2⟩ := List.mem_filter.mp hz
    obtain ⟨s', hs'⟩ := e2 z hz1
    unfold sampIs at hz2
    rw [hs'] at hz2
    have : s' = x := by simpa using hz2
    exact this ▸ (selSampleId_cls_ok hs').2
  · intro p s hps
    have hp : p ∈ pn := (List.of_mem_zip hps).1
    have hpn : p ∈ names := (hmem p).mpr hp
    obtain ⟨s', hs'⟩ := e2 p hpn
    have hs : s = s' := (selSampleId_cls_ok hs').1 s hps
    rw [List.mem_filter]
    unfold sampIs
    rw [hs', hs]
    simp [hpn]

end Batchie.Prep
