/-
  Fresh tables assign ids injectively: two entries of a freshly built sample table with the same id have the
  same name; two entries of a freshly built treatment table with the same non-control id have the same
  (name, dose).  (Needed for the direction "same id => same name" of C03 on prepared screens.)
-/
import Batchie.Lemmas.LifecycleMk

namespace Batchie.Lifecycle
open Batchie.Proto Batchie.Screen

/-- entries of a sample table are determined by their id -/
def SampleInj (sm : SMap) : Prop := ∀ e1 ∈ sm, ∀ e2 ∈ sm, e1.2 = e2.2 → e1 = e2

/-- entries of a treatment table with a non-control id are determined by their id -/
def TreatInj (tm : TMap) : Prop := ∀ e1 ∈ tm, ∀ e2 ∈ tm, e1.2.2 = e2.2.2 → e1.2.2 ≠ -1 → e1 = e2

theorem inj_of_nodup_map {α β : Type} (f : α → β) : ∀ (l : List α), (l.map f).Nodup →
    ∀ a ∈ l, ∀ b ∈ l, f a = f b → a = b
  | [], _, a, ha, _, _, _ => by cases ha
  | x :: t, h, a, ha, b, hb, hab => by
    simp only [List.map_cons, List.nodup_cons, List.mem_map, not_exists, not_and] at h
    rcases List.mem_cons.1 ha with ha1 | ha1
    · rcases List.mem_cons.1 hb with hb1 | hb1
      · rw [ha1, hb1]
      · rw [ha1] at hab; exact absurd hab.symm (h.1 b hb1)
    · rcases List.mem_cons.1 hb with hb1 | hb1
      · rw [hb1] at hab; exact absurd hab (h.1 a ha1)
      · exact inj_of_nodup_map f t h.2 a ha1 b hb1 hab

theorem pairwise_forall {α : Type} (R : α → α → Prop) (symm : ∀ x y, R x y → R y x) (refl : ∀ x, R x x) :
    ∀ (l : List α), l.Pairwise R → ∀ a ∈ l, ∀ b ∈ l, R a b
  | [], _, a, ha, _, _ => by cases ha
  | x :: t, h, a, ha, b, hb => by
    rw [List.pairwise_cons] at h
    rcases List.mem_cons.1 ha with ha1 | ha1
    · rcases List.mem_cons.1 hb with hb1 | hb1
      · rw [ha1, hb1]; exact refl _
      · rw [ha1]; exact h.1 b hb1
    · rcases List.mem_cons.1 hb with hb1 | hb1
      · rw [hb1]; exact symm _ _ (h.1 a ha1)
      · exact pairwise_forall R symm refl t h.2 a ha1 b hb1

theorem sampleInj_of_nodup (sm : SMap) (h : (sm.map (·.2)).Nodup) : SampleInj sm := by
  intro e1 h1 e2 h2 he
  exact inj_of_nodup_map (·.2) sm h e1 h1 e2 h2 he

theorem sampleInj_fresh (xs : List Name) : SampleInj (freshSMap xs) := by
  apply sampleInj_of_nodup
  rw [freshSMap_ids]
  exact (pairwise_lt_range _).imp (fun h => Int.ne_of_lt h)

theorem pairwise_renumberGo {κ : Type} (f : κ → Bool) :
    ∀ (us : List κ) (i c : Int), 0 ≤ i - c →
      (us.zip (renumberGo i c (us.map f))).Pairwise (fun a b => a.2 ≠ -1 → b.2 ≠ -1 → a.2 < b.2)
      ∧ ∀ e ∈ us.zip (renumberGo i c (us.map f)), e.2 ≠ -1 → i - c ≤ e.2 := by
  intro us
  induction us with
  | nil => intro i c _; simp [renumberGo]
  | cons u us ih =>
    intro i c hb
    cases hf : f u with
    | true =>
      obtain ⟨ih1, ih2⟩ := ih (i + 1) (c + 1) (by omega)
      simp only [List.map_cons, hf, renumberGo, ↓reduceIte, List.zip_cons_cons]
      refine ⟨List.pairwise_cons.2 ⟨fun b _ h _ => absurd rfl h, ih1⟩, ?_⟩
      intro e he hne
      rcases List.mem_cons.1 he with rfl | he
      · exact absurd rfl hne
      · have := ih2 e he hne; omega
    | false =>
      obtain ⟨ih1, ih2⟩ := ih (i + 1) c (by omega)
      simp only [List.map_cons, hf, renumberGo, Bool.false_eq_true, ↓reduceIte, List.zip_cons_cons]
      refine ⟨List.pairwise_cons.2 ⟨?_, ih1⟩, ?_⟩
      · intro b hb' _ hbne
        have := ih2 b hb' hbne
        simp only
        omega
      · intro e he hne
        rcases List.mem_cons.1 he with rfl | he
        · simp only; omega
        · have := ih2 e he hne; omega

theorem treatInj_fresh (ctrl : Name) (xs : List (Name × Dose)) : TreatInj (freshTMap ctrl xs) := by
  unfold freshTMap
  simp only
  obtain ⟨hp, _⟩ := pairwise_renumberGo (isControl ctrl) ((xs.eraseDups).mergeSort keyLe) 0 0 (by omega)
  have hp' : (((xs.eraseDups).mergeSort keyLe).zip (renumber (((xs.eraseDups).mergeSort keyLe).map (isControl ctrl)))).Pairwise
      (fun a b => a.2 = b.2 → a.2 ≠ -1 → a = b) := by
    refine hp.imp ?_
    intro a b hab he hne
    have := hab hne (he ▸ hne)
    omega
  have hall := pairwise_forall (fun (a b : (Name × Dose) × Int) => a.2 = b.2 → a.2 ≠ -1 → a = b)
    (fun x y hxy he hne => (hxy he.symm (he ▸ hne)).symm) (fun x _ _ => rfl) _ hp'
  intro e1 h1 e2 h2 he hne
  obtain ⟨p1, hp1, rfl⟩ := List.mem_map.1 h1
  obtain ⟨p2, hp2, rfl⟩ := List.mem_map.1 h2
  have := hall p1 hp1 p2 hp2 he hne
  rw [this]

end Batchie.Lifecycle
