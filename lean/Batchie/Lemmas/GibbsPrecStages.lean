/-
  What the precision stages of the sweep (`_prec_W0_step`, `_prec_V0_step`, `_prec_obs_step`, `_prec_V2_step`,
  `_prec_V1_step`, `_prec_W_step`) log, stated on the stage functions the driver runs, and the state of the
  multiplicative-gamma-process loop at the moment `gam[d]` is drawn.
-/
import Batchie.Lemmas.GibbsSweep
import Batchie.Lemmas.GibbsGamma

namespace Batchie.Gibbs
open Finset

/-- the gamma-process factors as they stand when `gam[d]` is drawn: already redrawn in this sweep for `l < d`,
    still the previous values for `l ≥ d` -/
def gamCur (ω : Draws ℝ) (st : State ℝ) (d : ℕ) : ℕ → ℝ := fun l => if l < d then ω.gam l else st.gam l

theorem gamCur_zero (ω : Draws ℝ) (st : State ℝ) : gamCur ω st 0 = st.gam := by
  funext l; simp [gamCur]

theorem gamCur_succ (ω : Draws ℝ) (st : State ℝ) (n : ℕ) :
    upd (gamCur ω st n) n (ω.gam n) = gamCur ω st (n + 1) := by
  funext l
  unfold upd gamCur
  by_cases h : l = n
  · subst h; simp
  · rw [if_neg h]
    by_cases h2 : l < n
    · rw [if_pos h2, if_pos (by omega)]
    · rw [if_neg h2, if_neg (by omega)]

/-- the record logged for `gam[d]` -/
noncomputable def gamRec (dt : Data ℝ) (ω : Draws ℝ) (st : State ℝ) (d : ℕ) : Rec ℝ :=
  ⟨.gam d, .gamma, [(gamArgs dt st.W (gamCur ω st d) d).shape, (gamArgs dt st.W (gamCur ω st d) d).scale]⟩

/-- after `n` rounds of the loop over `d`: `gam` holds the new draws below `n`, `W` is untouched, and round `d`
    logged the arguments computed from the factors current at round `d` -/
theorem gamIter_spec (dt : Data ℝ) (ω : Draws ℝ) (st : State ℝ) (n : ℕ) :
    (iter n (gamBlock dt ω) st).gam = gamCur ω st n
    ∧ (iter n (gamBlock dt ω) st).W = st.W
    ∧ (iter n (gamBlock dt ω) st).log = st.log ++ (List.range n).map (gamRec dt ω st) := by
  induction n with
  | zero => exact ⟨(gamCur_zero ω st).symm, rfl, by simp [iter]⟩
  | succ k ih =>
    obtain ⟨hg, hW, hl⟩ := ih
    rw [iter]
    refine ⟨?_, ?_, ?_⟩
    · show upd (iter k (gamBlock dt ω) st).gam k (ω.gam k) = _
      rw [hg, gamCur_succ]
    · exact hW
    · show (iter k (gamBlock dt ω) st).log ++ [_] = _
      rw [hl, List.range_succ, List.map_append, List.append_assoc]
      congr 2
      show [(⟨.gam k, .gamma, _⟩ : Rec ℝ)] = [gamRec dt ω st k]
      unfold gamRec
      rw [hg, hW]

theorem precW_log (dt : Data ℝ) (ω : Draws ℝ) (st : State ℝ) :
    (precWStep dt ω st).log = st.log ++ (List.range dt.D).map (gamRec dt ω st) :=
  (gamIter_spec dt ω st dt.D).2.2

theorem precW_gam (dt : Data ℝ) (ω : Draws ℝ) (st : State ℝ) : (precWStep dt ω st).gam = gamCur ω st dt.D :=
  (gamIter_spec dt ω st dt.D).1

end Batchie.Gibbs
