/-
  C19 -- the invariant of every execution with interruptions: the directory is always "the directory of an
  uninterrupted run after some number of steps" plus at most one piece of junk, and the trace of launches /
  completions / removals is consistent with it.
-/
import Batchie.Lemmas.OrchStep

namespace Batchie.Orchestrator

variable (cfg : Cfg)

/-! ## the uninterrupted run -/

/-- `CRun p`: `p` is the list of steps an uninterrupted run completes, in order -- each launch is the one the
    step function plans on the clean directory holding exactly the steps before it -/
inductive CRun : Prog → Prop
  | nil : CRun Prog.empty
  | push {p : Prog} {l : Launch} :
      CRun p → ¬ isFinished cfg p → planLaunch cfg p = .ok l → CRun (p.push cfg.B l)

/-- position of a step in the run: `iter * B + plate` -/
def stepNo (B : Nat) (l : Launch) : Nat := l.iter * B + l.plate

theorem flatten_length_const {B : Nat} (cs : List (List Launch)) (h : ∀ c ∈ cs, c.length = B) :
    cs.flatten.length = cs.length * B := by
  induction cs with
  | nil => simp
  | cons c cs ih =>
    simp only [List.flatten_cons, List.length_append, List.length_cons]
    rw [ih (fun c' h' => h c' (by simp [h'])), h c (by simp), Nat.succ_mul]
    omega

theorem flat_length {B : Nat} {p : Prog} (hp : ProgOK B p) : p.flat.length = p.cs.length * B + p.cur.length := by
  unfold Prog.flat
  rw [List.length_append, flatten_length_const p.cs hp.1]

theorem CRun.ok (hB : 1 ≤ cfg.B) {p : Prog} (h : CRun cfg p) : ProgOK cfg.B p := by
  induction h with
  | nil => exact ⟨by simp [Prog.empty], by simp [Prog.empty]; omega⟩
  | push _ _ _ ih => exact ih.push _

theorem CRun.wf {p : Prog} (h : CRun cfg p) : WfOK cfg p := by
  induction h with
  | nil => intro l hl; simp [Prog.empty, Prog.flat] at hl
  | push _ _ hl ih =>
    intro l' hl'
    rw [Prog.flat_push, List.mem_append] at hl'
    rcases hl' with hl' | hl'
    · exact ih l' hl'
    · simp at hl'; subst hl'; exact planLaunch_allowed cfg hl

/-- the steps of an uninterrupted run are numbered `0, 1, 2, ...`: none skipped, none repeated -/
theorem CRun.steps (hB : 1 ≤ cfg.B) {p : Prog} (h : CRun cfg p) :
    p.flat.map (stepNo cfg.B) = List.range p.flat.length := by
  induction h with
  | nil => simp [Prog.empty, Prog.flat]
  | @push p l hc _ hl ih =>
    rw [Prog.flat_push, List.map_append, ih, List.length_append, List.length_singleton, List.range_succ]
    congr 1
    have hpos := planLaunch_pos cfg hl
    simp only [List.map_cons, List.map_nil, stepNo, hpos.1, hpos.2]
    rw [flat_length (hc.ok cfg hB)]

/-- the plan is a function of the completed steps: an uninterrupted run is determined by its length -/
theorem CRun.unique {p q : Prog} (hp : CRun cfg p) (hq : CRun cfg q) (h : p.flat.length = q.flat.length) :
    p = q := by
  induction hp generalizing q with
  | nil =>
    cases hq with
    | nil => rfl
    | push _ _ _ => rw [Prog.flat_push] at h; simp [Prog.empty, Prog.flat] at h
  | @push p0 l0 hp0 _ hl0 ih =>
    cases hq with
    | nil => rw [Prog.flat_push] at h; simp [Prog.empty, Prog.flat] at h
    | @push q0 m0 hq0 _ hm0 =>
      rw [Prog.flat_push, Prog.flat_push] at h
      have := ih hq0 (by simpa using h)
      subst this
      rw [hl0] at hm0
      injection hm0 with e
      subst e; rfl

/-- two uninterrupted runs agree as far as both go -/
theorem CRun.prefix_of_le {p q : Prog} (hp : CRun cfg p) (hq : CRun cfg q) (hle : p.flat.length ≤ q.flat.length) :
    p.flat <+: q.flat := by
  induction hq with
  | nil =>
    have : p.flat.length = 0 := by simpa [Prog.empty, Prog.flat] using hle
    rw [List.length_eq_zero_iff.mp this]; exact List.nil_prefix
  | @push q l hq' hnf hl ih =>
    by_cases hlt : p.flat.length ≤ q.flat.length
    · rw [Prog.flat_push]
      exact (ih hlt).trans (List.prefix_append _ _)
    · have hlen : p.flat.length = (q.push cfg.B l).flat.length := by
        rw [Prog.flat_push] at hle ⊢; simp at hle ⊢; omega
      rw [hp.unique cfg (.push hq' hnf hl) hlen]
      exact List.prefix_refl _

/-! ## traces -/

theorem launchedOf_append (a b : List Event) : launchedOf (a ++ b) = launchedOf a ++ launchedOf b := by
  simp [launchedOf, List.filterMap_append]

theorem completedOf_append (a b : List Event) : completedOf (a ++ b) = completedOf a ++ completedOf b := by
  simp [completedOf, List.filterMap_append]

/-- whenever the user removes a directory the script named, no step completed so far lives there -/
def UserSafe (tr : List Event) : Prop :=
  ∀ a b i j, tr = a ++ Event.userRemoved i j :: b → ∀ l ∈ completedOf a, ¬ (l.iter = i ∧ l.plate = j)

theorem UserSafe.append_noUser {tr es : List Event} (h : UserSafe tr)
    (hes : ∀ e ∈ es, ∀ i j, e ≠ Event.userRemoved i j) : UserSafe (tr ++ es) := by
  intro a b i j hsplit l hl
  rcases List.append_eq_append_iff.mp hsplit with ⟨m, ha, hes'⟩ | ⟨m, htr, hm⟩
  · exact absurd rfl (hes (Event.userRemoved i j) (by rw [hes']; simp) i j)
  · cases m with
    | nil =>
      simp only [List.nil_append] at hm
      exact absurd rfl (hes (Event.userRemoved i j) (by rw [← hm]; simp) i j)
    | cons x m' =>
      simp only [List.cons_append, List.cons.injEq] at hm
      rw [← hm.1] at htr
      exact h a m' i j htr l hl

theorem UserSafe.append_user {tr : List Event} (h : UserSafe tr) (i j : Nat)
    (hc : ∀ l ∈ completedOf tr, ¬ (l.iter = i ∧ l.plate = j)) : UserSafe (tr ++ [Event.userRemoved i j]) := by
  intro a b i' j' hsplit l hl
  rcases List.append_eq_append_iff.mp hsplit with ⟨m, ha, hes'⟩ | ⟨m, htr, hm⟩
  · cases m with
    | nil =>
      simp only [List.nil_append, List.cons.injEq, Event.userRemoved.injEq] at hes'
      obtain ⟨⟨rfl, rfl⟩, _⟩ := hes'
      simp only [List.append_nil] at ha
      subst ha
      exact hc l hl
    | cons x m' =>
      simp only [List.cons_append, List.cons.injEq] at hes'
      have := hes'.2
      cases m' <;> simp at this
  · cases m with
    | nil =>
      simp only [List.nil_append, List.cons.injEq, Event.userRemoved.injEq] at hm
      obtain ⟨⟨rfl, rfl⟩, _⟩ := hm
      simp only [List.append_nil] at htr
      subst htr
      exact hc l hl
    | cons x m' =>
      simp only [List.cons_append, List.cons.injEq] at hm
      rw [← hm.1] at htr
      exact h a m' i' j' htr l hl

/-- every launch -- completed or interrupted -- is for the step whose number is the number of steps completed
    before it: a completed step is never launched again, no step is launched before its predecessor completed -/
def LaunchOrd (B : Nat) (tr : List Event) : Prop :=
  ∀ a b l, tr = a ++ Event.launched l :: b → stepNo B l = (completedOf a).length

theorem LaunchOrd.append {B : Nat} {tr es : List Event} (h : LaunchOrd B tr)
    (hes : ∀ a' b l, es = a' ++ Event.launched l :: b →
      stepNo B l = (completedOf tr).length + (completedOf a').length) : LaunchOrd B (tr ++ es) := by
  intro a b l hsplit
  rcases List.append_eq_append_iff.mp hsplit with ⟨m, ha, hes'⟩ | ⟨m, htr, hm⟩
  · rw [ha, completedOf_append, List.length_append]
    exact hes m b l hes'
  · cases m with
    | nil =>
      simp only [List.nil_append] at hm
      simp only [List.append_nil] at htr
      subst htr
      have := hes [] b l hm.symm
      simpa [completedOf] using this
    | cons x m' =>
      simp only [List.cons_append, List.cons.injEq] at hm
      rw [← hm.1] at htr
      exact h a m' l htr

/-! ## the invariant -/

structure GI (t : Tree) (tr : List Event) (p : Prog) (jk : Junk) : Prop where
  iters : t.iters = treeIters cfg p jk
  junk : JunkOK jk
  jkcur : jk = .emptyIter → p.cur = []
  out : t.out = false → (p = Prog.empty ∧ jk = .none)
  crun : CRun cfg p
  comp : completedOf tr = p.flat
  launched : ∀ l ∈ launchedOf tr, l ∈ p.flat ∨ (¬ isFinished cfg p ∧ planLaunch cfg p = .ok l)
  noScript : ∀ e ∈ tr, ∀ i j, e ≠ Event.scriptRemoved i j
  userSafe : UserSafe tr
  lord : LaunchOrd cfg.B tr

theorem GI.init : GI cfg Tree.empty [] Prog.empty .none where
  iters := by simp [Tree.empty, treeIters, lastIter, Prog.empty, itersFrom]
  junk := trivial
  jkcur := by intro h; cases h
  out := fun _ => ⟨rfl, rfl⟩
  crun := .nil
  comp := rfl
  launched := by intro l hl; simp [launchedOf] at hl
  noScript := by intro e he; simp at he
  userSafe := by intro a b i j h; cases a <;> simp at h
  lord := by intro a b l h; cases a <;> simp at h

/-- the step number of the launch planned after the completed steps `p` is the number of completed steps -/
theorem stepNo_planLaunch (hB : 1 ≤ cfg.B) {p : Prog} (hc : CRun cfg p) {l : Launch} (hl : planLaunch cfg p = .ok l) :
    stepNo cfg.B l = p.flat.length := by
  have hpos := planLaunch_pos cfg hl
  rw [flat_length (hc.ok cfg hB)]
  simp only [stepNo, hpos.1, hpos.2]

/-- same completed steps, new junk, events that neither complete nor remove anything -/
theorem GI.same (hB : 1 ≤ cfg.B) {t tr p jk} (h : GI cfg t tr p jk) (jk' : Junk) (es : List Event)
    (hj : JunkOK jk') (hjc : jk' = .emptyIter → p.cur = [])
    (hcomp : completedOf es = [])
    (hl : ∀ l ∈ launchedOf es, ¬ isFinished cfg p ∧ planLaunch cfg p = .ok l)
    (hns : ∀ e ∈ es, ∀ i j, e ≠ Event.scriptRemoved i j)
    (hnu : ∀ e ∈ es, ∀ i j, e ≠ Event.userRemoved i j) :
    GI cfg ⟨true, treeIters cfg p jk'⟩ (tr ++ es) p jk' where
  iters := rfl
  junk := hj
  jkcur := hjc
  out := by intro h; cases h
  crun := h.crun
  comp := by rw [completedOf_append, hcomp, List.append_nil, h.comp]
  launched := by
    intro l hl'
    rw [launchedOf_append, List.mem_append] at hl'
    rcases hl' with hl' | hl'
    · exact h.launched l hl'
    · exact Or.inr (hl l hl')
  noScript := by
    intro e he
    rw [List.mem_append] at he
    rcases he with he | he
    · exact h.noScript e he
    · exact hns e he
  userSafe := h.userSafe.append_noUser hnu
  lord := by
    apply h.lord.append
    intro a' b l hsplit
    have hca : completedOf a' = [] := by
      have := hcomp
      rw [hsplit, completedOf_append] at this
      exact (List.append_eq_nil_iff.mp this).1
    have hmem : l ∈ launchedOf es := by
      rw [hsplit, launchedOf_append]
      simp [launchedOf]
    rw [hca, h.comp, stepNo_planLaunch cfg hB h.crun (hl l hmem).2]
    simp

theorem takeB_eq {α : Type} (k : Option Nat) (as : List α) : takeB k as = as.take (k.getD as.length) := by
  cases k <;> simp [takeB]

theorem doneB_eq {α : Type} (k : Option Nat) (as : List α) :
    doneB k as = decide (as.length ≤ k.getD as.length) := by
  cases k <;> simp [doneB]

theorem removalEvents_preOf_take (p : Prog) (jk : Junk) (n : Nat) :
    removalEvents ((preOf p jk).take n) = [] := by
  unfold removalEvents
  rw [List.filterMap_eq_nil_iff]
  intro a ha
  have ha' := List.mem_of_mem_take ha
  unfold preOf at ha'
  simp only [List.mem_append, List.mem_ite_nil_right, List.mem_singleton] at ha'
  rcases ha' with ⟨_, rfl⟩ | rfl <;> rfl

/-- the directory after any prefix of `makedirs(job_dir)` -/
theorem pre_take (p : Prog) (jk : Junk) (hq : Quiet p jk) (n : Nat) :
    ∃ jk', applyAll ((preOf p jk).take n) ⟨true, treeIters cfg p jk⟩ = ⟨true, treeIters cfg p jk'⟩ ∧
      JunkOK jk' ∧ (jk' = .emptyIter → p.cur = []) ∧ ((preOf p jk).length ≤ n → jk' = .plate none) := by
  unfold preOf
  by_cases hc : p.cur = [] ∧ jk = .none
  · obtain ⟨hc1, rfl⟩ := hc
    rw [if_pos ⟨hc1, rfl⟩]
    simp only [List.cons_append, List.nil_append, List.length_cons, List.length_nil]
    match n with
    | 0 => exact ⟨.none, by simp [applyAll], trivial, (by intro h; cases h), by omega⟩
    | 1 =>
      refine ⟨.emptyIter, ?_, trivial, fun _ => hc1, by omega⟩
      simp only [List.take_succ_cons, List.take_zero, applyAll, List.foldl_cons, List.foldl_nil]
      exact apply_mkdirIter cfg p true hc1
    | n + 2 =>
      refine ⟨.plate none, ?_, by simp [JunkOK, findKind], (by intro h; cases h), fun _ => rfl⟩
      simp only [List.take_succ_cons, List.take_nil, applyAll, List.foldl_cons, List.foldl_nil]
      rw [apply_mkdirIter cfg p true hc1]
      exact apply_mkdirPlate cfg p .emptyIter true (Or.inl rfl)
  · rw [if_neg hc]
    simp only [List.nil_append, List.length_cons, List.length_nil]
    match n with
    | 0 =>
      refine ⟨jk, by simp [applyAll], ?_, ?_, by omega⟩
      · rcases hq with rfl | ⟨rfl, _⟩ <;> trivial
      · rcases hq with rfl | ⟨rfl, h⟩
        · intro h; cases h
        · exact fun _ => h
    | n + 1 =>
      refine ⟨.plate none, ?_, by simp [JunkOK, findKind], (by intro h; cases h), fun _ => rfl⟩
      simp only [List.take_succ_cons, List.take_nil, applyAll, List.foldl_cons, List.foldl_nil]
      apply apply_mkdirPlate
      rcases hq with rfl | ⟨rfl, _⟩
      · right; exact ⟨rfl, fun h => hc ⟨h, rfl⟩⟩
      · left; rfl

/-- the directory after any prefix of the pipeline's publications -/
theorem pub_take (hml : MarkerLast cfg) (p : Prog) (l : Launch) (hal : allowed cfg.mode l.wf = true)
    (hpos : l.iter = p.cs.length ∧ l.plate = p.cur.length) (n : Nat) :
    (n < (pubActions cfg l).length →
      ∃ s, applyAll ((pubActions cfg l).take n) ⟨true, treeIters cfg p (.plate none)⟩ = ⟨true, treeIters cfg p (.plate s)⟩ ∧
        JunkOK (.plate s)) ∧
    ((pubActions cfg l).length ≤ n →
      applyAll ((pubActions cfg l).take n) ⟨true, treeIters cfg p (.plate none)⟩ =
        ⟨true, treeIters cfg (p.push cfg.B l) .none⟩) := by
  unfold pubActions
  rw [hpos.1, hpos.2]
  simp only [List.length_cons, List.length_map]
  obtain ⟨xs, m, hpubs, hxs⟩ := hml l hal
  match n with
  | 0 =>
    refine ⟨fun _ => ⟨none, by simp [applyAll], by simp [JunkOK, findKind]⟩, fun h => by omega⟩
  | n + 1 =>
    have happly : applyAll ((Action.mkdirName p.cs.length p.cur.length ::
          (cfg.pubs l).map (fun f => Action.publish p.cs.length p.cur.length f)).take (n + 1))
          ⟨true, treeIters cfg p (.plate none)⟩ = ⟨true, treeIters cfg p (.plate (some ((cfg.pubs l).take n)))⟩ := by
      simp only [List.take_succ_cons, applyAll, List.foldl_cons]
      rw [apply_mkdirName, ← List.map_take]
      have := applyAll_publish cfg p true ((cfg.pubs l).take n) []
      simp only [applyAll, List.nil_append] at this
      simpa using this
    rw [happly]
    constructor
    · intro hn
      refine ⟨_, rfl, ?_⟩
      simp only [JunkOK, Option.getD_some]
      apply findKind_none_of_forall
      intro f hf
      rw [hpubs] at hf hn
      simp only [List.length_append, List.length_singleton] at hn
      rw [List.take_append_of_le_length (by omega)] at hf
      exact hxs f (List.mem_of_mem_take hf)
    · intro hn
      rw [List.take_of_length_le (by omega)]
      rw [treeIters_complete cfg cfg.B p l]

/-- the step function on a directory without a partial plate directory -/
theorem invokeCore_quiet (hml : MarkerLast cfg) (hB : 1 ≤ cfg.B) {tr : List Event} {p : Prog} {jk : Junk}
    (h : GI cfg ⟨true, treeIters cfg p jk⟩ tr p jk) (hq : Quiet p jk) (k : Option Nat) :
    ∃ p' jk', GI cfg (invokeCore cfg k ⟨true, treeIters cfg p jk⟩).tree
      (tr ++ (invokeCore cfg k ⟨true, treeIters cfg p jk⟩).events) p' jk' := by
  have hm := hml.hasMarker
  have hp := h.crun.ok cfg hB
  unfold invokeCore
  rw [planStep_quiet cfg hm hB p hp (h.crun.wf cfg) jk hq]
  by_cases hf : isFinished cfg p
  · rw [if_pos hf]
    simp only
    exact ⟨p, _, h.same cfg hB _ [Event.finished] h.junk h.jkcur rfl (by simp [launchedOf])
      (by intro e he; simp at he; subst he; intro i j hh; cases hh)
      (by intro e he; simp at he; subst he; intro i j hh; cases hh)⟩
  · rw [if_neg hf]
    cases hpl : planLaunch cfg p with
    | err e =>
      simp only
      rw [takeB_eq, doneB_eq]
      obtain ⟨jk', happ, hj', hjc', _⟩ := pre_take cfg p jk hq (k.getD (preOf p jk).length)
      rw [happ, removalEvents_preOf_take]
      refine ⟨p, jk', h.same cfg hB jk' _ hj' hjc' ?_ ?_ ?_ ?_⟩
      · split <;> simp [completedOf]
      · split <;> simp [launchedOf]
      · intro e he; split at he <;> simp at he; subst he; intro i j hh; cases hh
      · intro e he; split at he <;> simp at he; subst he; intro i j hh; cases hh
    | ok l =>
      have hpos := planLaunch_pos cfg hpl
      simp only
      rw [takeB_eq, doneB_eq]
      obtain ⟨jk', happ, hj', hjc', hdone⟩ := pre_take cfg p jk hq (k.getD (preOf p jk).length)
      rw [happ, removalEvents_preOf_take]
      by_cases hd1 : (preOf p jk).length ≤ k.getD (preOf p jk).length
      · -- the job directory exists, the pipeline is launched
        simp only [hd1, decide_true, Bool.not_true, Bool.false_eq_true, ↓reduceIte, List.nil_append]
        rw [hdone hd1, takeB_eq, doneB_eq]
        have hpub := pub_take cfg hml p l (planLaunch_allowed cfg hpl) hpos ((restB k (preOf p jk)).getD (pubActions cfg l).length)
        by_cases hd2 : (pubActions cfg l).length ≤ (restB k (preOf p jk)).getD (pubActions cfg l).length
        · -- everything published: the step is complete
          simp only [hd2, decide_true, Bool.not_true, Bool.false_eq_true, ↓reduceIte]
          rw [hpub.2 hd2]
          refine ⟨p.push cfg.B l, .none, ?_⟩
          exact {
            iters := rfl
            junk := trivial
            jkcur := by intro hh; cases hh
            out := by intro hh; cases hh
            crun := .push h.crun hf hpl
            comp := by
              rw [completedOf_append, h.comp, Prog.flat_push]
              simp [completedOf]
            launched := by
              intro l' hl'
              rw [launchedOf_append, List.mem_append] at hl'
              left
              rw [Prog.flat_push, List.mem_append]
              rcases hl' with hl' | hl'
              · rcases h.launched l' hl' with h1 | ⟨_, h2⟩
                · exact Or.inl h1
                · rw [hpl] at h2; injection h2 with e; subst e; simp
              · simp [launchedOf] at hl'; subst hl'; simp
            noScript := by
              intro e he
              rw [List.mem_append] at he
              rcases he with he | he
              · exact h.noScript e he
              · simp at he; rcases he with rfl | rfl <;> (intro i j hh; cases hh)
            userSafe := h.userSafe.append_noUser (by
              intro e he; simp at he; rcases he with rfl | rfl <;> (intro i j hh; cases hh))
            lord := by
              apply h.lord.append
              intro a' b l' hsplit
              cases a' with
              | nil =>
                simp only [List.nil_append, List.cons.injEq, Event.launched.injEq] at hsplit
                rw [← hsplit.1, h.comp, stepNo_planLaunch cfg hB h.crun hpl]
                simp [completedOf]
              | cons x a'' =>
                simp only [List.cons_append, List.cons.injEq] at hsplit
                have h2 := hsplit.2
                cases a'' with
                | nil => simp at h2
                | cons y a3 =>
                  simp only [List.cons_append, List.cons.injEq] at h2
                  have := congrArg List.length h2.2
                  simp at this }
        · -- interrupted during publication
          simp only [hd2, decide_false, Bool.not_false, ↓reduceIte]
          obtain ⟨s, happ2, hjs⟩ := hpub.1 (by omega)
          rw [happ2]
          refine ⟨p, .plate s, h.same cfg hB _ _ hjs (by intro hh; cases hh) (by simp [completedOf]) ?_ ?_ ?_⟩
          · intro l' hl'; simp [launchedOf] at hl'; subst hl'; exact ⟨hf, hpl⟩
          · intro e he; simp at he; subst he; intro i j hh; cases hh
          · intro e he; simp at he; subst he; intro i j hh; cases hh
      · -- interrupted during makedirs
        simp only [hd1, decide_false, Bool.not_false, ↓reduceIte]
        exact ⟨p, jk', h.same cfg hB jk' [] hj' hjc' rfl (by simp [launchedOf]) (by simp) (by simp)⟩


/-- **one call of the step function, interrupted anywhere, preserves the invariant** -/
theorem invokeCore_inv (hml : MarkerLast cfg) (hB : 1 ≤ cfg.B) {t : Tree} {tr : List Event} {p : Prog} {jk : Junk}
    (h : GI cfg t tr p jk) (hout : t.out = true) (k : Option Nat) :
    ∃ p' jk', GI cfg (invokeCore cfg k t).tree (tr ++ (invokeCore cfg k t).events) p' jk' := by
  have hm := hml.hasMarker
  have hp := h.crun.ok cfg hB
  have ht : t = ⟨true, treeIters cfg p jk⟩ := by
    cases t; simp only [Tree.mk.injEq]; exact ⟨hout, h.iters⟩
  subst ht
  cases hjk : jk with
  | plate s =>
    subst hjk
    unfold invokeCore
    rw [planStep_junk cfg hm hB p hp (h.crun.wf cfg) s h.junk true]
    simp only
    rw [userRemove_junk]
    refine ⟨p, (if p.cur = [] then Junk.emptyIter else Junk.none), ?_⟩
    have hnext : ∀ l ∈ completedOf tr, ¬ (l.iter = p.cs.length ∧ l.plate = p.cur.length) := by
      intro l hl hpos
      rw [h.comp] at hl
      have hs := h.crun.steps cfg hB
      have : stepNo cfg.B l ∈ List.range p.flat.length := by
        rw [← hs]; exact List.mem_map_of_mem hl
      rw [List.mem_range, flat_length hp] at this
      simp only [stepNo, hpos.1, hpos.2] at this
      omega
    exact {
      iters := rfl
      junk := by split <;> trivial
      jkcur := by intro he; split at he; assumption; cases he
      out := by intro h; cases h
      crun := h.crun
      comp := by rw [completedOf_append]; simpa [completedOf] using h.comp
      launched := by
        intro l hl
        rw [launchedOf_append] at hl
        simp only [launchedOf, List.filterMap_cons, List.filterMap_nil, List.append_nil] at hl
        exact h.launched l hl
      noScript := by
        intro e he
        rw [List.mem_append] at he
        rcases he with he | he
        · exact h.noScript e he
        · simp only [List.mem_singleton] at he; subst he; intro i j hh; cases hh
      userSafe := h.userSafe.append_user _ _ hnext
      lord := by
        apply h.lord.append
        intro a' b l hsplit
        cases a' with
        | nil => simp at hsplit
        | cons x a'' =>
          simp only [List.cons_append, List.cons.injEq] at hsplit
          have := congrArg List.length hsplit.2
          simp at this }
  | none => subst hjk; exact invokeCore_quiet cfg hml hB h (Or.inl rfl) k
  | emptyIter => subst hjk; exact invokeCore_quiet cfg hml hB h (Or.inr ⟨rfl, h.jkcur rfl⟩) k

end Batchie.Orchestrator
