/-
  C11 helper lemmas, part 3: the two hold-out splits.
-/
import Batchie.Lemmas.PrepPlates
namespace Batchie.Prep
open Batchie.Proto Batchie.Screen

theorem validChoice_iff {p : List Nat} {k : Nat} {c : List Nat} :
    validChoice p k c = true ↔ c.length = k ∧ c.Nodup ∧ ∀ i ∈ c, i ∈ p := by
  simp [validChoice, and_assoc]

/-- the two halves in terms of the input rows and the selection -/
theorem holdoutSplit_ok {s : Screen} {chosen : List Nat} {keep hold : Screen} (h : holdoutSplit s chosen = .ok (keep, hold)) :
    rowsOf keep = maskFilter (rowsOf s) ((selOfIdx (rowsOf s).length chosen).map (!·)) ∧
    rowsOf hold = (maskFilter (rowsOf s) (selOfIdx (rowsOf s).length chosen)).map (fun r => { r with mask := true }) := by
  unfold holdoutSplit at h
  obtain ⟨k, hk, h⟩ := bind_ok h
  obtain ⟨hd, hh, h⟩ := bind_ok h
  cases h
  exact ⟨(raw_ok hk).1.rows_eq, (raw_ok hh).1.rows_eq⟩

/-- the plate-balanced loop picks, from every plate, none (observed) or `kf size` (unobserved) of its rows -/
theorem balancedLoop_picked (kf : Nat → Nat) (mask : List Bool) (plates log : List (List Nat)) (chosen : List Nat)
    (h : balancedLoop kf mask plates log = .ok chosen) :
    ∃ picks, chosen = picks.flatten ∧
      Picked (fun q => if plateObserved mask q then 0 else kf q.length) plates picks := by
  induction plates generalizing log chosen with
  | nil =>
    simp only [balancedLoop] at h
    cases h
    exact ⟨[], rfl, .nil⟩
  | cons p ps ih =>
    unfold balancedLoop at h
    by_cases hobs : plateObserved mask p = true
    · rw [if_pos hobs] at h
      obtain ⟨picks, e, hp⟩ := ih log chosen h
      refine ⟨[] :: picks, by simpa using e, .cons List.nodup_nil (by simp) (by simp [hobs]) hp⟩
    · rw [if_neg hobs] at h
      cases log with
      | nil => simp at h
      | cons c rest =>
        simp only at h
        by_cases hv : validChoice p (kf p.length) c = true
        · rw [hv] at h
          simp only [Bool.not_true, Bool.false_eq_true, if_false] at h
          obtain ⟨more, hmore, e⟩ := map_ok h
          obtain ⟨picks, e', hp⟩ := ih rest more hmore
          obtain ⟨hl, hnd, hsub⟩ := validChoice_iff.mp hv
          refine ⟨c :: picks, by rw [← e, e']; simp, .cons hnd hsub (by simp [hobs, hl]) hp⟩
        · simp [hv] at h

end Batchie.Prep
