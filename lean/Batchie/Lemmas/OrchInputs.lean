/-
  C19 -- the ABSOLUTE input clauses of every launch the step function plans (uninterrupted or not): a later plate of an
  iteration is selected with the chain files of plate_0 of THAT iteration, excluding exactly the selections of the
  earlier plates of that iteration; a first plate of a later iteration gets its test screen from `iter_0/plate_0`.
-/
import Batchie.Lemmas.OrchRun

namespace Batchie.Orchestrator

variable (cfg : Cfg)

theorem platesFrom_filterMap_selected (j : Nat) (ls : List Launch) :
    (platesFrom cfg j ls).filterMap (fun p => (findKind .selected p.files).map (·.content)) =
      ls.filterMap (fun l => (findKind .selected (cfg.pubs l)).map (·.content)) := by
  induction ls generalizing j with
  | nil => rfl
  | cons x xs ih =>
    simp only [platesFrom, List.filterMap_cons, PlateDir.files, Option.getD_some]
    rw [← ih (j + 1)]
    rfl

/-- what `get_selected_plates` reads when the completed steps are `p` -/
theorem selectedPlates_clean (p : Prog) :
    selectedPlates p.cs.length ⟨true, treeIters cfg p .none⟩ =
      (let s := p.cur.filterMap (fun l => (findKind .selected (cfg.pubs l)).map (·.content))
       if s.isEmpty then none else some s) := by
  unfold selectedPlates
  simp only
  rw [findIter_treeIters_last]
  unfold lastIter
  by_cases hc : p.cur = []
  · simp [hc]
  · simp only [hc, false_and, ↓reduceIte, List.head?_cons, junkPlates, List.append_nil]
    rw [platesFrom_filterMap_selected]

/-- what `get_theta_and_dist_chunks(iter_i/plate_0)` expands to once the job directory exists -/
theorem chainsOf_junk (p : Prog) (l0 : Launch) (rest : List Launch) (hcur : p.cur = l0 :: rest) :
    chainsOf p.cs.length ⟨true, treeIters cfg p (.plate none)⟩ =
      (let th := (cfg.pubs l0).filter (fun f => f.kind.isThetas)
       let di := (cfg.pubs l0).filter (fun f => f.kind.isDist)
       if th.isEmpty || di.isEmpty then .err .noChains else .ok (th ++ di)) := by
  unfold chainsOf
  simp only
  rw [findIter_treeIters_last]
  unfold lastIter
  simp [hcur, platesFrom, findPlate, PlateDir.files]

theorem launchOf_nextPlate_plate {mode : Mode} {t : Tree} {nx : Next} {e : Option (List Nat)} {l : Launch}
    (h : launchOf mode t nx e = .ok l) (hw : l.wf = .nextPlate) :
    nx.plate ≠ 0 ∧ chainsOf nx.iter t = .ok l.chains ∧ l.excludes = e := by
  unfold launchOf at h
  cases mode with
  | retrospective =>
    simp only at h
    split at h
    · injection h with h; subst h; cases hw
    · split at h
      · split at h
        · cases h
        · split at h
          · cases h
          · injection h with h; subst h; cases hw
      · rename_i hp
        split at h
        · cases h
        · rename_i ch hch
          split at h
          · cases h
          · injection h with h; subst h; exact ⟨hp, hch, rfl⟩
  | prospective =>
    simp only at h
    split at h
    · injection h with h; subst h; cases hw
    · rename_i hp
      split at h
      · cases h
      · rename_i ch hch
        injection h with h; subst h; exact ⟨hp, hch, rfl⟩

/-- **a later plate of an iteration** (workflow `next_plate`, both modes, every batch size): the chain files are those
    published by plate_0 of the SAME iteration, the excludes are exactly the selections recorded by the earlier plates of
    that iteration (in particular never its own aborted choice: the plan is a function of the completed steps only) -/
theorem planLaunch_nextPlate_inputs {p : Prog} {l' : Launch} (hl : planLaunch cfg p = .ok l') (hw : l'.wf = .nextPlate) :
    ∃ l0 rest, p.cur = l0 :: rest ∧
      l'.chains = (cfg.pubs l0).filter (fun f => f.kind.isThetas) ++ (cfg.pubs l0).filter (fun f => f.kind.isDist) ∧
      l'.excludes = (let s := p.cur.filterMap (fun l => (findKind .selected (cfg.pubs l)).map (·.content))
                     if s.isEmpty then none else some s) := by
  unfold planLaunch at hl
  obtain ⟨hp, hch, hex⟩ := launchOf_nextPlate_plate hl hw
  rw [nextOfProg_plate] at hp
  rw [nextOfProg_iter] at hch
  cases hcur : p.cur with
  | nil => rw [hcur] at hp; exact absurd rfl hp
  | cons l0 rest =>
    refine ⟨l0, rest, rfl, ?_, ?_⟩
    · rw [chainsOf_junk cfg p l0 rest hcur] at hch
      simp only at hch
      split at hch
      · cases hch
      · injection hch with hch; exact hch.symm
    · rw [hex, selectedPlates_clean, hcur]

theorem launchOf_firstBatch_test {mode : Mode} {t : Tree} {nx : Next} {e : Option (List Nat)} {l : Launch}
    (h : launchOf mode t nx e = .ok l) (hw : l.wf = .firstBatch) :
    ∃ tf, l.test = some ⟨0, 0, tf⟩ ∧ nx.iter ≠ 0 ∧
      ((findIter 0 t.iters).bind (fun it => findPlate 0 it.plates)).bind testScreenOf = some tf := by
  unfold launchOf at h
  cases mode with
  | retrospective =>
    simp only at h
    split at h
    · injection h with h; subst h; cases hw
    · rename_i h00
      split at h
      · rename_i hp0
        split at h
        · cases h
        · rename_i tf htf
          split at h
          · cases h
          · injection h with h; subst h
            refine ⟨tf, rfl, fun hi => h00 ⟨hi, hp0⟩, ?_⟩
            rw [← htf]
            cases findIter 0 t.iters <;> rfl
      · split at h
        · cases h
        · split at h
          · cases h
          · injection h with h; subst h; cases hw
  | prospective =>
    simp only at h
    split at h
    · injection h with h; subst h; cases hw
    · split at h
      · cases h
      · injection h with h; subst h; cases hw

/-- **first plate of a later iteration** (workflow `retrospective --initialize false`): the test screen is the file that
    `get_test_screen_from_job_output` finds under `iter_0/plate_0` -- published by the very first step of the run -/
theorem planLaunch_firstBatch_test (hB : 1 ≤ cfg.B) {p : Prog} (hc : CRun cfg p) {l' : Launch}
    (hl : planLaunch cfg p = .ok l') (hw : l'.wf = .firstBatch) :
    ∃ l00 tf, p.flat.head? = some l00 ∧ l'.test = some ⟨0, 0, tf⟩ ∧ testScreenOf ⟨0, some (cfg.pubs l00)⟩ = some tf := by
  unfold planLaunch at hl
  obtain ⟨tf, ht, hi, hf⟩ := launchOf_firstBatch_test hl hw
  rw [nextOfProg_iter] at hi
  have hp := hc.ok cfg hB
  cases hcs : p.cs with
  | nil => rw [hcs] at hi; exact absurd rfl hi
  | cons c0 cs' =>
    have hc0 : c0.length = cfg.B := hp.1 c0 (by rw [hcs]; simp)
    cases hc0' : c0 with
    | nil => rw [hc0'] at hc0; simp at hc0; omega
    | cons l00 r =>
      refine ⟨l00, tf, by simp [Prog.flat, hcs, hc0'], ht, ?_⟩
      simp only [treeIters, hcs, hc0', itersFrom, platesFrom, List.cons_append, findIter, List.find?_cons_of_pos,
        decide_true, Option.bind_some, findPlate] at hf
      simpa using hf

end Batchie.Orchestrator
