/-
  C19 -- effect of every atomic action, and the plan of the step function, on directories of the reachable shape.
-/
import Batchie.Lemmas.OrchExamine

namespace Batchie.Orchestrator

variable (cfg : Cfg)

theorem treeIters_eq_last (p : Prog) (jk : Junk) (h : ¬ (p.cur = [] ∧ jk = .none)) :
    treeIters cfg p jk =
      itersFrom cfg 0 p.cs ++ [⟨p.cs.length, platesFrom cfg 0 p.cur ++ junkPlates p.cur.length jk⟩] := by
  simp [treeIters, lastIter, h]

theorem treeIters_clean (p : Prog) (h : p.cur = []) : treeIters cfg p .none = itersFrom cfg 0 p.cs := by
  simp [treeIters, lastIter, h]

theorem itersFrom_ne_len (cs : List (List Launch)) : ∀ it ∈ itersFrom cfg 0 cs, it.idx ≠ cs.length :=
  findIter_itersFrom_none cfg cs.length 0 cs (by omega)

/-! ## atomic actions -/

theorem apply_mkdirIter (p : Prog) (o : Bool) (h : p.cur = []) :
    (Action.mkdirIter p.cs.length).apply ⟨o, treeIters cfg p .none⟩ = ⟨o, treeIters cfg p .emptyIter⟩ := by
  have hfind : findIter p.cs.length (treeIters cfg p .none) = none := by
    rw [findIter_treeIters_last]; simp [lastIter, h]
  simp only [Action.apply, hfind, Option.isSome_none, Bool.false_eq_true, ↓reduceIte]
  rw [treeIters_clean cfg p h, treeIters_eq_last cfg p .emptyIter (by simp)]
  simp [h, platesFrom, junkPlates]

/-- the two states in which the next step's plate directory does not exist -/
def NoPlate (p : Prog) (jk : Junk) : Prop := (jk = .emptyIter) ∨ (jk = .none ∧ p.cur ≠ [])

theorem treeIters_noPlate (p : Prog) (jk : Junk) (h : NoPlate p jk) :
    treeIters cfg p jk = itersFrom cfg 0 p.cs ++ [⟨p.cs.length, platesFrom cfg 0 p.cur⟩] := by
  rcases h with rfl | ⟨rfl, hc⟩
  · rw [treeIters_eq_last cfg p .emptyIter (by simp)]; simp [junkPlates]
  · rw [treeIters_eq_last cfg p .none (by simp [hc])]; simp [junkPlates]

theorem apply_mkdirPlate (p : Prog) (jk : Junk) (o : Bool) (h : NoPlate p jk) :
    (Action.mkdirPlate p.cs.length p.cur.length).apply ⟨o, treeIters cfg p jk⟩ = ⟨o, treeIters cfg p (.plate none)⟩ := by
  rw [treeIters_noPlate cfg p jk h, treeIters_eq_last cfg p (.plate none) (by simp)]
  simp only [Action.apply]
  rw [modIter_append_last _ _ _ _ (itersFrom_ne_len cfg p.cs) rfl]
  have : findPlate p.cur.length (platesFrom cfg 0 p.cur) = none := by
    have := findPlate_append_of_ne p.cur.length (platesFrom cfg 0 p.cur) [] (platesFrom_ne cfg p.cur _ (Nat.le_refl _))
    simpa [findPlate] using this
  simp [this, junkPlates]

theorem modPlate_junk (p : Prog) (s : Option (List File)) (f : PlateDir → PlateDir) :
    modPlate p.cs.length p.cur.length f (treeIters cfg p (.plate s)) =
      itersFrom cfg 0 p.cs ++ [⟨p.cs.length, platesFrom cfg 0 p.cur ++ [f ⟨p.cur.length, s⟩]⟩] := by
  rw [treeIters_eq_last cfg p (.plate s) (by simp)]
  unfold modPlate
  rw [modIter_append_last _ _ _ _ (itersFrom_ne_len cfg p.cs) rfl]
  simp only [junkPlates]
  rw [map_plate_append_last _ _ _ _ (platesFrom_ne cfg p.cur _ (Nat.le_refl _)) rfl]

theorem apply_mkdirName (p : Prog) (s : Option (List File)) (o : Bool) :
    (Action.mkdirName p.cs.length p.cur.length).apply ⟨o, treeIters cfg p (.plate s)⟩ =
      ⟨o, treeIters cfg p (.plate (some (s.getD [])))⟩ := by
  simp only [Action.apply]
  rw [modPlate_junk, treeIters_eq_last cfg p (.plate _) (by simp)]
  simp [junkPlates, PlateDir.files]

theorem apply_publish (p : Prog) (s : Option (List File)) (o : Bool) (f : File) :
    (Action.publish p.cs.length p.cur.length f).apply ⟨o, treeIters cfg p (.plate s)⟩ =
      ⟨o, treeIters cfg p (.plate (some (s.getD [] ++ [f])))⟩ := by
  simp only [Action.apply]
  rw [modPlate_junk, treeIters_eq_last cfg p (.plate _) (by simp)]
  simp [junkPlates, PlateDir.files]

theorem applyAll_publish (p : Prog) (o : Bool) (fs : List File) :
    ∀ (s : List File),
      applyAll (fs.map (fun f => Action.publish p.cs.length p.cur.length f)) ⟨o, treeIters cfg p (.plate (some s))⟩ =
        ⟨o, treeIters cfg p (.plate (some (s ++ fs)))⟩ := by
  induction fs with
  | nil => intro s; simp [applyAll]
  | cons f fs ih =>
    intro s
    simp only [List.map_cons, applyAll, List.foldl_cons]
    rw [apply_publish]
    have := ih (s ++ [f])
    simp only [applyAll] at this
    simp only [Option.getD_some]
    rw [this]; simp

/-- the user's removal of the directory `examine` named -/
theorem userRemove_junk (p : Prog) (s : Option (List File)) (o : Bool) :
    userRemove p.cs.length p.cur.length ⟨o, treeIters cfg p (.plate s)⟩ =
      ⟨o, treeIters cfg p (if p.cur = [] then .emptyIter else .none)⟩ := by
  simp only [userRemove]
  rw [treeIters_eq_last cfg p (.plate s) (by simp)]
  rw [modIter_append_last _ _ _ _ (itersFrom_ne_len cfg p.cs) rfl]
  simp only [junkPlates]
  rw [filter_plate_append_last _ _ _ (by
        intro q hq; simpa using platesFrom_ne cfg p.cur _ (Nat.le_refl _) q hq) (by simp)]
  by_cases hc : p.cur = []
  · simp only [hc, ↓reduceIte]
    rw [treeIters_eq_last cfg p .emptyIter (by simp)]
    simp [hc, junkPlates]
  · simp only [hc, ↓reduceIte]
    rw [treeIters_eq_last cfg p .none (by simp [hc])]
    simp [junkPlates]

/-- a plate directory holding everything the pipeline publishes IS a completed step -/
theorem treeIters_complete (B : Nat) (p : Prog) (l : Launch) :
    treeIters cfg p (.plate (some (cfg.pubs l))) = treeIters cfg (p.push B l) .none := by
  rw [treeIters_eq_last cfg p (.plate _) (by simp)]
  unfold Prog.push
  by_cases h : p.cur.length + 1 = B
  · simp only [h, ↓reduceIte]
    rw [treeIters_clean cfg _ rfl]
    simp only
    rw [itersFrom_append]
    simp [itersFrom, platesFrom_append, platesFrom, junkPlates]
  · simp only [h, ↓reduceIte]
    rw [treeIters_eq_last cfg _ .none (by simp)]
    simp [platesFrom_append, platesFrom, junkPlates]

theorem ProgOK.push {B : Nat} {p : Prog} (h : ProgOK B p) (l : Launch) : ProgOK B (p.push B l) := by
  unfold Prog.push
  by_cases hb : p.cur.length + 1 = B
  · simp only [hb, ↓reduceIte]
    refine ⟨?_, by simp; omega⟩
    intro c hc
    simp only [List.mem_append, List.mem_singleton] at hc
    rcases hc with hc | rfl
    · exact h.1 c hc
    · simp [hb]
  · simp only [hb, ↓reduceIte]
    refine ⟨h.1, ?_⟩
    have := h.2
    simp only [List.length_append, List.length_singleton]; omega

theorem Prog.flat_push (B : Nat) (p : Prog) (l : Launch) : (p.push B l).flat = p.flat ++ [l] := by
  unfold Prog.push Prog.flat
  by_cases hb : p.cur.length + 1 = B <;> simp [hb]

/-! ## the plan of the step function -/

/-- the launch the step function decides on when the completed steps are `p` (a function of `p` alone) -/
def planLaunch (p : Prog) : Res StepErr Launch :=
  launchOf cfg.mode ⟨true, treeIters cfg p (.plate none)⟩ (nextOfProg cfg p)
    (selectedPlates p.cs.length ⟨true, treeIters cfg p .none⟩)

/-- `retrospective`: the last step reported no unobserved plate -/
def isFinished (p : Prog) : Prop := cfg.mode = .retrospective ∧ (nextOfProg cfg p).lastMeta = some 0

instance (p : Prog) : Decidable (isFinished cfg p) := by unfold isFinished; exact inferInstance

def preOf (p : Prog) (jk : Junk) : List Action :=
  (if p.cur = [] ∧ jk = .none then [Action.mkdirIter p.cs.length] else []) ++
  [Action.mkdirPlate p.cs.length p.cur.length]

theorem nextOfProg_iter (p : Prog) : (nextOfProg cfg p).iter = p.cs.length := by
  unfold nextOfProg; split <;> rfl

theorem nextOfProg_plate (p : Prog) : (nextOfProg cfg p).plate = p.cur.length := by
  unfold nextOfProg; split <;> rfl

theorem selectedPlates_emptyIter (p : Prog) (o o' : Bool) (h : p.cur = []) :
    selectedPlates p.cs.length ⟨o, treeIters cfg p .emptyIter⟩ = selectedPlates p.cs.length ⟨o', treeIters cfg p .none⟩ := by
  unfold selectedPlates
  simp only
  rw [findIter_treeIters_last, findIter_treeIters_last]
  simp [lastIter, h, platesFrom, junkPlates]

/-- clean directory, or clean + an empty iteration directory (`cur = []`) -/
def Quiet (p : Prog) (jk : Junk) : Prop := jk = .none ∨ (jk = .emptyIter ∧ p.cur = [])

theorem planStep_quiet (hm : HasMarker cfg) (hB : 1 ≤ cfg.B) (p : Prog) (hp : ProgOK cfg.B p)
    (hw : WfOK cfg p) (jk : Junk) (hq : Quiet p jk) :
    planStep cfg ⟨true, treeIters cfg p jk⟩ =
      if isFinished cfg p then .finished
      else match planLaunch cfg p with
        | .err e => .failed (preOf p jk) e
        | .ok l => .go (preOf p jk) l := by
  have hj : JunkOK jk := by rcases hq with rfl | ⟨rfl, _⟩ <;> trivial
  have hex := examine_treeIters cfg hm cfg.B hB p hp hw jk hj true
  have hex' : examine cfg.B ⟨true, treeIters cfg p jk⟩ = .ok (nextOfProg cfg p) := by
    rw [hex]; rcases hq with rfl | ⟨rfl, _⟩ <;> rfl
  unfold planStep
  rw [hex']
  simp only
  by_cases hf : isFinished cfg p
  · have hf' := hf
    unfold isFinished at hf'
    simp [hf, hf']
  · have hf' := hf
    unfold isFinished at hf'
    simp only [hf, hf', ↓reduceIte]
    rw [nextOfProg_iter, nextOfProg_plate]
    -- the job directory does not exist: rmtree does nothing
    have hjob : (findIter p.cs.length (treeIters cfg p jk)).bind (fun it => findPlate p.cur.length it.plates) = none := by
      rw [findIter_treeIters_last]
      unfold lastIter
      split
      · rfl
      · simp only [List.head?_cons, Option.bind_some]
        have hjp : junkPlates p.cur.length jk = [] := by rcases hq with rfl | ⟨rfl, _⟩ <;> rfl
        rw [hjp, List.append_nil]
        have := findPlate_append_of_ne p.cur.length (platesFrom cfg 0 p.cur) [] (platesFrom_ne cfg p.cur _ (Nat.le_refl _))
        simpa [findPlate] using this
    have hrm : rmtreeActions p.cs.length p.cur.length ⟨true, treeIters cfg p jk⟩ = [] := by
      unfold rmtreeActions; simp only; rw [hjob]
    rw [hrm]
    simp only [applyAll, List.foldl_nil, List.nil_append]
    -- makedirs
    have hmk : makedirsActions p.cs.length p.cur.length ⟨true, treeIters cfg p jk⟩ = preOf p jk := by
      unfold makedirsActions preOf
      simp only
      rw [hjob]
      rw [findIter_treeIters_last]
      unfold lastIter
      by_cases hc : p.cur = [] ∧ jk = .none
      · simp [hc]
      · simp [hc]
    rw [hmk]
    -- the directory after makedirs
    have hafter : List.foldl (fun t a => a.apply t) ⟨true, treeIters cfg p jk⟩ (preOf p jk) =
        ⟨true, treeIters cfg p (.plate none)⟩ := by
      unfold preOf
      by_cases hc : p.cur = [] ∧ jk = .none
      · obtain ⟨hc1, rfl⟩ := hc
        rw [if_pos ⟨hc1, rfl⟩]
        simp only [List.cons_append, List.nil_append, List.foldl_cons, List.foldl_nil]
        rw [apply_mkdirIter cfg p true hc1]
        exact apply_mkdirPlate cfg p .emptyIter true (Or.inl rfl)
      · simp only [hc, ↓reduceIte, List.nil_append, List.foldl_cons, List.foldl_nil]
        apply apply_mkdirPlate
        rcases hq with rfl | ⟨rfl, _⟩
        · right; exact ⟨rfl, fun h => hc ⟨h, rfl⟩⟩
        · left; rfl
    rw [hafter]
    have hsel : selectedPlates p.cs.length ⟨true, treeIters cfg p jk⟩ =
        selectedPlates p.cs.length ⟨true, treeIters cfg p .none⟩ := by
      rcases hq with rfl | ⟨rfl, hc⟩
      · rfl
      · exact selectedPlates_emptyIter cfg p true true hc
    rw [hsel]
    unfold planLaunch
    rfl

theorem planStep_junk (hm : HasMarker cfg) (hB : 1 ≤ cfg.B) (p : Prog) (hp : ProgOK cfg.B p)
    (hw : WfOK cfg p) (s : Option (List File)) (hj : JunkOK (.plate s)) (o : Bool) :
    planStep cfg ⟨o, treeIters cfg p (.plate s)⟩ = .named p.cs.length p.cur.length := by
  unfold planStep
  rw [examine_treeIters cfg hm cfg.B hB p hp hw (.plate s) hj o]
  rfl

/-- the launch is for the step that `examine` computed -/
theorem launchOf_pos {mode : Mode} {t : Tree} {nx : Next} {e : Option (List Nat)} {l : Launch}
    (h : launchOf mode t nx e = .ok l) : l.iter = nx.iter ∧ l.plate = nx.plate := by
  unfold launchOf at h
  cases mode with
  | retrospective =>
    simp only at h
    split at h
    · rename_i h0
      injection h with h; subst h; simp [h0.1, h0.2]
    · split at h
      · rename_i h0
        split at h
        · cases h
        · split at h
          · cases h
          · injection h with h; subst h; simp [h0]
      · split at h
        · cases h
        · split at h
          · cases h
          · injection h with h; subst h; simp
  | prospective =>
    simp only at h
    split at h
    · rename_i h0
      injection h with h; subst h; simp [h0]
    · split at h
      · cases h
      · injection h with h; subst h; simp

/-- ... and runs a workflow the mode uses -/
theorem launchOf_allowed {mode : Mode} {t : Tree} {nx : Next} {e : Option (List Nat)} {l : Launch}
    (h : launchOf mode t nx e = .ok l) : allowed mode l.wf = true := by
  unfold launchOf at h
  cases mode with
  | retrospective =>
    simp only at h
    split at h
    · injection h with h; subst h; rfl
    · split at h
      · split at h
        · cases h
        · split at h
          · cases h
          · injection h with h; subst h; rfl
      · split at h
        · cases h
        · split at h
          · cases h
          · injection h with h; subst h; rfl
  | prospective =>
    simp only at h
    split at h
    · injection h with h; subst h; rfl
    · split at h
      · cases h
      · injection h with h; subst h; rfl

theorem planLaunch_allowed {p : Prog} {l : Launch} (h : planLaunch cfg p = .ok l) :
    allowed cfg.mode l.wf = true := launchOf_allowed h

theorem planLaunch_pos {p : Prog} {l : Launch} (h : planLaunch cfg p = .ok l) :
    l.iter = p.cs.length ∧ l.plate = p.cur.length := by
  have := launchOf_pos h
  rwa [nextOfProg_iter, nextOfProg_plate] at this

end Batchie.Orchestrator
