/-
  `load ∘ save` on well-formed screens (table level and byte level), and the experiment space.
-/
import Batchie.Lemmas.LifecycleMk
import Batchie.Lemmas.LifecycleCodec

namespace Batchie.Lifecycle
open Batchie.Proto Batchie.Screen Batchie.Persist

theorem zip3_unzip3 (tm : TMap) :
    (((tm.map (·.1)).zip (tm.map (·.2.1))).zip (tm.map (·.2.2))).map (fun p => (p.1.1, p.1.2, p.2)) = tm := by
  induction tm with
  | nil => rfl
  | cons e t ih => simp only [List.map_cons, List.zip_cons_cons, ih]

theorem zip_unzip (sm : SMap) : (sm.map (·.1)).zip (sm.map (·.2)) = sm := by
  induction sm with
  | nil => rfl
  | cons e t ih => simp only [List.map_cons, List.zip_cons_cons, ih]

/-- what `load_h5` hands to the constructor is the screen's own rows, mask and mappings -/
theorem load_save_raw (s : Screen) :
    ({ ctrl := s.save.ctrl, arity := s.save.arity, tnames := s.save.tnames, tdoses := s.save.tdoses,
       snames := s.save.snames, pnames := s.save.pnames, obs := some s.save.obs, mask := some s.save.mask,
       tmap := some ((s.save.tmapNames.zip s.save.tmapDoses).zip s.save.tmapIds |>.map (fun p => (p.1.1, p.1.2, p.2))),
       smap := some (s.save.smapNames.zip s.save.smapIds) } : Raw) = rowsRaw s s.mask := by
  unfold Screen.save rowsRaw
  simp only [zip3_unzip3, zip_unzip]

/-- a screen with at least one row and one treatment column has non-empty mappings -/
theorem column_length {α : Type} [Inhabited α] (rows : List (List α)) (i : Nat) : (column rows i).length = rows.length := by
  simp [column]

theorem length_flatMap_column {α : Type} [Inhabited α] (rows : List (List α)) (a : Nat) :
    ((List.range a).flatMap (fun i => column rows i)).length = a * rows.length := by
  induction a with
  | zero => simp
  | succ a ih =>
    rw [List.range_succ, List.flatMap_append, List.length_append, ih]
    simp [column_length, Nat.succ_mul]

theorem length_cellsOf (ar : Nat) (tn : List (List Name)) (td : List (List Dose)) (h : td.length = tn.length) :
    (cellsOf ar tn td).length = ar * tn.length := by
  unfold cellsOf
  rw [List.length_zip, length_flatMap_column, length_flatMap_column, h, Nat.min_self]

theorem tmap_ne_nil {s : Screen} (h : WF s) (hn : s.snames ≠ []) (ha : s.arity ≠ 0) : s.tmap ≠ [] := by
  obtain ⟨tf, hte, _, _⟩ := h.tenc
  have hlen := length_cellsOf s.arity s.tnames s.tdoses h.len_td
  have hpos : 0 < (cellsOf s.arity s.tnames s.tdoses).length := by
    rw [hlen]
    have : 0 < s.tnames.length := by
      rw [← h.len_sn]; exact List.length_pos_iff.2 hn
    exact Nat.mul_pos (Nat.pos_of_ne_zero ha) this
  obtain ⟨x, hx⟩ := List.exists_mem_of_length_pos hpos
  unfold encodeTreatments at hte
  simp only at hte
  split at hte
  · cases hte
  · rename_i g
    intro he
    simp only [Bool.not_eq_true, List.any_eq_false, List.mem_map, forall_exists_index, and_imp,
      forall_apply_eq_imp_iff₂] at g
    have := g x hx
    rw [he] at this
    simp [tLookup] at this

theorem smap_ne_nil {s : Screen} (h : WF s) (hn : s.snames ≠ []) : s.smap ≠ [] := by
  have hse := h.senc
  obtain ⟨x, hx⟩ := List.exists_mem_of_ne_nil _ hn
  unfold encode1d at hse
  simp only at hse
  split at hse
  · cases hse
  · rename_i g
    intro he
    simp only [Bool.not_eq_true, List.any_eq_false, List.mem_map, forall_exists_index, and_imp,
      forall_apply_eq_imp_iff₂] at g
    have := g x hx
    rw [he] at this
    simp [sLookup] at this

/-- `load (save s) = s` for every constructed screen with at least one row and one treatment column -/
theorem load_save {s : Screen} (h : WF s) (hn : s.snames ≠ []) (ha : s.arity ≠ 0) : load s.save = .ok s := by
  have ht := tmap_ne_nil h hn ha
  have hs := smap_ne_nil h hn
  unfold load
  have e1 : s.save.snames.isEmpty = false := by
    simp only [Screen.save]; cases hsn : s.snames with | nil => exact absurd hsn hn | cons _ _ => rfl
  have e2 : s.save.tmapNames.isEmpty = false := by
    simp only [Screen.save, List.isEmpty_map]; cases htm : s.tmap with | nil => exact absurd htm ht | cons _ _ => rfl
  have e3 : s.save.smapNames.isEmpty = false := by
    simp only [Screen.save, List.isEmpty_map]; cases hsm : s.smap with | nil => exact absurd hsm hs | cons _ _ => rfl
  have e4 : (s.save.arity == 0) = false := by simpa [Screen.save] using ha
  simp only [e1, e2, e3, e4, Bool.or_self, Bool.false_eq_true, ↓reduceIte]
  rw [load_save_raw, mk?_rowsRaw h s.mask h.len_mask h.uniform]

/-- the zero-row screen (known finding `C02:zero-row-screen`): it saves, but loading raises `TypeError` -/
theorem load_save_zero_row (s : Screen) (hn : s.snames = []) : load s.save = .error .typeError := by
  unfold load
  simp [Screen.save, hn]

theorem load_save_arity_zero (s : Screen) (ha : s.arity = 0) : load s.save = .error .typeError := by
  unfold load
  simp [Screen.save, ha]

/-! ### byte level -/

/-- every name the file stores in a string table can be stored by numpy -/
structure NamesOK (s : Screen) : Prop where
  tn : ∀ row ∈ s.tnames, ∀ n ∈ row, NameOK n
  sn : ∀ n ∈ s.snames, NameOK n
  pn : ∀ n ∈ s.pnames, NameOK n
  tm : ∀ e ∈ s.tmap, NameOK e.1
  sm : ∀ e ∈ s.smap, NameOK e.1

theorem tnames_flatten_ne_nil {s : Screen} (h : WF s) (hn : s.snames ≠ []) (ha : s.arity ≠ 0) :
    s.tnames.flatten ≠ [] := by
  have hlen : 0 < s.tnames.length := by rw [← h.len_sn]; exact List.length_pos_iff.2 hn
  obtain ⟨row, hrow⟩ := List.exists_mem_of_length_pos hlen
  have hr := h.row_tn
  simp only [List.any_eq_false, bne_iff_ne, ne_eq, Decidable.not_not] at hr
  have : row.length = s.arity := hr row hrow
  intro hf
  rw [List.flatten_eq_nil_iff] at hf
  have := hf row hrow
  simp_all

theorem decode_saveB {s : Screen} (h : WF s) (ok : NamesOK s) (hn : s.snames ≠ []) (ha : s.arity ≠ 0) :
    (saveB s).decode = .ok s.save := by
  have ht := tmap_ne_nil h hn ha
  have hs := smap_ne_nil h hn
  have hpn : s.pnames ≠ [] := by
    have : 0 < s.pnames.length := by rw [h.len_pn, ← h.len_sn]; exact List.length_pos_iff.2 hn
    exact List.length_pos_iff.1 this
  unfold FileB.decode saveB
  simp only [decodeTable2_encodeTable2 s.tnames (tnames_flatten_ne_nil h hn ha) ok.tn,
    decodeTable_encodeTable s.snames hn ok.sn, decodeTable_encodeTable s.pnames hpn ok.pn,
    decodeTable_encodeTable (s.smap.map (·.1)) (by simpa using hs)
      (by intro n hn'; obtain ⟨e, he, rfl⟩ := List.mem_map.1 hn'; exact ok.sm e he),
    decodeTable_encodeTable (s.tmap.map (·.1)) (by simpa using ht)
      (by intro n hn'; obtain ⟨e, he, rfl⟩ := List.mem_map.1 hn'; exact ok.tm e he)]
  rfl

theorem loadB_saveB {s : Screen} (h : WF s) (ok : NamesOK s) (hn : s.snames ≠ []) (ha : s.arity ≠ 0) :
    loadB (saveB s) = .ok s := by
  unfold loadB
  rw [decode_saveB h ok hn ha]
  exact load_save h hn ha

theorem loadB_saveB_zero_row {s : Screen} (h : WF s) (hn : s.snames = []) :
    loadB (saveB s) = .error .typeError := by
  have ht : s.tnames = [] := by
    have : s.tnames.length = 0 := by rw [← h.len_sn, hn]; rfl
    exact List.length_eq_zero_iff.1 this
  unfold loadB FileB.decode saveB
  simp only [ht]
  rfl

/-! ### experiment space -/

structure SpaceOK (e : Space) : Prop where
  tn : ∀ n ∈ e.tnames, NameOK n
  sn : ∀ n ∈ e.snames, NameOK n
  tne : e.tnames ≠ []
  sne : e.snames ≠ []

theorem space_load_save (e : Space) (ok : SpaceOK e) : e.save.load = .ok e := by
  unfold SpaceFile.load Space.save
  simp only [decodeTable_encodeTable e.tnames ok.tne ok.tn, decodeTable_encodeTable e.snames ok.sne ok.sn]
  rfl

theorem space_load_save_empty (e : Space) (h : e.tnames = []) : e.save.load = .error .typeError := by
  unfold SpaceFile.load Space.save
  simp only [h]; rfl

theorem space_load_save_empty' (e : Space) (htn : ∀ n ∈ e.tnames, NameOK n) (hne : e.tnames ≠ [])
    (h : e.snames = []) : e.save.load = .error .typeError := by
  unfold SpaceFile.load Space.save
  simp only [decodeTable_encodeTable e.tnames hne htn, h]
  rfl

end Batchie.Lifecycle
