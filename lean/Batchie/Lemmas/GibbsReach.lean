/-
  Reachable states of the sparse combination sampler: the state built by `__init__`, and the positivity of every
  precision at every state in which a Gaussian block is resampled (the side conditions `0 ≤ prec`, `0 < λ` of the
  block theorems), for every history.
-/
import Batchie.Lemmas.GibbsSweep

namespace Batchie.Gibbs
open Finset

/-- `LegacySparseDrugComboImpl.__init__`: embeddings and intercepts 0, local scales and `tau`, `tau0`, `prec` 100,
    global scales and gamma-process factors 1, empty cache -/
def initState : State ℝ :=
  { W := fun _ _ => 0, W0 := fun _ => 0, V2 := fun _ _ => 0, V1 := fun _ _ => 0, V0 := fun _ => 0, alpha := 0,
    prec := 100, tau := fun _ => 100, tau0 := 100, gam := fun _ => 1, phi2 := fun _ _ => 100, phi1 := fun _ _ => 100,
    phi0 := fun _ => 100, eta2 := fun _ => 1, eta1 := fun _ => 1, eta0 := 1, Mu := fun _ => 0, log := [] }

/-- every precision that enters a Gaussian block is positive -/
structure PosState (st : State ℝ) : Prop where
  prec : 0 < st.prec
  tau0 : 0 < st.tau0
  lam0 : ∀ m, 0 < st.phi0 m * st.eta0
  tau : ∀ d, 0 < st.tau d
  lam2 : ∀ m d, 0 < st.phi2 m d * st.eta2 d
  lam1 : ∀ m d, 0 < st.phi1 m d * st.eta1 d

theorem posState_init : PosState initState := by
  constructor <;> intros <;> simp [initState]

/-- the hyper-parameters (everything a Gaussian block treats as fixed) -/
def SameHyper (s t : State ℝ) : Prop :=
  t.prec = s.prec ∧ t.tau0 = s.tau0 ∧ t.phi0 = s.phi0 ∧ t.eta0 = s.eta0 ∧ t.tau = s.tau ∧ t.phi2 = s.phi2
    ∧ t.eta2 = s.eta2 ∧ t.phi1 = s.phi1 ∧ t.eta1 = s.eta1 ∧ t.gam = s.gam

theorem sameHyper_refl (s : State ℝ) : SameHyper s s := ⟨rfl, rfl, rfl, rfl, rfl, rfl, rfl, rfl, rfl, rfl⟩

theorem sameHyper_trans {a b c : State ℝ} (h1 : SameHyper a b) (h2 : SameHyper b c) : SameHyper a c := by
  obtain ⟨a1, a2, a3, a4, a5, a6, a7, a8, a9, a10⟩ := h1
  obtain ⟨b1, b2, b3, b4, b5, b6, b7, b8, b9, b10⟩ := h2
  exact ⟨b1.trans a1, b2.trans a2, b3.trans a3, b4.trans a4, b5.trans a5, b6.trans a6, b7.trans a7, b8.trans a8,
    b9.trans a9, b10.trans a10⟩

theorem posState_of_sameHyper {s t : State ℝ} (h : SameHyper s t) (hp : PosState s) : PosState t := by
  obtain ⟨a1, a2, a3, a4, a5, a6, a7, a8, a9, -⟩ := h
  constructor
  · rw [a1]; exact hp.prec
  · rw [a2]; exact hp.tau0
  · intro m; rw [a3, a4]; exact hp.lam0 m
  · intro d; rw [a5]; exact hp.tau d
  · intro m d; rw [a6, a7]; exact hp.lam2 m d
  · intro m d; rw [a8, a9]; exact hp.lam1 m d

theorem sameHyper_wNext (dt : Data ℝ) (st : State ℝ) (c : ℕ) (v : Option (ℕ → ℝ)) : SameHyper st (wNext dt st c v) := by
  cases v with
  | none => exact sameHyper_refl st
  | some w => unfold wNext; simp only; split <;> exact ⟨rfl, rfl, rfl, rfl, rfl, rfl, rfl, rfl, rfl, rfl⟩

theorem sameHyper_v2Next (dt : Data ℝ) (st : State ℝ) (m : ℕ) (v : Option (ℕ → ℝ)) : SameHyper st (v2Next dt st m v) := by
  cases v with
  | none => exact sameHyper_refl st
  | some w => unfold v2Next; simp only; split <;> exact ⟨rfl, rfl, rfl, rfl, rfl, rfl, rfl, rfl, rfl, rfl⟩

theorem sameHyper_v1Next (dt : Data ℝ) (st : State ℝ) (m : ℕ) (v : Option (ℕ → ℝ)) : SameHyper st (v1Next dt st m v) := by
  cases v with
  | none => exact sameHyper_refl st
  | some w => unfold v1Next; simp only; split <;> exact ⟨rfl, rfl, rfl, rfl, rfl, rfl, rfl, rfl, rfl, rfl⟩

theorem sameHyper_reconstruct (dt : Data ℝ) (st : State ℝ) : SameHyper st (reconstructMu dt st) := by
  unfold reconstructMu; split <;> exact ⟨rfl, rfl, rfl, rfl, rfl, rfl, rfl, rfl, rfl, rfl⟩

theorem sameHyper_alpha (dt : Data ℝ) (st : State ℝ) : SameHyper st (alphaStep dt st) := by
  unfold alphaStep; split <;> exact ⟨rfl, rfl, rfl, rfl, rfl, rfl, rfl, rfl, rfl, rfl⟩

/-- after any number of units of any of the five Gaussian loops the hyper-parameters are those the loop started with -/
theorem sameHyper_iters (dt : Data ℝ) (ω : Draws ℝ) (st : State ℝ) (k : ℕ) :
    SameHyper st (iter k (w0Block dt ω) st) ∧ SameHyper st (iter k (v0Block dt ω) st)
    ∧ SameHyper st (iter k (wBlock dt ω) st) ∧ SameHyper st (iter k (v2Block dt ω) st)
    ∧ SameHyper st (iter k (v1Block dt ω) st) := by
  refine ⟨?_, ?_, ?_, ?_, ?_⟩
  · exact iter_induction (SameHyper st) _ _ _ (sameHyper_refl st) (fun c _ t ht => ht)
  · exact iter_induction (SameHyper st) _ _ _ (sameHyper_refl st) (fun c _ t ht => ht)
  · exact iter_induction (SameHyper st) _ _ _ (sameHyper_refl st)
      (fun c _ t ht => sameHyper_trans ht (sameHyper_wNext dt t c (ω.w c)))
  · exact iter_induction (SameHyper st) _ _ _ (sameHyper_refl st)
      (fun m _ t ht => sameHyper_trans ht (sameHyper_v2Next dt t m (ω.v2 m)))
  · exact iter_induction (SameHyper st) _ _ _ (sameHyper_refl st)
      (fun m _ t ht => sameHyper_trans ht (sameHyper_v1Next dt t m (ω.v1 m)))

/-- the Gaussian half of a sweep, stage by stage, keeps the hyper-parameters of the state the sweep started from -/
theorem sameHyper_gauss (dt : Data ℝ) (ω : Draws ℝ) (st : State ℝ) :
    let s1 := alphaStep dt (reconstructMu dt st)
    let s2 := w0Step dt ω s1
    let s3 := v0Step dt ω s2
    let s4 := wStep dt ω s3
    let s5 := v2Step dt ω s4
    SameHyper st s1 ∧ SameHyper st s2 ∧ SameHyper st s3 ∧ SameHyper st s4 ∧ SameHyper st s5
      ∧ SameHyper st (gaussPart dt ω st) := by
  intro s1 s2 s3 s4 s5
  have h1 : SameHyper st s1 := sameHyper_trans (sameHyper_reconstruct dt st) (sameHyper_alpha dt _)
  have h2 : SameHyper st s2 := sameHyper_trans h1 (sameHyper_iters dt ω s1 dt.nC).1
  have h3 : SameHyper st s3 := sameHyper_trans h2 (sameHyper_iters dt ω s2 dt.nT).2.1
  have h4 : SameHyper st s4 := sameHyper_trans h3 (sameHyper_iters dt ω s3 dt.nC).2.2.1
  have h5 : SameHyper st s5 := sameHyper_trans h4 (sameHyper_iters dt ω s4 dt.nT).2.2.2.1
  exact ⟨h1, h2, h3, h4, h5, sameHyper_trans h5 (sameHyper_iters dt ω s5 dt.nT).2.2.2.2⟩

/-- after a sweep every precision is positive again (clip ranges); without observations `prec` is the raw gamma draw,
    which is positive -/
theorem posState_sweep (dt : Data ℝ) (ω : Draws ℝ) (st : State ℝ) (hprec : dt.N ≠ 0 ∨ 0 < ω.prec) :
    PosState (mcmcStep dt ω st) := by
  have h := sweep_inBounds dt ω st
  have hN := natTo_nonneg dt.N
  constructor
  · rcases Nat.eq_zero_or_pos dt.N with h0 | hpos
    · have hω : 0 < ω.prec := by
        rcases hprec with h1 | h1
        · exact absurd h0 h1
        · exact h1
      rw [mcmcStep_eq, (precW_frame dt ω _).2.2.2.1]
      show 0 < (if dt.N = 0 then ω.prec else clip ω.prec (lowOf (natTo dt.N)) big)
      rw [if_pos h0]; exact hω
    · exact inRange_pos _ _ hN (h.prec (by omega))
  · exact inRange_pos _ _ hN h.tau0
  · exact fun m => mul_pos (inRange_pos _ _ (occ_nonneg dt m) (h.phi0 m)) (inRange_pos _ _ hN h.eta0)
  · exact fun d => inRange_pos _ _ hN (h.tau d)
  · exact fun m d => mul_pos (inRange_pos _ _ (occ_nonneg dt m) (h.phi2 m d)) (inRange_pos _ _ hN (h.eta2 d))
  · exact fun m d => mul_pos (inRange_pos _ _ (occ_nonneg dt m) (h.phi1 m d)) (inRange_pos _ _ hN (h.eta1 d))

theorem posState_history (dt : Data ℝ) (ωs : List (Draws ℝ)) (st : State ℝ) (h0 : PosState st)
    (hprec : dt.N ≠ 0 ∨ ∀ ω ∈ ωs, 0 < ω.prec) : PosState (runSweeps dt ωs st) := by
  induction ωs using List.reverseRecOn with
  | nil => exact h0
  | append_singleton l ω _ =>
    unfold runSweeps
    rw [List.foldl_append]
    apply posState_sweep
    rcases hprec with h | h
    · exact Or.inl h
    · exact Or.inr (h ω (by simp))

/-- `__init__` leaves every precision inside its documented range, whatever the data -/
theorem inBounds_init (dt : Data ℝ) : InBounds dt initState := by
  have key : ∀ n : ℝ, 0 ≤ n → InRange n 100 ∧ InRange n 1 := fun n hn => by
    have := lowOf_pos_le n hn
    refine ⟨⟨by linarith [this.2], by rw [big_val]; norm_num⟩, ⟨this.2, by rw [big_val]; norm_num⟩⟩
  have hN := natTo_nonneg dt.N
  constructor
  · exact (key _ hN).1
  · exact (key _ hN).2
  · exact fun m => (key _ (occ_nonneg dt m)).1
  · exact fun _ => (key _ hN).1
  · exact fun _ => (key _ hN).2
  · exact fun m _ => (key _ (occ_nonneg dt m)).1
  · exact fun _ => (key _ hN).2
  · exact fun m _ => (key _ (occ_nonneg dt m)).1
  · exact fun _ => (key _ hN).1

end Batchie.Gibbs
