/-
  Algebraic helper lemmas for C09 (commutative ring / ordered field facts about the generic
  numeric helpers of `Batchie.Model.Predict`).
-/
import Batchie.Lemmas.PredictRowwise
import Mathlib.Tactic.Ring
import Mathlib.Tactic.NormNum
import Mathlib.Tactic.NormNum.OfScientific
import Mathlib.Algebra.Order.Field.Basic
import Mathlib.Algebra.BigOperators.Group.List.Basic

namespace Batchie.Predict

/-- the loop count as an element of the carrier (`result / n_thetas`, `np.mean`'s divisor) -/
instance natCastOfCount {R : Type} [NatCast R] : OfCount R := ⟨fun n => (n : R)⟩

section ring
variable {R : Type} [CommRing R]

theorem sumL_eq_sum (l : List R) : sumL l = l.sum := by
  induction l with
  | nil => simp [sumL]
  | cons a l ih => simp only [sumL, List.foldr_cons, List.sum_cons] at ih ⊢; rw [ih]

theorem sumL_nil : sumL ([] : List R) = 0 := by simp [sumL]

theorem sumL_cons (a : R) (l : List R) : sumL (a :: l) = a + sumL l := by simp [sumL]

theorem vadd_comm (x y : List R) : vadd x y = vadd y x := by
  unfold vadd
  rw [List.zipWith_comm]
  congr 1
  funext a b
  exact add_comm b a

theorem vmul_right_comm (w x y : List R) : vmul (vmul w x) y = vmul (vmul w y) x := by
  induction w generalizing x y with
  | nil => simp [vmul]
  | cons a w ih =>
    cases x with
    | nil => cases y <;> simp [vmul]
    | cons b x =>
      cases y with
      | nil => simp [vmul]
      | cons c y =>
        have := ih x y
        simp only [vmul, List.zipWith_cons_cons] at this ⊢
        rw [this, mul_right_comm]

theorem vmul_zeroRow_sum (a r : List R) : sumL (vmul a (zeroRow r)) = 0 := by
  induction a generalizing r with
  | nil => simp [vmul, sumL]
  | cons x a ih =>
    cases r with
    | nil => simp [vmul, zeroRow, sumL]
    | cons y r =>
      have := ih r
      simp only [vmul, zeroRow, List.map_cons, List.zipWith_cons_cons] at this ⊢
      rw [sumL_cons, this]
      simp

theorem vmul_zeroRow_mid_sum (w r x : List R) : sumL (vmul (vmul w (zeroRow r)) x) = 0 := by
  rw [vmul_right_comm]; exact vmul_zeroRow_sum _ _

theorem vadd_zeroRow (x r : List R) (h : x.length ≤ r.length) : vadd x (zeroRow r) = x := by
  induction x generalizing r with
  | nil => simp [vadd]
  | cons a x ih =>
    cases r with
    | nil => simp at h
    | cons b r =>
      have := ih r (by simpa using h)
      simp only [vadd, zeroRow, List.map_cons, List.zipWith_cons_cons] at this ⊢
      rw [this]; simp

theorem zeroRow_vadd (x r : List R) (h : x.length ≤ r.length) : vadd (zeroRow r) x = x := by
  rw [vadd_comm]; exact vadd_zeroRow x r h

end ring

/-! ### clipping -/

section order
variable {R : Type} [LinearOrder R]

theorem clip_mem (lo hi x : R) (h : lo ≤ hi) : lo ≤ clip lo hi x ∧ clip lo hi x ≤ hi := by
  unfold clip
  split
  · exact ⟨le_refl _, h⟩
  · split
    · exact ⟨h, le_refl _⟩
    · constructor
      · exact not_lt.mp ‹_›
      · exact not_lt.mp ‹_›

theorem clip_of_mem (lo hi x : R) (h1 : lo ≤ x) (h2 : x ≤ hi) : clip lo hi x = x := by
  unfold clip
  rw [if_neg (not_lt.mpr h1), if_neg (not_lt.mpr h2)]

theorem clip_idem (lo hi x : R) (h : lo ≤ hi) : clip lo hi (clip lo hi x) = clip lo hi x :=
  clip_of_mem lo hi _ (clip_mem lo hi x h).1 (clip_mem lo hi x h).2

end order

section field
variable {R : Type} [Field R] [LinearOrder R] [IsStrictOrderedRing R]

theorem clipLo_eq : (clipLo : R) = 1 / 100 := by unfold clipLo; norm_num
theorem clipHi_eq : (clipHi : R) = 99 / 100 := by unfold clipHi; norm_num
theorem clipLo_le_clipHi : (clipLo : R) ≤ clipHi := by rw [clipLo_eq, clipHi_eq]; norm_num
theorem clipLo_pos : (0 : R) < clipLo := by rw [clipLo_eq]; norm_num

end field

end Batchie.Predict
