/-
  Lemmas about the sampler's per-unit index tables (`Model/SamplerIndex.lean`): after any sequence of `_update`s the tables are
  exactly "the numbers of the rows with that key, increasing".  Core Lean only.
-/
import Batchie.Model.SamplerIndex
namespace Batchie.Lemmas.SamplerIndex
open Batchie.SamplerIndex

theorem get_add (t : Table) (k : Int) (n : Nat) (k' : Int) :
    (t.add k n).get k' = if k' = k then t.get k ++ [n] else t.get k' := by
  induction t with
  | nil =>
    by_cases h : k' = k
    · subst h; simp [Table.add, Table.get, List.lookup]
    · have : (k' == k) = false := by simpa using h
      simp [Table.add, Table.get, List.lookup, this, h]
  | cons e t ih =>
    obtain ⟨k0, l⟩ := e
    unfold Table.add
    by_cases h0 : k0 = k
    · subst h0
      simp only [beq_self_eq_true, if_true]
      by_cases h : k' = k0
      · subst h; simp [Table.get, List.lookup]
      · have hb : (k' == k0) = false := by simpa using h
        simp [Table.get, List.lookup, hb, h]
    · have hb0 : (k0 == k) = false := by simpa using h0
      simp only [hb0, Bool.false_eq_true, if_false]
      by_cases h1 : k' = k0
      · subst h1
        have : ¬ k' = k := h0
        simp [Table.get, List.lookup, this]
      · have hb1 : (k' == k0) = false := by simpa using h1
        have hkk : (k == k0) = false := by simpa using (fun x : k = k0 => h0 x.symm)
        have := ih
        simp only [Table.get, List.lookup, hb1, hkk] at this ⊢
        exact this

theorem indicesOf_snoc (key : Row → Int) (rows : List Row) (r : Row) (k : Int) :
    indicesOf key (rows ++ [r]) k = if key r = k then indicesOf key rows k ++ [rows.length] else indicesOf key rows k := by
  unfold indicesOf
  simp only [List.length_append, List.length_cons, List.length_nil, Nat.zero_add, List.range_succ, List.filter_append]
  have h1 : (List.range rows.length).filter (fun i => ((rows ++ [r])[i]?.map key) == some k)
      = (List.range rows.length).filter (fun i => (rows[i]?.map key) == some k) := by
    apply List.filter_congr
    intro i hi
    have : i < rows.length := by simpa using hi
    rw [List.getElem?_append_left this]
  rw [h1]
  by_cases h : key r = k
  · simp [h]
  · simp [h]

/-- the three tables of a sampler are the specification for its rows -/
def Consistent (st : Sampler) : Prop :=
  ∀ k, st.clineIdx.get k = indicesOf Row.cl st.rows k ∧ st.dd1Idx.get k = indicesOf Row.dd1 st.rows k
    ∧ st.dd2Idx.get k = indicesOf Row.dd2 st.rows k

theorem consistent_empty : Consistent Sampler.empty := by
  intro k; simp [Sampler.empty, Table.get, indicesOf]

theorem consistent_update (st : Sampler) (h : Consistent st) (r : Row) : Consistent (st.update r) := by
  intro k
  obtain ⟨h1, h2, h3⟩ := h k
  simp only [Sampler.update, get_add, indicesOf_snoc]
  refine ⟨?_, ?_, ?_⟩
  · by_cases e : k = r.cl
    · subst e; simp [h1]
    · have : ¬ r.cl = k := fun x => e x.symm
      simp [e, this, h1]
  · by_cases e : k = r.dd1
    · subst e; simp [h2]
    · have : ¬ r.dd1 = k := fun x => e x.symm
      simp [e, this, h2]
  · by_cases e : k = r.dd2
    · subst e; simp [h3]
    · have : ¬ r.dd2 = k := fun x => e x.symm
      simp [e, this, h3]

theorem consistent_updateMany (st : Sampler) (h : Consistent st) (rows : List Row) : Consistent (st.updateMany rows) := by
  induction rows generalizing st with
  | nil => exact h
  | cons r rows ih => exact ih (st.update r) (consistent_update st h r)

theorem rows_updateMany (st : Sampler) (rows : List Row) : (st.updateMany rows).rows = st.rows ++ rows := by
  induction rows generalizing st with
  | nil => simp [Sampler.updateMany]
  | cons r rows ih =>
    have := ih (st.update r)
    simp only [Sampler.updateMany, List.foldl_cons] at this ⊢
    rw [this]; simp [Sampler.update]

theorem consistent_instalments (blocks : List (List Row)) :
    Consistent (instalments blocks) ∧ (instalments blocks).rows = blocks.flatten := by
  unfold instalments
  suffices ∀ st, Consistent st → Consistent (blocks.foldl Sampler.updateMany st)
      ∧ (blocks.foldl Sampler.updateMany st).rows = st.rows ++ blocks.flatten by
    simpa [Sampler.empty] using this Sampler.empty consistent_empty
  induction blocks with
  | nil => intro st h; simpa using h
  | cons b bs ih =>
    intro st h
    have := ih (st.updateMany b) (consistent_updateMany st h b)
    simp only [List.foldl_cons, List.flatten_cons]
    refine ⟨this.1, ?_⟩
    rw [this.2, rows_updateMany]; simp

/-- membership form: row number `i` is filed under `k` iff it exists and its key is `k`; each at most once, increasing -/
theorem mem_indicesOf (key : Row → Int) (rows : List Row) (k : Int) (i : Nat) :
    i ∈ indicesOf key rows k ↔ ∃ r, rows[i]? = some r ∧ key r = k := by
  unfold indicesOf
  simp only [List.mem_filter, List.mem_range, beq_iff_eq]
  constructor
  · rintro ⟨hi, h⟩
    rw [List.getElem?_eq_getElem hi] at h ⊢
    exact ⟨rows[i], rfl, by simpa using h⟩
  · rintro ⟨r, hr, hk⟩
    have hi : i < rows.length := by
      rcases Nat.lt_or_ge i rows.length with h | h
      · exact h
      · rw [List.getElem?_eq_none h] at hr; cases hr
    exact ⟨hi, by rw [hr]; simp [hk]⟩

theorem nodup_indicesOf (key : Row → Int) (rows : List Row) (k : Int) : (indicesOf key rows k).Nodup :=
  List.Pairwise.filter _ List.nodup_range

end Batchie.Lemmas.SamplerIndex
