/-
  C13: `MergeTopBottomPlateSmoother` on class selections (P1, P2, P4), and the screen-level statements (P1) for both
  merge smoothers.
-/
import Batchie.Lemmas.PrepMerge2
import Mathlib.Logic.Function.Iterate
namespace Batchie.Prep
open Batchie.Proto Batchie.Screen

/-! ### top/bottom pairs -/

theorem nodup_take_reverse_take {α : Type} {l : List α} (hnd : l.Nodup) {h : Nat} (hh : 2 * h ≤ l.length) :
    (l.take h ++ l.reverse.take h).Nodup := by
  rw [List.take_reverse]
  have hsplit : l = l.take h ++ l.drop h := (List.take_append_drop h l).symm
  have hnd' : (l.take h ++ l.drop h).Nodup := by rw [← hsplit]; exact hnd
  rw [List.nodup_append] at hnd'
  have hdrop : l.drop (l.length - h) = (l.drop h).drop (l.length - 2 * h) := by
    rw [List.drop_drop]; congr 1; omega
  rw [List.nodup_append]
  refine ⟨hnd'.1, ?_, ?_⟩
  · rw [(List.reverse_perm _).nodup_iff, hdrop]
    exact hnd'.2.1.sublist (List.drop_sublist _ _)
  · intro a ha b hb
    rw [List.mem_reverse, hdrop] at hb
    exact hnd'.2.2 a ha b (List.mem_of_mem_drop hb)

/-- merging disjoint pairs of plates of `ns`, the selection vectors `c` having been taken before the first merge -/
theorem tbFold_spec (c : Name → List Bool) : ∀ (prs : List (Name × Name)) (ns acc : List Name),
    ns.Nodup → (∀ z ∈ ns, z ∈ acc) → (prs.map (·.1) ++ prs.map (·.2)).Nodup →
    (∀ z ∈ prs.map (·.1) ++ prs.map (·.2), z ∈ ns ∧ c z = cls acc z) →
    ∃ ρ ns', prs.foldl (fun acc p => (mergeSel acc (c p.2) (c p.1)).1) acc = acc.map ρ ∧ Frame ns ns' ρ ∧ ns'.Nodup ∧
      ns'.length + prs.length = ns.length := by
  intro prs
  induction prs with
  | nil =>
    intro ns acc hnd hsub _ _
    exact ⟨id, ns, by simp, Frame.refl ns, hnd, rfl⟩
  | cons ab prs ih =>
    obtain ⟨a, b⟩ := ab
    intro ns acc hnd hsub hpn hc
    simp only [List.map_cons, List.cons_append] at hpn hc
    have hperm : (a :: (prs.map (·.1) ++ b :: prs.map (·.2))).Perm (a :: b :: (prs.map (·.1) ++ prs.map (·.2))) :=
      List.Perm.cons a List.perm_middle
    have hpn' := hperm.nodup_iff.mp hpn
    rw [List.nodup_cons, List.nodup_cons] at hpn'
    obtain ⟨ha_not, hb_not, hrest⟩ := hpn'
    have hab : a ≠ b := fun e => ha_not (e ▸ List.mem_cons_self)
    have ha_rest : a ∉ prs.map (·.1) ++ prs.map (·.2) := fun h => ha_not (List.mem_cons_of_mem _ h)
    obtain ⟨ha, hca⟩ := hc a List.mem_cons_self
    obtain ⟨hb, hcb⟩ := hc b (List.mem_cons_of_mem _ (List.mem_append_right _ List.mem_cons_self))
    have hc' : ∀ z ∈ prs.map (·.1) ++ prs.map (·.2), z ∈ ns ∧ c z = cls acc z := by
      intro z hz
      apply hc z
      rcases List.mem_append.mp hz with h | h
      · exact List.mem_cons_of_mem _ (List.mem_append_left _ h)
      · exact List.mem_cons_of_mem _ (List.mem_append_right _ (List.mem_cons_of_mem _ h))
    obtain ⟨hk, hkmem⟩ := mergeKey_spec (pn := acc) (x := a) (y := b) (Or.inl (hsub a ha))
    rw [List.foldl_cons]
    simp only []
    rw [hca, hcb, mergeSel_cls]
    generalize mergeKey acc a b = k at hk hkmem
    obtain ⟨ρ2, ns2, hfold, hframe, hnd2, hlen⟩ := ih (mergedNames ns a b k) (acc.map (rho a b k))
      (nodup_mergedNames hnd hk) (mem_map_of_frame_names hnd hsub ha hb hk) hrest (by
        intro z hz
        obtain ⟨hzn, hcz⟩ := hc' z hz
        have hza : z ≠ a := fun e => ha_rest (e ▸ hz)
        have hzb : z ≠ b := fun e => hb_not (e ▸ hz)
        refine ⟨(mem_mergedNames hnd).mpr (Or.inr ⟨hza, hzb, hzn⟩), ?_⟩
        rw [hcz, cls_rho_other acc hk hza hzb])
    refine ⟨ρ2 ∘ rho a b k, ns2, ?_, (frame_merge hnd ha hb hk).comp hframe, hnd2, ?_⟩
    · rw [hfold, List.map_map]
    · have := length_mergedNames (k := k) hnd ha hb hab
      simp only [List.length_cons]
      omega

/-- `m ↦ ⌈m / 2⌉` -/
def halve (n : Nat) : Nat := n - n / 2

theorem iterate_halve_le_one {m : Nat} (h : m ≤ 1) : ∀ n, Nat.iterate halve n m = m := by
  intro n
  induction n with
  | zero => rfl
  | succ n ih =>
    show Nat.iterate halve n (halve m) = m
    have : halve m = m := by unfold halve; omega
    rw [this, ih]

/-- one round of top/bottom merging on the plates of sample `x` -/
theorem tbStep_spec {sids : List Int} {pn : List Name} {x : Int} {r : Option (List Name)} (h : tbStep sids pn x = .ok r) :
    ∃ ns : List Name, ns.Nodup ∧ HasRows sids x ns pn ∧ SInv sids x ns pn ∧
      ((ns.length ≤ 1 ∧ r = none) ∨
       (1 < ns.length ∧ ∃ ρ ns', r = some (pn.map ρ) ∧ Frame ns ns' ρ ∧ ns'.Nodup ∧ ns'.length = halve ns.length)) := by
  unfold tbStep at h
  obtain ⟨plates, hplates, h⟩ := bind_ok h
  obtain ⟨ns, rfl, hnd, hrows, hs⟩ := platesOfSample_spec hplates
  refine ⟨ns, hnd, hrows, hs, ?_⟩
  rw [List.length_map] at h
  split at h
  · rename_i hle
    injection h with h
    exact Or.inl ⟨hle, h.symm⟩
  · rename_i hgt
    right
    refine ⟨by omega, ?_⟩
    injection h with h
    obtain ⟨ms, hms⟩ : ∃ ms, ms = ns.mergeSort (fun a b => decide (selSize (cls pn a) ≤ selSize (cls pn b))) := ⟨_, rfl⟩
    have hsort : (ns.map (cls pn)).mergeSort (fun a b => decide (selSize a ≤ selSize b)) = ms.map (cls pn) := by
      rw [hms]
      exact (List.map_mergeSort (r := fun a b => decide (selSize (cls pn a) ≤ selSize (cls pn b)))
        (s := fun a b => decide (selSize a ≤ selSize b)) (f := cls pn) (l := ns) (fun _ _ _ _ => rfl)).symm
    have hperm : ms.Perm ns := by rw [hms]; exact List.mergeSort_perm _ _
    have hlen : ms.length = ns.length := hperm.length_eq
    have hmnd : ms.Nodup := hperm.nodup_iff.mpr hnd
    rw [hsort, List.length_map, ← List.map_reverse, ← List.map_take, ← List.map_take, List.zip_map, List.foldl_map] at h
    have h2 : 2 * (ms.length / 2) ≤ ms.length := by omega
    have hl1 : (ms.take (ms.length / 2)).length = ms.length / 2 := by rw [List.length_take]; omega
    have hl2 : (ms.reverse.take (ms.length / 2)).length = ms.length / 2 := by
      rw [List.length_take, List.length_reverse]; omega
    have hfst : ((ms.take (ms.length / 2)).zip (ms.reverse.take (ms.length / 2))).map (·.1) = ms.take (ms.length / 2) :=
      List.map_fst_zip (by omega)
    have hsnd : ((ms.take (ms.length / 2)).zip (ms.reverse.take (ms.length / 2))).map (·.2) = ms.reverse.take (ms.length / 2) :=
      List.map_snd_zip (by omega)
    obtain ⟨ρ, ns', hfold, hframe, hnd', hlen'⟩ := tbFold_spec (cls pn)
      ((ms.take (ms.length / 2)).zip (ms.reverse.take (ms.length / 2))) ns pn hnd (HasRows.mem hrows)
      (by rw [hfst, hsnd]; exact nodup_take_reverse_take hmnd h2)
      (by
        rw [hfst, hsnd]
        intro z hz
        refine ⟨hperm.mem_iff.mp ?_, rfl⟩
        rcases List.mem_append.mp hz with hz | hz
        · exact List.mem_of_mem_take hz
        · exact List.mem_reverse.mp (List.mem_of_mem_take hz))
    refine ⟨ρ, ns', ?_, hframe, hnd', ?_⟩
    · rw [← h, ← hfold]; rfl
    · rw [List.length_zip, hl1, hl2, Nat.min_self, hlen] at hlen'
      unfold halve
      omega

/-! ### the number of plates of a sample -/

/-- the plate names on the rows of sample `x` -/
def platesOn (sids : List Int) (pn : List Name) (x : Int) : List Name := ((pn.zip sids).filter (·.2 == x)).map (·.1)

/-- the number of plates of sample `x` -/
def nPlates (sids : List Int) (pn : List Name) (x : Int) : Nat := (platesOn sids pn x).eraseDups.length

theorem mem_platesOn {sids : List Int} {pn : List Name} {x : Int} {z : Name} :
    z ∈ platesOn sids pn x ↔ (z, x) ∈ pn.zip sids := by
  unfold platesOn
  rw [List.mem_map]
  constructor
  · rintro ⟨⟨p, s⟩, h1, rfl⟩
    rw [List.mem_filter] at h1
    have : s = x := by simpa using h1.2
    exact this ▸ h1.1
  · intro h
    exact ⟨(z, x), List.mem_filter.mpr ⟨h, by simp⟩, rfl⟩

theorem nPlates_eq {sids : List Int} {pn ns : List Name} {x : Int} (hnd : ns.Nodup) (hrows : HasRows sids x ns pn)
    (hs : SInv sids x ns pn) : nPlates sids pn x = ns.length := by
  unfold nPlates
  apply List.Perm.length_eq
  rw [List.perm_ext_iff_of_nodup (nodup_eraseDups _) hnd]
  intro z
  rw [List.mem_eraseDups, mem_platesOn]
  exact ⟨fun h => (hs z x h).mpr rfl, hrows z⟩

theorem platesOn_frame {sids : List Int} {pn ns ns' : List Name} {ρ : Name → Name} {x x' : Int}
    (hs : SInv sids x ns pn) (hf : Frame ns ns' ρ) (hx : x' ≠ x) : platesOn sids (pn.map ρ) x' = platesOn sids pn x' := by
  unfold platesOn
  rw [List.zip_map_left, List.filter_map, List.map_map]
  have e : ((fun a : Name × Int => a.2 == x') ∘ Prod.map ρ id) = fun a => a.2 == x' := by
    funext a; simp [Prod.map]
  rw [e]
  apply List.map_congr_left
  intro a ha
  obtain ⟨p, s⟩ := a
  rw [List.mem_filter] at ha
  have hsx : s = x' := by simpa using ha.2
  have hp : p ∉ ns := fun h => hx (hsx ▸ (hs p s ha.1).mp h)
  simp only [Function.comp, Prod.map]
  exact hf.fix p hp

/-- a renaming that only identifies plates of the same sample -/
structure CoRel (sids : List Int) (pn pn' : List Name) (ρ : Name → Name) : Prop where
  map : pn' = pn.map ρ
  samp : ∀ p s q t, (p, s) ∈ pn.zip sids → (q, t) ∈ pn.zip sids → ρ p = ρ q → p = q ∨ s = t

theorem CoRel.refl (sids : List Int) (pn : List Name) : CoRel sids pn pn id :=
  ⟨by simp, fun _ _ _ _ _ _ h => Or.inl h⟩

theorem CoRel.comp {sids : List Int} {pn pn1 pn2 : List Name} {ρ1 ρ2 : Name → Name}
    (h1 : CoRel sids pn pn1 ρ1) (h2 : CoRel sids pn1 pn2 ρ2) : CoRel sids pn pn2 (ρ2 ∘ ρ1) where
  map := by rw [h2.map, h1.map, List.map_map]
  samp p s q t hp hq h := by
    have hp1 : (ρ1 p, s) ∈ pn1.zip sids := by rw [h1.map]; exact mem_zip_map_left.mpr ⟨p, hp, rfl⟩
    have hq1 : (ρ1 q, t) ∈ pn1.zip sids := by rw [h1.map]; exact mem_zip_map_left.mpr ⟨q, hq, rfl⟩
    rcases h2.samp _ _ _ _ hp1 hq1 h with e | e
    · exact h1.samp p s q t hp hq e
    · exact Or.inr e

theorem CoRel.of_frame {sids : List Int} {pn ns ns' : List Name} {ρ : Name → Name} {x : Int}
    (hs : SInv sids x ns pn) (hf : Frame ns ns' ρ) : CoRel sids pn (pn.map ρ) ρ := by
  refine ⟨rfl, ?_⟩
  intro p s q t hp hq e
  by_cases hpn : p ∈ ns <;> by_cases hqn : q ∈ ns
  · right; rw [(hs p s hp).mp hpn, (hs q t hq).mp hqn]
  · exfalso; rw [hf.fix q hqn] at e
    exact hqn (e ▸ hf.sub _ (hf.into p hpn))
  · exfalso; rw [hf.fix p hpn] at e
    exact hpn (e ▸ hf.sub _ (hf.into q hqn))
  · left; rw [hf.fix p hpn, hf.fix q hqn] at e; exact e

/-! ### iterations and samples -/

theorem tbIter_spec (sids : List Int) (x : Int) : ∀ (n : Nat) (pn pn' : List Name), tbIter sids x n pn = .ok pn' →
    ∃ ρ, CoRel sids pn pn' ρ ∧ nPlates sids pn' x = halve^[n] (nPlates sids pn x) ∧
      ∀ x', x' ≠ x → nPlates sids pn' x' = nPlates sids pn x' := by
  intro n
  induction n with
  | zero =>
    intro pn pn' h
    unfold tbIter at h
    injection h with h; subst h
    exact ⟨id, CoRel.refl _ _, rfl, fun _ _ => rfl⟩
  | succ n ih =>
    intro pn pn' h
    unfold tbIter at h
    obtain ⟨r, hr, h⟩ := bind_ok h
    obtain ⟨ns, hnd, hrows, hs, hcase⟩ := tbStep_spec hr
    rcases hcase with ⟨hle, rfl⟩ | ⟨_, ρ1, ns1, rfl, hframe, hnd1, hlen1⟩
    · simp only [] at h
      injection h with h; subst h
      refine ⟨id, CoRel.refl _ _, ?_, fun _ _ => rfl⟩
      rw [nPlates_eq hnd hrows hs, iterate_halve_le_one hle]
    · simp only [] at h
      obtain ⟨ρ2, rel2, hx2, hother2⟩ := ih _ _ h
      refine ⟨ρ2 ∘ ρ1, (CoRel.of_frame hs hframe).comp rel2, ?_, ?_⟩
      · rw [hx2, nPlates_eq hnd1 (hrows.frame hframe) (hs.frame hframe), hlen1, nPlates_eq hnd hrows hs]
        rfl
      · intro x' hx'
        rw [hother2 x' hx']
        unfold nPlates
        rw [platesOn_frame hs hframe hx']

theorem tbSamples_spec (sids : List Int) (n : Nat) : ∀ (xs : List Int) (pn pn' : List Name), xs.Nodup →
    tbSamples sids n xs pn = .ok pn' →
    ∃ ρ, CoRel sids pn pn' ρ ∧ (∀ x ∈ xs, nPlates sids pn' x = halve^[n] (nPlates sids pn x)) ∧
      ∀ x, x ∉ xs → nPlates sids pn' x = nPlates sids pn x := by
  intro xs
  induction xs with
  | nil =>
    intro pn pn' _ h
    unfold tbSamples at h
    injection h with h; subst h
    exact ⟨id, CoRel.refl _ _, by simp, fun _ _ => rfl⟩
  | cons x xs ih =>
    intro pn pn' hnd h
    unfold tbSamples at h
    obtain ⟨pn1, h1, h⟩ := bind_ok h
    rw [List.nodup_cons] at hnd
    obtain ⟨ρ1, rel1, hx1, hother1⟩ := tbIter_spec sids x n pn pn1 h1
    obtain ⟨ρ2, rel2, hin2, hout2⟩ := ih pn1 pn' hnd.2 h
    refine ⟨ρ2 ∘ ρ1, rel1.comp rel2, ?_, ?_⟩
    · intro y hy
      rcases List.mem_cons.mp hy with rfl | hy
      · rw [hout2 y hnd.1, hx1]
      · rw [hin2 y hy, hother1 y (fun e => hnd.1 (e ▸ hy))]
    · intro y hy
      rw [List.mem_cons, not_or] at hy
      rw [hout2 y hy.2, hother1 y hy.1]

theorem tbSamples_rel (sids : List Int) (n : Nat) : ∀ (xs : List Int) (pn pn' : List Name),
    tbSamples sids n xs pn = .ok pn' → ∃ ρ, CoRel sids pn pn' ρ := by
  intro xs
  induction xs with
  | nil =>
    intro pn pn' h
    unfold tbSamples at h
    injection h with h; subst h
    exact ⟨id, CoRel.refl _ _⟩
  | cons x xs ih =>
    intro pn pn' h
    unfold tbSamples at h
    obtain ⟨pn1, h1, h⟩ := bind_ok h
    obtain ⟨ρ1, rel1, _⟩ := tbIter_spec sids x n pn pn1 h1
    obtain ⟨ρ2, rel2⟩ := ih pn1 pn' h
    exact ⟨ρ2 ∘ ρ1, rel1.comp rel2⟩

/-! ### the statements of P1, P2, P4 for `tbSamples` -/

/-- (P1) only the labels change -/
theorem tbSamples_length {sids : List Int} {n : Nat} {xs : List Int} {pn pn' : List Name}
    (h : tbSamples sids n xs pn = .ok pn') : pn'.length = pn.length := by
  obtain ⟨ρ, rel⟩ := tbSamples_rel sids n xs pn pn' h
  rw [rel.map, List.length_map]

/-- (P2) the merges coarsen the plate partition, and only within a sample -/
theorem tbSamples_coarsen {sids : List Int} {n : Nat} {xs : List Int} {pn pn' : List Name}
    (h : tbSamples sids n xs pn = .ok pn') :
    ∃ ρ : Name → Name, pn' = pn.map ρ ∧
      ∀ p s q t, (p, s) ∈ pn.zip sids → (q, t) ∈ pn.zip sids → ρ p = ρ q → p = q ∨ s = t := by
  obtain ⟨ρ, rel⟩ := tbSamples_rel sids n xs pn pn' h
  exact ⟨ρ, rel.map, rel.samp⟩

/-- (P4) MergeTopBottom halves (rounding up) the number of plates of every processed sample, `n` times -/
theorem tbSamples_halves {sids : List Int} {n : Nat} {xs : List Int} {pn pn' : List Name} (hnd : xs.Nodup)
    (h : tbSamples sids n xs pn = .ok pn') :
    (∀ x ∈ xs, (((List.zip pn' sids).filter (·.2 == x)).map (·.1)).eraseDups.length
        = halve^[n] (((List.zip pn sids).filter (·.2 == x)).map (·.1)).eraseDups.length) ∧
    (∀ x, x ∉ xs → (((List.zip pn' sids).filter (·.2 == x)).map (·.1)).eraseDups.length
        = (((List.zip pn sids).filter (·.2 == x)).map (·.1)).eraseDups.length) := by
  obtain ⟨ρ, _, hin, hout⟩ := tbSamples_spec sids n xs pn pn' hnd h
  exact ⟨hin, hout⟩

/-! ### the screens: only `plate_names` (and the plate ids) change -/

theorem rowsOf_setPlates_aux (Z : List ((((Name × List Name) × List Dose) × Nat))) :
    ∀ (P P' : List Name) (M : List Bool), P.length = P'.length →
      ((Z.zip P').zip M).map mkRow = setPlates (((Z.zip P).zip M).map mkRow) P' := by
  induction Z with
  | nil => intro P P' M _; simp [setPlates]
  | cons z Z ih =>
    intro P P' M hlen
    cases P with
    | nil =>
      cases P' with
      | nil => simp [setPlates]
      | cons p' P' => simp at hlen
    | cons p P =>
      cases P' with
      | nil => simp at hlen
      | cons p' P' =>
        cases M with
        | nil => simp [setPlates]
        | cons m M =>
          have hlen' : P.length = P'.length := by simpa using hlen
          have := ih P P' M hlen'
          simp only [setPlates] at this
          simp only [List.zip_cons_cons, List.map_cons, setPlates, List.zipWith_cons_cons, this]
          simp [mkRow]

theorem relabel_spec {u nu : Screen} {pn : List Name} (h : relabel u pn = .ok nu) (hlen : pn.length = u.pnames.length) :
    rowsOf nu = setPlates (rowsOf u) nu.pnames ∧ nu.pnames = pn ∧ nu.sids = u.sids ∧ nu.snames = u.snames ∧
      nu.mask = u.mask ∧ nu.obs = u.obs ∧ nu.tnames = u.tnames ∧ nu.tdoses = u.tdoses ∧ nu.tids = u.tids ∧
      nu.ctrl = u.ctrl ∧ nu.arity = u.arity := by
  unfold relabel at h
  obtain ⟨ids, _, h⟩ := bind_ok h
  injection h with h
  subst h
  refine ⟨?_, rfl, rfl, rfl, rfl, rfl, rfl, rfl, rfl, rfl, rfl⟩
  unfold rowsOf
  exact rowsOf_setPlates_aux _ u.pnames pn u.mask hlen.symm

/-- `mergeMin` runs `mmSamples` over all samples on the name column; the result is the new name column -/
theorem mergeMin_pnames {limit : Int} {pops : List Nat} {u nu : Screen} (h : mergeMin limit pops u = .ok nu) :
    mmSamples u.sids limit (uniqueSorted u.sids) pops u.pnames = .ok nu.pnames := by
  unfold mergeMin at h
  obtain ⟨pn, h1, h⟩ := bind_ok h
  rw [h1, (relabel_spec h (mmSamples_length h1)).2.1]

/-- `mergeTopBottom` runs `tbSamples` over all samples on the name column; the result is the new name column -/
theorem mergeTopBottom_pnames {nIter : Int} {u nu : Screen} (h : mergeTopBottom nIter u = .ok nu) :
    tbSamples u.sids nIter.toNat (uniqueSorted u.sids) u.pnames = .ok nu.pnames := by
  unfold mergeTopBottom at h
  obtain ⟨pn, h1, h⟩ := bind_ok h
  rw [h1, (relabel_spec h (tbSamples_length h1)).2.1]

/-- (P1) MergeMin only relabels plates -/
theorem mergeMin_relabels {limit : Int} {pops : List Nat} {u nu : Screen} (h : mergeMin limit pops u = .ok nu) :
    rowsOf nu = setPlates (rowsOf u) nu.pnames ∧ nu.pnames.length = u.pnames.length ∧ nu.sids = u.sids ∧
      nu.snames = u.snames ∧ nu.mask = u.mask ∧ nu.obs = u.obs ∧ nu.tnames = u.tnames ∧ nu.tdoses = u.tdoses ∧
      nu.tids = u.tids ∧ nu.ctrl = u.ctrl ∧ nu.arity = u.arity := by
  have hp := mergeMin_pnames h
  unfold mergeMin at h
  obtain ⟨pn, h1, h⟩ := bind_ok h
  obtain ⟨e1, e2, e3⟩ := relabel_spec h (mmSamples_length h1)
  exact ⟨e1, mmSamples_length hp, e3⟩

/-- (P1) MergeTopBottom only relabels plates -/
theorem mergeTopBottom_relabels {nIter : Int} {u nu : Screen} (h : mergeTopBottom nIter u = .ok nu) :
    rowsOf nu = setPlates (rowsOf u) nu.pnames ∧ nu.pnames.length = u.pnames.length ∧ nu.sids = u.sids ∧
      nu.snames = u.snames ∧ nu.mask = u.mask ∧ nu.obs = u.obs ∧ nu.tnames = u.tnames ∧ nu.tdoses = u.tdoses ∧
      nu.tids = u.tids ∧ nu.ctrl = u.ctrl ∧ nu.arity = u.arity := by
  have hp := mergeTopBottom_pnames h
  unfold mergeTopBottom at h
  obtain ⟨pn, h1, h⟩ := bind_ok h
  obtain ⟨e1, e2, e3⟩ := relabel_spec h (tbSamples_length h1)
  exact ⟨e1, tbSamples_length hp, e3⟩

/-- the new plate ids are the fresh encoding of the new names -/
theorem relabel_pids {u nu : Screen} {pn : List Name} (h : relabel u pn = .ok nu) :
    nu.pids = nu.pnames.map (sId (freshSMap nu.pnames)) := by
  unfold relabel at h
  obtain ⟨ids, h1, h⟩ := bind_ok h
  injection h with h
  subst h
  rw [encIds_eq] at h1
  injection h1 with h1
  exact h1.symm

/-! ### screen-level corollaries of P2-P4 -/

/-- (P2) for `mergeMin` -/
theorem mergeMin_coarsen {limit : Int} {pops : List Nat} {u nu : Screen} (h : mergeMin limit pops u = .ok nu) :
    ∃ ρ : Name → Name, nu.pnames = u.pnames.map ρ ∧
      ∀ p s q t, (p, s) ∈ u.pnames.zip u.sids → (q, t) ∈ u.pnames.zip u.sids → ρ p = ρ q → p = q ∨ s = t :=
  mmSamples_coarsen (mergeMin_pnames h)

/-- (P2) for `mergeTopBottom` -/
theorem mergeTopBottom_coarsen {nIter : Int} {u nu : Screen} (h : mergeTopBottom nIter u = .ok nu) :
    ∃ ρ : Name → Name, nu.pnames = u.pnames.map ρ ∧
      ∀ p s q t, (p, s) ∈ u.pnames.zip u.sids → (q, t) ∈ u.pnames.zip u.sids → ρ p = ρ q → p = q ∨ s = t :=
  tbSamples_coarsen (mergeTopBottom_pnames h)

/-- (P3a) for `mergeMin` -/
theorem mergeMin_stops {limit : Int} {pops : List Nat} {u nu : Screen} (h : mergeMin limit pops u = .ok nu) :
    ∀ p s q t, (p, s) ∈ nu.pnames.zip nu.sids → (q, t) ∈ nu.pnames.zip nu.sids → s = t → p ≠ q →
      limit < ((nu.pnames.filter (· == p)).length + (nu.pnames.filter (· == q)).length : Int) := by
  rw [(mergeMin_relabels h).2.2.1]
  exact mmSamples_stops (mergeMin_pnames h)

/-- (P3b) for `mergeMin` -/
theorem mergeMin_within {limit : Int} {pops : List Nat} {u nu : Screen} (h : mergeMin limit pops u = .ok nu) :
    ∀ p p' q q', (p, p') ∈ u.pnames.zip nu.pnames → (q, q') ∈ u.pnames.zip nu.pnames → p' = q' → p ≠ q →
      ((nu.pnames.filter (· == p')).length : Int) ≤ limit :=
  mmSamples_within (mergeMin_pnames h)

/-- (P4) for `mergeTopBottom`: every sample's number of plates is halved (rounding up) `nIter` times -/
theorem mergeTopBottom_halves {nIter : Int} {u nu : Screen} (h : mergeTopBottom nIter u = .ok nu) :
    ∀ x ∈ u.sids, (((List.zip nu.pnames nu.sids).filter (·.2 == x)).map (·.1)).eraseDups.length
        = halve^[nIter.toNat] (((List.zip u.pnames u.sids).filter (·.2 == x)).map (·.1)).eraseDups.length := by
  rw [(mergeTopBottom_relabels h).2.2.1]
  intro x hx
  exact (tbSamples_halves (nodup_uniqueSorted u.sids) (mergeTopBottom_pnames h)).1 x (mem_uniqueSorted.mpr hx)

end Batchie.Prep
