/-
  C09, non-mutation of the whole prediction path in the buffer model of `Model/Predict.lean`.

  numpy facts modelled (not verified): integer-array indexing `arr[ids]` ALLOCATES a new buffer; the
  masked assignment `results[mask] = 0` writes into the buffer it is applied to; element-wise
  arithmetic and `np.sum` allocate their results.  The array operations of `predict`,
  `predict_single_drug` and the interaction sample that touch a table of the posterior sample are
  exactly: plain gathers `W[sample_ids]`, `W0[sample_ids]` and
  `copy_array_with_control_treatments_set_to_zero(V, column)`.  A sequence of such operations, each
  reading a buffer that existed before the sequence started, leaves every such buffer unchanged and
  puts into the new buffers exactly what the functional model (`gather?`, `gatherCopyZero`) computes.
-/
import Batchie.Lemmas.PredictRowwise

namespace Batchie.Predict

/-- one table-reading operation of the prediction path -/
inductive GOp where
  | gather (src : Nat) (ts : List Int)     -- `arr[ts]`
  | gcz (src : Nat) (ts : List Int)        -- `copy_array_with_control_treatments_set_to_zero(arr, ts)`

def GOp.src : GOp → Nat
  | .gather s _ => s
  | .gcz s _ => s

/-- what the functional model computes for the operation on table `arr` -/
def GOp.pure {β : Type} (zero : β → β) (arr : List β) : GOp → Option (List β)
  | .gather _ ts => gather? arr ts
  | .gcz _ ts => gatherCopyZero zero arr ts

/-- `arr[ts]` in memory: allocate the gathered copy -/
def gatherMem {β : Type} (m : Mem β) (src : Nat) (ts : List Int) : Option (Mem β × Nat) :=
  (gather? (m.read src) ts).map (fun res => m.alloc res)

/-- the operation in memory (the code): returns the new memory and the id of the result buffer -/
def GOp.run {β : Type} (zero : β → β) (m : Mem β) : GOp → Option (Mem β × Nat)
  | .gather s ts => gatherMem m s ts
  | .gcz s ts => gczMem zero m s ts

/-- a sequence of operations, in order; returns the result buffer ids -/
def runOps {β : Type} (zero : β → β) : Mem β → List GOp → Option (Mem β × List Nat)
  | m, [] => some (m, [])
  | m, op :: ops =>
    match op.run zero m with
    | none => none
    | some (m1, id) =>
      match runOps zero m1 ops with
      | none => none
      | some (m2, ids) => some (m2, id :: ids)

theorem set_append_length {β : Type} (l : List β) (a b : β) : (l ++ [a]).set l.length b = l ++ [b] := by
  induction l with
  | nil => rfl
  | cons x l ih => simp [ih]

theorem getD_append_length {β : Type} (l : List (List β)) (a : List β) : (l ++ [a]).getD l.length [] = a := by
  simp [List.getD_eq_getElem?_getD]

/-- one operation appends exactly one buffer -- the functional result -- and writes nowhere else -/
theorem GOp.run_spec {β : Type} (zero : β → β) (m m1 : Mem β) (op : GOp) (id : Nat)
    (h : op.run zero m = some (m1, id)) :
    id = m.bufs.length ∧ ∃ res, op.pure zero (m.read op.src) = some res ∧ m1.bufs = m.bufs ++ [res] := by
  cases op with
  | gather s ts =>
    simp only [GOp.run, gatherMem] at h
    cases hg : gather? (m.read s) ts with
    | none => simp [hg] at h
    | some res =>
      simp only [hg, Option.map_some, Mem.alloc, Option.some.injEq, Prod.mk.injEq] at h
      obtain ⟨hm, hid⟩ := h
      subst hm
      exact ⟨hid.symm, res, by simp [GOp.pure, GOp.src, hg], rfl⟩
  | gcz s ts =>
    simp only [GOp.run, gczMem] at h
    cases hg : gather? (m.read s) ts with
    | none => simp [hg] at h
    | some res =>
      simp only [hg, Mem.alloc, Option.some.injEq, Prod.mk.injEq] at h
      obtain ⟨hm, hid⟩ := h
      subst hm
      refine ⟨hid.symm, maskedZero zero res ts, by simp [GOp.pure, GOp.src, gatherCopyZero, hg], ?_⟩
      simp only [Mem.maskedZeroAt, Mem.read, getD_append_length, set_append_length]

theorem read_append_left {β : Type} (bufs extra : List (List β)) (i : Nat) (hi : i < bufs.length) :
    (Mem.mk (bufs ++ extra)).read i = (Mem.mk bufs).read i := by
  simp [Mem.read, List.getD_eq_getElem?_getD, List.getElem?_append_left hi]

/-- The sequence: only new buffers are appended (one per operation, in order); when every operation
    reads a buffer that existed at the start, the i-th new buffer holds the functional result of the
    i-th operation on the ORIGINAL content of its table. -/
theorem runOps_spec {β : Type} (zero : β → β) (ops : List GOp) (m m' : Mem β) (ids : List Nat)
    (hsrc : ∀ op ∈ ops, op.src < m.bufs.length) (h : runOps zero m ops = some (m', ids)) :
    ∃ results : List (List β),
      m'.bufs = m.bufs ++ results
      ∧ ids = (List.range ops.length).map (fun k => m.bufs.length + k)
      ∧ ops.map (fun op => op.pure zero (m.read op.src)) = results.map some := by
  induction ops generalizing m m' ids with
  | nil =>
    simp only [runOps, Option.some.injEq, Prod.mk.injEq] at h
    obtain ⟨hm, hid⟩ := h
    subst hm; subst hid
    exact ⟨[], by simp, by simp, by simp⟩
  | cons op ops ih =>
    simp only [runOps] at h
    cases h1 : op.run zero m with
    | none => simp [h1] at h
    | some p =>
      obtain ⟨m1, id⟩ := p
      simp only [h1] at h
      cases h2 : runOps zero m1 ops with
      | none => simp [h2] at h
      | some q =>
        obtain ⟨m2, ids2⟩ := q
        simp only [h2, Option.some.injEq, Prod.mk.injEq] at h
        obtain ⟨hm, hid⟩ := h
        subst hm; subst hid
        obtain ⟨hid1, res, hres, hb1⟩ := GOp.run_spec zero m m1 op id h1
        have hlen1 : m1.bufs.length = m.bufs.length + 1 := by simp [hb1]
        have hsrc1 : ∀ o ∈ ops, o.src < m1.bufs.length := by
          intro o ho
          have := hsrc o (by simp [ho])
          omega
        obtain ⟨results, hb2, hids2, hpure⟩ := ih m1 m2 ids2 hsrc1 h2
        refine ⟨res :: results, ?_, ?_, ?_⟩
        · rw [hb2, hb1]; simp
        · rw [hids2, hid1, hlen1]
          simp only [List.length_cons, List.range_succ_eq_map, List.map_cons, List.map_map]
          refine List.cons_eq_cons.mpr ⟨by simp, ?_⟩
          apply List.map_congr_left
          intro k _
          simp only [Function.comp]
          omega
        · simp only [List.map_cons]
          refine List.cons_eq_cons.mpr ⟨hres, ?_⟩
          rw [← hpure]
          apply List.map_congr_left
          intro o ho
          have hlt := hsrc o (by simp [ho])
          have : m1.read o.src = m.read o.src := by
            have := read_append_left m.bufs [res] o.src hlt
            rw [← hb1] at this
            exact this
          rw [this]

/-- consequence: every buffer that existed before the sequence is unchanged after it -/
theorem runOps_preserves {β : Type} (zero : β → β) (ops : List GOp) (m m' : Mem β) (ids : List Nat)
    (hsrc : ∀ op ∈ ops, op.src < m.bufs.length) (h : runOps zero m ops = some (m', ids)) :
    ∀ i, i < m.bufs.length → m'.read i = m.read i := by
  obtain ⟨results, hb, _, _⟩ := runOps_spec zero ops m m' ids hsrc h
  intro i hi
  have := read_append_left m.bufs results i hi
  rw [← hb] at this
  exact this

/-- ... and the result buffers, read back after the WHOLE sequence, hold the functional results -/
theorem runOps_results {β : Type} (zero : β → β) (ops : List GOp) (m m' : Mem β) (ids : List Nat)
    (hsrc : ∀ op ∈ ops, op.src < m.bufs.length) (h : runOps zero m ops = some (m', ids)) :
    (ids.map m'.read).map some = ops.map (fun op => op.pure zero (m.read op.src)) := by
  obtain ⟨results, hb, hids, hpure⟩ := runOps_spec zero ops m m' ids hsrc h
  have hlen : results.length = ops.length := by
    have := congrArg List.length hpure
    simpa using this.symm
  rw [hpure]
  congr 1
  rw [hids]
  apply List.ext_getElem
  · simp [hlen]
  · intro k h1 h2
    have hk : k < results.length := h2
    simp only [List.getElem_map, List.getElem_range, Mem.read, hb, List.getD_eq_getElem?_getD]
    rw [List.getElem?_append_right (by omega)]
    simp [hk]

end Batchie.Predict
