/-
  C07, part 4: `MSEDistance.distance` over the reals (rounding is not modelled; DESIGN 6.3).
-/
import Batchie.Model.Chunks
import Mathlib.Data.Real.Basic
import Mathlib.Tactic.Ring
import Mathlib.Tactic.Linarith

namespace Batchie.Chunks

theorem foldl_add_nonneg (l : List ℝ) (init : ℝ) (h : ∀ x ∈ l, 0 ≤ x) (hi : 0 ≤ init) :
    0 ≤ l.foldl (· + ·) init := by
  induction l generalizing init with
  | nil => simpa using hi
  | cons x l ih =>
    rw [List.foldl_cons]
    exact ih _ (fun y hy => h y (by simp [hy])) (by have := h x (by simp); linarith)

theorem foldl_add_zero (l : List ℝ) (h : ∀ x ∈ l, x = 0) : l.foldl (· + ·) 0 = 0 := by
  induction l with
  | nil => rfl
  | cons x l ih =>
    rw [List.foldl_cons, h x (by simp)]
    simpa using ih (fun y hy => h y (by simp [hy]))

theorem mem_zipWith_sq_nonneg (f : ℝ → ℝ) (a b : List ℝ) :
    ∀ x ∈ List.zipWith (fun x y => (f x - f y) * (f x - f y)) a b, 0 ≤ x := by
  induction a generalizing b with
  | nil => simp
  | cons u a ih =>
    cases b with
    | nil => simp
    | cons v b =>
      intro x hx
      simp only [List.zipWith_cons_cons, List.mem_cons] at hx
      rcases hx with rfl | hx
      · exact mul_self_nonneg _
      · exact ih b x hx

theorem mem_zipWith_self_zero (f : ℝ → ℝ) (a : List ℝ) :
    ∀ x ∈ List.zipWith (fun x y => (f x - f y) * (f x - f y)) a a, x = 0 := by
  induction a with
  | nil => simp
  | cons u a ih =>
    intro x hx
    simp only [List.zipWith_cons_cons, List.mem_cons] at hx
    rcases hx with rfl | hx
    · ring
    · exact ih x hx

theorem mseDist_symm (f : ℝ → ℝ) (a b : List ℝ) :
    mseDist (fun n => (n : ℝ)) f a b = mseDist (fun n => (n : ℝ)) f b a := by
  unfold mseDist
  have : List.zipWith (fun x y => (f x - f y) * (f x - f y)) a b
       = List.zipWith (fun x y => (f x - f y) * (f x - f y)) b a := by
    rw [List.zipWith_comm]
    congr 1
    funext x y; ring
  simp only [this]

theorem mseDist_nonneg (f : ℝ → ℝ) (a b : List ℝ) : 0 ≤ mseDist (fun n => (n : ℝ)) f a b := by
  unfold mseDist
  simp only
  apply div_nonneg
  · exact foldl_add_nonneg _ _ (mem_zipWith_sq_nonneg f a b) (le_refl _)
  · exact Nat.cast_nonneg _

theorem mseDist_self (f : ℝ → ℝ) (a : List ℝ) : mseDist (fun n => (n : ℝ)) f a a = 0 := by
  unfold mseDist
  simp only
  rw [foldl_add_zero _ (mem_zipWith_self_zero f a)]
  simp

end Batchie.Chunks
