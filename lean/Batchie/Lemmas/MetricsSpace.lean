/-
  Helper lemmas for C20: `itertools.combinations` (`Batchie.Metrics.combos`) and `combination_count`.
-/
import Batchie.Model.Metrics
import Mathlib.Data.Nat.Choose.Basic
import Mathlib.Data.List.Nodup

namespace Batchie.Metrics

theorem combos_zero {β : Type} (xs : List β) : combos 0 xs = [[]] := by cases xs <;> rfl

theorem mem_combos {β : Type} (k : Nat) (xs l : List β) : l ∈ combos k xs ↔ l.Sublist xs ∧ l.length = k := by
  induction xs generalizing k l with
  | nil =>
    cases k with
    | zero => simp [combos]
    | succ k =>
      simp only [combos, List.not_mem_nil, false_iff, not_and]
      intro h; rw [List.sublist_nil.mp h]; simp
  | cons x xs ih =>
    cases k with
    | zero =>
      rw [combos_zero]
      simp only [List.mem_singleton]
      constructor
      · rintro rfl; exact ⟨List.nil_sublist _, rfl⟩
      · rintro ⟨_, h⟩; exact List.length_eq_zero_iff.mp h
    | succ k =>
      simp only [combos, List.mem_append, List.mem_map, ih, List.sublist_cons_iff]
      constructor
      · rintro (⟨l', ⟨hs, hl⟩, rfl⟩ | ⟨hs, hl⟩)
        · exact ⟨Or.inr ⟨l', rfl, hs⟩, by simp [hl]⟩
        · exact ⟨Or.inl hs, hl⟩
      · rintro ⟨hs | ⟨r, rfl, hs⟩, hl⟩
        · exact Or.inr ⟨hs, hl⟩
        · exact Or.inl ⟨r, ⟨hs, by simpa using hl⟩, rfl⟩

theorem length_combos {β : Type} (k : Nat) (xs : List β) : (combos k xs).length = Nat.choose xs.length k := by
  induction xs generalizing k with
  | nil => cases k <;> simp [combos]
  | cons x xs ih =>
    cases k with
    | zero => simp [combos_zero]
    | succ k => simp [combos, ih, Nat.choose_succ_succ]

theorem nodup_combos {β : Type} (k : Nat) (xs : List β) (h : xs.Nodup) : (combos k xs).Nodup := by
  induction xs generalizing k with
  | nil => cases k <;> simp [combos]
  | cons x xs ih =>
    cases k with
    | zero => simp [combos_zero]
    | succ k =>
      have hx := (List.nodup_cons.mp h)
      simp only [combos]
      apply List.Nodup.append
      · exact (ih k hx.2).map (fun a b hab => by simpa using hab)
      · exact ih (k + 1) hx.2
      · intro l h1 h2
        obtain ⟨l', _, rfl⟩ := List.mem_map.mp h1
        have := ((mem_combos (k + 1) xs (x :: l')).mp h2).1
        exact hx.1 (this.subset (by simp))

/-- the encoding commutes with the enumeration: combinations of the id column are the id rows of
    the combinations of the mapping rows -/
theorem combos_map {β γ : Type} (f : β → γ) (k : Nat) (xs : List β) :
    combos k (xs.map f) = (combos k xs).map (List.map f) := by
  induction xs generalizing k with
  | nil => cases k <;> simp [combos]
  | cons x xs ih =>
    cases k with
    | zero => simp [combos_zero]
    | succ k => simp [combos, ih, List.map_map, Function.comp_def]

theorem factorial_eq (n : Nat) : factorial n = n.factorial := by
  induction n with
  | zero => rfl
  | succ n ih => simp [factorial, ih, Nat.factorial_succ]

theorem combinationCount_eq (n k : Nat) (h : k ≤ n) : combinationCount n k = .ok (Nat.choose n k) := by
  simp only [combinationCount, if_neg (Nat.not_lt.mpr h), factorial_eq]
  rw [Nat.choose_eq_factorial_div_factorial h]

end Batchie.Metrics
