/-
  Helper lemmas for C04: boolean-mask indexing only reads the selected positions; the observed
  view of a screen is the list of its observed rows; scoring functions factor through `ScreenShape`.
-/
import Batchie.Model.Train
import Batchie.Lemmas.Scores

namespace Batchie.Lemmas.Train
open Batchie.Proto Batchie.Screen Batchie.Scores Batchie.Train Batchie.Lemmas.Scores

/-- two screens that differ at most in the observation values stored behind the mask -/
structure AgreeOffMask (s s' : Screen) : Prop where
  shape : shape s = shape s'
  len : s.obs.length = s'.obs.length
  obs : ∀ i : Nat, s.mask[i]? = some true → s.obs[i]? = s'.obs[i]?

/-- the observed experiments of a screen, in row order -/
def observedRows (s : Screen) : List Row := (screenRows s).filter (·.mask)

theorem maskFilter_zipWith_agree {α β γ : Type} (f : α → β → γ) (a a' : List α) (b : List β) (m : List Bool)
    (hlen : a.length = a'.length) (h : ∀ i : Nat, m[i]? = some true → a[i]? = a'[i]?) :
    maskFilter (List.zipWith f a b) m = maskFilter (List.zipWith f a' b) m := by
  induction m generalizing a a' b with
  | nil => cases a <;> cases a' <;> cases b <;> simp [maskFilter]
  | cons x m ih =>
    cases a with
    | nil => cases a' with
      | nil => rfl
      | cons _ _ => simp at hlen
    | cons p as =>
      cases a' with
      | nil => simp at hlen
      | cons p' as' =>
        cases b with
        | nil => simp [maskFilter]
        | cons q bs =>
          simp only [List.length_cons, Nat.add_right_cancel_iff] at hlen
          have hrec := ih as as' bs hlen (fun i hi => by simpa using h (i + 1) (by simpa using hi))
          cases x with
          | false => simpa [maskFilter] using hrec
          | true =>
            have h0 : p = p' := by simpa using h 0 (by simp)
            simp [maskFilter, h0, hrec]

/-- selecting by the mask column = keeping the rows whose mask bit is set -/
theorem maskFilter_rows_eq_filter {α ρ γ : Type} (f : α → Bool × ρ → γ) (g : γ → Bool)
    (hg : ∀ a b r, g (f a (b, r)) = b) (o : List α) (m : List Bool) (r : List ρ) :
    maskFilter (List.zipWith f o (m.zip r)) m = (List.zipWith f o (m.zip r)).filter g := by
  induction m generalizing o r with
  | nil => cases o <;> simp [maskFilter]
  | cons x m ih =>
    cases o with
    | nil => simp [maskFilter]
    | cons a o =>
      cases r with
      | nil => simp [maskFilter]
      | cons y r =>
        cases x <;> simp [maskFilter, hg, ih]

theorem observedView_rows (s : Screen) : viewRows s { parent := 0, sel := s.mask } = observedRows s := by
  unfold viewRows observedRows screenRows
  exact maskFilter_rows_eq_filter _ (fun (row : Row) => row.mask) (fun _ _ _ => rfl) s.obs s.mask (s.sids.zip s.tids)

theorem mask_eq {s s' : Screen} (h : shape s = shape s') : s.mask = s'.mask := congrArg ScreenShape.mask h
theorem sids_eq {s s' : Screen} (h : shape s = shape s') : s.sids = s'.sids := congrArg ScreenShape.sids h
theorem tids_eq {s s' : Screen} (h : shape s = shape s') : s.tids = s'.tids := congrArg ScreenShape.tids h
theorem arity_eq {s s' : Screen} (h : shape s = shape s') : s.arity = s'.arity := congrArg ScreenShape.arity h

theorem observedRows_agree (s s' : Screen) (h : AgreeOffMask s s') : observedRows s = observedRows s' := by
  rw [← observedView_rows, ← observedView_rows]
  unfold viewRows screenRows
  simp only [← mask_eq h.shape, ← sids_eq h.shape, ← tids_eq h.shape]
  exact maskFilter_zipWith_agree _ s.obs s'.obs _ s.mask h.len h.obs

theorem observedRows_all_mask (s : Screen) : (observedRows s).all (·.mask) = true := by
  simp [observedRows]

/-- `train_model.main` as a function of the observed rows -/
theorem trainRows_eq {τ : Type} (m : ModelKind) (transform : Nat → τ) (nanT : τ → Bool) (s : Screen) :
    trainRows m transform nanT s =
      if s.mask.any id then addObservations m transform nanT s.arity (observedRows s)
      else .ok { tuples := [], single := [] } := by
  unfold trainRows Screen.subsetObserved
  by_cases h : s.mask.any id = true
  · simp only [h, if_true, observedView_rows]
  · simp only [h]; rfl

theorem mapM_firstTwo {τ : Type} (g : Row → τ) (rows : List Row) (ts : List (τ × Int × Int × Int))
    (h : rows.mapM (fun r => do let d ← firstTwo r.tids; pure (g r, r.sid, d.1, d.2)) = .ok ts) :
    ts = rows.map (fun r => (g r, r.sid, r.tids.getD 0 0, r.tids.getD 1 0)) := by
  induction rows generalizing ts with
  | nil => simp [pure, Except.pure] at h; subst h; rfl
  | cons r rows ih =>
    rw [List.mapM_cons] at h
    obtain ⟨b, hb, h⟩ := bind_ok h
    obtain ⟨bs, hbs, h⟩ := bind_ok h
    obtain ⟨d, hd, hb⟩ := bind_ok hb
    have h1 := pure_ok h
    have h2 := pure_ok hb
    subst h1 h2
    have hd' : d = (r.tids.getD 0 0, r.tids.getD 1 0) := by
      unfold firstTwo at hd
      split at hd
      · next d1 d2 tl heq => cases hd; rw [heq]; rfl
      · cases hd
    simp [ih bs hbs, hd']

/-! ### arbitrary selection vectors (data handed directly to `add_observations`) -/

theorem maskFilter_all_pos {α : Type} (p : α → Bool) (a : List α) (sel : List Bool)
    (h : (maskFilter a sel).all p = true) (i : Nat) (x : α) (hs : sel[i]? = some true) (hx : a[i]? = some x) : p x = true := by
  induction a generalizing sel i with
  | nil => simp at hx
  | cons y ys ih =>
    cases sel with
    | nil => simp at hs
    | cons m ms =>
      cases i with
      | zero =>
        simp only [List.getElem?_cons_zero, Option.some.injEq] at hs hx
        subst hs hx
        simp [maskFilter] at h
        exact h.1
      | succ i =>
        simp only [List.getElem?_cons_succ] at hs hx
        cases m with
        | false => exact ih ms (by simpa [maskFilter] using h) i hs hx
        | true =>
          simp only [maskFilter, if_true, List.all_cons, Bool.and_eq_true] at h
          exact ih ms h.2 i hs hx

/-- `maskFilter_zipWith_agree` with the agreement only required where the second list is defined -/
theorem maskFilter_zipWith_agree' {α β γ : Type} (f : α → β → γ) (a a' : List α) (b : List β) (m : List Bool)
    (hlen : a.length = a'.length) (h : ∀ i : Nat, m[i]? = some true → i < b.length → a[i]? = a'[i]?) :
    maskFilter (List.zipWith f a b) m = maskFilter (List.zipWith f a' b) m := by
  induction m generalizing a a' b with
  | nil => cases a <;> cases a' <;> cases b <;> simp [maskFilter]
  | cons x m ih =>
    cases a with
    | nil => cases a' with
      | nil => rfl
      | cons _ _ => simp at hlen
    | cons p as =>
      cases a' with
      | nil => simp at hlen
      | cons p' as' =>
        cases b with
        | nil => simp [maskFilter]
        | cons q bs =>
          simp only [List.length_cons, Nat.add_right_cancel_iff] at hlen
          have hrec := ih as as' bs hlen (fun i hi hb => by
            simpa using h (i + 1) (by simpa using hi) (by simpa using hb))
          cases x with
          | false => simpa [maskFilter] using hrec
          | true =>
            have h0 : p = p' := by simpa using h 0 (by simp) (by simp)
            simp [maskFilter, h0, hrec]

theorem viewRows_mask_col (s s' : Screen) (hsh : shape s = shape s') (hlen : s.obs.length = s'.obs.length) (sel : List Bool) :
    (viewRows s { parent := 0, sel := sel }).map (·.mask) = (viewRows s' { parent := 0, sel := sel }).map (·.mask) := by
  unfold viewRows screenRows
  simp only [← mask_eq hsh, ← sids_eq hsh, ← tids_eq hsh]
  generalize s.mask.zip (s.sids.zip s.tids) = b
  generalize s.obs = a at hlen
  generalize s'.obs = a' at hlen
  induction sel generalizing a a' b with
  | nil => cases a <;> cases a' <;> cases b <;> simp [maskFilter]
  | cons x sel ih =>
    cases a with
    | nil => cases a' with
      | nil => rfl
      | cons _ _ => simp at hlen
    | cons p as =>
      cases a' with
      | nil => simp at hlen
      | cons p' as' =>
        cases b with
        | nil => simp [maskFilter]
        | cons q bs =>
          simp only [List.length_cons, Nat.add_right_cancel_iff] at hlen
          cases x <;> simp [maskFilter, ih bs as as' hlen]

/-- the rows a selection exposes are the same on both screens as soon as every selected row is observed -/
theorem viewRows_agree_of_all_observed (s s' : Screen) (h : AgreeOffMask s s') (sel : List Bool)
    (hall : (viewRows s { parent := 0, sel := sel }).all (·.mask) = true) :
    viewRows s { parent := 0, sel := sel } = viewRows s' { parent := 0, sel := sel } := by
  have hpos := maskFilter_all_pos (fun r : Row => r.mask) (screenRows s) sel hall
  unfold viewRows screenRows
  simp only [← mask_eq h.shape, ← sids_eq h.shape, ← tids_eq h.shape]
  apply maskFilter_zipWith_agree' _ _ _ _ _ h.len
  intro i hi hb
  by_cases hio : i < s.obs.length
  · apply h.obs i
    have hrow : (screenRows s)[i]? = some (Row.mk s.obs[i] (s.mask.zip (s.sids.zip s.tids))[i].2.1
        (s.mask.zip (s.sids.zip s.tids))[i].2.2 (s.mask.zip (s.sids.zip s.tids))[i].1) := by
      unfold screenRows
      rw [List.getElem?_eq_getElem (by have := hb; simp at this ⊢; omega)]
      simp
    have hm := hpos i _ hi hrow
    simp only at hm
    have hlt : i < s.mask.length := by
      have : i < (s.mask.zip (s.sids.zip s.tids)).length := hb
      simp at this; omega
    rw [List.getElem?_eq_getElem hlt]
    simp only [List.getElem_zip] at hm
    rw [hm]
  · have h1 : s.obs.length ≤ i := Nat.le_of_not_lt hio
    rw [List.getElem?_eq_none h1, List.getElem?_eq_none (by rw [← h.len]; exact h1)]

/-- **every** selection vector: `add_observations(screen.subset(sel))` gives the same result (the same refusal or the
    same recorded training data) on two screens that differ only behind the mask -/
theorem addObservations_view_agree {τ : Type} (m : ModelKind) (transform : Nat → τ) (nanT : τ → Bool)
    (s s' : Screen) (h : AgreeOffMask s s') (sel : List Bool) :
    addObservations m transform nanT s.arity (viewRows s { parent := 0, sel := sel })
      = addObservations m transform nanT s'.arity (viewRows s' { parent := 0, sel := sel }) := by
  by_cases hall : (viewRows s { parent := 0, sel := sel }).all (·.mask) = true
  · rw [← viewRows_agree_of_all_observed s s' h sel hall, arity_eq h.shape]
  · have hcol := viewRows_mask_col s s' h.shape h.len sel
    have hall' : (viewRows s' { parent := 0, sel := sel }).all (·.mask) = false := by
      have e : ∀ l : List Row, l.all (·.mask) = (l.map (·.mask)).all id := by intro l; simp [List.all_map]
      rw [e, ← hcol, ← e]; simpa using hall
    have hall0 : (viewRows s { parent := 0, sel := sel }).all (·.mask) = false := by simpa using hall
    unfold addObservations
    simp [hall0, hall']

end Batchie.Lemmas.Train
