/-
  C01 helper lemmas, part 2: the renumbering `index - is_control.cumsum()` (inclusive cumsum,
  controls overwritten with -1) equals "number the non-control rows consecutively".
-/
import Batchie.Model.Screen

namespace Batchie.Screen

/-- specification of the renumbering: walk the flags, hand out consecutive ids to the `false`
    (non-control) rows starting at `m`, and `-1` to the `true` (control) rows -/
def numberFrom : Int → List Bool → List Int
  | _, [] => []
  | m, true :: fs => (-1) :: numberFrom m fs
  | m, false :: fs => m :: numberFrom (m + 1) fs

/-- the code's arithmetic (`i` = running index, `c` = inclusive cumulative control count) is the specification -/
theorem renumberGo_eq_numberFrom (i c : Int) (fs : List Bool) :
    renumberGo i c fs = numberFrom (i - c) fs := by
  induction fs generalizing i c with
  | nil => rfl
  | cons f fs ih =>
    cases f with
    | true =>
      simp only [renumberGo, numberFrom, if_true, ih]
      congr 2; omega
    | false =>
      simp only [renumberGo, numberFrom, ih]
      simp only [Bool.false_eq_true, if_false]
      congr 2; omega

theorem renumber_eq_numberFrom (fs : List Bool) : renumber fs = numberFrom 0 fs := by
  simp [renumber, renumberGo_eq_numberFrom]

@[simp] theorem length_numberFrom (m : Int) (fs : List Bool) : (numberFrom m fs).length = fs.length := by
  induction fs generalizing m with
  | nil => rfl
  | cons f fs ih => cases f <;> simp [numberFrom, ih]

@[simp] theorem length_renumber (fs : List Bool) : (renumber fs).length = fs.length := by
  simp [renumber_eq_numberFrom]

/-- entry `k` of the renumbering: `-1` on a control row, otherwise `m +` the number of non-control rows strictly before `k` -/
theorem numberFrom_getElem (m : Int) (fs : List Bool) (k : Nat) (hk : k < fs.length) :
    (numberFrom m fs)[k]'(by simpa using hk) =
      if fs[k] then (-1 : Int) else m + ((fs.take k).count false : Nat) := by
  induction fs generalizing m k with
  | nil => simp at hk
  | cons f fs ih =>
    cases k with
    | zero => cases f <;> simp [numberFrom]
    | succ k =>
      have hk' : k < fs.length := by simpa using hk
      cases f with
      | true => simp [numberFrom, ih m k hk']
      | false =>
        simp only [numberFrom, List.getElem_cons_succ, ih (m + 1) k hk', List.take_succ_cons, List.count_cons_self]
        split
        · rfl
        · push_cast; omega

/-- every entry is `-1` exactly on the control rows (for a non-negative start) -/
theorem numberFrom_eq_neg_one_iff (m : Int) (hm : 0 ≤ m) (fs : List Bool) (k : Nat) (hk : k < fs.length) :
    (numberFrom m fs)[k]'(by simpa using hk) = -1 ↔ fs[k] = true := by
  rw [numberFrom_getElem m fs k hk]
  split
  · simp [*]
  · constructor
    · intro h; omega
    · intro h; contradiction

/-- the ids handed to the non-control rows, in table order, are `m, m+1, …` without gaps or repeats -/
theorem numberFrom_noncontrol (m : Int) (fs : List Bool) :
    maskFilter (numberFrom m fs) (fs.map (!·)) = (List.range (fs.count false)).map (fun (i : Nat) => m + (i : Int)) := by
  induction fs generalizing m with
  | nil => rfl
  | cons f fs ih =>
    cases f with
    | true => simp [numberFrom, maskFilter, ih]
    | false =>
      simp only [numberFrom, List.map_cons, Bool.not_false, maskFilter, if_true, ih, List.count_cons_self]
      rw [List.range_succ_eq_map]
      simp only [List.map_cons, List.map_map]
      congr 1
      · simp
      · apply List.map_congr_left
        intro i _
        simp only [Function.comp]
        push_cast; omega

end Batchie.Screen
