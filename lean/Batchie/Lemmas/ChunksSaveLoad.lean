/-
  C07: the model's save / load (`CDM.save`, `CDM.load` of `Model/Chunks.lean`) is the identity for every matrix; the signed-byte
  index storage of seeded change S5-C07 (`toInt8`, `CDM.saveInt8`) is not.
-/
import Batchie.Lemmas.ChunksEnum

namespace Batchie.Chunks

variable {α : Type}

theorem zip3_maps (l : List (Int × Int × α)) :
    List.zip (l.map (fun e => e.1)) (List.zip (l.map (fun e => e.2.1)) (l.map (fun e => e.2.2))) = l := by
  induction l with
  | nil => rfl
  | cons e l ih =>
    simp only [List.map_cons, List.zip_cons_cons, ih]

theorem load_save (m : CDM α) : CDM.load (CDM.save m) = m := by
  cases m with
  | mk size entries =>
    simp only [CDM.load, CDM.save]
    rw [zip3_maps]

/-- a signed byte holds the indices below 128 unchanged ... -/
theorem toInt8_small (x : Int) (h0 : 0 ≤ x) (h1 : x < 128) : toInt8 x = x := by
  show (x + 128) % 256 - 128 = x
  omega

/-- ... and wraps every index from 128 to 255 to a negative number -/
theorem toInt8_wrap (x : Int) (h0 : 128 ≤ x) (h1 : x < 256) : toInt8 x = x - 256 := by
  show (x + 128) % 256 - 128 = x - 256
  omega

end Batchie.Chunks
