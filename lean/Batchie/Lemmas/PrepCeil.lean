/-
  The documented hold-out count  k = ⌈size × fraction⌉  over the rationals (C11): for 0 ≤ fraction ≤ 1 it satisfies
  0 ≤ k ≤ size, k = 0 iff size × fraction = 0, k = size when fraction = 1 -- so the abstract count function `kf` of the
  hold-out theorems can be instantiated with it.  (That IEEE double arithmetic computes the same integer is executed by the
  driver, not proved: `Float` is opaque.)
-/
import Mathlib.Data.Rat.Floor
import Mathlib.Tactic.Linarith
import Mathlib.Tactic.Ring

namespace Batchie.Prep

/-- `ceil(size × fraction)` for a rational fraction -/
def ceilCount (q : ℚ) (n : ℕ) : ℕ := ⌈(n : ℚ) * q⌉.toNat

theorem ceilCount_cast {q : ℚ} (hq : 0 ≤ q) (n : ℕ) : ((ceilCount q n : ℕ) : ℤ) = ⌈(n : ℚ) * q⌉ := by
  unfold ceilCount
  apply Int.toNat_of_nonneg
  exact Int.ceil_nonneg (mul_nonneg (Nat.cast_nonneg n) hq)

theorem ceilCount_le {q : ℚ} (hq0 : 0 ≤ q) (hq1 : q ≤ 1) (n : ℕ) : ceilCount q n ≤ n := by
  have h : ⌈(n : ℚ) * q⌉ ≤ (n : ℤ) := by
    apply Int.ceil_le.mpr
    have : (n : ℚ) * q ≤ (n : ℚ) * 1 := mul_le_mul_of_nonneg_left hq1 (Nat.cast_nonneg n)
    simpa using this
  have := ceilCount_cast hq0 n
  omega

theorem ceilCount_eq_zero_iff {q : ℚ} (hq0 : 0 ≤ q) (n : ℕ) : ceilCount q n = 0 ↔ (n : ℚ) * q = 0 := by
  have hnn : 0 ≤ (n : ℚ) * q := mul_nonneg (Nat.cast_nonneg n) hq0
  have hc := ceilCount_cast hq0 n
  constructor
  · intro h
    have hz : ⌈(n : ℚ) * q⌉ = 0 := by rw [← hc, h]; rfl
    have hle : (n : ℚ) * q ≤ 0 := by
      have hl := Int.le_ceil ((n : ℚ) * q)
      rw [hz] at hl
      simpa using hl
    exact le_antisymm hle hnn
  · intro h
    have : ⌈(n : ℚ) * q⌉ = 0 := by rw [h]; exact Int.ceil_zero
    rw [this] at hc
    exact_mod_cast hc

theorem ceilCount_one (n : ℕ) : ceilCount 1 n = n := by
  have := ceilCount_cast (q := 1) (by norm_num) n
  rw [mul_one, Int.ceil_natCast] at this
  exact_mod_cast this

theorem ceilCount_zero (n : ℕ) : ceilCount 0 n = 0 := (ceilCount_eq_zero_iff (le_refl 0) n).mpr (by simp)

/-- at least one experiment is taken from a non-empty plate as soon as the fraction is positive -/
theorem ceilCount_pos {q : ℚ} (hq : 0 < q) {n : ℕ} (hn : 0 < n) : 0 < ceilCount q n := by
  apply Nat.pos_of_ne_zero
  intro h
  have := (ceilCount_eq_zero_iff (le_of_lt hq) n).mp h
  have hn' : (0 : ℚ) < n := by exact_mod_cast hn
  have : 0 < (n : ℚ) * q := mul_pos hn' hq
  linarith

/-- S6-C11: over the rationals "training share rounded down" `n - ⌊n·(1-q)⌋` IS the documented `⌈n·q⌉`; the seeded helper that
    computes it this way differs from `math.ceil(size * fraction)` only by floating-point rounding of `1.0 - fraction` and of the
    products, which the functional model does not contain (harness-only: exact per-plate count oracle). -/
theorem ceil_eq_sub_floor_complement (q : ℚ) (n : ℕ) : (n : ℤ) - ⌊(n : ℚ) * (1 - q)⌋ = ⌈(n : ℚ) * q⌉ := by
  have e : (n : ℚ) * (1 - q) = -((n : ℚ) * q) + (n : ℚ) := by ring
  rw [e, Int.floor_add_natCast, Int.floor_neg]
  ring

end Batchie.Prep
