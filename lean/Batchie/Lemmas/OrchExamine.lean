/-
  C19 -- what `examine` returns on every directory of the reachable shape.
-/
import Batchie.Lemmas.OrchShape

namespace Batchie.Orchestrator

variable (cfg : Cfg)

/-- the workflows the script launches in each mode -/
def allowed : Mode → Workflow → Bool
  | .retrospective, .prospFirst => false
  | .retrospective, _ => true
  | .prospective, .prospFirst => true
  | .prospective, .nextPlate => true
  | .prospective, _ => false

/-- every pipeline run (of a workflow the mode uses) publishes the completion marker -/
def HasMarker : Prop := ∀ l, allowed cfg.mode l.wf = true → (findKind .marker (cfg.pubs l)).isSome = true

/-- ... and publishes it last, once.  `pubs` is the pipeline run UP TO the marker: this is true of the `retrospective`
    and `next_plate` workflows (`EXTRACT_SCREEN_METADATA` consumes the advanced screen, downstream of every file a glob
    of the script matches) and NOT of `prospective/main.nf`.  Outputs of `EVALUATE_MODEL` / `ANALYZE_MODEL_EVALUATION`
    (not upstream of the marker, matched by no glob of the script) may be published after it and are not modelled;
    `harness/c19.py` validates that omission (`late` outputs). -/
def MarkerLast : Prop :=
  ∀ l, allowed cfg.mode l.wf = true → ∃ xs m, cfg.pubs l = xs ++ [⟨.marker, m⟩] ∧ ∀ f ∈ xs, f.kind ≠ .marker

/-- all completed steps are runs of workflows the mode uses -/
def WfOK (p : Prog) : Prop := ∀ l ∈ p.flat, allowed cfg.mode l.wf = true

theorem findKind_none_of_forall {k : Kind} {fs : List File} (h : ∀ f ∈ fs, f.kind ≠ k) : findKind k fs = none := by
  unfold findKind
  rw [List.find?_eq_none]
  intro f hf; simpa using h f hf

theorem MarkerLast.hasMarker (h : MarkerLast cfg) : HasMarker cfg := by
  intro l hl
  obtain ⟨xs, m, hp, hx⟩ := h l hl
  rw [hp]
  unfold findKind
  rw [List.find?_append]
  have : xs.find? (fun f => decide (f.kind = .marker)) = none := findKind_none_of_forall hx
  rw [this]; simp

/-- full iterations have `B` plates, the current one fewer -/
def ProgOK (B : Nat) (p : Prog) : Prop := (∀ c ∈ p.cs, c.length = B) ∧ p.cur.length < B

def JunkOK : Junk → Prop
  | .plate s => findKind .marker (s.getD []) = none
  | _ => True

/-- the scan state after a complete plate directory -/
def stAfter (it j : Nat) (l : Launch) : ExSt :=
  let p : PlateDir := ⟨j, some (cfg.pubs l)⟩
  ⟨some it, some j, metaOf p, some (it, p)⟩

def afterPlates (it pos : Nat) (ls : List Launch) (st : ExSt) : ExSt :=
  match ls.getLast? with
  | none => st
  | some l => stAfter cfg it (pos + ls.length - 1) l

theorem scanPlates_full (hm : HasMarker cfg) (it : Nat) (ls : List Launch)
    (hw : ∀ l ∈ ls, allowed cfg.mode l.wf = true) :
    ∀ (pos : Nat) (st : ExSt) (rest : List PlateDir),
      scanPlates it pos (platesFrom cfg pos ls ++ rest) st =
        scanPlates it (pos + ls.length) rest (afterPlates cfg it pos ls st) := by
  induction ls with
  | nil => intro pos st rest; simp [platesFrom, afterPlates]
  | cons x xs ih =>
    intro pos st rest
    have hx := hm x (hw x (by simp))
    obtain ⟨f, hf⟩ := Option.isSome_iff_exists.mp hx
    have hmeta : metaOf ⟨pos, some (cfg.pubs x)⟩ = some f.content := by
      simp [metaOf, PlateDir.files, hf]
    simp only [platesFrom, List.cons_append]
    rw [scanPlates, hmeta]
    simp only [ne_eq, not_true_eq_false, ↓reduceIte]
    rw [ih (fun l hl => hw l (by simp [hl])) (pos + 1)]
    have e1 : pos + 1 + xs.length = pos + (x :: xs).length := by simp only [List.length_cons]; omega
    rw [e1]
    congr 1
    unfold afterPlates
    cases hxs : xs.getLast? with
    | none =>
      have : xs = [] := by simpa using hxs
      subst this
      simp [stAfter, hmeta]
    | some l =>
      have : (x :: xs).getLast? = some l := by
        rw [List.getLast?_cons, hxs]; rfl
      rw [this]
      simp only [List.length_cons]
      have : pos + 1 + xs.length - 1 = pos + (xs.length + 1) - 1 := by omega
      rw [this]

/-- the scan state after the complete iterations -/
def afterIters (i : Nat) (cs : List (List Launch)) (st : ExSt) : ExSt :=
  match cs.getLast? with
  | none => st
  | some c => afterPlates cfg (i + cs.length - 1) 0 c st

theorem scanIters_full (hm : HasMarker cfg) (cs : List (List Launch)) (hne : ∀ c ∈ cs, c ≠ [])
    (hw : ∀ c ∈ cs, ∀ l ∈ c, allowed cfg.mode l.wf = true) :
    ∀ (i : Nat) (st : ExSt) (rest : List IterDir),
      scanIters (itersFrom cfg i cs ++ rest) st = scanIters rest (afterIters cfg i cs st) := by
  induction cs with
  | nil => intro i st rest; simp [itersFrom, afterIters]
  | cons c cs ih =>
    intro i st rest
    have hc : c ≠ [] := hne c (by simp)
    simp only [itersFrom, List.cons_append]
    rw [scanIters]
    simp only
    rw [sortBy_eq_self _ _ (platesFrom_sorted cfg 0 c)]
    have hne' : (platesFrom cfg 0 c).isEmpty = false := by
      cases c with
      | nil => exact absurd rfl hc
      | cons a b => simp [platesFrom]
    rw [hne']
    simp only [Bool.false_eq_true, ↓reduceIte]
    have h0 := scanPlates_full cfg hm i c (hw c (by simp)) 0 { st with curPlate := some 0 } []
    simp only [List.append_nil, Nat.zero_add] at h0
    rw [h0]
    simp only [scanPlates]
    rw [ih (fun c' h' => hne c' (by simp [h'])) (fun c' h' => hw c' (by simp [h'])) (i + 1)]
    congr 1
    unfold afterIters
    cases hcs : cs.getLast? with
    | none =>
      have : cs = [] := by simpa using hcs
      subst this
      obtain ⟨l, hl⟩ : ∃ l, c.getLast? = some l := by
        cases h : c.getLast? with
        | none => exact absurd (by simpa using h) hc
        | some l => exact ⟨l, rfl⟩
      simp [afterPlates, hl]
    | some c' =>
      have : (c :: cs).getLast? = some c' := by rw [List.getLast?_cons, hcs]; rfl
      rw [this]
      simp only [List.length_cons]
      have : i + 1 + cs.length - 1 = i + (cs.length + 1) - 1 := by omega
      rw [this]
      obtain ⟨l, hl⟩ : ∃ l, c'.getLast? = some l := by
        have hc' : c' ≠ [] := hne c' (by
          have := List.mem_of_getLast? hcs
          simp [this])
        cases h : c'.getLast? with
        | none => exact absurd (by simpa using h) hc'
        | some l => exact ⟨l, rfl⟩
      simp [afterPlates, hl]

/-- the last completed step `(iteration, plate, launch)` -/
def lastStep (p : Prog) : Option (Nat × Nat × Launch) :=
  match p.cur.getLast? with
  | some l => some (p.cs.length, p.cur.length - 1, l)
  | none =>
    match p.cs.getLast? with
    | some c => c.getLast?.map (fun l => (p.cs.length - 1, c.length - 1, l))
    | none => none

/-- what `examine` answers when it does not raise: the successor of the last complete step, that step's
    metadata and that step's output screen -/
def nextOfProg (p : Prog) : Next :=
  match lastStep p with
  | none => ⟨p.cs.length, p.cur.length, none, none⟩
  | some (i, j, l) =>
    let pd : PlateDir := ⟨j, some (cfg.pubs l)⟩
    ⟨p.cs.length, p.cur.length, metaOf pd, (screenOf pd).map (fun f => ⟨i, j, f⟩)⟩

theorem getLast?_isSome_of_ne {α : Type} {l : List α} (h : l ≠ []) : ∃ x, l.getLast? = some x := by
  cases h' : l.getLast? with
  | none => exact absurd (by simpa using h') h
  | some x => exact ⟨x, rfl⟩

theorem metaOf_pubs_isSome (hm : HasMarker cfg) (j : Nat) (l : Launch) (hl : allowed cfg.mode l.wf = true) :
    ∃ m, metaOf ⟨j, some (cfg.pubs l)⟩ = some m := by
  obtain ⟨f, hf⟩ := Option.isSome_iff_exists.mp (hm l hl)
  exact ⟨f.content, by simp [metaOf, PlateDir.files, hf]⟩

/-- `nextOf` on the state after complete iterations only -/
theorem nextOf_afterIters (hm : HasMarker cfg) (B : Nat) (hB : 1 ≤ B) (cs : List (List Launch))
    (hcs : ∀ c ∈ cs, c.length = B) (hw : ∀ c ∈ cs, ∀ l ∈ c, allowed cfg.mode l.wf = true) :
    nextOf B (afterIters cfg 0 cs {}) = nextOfProg cfg ⟨cs, []⟩ := by
  unfold afterIters nextOfProg lastStep
  cases h : cs.getLast? with
  | none => simp [nextOf, List.getLast?_eq_none_iff.mp h]
  | some c =>
    have hc : c.length = B := hcs c (List.mem_of_getLast? h)
    have hne : c ≠ [] := by intro e; subst e; simp at hc; omega
    obtain ⟨l, hl⟩ := getLast?_isSome_of_ne hne
    obtain ⟨m, hmm⟩ := metaOf_pubs_isSome cfg hm (c.length - 1) l
      (hw c (List.mem_of_getLast? h) l (List.mem_of_getLast? hl))
    have hcsne : cs ≠ [] := by intro e; subst e; simp at h
    have hlen : 1 ≤ cs.length := by
      cases cs with
      | nil => exact absurd rfl hcsne
      | cons _ _ => simp
    simp only [List.getLast?_nil, afterPlates, hl, Option.map_some, List.length_nil]
    simp only [nextOf, stAfter, Nat.zero_add, hmm, Option.getD_some]
    have : B ≤ c.length - 1 + 1 := by omega
    simp only [this, ↓reduceIte]
    congr 1
    omega

/-- **what `examine` returns on every reachable directory** -/
theorem examine_treeIters (hm : HasMarker cfg) (B : Nat) (hB : 1 ≤ B) (p : Prog) (hp : ProgOK B p)
    (hw : WfOK cfg p) (jk : Junk) (hj : JunkOK jk) (o : Bool) :
    examine B ⟨o, treeIters cfg p jk⟩ =
      match jk with
      | .plate _ => .err (.invalid p.cs.length p.cur.length)
      | _ => .ok (nextOfProg cfg p) := by
  have hne : ∀ c ∈ p.cs, c ≠ [] := by
    intro c hc e
    have := hp.1 c hc
    subst e; simp at this; omega
  have hwcs : ∀ c ∈ p.cs, ∀ l ∈ c, allowed cfg.mode l.wf = true := fun c hc l hl =>
    hw l (List.mem_append_left _ (List.mem_flatten.mpr ⟨c, hc, hl⟩))
  have hwcur : ∀ l ∈ p.cur, allowed cfg.mode l.wf = true := fun l hl => hw l (List.mem_append_right _ hl)
  unfold examine
  simp only
  rw [sortBy_eq_self _ _ (treeIters_sorted cfg p jk)]
  unfold treeIters
  rw [scanIters_full cfg hm p.cs hne hwcs 0 {} _]
  -- the state after the complete iterations
  have hnext0 := nextOf_afterIters cfg hm B hB p.cs hp.1 hwcs
  generalize afterIters cfg 0 p.cs {} = st0 at hnext0 ⊢
  unfold lastIter
  by_cases hcur : p.cur = []
  · -- no complete plate in the current iteration
    have hp' : p = ⟨p.cs, []⟩ := by cases p; simp_all
    cases jk with
    | none =>
      simp only [hcur, and_self, ↓reduceIte, scanIters]
      rw [hnext0, ← hp']
    | emptyIter =>
      simp only [hcur, reduceCtorEq, and_false, ↓reduceIte, platesFrom, junkPlates, List.append_nil]
      rw [scanIters]
      simp only [sortBy, List.foldr_nil, List.isEmpty_nil, ↓reduceIte, scanIters]
      rw [hnext0, ← hp']
    | plate s =>
      simp only [hcur, reduceCtorEq, and_false, ↓reduceIte, platesFrom, junkPlates, List.nil_append,
        List.length_nil]
      rw [scanIters]
      have hmeta : metaOf ⟨0, s⟩ = none := by
        simp only [JunkOK] at hj
        simp [metaOf, PlateDir.files, hj]
      simp [sortBy, insertBy, scanPlates, hmeta]
  · -- at least one complete plate in the current iteration
    have hif : ¬ (p.cur = [] ∧ jk = Junk.none) := fun h => hcur h.1
    simp only [hif, ↓reduceIte]
    rw [scanIters]
    simp only
    rw [sortBy_eq_self _ _ (lastPlates_sorted cfg p.cur jk)]
    have hne' : (platesFrom cfg 0 p.cur ++ junkPlates p.cur.length jk).isEmpty = false := by
      cases hc : p.cur with
      | nil => exact absurd hc hcur
      | cons a b => simp [platesFrom]
    rw [hne']
    simp only [Bool.false_eq_true, ↓reduceIte]
    rw [scanPlates_full cfg hm _ _ hwcur]
    obtain ⟨l, hl⟩ := getLast?_isSome_of_ne hcur
    obtain ⟨m, hmm⟩ := metaOf_pubs_isSome cfg hm (p.cur.length - 1) l (hwcur l (List.mem_of_getLast? hl))
    have hlen : 1 ≤ p.cur.length := by
      cases hc : p.cur with
      | nil => exact absurd hc hcur
      | cons _ _ => simp
    have hnext : nextOf B (afterPlates cfg p.cs.length 0 p.cur { st0 with curPlate := some 0 }) = nextOfProg cfg p := by
      unfold nextOfProg lastStep
      simp only [afterPlates, hl, Nat.zero_add]
      simp only [nextOf, stAfter, hmm, Option.getD_some]
      have : ¬ B ≤ p.cur.length - 1 + 1 := by have := hp.2; omega
      simp only [this, ↓reduceIte]
      congr 1
      omega
    cases jk with
    | none => simp only [junkPlates, scanPlates, scanIters]; rw [hnext]
    | emptyIter => simp only [junkPlates, scanPlates, scanIters]; rw [hnext]
    | plate s =>
      have hmeta : metaOf ⟨p.cur.length, s⟩ = none := by
        simp only [JunkOK] at hj
        simp [metaOf, PlateDir.files, hj]
      simp [junkPlates, scanPlates, hmeta]

end Batchie.Orchestrator
