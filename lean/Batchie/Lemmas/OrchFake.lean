/-
  C19 -- the concrete pipeline the DRIVER runs (`fakePubs`, mirrored by `harness/c19.py`) satisfies the hypothesis
  `MarkerLast` of the resumption theorems in every configuration except the marker-first prospective one, so the
  theorems apply to the very executions that the correspondence run compares with the real script.
-/
import Batchie.Model.OrchestratorIO
import Batchie.Lemmas.OrchExamine

namespace Batchie.Orchestrator

/-- no completion marker among `xs` -/
def NM (xs : List File) : Prop := ∀ f ∈ xs, f.kind ≠ .marker

@[simp] theorem NM_nil : NM [] := by intro f hf; simp at hf

@[simp] theorem NM_cons (a : File) (xs : List File) : NM (a :: xs) ↔ a.kind ≠ .marker ∧ NM xs := by
  simp [NM]

@[simp] theorem NM_append (a b : List File) : NM (a ++ b) ↔ NM a ∧ NM b := by
  simp only [NM, List.mem_append]
  constructor
  · intro h; exact ⟨fun f hf => h f (Or.inl hf), fun f hf => h f (Or.inr hf)⟩
  · rintro ⟨h1, h2⟩ f (hf | hf)
    · exact h1 f hf
    · exact h2 f hf

@[simp] theorem NM_reverse (a : List File) : NM a.reverse ↔ NM a := by simp [NM]

theorem NM_ite (c : Prop) [Decidable c] (a b : List File) (ha : NM a) (hb : NM b) : NM (if c then a else b) := by
  split <;> assumption

theorem NM_map_range (n : Nat) (g : Nat → File) (h : ∀ c, (g c).kind ≠ .marker) : NM ((List.range n).map g) := by
  intro f hf
  simp only [List.mem_map] at hf
  obtain ⟨c, _, rfl⟩ := hf
  exact h c

theorem split2 (xs : List File) (a : File) (c : Nat) (h : NM xs) (ha : a.kind ≠ .marker) :
    ∃ ys m, xs ++ [a, ⟨.marker, c⟩] = ys ++ [⟨.marker, m⟩] ∧ ∀ f ∈ ys, f.kind ≠ .marker :=
  ⟨xs ++ [a], c, by simp, by
    have : NM (xs ++ [a]) := by simp [h, ha]
    exact this⟩

theorem split3 (xs : List File) (a b : File) (c : Nat) (h : NM xs) (ha : a.kind ≠ .marker) (hb : b.kind ≠ .marker) :
    ∃ ys m, xs ++ [a, b, ⟨.marker, c⟩] = ys ++ [⟨.marker, m⟩] ∧ ∀ f ∈ ys, f.kind ≠ .marker :=
  ⟨xs ++ [a, b], c, by simp, by
    have : NM (xs ++ [a, b]) := by simp [h, ha, hb]
    exact this⟩

theorem split1 (xs : List File) (c : Nat) (h : NM xs) :
    ∃ ys m, xs ++ [⟨.marker, c⟩] = ys ++ [⟨.marker, m⟩] ∧ ∀ f ∈ ys, f.kind ≠ .marker :=
  ⟨xs, c, rfl, h⟩

/-- retrospective mode, or prospective mode with a (hypothetical) marker-last workflow -/
theorem fakePubs_markerLast (mode : Mode) (B : Nat) (fk : Fake) (h : mode = .retrospective ∨ fk.mfirst = false) :
    MarkerLast ⟨mode, B, fakePubs fk⟩ := by
  intro l hl
  simp only at hl ⊢
  unfold fakePubs
  simp only
  have hth : ∀ (c : Prop) [Decidable c] (n : Nat) (g : Nat → File), (∀ x, (g x).kind ≠ .marker) →
      NM (if c then ((List.range n).map g).reverse else (List.range n).map g) := by
    intro c _ n g hg
    apply NM_ite
    · rw [NM_reverse]; exact NM_map_range _ _ hg
    · exact NM_map_range _ _ hg
  cases hw : l.wf <;> rw [hw] at hl <;> simp only
  · -- initial
    apply split2 _ _ _ _ (by simp)
    rw [NM_append]
    refine ⟨NM_ite _ _ _ (by simp) (by simp), ?_⟩
    split
    · simp only [NM_append, NM_cons, NM_nil, and_true]
      repeat' apply And.intro
      all_goals first | (apply hth; intro x; simp) | (rw [NM_reverse]; apply NM_map_range; intro x; simp) | (apply NM_map_range; intro x; simp) | simp
    · split
      all_goals simp only [NM_append, NM_cons, NM_nil, and_true]
      all_goals repeat' apply And.intro
      all_goals first | (apply hth; intro x; simp) | (rw [NM_reverse]; apply NM_map_range; intro x; simp) | (apply NM_map_range; intro x; simp) | simp
  · -- firstBatch
    apply split2 _ _ _ _ (by simp)
    split
    · simp only [NM_append, NM_cons, NM_nil, and_true]
      repeat' apply And.intro
      all_goals first | (apply hth; intro x; simp) | (rw [NM_reverse]; apply NM_map_range; intro x; simp) | (apply NM_map_range; intro x; simp) | simp
    · split
      all_goals simp only [NM_append, NM_cons, NM_nil, and_true]
      all_goals repeat' apply And.intro
      all_goals first | (apply hth; intro x; simp) | (rw [NM_reverse]; apply NM_map_range; intro x; simp) | (apply NM_map_range; intro x; simp) | simp
  · -- nextPlate
    apply split3 _ _ _ _ _ (by simp) (by simp)
    apply hth; intro x; simp
  · -- prospFirst
    have hm : fk.mfirst = false := by
      rcases h with h | h
      · subst h; simp [allowed] at hl
      · exact h
    simp only [hm, Bool.false_eq_true, ↓reduceIte]
    apply split1
    split
    · simp only [NM_append, NM_cons, NM_nil, and_true]
      repeat' apply And.intro
      all_goals first | (apply hth; intro x; simp) | (rw [NM_reverse]; apply NM_map_range; intro x; simp) | (apply NM_map_range; intro x; simp) | simp
    · split
      all_goals simp only [NM_append, NM_cons, NM_nil, and_true]
      all_goals repeat' apply And.intro
      all_goals first | (apply hth; intro x; simp) | (rw [NM_reverse]; apply NM_map_range; intro x; simp) | (apply NM_map_range; intro x; simp) | simp

end Batchie.Orchestrator
