/-
  C19 -- where `MarkerLast` comes from.  The process dependency graph of `RUN_RETROSPECTIVE_STEP` + `RETROSPECTIVE` and of
  `SELECT_NEXT_BATCH_PLATE` + `NEXT_BATCH_PLATE` (transcribed from the .nf files, same wiring as `harness/nf_emulator.py`),
  executed in ANY order compatible with the dependencies (nextflow runs independent processes concurrently).  The model's
  pipeline run `pubs` is the publication sequence UP TO the completion marker; this file proves that the truncation loses
  nothing the script can see: every file matched by a glob of the script (screens, thetas, distance chunks, selected_plate)
  is published before `screen_metadata.json` -- only the model-evaluation outputs (`Kind.extra`) can follow it.
-/
import Batchie.Lemmas.OrchExamine

namespace Batchie.Orchestrator

inductive Proc where
  | prepare | train (c : Nat) | evaluate | analyze | dist (k : Nat) | score (k : Nat) | select | reveal | mark
deriving DecidableEq, Repr

/-- which workflow: `init` = `--initialize true` (PREPARE runs); `next` = the `next_plate` workflow (thetas / distance chunks
    are inputs, no TRAIN_MODEL / CALCULATE_DISTANCE_MATRIX_CHUNK / EVALUATE_MODEL) -/
structure Wf where
  init : Bool
  next : Bool
  nch : Nat
  nck : Nat

def trains (w : Wf) : List Proc := if w.next then [] else (List.range w.nch).map Proc.train
def dists (w : Wf) : List Proc := if w.next then [] else (List.range w.nck).map Proc.dist
def scores (w : Wf) : List Proc := (List.range w.nck).map Proc.score

/-- the inputs of each process, as wired in the subworkflows -/
def deps (w : Wf) : Proc → List Proc
  | .prepare => []
  | .train _ => if w.init then [.prepare] else []
  | .evaluate => trains w
  | .analyze => .evaluate :: trains w
  | .dist _ => trains w
  | .score _ => trains w ++ dists w
  | .select => scores w
  | .reveal => [.select]
  | .mark => [.reveal]

/-- an execution order: every process starts after all its inputs were produced -/
def ValidOrder (w : Wf) (order : List Proc) : Prop :=
  ∀ (i : Nat) (t : Proc), order[i]? = some t → ∀ d ∈ deps w t, ∃ j : Nat, j < i ∧ order[j]? = some d

theorem dep_before {w : Wf} {order : List Proc} (hv : ValidOrder w order) {i : Nat} {t d : Proc}
    (ht : order[i]? = some t) (hd : d ∈ deps w t) : ∃ j : Nat, j < i ∧ order[j]? = some d := hv i t ht d hd

/-- **everything the script can see is produced before the marker process runs**, in every valid execution order in which
    the pipeline gets as far as the marker (at least one score chunk) -/
theorem visible_before_marker (w : Wf) (hck : 1 ≤ w.nck) {order : List Proc} (hv : ValidOrder w order) {m : Nat}
    (hm : order[m]? = some .mark) :
    (∃ j, j < m ∧ order[j]? = some .reveal) ∧ (∃ j, j < m ∧ order[j]? = some .select) ∧
    (∀ k, k < w.nck → ∃ j, j < m ∧ order[j]? = some (.score k)) ∧
    (w.next = false → (∀ c, c < w.nch → ∃ j, j < m ∧ order[j]? = some (.train c)) ∧
      (∀ k, k < w.nck → ∃ j, j < m ∧ order[j]? = some (.dist k)) ∧
      (w.init = true → 1 ≤ w.nch → ∃ j, j < m ∧ order[j]? = some .prepare)) := by
  obtain ⟨r, hr, hro⟩ := dep_before hv hm (d := .reveal) (by simp [deps])
  obtain ⟨s, hs, hso⟩ := dep_before hv hro (d := .select) (by simp [deps])
  have hscore : ∀ k, k < w.nck → ∃ j, j < s ∧ order[j]? = some (.score k) := by
    intro k hk
    exact dep_before hv hso (d := .score k) (by simp [deps, scores]; exact hk)
  refine ⟨⟨r, hr, hro⟩, ⟨s, by omega, hso⟩, ?_, ?_⟩
  · intro k hk
    obtain ⟨j, hj, hjo⟩ := hscore k hk
    exact ⟨j, by omega, hjo⟩
  · intro hn
    obtain ⟨j0, hj0, hj0o⟩ := hscore 0 (by omega)
    have htrain : ∀ c, c < w.nch → ∃ j, j < j0 ∧ order[j]? = some (.train c) := by
      intro c hc
      exact dep_before hv hj0o (d := .train c) (by simp [deps, trains, hn]; left; exact hc)
    refine ⟨?_, ?_, ?_⟩
    · intro c hc
      obtain ⟨j, hj, hjo⟩ := htrain c hc
      exact ⟨j, by omega, hjo⟩
    · intro k hk
      obtain ⟨j, hj, hjo⟩ := dep_before hv hj0o (d := .dist k) (by simp [deps, dists, hn]; right; exact hk)
      exact ⟨j, by omega, hjo⟩
    · intro hi hch
      obtain ⟨j, hj, hjo⟩ := htrain 0 (by omega)
      obtain ⟨j', hj', hjo'⟩ := dep_before hv hjo (d := .prepare) (by simp [deps, hi])
      exact ⟨j', by omega, hjo'⟩

/-- model evaluation is NOT forced before the marker: a valid order in which it runs last (why `pubs` is the run up to the
    marker and the harness publishes "late" files) -/
example : ValidOrder ⟨true, false, 1, 1⟩ [.prepare, .train 0, .dist 0, .score 0, .select, .reveal, .mark, .evaluate, .analyze] := by
  intro i t ht d hd
  match i with
  | 0 | 1 | 2 | 3 | 4 | 5 | 6 | 7 | 8 =>
    simp at ht; subst ht
    simp [deps, trains, dists, scores] at hd
    all_goals (first | (subst hd; first | exact ⟨0, by omega, rfl⟩ | exact ⟨1, by omega, rfl⟩ | exact ⟨2, by omega, rfl⟩ | exact ⟨3, by omega, rfl⟩ | exact ⟨4, by omega, rfl⟩ | exact ⟨5, by omega, rfl⟩ | exact ⟨7, by omega, rfl⟩)
                     | (rcases hd with rfl | rfl <;> first | exact ⟨1, by omega, rfl⟩ | exact ⟨2, by omega, rfl⟩ | exact ⟨7, by omega, rfl⟩))
  | n + 9 => simp at ht

end Batchie.Orchestrator
