/-
  C01 helper lemmas, part 3: the fresh treatment / sample tables and the left-merge lookup.
-/
import Batchie.Lemmas.EncodeOrder
import Batchie.Lemmas.EncodeRenumber

namespace Batchie.Screen

/-- the sorted duplicate-free key table (`drop_duplicates().sort_values(by=["name","dose"])`) -/
def sortedKeys (xs : List (Name × Dose)) : List (Name × Dose) := (xs.eraseDups).mergeSort keyLe

/-- the sorted duplicate-free name table (`drop_duplicates().sort_values(by="val")`) -/
def sortedNames (xs : List Name) : List Name := (xs.eraseDups).mergeSort nameLe

/-- key of a treatment-table entry -/
def tKey (e : Name × Dose × Int) : Name × Dose := (e.1, e.2.1)

/-- a table assembled from parallel key and id columns -/
def tableOf (u : List (Name × Dose)) (ids : List Int) : TMap := (u.zip ids).map (fun p => (p.1.1, p.1.2, p.2))

theorem freshTMap_eq (ctrl : Name) (xs : List (Name × Dose)) :
    freshTMap ctrl xs = tableOf (sortedKeys xs) (numberFrom 0 ((sortedKeys xs).map (isControl ctrl))) := by
  simp [freshTMap, tableOf, sortedKeys, renumber_eq_numberFrom]

theorem sortedKeys_nodup (xs : List (Name × Dose)) : (sortedKeys xs).Nodup := nodup_sorted_unique _ _
theorem mem_sortedKeys (xs : List (Name × Dose)) (k) : k ∈ sortedKeys xs ↔ k ∈ xs := mem_sorted_unique _ _ _
theorem sortedKeys_sorted (xs : List (Name × Dose)) : (sortedKeys xs).Pairwise (fun a b => keyLe a b = true) :=
  List.pairwise_mergeSort keyLe_trans keyLe_total _
theorem sortedNames_nodup (xs : List Name) : (sortedNames xs).Nodup := nodup_sorted_unique _ _
theorem mem_sortedNames (xs : List Name) (k) : k ∈ sortedNames xs ↔ k ∈ xs := mem_sorted_unique _ _ _
theorem sortedNames_sorted (xs : List Name) : (sortedNames xs).Pairwise (fun a b => nameLe a b = true) :=
  List.pairwise_mergeSort nameLe_trans nameLe_total _

/-! ### `tableOf` with columns of equal length -/

theorem tableOf_length (u : List (Name × Dose)) (ids : List Int) (h : ids.length = u.length) :
    (tableOf u ids).length = u.length := by simp [tableOf, h]

theorem tableOf_keys (u : List (Name × Dose)) (ids : List Int) (h : ids.length = u.length) :
    (tableOf u ids).map tKey = u := by
  induction u generalizing ids with
  | nil => simp [tableOf]
  | cons a u ih =>
    cases ids with
    | nil => simp at h
    | cons i ids =>
      have := ih ids (by simpa using h)
      simp only [tableOf, List.zip_cons_cons, List.map_cons, tKey] at this ⊢
      rw [this]

theorem tableOf_ids (u : List (Name × Dose)) (ids : List Int) (h : ids.length = u.length) :
    (tableOf u ids).map (·.2.2) = ids := by
  induction u generalizing ids with
  | nil => cases ids <;> simp_all [tableOf]
  | cons a u ih =>
    cases ids with
    | nil => simp at h
    | cons i ids =>
      have := ih ids (by simpa using h)
      simp only [tableOf, List.zip_cons_cons, List.map_cons] at this ⊢
      rw [this]

theorem tableOf_getElem (u : List (Name × Dose)) (ids : List Int) (k : Nat) (hk : k < u.length) (hk' : k < ids.length) :
    (tableOf u ids)[k]'(by simp [tableOf]; omega) = (u[k].1, u[k].2, ids[k]) := by
  simp [tableOf]

theorem mem_tableOf (u : List (Name × Dose)) (ids : List Int) (e : Name × Dose × Int) :
    e ∈ tableOf u ids ↔ ∃ k, ∃ (h1 : k < u.length) (h2 : k < ids.length), e = (u[k].1, u[k].2, ids[k]) := by
  constructor
  · intro h
    obtain ⟨k, hk, rfl⟩ := List.getElem_of_mem h
    have hk2 : k < u.length ∧ k < ids.length := by simp [tableOf] at hk; omega
    exact ⟨k, hk2.1, hk2.2, by simp [tableOf]⟩
  · rintro ⟨k, h1, h2, rfl⟩
    rw [← tableOf_getElem u ids k h1 h2]
    exact List.getElem_mem _

/-! ### the filter-index form of the renumbering -/

/-- in a duplicate-free list, the position of a `p`-row among the `p`-rows is the number of `p`-rows before it -/
theorem idxOf_filter_eq_countP {α : Type} [BEq α] [LawfulBEq α] (p : α → Bool) (u : List α) (hnd : u.Nodup)
    (k : Nat) (hk : k < u.length) (hp : p u[k] = true) :
    (u.filter p).idxOf u[k] = (u.take k).countP p := by
  induction u generalizing k with
  | nil => simp at hk
  | cons a u ih =>
    rw [List.nodup_cons] at hnd
    cases k with
    | zero =>
      simp only [List.getElem_cons_zero] at hp
      simp [hp]
    | succ k =>
      have hk' : k < u.length := by simpa using hk
      simp only [List.getElem_cons_succ] at hp ⊢
      have hne : (a == u[k]) = false := by
        rw [beq_eq_false_iff_ne]
        intro h; exact hnd.1 (h ▸ List.getElem_mem hk')
      rw [List.take_succ_cons, List.countP_cons, List.filter_cons]
      by_cases hpa : p a = true
      · simp only [hpa, if_true, List.idxOf_cons, hne, cond_false, ih hnd.2 k hk' hp]
      · simp only [hpa]
        simpa using ih hnd.2 k hk' hp

theorem count_false_take_map {α : Type} (c : α → Bool) (u : List α) (k : Nat) :
    ((u.map c).take k).count false = (u.take k).countP (fun x => !c x) := by
  rw [← List.map_take, List.count_eq_countP, List.countP_map]
  apply List.countP_congr
  intro x _; cases h : c x <;> simp [h]

end Batchie.Screen
