/-
  C01 helper lemmas, part 3: the fresh treatment / sample tables and the left-merge lookup.
-/
import Batchie.Lemmas.EncodeOrder
import Batchie.Lemmas.EncodeRenumber

namespace Batchie.Screen

/-- the sorted duplicate-free key table (`drop_duplicates().sort_values(by=["name","dose"])`) -/
def sortedKeys (xs : List (Name × Dose)) : List (Name × Dose) := (xs.eraseDups).mergeSort keyLe

/-- the sorted duplicate-free name table (`drop_duplicates().sort_values(by="val")`) -/
def sortedNames (xs : List Name) : List Name := (xs.eraseDups).mergeSort nameLe

/-- key of a treatment-table entry -/
def tKey (e : Name × Dose × Int) : Name × Dose := (e.1, e.2.1)

/-- a table assembled from parallel key and id columns -/
def tableOf (u : List (Name × Dose)) (ids : List Int) : TMap := (u.zip ids).map (fun p => (p.1.1, p.1.2, p.2))

theorem freshTMap_eq (ctrl : Name) (xs : List (Name × Dose)) :
    freshTMap ctrl xs = tableOf (sortedKeys xs) (numberFrom 0 ((sortedKeys xs).map (isControl ctrl))) := by
  simp [freshTMap, tableOf, sortedKeys, renumber_eq_numberFrom]

theorem sortedKeys_nodup (xs : List (Name × Dose)) : (sortedKeys xs).Nodup := nodup_sorted_unique _ _
theorem mem_sortedKeys (xs : List (Name × Dose)) (k) : k ∈ sortedKeys xs ↔ k ∈ xs := mem_sorted_unique _ _ _
theorem sortedKeys_sorted (xs : List (Name × Dose)) : (sortedKeys xs).Pairwise (fun a b => keyLe a b = true) :=
  List.pairwise_mergeSort keyLe_trans keyLe_total _
theorem sortedNames_nodup (xs : List Name) : (sortedNames xs).Nodup := nodup_sorted_unique _ _
theorem mem_sortedNames (xs : List Name) (k) : k ∈ sortedNames xs ↔ k ∈ xs := mem_sorted_unique _ _ _
theorem sortedNames_sorted (xs : List Name) : (sortedNames xs).Pairwise (fun a b => nameLe a b = true) :=
  List.pairwise_mergeSort nameLe_trans nameLe_total _

/-! ### `tableOf` with columns of equal length -/

theorem tableOf_length (u : List (Name × Dose)) (ids : List Int) (h : ids.length = u.length) :
    (tableOf u ids).length = u.length := by simp [tableOf, h]

theorem tableOf_keys (u : List (Name × Dose)) (ids : List Int) (h : ids.length = u.length) :
    (tableOf u ids).map tKey = u := by
  induction u generalizing ids with
  | nil => simp [tableOf]
  | cons a u ih =>
    cases ids with
    | nil => simp at h
    | cons i ids =>
      have := ih ids (by simpa using h)
      simp only [tableOf, List.zip_cons_cons, List.map_cons, tKey] at this ⊢
      rw [this]

theorem tableOf_ids (u : List (Name × Dose)) (ids : List Int) (h : ids.length = u.length) :
    (tableOf u ids).map (·.2.2) = ids := by
  induction u generalizing ids with
  | nil => cases ids <;> simp_all [tableOf]
  | cons a u ih =>
    cases ids with
    | nil => simp at h
    | cons i ids =>
      have := ih ids (by simpa using h)
      simp only [tableOf, List.zip_cons_cons, List.map_cons] at this ⊢
      rw [this]

theorem tableOf_getElem (u : List (Name × Dose)) (ids : List Int) (k : Nat) (hk : k < u.length) (hk' : k < ids.length) :
    (tableOf u ids)[k]'(by simp [tableOf]; omega) = (u[k].1, u[k].2, ids[k]) := by
  simp [tableOf]

theorem mem_tableOf (u : List (Name × Dose)) (ids : List Int) (e : Name × Dose × Int) :
    e ∈ tableOf u ids ↔ ∃ k, ∃ (h1 : k < u.length) (h2 : k < ids.length), e = (u[k].1, u[k].2, ids[k]) := by
  constructor
  · intro h
    obtain ⟨k, hk, rfl⟩ := List.getElem_of_mem h
    have hk2 : k < u.length ∧ k < ids.length := by simp [tableOf] at hk; omega
    exact ⟨k, hk2.1, hk2.2, by simp [tableOf]⟩
  · rintro ⟨k, h1, h2, rfl⟩
    rw [← tableOf_getElem u ids k h1 h2]
    exact List.getElem_mem _

/-! ### the filter-index form of the renumbering -/

/-- in a duplicate-free list, the position of a `p`-row among the `p`-rows is the number of `p`-rows before it -/
theorem idxOf_filter_eq_countP {α : Type} [BEq α] [LawfulBEq α] (p : α → Bool) (u : List α) (hnd : u.Nodup)
    (k : Nat) (hk : k < u.length) (hp : p u[k] = true) :
    (u.filter p).idxOf u[k] = (u.take k).countP p := by
  induction u generalizing k with
  | nil => simp at hk
  | cons a u ih =>
    rw [List.nodup_cons] at hnd
    cases k with
    | zero =>
      simp only [List.getElem_cons_zero] at hp
      simp [hp]
    | succ k =>
      have hk' : k < u.length := by simpa using hk
      simp only [List.getElem_cons_succ] at hp ⊢
      have hne : (a == u[k]) = false := by
        rw [beq_eq_false_iff_ne]
        intro h; exact hnd.1 (h ▸ List.getElem_mem hk')
      rw [List.take_succ_cons, List.countP_cons, List.filter_cons]
      by_cases hpa : p a = true
      · simp only [hpa, if_true, List.idxOf_cons, hne, cond_false, ih hnd.2 k hk' hp]
      · simp only [hpa]
        simpa using ih hnd.2 k hk' hp

theorem count_false_take_map {α : Type} (c : α → Bool) (u : List α) (k : Nat) :
    ((u.map c).take k).count false = (u.take k).countP (fun x => !c x) := by
  rw [← List.map_take, List.count_eq_countP, List.countP_map]
  apply List.countP_congr
  intro x _; cases h : c x <;> simp [h]

theorem inj_of_nodup_map {α β : Type} (f : α → β) (l : List α) (h : (l.map f).Nodup) (x y : α)
    (hx : x ∈ l) (hy : y ∈ l) (hxy : f x = f y) : x = y := by
  induction l with
  | nil => simp at hx
  | cons a l ih =>
    rw [List.map_cons, List.nodup_cons] at h
    rcases List.mem_cons.mp hx with rfl | hx' <;> rcases List.mem_cons.mp hy with rfl | hy'
    · rfl
    · exact absurd (List.mem_map.mpr ⟨y, hy', hxy.symm⟩) h.1
    · exact absurd (List.mem_map.mpr ⟨x, hx', hxy⟩) h.1
    · exact ih h.2 hx' hy'

/-! ### the fresh treatment table over an arbitrary duplicate-free key list -/

/-- the table the encoder builds from a (sorted, duplicate-free) key list `u` -/
def freshTable (ctrl : Name) (u : List (Name × Dose)) : TMap :=
  tableOf u (numberFrom 0 (u.map (isControl ctrl)))

theorem freshTMap_eq_freshTable (ctrl : Name) (xs : List (Name × Dose)) :
    freshTMap ctrl xs = freshTable ctrl (sortedKeys xs) := freshTMap_eq ctrl xs

theorem freshTable_length (ctrl : Name) (u : List (Name × Dose)) : (freshTable ctrl u).length = u.length :=
  tableOf_length _ _ (by simp)

theorem freshTable_keys (ctrl : Name) (u : List (Name × Dose)) : (freshTable ctrl u).map tKey = u :=
  tableOf_keys _ _ (by simp)

theorem freshTable_ids (ctrl : Name) (u : List (Name × Dose)) :
    (freshTable ctrl u).map (·.2.2) = numberFrom 0 (u.map (isControl ctrl)) :=
  tableOf_ids _ _ (by simp)

theorem freshTable_getElem (ctrl : Name) (u : List (Name × Dose)) (k : Nat) (hk : k < u.length) :
    (freshTable ctrl u)[k]'(by rw [freshTable_length]; exact hk) =
      (u[k].1, u[k].2, if isControl ctrl u[k] then (-1 : Int) else (((u.take k).countP (fun x => !isControl ctrl x) : Nat) : Int)) := by
  unfold freshTable
  rw [tableOf_getElem _ _ k hk (by simpa using hk), numberFrom_getElem 0 _ k (by simpa using hk)]
  simp only [List.getElem_map, count_false_take_map]
  simp

theorem mem_freshTable (ctrl : Name) (u : List (Name × Dose)) (e : Name × Dose × Int) :
    e ∈ freshTable ctrl u ↔ ∃ k, ∃ (hk : k < u.length),
      e = (u[k].1, u[k].2, if isControl ctrl u[k] then (-1 : Int) else (((u.take k).countP (fun x => !isControl ctrl x) : Nat) : Int)) := by
  constructor
  · intro h
    obtain ⟨k, hk, rfl⟩ := List.getElem_of_mem h
    have hk' : k < u.length := by rw [freshTable_length] at hk; exact hk
    exact ⟨k, hk', freshTable_getElem ctrl u k hk'⟩
  · rintro ⟨k, hk, rfl⟩
    rw [← freshTable_getElem ctrl u k hk]
    exact List.getElem_mem _

theorem freshTable_control_iff (ctrl : Name) (u : List (Name × Dose)) (e : Name × Dose × Int) (he : e ∈ freshTable ctrl u) :
    e.2.2 = -1 ↔ isControl ctrl (e.1, e.2.1) = true := by
  obtain ⟨k, hk, rfl⟩ := (mem_freshTable ctrl u e).mp he
  by_cases hc : isControl ctrl u[k] = true
  · simp [hc]
  · have hc' : isControl ctrl (u[k].1, u[k].2) = false := by simpa using hc
    simp only [hc]
    constructor
    · intro h; simp at h
    · intro h; simp at h

theorem filter_tableOf_ids (p : Name × Dose → Bool) (u : List (Name × Dose)) (ids : List Int) :
    ((tableOf u ids).filter (fun e => p (tKey e))).map (·.2.2) = maskFilter ids (u.map p) := by
  induction u generalizing ids with
  | nil => cases ids <;> simp [tableOf, maskFilter]
  | cons a u ih =>
    cases ids with
    | nil => simp [tableOf, maskFilter]
    | cons i ids =>
      have := ih ids
      simp only [tableOf, List.zip_cons_cons, List.map_cons, List.filter_cons, tKey, maskFilter] at this ⊢
      by_cases hp : p a = true
      · simp only [hp, if_true, List.map_cons, this]
      · simp only [hp]
        exact this

/-- the non-control ids of the fresh table, in table order, are `0, 1, …, m-1` -/
theorem freshTable_noncontrol_ids (ctrl : Name) (u : List (Name × Dose)) :
    ((freshTable ctrl u).filter (fun e => !isControl ctrl (tKey e))).map (·.2.2)
      = (List.range (u.countP (fun x => !isControl ctrl x))).map (fun (i : Nat) => (i : Int)) := by
  unfold freshTable
  rw [filter_tableOf_ids (fun k => !isControl ctrl k)]
  have := numberFrom_noncontrol 0 (u.map (isControl ctrl))
  simp only [List.map_map] at this
  rw [show (fun k => !isControl ctrl k) = ((fun x => !x) ∘ isControl ctrl) from rfl, this]
  rw [List.count_eq_countP, List.countP_map]
  congr 1
  · funext i; simp
  · congr 1
    apply List.countP_congr
    intro x _; cases h : isControl ctrl x <;> simp [h]

theorem freshTable_inj (ctrl : Name) (u : List (Name × Dose)) (e₁ e₂ : Name × Dose × Int)
    (h₁ : e₁ ∈ freshTable ctrl u) (h₂ : e₂ ∈ freshTable ctrl u) (hid : e₁.2.2 = e₂.2.2) (hnc : e₁.2.2 ≠ -1) : e₁ = e₂ := by
  have c₁ : isControl ctrl (tKey e₁) = false := by
    have := freshTable_control_iff ctrl u e₁ h₁
    cases h : isControl ctrl (tKey e₁)
    · rfl
    · exact absurd (this.mpr h) hnc
  have c₂ : isControl ctrl (tKey e₂) = false := by
    have := freshTable_control_iff ctrl u e₂ h₂
    cases h : isControl ctrl (tKey e₂)
    · rfl
    · exact absurd (hid ▸ this.mpr h) hnc
  have hnd : (((freshTable ctrl u).filter (fun e => !isControl ctrl (tKey e))).map (·.2.2)).Nodup := by
    rw [freshTable_noncontrol_ids]
    rw [List.Nodup, List.pairwise_map]
    exact List.nodup_range.imp (fun h h' => h (Int.ofNat_inj.mp h'))
  exact inj_of_nodup_map _ _ hnd e₁ e₂ (List.mem_filter.mpr ⟨h₁, by simp [c₁]⟩) (List.mem_filter.mpr ⟨h₂, by simp [c₂]⟩) hid

end Batchie.Screen
