/-
  C14 helper lemmas, part 4: every view reachable by a finite composition of view operations has a selection
  vector of the parent's length that equals the set-algebra denotation of the expression.
-/
import Batchie.Lemmas.ViewsToScreen

namespace Batchie.Views
open Batchie.Proto Batchie.Screen

theorem except_bind_ok_iff {ε α β : Type} (x : Except ε α) (f : α → Except ε β) (b : β) :
    x.bind f = .ok b ↔ ∃ a, x = .ok a ∧ f a = .ok b := except_bind_eq_ok x f b

theorem size_eq_of_wf {s : Screen} (w : WF s) : s.size = s.tnames.length := by rw [Screen.size, w.len_snames]

theorem subset_ok_iff (s : Screen) (pid : Nat) (sel : List Bool) (v : View) :
    s.subset pid sel = .ok v ↔ sel.length = s.size ∧ v = { parent := pid, sel := sel } := by
  unfold Screen.subset
  split
  · rename_i h; simp only [bne_iff_ne, ne_eq] at h; constructor
    · intro h'; cases h'
    · rintro ⟨h', _⟩; exact absurd h' h
  · rename_i h; simp only [bne_iff_ne, ne_eq, Decidable.not_not] at h; constructor
    · intro h'; injection h' with h'; exact ⟨h, h'.symm⟩
    · rintro ⟨_, rfl⟩; rfl

theorem view_subset_ok_iff (v : View) (inner : List Bool) (w : View) :
    v.subset inner = .ok w ↔ inner.length = v.sel.count true ∧ w = { parent := v.parent, sel := scatter v.sel inner } := by
  unfold View.subset View.size
  split
  · rename_i h; simp only [bne_iff_ne, ne_eq] at h; constructor
    · intro h'; cases h'
    · rintro ⟨h', _⟩; exact absurd h' h
  · rename_i h; simp only [bne_iff_ne, ne_eq, Decidable.not_not] at h; constructor
    · intro h'; injection h' with h'; exact ⟨h, h'.symm⟩
    · rintro ⟨_, rfl⟩; rfl

theorem combine_ok_iff (a b w : View) :
    a.combine b = .ok w ↔ a.parent = b.parent ∧ w = { parent := a.parent, sel := orSel a.sel b.sel } := by
  unfold View.combine
  split
  · rename_i h; simp only [bne_iff_ne, ne_eq] at h; constructor
    · intro h'; cases h'
    · rintro ⟨h', _⟩; exact absurd h' h
  · rename_i h; simp only [bne_iff_ne, ne_eq, Decidable.not_not] at h; constructor
    · intro h'; injection h' with h'; exact ⟨h, h'.symm⟩
    · rintro ⟨_, rfl⟩; rfl

/-- pointwise relation between a list of expressions and the list of their values -/
inductive Forall₂ {α β : Type} (R : α → β → Prop) : List α → List β → Prop
  | nil : Forall₂ R [] []
  | cons {a b l₁ l₂} : R a b → Forall₂ R l₁ l₂ → Forall₂ R (a :: l₁) (b :: l₂)

theorem Forall₂.imp {α β : Type} {R S : α → β → Prop} (h : ∀ a b, R a b → S a b) {l₁ l₂} (hr : Forall₂ R l₁ l₂) : Forall₂ S l₁ l₂ := by
  induction hr with
  | nil => exact .nil
  | cons hab _ ih => exact .cons (h _ _ hab) ih

theorem Forall₂.exists_of_mem_left {α β : Type} {R : α → β → Prop} {l₁ l₂} (hr : Forall₂ R l₁ l₂) (a : α) (ha : a ∈ l₁) :
    ∃ b, R a b := by
  induction hr with
  | nil => simp at ha
  | cons hab _ ih =>
    rcases List.mem_cons.mp ha with rfl | ha'
    · exact ⟨_, hab⟩
    · exact ih ha'

/-- the left fold `concat` performs is the left fold of the denotations -/
theorem foldl_or_eq_denoteFold (s : Screen) (es : List ViewExpr) (vs : List View)
    (h : Forall₂ (fun e v => v.sel = denote s e) es vs) (acc : List Bool) :
    vs.foldl (fun acc x => List.zipWith (· || ·) acc x.sel) acc = denoteFold s acc es := by
  induction h generalizing acc with
  | nil => simp [denoteFold]
  | cons hev _ ih =>
    simp only [List.foldl_cons, denoteFold, hev]
    exact ih _

theorem length_denoteFold (s : Screen) (n : Nat) (es : List ViewExpr) (hes : ∀ e ∈ es, (denote s e).length = n)
    (acc : List Bool) (hacc : acc.length = n) : (denoteFold s acc es).length = n := by
  induction es generalizing acc with
  | nil => simpa [denoteFold] using hacc
  | cons e es ih =>
    simp only [denoteFold]
    apply ih (fun e' he' => hes e' (by simp [he']))
    rw [length_orSel _ _ (by rw [hacc, hes e (by simp)]), hacc]

mutual
/-- **soundness of evaluation**: a successfully evaluated expression yields a view whose selection vector has the
    parent's length and is the denotation of the expression -/
theorem eval_sound (s : Screen) (w : WF s) : ∀ (e : ViewExpr) (v : View), eval s e = .ok v →
    v.sel.length = s.size ∧ v.sel = denote s e
  | .base pid sel, v, h => by
    simp only [eval] at h
    obtain ⟨h1, rfl⟩ := (subset_ok_iff s pid sel v).mp h
    exact ⟨h1, rfl⟩
  | .observed, v, h => by
    simp only [eval, Screen.subsetObserved] at h
    split at h
    · rename_i v' hv'
      split at hv'
      · injection hv' with hv'; injection h with h; subst hv' h
        exact ⟨by simp only; rw [w.len_mask, size_eq_of_wf w], rfl⟩
      · cases hv'
    · cases h
  | .unobserved, v, h => by
    simp only [eval, Screen.subsetUnobserved] at h
    split at h
    · rename_i v' hv'
      split at hv'
      · injection hv' with hv'; injection h with h; subst hv' h
        exact ⟨by simp only [List.length_map]; rw [w.len_mask, size_eq_of_wf w], rfl⟩
      · cases hv'
    · cases h
  | .plate id, v, h => by
    simp only [eval, Screen.getPlate] at h
    injection h with h; subst h
    exact ⟨by simp only [List.length_map]; rw [w.len_pids, size_eq_of_wf w], rfl⟩
  | .sub e inner, v, h => by
    simp only [eval] at h
    obtain ⟨v0, h0, h1⟩ := (except_bind_ok_iff _ _ _).mp h
    obtain ⟨hl, hd⟩ := eval_sound s w e v0 h0
    obtain ⟨_, rfl⟩ := (view_subset_ok_iff v0 inner v).mp h1
    exact ⟨by simp only [length_scatter]; exact hl, by simp only [denote, hd]⟩
  | .inv e, v, h => by
    simp only [eval] at h
    obtain ⟨v0, h0, h1⟩ := (except_bind_ok_iff _ _ _).mp h
    obtain ⟨hl, hd⟩ := eval_sound s w e v0 h0
    injection h1 with h1; subst h1
    exact ⟨by simp only [View.invert, List.length_map]; exact hl, by simp only [View.invert, denote, hd]⟩
  | .comb a b, v, h => by
    simp only [eval] at h
    obtain ⟨va, ha, h1⟩ := (except_bind_ok_iff _ _ _).mp h
    obtain ⟨vb, hb, h2⟩ := (except_bind_ok_iff _ _ _).mp h1
    obtain ⟨hla, hda⟩ := eval_sound s w a va ha
    obtain ⟨hlb, hdb⟩ := eval_sound s w b vb hb
    obtain ⟨_, rfl⟩ := (combine_ok_iff va vb v).mp h2
    exact ⟨by simp only; rw [length_orSel _ _ (by rw [hla, hlb]), hla], by simp only [denote, hda, hdb]⟩
  | .cat es, v, h => by
    simp only [eval] at h
    obtain ⟨vs, hvs, h1⟩ := (except_bind_ok_iff _ _ _).mp h
    have hall := evalList_sound s w es vs hvs
    cases hall with
    | nil => simp [View.concat] at h1
    | @cons e v0 es' vs' hev hrest =>
      obtain ⟨hl0, hd0⟩ := hev
      cases hrest with
      | nil =>
        simp only [View.concat] at h1
        injection h1 with h1; subst h1
        exact ⟨hl0, by simp only [denote, denoteFold]; exact hd0⟩
      | @cons e1 v1 es'' vs'' hev1 hrest' =>
        simp only [View.concat] at h1
        split at h1
        · cases h1
        · injection h1 with h1; subst h1
          have hf : Forall₂ (fun e v => v.sel = denote s e) (e1 :: es'') (v1 :: vs'') :=
            Forall₂.cons hev1.2 (hrest'.imp (fun _ _ h => h.2))
          have hden := foldl_or_eq_denoteFold s (e1 :: es'') (v1 :: vs'') hf v0.sel
          have hlen : ∀ e' ∈ (e1 :: es''), (denote s e').length = s.size := by
            intro e' he'
            have hall' : Forall₂ (fun e v => v.sel.length = s.size ∧ v.sel = denote s e) (e1 :: es'') (v1 :: vs'') :=
              Forall₂.cons hev1 hrest'
            obtain ⟨v', hx⟩ := hall'.exists_of_mem_left e' he'
            rw [← hx.2]; exact hx.1
          refine ⟨?_, ?_⟩
          · simp only; rw [hden]; exact length_denoteFold s s.size _ hlen _ hl0
          · simp only [denote]; rw [hden, hd0]
  | .uniq e, v, h => by
    simp only [eval] at h
    obtain ⟨v0, h0, h1⟩ := (except_bind_ok_iff _ _ _).mp h
    obtain ⟨hl, hd⟩ := eval_sound s w e v0 h0
    unfold Screen.uniqueFilter at h1
    obtain ⟨_, rfl⟩ := (view_subset_ok_iff v0 _ v).mp h1
    exact ⟨by simp only [length_scatter]; exact hl, by simp only [denote, uniqKeys, hd]⟩
theorem evalList_sound (s : Screen) (w : WF s) : ∀ (es : List ViewExpr) (vs : List View), evalList s es = .ok vs →
    Forall₂ (fun e v => v.sel.length = s.size ∧ v.sel = denote s e) es vs
  | [], vs, h => by
    simp only [evalList] at h
    injection h with h; subst h; exact Forall₂.nil
  | e :: es, vs, h => by
    simp only [evalList] at h
    obtain ⟨v, hv, h1⟩ := (except_bind_ok_iff _ _ _).mp h
    obtain ⟨vs', hvs', h2⟩ := (except_bind_ok_iff _ _ _).mp h1
    injection h2 with h2; subst h2
    exact Forall₂.cons (eval_sound s w e v hv) (evalList_sound s w es vs' hvs')
end

end Batchie.Views
