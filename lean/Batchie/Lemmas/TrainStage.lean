/-
  C03 / training stage: what the model receives decodes through the stage's own tables; the witness on which the
  materialised variant (`to_screen()` without mappings, seeded change S7-C03) hands over other ids.
-/
import Batchie.Model.TrainStage
import Batchie.Lemmas.LifecycleRows
import Batchie.Lemmas.LifecycleExamples

namespace Batchie.Lifecycle
open Batchie.Proto Batchie.Screen Batchie.TrainStage

theorem mem_trainRows {s : Screen} {row : TrainRow} (h : row ∈ trainRows s) :
    ∃ i, i < s.size ∧ s.mask[i]! = true ∧ row = rowAt s i := by
  unfold trainRows observedIdx at h
  obtain ⟨i, hi, rfl⟩ := List.mem_map.1 h
  rw [List.mem_filter, List.mem_range] at hi
  exact ⟨i, hi.1, hi.2, rfl⟩

theorem rowAt_mem_trainRows {s : Screen} {i : Nat} (hi : i < s.size) (hm : s.mask[i]! = true) : rowAt s i ∈ trainRows s := by
  unfold trainRows observedIdx
  exact List.mem_map.2 ⟨i, List.mem_filter.2 ⟨List.mem_range.2 hi, hm⟩, rfl⟩

/-- every row handed to the model carries the unique hits of its names in the stage's own tables -/
theorem trainRows_encoded {s : Screen} (h : WF s) {row : TrainRow} (hr : row ∈ trainRows s) :
    sLookup s.smap row.sname = [row.sid]
    ∧ ∀ c, c < s.arity → tLookup s.tmap (row.tnames[c]!, row.tdoses[c]!) = [row.tids[c]!] := by
  obtain ⟨i, hi, _, rfl⟩ := mem_trainRows hr
  have e := rowsEncoded_of_wf h
  refine ⟨e.sample i hi, fun c hc => e.treat i c ?_ hc⟩
  have : s.size = s.tnames.length := h.len_sn
  omega

/-! ### the witness: samples `s1`, `s7`, one plate each, only the plate of the LAST-sorting sample observed -/

def trainWitnessRaw : Raw :=
  { ctrl := [99], arity := 2,
    tnames := [[[116, 49], [116, 51]], [[116, 53], [116, 55]], [[116, 55], [116, 53]]],
    tdoses := [[1, 1], [1, 1], [1, 1]],
    snames := [[115, 49], [115, 55], [115, 55]],
    pnames := [[112, 49], [112, 55], [112, 55]],
    obs := some [1, 2, 3], mask := some [false, true, true], tmap := none, smap := none }

def trainWitness : Screen :=
  { ctrl := [99], arity := 2,
    tnames := [[[116, 49], [116, 51]], [[116, 53], [116, 55]], [[116, 55], [116, 53]]],
    tdoses := [[1, 1], [1, 1], [1, 1]],
    snames := [[115, 49], [115, 55], [115, 55]],
    pnames := [[112, 49], [112, 55], [112, 55]],
    obs := [1, 2, 3], mask := [false, true, true],
    tids := [[0, 1], [2, 3], [3, 2]],
    sids := [0, 1, 1],
    pids := [0, 1, 1],
    tmap := [([116, 49], 1, 0), ([116, 51], 1, 1), ([116, 53], 1, 2), ([116, 55], 1, 3)],
    smap := [([115, 49], 0), ([115, 55], 1)],
    pmap := [([112, 49], 0), ([112, 55], 1)] }

theorem trainWitness_mk : mk? trainWitnessRaw = .ok trainWitness := by rw [mk?_eqK]; decide

theorem trainWitness_valid : Valid trainWitness := ⟨trainWitnessRaw, trainWitness_mk⟩

/-- what the model receives on the witness: sample `s7` with id 1, treatments `t5`, `t7` with ids 2, 3 -/
theorem trainWitness_rows :
    trainRows trainWitness
      = [{ sname := [115, 55], tnames := [[116, 53], [116, 55]], tdoses := [1, 1], obs := 2, sid := 1, tids := [2, 3] },
         { sname := [115, 55], tnames := [[116, 55], [116, 53]], tdoses := [1, 1], obs := 3, sid := 1, tids := [3, 2] }] := by
  decide

/-- through `to_screen()` the same rows arrive with ids re-encoded from the observed rows alone -/
theorem trainWitness_rows_materialised :
    trainRowsMaterialised trainWitness
      = .ok [{ sname := [115, 55], tnames := [[116, 53], [116, 55]], tdoses := [1, 1], obs := 2, sid := 0, tids := [0, 1] },
             { sname := [115, 55], tnames := [[116, 55], [116, 53]], tdoses := [1, 1], obs := 3, sid := 0, tids := [1, 0] }] := by
  simp only [trainRowsMaterialised, Screen.subsetObserved, Screen.viewToScreen, mk?_eqK]
  decide

/-! ### regression witness for seeded change S8-C03: the hold-out drawn BEFORE a smoother that drops a sample, the smoother applied
    to the training half only (`subset(...).to_screen()` re-encodes it) -/

/-- the held-out half of `trainWitness` for the selection "row 2": sample `s7` keeps the parent's id 1 -/
def splitWitnessTest : Screen :=
  { ctrl := [99], arity := 2, tnames := [[[116, 55], [116, 53]]], tdoses := [[1, 1]], snames := [[115, 55]], pnames := [[112, 55]],
    obs := [3], mask := [true], tids := [[3, 2]], sids := [1], pids := [0],
    tmap := [([116, 49], 1, 0), ([116, 51], 1, 1), ([116, 53], 1, 2), ([116, 55], 1, 3)],
    smap := [([115, 49], 0), ([115, 55], 1)], pmap := [([112, 55], 0)] }

/-- the training half: rows 0 and 1, the parent's mappings -/
def splitWitnessKeep : Screen :=
  { ctrl := [99], arity := 2, tnames := [[[116, 49], [116, 51]], [[116, 53], [116, 55]]], tdoses := [[1, 1], [1, 1]],
    snames := [[115, 49], [115, 55]], pnames := [[112, 49], [112, 55]], obs := [1, 2], mask := [false, true],
    tids := [[0, 1], [2, 3]], sids := [0, 1], pids := [0, 1],
    tmap := [([116, 49], 1, 0), ([116, 51], 1, 1), ([116, 53], 1, 2), ([116, 55], 1, 3)],
    smap := [([115, 49], 0), ([115, 55], 1)], pmap := [([112, 49], 0), ([112, 55], 1)] }

/-- the training half after a smoother dropped the one-plate sample `s1` through `subset(...).to_screen()`: re-encoded -/
def splitWitnessKeepSmoothed : Screen :=
  { ctrl := [99], arity := 2, tnames := [[[116, 53], [116, 55]]], tdoses := [[1, 1]], snames := [[115, 55]], pnames := [[112, 55]],
    obs := [2], mask := [true], tids := [[0, 1]], sids := [0], pids := [0],
    tmap := [([116, 53], 1, 0), ([116, 55], 1, 1)], smap := [([115, 55], 0)], pmap := [([112, 55], 0)] }

theorem splitWitness_holdout : Batchie.Retro.holdout trainWitness [false, false, true] = .ok (splitWitnessKeep, splitWitnessTest) := by
  simp only [Batchie.Retro.holdout, Batchie.Retro.holdoutKeep, Batchie.Retro.holdoutTest, mk?_eqK]
  decide

theorem splitWitness_smooth_training_only :
    splitWitnessKeep.viewToScreen { parent := 0, sel := [false, true] } = .ok splitWitnessKeepSmoothed := by
  simp only [Screen.viewToScreen, mk?_eqK]
  decide

end Batchie.Lifecycle
