/-
  C01 helper lemmas, part 5: `Screen.mk?` (the model of `Screen.__init__`) taken apart.
  `mkStaged` is the same function written as a single chain of stages; `mk?_eq_mkStaged` proves
  they are equal for every input, and `mk?_ok_iff` characterises success.
-/
import Batchie.Lemmas.EncodeLookup

namespace Batchie.Screen
open Batchie.Proto

/-- the column-major (name, dose) cells handed to the treatment encoder -/
def allKeys (r : Raw) : List (Name × Dose) :=
  ((List.range r.arity).flatMap (fun i => column r.tnames i)).zip ((List.range r.arity).flatMap (fun i => column r.tdoses i))

/-- observations after the defaults of `__init__` -/
def obsOf (r : Raw) : List Nat :=
  match r.obs with
  | some o => o
  | none => List.replicate r.tnames.length 0

/-- observation mask after the defaults of `__init__` -/
def maskOf (r : Raw) : List Bool :=
  match r.obs with
  | some _ => (match r.mask with | some m => m | none => List.replicate r.tnames.length true)
  | none => List.replicate r.tnames.length false

def obsLenBad (r : Raw) : Bool :=
  match r.obs with
  | some o => o.length != r.tnames.length
  | none => false

def tmapBad (r : Raw) : Bool := match r.tmap with | some m => !isZeroIndexed (m.map (·.2.2)) | none => false
def smapBad (r : Raw) : Bool := match r.smap with | some m => !isZeroIndexed (m.map (·.2)) | none => false

def mkStaged (r : Raw) : Except Err Screen :=
  if (r.tdoses.length != r.tnames.length || r.snames.length != r.tnames.length || r.pnames.length != r.tnames.length) = true then .error .valueError
  else if (r.tnames.any (·.length != r.arity) || r.tdoses.any (·.length != r.arity)) = true then .error .valueError
  else if (r.obs.isNone && r.mask.isSome) = true then .error .valueError
  else if obsLenBad r = true then .error .valueError
  else if ((maskOf r).length != r.tnames.length) = true then .error .indexError
  else if (!plateUniform r.pnames (maskOf r)) = true then .error .valueError
  else if tmapBad r = true then .error .valueError
  else if smapBad r = true then .error .valueError
  else (encodeTreatments r.ctrl (allKeys r) r.tmap).bind fun t =>
    if (t.1.length != r.tnames.length * r.arity) = true then .error .other
    else (encode1d r.snames r.smap).bind fun sm =>
      if (sm.1.length != r.tnames.length) = true then .error .other
      else (encode1d r.pnames none).bind fun pm =>
        .ok { ctrl := r.ctrl, arity := r.arity, tnames := r.tnames, tdoses := r.tdoses, snames := r.snames,
              pnames := r.pnames, obs := obsOf r, mask := maskOf r,
              tids := unflattenColumns t.1 r.tnames.length r.arity,
              sids := sm.1, pids := pm.1, tmap := t.2, smap := sm.2, pmap := pm.2 }

theorem except_bind_error {ε α β : Type} (e : ε) (f : α → Except ε β) : Except.bind (Except.error e) f = .error e := rfl

theorem except_bind_ok {ε α β : Type} (a : α) (f : α → Except ε β) : Except.bind (Except.ok a : Except ε α) f = f a := rfl

theorem mk?_eq_mkStaged (r : Raw) : mk? r = mkStaged r := by
  obtain ⟨ctrl, arity, tnames, tdoses, snames, pnames, obs, mask, tmap, smap⟩ := r
  cases obs <;> cases mask <;> cases tmap <;> cases smap <;>
    simp only [mk?, mkStaged, obsOf, maskOf, obsLenBad, tmapBad, smapBad, allKeys, bind, pure, Except.pure, throw, throwThe,
      MonadExceptOf.throw, except_bind_error, except_bind_ok, Option.isNone_none, Option.isNone_some, Option.isSome_none, Option.isSome_some,
      Bool.and_true, Bool.and_false, Bool.false_eq_true, if_false, if_true] <;> rfl

/-- everything that holds when `Screen(...)` succeeded with result `s` -/
structure MkOk (r : Raw) (s : Screen) : Prop where
  len_tdoses : r.tdoses.length = r.tnames.length
  len_snames : r.snames.length = r.tnames.length
  len_pnames : r.pnames.length = r.tnames.length
  arity_tnames : ∀ row ∈ r.tnames, row.length = r.arity
  arity_tdoses : ∀ row ∈ r.tdoses, row.length = r.arity
  mask_needs_obs : (r.obs.isNone && r.mask.isSome) = false
  len_obs : obsLenBad r = false
  len_mask : (maskOf r).length = r.tnames.length
  uniform : plateUniform r.pnames (maskOf r) = true
  tmap_dense : tmapBad r = false
  smap_dense : smapBad r = false
  tenc : ∃ tflat, encodeTreatments r.ctrl (allKeys r) r.tmap = .ok (tflat, s.tmap) ∧ tflat.length = r.tnames.length * r.arity ∧
            s.tids = unflattenColumns tflat r.tnames.length r.arity
  senc : encode1d r.snames r.smap = .ok (s.sids, s.smap)
  len_sids : s.sids.length = r.tnames.length
  penc : encode1d r.pnames none = .ok (s.pids, s.pmap)
  ctrl_eq : s.ctrl = r.ctrl
  arity_eq : s.arity = r.arity
  tnames_eq : s.tnames = r.tnames
  tdoses_eq : s.tdoses = r.tdoses
  snames_eq : s.snames = r.snames
  pnames_eq : s.pnames = r.pnames
  obs_eq : s.obs = obsOf r
  mask_eq : s.mask = maskOf r

theorem except_bind_eq_ok {ε α β : Type} (x : Except ε α) (f : α → Except ε β) (b : β) :
    x.bind f = .ok b ↔ ∃ a, x = .ok a ∧ f a = .ok b := by
  cases x with
  | error e => simp [Except.bind]
  | ok a => simp [Except.bind]

theorem mkStaged_ok_iff (r : Raw) (s : Screen) : mkStaged r = .ok s ↔ MkOk r s := by
  unfold mkStaged
  constructor
  · intro h
    split at h; · cases h
    rename_i c1
    split at h; · cases h
    rename_i c2
    split at h; · cases h
    rename_i c3
    split at h; · cases h
    rename_i c4
    split at h; · cases h
    rename_i c5
    split at h; · cases h
    rename_i c6
    split at h; · cases h
    rename_i c7
    split at h; · cases h
    rename_i c8
    obtain ⟨t, ht, h⟩ := (except_bind_eq_ok _ _ _).mp h
    split at h; · cases h
    rename_i c9
    obtain ⟨sm, hsm, h⟩ := (except_bind_eq_ok _ _ _).mp h
    split at h; · cases h
    rename_i c10
    obtain ⟨pm, hpm, h⟩ := (except_bind_eq_ok _ _ _).mp h
    injection h with h
    subst h
    simp only [Bool.or_eq_true, bne_iff_ne, ne_eq, not_or, Decidable.not_not, List.any_eq_true, not_exists, not_and,
      Bool.not_eq_true, Bool.not_eq_eq_eq_not, Bool.not_true] at c1 c2 c3 c4 c5 c6 c7 c8 c9 c10
    exact { len_tdoses := c1.1.1, len_snames := c1.1.2, len_pnames := c1.2, arity_tnames := c2.1, arity_tdoses := c2.2,
            mask_needs_obs := c3, len_obs := c4, len_mask := c5, uniform := by simpa using c6, tmap_dense := c7, smap_dense := c8,
            tenc := ⟨t.1, ht, c9, rfl⟩, senc := hsm, len_sids := c10, penc := hpm, ctrl_eq := rfl, arity_eq := rfl,
            tnames_eq := rfl, tdoses_eq := rfl, snames_eq := rfl, pnames_eq := rfl, obs_eq := rfl, mask_eq := rfl }
  · intro m
    obtain ⟨tflat, ht, htl, htids⟩ := m.tenc
    rw [if_neg (by simp [m.len_tdoses, m.len_snames, m.len_pnames])]
    rw [if_neg (by
      simp only [Bool.or_eq_true, List.any_eq_true, bne_iff_ne, ne_eq, not_or, not_exists, not_and, Decidable.not_not]
      exact ⟨m.arity_tnames, m.arity_tdoses⟩)]
    rw [if_neg (by simp [m.mask_needs_obs])]
    rw [if_neg (by simp [m.len_obs])]
    rw [if_neg (by simp [m.len_mask])]
    rw [if_neg (by simp [m.uniform])]
    rw [if_neg (by simp [m.tmap_dense])]
    rw [if_neg (by simp [m.smap_dense])]
    rw [ht, except_bind_ok]
    rw [if_neg (by simp [htl])]
    rw [m.senc, except_bind_ok]
    rw [if_neg (by simp [m.len_sids])]
    rw [m.penc, except_bind_ok]
    congr 1
    obtain ⟨⟩ := s
    simp only at *
    have := m.ctrl_eq; have := m.arity_eq; have := m.tnames_eq; have := m.tdoses_eq; have := m.snames_eq
    have := m.pnames_eq; have := m.obs_eq; have := m.mask_eq
    simp_all

theorem mk?_ok_iff (r : Raw) (s : Screen) : mk? r = .ok s ↔ MkOk r s := by
  rw [mk?_eq_mkStaged]; exact mkStaged_ok_iff r s

end Batchie.Screen
