/-
  C07, part 3: `ChunkedDistanceMatrix` -- `add_value`, `combine` (duplicate suppression), `concat`,
  `is_complete`, `to_dense` -- on the results of independently computed chunks.
-/
import Batchie.Lemmas.ChunksBounds
import Mathlib.Data.List.Perm.Subperm

namespace Batchie.Chunks
open Batchie.PyInt Batchie.Gen Batchie.Proto

variable {α : Type}

/-! ### pure counterparts of the monadic code -/

/-- one step of `combine`: append `e` unless its `(row, col)` is already present -/
def stepMerge (acc : List (Int × Int × α)) (e : Int × Int × α) : List (Int × Int × α) :=
  if (acc.map (fun e => (e.1, e.2.1))).contains (e.1, e.2.1) then acc else acc ++ [e]

def mergeEntries (A B : List (Int × Int × α)) : List (Int × Int × α) := B.foldl stepMerge A

/-- the entries chunk `c` of `k` writes, in order -/
def chunkEntries (n c k : Int) (m : Int → Int → α) : List (Int × Int × α) :=
  (chunkPairs n c k).map (fun p => (p.1, p.2, m p.1 p.2))

def chunkResult (n c k : Int) (m : Int → Int → α) : CDM α := { size := n, entries := chunkEntries n c k m }

/-- the entry list after concatenating chunk results `cs` onto an accumulator `A` -/
def assembled (n k : Int) (m : Int → Int → α) (A : List (Int × Int × α)) (cs : List Int) :
    List (Int × Int × α) :=
  cs.foldl (fun E c => mergeEntries E (chunkEntries n c k m)) A

/-- dense matrix of a function on `0..n-1` -/
def denseSpec (n : Int) (g : Int → Int → α) : List (List α) :=
  let idx := (List.range n.toNat).map (fun (i : Nat) => (i : Int))
  idx.map (fun r => idx.map (fun c => g r c))

/-! ### add_value / calcChunk -/

theorem addValue_ok (a : CDM α) (i j : Int) (v : α) (hi : i < a.size) (hj : j < a.size) (hji : j ≤ i) :
    a.addValue i j v = .ok { a with entries := a.entries ++ [(i, j, v)] } := by
  unfold CDM.addValue
  have h1 : ¬ (i ≥ a.size) := by omega
  have h2 : ¬ (j ≥ a.size) := by omega
  have h3 : ¬ (i < j) := by omega
  simp [h1, h2, h3]

theorem foldlM_addValue (n : Int) (m : Int → Int → α) (idx : List (Int × Int))
    (h : ∀ p ∈ idx, p.1 < n ∧ p.2 < n ∧ p.2 ≤ p.1) (A : List (Int × Int × α)) :
    idx.foldlM (fun (acc : CDM α) p => acc.addValue p.1 p.2 (m p.1 p.2)) ({ size := n, entries := A } : CDM α)
      = .ok { size := n, entries := A ++ idx.map (fun p => (p.1, p.2, m p.1 p.2)) } := by
  induction idx generalizing A with
  | nil => simp [pure, Except.pure]
  | cons p idx ih =>
    obtain ⟨h1, h2, h3⟩ := h p (by simp)
    rw [List.foldlM_cons, addValue_ok _ _ _ _ h1 h2 h3]
    simp only [bind, Except.bind]
    rw [ih (fun q hq => h q (by simp [hq]))]
    simp

theorem chunk_ok (n c k : Int) (hk : 1 ≤ k) (hc0 : 0 ≤ c) (hck : c < k) :
    chunk n c k = .ok (chunkPairs n c k) := by
  unfold chunk
  have he : chunkErr n c k = false := by
    rw [chunkErr_eq]
    have : k ≠ 0 := by omega
    simp [hck, this]
  have h0 := chunkStart_nonneg n c k hk hc0
  have h1 := chunkStart_le_end n c k hk
  have h2 : ¬ (chunkStart n c k < 0) := by omega
  have h3 : ¬ (chunkEnd n c k - chunkStart n c k < 0) := by omega
  simp [he, h2, h3]

theorem calcChunk_ok (n c k : Int) (m : Int → Int → α) (hk : 1 ≤ k) (hc0 : 0 ≤ c) (hck : c < k) :
    calcChunk n c k m = .ok (chunkResult n c k m) := by
  unfold calcChunk
  rw [chunk_ok n c k hk hc0 hck]
  simp only [bind, Except.bind]
  unfold CDM.empty
  rw [foldlM_addValue]
  · simp [chunkResult, chunkEntries]
  · intro p hp
    have := (mem_lowerTri).1 (chunkPairs_subset n c k hp)
    omega

/-! ### combine / concat -/

theorem foldlM_combine (n : Int) (B : List (Int × Int × α))
    (hB : ∀ e ∈ B, e.1 < n ∧ e.2.1 < n ∧ e.2.1 ≤ e.1) (A : List (Int × Int × α)) :
    B.foldlM (fun (acc : CDM α) e =>
        if acc.keys.contains (e.1, e.2.1) then .ok acc else acc.addValue e.1 e.2.1 e.2.2)
      ({ size := n, entries := A } : CDM α) = .ok { size := n, entries := mergeEntries A B } := by
  induction B generalizing A with
  | nil => simp [pure, Except.pure, mergeEntries]
  | cons e B ih =>
    obtain ⟨h1, h2, h3⟩ := hB e (by simp)
    rw [List.foldlM_cons]
    have hstep : (if (CDM.keys ({ size := n, entries := A } : CDM α)).contains (e.1, e.2.1)
          then (Except.ok ({ size := n, entries := A } : CDM α) : Except Err (CDM α))
          else CDM.addValue ({ size := n, entries := A } : CDM α) e.1 e.2.1 e.2.2)
        = .ok { size := n, entries := stepMerge A e } := by
      unfold stepMerge CDM.keys
      split
      · rfl
      · rw [addValue_ok _ _ _ _ h1 h2 h3]
    rw [hstep]
    simp only [bind, Except.bind]
    rw [ih (fun q hq => hB q (by simp [hq]))]
    simp [mergeEntries]

theorem combine_ok (n : Int) (A B : List (Int × Int × α))
    (hB : ∀ e ∈ B, e.1 < n ∧ e.2.1 < n ∧ e.2.1 ≤ e.1) :
    CDM.combine ({ size := n, entries := A } : CDM α) { size := n, entries := B }
      = .ok { size := n, entries := mergeEntries A B } := by
  unfold CDM.combine
  simp only [bne_self_eq_false, Bool.false_eq_true, if_false]
  exact foldlM_combine n B hB A

theorem concat_cons (a : CDM α) (rest : List (CDM α)) :
    CDM.concat (a :: rest) =
      rest.foldlM (fun acc x => if acc.size != x.size then .error .valueError else acc.combine x) a := by
  cases rest with
  | nil => simp [CDM.concat, pure, Except.pure]
  | cons b rest => simp [CDM.concat]

theorem chunkEntries_inbounds (n c k : Int) (m : Int → Int → α) :
    ∀ e ∈ chunkEntries n c k m, e.1 < n ∧ e.2.1 < n ∧ e.2.1 ≤ e.1 := by
  intro e he
  unfold chunkEntries at he
  rw [List.mem_map] at he
  obtain ⟨p, hp, rfl⟩ := he
  have := (mem_lowerTri).1 (chunkPairs_subset n c k hp)
  simp only; omega

theorem foldlM_concat_chunks (n k : Int) (m : Int → Int → α) (cs : List Int) (A : List (Int × Int × α)) :
    (cs.map (fun c => chunkResult n c k m)).foldlM
        (fun acc x => if acc.size != x.size then .error .valueError else acc.combine x)
        ({ size := n, entries := A } : CDM α)
      = .ok { size := n, entries := assembled n k m A cs } := by
  induction cs generalizing A with
  | nil => simp [pure, Except.pure, assembled]
  | cons c cs ih =>
    rw [List.map_cons, List.foldlM_cons]
    simp only [chunkResult, bne_self_eq_false, Bool.false_eq_true, if_false]
    rw [combine_ok n A _ (chunkEntries_inbounds n c k m)]
    simp only [bind, Except.bind]
    have := ih (mergeEntries A (chunkEntries n c k m))
    simp only [chunkResult] at this
    rw [this]
    simp [assembled]

theorem mapM_ok {β γ : Type} (f : β → Except Err γ) (g : β → γ) (l : List β)
    (h : ∀ x ∈ l, f x = .ok (g x)) : l.mapM f = .ok (l.map g) := by
  induction l with
  | nil => simp [pure, Except.pure]
  | cons x l ih =>
    rw [List.mapM_cons, h x (by simp), ih (fun y hy => h y (by simp [hy]))]
    simp [bind, Except.bind, pure, Except.pure]

/-- the pipeline on a non-empty list of valid chunk indices, in closed form -/
theorem assemble_ok (n k : Int) (m : Int → Int → α) (hk : 1 ≤ k) (c₀ : Int) (cs : List Int)
    (hvalid : ∀ c ∈ c₀ :: cs, 0 ≤ c ∧ c < k) :
    assemble n k m (c₀ :: cs) = .ok { size := n, entries := assembled n k m (chunkEntries n c₀ k m) cs } := by
  unfold assemble
  rw [mapM_ok _ (fun c => chunkResult n c k m) _
    (fun c hc => calcChunk_ok n c k m hk (hvalid c hc).1 (hvalid c hc).2)]
  simp only [List.map_cons]
  rw [concat_cons]
  exact foldlM_concat_chunks n k m cs _

theorem assemble_nil (n k : Int) (m : Int → Int → α) : assemble n k m [] = .error .valueError := by
  simp [assemble, CDM.concat, pure, Except.pure]

/-! ### what `combine` keeps -/

abbrev keysOf (E : List (Int × Int × α)) : List (Int × Int) := E.map (fun e => (e.1, e.2.1))

theorem stepMerge_cases (A : List (Int × Int × α)) (e : Int × Int × α) :
    ((e.1, e.2.1) ∈ keysOf A ∧ stepMerge A e = A) ∨ ((e.1, e.2.1) ∉ keysOf A ∧ stepMerge A e = A ++ [e]) := by
  unfold stepMerge
  by_cases h : (e.1, e.2.1) ∈ keysOf A
  · left; refine ⟨h, ?_⟩
    have : (List.map (fun e => (e.1, e.2.1)) A).contains (e.1, e.2.1) = true := by
      rw [List.contains_iff_mem]; exact h
    rw [if_pos this]
  · right; refine ⟨h, ?_⟩
    have : ¬ ((List.map (fun e => (e.1, e.2.1)) A).contains (e.1, e.2.1) = true) := by
      rw [List.contains_iff_mem]; exact h
    rw [if_neg this]

theorem mem_keys_merge (A B : List (Int × Int × α)) (p : Int × Int) :
    p ∈ keysOf (mergeEntries A B) ↔ p ∈ keysOf A ∨ p ∈ keysOf B := by
  induction B generalizing A with
  | nil => simp [mergeEntries]
  | cons e B ih =>
    have : mergeEntries A (e :: B) = mergeEntries (stepMerge A e) B := by simp [mergeEntries]
    rw [this, ih]
    rcases stepMerge_cases A e with ⟨h1, h2⟩ | ⟨h1, h2⟩
    · rw [h2]
      constructor
      · rintro (h | h)
        · exact Or.inl h
        · right; simp only [keysOf, List.map_cons, List.mem_cons]; exact Or.inr h
      · rintro (h | h)
        · exact Or.inl h
        · simp only [keysOf, List.map_cons, List.mem_cons] at h
          rcases h with rfl | h
          · exact Or.inl h1
          · exact Or.inr h
    · rw [h2]
      simp only [keysOf, List.map_append, List.map_cons, List.map_nil, List.mem_append, List.mem_cons,
        List.not_mem_nil, or_false]
      constructor
      · rintro ((h | h) | h)
        · exact Or.inl h
        · exact Or.inr (Or.inl h)
        · exact Or.inr (Or.inr h)
      · rintro (h | h | h)
        · exact Or.inl (Or.inl h)
        · exact Or.inl (Or.inr h)
        · exact Or.inr h

theorem mem_merge (A B : List (Int × Int × α)) (e : Int × Int × α) :
    e ∈ mergeEntries A B → e ∈ A ∨ e ∈ B := by
  induction B generalizing A with
  | nil => simp [mergeEntries]
  | cons b B ih =>
    have : mergeEntries A (b :: B) = mergeEntries (stepMerge A b) B := by simp [mergeEntries]
    rw [this]
    intro h
    rcases ih _ h with h | h
    · rcases stepMerge_cases A b with ⟨_, h2⟩ | ⟨_, h2⟩
      · rw [h2] at h; exact Or.inl h
      · rw [h2] at h
        simp only [List.mem_append, List.mem_cons, List.not_mem_nil, or_false] at h
        rcases h with h | rfl
        · exact Or.inl h
        · exact Or.inr (by simp)
    · exact Or.inr (by simp [h])

theorem nodup_keys_merge (A B : List (Int × Int × α)) (hA : (keysOf A).Nodup) :
    (keysOf (mergeEntries A B)).Nodup := by
  induction B generalizing A with
  | nil => simpa [mergeEntries] using hA
  | cons b B ih =>
    have : mergeEntries A (b :: B) = mergeEntries (stepMerge A b) B := by simp [mergeEntries]
    rw [this]
    apply ih
    rcases stepMerge_cases A b with ⟨_, h2⟩ | ⟨h1, h2⟩
    · rw [h2]; exact hA
    · rw [h2]
      simp only [keysOf, List.map_append, List.map_cons, List.map_nil]
      rw [List.nodup_append]
      refine ⟨hA, by simp, ?_⟩
      intro a ha b' hb'
      simp only [List.mem_cons, List.not_mem_nil, or_false] at hb'
      subst hb'
      intro heq; subst heq; exact h1 ha

theorem keys_chunkEntries (n c k : Int) (m : Int → Int → α) :
    keysOf (chunkEntries n c k m) = chunkPairs n c k := by
  simp [keysOf, chunkEntries, List.map_map, Function.comp_def]

/-! ### the assembled entry list -/

theorem mem_keys_assembled (n k : Int) (m : Int → Int → α) (A : List (Int × Int × α)) (cs : List Int)
    (p : Int × Int) :
    p ∈ keysOf (assembled n k m A cs) ↔ p ∈ keysOf A ∨ ∃ c ∈ cs, p ∈ chunkPairs n c k := by
  induction cs generalizing A with
  | nil => simp [assembled]
  | cons c cs ih =>
    have : assembled n k m A (c :: cs) = assembled n k m (mergeEntries A (chunkEntries n c k m)) cs := by
      simp [assembled]
    rw [this, ih, mem_keys_merge, keys_chunkEntries]
    constructor
    · rintro ((h | h) | ⟨c', hc', h⟩)
      · exact Or.inl h
      · exact Or.inr ⟨c, by simp, h⟩
      · exact Or.inr ⟨c', by simp [hc'], h⟩
    · rintro (h | ⟨c', hc', h⟩)
      · exact Or.inl (Or.inl h)
      · simp only [List.mem_cons] at hc'
        rcases hc' with rfl | hc'
        · exact Or.inl (Or.inr h)
        · exact Or.inr ⟨c', hc', h⟩

theorem mem_assembled (n k : Int) (m : Int → Int → α) (A : List (Int × Int × α)) (cs : List Int)
    (e : Int × Int × α) :
    e ∈ assembled n k m A cs → e ∈ A ∨ ∃ c ∈ cs, e ∈ chunkEntries n c k m := by
  induction cs generalizing A with
  | nil => simp [assembled]
  | cons c cs ih =>
    have : assembled n k m A (c :: cs) = assembled n k m (mergeEntries A (chunkEntries n c k m)) cs := by
      simp [assembled]
    rw [this]
    intro h
    rcases ih _ h with h | ⟨c', hc', h⟩
    · rcases mem_merge _ _ _ h with h | h
      · exact Or.inl h
      · exact Or.inr ⟨c, by simp, h⟩
    · exact Or.inr ⟨c', by simp [hc'], h⟩

theorem nodup_keys_assembled (n k : Int) (m : Int → Int → α) (A : List (Int × Int × α)) (cs : List Int)
    (hA : (keysOf A).Nodup) : (keysOf (assembled n k m A cs)).Nodup := by
  induction cs generalizing A with
  | nil => simpa [assembled] using hA
  | cons c cs ih =>
    have : assembled n k m A (c :: cs) = assembled n k m (mergeEntries A (chunkEntries n c k m)) cs := by
      simp [assembled]
    rw [this]
    exact ih _ (nodup_keys_merge _ _ hA)

/-- summary of the assembled list for a non-empty index list `c₀ :: cs` -/
theorem assembled_spec (n k : Int) (m : Int → Int → α) (c₀ : Int) (cs : List Int) :
    let E := assembled n k m (chunkEntries n c₀ k m) cs
    (keysOf E).Nodup ∧
    (∀ p, p ∈ keysOf E ↔ ∃ c ∈ c₀ :: cs, p ∈ chunkPairs n c k) ∧
    (∀ e ∈ E, (e.1, e.2.1) ∈ lowerTri n ∧ e.2.2 = m e.1 e.2.1) := by
  refine ⟨?_, ?_, ?_⟩
  · apply nodup_keys_assembled
    rw [keys_chunkEntries]; exact nodup_chunkPairs n c₀ k
  · intro p
    rw [mem_keys_assembled, keys_chunkEntries]
    simp
  · intro e he
    have hce : ∀ c, e ∈ chunkEntries n c k m → (e.1, e.2.1) ∈ lowerTri n ∧ e.2.2 = m e.1 e.2.1 := by
      intro c h
      unfold chunkEntries at h
      rw [List.mem_map] at h
      obtain ⟨p, hp, rfl⟩ := h
      exact ⟨chunkPairs_subset n c k hp, rfl⟩
    rcases mem_assembled _ _ _ _ _ _ he with h | ⟨c, _, h⟩
    · exact hce _ h
    · exact hce _ h

/-! ### counting -/

theorem length_eq_of_nodup_of_subset_subset {β : Type} [DecidableEq β] {l₁ l₂ : List β}
    (h₁ : l₁.Nodup) (h₂ : l₂.Nodup) (s₁ : l₁ ⊆ l₂) (s₂ : l₂ ⊆ l₁) : l₁.length = l₂.length :=
  Nat.le_antisymm (h₁.subperm s₁).length_le (h₂.subperm s₂).length_le

theorem length_lt_of_nodup_of_subset_of_missing {β : Type} [DecidableEq β] {l₁ l₂ : List β} {p : β}
    (h₁ : l₁.Nodup) (s₁ : l₁ ⊆ l₂) (hp : p ∈ l₂) (hnp : p ∉ l₁) : l₁.length < l₂.length := by
  have hn : (p :: l₁).Nodup := List.nodup_cons.2 ⟨hnp, h₁⟩
  have hs : (p :: l₁) ⊆ l₂ := by
    intro x hx
    rcases List.mem_cons.1 hx with rfl | hx
    · exact hp
    · exact s₁ hx
  have := (hn.subperm hs).length_le
  simp only [List.length_cons] at this
  omega

/-! ### `to_dense` as a function of the entry list -/

/-- the test `to_dense` effectively applies: entry `e` is written at `(r,c)` (directly or mirrored) -/
def hits (e : Int × Int × α) (r c : Int) : Prop := (e.1 = r ∧ e.2.1 = c) ∨ (e.2.1 = r ∧ e.1 = c)

instance (e : Int × Int × α) (r c : Int) : Decidable (hits e r c) := by unfold hits; exact inferInstance

theorem denseAt_step [OfNat α 0] (e : Int × Int × α) (r c : Int) (acc : α) :
    (if (e.1 == r && e.2.1 == c) || (e.2.1 == r && e.1 == c) then e.2.2 else acc)
      = if hits e r c then e.2.2 else acc := by
  by_cases h : hits e r c
  · have hb : ((e.1 == r && e.2.1 == c) || (e.2.1 == r && e.1 == c)) = true := by
      unfold hits at h; simpa using h
    rw [if_pos h, if_pos hb]
  · have hb : ¬ (((e.1 == r && e.2.1 == c) || (e.2.1 == r && e.1 == c)) = true) := by
      unfold hits at h; simpa using h
    rw [if_neg h, if_neg hb]

theorem foldl_dense_none [OfNat α 0] (E : List (Int × Int × α)) (r c : Int) (init : α)
    (h : ∀ e ∈ E, ¬ hits e r c) :
    E.foldl (fun acc e => if (e.1 == r && e.2.1 == c) || (e.2.1 == r && e.1 == c) then e.2.2 else acc) init
      = init := by
  induction E generalizing init with
  | nil => rfl
  | cons e E ih =>
    rw [List.foldl_cons, denseAt_step, if_neg (h e (by simp))]
    exact ih init (fun x hx => h x (by simp [hx]))

theorem foldl_dense_some [OfNat α 0] (E : List (Int × Int × α)) (r c : Int) (init v : α)
    (hex : ∃ e ∈ E, hits e r c) (hall : ∀ e ∈ E, hits e r c → e.2.2 = v) :
    E.foldl (fun acc e => if (e.1 == r && e.2.1 == c) || (e.2.1 == r && e.1 == c) then e.2.2 else acc) init
      = v := by
  induction E generalizing init with
  | nil => obtain ⟨e, he, _⟩ := hex; simp at he
  | cons e E ih =>
    rw [List.foldl_cons, denseAt_step]
    by_cases htail : ∃ e' ∈ E, hits e' r c
    · exact ih _ htail (fun x hx => hall x (by simp [hx]))
    · have hnone : ∀ e' ∈ E, ¬ hits e' r c := fun e' he' hh => htail ⟨e', he', hh⟩
      rw [foldl_dense_none E r c _ hnone]
      obtain ⟨e', he', hh⟩ := hex
      rcases List.mem_cons.1 he' with rfl | he'
      · rw [if_pos hh]; exact hall _ (by simp) hh
      · exact absurd hh (hnone e' he')

theorem denseAt_symm [OfNat α 0] (E : List (Int × Int × α)) (r c : Int) :
    denseAt E r c = denseAt E c r := by
  unfold denseAt
  congr 1
  funext acc e
  rw [denseAt_step, denseAt_step]
  have : hits e r c ↔ hits e c r := by unfold hits; constructor <;> rintro (⟨a, b⟩ | ⟨a, b⟩) <;> simp [a, b]
  simp only [this]

/-- entries all strictly lower-triangular with value `m row col`: off the diagonal `to_dense` holds the
    metric of the (larger, smaller) index, provided that pair is present -/
theorem denseAt_lower [OfNat α 0] (E : List (Int × Int × α)) (m : Int → Int → α)
    (hE : ∀ e ∈ E, e.2.1 < e.1 ∧ e.2.2 = m e.1 e.2.1) (i j : Int) (hji : j < i)
    (hmem : (i, j) ∈ keysOf E) : denseAt E i j = m i j := by
  unfold denseAt
  apply foldl_dense_some
  · simp only [keysOf, List.mem_map] at hmem
    obtain ⟨e, he, hk⟩ := hmem
    refine ⟨e, he, Or.inl ?_⟩
    simp only [Prod.mk.injEq] at hk; exact hk
  · intro e he hh
    obtain ⟨h1, h2⟩ := hE e he
    rcases hh with ⟨a, b⟩ | ⟨a, b⟩
    · rw [h2, a, b]
    · omega

theorem denseAt_diag [OfNat α 0] (E : List (Int × Int × α)) (hE : ∀ e ∈ E, e.2.1 < e.1) (i : Int) :
    denseAt E i i = 0 := by
  unfold denseAt
  apply foldl_dense_none
  intro e he hh
  have := hE e he
  rcases hh with ⟨a, b⟩ | ⟨a, b⟩ <;> omega

theorem toDense_of_complete [OfNat α 0] (R : CDM α) (h : R.isComplete = true) :
    R.toDense = .ok (denseSpec R.size (denseAt R.entries)) := by
  unfold CDM.toDense denseSpec
  simp [h]

theorem toDense_of_incomplete [OfNat α 0] (R : CDM α) (h : R.isComplete = false) :
    R.toDense = .error .valueError := by
  unfold CDM.toDense
  simp [h]

theorem denseSpec_congr (n : Int) (g₁ g₂ : Int → Int → α)
    (h : ∀ r c : Int, 0 ≤ r → r < n → 0 ≤ c → c < n → g₁ r c = g₂ r c) :
    denseSpec n g₁ = denseSpec n g₂ := by
  unfold denseSpec
  simp only
  apply List.map_congr_left
  intro r hr
  apply List.map_congr_left
  intro c hc
  simp only [List.mem_map, List.mem_range] at hr hc
  obtain ⟨r', hr', rfl⟩ := hr
  obtain ⟨c', hc', rfl⟩ := hc
  apply h <;> omega

/-! ### the two end results used by the property theorems -/

/-- every chunk index present (any order, repeats allowed): the pipeline succeeds and the result holds
    exactly the pairs of the enumeration, once each, with the metric of that pair -/
theorem assemble_complete (n k : Int) (hn : 0 ≤ n) (hk : 1 ≤ k) (m : Int → Int → α) (cs : List Int)
    (hvalid : ∀ c ∈ cs, 0 ≤ c ∧ c < k) (hall : ∀ c, 0 ≤ c → c < k → c ∈ cs) :
    ∃ R : CDM α, assemble n k m cs = .ok R ∧ R.size = n ∧ R.isComplete = true ∧
      (keysOf R.entries).Nodup ∧ (∀ p, p ∈ keysOf R.entries ↔ p ∈ lowerTri n) ∧
      (∀ e ∈ R.entries, e.2.1 < e.1 ∧ e.2.2 = m e.1 e.2.1) := by
  cases cs with
  | nil => exact absurd (hall 0 (by omega) (by omega)) (by simp)
  | cons c₀ cs =>
    obtain ⟨hnd, hkeys, hent⟩ := assembled_spec n k m c₀ cs
    have hiff : ∀ p, p ∈ keysOf (assembled n k m (chunkEntries n c₀ k m) cs) ↔ p ∈ lowerTri n := by
      intro p
      rw [hkeys p]
      constructor
      · rintro ⟨c, _, hp⟩; exact chunkPairs_subset n c k hp
      · intro hp
        obtain ⟨c, h0, h1, hpc⟩ := exists_chunk_of_mem n k hn hk p hp
        exact ⟨c, hall c h0 h1, hpc⟩
    refine ⟨_, assemble_ok n k m hk c₀ cs hvalid, rfl, ?_, hnd, hiff, ?_⟩
    · have hlen := length_eq_of_nodup_of_subset_subset hnd (nodup_lowerTri n)
        (fun p hp => (hiff p).1 hp) (fun p hp => (hiff p).2 hp)
      have hl := length_lowerTri n hn
      simp only [keysOf, List.length_map] at hlen
      simp only [CDM.isComplete, beq_iff_eq]
      rw [hlen]; exact hl
    · intro e he
      obtain ⟨h1, h2⟩ := hent e he
      exact ⟨((mem_lowerTri).1 h1).2.1, h2⟩

/-- some pair of the enumeration absent, keys distinct and inside the enumeration: not complete -/
theorem incomplete_of_missing (R : CDM α) (hnd : (keysOf R.entries).Nodup)
    (hsub : ∀ p ∈ keysOf R.entries, p ∈ lowerTri R.size) (p : Int × Int) (hp : p ∈ lowerTri R.size)
    (hmiss : p ∉ keysOf R.entries) : R.isComplete = false := by
  have hlt := length_lt_of_nodup_of_subset_of_missing hnd hsub hp hmiss
  have hn : 0 ≤ R.size := by have := (mem_lowerTri).1 hp; omega
  have hl := length_lowerTri R.size hn
  simp only [keysOf, List.length_map] at hlt
  simp only [CDM.isComplete]
  rw [beq_eq_false_iff_ne]
  omega

end Batchie.Chunks
