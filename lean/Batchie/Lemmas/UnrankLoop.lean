/-
  C15 -- loop invariants of the *generated* unranking function
  (`Batchie.Gen.Unrank`, regenerated from `generate_combination_at_sorted_index` on every run).

  Structure (DESIGN.md appendix A.1):
    * `phase1_spec`   first `for`: `n_ck = C(n,k)` by exact divisions, no error;
    * `LInv` / `body_inv` / `while0_spec`   inner `while`: invariant, measure `n`, the fuel
      `n+1` is never exhausted, exit condition;
    * `OInv` / `outer_step`   one iteration of the second `for`;
    * `outer_fold`    the whole second `for` by induction on the remaining positions;
    * `run_spec`      the summary used by `Props/C15.lean`.
-/
import Batchie.Lemmas.UnrankArith
import Batchie.Generated.Unrank

namespace Batchie.Lemmas.Unrank

open Batchie.PyInt Batchie.Gen.Unrank

/-! ### field projections of the generated inner-loop body (all by `rfl`) -/

theorem wb_index (st : St) : (while0Body st).index = st.index := rfl
theorem wb_k (st : St) : (while0Body st).k = st.k := rfl
theorem wb_out (st : St) : (while0Body st).out = st.out := rfl
theorem wb_oof (st : St) : (while0Body st).oof = st.oof := rfl
theorem wb_n (st : St) : (while0Body st).n = st.n - 1 := rfl
theorem wb_cur (st : St) : (while0Body st).current_index = st.current_index - st.n_ck := rfl
theorem wb_nck (st : St) : (while0Body st).n_ck =
    Int.fdiv (st.n_ck * (st.n - st.k) - Int.fmod (st.n_ck * (st.n - st.k)) st.k) (st.n - 1) := rfl
theorem wb_err (st : St) : (while0Body st).err = ((st.err || (st.k == 0)) || (st.n - 1 == 0)) := rfl

/-- Invariant of the inner `while` for position `kk` (the outer loop variable), with `base` the
    rank contribution of the elements already yielded and `o` the output so far. -/
structure LInv (idx base kk : Nat) (o : List Int) (N : Nat) (st : St) : Prop where
  hindex : st.index = (idx : Int)
  hn : st.n = (N : Int)
  hk : st.k = (kk : Int)
  hnck : st.n_ck = (((N-1).choose (kk-1) : Nat) : Int)
  hcur : st.current_index = ((base + N.choose kk : Nat) : Int)
  hout : st.out = o
  herr : st.err = false
  hoof : st.oof = false
  hlo : base ≤ idx
  hhi : idx < base + N.choose kk

theorem LInv.kk_le {idx base kk o N st} (h : LInv idx base kk o N st) : kk ≤ N := by
  by_contra hc
  have := Nat.choose_eq_zero_of_lt (Nat.lt_of_not_le hc)
  have := h.hlo; have := h.hhi; omega

/-- the guard `current_index - n_ck > index` reads `index < base + C(n-1,k')` -/
theorem cond_iff {idx base kk o N st} (hk : 1 ≤ kk) (h : LInv idx base kk o N st) :
    while0Cond st = true ↔ idx < base + (N-1).choose kk := by
  have hkN := h.kk_le
  have hp := pascal N kk hk (by omega)
  unfold while0Cond
  rw [decide_eq_true_iff, h.hcur, h.hnck, h.hindex, hp]
  push_cast
  constructor <;> intro g <;> omega

/-- one iteration of the generated `while` body preserves the invariant and decreases `n` -/
theorem body_inv {idx base kk o N st} (hk : 1 ≤ kk) (h : LInv idx base kk o N st)
    (g : while0Cond st = true) : LInv idx base kk o (N-1) (while0Body st) ∧ kk + 1 ≤ N := by
  have hkN := h.kk_le
  have hg := (cond_iff hk h).1 g
  have hlo := h.hlo
  have hk1 : kk ≤ N - 1 := by
    by_contra hc
    have := Nat.choose_eq_zero_of_lt (Nat.lt_of_not_le hc); omega
  have hkn1 : kk + 1 ≤ N := by omega
  have hp := pascal N kk hk (by omega)
  have hstep := choose_step N kk hk hkn1
  have hd := choose_div (N-1) kk hk (by omega)
  have hNk : ((N - kk : Nat) : Int) = (N:Int) - (kk:Int) := by omega
  have hN1 : ((N - 1 : Nat) : Int) = (N:Int) - 1 := by omega
  have e1 : (((N-1).choose (kk-1) : Nat) : Int) * ((N:Int) - (kk:Int))
      = (kk:Int) * (((N-1).choose kk : Nat) : Int) := by
    rw [← hNk]; exact_mod_cast hstep
  have e3 : (kk:Int) * (((N-1).choose kk : Nat) : Int)
      = ((N:Int) - 1) * (((N-1-1).choose (kk-1) : Nat) : Int) := by
    rw [← hN1]; exact_mod_cast hd
  have hkpos : (0:Int) < (kk:Int) := by omega
  have hn0 : (0:Int) < (N:Int) - 1 := by omega
  refine ⟨⟨?_, ?_, ?_, ?_, ?_, ?_, ?_, ?_, hlo, hg⟩, hkn1⟩
  · rw [wb_index]; exact h.hindex
  · rw [wb_n, h.hn, hN1]
  · rw [wb_k]; exact h.hk
  · rw [wb_nck, h.hnck, h.hn, h.hk, e1, fmod_mul_self_left _ _ hkpos, sub_zero, e3,
      fdiv_mul_cancel_left _ _ hn0]
  · rw [wb_cur, h.hcur, h.hnck, hp]; push_cast; ring
  · rw [wb_out]; exact h.hout
  · rw [wb_err, h.herr, h.hk, h.hn]
    have a : ((kk:Int) == 0) = false := by simp; omega
    have b : ((N:Int) - 1 == 0) = false := by simp; omega
    rw [a, b]; rfl
  · rw [wb_oof]; exact h.hoof

/-- The generated `while` with any fuel `≥ n` terminates by its guard (the out-of-fuel flag stays
    clear), keeps the invariant, and ends at an `M ≤ N` where the guard is false. -/
theorem while0_spec {idx base kk : Nat} {o : List Int} (hk : 1 ≤ kk) :
    ∀ (fuel N : Nat) (st : St), LInv idx base kk o N st → N ≤ fuel →
      ∃ M, M ≤ N ∧ LInv idx base kk o M (while0 fuel st) ∧ while0Cond (while0 fuel st) = false := by
  intro fuel
  induction fuel with
  | zero =>
    intro N st h hN
    have := h.kk_le; omega
  | succ f ih =>
    intro N st h hN
    by_cases g : while0Cond st = true
    · have ⟨h', hkN⟩ := body_inv hk h g
      obtain ⟨M, hM, hI, hC⟩ := ih (N-1) (while0Body st) h' (by omega)
      refine ⟨M, by omega, ?_, ?_⟩
      · simpa [while0, g] using hI
      · simpa [while0, g] using hC
    · have g' : while0Cond st = false := by simpa using g
      refine ⟨N, le_refl _, ?_, ?_⟩
      · simpa [while0, g'] using h
      · simp [while0, g']

/-! ### the second `for` -/

/-- the body of the second `for` of the generated function (same text as in `body`; the equation
    `body_eq` below is by `rfl`) -/
def outerStep (st : St) (v : Int) : St :=
  let st : St := { st with k := v }
  let st : St := { st with n_ck := (st.n_ck * st.k) }
  let st : St := { st with n_ck := (Int.fdiv st.n_ck st.n), err := st.err || (st.n == 0) }
  let st : St := while0 (st.n.toNat + 1) st
  let st : St := { st with n := (st.n - (1 : Int)) }
  let st : St := { st with out := st.out ++ [st.n] }
  st

/-- the body of the first `for` -/
def firstStep (st : St) (v : Int × Int) : St :=
  let st : St := { st with n_minus_i := v.1, i_plus_1 := v.2 }
  let st : St := { st with n_ck := (st.n_ck * st.n_minus_i) }
  let st : St := { st with n_ck := (Int.fdiv st.n_ck st.i_plus_1), err := st.err || (st.i_plus_1 == 0) }
  st

def phase1 (st : St) : St :=
  let st : St := { st with n_ck := (1 : Int) }
  List.foldl firstStep st
    (List.zip (pyRange st.n (st.n - st.k) (- (1 : Int))) (pyRange (1 : Int) (st.k + (1 : Int)) 1))

theorem body_eq (st : St) :
    body st =
      (let s1 := phase1 st
       List.foldl outerStep { s1 with current_index := s1.n_ck } (pyRange s1.k (0 : Int) (- (1 : Int)))) := rfl

/-- state at the top of an outer iteration for position `kk`:
    `n_ck = C(n,kk)`, `current_index = base + C(n,kk)`, `base ≤ index < current_index` -/
structure OInv (idx base kk : Nat) (o : List Int) (N : Nat) (st : St) : Prop where
  hindex : st.index = (idx : Int)
  hn : st.n = (N : Int)
  hnck : st.n_ck = ((N.choose kk : Nat) : Int)
  hcur : st.current_index = ((base + N.choose kk : Nat) : Int)
  hout : st.out = o
  herr : st.err = false
  hoof : st.oof = false
  hlo : base ≤ idx
  hhi : idx < base + N.choose kk

/-- the state after the three assignments that precede the `while` -/
def preSt (st : St) (v : Int) : St :=
  { st with k := v, n_ck := Int.fdiv (st.n_ck * v) st.n, err := st.err || (st.n == 0) }

theorem outerStep_eq (st : St) (v : Int) :
    outerStep st v =
      (let s := while0 (st.n.toNat + 1) (preSt st v)
       { s with n := s.n - 1, out := s.out ++ [s.n - 1] }) := rfl

/-- the three assignments before the `while` establish the inner invariant -/
theorem pre_while {idx base kk o N st} (hk : 1 ≤ kk) (h : OInv idx base kk o N st) :
    LInv idx base kk o N (preSt st (kk : Int)) := by
  have hkN : kk ≤ N := by
    by_contra hc
    have := Nat.choose_eq_zero_of_lt (Nat.lt_of_not_le hc)
    have := h.hlo; have := h.hhi; omega
  have hd := choose_div N kk hk (by omega)
  have hNpos : (0:Int) < (N:Int) := by omega
  have e : ((N.choose kk : Nat) : Int) * (kk : Int) = (N : Int) * (((N-1).choose (kk-1) : Nat) : Int) := by
    rw [mul_comm]; exact_mod_cast hd
  refine ⟨h.hindex, h.hn, rfl, ?_, h.hcur, h.hout, ?_, h.hoof, h.hlo, h.hhi⟩
  · show Int.fdiv (st.n_ck * (kk : Int)) st.n = _
    rw [h.hnck, h.hn, e, fdiv_mul_cancel_left _ _ hNpos]
  · show (st.err || (st.n == 0)) = false
    rw [h.herr, h.hn]
    have b : ((N:Int) == 0) = false := by simp; omega
    rw [b]; rfl

/-- One iteration of the second `for` (position `kk ≥ 1`): it yields the unique `c < n` with
    `C(c,kk) ≤ index - base < C(c+1,kk)` and re-establishes the invariant for `kk-1`. -/
theorem outer_step {idx base kk o N st} (hk : 1 ≤ kk) (h : OInv idx base kk o N st) :
    ∃ c : Nat, c < N ∧
      OInv idx (base + c.choose kk) (kk-1) (o ++ [(c : Int)]) c (outerStep st (kk : Int)) := by
  have hL := pre_while hk h
  obtain ⟨M, hMN, hI, hC⟩ := while0_spec hk (N + 1) N _ hL (by omega)
  have hkM := hI.kk_le
  have hM1 : 1 ≤ M := by omega
  have hp := pascal M kk hk hM1
  -- exit condition: base + C(M-1,kk) ≤ idx
  have hex : ¬ idx < base + (M-1).choose kk := by
    intro hlt
    have := (cond_iff hk hI).2 hlt
    rw [hC] at this; exact Bool.noConfusion this
  have hfuel : st.n.toNat + 1 = N + 1 := by rw [h.hn]; simp
  have hM1' : ((M - 1 : Nat) : Int) = (M : Int) - 1 := by omega
  refine ⟨M - 1, by omega, ?_⟩
  rw [outerStep_eq, hfuel]
  refine ⟨hI.hindex, ?_, ?_, ?_, ?_, hI.herr, hI.hoof, ?_, ?_⟩
  · show (while0 (N+1) _).n - 1 = _
    rw [hI.hn, hM1']
  · show (while0 (N+1) _).n_ck = _
    rw [hI.hnck]
  · show (while0 (N+1) _).current_index = _
    rw [hI.hcur, hp]
    have : kk - 1 + 1 = kk := by omega
    push_cast; ring
  · show (while0 (N+1) _).out ++ [(while0 (N+1) _).n - 1] = _
    rw [hI.hout, hI.hn, hM1']
  · omega
  · have := hI.hhi; rw [hp] at this; omega

/-! ### rank of a (partial) descending tuple -/

/-- `prank k [c_k, c_{k-1}, …] = C(c_k,k) + C(c_{k-1},k-1) + …` -/
def prank : Nat → List Nat → Nat
  | _, [] => 0
  | k, c :: cs => c.choose k + prank (k - 1) cs

/-- Whole second `for`, by induction on the number of remaining positions. -/
theorem outer_fold {idx : Nat} :
    ∀ (kk base N : Nat) (o : List Int) (st : St), OInv idx base kk o N st →
      ∃ l : List Nat,
        (List.foldl outerStep st (down kk)).out = o ++ l.map (fun (c : Nat) => (c : Int)) ∧
        l.length = kk ∧ l.Pairwise (· > ·) ∧ (∀ x ∈ l, x < N) ∧ base + prank kk l = idx ∧
        (List.foldl outerStep st (down kk)).err = false ∧
        (List.foldl outerStep st (down kk)).oof = false := by
  intro kk
  induction kk with
  | zero =>
    intro base N o st h
    refine ⟨[], by simp [down, h.hout], rfl, List.Pairwise.nil, by simp, ?_, ?_, ?_⟩
    · have := h.hlo; have := h.hhi; simp [prank] at *; omega
    · simpa [down] using h.herr
    · simpa [down] using h.hoof
  | succ kk ih =>
    intro base N o st h
    obtain ⟨c, hcN, h'⟩ := outer_step (by omega) h
    simp only [Nat.add_sub_cancel] at h'
    obtain ⟨l, hout, hlen, hpw, hlt, hrank, herr, hoof⟩ := ih _ _ _ _ h'
    have hfold : List.foldl outerStep st (down (kk+1))
        = List.foldl outerStep (outerStep st ((kk + 1 : Nat) : Int)) (down kk) := by
      simp [down]
    rw [hfold]
    refine ⟨c :: l, ?_, by simp [hlen], ?_, ?_, ?_, herr, hoof⟩
    · rw [hout]; simp
    · exact List.Pairwise.cons (fun x hx => hlt x hx) hpw
    · intro x hx
      rcases List.mem_cons.1 hx with rfl | hx
      · exact hcN
      · exact lt_trans (hlt x hx) hcN
    · simp only [prank, Nat.add_sub_cancel]; omega

/-! ### the first `for`: `n_ck = C(n,k)` -/

theorem firstStep_fold (idx n k : Nat) (st : St) (hn : st.n = (n : Int)) (hk : st.k = (k : Int))
    (hidx : st.index = (idx : Int)) (hout : st.out = []) (herr : st.err = false) (hoof : st.oof = false)
    (hnck : st.n_ck = 1) :
    ∀ i : Nat, i ≤ n →
      let s := List.foldl firstStep st
        ((List.range i).map (fun (j : Nat) => ((n : Int) - (j : Int), (j : Int) + 1)))
      s.n = (n : Int) ∧ s.k = (k : Int) ∧ s.index = (idx : Int) ∧ s.out = [] ∧ s.err = false ∧
        s.oof = false ∧ s.n_ck = ((n.choose i : Nat) : Int) := by
  intro i
  induction i with
  | zero => intro _; simp [hn, hk, hidx, hout, herr, hoof, hnck]
  | succ i ih =>
    intro hi
    obtain ⟨a1, a2, a3, a4, a5, a6, a7⟩ := ih (by omega)
    rw [List.range_succ, List.map_append, List.foldl_append]
    simp only [List.map_cons, List.map_nil, List.foldl_cons, List.foldl_nil]
    generalize List.foldl firstStep st
        ((List.range i).map (fun (j : Nat) => ((n : Int) - (j : Int), (j : Int) + 1))) = s at *
    have hni : ((n - i : Nat) : Int) = (n : Int) - (i : Int) := by omega
    have hpos : (0 : Int) < (i : Int) + 1 := by omega
    have e : ((n.choose i : Nat) : Int) * ((n : Int) - (i : Int))
        = ((i : Int) + 1) * ((n.choose (i+1) : Nat) : Int) := by
      rw [← hni]; exact_mod_cast choose_first n i
    refine ⟨a1, a2, a3, a4, ?_, a6, ?_⟩
    · show (s.err || ((i : Int) + 1 == 0)) = false
      rw [a5]
      have b : ((i : Int) + 1 == 0) = false := by simp; omega
      rw [b]; rfl
    · show Int.fdiv (s.n_ck * ((n : Int) - (i : Int))) ((i : Int) + 1) = _
      rw [a7, e, fdiv_mul_cancel_left _ _ hpos]

theorem zip_ranges (n k : Nat) :
    List.zip (pyRange (n : Int) ((n : Int) - (k : Int)) (-1)) (pyRange 1 ((k : Int) + 1) 1)
      = (List.range k).map (fun (j : Nat) => ((n : Int) - (j : Int), (j : Int) + 1)) := by
  rw [pyRange_down, pyRange_up, List.zip_map']

theorem phase1_spec (idx n k : Nat) (hkn : k ≤ n) :
    let s := phase1 { index := (idx : Int), n := (n : Int), k := (k : Int) }
    s.n = (n : Int) ∧ s.k = (k : Int) ∧ s.index = (idx : Int) ∧ s.out = [] ∧ s.err = false ∧
      s.oof = false ∧ s.n_ck = ((n.choose k : Nat) : Int) := by
  unfold phase1
  simp only []
  rw [zip_ranges]
  exact firstStep_fold idx n k _ rfl rfl rfl rfl rfl rfl rfl k hkn

/-- Summary of the generated function on valid input. -/
theorem run_spec (idx n k : Nat) (h : idx < n.choose k) :
    ∃ l : List Nat,
      (run (idx : Int) (n : Int) (k : Int)).out = l.map (fun (c : Nat) => (c : Int)) ∧
      l.length = k ∧ l.Pairwise (· > ·) ∧ (∀ x ∈ l, x < n) ∧ prank k l = idx ∧
      (run (idx : Int) (n : Int) (k : Int)).err = false ∧
      (run (idx : Int) (n : Int) (k : Int)).oof = false := by
  have hkn : k ≤ n := by
    by_contra hc
    have := Nat.choose_eq_zero_of_lt (Nat.lt_of_not_le hc); omega
  obtain ⟨b1, b2, b3, b4, b5, b6, b7⟩ := phase1_spec idx n k hkn
  unfold run
  rw [body_eq]
  simp only []
  generalize phase1 { index := (idx : Int), n := (n : Int), k := (k : Int) } = s at *
  have hr : pyRange s.k 0 (-1) = down k := by rw [b2, pyRange_k_down]
  rw [hr]
  have hO : OInv idx 0 k [] n { s with current_index := s.n_ck } :=
    ⟨b3, b1, b7, by show s.n_ck = _; rw [b7]; simp, b4, b5, b6, Nat.zero_le _, by omega⟩
  obtain ⟨l, hout, hlen, hpw, hlt, hrank, herr, hoof⟩ := outer_fold k 0 n [] _ hO
  exact ⟨l, by simpa using hout, hlen, hpw, hlt, by omega, herr, hoof⟩

end Batchie.Lemmas.Unrank
