/-
  The hypothesis `prepare kf cfg s = .ok p` of the end-to-end theorems (Props/C11Pipeline.lean) is satisfiable: two option
  combinations evaluated by `decide` through the kernel-evaluable mirrors of `Lemmas/PrepExamples.lean`.
-/
import Batchie.Lemmas.PrepPipeline
import Batchie.Lemmas.PrepExamples
namespace Batchie.Prep
open Batchie.Proto Batchie.Screen Batchie.Lifecycle
set_option maxRecDepth 40000

/-- initial plate generator (sparse cover, reveal single agents), no plate generator, no smoother, fraction 0 -/
def exCfgCover : PrepConfig := PrepConfig.mk (some (true, [0, 1, 3, 5])) none 0 none [[]]

/-- no initial generator, segregating generator (limit 2), first plate 0 revealed, no smoother, fraction 0 -/
def exCfgSeg : PrepConfig := PrepConfig.mk none (some (.segregating 2 [[0,3,2],[5,1,4,6]])) 0 none [[],[],[],[]]

theorem ex_pipeline_cover : ∃ s p, mk? (rawOfRows [] 2 exFull none none) = .ok s ∧ prepare (fun _ => 0) exCfgCover s = .ok p := by
  apply exists_of_isOk_bind (f := fun s => prepare (fun _ => 0) exCfgCover s)
  simp only [prepare, exCfgCover, initialStage, generatorStage, firstPlateStage, smoothStage, comboFilter, select, sparseCover, coverSel, build,
    coverGreedy_eqK, holdoutBalanced, holdoutSplit, plateIdx, uniqueSorted_eqK, mk?_eqK]
  decide

theorem ex_pipeline_segregating : ∃ s p, mk? exRaw = .ok s ∧ prepare (fun _ => 0) exCfgSeg s = .ok p := by
  apply exists_of_isOk_bind (f := fun s => prepare (fun _ => 0) exCfgSeg s)
  simp only [prepare, exCfgSeg, initialStage, generatorStage, firstPlateStage, smoothStage, comboFilter, select, build, unobservedPlateIds,
    Retro.maskScreen, Retro.revealPlates, Retro.rebuild, Retro.revealRefused, Retro.revealMask,
    Generator.wrapped, Generator.run, wrap, combine, genSegregating,
    holdoutBalanced, holdoutSplit, plateIdx, uniqueSorted_eqK, mk?_eqK]
  decide
end Batchie.Prep
