/-
  C14 helper lemmas, part 2: the unique-condition mask (`select_unique_zipped_numpy_arrays`) keeps exactly the
  first occurrence of every distinct key.
-/
import Batchie.Lemmas.Views
import Batchie.Lemmas.EncodeOrder

namespace Batchie.Views
open Batchie.Proto Batchie.Screen

theorem length_uniqueMaskGo {α : Type} [BEq α] (seen ks : List α) : (uniqueMaskGo seen ks).length = ks.length := by
  induction ks generalizing seen with
  | nil => rfl
  | cons k ks ih =>
    simp only [uniqueMaskGo]
    split <;> simp [ih]

theorem length_uniqueMask {α : Type} [BEq α] (ks : List α) : (uniqueMask ks).length = ks.length :=
  length_uniqueMaskGo [] ks

/-- position `i` is kept iff its key was not seen before: neither in the initial `seen` set nor among the earlier rows -/
theorem uniqueMaskGo_getElem? {α : Type} [BEq α] [LawfulBEq α] (seen ks : List α) (i : Nat) (hi : i < ks.length) :
    (uniqueMaskGo seen ks)[i]? = some (!(seen.contains ks[i]) && !((ks.take i).contains ks[i])) := by
  induction ks generalizing seen i with
  | nil => simp at hi
  | cons k ks ih =>
    simp only [uniqueMaskGo]
    cases i with
    | zero =>
      split
      · rename_i h; simp at h ⊢; exact h
      · rename_i h; simp at h ⊢; exact h
    | succ i =>
      have hi' : i < ks.length := by simpa using hi
      split
      · rename_i h
        simp only [List.getElem?_cons_succ, ih seen i hi', List.getElem_cons_succ, List.take_succ_cons, List.contains_cons]
        by_cases hk : (ks[i] == k) = true
        · have : seen.contains ks[i] = true := by rw [eq_of_beq hk]; exact h
          simp only [List.contains_eq_mem, decide_eq_true_eq] at this
          simp [this]
        · simp [hk]
      · rename_i h
        simp only [List.getElem?_cons_succ, ih (k :: seen) i hi', List.getElem_cons_succ, List.take_succ_cons, List.contains_cons]
        cases (ks[i] == k) <;> simp

/-- **first occurrence**: row `i` is kept iff its key does not occur among the rows before it -/
theorem uniqueMask_getElem? {α : Type} [BEq α] [LawfulBEq α] (ks : List α) (i : Nat) (hi : i < ks.length) :
    (uniqueMask ks)[i]? = some true ↔ ks[i] ∉ ks.take i := by
  rw [uniqueMask, uniqueMaskGo_getElem? [] ks i hi]
  simp

theorem maskFilter_uniqueMaskGo {α : Type} [BEq α] [LawfulBEq α] (seen ks : List α) :
    maskFilter ks (uniqueMaskGo seen ks) = (ks.filter (fun k => !seen.contains k)).eraseDups := by
  induction ks generalizing seen with
  | nil => simp [uniqueMaskGo]
  | cons k ks ih =>
    simp only [uniqueMaskGo]
    split
    · rename_i h
      simp only [maskFilter_cons_false, ih seen, List.filter_cons, h, Bool.not_true, Bool.false_eq_true, if_false]
    · rename_i h
      simp only [maskFilter_cons_true, ih (k :: seen), List.filter_cons, h, Bool.not_false, if_true, List.eraseDups_cons,
        List.filter_filter]
      congr 2
      apply List.filter_congr
      intro x _
      simp only [List.contains_cons, Bool.not_or]

/-- **the kept rows carry each distinct key exactly once, first occurrences in order** (`= eraseDups`) -/
theorem maskFilter_uniqueMask {α : Type} [BEq α] [LawfulBEq α] (ks : List α) :
    maskFilter ks (uniqueMask ks) = ks.eraseDups := by
  rw [uniqueMask, maskFilter_uniqueMaskGo]
  congr 1
  exact List.filter_eq_self.mpr (fun a _ => by simp)

end Batchie.Views
