/-
  C07, part 2: the translated start/end arithmetic of `get_lower_triangular_indices_chunk`
  (`Batchie.Gen.ChunkBounds`) and the partition of the enumeration into chunks.
-/
import Batchie.Lemmas.ChunksEnum
import Mathlib.Data.List.Nodup
import Mathlib.Data.List.Pairwise

namespace Batchie.Chunks
open Batchie.PyInt Batchie.Gen

/-! ### the generated arithmetic in closed form (these three lemmas are what a change of the
    Python arithmetic breaks) -/

theorem chunkStart_eq (n c k : Int) :
    chunkStart n c k =
      if c < Int.fmod (numLowerTri n) k then c * Int.fdiv (numLowerTri n) k + c
      else c * Int.fdiv (numLowerTri n) k + Int.fmod (numLowerTri n) k := by
  unfold chunkStart ChunkBounds.run ChunkBounds.body numLowerTri
  simp only
  split <;> simp_all

theorem chunkEnd_eq (n c k : Int) :
    chunkEnd n c k =
      if c < Int.fmod (numLowerTri n) k then c * Int.fdiv (numLowerTri n) k + Int.fdiv (numLowerTri n) k + (c + 1)
      else c * Int.fdiv (numLowerTri n) k + Int.fdiv (numLowerTri n) k + Int.fmod (numLowerTri n) k := by
  unfold chunkEnd ChunkBounds.run ChunkBounds.body numLowerTri
  simp only
  split <;> simp_all

theorem chunkErr_eq (n c k : Int) :
    chunkErr n c k = (!(decide (c < k)) || (k == 0)) := by
  unfold chunkErr ChunkBounds.run ChunkBounds.body NumLowerTri.run NumLowerTri.body
  simp only
  split <;> simp

/-- quotient/remainder facts used by all bound lemmas -/
theorem divmod_facts (N k : Int) (hN : 0 ≤ N) (hk : 1 ≤ k) :
    0 ≤ Int.fdiv N k ∧ 0 ≤ Int.fmod N k ∧ Int.fmod N k < k ∧ k * Int.fdiv N k + Int.fmod N k = N := by
  rw [Int.fdiv_eq_ediv_of_nonneg _ (by omega), Int.fmod_eq_emod_of_nonneg _ (by omega)]
  refine ⟨Int.ediv_nonneg hN (by omega), Int.emod_nonneg _ (by omega), Int.emod_lt_of_pos _ (by omega), ?_⟩
  exact Int.mul_ediv_add_emod N k

theorem chunkStart_zero (n k : Int) (hk : 1 ≤ k) : chunkStart n 0 k = 0 := by
  obtain ⟨_, h2, _, _⟩ := divmod_facts (numLowerTri n) k (numLowerTri_nonneg n) hk
  rw [chunkStart_eq]; split <;> omega

theorem chunkEnd_eq_start_succ (n c k : Int) (hk : 1 ≤ k) :
    chunkEnd n c k = chunkStart n (c + 1) k := by
  obtain ⟨h1, h2, h3, h4⟩ := divmod_facts (numLowerTri n) k (numLowerTri_nonneg n) hk
  rw [chunkStart_eq, chunkEnd_eq]
  generalize Int.fdiv (numLowerTri n) k = q at *
  generalize Int.fmod (numLowerTri n) k = r at *
  have : (c + 1) * q = c * q + q := by ring
  rw [this]
  split <;> split <;> omega

theorem chunkStart_top (n k : Int) (hk : 1 ≤ k) : chunkStart n k k = numLowerTri n := by
  obtain ⟨h1, h2, h3, h4⟩ := divmod_facts (numLowerTri n) k (numLowerTri_nonneg n) hk
  rw [chunkStart_eq]
  split <;> omega

theorem chunkSize_eq (n c k : Int) :
    chunkEnd n c k - chunkStart n c k =
      Int.fdiv (numLowerTri n) k + (if c < Int.fmod (numLowerTri n) k then 1 else 0) := by
  rw [chunkStart_eq, chunkEnd_eq]
  split <;> omega

theorem chunkStart_nonneg (n c k : Int) (hk : 1 ≤ k) (hc0 : 0 ≤ c) : 0 ≤ chunkStart n c k := by
  obtain ⟨h1, h2, h3, h4⟩ := divmod_facts (numLowerTri n) k (numLowerTri_nonneg n) hk
  rw [chunkStart_eq]
  have : 0 ≤ c * Int.fdiv (numLowerTri n) k := Int.mul_nonneg hc0 h1
  split <;> omega

theorem chunkStart_le_end (n c k : Int) (hk : 1 ≤ k) : chunkStart n c k ≤ chunkEnd n c k := by
  obtain ⟨h1, h2, h3, h4⟩ := divmod_facts (numLowerTri n) k (numLowerTri_nonneg n) hk
  have := chunkSize_eq n c k
  split at this <;> omega

theorem flatMap_slices {β : Type} (L : List β) (s : Nat → Nat) (hs0 : s 0 = 0) (k : Nat)
    (hmono : ∀ c, c < k → s c ≤ s (c + 1)) :
    (List.range k).flatMap (fun c => (L.drop (s c)).take (s (c + 1) - s c)) = L.take (s k) := by
  induction k with
  | zero => simp [hs0]
  | succ k ih =>
    rw [List.range_succ, List.flatMap_append, ih (fun c hc => hmono c (by omega))]
    have h := hmono k (by omega)
    have : s (k + 1) = s k + (s (k + 1) - s k) := by omega
    conv => rhs; rw [this, List.take_add]
    simp

/-! ### chunks as slices; the partition -/

theorem chunkPairs_eq_slice (n k : Int) (hk : 1 ≤ k) (c : Nat) :
    chunkPairs n (c : Int) k =
      ((lowerTri n).drop (chunkStart n (c : Int) k).toNat).take
        ((chunkStart n ((c + 1 : Nat) : Int) k).toNat - (chunkStart n (c : Int) k).toNat) := by
  unfold chunkPairs
  have h0 := chunkStart_nonneg n (c : Int) k hk (by omega)
  have h1 := chunkStart_le_end n (c : Int) k hk
  have h2 := chunkEnd_eq_start_succ n (c : Int) k hk
  have : ((c + 1 : Nat) : Int) = (c : Int) + 1 := by push_cast; rfl
  rw [this, ← h2]
  congr 1
  omega

theorem flatMap_chunkPairs (n k : Int) (hn : 0 ≤ n) (hk : 1 ≤ k) :
    (List.range k.toNat).flatMap (fun (c : Nat) => chunkPairs n (c : Int) k) = lowerTri n := by
  have hfun : (fun (c : Nat) => chunkPairs n (c : Int) k) =
      (fun (c : Nat) => ((lowerTri n).drop ((fun (c : Nat) => (chunkStart n (c : Int) k).toNat) c)).take
        ((fun (c : Nat) => (chunkStart n (c : Int) k).toNat) (c + 1) -
          (fun (c : Nat) => (chunkStart n (c : Int) k).toNat) c)) := by
    funext c; exact chunkPairs_eq_slice n k hk c
  have hs := flatMap_slices (lowerTri n) (fun (c : Nat) => (chunkStart n (c : Int) k).toNat)
    (by simp [chunkStart_zero n k hk]) k.toNat (by
      intro c _
      have h1 := chunkStart_le_end n (c : Int) k hk
      have h2 := chunkEnd_eq_start_succ n (c : Int) k hk
      have : ((c + 1 : Nat) : Int) = (c : Int) + 1 := by push_cast; rfl
      simp only [this]
      omega)
  rw [hfun]
  refine hs.trans ?_
  have hk' : ((k.toNat : Nat) : Int) = k := Int.toNat_of_nonneg (by omega)
  simp only [hk', chunkStart_top n k hk]
  have := length_lowerTri n hn
  have : (numLowerTri n).toNat = (lowerTri n).length := by omega
  rw [this, List.take_length]

theorem chunkPairs_sublist (n c k : Int) : (chunkPairs n c k).Sublist (lowerTri n) :=
  (List.take_sublist _ _).trans (List.drop_sublist _ _)

theorem chunkPairs_subset (n c k : Int) : chunkPairs n c k ⊆ lowerTri n :=
  (chunkPairs_sublist n c k).subset

theorem nodup_chunkPairs (n c k : Int) : (chunkPairs n c k).Nodup :=
  (nodup_lowerTri n).sublist (chunkPairs_sublist n c k)

theorem chunkEnd_le (n c k : Int) (hk : 1 ≤ k) (hck : c < k) : chunkEnd n c k ≤ numLowerTri n := by
  obtain ⟨q1, q2, q3, q4⟩ := divmod_facts (numLowerTri n) k (numLowerTri_nonneg n) hk
  rw [chunkEnd_eq]
  generalize Int.fdiv (numLowerTri n) k = q at *
  generalize Int.fmod (numLowerTri n) k = r at *
  have e1 : k * q = (k - 1 - c) * q + c * q + q := by ring
  have e2 : 0 ≤ (k - 1 - c) * q := Int.mul_nonneg (by omega) q1
  split <;> omega

theorem length_chunkPairs (n c k : Int) (hn : 0 ≤ n) (hk : 1 ≤ k) (hc0 : 0 ≤ c) (hck : c < k) :
    ((chunkPairs n c k).length : Int) = chunkEnd n c k - chunkStart n c k := by
  unfold chunkPairs
  have h0 := chunkStart_nonneg n c k hk hc0
  have h1 := chunkStart_le_end n c k hk
  have hl := length_lowerTri n hn
  have hN := chunkEnd_le n c k hk hck
  simp only [List.length_take, List.length_drop]
  omega

/-- distinct chunk indices give disjoint chunks -/
theorem chunkPairs_disjoint (n k : Int) (hn : 0 ≤ n) (hk : 1 ≤ k) (c₁ c₂ : Int)
    (h₁ : 0 ≤ c₁ ∧ c₁ < k) (h₂ : 0 ≤ c₂ ∧ c₂ < k) (hne : c₁ ≠ c₂) (p : Int × Int) :
    p ∈ chunkPairs n c₁ k → p ∉ chunkPairs n c₂ k := by
  have hnd : ((List.range k.toNat).flatMap (fun (c : Nat) => chunkPairs n (c : Int) k)).Nodup := by
    rw [flatMap_chunkPairs n k hn hk]; exact nodup_lowerTri n
  rw [List.nodup_flatMap] at hnd
  have hpw := hnd.2
  have hsym : Std.Symm (Function.onFun List.Disjoint (fun (c : Nat) => chunkPairs n (c : Int) k)) :=
    ⟨fun a b h x hx hy => h hy hx⟩
  have := List.Pairwise.forall (R := Function.onFun List.Disjoint (fun (c : Nat) => chunkPairs n (c : Int) k)) hpw
    (a := c₁.toNat) (by simp; omega) (b := c₂.toNat) (by simp; omega) (by omega)
  intro hp1 hp2
  have e1 : ((c₁.toNat : Nat) : Int) = c₁ := Int.toNat_of_nonneg h₁.1
  have e2 : ((c₂.toNat : Nat) : Int) = c₂ := Int.toNat_of_nonneg h₂.1
  simp only [Function.onFun, e1, e2] at this
  exact this hp1 hp2

/-- every pair of the enumeration lies in some chunk -/
theorem exists_chunk_of_mem (n k : Int) (hn : 0 ≤ n) (hk : 1 ≤ k) (p : Int × Int) (hp : p ∈ lowerTri n) :
    ∃ c : Int, 0 ≤ c ∧ c < k ∧ p ∈ chunkPairs n c k := by
  rw [← flatMap_chunkPairs n k hn hk, List.mem_flatMap] at hp
  obtain ⟨c, hc, hpc⟩ := hp
  rw [List.mem_range] at hc
  exact ⟨(c : Int), by omega, by omega, hpc⟩

end Batchie.Chunks
