/-
  Helper lemmas for C20: the single-agent effect table and the synergy loop
  (`create_single_treatment_effect_map`, `calculate_synergy` as modelled in `Batchie.Model.Metrics`).
-/
import Batchie.Lemmas.MetricsSums

namespace Batchie.Metrics
open Batchie.Predict (sumL OfCount maskFilter)
open Batchie.Proto

/-! ### list plumbing -/

theorem maskFilter_map_map {ρ β : Type} (rows : List ρ) (f : ρ → β) (p : ρ → Bool) :
    maskFilter (rows.map f) (rows.map p) = (rows.filter p).map f := by
  induction rows with
  | nil => rfl
  | cons r rows ih =>
    simp only [List.map_cons, maskFilter, List.filter_cons]
    cases p r <;> simp [ih]

theorem mem_uniqueSorted (l : List Int) (x : Int) : x ∈ uniqueSorted l ↔ x ∈ l := by
  simp [uniqueSorted, List.mem_mergeSort, List.mem_eraseDups]

/-- looking a key up in a dict built by a double loop over key lists -/
theorem lookup_double_loop {β : Type} (ks kt : List Int) (g : Int → Int → Option β) (s t : Int) :
    (ks.flatMap (fun s' => kt.filterMap (fun t' => (g s' t').map (fun v => ((s', t'), v))))).lookup (s, t)
      = if s ∈ ks ∧ t ∈ kt then g s t else none := by
  have inner : ∀ (s' : Int) (kt : List Int),
      (kt.filterMap (fun t' => (g s' t').map (fun v => ((s', t'), v)))).lookup (s, t)
        = if s' = s ∧ t ∈ kt then g s t else none := by
    intro s' kt
    induction kt with
    | nil => simp
    | cons t' kt ih =>
      rw [List.filterMap_cons]
      cases hg : g s' t' with
      | none =>
        simp only [Option.map_none, ih]
        by_cases h1 : s' = s
        · subst h1
          by_cases h2 : t' = t
          · subst h2; simp [hg]
          · have : t ≠ t' := fun h => h2 h.symm
            simp [this]
        · simp [h1]
      | some v =>
        simp only [Option.map_some, List.lookup_cons]
        by_cases h1 : s' = s
        · subst h1
          by_cases h2 : t' = t
          · subst h2; simp [hg]
          · have h3 : ((s', t) == (s', t')) = false := by simp; exact fun h => h2 h.symm
            have : t ≠ t' := fun h => h2 h.symm
            simp [h3, ih, this]
        · have h3 : ((s, t) == (s', t')) = false := by simp; intro h; exact absurd h.symm h1
          simp [h3, ih, h1]
  induction ks with
  | nil => simp
  | cons s' ks ih =>
    rw [List.flatMap_cons, List.lookup_append, inner, ih]
    by_cases h1 : s' = s
    · subst h1
      by_cases h2 : t ∈ kt
      · cases hg : g s' t <;> simp [h2]
      · simp [h2]
    · have : s ≠ s' := fun h => h1 h.symm
      simp [h1, this]

/-! ### `np.sort(row)[-1]` on a single-agent row -/

theorem rowMax_mem (row : List Int) (h : row ≠ []) : rowMax row ∈ row := by
  induction row with
  | nil => exact absurd rfl h
  | cons x xs ih =>
    cases xs with
    | nil => simp [rowMax]
    | cons y ys =>
      have := ih (by simp)
      simp only [rowMax]
      rcases max_choice x (rowMax (y :: ys)) with hm | hm
      · rw [hm]; simp
      · rw [hm]; exact List.mem_cons_of_mem _ this

theorem le_rowMax (row : List Int) (x : Int) (hx : x ∈ row) : x ≤ rowMax row := by
  induction row with
  | nil => cases hx
  | cons a xs ih =>
    cases xs with
    | nil => simp at hx; simp [rowMax, hx]
    | cons y ys =>
      simp only [rowMax]
      rcases List.mem_cons.mp hx with rfl | hm
      · exact le_max_left _ _
      · exact le_trans (ih hm) (le_max_right _ _)

/-- in a row all of whose cells but one are the control, two non-control members are equal -/
theorem single_row_unique (row : List Int) (hc : row.count (-1) + 1 = row.length) (x y : Int)
    (hx : x ∈ row) (hy : y ∈ row) (hx1 : x ≠ -1) (hy1 : y ≠ -1) : x = y := by
  have hlen := List.length_eq_length_filter_add (l := row) (fun a => a == -1)
  rw [← List.count_eq_length_filter] at hlen
  have h1 : (row.filter (fun a => !(a == -1))).length = 1 := by omega
  obtain ⟨z, hz⟩ := List.length_eq_one_iff.mp h1
  have mx : x ∈ row.filter (fun a => !(a == -1)) := by simp [List.mem_filter, hx, hx1]
  have my : y ∈ row.filter (fun a => !(a == -1)) := by simp [List.mem_filter, hy, hy1]
  rw [hz] at mx my
  simp at mx my
  rw [mx, my]

/-- the id that `np.sort(row)[-1]` extracts from a single-agent row is the agent, whichever column
    holds it -/
theorem rowMax_eq_iff (row : List Int) (hge : ∀ x ∈ row, -1 ≤ x) (hc : row.count (-1) + 1 = row.length)
    (t : Int) (ht : t ≠ -1) : rowMax row = t ↔ t ∈ row := by
  have hne : row ≠ [] := by intro h; subst h; simp at hc
  constructor
  · intro h; rw [← h]; exact rowMax_mem row hne
  · intro hmem
    have hm := rowMax_mem row hne
    have hle := le_rowMax row t hmem
    have htge := hge t hmem
    have hm1 : rowMax row ≠ -1 := by omega
    exact single_row_unique row hc _ _ hm hmem hm1 ht

/-! ### the single-agent effect table -/

section effects
variable {R : Type} [Field R]

/-- the value the double loop stores under `(s, t)` (`none` = the `continue`) -/
def effectCell (arity : Nat) (sids : List Int) (tids : List (List Int)) (obs : List R) (s t : Int) : Option R :=
  if t == -1 then some 1
  else
    let mask := tids.map (isSingle arity)
    let m := List.zipWith (fun t' s' => t' == t && s' == s) ((maskFilter tids mask).map rowMax) (maskFilter sids mask)
    if !(m.any id) then none else some (mean (maskFilter (maskFilter obs mask) m))

theorem singleEffectMap_eq (arity : Nat) (ha : 2 ≤ arity) (sids : List Int) (tids : List (List Int)) (obs : List R) :
    singleEffectMap arity sids tids obs
      = .ok ((uniqueSorted sids).flatMap (fun s => (uniqueSorted tids.flatten).filterMap (fun t =>
          (effectCell arity sids tids obs s t).map (fun v => ((s, t), v))))) := by
  unfold singleEffectMap
  rw [if_neg (by omega)]
  dsimp only
  congr 1
  apply List.flatMap_congr
  intro s _
  apply List.filterMap_congr
  intro t _
  unfold effectCell
  by_cases h1 : (t == -1) = true
  · simp [h1]
  · simp only [h1, Bool.false_eq_true, if_false]
    split <;> simp_all

/-- on the list of rows: the stored value is the mean over the rows that pass both masks -/
theorem effectCell_rows (arity : Nat) (rows : List (Int × List Int × R)) (s t : Int) :
    effectCell arity (rows.map (·.1)) (rows.map (·.2.1)) (rows.map (·.2.2)) s t
      = if t == -1 then some 1
        else
          let xs := (rows.filter (fun r => isSingle arity r.2.1 && (rowMax r.2.1 == t && r.1 == s))).map (·.2.2)
          if xs.isEmpty then none else some (mean xs) := by
  unfold effectCell
  by_cases h1 : (t == -1) = true
  · simp [h1]
  · simp only [h1, Bool.false_eq_true, if_false]
    have e0 : (rows.map (·.2.1)).map (isSingle arity) = rows.map (fun r => isSingle arity r.2.1) := by simp
    rw [e0, maskFilter_map_map, maskFilter_map_map, maskFilter_map_map, List.map_map]
    have e1 : List.zipWith (fun t' s' => t' == t && s' == s)
        ((rows.filter (fun r => isSingle arity r.2.1)).map (rowMax ∘ fun r => r.2.1))
        ((rows.filter (fun r => isSingle arity r.2.1)).map (·.1))
        = (rows.filter (fun r => isSingle arity r.2.1)).map (fun r => rowMax r.2.1 == t && r.1 == s) := by
      rw [List.zipWith_map, List.zipWith_self]; rfl
    rw [e1, maskFilter_map_map, List.filter_filter]
    have e2 : ((rows.filter (fun r => isSingle arity r.2.1)).map (fun r => rowMax r.2.1 == t && r.1 == s)).any id
        = !((rows.filter (fun r => isSingle arity r.2.1 && (rowMax r.2.1 == t && r.1 == s))).map (·.2.2)).isEmpty := by
      rw [List.any_map, List.any_filter]
      simp only [Function.comp, id]
      induction rows with
      | nil => rfl
      | cons r rows ih =>
        simp only [List.any_cons, List.filter_cons]
        cases isSingle arity r.2.1 && (rowMax r.2.1 == t && r.1 == s) <;> simp [ih]
    rw [e2]
    have e3 : (rows.filter (fun a => (rowMax a.2.1 == t && a.1 == s) && isSingle arity a.2.1))
        = rows.filter (fun r => isSingle arity r.2.1 && (rowMax r.2.1 == t && r.1 == s)) := by
      apply List.filter_congr; intro r _; exact Bool.and_comm _ _
    simp only [e3, Bool.not_not]

/-- The table entry of `(s, t)` is the property's definition: `1` for the control, else the mean of
    sample `s`'s observations of `t` alone -- with `t` in ANY column -- and no entry if there is none. -/
theorem effectCell_eq_def (arity : Nat) (ha : 2 ≤ arity) (sids : List Int) (tids : List (List Int)) (obs : List R)
    (hl1 : tids.length = sids.length) (hl2 : obs.length = sids.length)
    (hrow : ∀ r ∈ tids, r.length = arity) (hid : ∀ r ∈ tids, ∀ t ∈ r, -1 ≤ t) (s t : Int) :
    effectCell arity sids tids obs s t = singleEffectDef sids tids obs s t := by
  have hs : sids = (List.zip sids (List.zip tids obs)).map (·.1) := by
    rw [List.map_fst_zip]; simp [hl1, hl2]
  have ht : tids = (List.zip sids (List.zip tids obs)).map (·.2.1) := by
    have : (List.zip sids (List.zip tids obs)).map (·.2.1) = ((List.zip sids (List.zip tids obs)).map (·.2)).map (·.1) := by simp
    rw [this, List.map_snd_zip (by simp [hl1, hl2]), List.map_fst_zip (by simp [hl1, hl2])]
  have ho : obs = (List.zip sids (List.zip tids obs)).map (·.2.2) := by
    have : (List.zip sids (List.zip tids obs)).map (·.2.2) = ((List.zip sids (List.zip tids obs)).map (·.2)).map (·.2) := by simp
    rw [this, List.map_snd_zip (by simp [hl1, hl2]), List.map_snd_zip (by simp [hl1, hl2])]
  have hcell := effectCell_rows arity (List.zip sids (List.zip tids obs)) s t
  rw [← hs, ← ht, ← ho] at hcell
  rw [hcell]
  unfold singleEffectDef singleObsOf
  by_cases h1 : (t == -1) = true
  · simp [h1]
  · have ht1 : t ≠ -1 := by simpa using h1
    simp only [h1, Bool.false_eq_true, if_false]
    have : (List.zip sids (List.zip tids obs)).filter (fun r => isSingle arity r.2.1 && (rowMax r.2.1 == t && r.1 == s))
        = (List.zip sids (List.zip tids obs)).filter (fun r => r.1 == s && isSingleOf r.2.1 t) := by
      apply List.filter_congr
      intro r hr
      have hr2 : r.2.1 ∈ tids := by
        rw [ht]; exact List.mem_map_of_mem hr
      have hlen := hrow _ hr2
      have hge := hid _ hr2
      by_cases hc : r.2.1.count (-1) + 1 = r.2.1.length
      · have hiff := rowMax_eq_iff r.2.1 hge hc t ht1
        have e1 : isSingle arity r.2.1 = true := by simp [isSingle]; omega
        have e2 : (rowMax r.2.1 == t) = r.2.1.contains t := by
          by_cases hm : t ∈ r.2.1
          · simp [hm, hiff.mpr hm]
          · have : rowMax r.2.1 ≠ t := fun h => hm (hiff.mp h)
            simp [hm, this]
        simp [isSingleOf, e1, e2, hc, Bool.and_comm]
      · have e1 : isSingle arity r.2.1 = false := by simp [isSingle]; omega
        simp [isSingleOf, e1, hc]
    rw [this]
    simp [Metrics.mean]

end effects

end Batchie.Metrics
