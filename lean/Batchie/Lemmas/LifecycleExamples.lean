/-
  Concrete screens used as non-vacuity examples and counterexample witnesses by Props/C02, C12, C03.
  Everything here is evaluated by `decide` through the kernel-evaluable mirror `mkK?`.
-/
import Batchie.Lemmas.LifecycleEval
import Batchie.Lemmas.LifecyclePersist
import Batchie.Model.Retro

namespace Batchie.Lifecycle
open Batchie.Proto Batchie.Screen Batchie.Retro

deriving instance DecidableEq for Batchie.Screen.Screen
deriving instance DecidableEq for Except

/-- 3 rows, arity 2; names `é` (233), `a`, `😀` (128512) and the empty name; control name ""; unequal name
    lengths; a plate observed and one not; the supplied mappings list `(b, 1)` and sample `zz`, which do not
    occur in the rows (strict supersets) -/
def exRaw : Raw :=
  { ctrl := [], arity := 2,
    tnames := [[[233],[97]], [[97],[]], [[128512],[233]]],
    tdoses := [[1, 2], [2, 0], [3, 1]],
    snames := [[115], [115,49], [115]],
    pnames := [[112], [112], [113]],
    obs := some [4607182418800017408, 0, 4591870180066957722], mask := some [true, true, false],
    tmap := some [([], 0, -1), ([97], 2, 0), ([98], 1, 1), ([233], 1, 2), ([128512], 3, 3)],
    smap := some [([115], 0), ([115,49], 1), ([122,122], 2)] }

def exScreen : Screen :=
  { ctrl := [], arity := 2,
    tnames := [[[233], [97]], [[97], []], [[128512], [233]]],
    tdoses := [[1, 2], [2, 0], [3, 1]],
    snames := [[115], [115, 49], [115]],
    pnames := [[112], [112], [113]],
    obs := [4607182418800017408, 0, 4591870180066957722],
    mask := [true, true, false],
    tids := [[2, 0], [0, -1], [3, 2]],
    sids := [0, 1, 0],
    pids := [0, 0, 1],
    tmap := [([], 0, -1), ([97], 2, 0), ([98], 1, 1), ([233], 1, 2), ([128512], 3, 3)],
    smap := [([115], 0), ([115, 49], 1), ([122, 122], 2)],
    pmap := [([112], 0), ([113], 1)] }

theorem exScreen_mk : mk? exRaw = .ok exScreen := by rw [mk?_eqK]; decide

theorem exScreen_valid : Valid exScreen := ⟨exRaw, exScreen_mk⟩

theorem exScreen_namesOK : NamesOK exScreen where
  tn := by decide
  sn := by decide
  pn := by decide
  tm := by decide
  sm := by decide

/-- the rows of `exRaw` with HAND-MADE mappings: the same names, ids relabelled by a permutation and the table rows
    shuffled (not sorted by name, ids not in table order) -/
def handMadeRaw : Raw :=
  { exRaw with
    tmap := some [([128512], 3, 0), ([98], 1, 3), ([], 0, -1), ([233], 1, 1), ([97], 2, 2)],
    smap := some [([122,122], 0), ([115,49], 2), ([115], 1)] }

def handMadeScreen : Screen :=
  { exScreen with
    tids := [[1, 2], [2, -1], [0, 1]],
    sids := [1, 2, 1],
    tmap := [([128512], 3, 0), ([98], 1, 3), ([], 0, -1), ([233], 1, 1), ([97], 2, 2)],
    smap := [([122,122], 0), ([115,49], 2), ([115], 1)] }

theorem handMadeScreen_mk : mk? handMadeRaw = .ok handMadeScreen := by rw [mk?_eqK]; decide

theorem handMadeScreen_valid : Valid handMadeScreen := ⟨handMadeRaw, handMadeScreen_mk⟩

/-- the zero-row screen both hold-out functions return for fraction 0 (with the parent's mappings) -/
def zeroRowRaw : Raw :=
  { ctrl := [], arity := 2, tnames := [], tdoses := [], snames := [], pnames := [], obs := some [], mask := some [],
    tmap := some [([], 0, -1), ([97], 2, 0)], smap := some [([115], 0)] }

def zeroRowScreen : Screen :=
  { ctrl := [], arity := 2, tnames := [], tdoses := [], snames := [], pnames := [], obs := [], mask := [],
    tids := [], sids := [], pids := [], tmap := [([], 0, -1), ([97], 2, 0)], smap := [([115], 0)], pmap := [] }

theorem zeroRowScreen_mk : mk? zeroRowRaw = .ok zeroRowScreen := by rw [mk?_eqK]; decide

/-! ### the C03 witness (DESIGN section 7 #1): treatment `a` and sample `s0` occur only in row 0 -/

def witnessRaw : Raw :=
  { ctrl := [99], arity := 2,
    tnames := [[[97],[98]], [[98],[100]], [[98],[101]], [[100],[101]], [[98],[100]], [[98],[100]]],
    tdoses := [[1,1],[1,1],[1,1],[1,1],[1,1],[1,1]],
    snames := [[115,48],[115,49],[115,49],[115,50],[115,50],[115,49]],
    pnames := [[112,48],[112,49],[112,49],[112,50],[112,50],[112,51]],
    obs := some [1,2,3,4,5,6], mask := none, tmap := none, smap := none }

/-- the prepared screen -/
def witnessPrepared : Screen :=
  { ctrl := [99], arity := 2,
    tnames := [[[97], [98]], [[98], [100]], [[98], [101]], [[100], [101]], [[98], [100]], [[98], [100]]],
    tdoses := [[1, 1], [1, 1], [1, 1], [1, 1], [1, 1], [1, 1]],
    snames := [[115, 48], [115, 49], [115, 49], [115, 50], [115, 50], [115, 49]],
    pnames := [[112, 48], [112, 49], [112, 49], [112, 50], [112, 50], [112, 51]],
    obs := [1, 2, 3, 4, 5, 6],
    mask := [true, true, true, true, true, true],
    tids := [[0, 1], [1, 2], [1, 3], [2, 3], [1, 2], [1, 2]],
    sids := [0, 1, 1, 2, 2, 1],
    pids := [0, 1, 1, 2, 2, 3],
    tmap := [([97], 1, 0), ([98], 1, 1), ([100], 1, 2), ([101], 1, 3)],
    smap := [([115, 48], 0), ([115, 49], 1), ([115, 50], 2)],
    pmap := [([112, 48], 0), ([112, 49], 1), ([112, 50], 2), ([112, 51], 3)] }

theorem witnessPrepared_mk : mk? witnessRaw = .ok witnessPrepared := by rw [mk?_eqK]; decide

/-- the training half after holding out row 0 -/
def witnessTrain : Screen :=
  { ctrl := [99], arity := 2,
    tnames := [[[98], [100]], [[98], [101]], [[100], [101]], [[98], [100]], [[98], [100]]],
    tdoses := [[1, 1], [1, 1], [1, 1], [1, 1], [1, 1]],
    snames := [[115, 49], [115, 49], [115, 50], [115, 50], [115, 49]],
    pnames := [[112, 49], [112, 49], [112, 50], [112, 50], [112, 51]],
    obs := [2, 3, 4, 5, 6],
    mask := [true, true, true, true, true],
    tids := [[1, 2], [1, 3], [2, 3], [1, 2], [1, 2]],
    sids := [1, 1, 2, 2, 1],
    pids := [0, 0, 1, 1, 2],
    tmap := [([97], 1, 0), ([98], 1, 1), ([100], 1, 2), ([101], 1, 3)],
    smap := [([115, 48], 0), ([115, 49], 1), ([115, 50], 2)],
    pmap := [([112, 49], 0), ([112, 50], 1), ([112, 51], 2)] }

def witnessSel : List Bool := [true, false, false, false, false, false]

theorem witnessTrain_step : step (.holdKeep witnessSel) witnessPrepared = .ok witnessTrain := by
  simp only [step, holdout, holdoutKeep, holdoutTest, mk?_eqK]
  decide

/-- masking and revealing plate 0 with the constructors as they were before commit 141f07a -/
def witnessTrainOldRevealed : Screen :=
  { witnessTrain with
    mask := [true, true, false, false, false],
    tids := [[0, 1], [0, 2], [1, 2], [0, 1], [0, 1]],
    sids := [0, 0, 1, 1, 0],
    tmap := [([98], 1, 0), ([100], 1, 1), ([101], 1, 2)],
    smap := [([115, 49], 0), ([115, 50], 1)] }

theorem witnessOld_run :
    run stepOld [.mask, .reveal [0]] witnessTrain
      = .ok [{ witnessTrainOldRevealed with mask := [false, false, false, false, false] }, witnessTrainOldRevealed] := by
  simp only [run, stepOld, maskScreenOld, revealPlatesOld, rebuildOld, mk?_eqK, bind, Except.bind, pure, Except.pure]
  decide

/-- the same history with the constructors as they are now -/
theorem witnessNew_run :
    run step [.mask, .reveal [0]] witnessTrain
      = .ok [{ witnessTrain with mask := [false, false, false, false, false] },
             { witnessTrain with mask := [true, true, false, false, false] }] := by
  simp only [run, step, maskScreen, revealPlates, rebuild, mk?_eqK, bind, Except.bind, pure, Except.pure]
  decide

end Batchie.Lifecycle
