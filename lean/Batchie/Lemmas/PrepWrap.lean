/-
  C11 / C13 helper lemmas, part 4: `select` (`subset(...).to_screen()`), `combine`, and the
  `generate_plates` / `smooth_plates` wrapper: what conservation facts about the inner operation give
  about the wrapped one.
-/
import Batchie.Lemmas.PrepPlates
import Batteries.Data.List.Perm
namespace Batchie.Prep
open Batchie.Proto Batchie.Screen

/-- a row without its plate label -/
def unlabelled (r : Row) : (Name × List Name × List Dose × Nat) × Bool := (r.exp, r.mask)

theorem select_ok {s t : Screen} {sel : List Bool} (h : select s sel = .ok t) :
    BuildOk s.ctrl s.arity (maskFilter (rowsOf s) sel) t := build_ok h

theorem combine_ok {a b t : Screen} (h : combine a b = .ok t) : BuildOk a.ctrl a.arity (rowsOf a ++ rowsOf b) t := by
  unfold combine at h
  split at h
  · cases h
  · exact build_ok h

theorem any_not_eq_false_iff (m : List Bool) : (m.any (!·)) = false ↔ ∀ b ∈ m, b = true := by
  simp [List.any_eq_false]

/-- the shape of a successful wrapped run -/
theorem wrap_ok {op : Screen → Except Err Screen} {s out : Screen} (h : wrap op s = .ok out) :
    (unobservedRows s = [] ∧ out = s) ∨
    ∃ u nu, BuildOk s.ctrl s.arity (unobservedRows s) u ∧ op u = .ok nu ∧ rowsOf out = rowsOf nu ++ observedRows s := by
  unfold wrap at h
  simp only at h
  have eu : maskFilter (rowsOf s) (((rowsOf s).map (·.mask)).map (!·)) = unobservedRows s := by
    rw [List.map_map]; exact maskFilter_map_pred _ _
  have eo : maskFilter (rowsOf s) ((rowsOf s).map (·.mask)) = observedRows s := maskFilter_map_pred _ _
  split at h
  · rename_i hc
    left
    cases h
    refine ⟨?_, rfl⟩
    unfold unobservedRows
    apply filter_eq_nil_of_forall
    intro r hr
    simp only [Bool.not_eq_true', Bool.not_eq_eq_eq_not, Bool.not_not, Bool.not_true, List.any_eq_false, List.mem_map,
      forall_exists_index, and_imp, forall_apply_eq_imp_iff₂] at hc
    simpa using hc r hr
  · right
    obtain ⟨u, hu, h⟩ := bind_ok h
    obtain ⟨nu, hnu, h⟩ := bind_ok h
    have bu := select_ok hu
    rw [eu] at bu
    refine ⟨u, nu, bu, hnu, ?_⟩
    split at h
    · rename_i hc
      cases h
      have : observedRows s = [] := by
        unfold observedRows
        apply filter_eq_nil_of_forall
        intro r hr
        simp only [Bool.not_eq_true', List.any_eq_false, List.mem_map, forall_exists_index, and_imp,
          forall_apply_eq_imp_iff₂, id] at hc
        simpa using hc r hr
      rw [this, List.append_nil]
    · obtain ⟨o, ho, h⟩ := bind_ok h
      have bo := select_ok ho
      rw [eo] at bo
      rw [(combine_ok h).rows_eq, bo.rows_eq]

theorem unobserved_mask {s : Screen} : ∀ r ∈ unobservedRows s, r.mask = false := by
  intro r hr
  have := (List.mem_filter.mp hr).2
  simpa using this

theorem observed_mask {s : Screen} : ∀ r ∈ observedRows s, r.mask = true := by
  intro r hr
  exact (List.mem_filter.mp hr).2

theorem rows_split_perm (s : Screen) : (unobservedRows s ++ observedRows s).Perm (rowsOf s) := by
  have := List.filter_append_perm (fun r : Row => r.mask) (rowsOf s)
  exact List.perm_append_comm.trans this

/-- observed rows of a list whose first part is unobserved and whose second part is observed -/
theorem filter_mask_append (a b : List Row) (ha : ∀ r ∈ a, r.mask = false) (hb : ∀ r ∈ b, r.mask = true) :
    (a ++ b).filter (·.mask) = b ∧ (a ++ b).filter (fun r => !r.mask) = a := by
  rw [List.filter_append, List.filter_append]
  rw [filter_eq_nil_of_forall _ a (by intro r hr; simpa using ha r hr), filter_eq_self_of_forall _ b hb,
    filter_eq_self_of_forall _ a (by intro r hr; simp [ha r hr]), filter_eq_nil_of_forall _ b (by intro r hr; simp [hb r hr])]
  simp

/-- **wrapper, observed part**: if the inner operation turns unobserved rows into unobserved rows, the observed part
    of the wrapped result is the observed part of the input, record for record and in order, and the unobserved part
    of the result is exactly what the inner operation produced. -/
theorem wrap_observed {op : Screen → Except Err Screen} {s out : Screen}
    (hop : ∀ u nu, op u = .ok nu → (∀ r ∈ rowsOf u, r.mask = false) → ∀ r ∈ rowsOf nu, r.mask = false)
    (h : wrap op s = .ok out) : observedRows out = observedRows s := by
  rcases wrap_ok h with ⟨_, rfl⟩ | ⟨u, nu, bu, hnu, hrows⟩
  · rfl
  · have hm := hop u nu hnu (by rw [bu.rows_eq]; exact unobserved_mask)
    unfold observedRows at *
    rw [hrows]
    exact (filter_mask_append _ _ hm observed_mask).1

/-- **wrapper, conservation**: a permutation of the unobserved part (ignoring plate labels) is a permutation of the screen -/
theorem wrap_perm {op : Screen → Except Err Screen} {s out : Screen}
    (hop : ∀ u nu, op u = .ok nu → (∀ r ∈ rowsOf u, r.mask = false) → ((rowsOf nu).map unlabelled).Perm ((rowsOf u).map unlabelled))
    (h : wrap op s = .ok out) : ((rowsOf out).map unlabelled).Perm ((rowsOf s).map unlabelled) := by
  rcases wrap_ok h with ⟨_, rfl⟩ | ⟨u, nu, bu, hnu, hrows⟩
  · exact List.Perm.refl _
  · have hp := hop u nu hnu (by rw [bu.rows_eq]; exact unobserved_mask)
    rw [bu.rows_eq] at hp
    rw [hrows, List.map_append]
    refine (List.Perm.append_right _ hp).trans ?_
    rw [← List.map_append]
    exact (rows_split_perm s).map _

/-- **wrapper, sub-collection** -/
theorem wrap_subperm {op : Screen → Except Err Screen} {s out : Screen}
    (hop : ∀ u nu, op u = .ok nu → (∀ r ∈ rowsOf u, r.mask = false) → ((rowsOf nu).map unlabelled).Subperm ((rowsOf u).map unlabelled))
    (h : wrap op s = .ok out) : ((rowsOf out).map unlabelled).Subperm ((rowsOf s).map unlabelled) := by
  rcases wrap_ok h with ⟨_, rfl⟩ | ⟨u, nu, bu, hnu, hrows⟩
  · exact List.Subperm.refl _
  · have hp := hop u nu hnu (by rw [bu.rows_eq]; exact unobserved_mask)
    rw [bu.rows_eq] at hp
    rw [hrows, List.map_append]
    refine List.Subperm.trans ((List.subperm_append_right _).mpr hp) ?_
    rw [← List.map_append]
    exact ((rows_split_perm s).map _).subperm

end Batchie.Prep
