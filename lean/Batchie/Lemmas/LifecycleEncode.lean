/-
  Helper lemmas about the id encoding of `Model/Screen.lean` needed by C02 / C12 / C03:
  the ids of a freshly built treatment / sample table pass `isZeroIndexed` (so a screen's own
  mappings are accepted when they are handed back to the constructor), and a fresh 1-d table
  assigns ids injectively (plate ids <-> plate names).

  Core Lean only (no Mathlib import needed).
-/
import Batchie.Model.Screen

namespace Batchie.Lifecycle
open Batchie.Proto Batchie.Screen

/-! ### `eraseDups` -/

theorem nodup_eraseDups {α : Type} [BEq α] [LawfulBEq α] : ∀ (l : List α), l.eraseDups.Nodup
  | [] => by simp
  | a :: as => by
    rw [List.eraseDups_cons]
    have hlt : (as.filter fun b => !b == a).length < (a :: as).length :=
      Nat.lt_succ_of_le (List.length_filter_le _ _)
    have ih := nodup_eraseDups (as.filter fun b => !b == a)
    rw [List.nodup_cons]
    refine ⟨?_, ih⟩
    simp [List.mem_eraseDups, List.mem_filter]
termination_by l => l.length

theorem eraseDups_of_nodup {α : Type} [BEq α] [LawfulBEq α] : ∀ {l : List α}, l.Nodup → l.eraseDups = l
  | [], _ => by simp
  | a :: as, h => by
    rw [List.eraseDups_cons]
    rw [List.nodup_cons] at h
    have hf : (as.filter fun b => !b == a) = as := by
      rw [List.filter_eq_self]
      intro b hb
      have : b ≠ a := fun e => h.1 (e ▸ hb)
      simpa using this
    rw [hf, eraseDups_of_nodup h.2]

/-! ### `isZeroIndexed` from a description of the members -/

def intLe : Int → Int → Bool := fun a b => decide (a ≤ b)

theorem sortedIds_eq {ids T : List Int} (hT : T.Pairwise (· < ·)) (hmem : ∀ x, x ∈ ids ↔ x ∈ T) :
    (ids.eraseDups).mergeSort (fun a b => decide (a ≤ b)) = T := by
  have hsorted : ((ids.eraseDups).mergeSort (fun a b => decide (a ≤ b))).Pairwise (fun a b => decide (a ≤ b) = true) :=
    List.pairwise_mergeSort (le := fun a b : Int => decide (a ≤ b))
      (by intro a b c h1 h2; simp only [decide_eq_true_eq] at *; omega)
      (by intro a b; simp only [Bool.or_eq_true, decide_eq_true_eq]; omega) _
  have hperm := List.mergeSort_perm (ids.eraseDups) (fun a b => decide (a ≤ b))
  have hnd : ((ids.eraseDups).mergeSort (fun a b => decide (a ≤ b))).Nodup :=
    hperm.nodup_iff.mpr (nodup_eraseDups ids)
  have hTnd : T.Nodup := hT.imp (fun h => Int.ne_of_lt h)
  have hp : ((ids.eraseDups).mergeSort (fun a b => decide (a ≤ b))).Perm T := by
    rw [List.perm_ext_iff_of_nodup hnd hTnd]
    intro x
    rw [List.mem_mergeSort, List.mem_eraseDups, hmem]
  refine List.Perm.eq_of_pairwise (le := fun a b => decide (a ≤ b) = true) ?_ hsorted ?_ hp
  · intro a b _ _ h1 h2
    simp only [decide_eq_true_eq] at h1 h2
    omega
  · exact hT.imp (fun h => by simp only [decide_eq_true_eq]; omega)

theorem pairwise_lt_range (k : Nat) : ((List.range k).map (fun (i : Nat) => (i : Int))).Pairwise (· < ·) := by
  rw [List.pairwise_map]
  have : (List.range k).Pairwise (· < ·) := List.pairwise_lt_range
  exact this.imp (fun h => by omega)

/-- ids are exactly `0 .. k-1` -/
theorem isZeroIndexed_of_range {ids : List Int} {k : Nat}
    (hmem : ∀ x, x ∈ ids ↔ ∃ j : Nat, j < k ∧ x = (j : Int)) : isZeroIndexed ids = true := by
  have hno : ids.contains (-1) = false := by
    rw [List.contains_eq_mem]
    simp only [decide_eq_false_iff_not]
    intro h
    obtain ⟨j, _, hj⟩ := (hmem _).1 h
    omega
  have hs := sortedIds_eq (ids := ids) (T := (List.range k).map (fun (i : Nat) => (i : Int))) (pairwise_lt_range k)
    (by intro x; rw [hmem]; simp only [List.mem_map, List.mem_range]
        constructor
        · rintro ⟨j, hj, rfl⟩; exact ⟨j, hj, rfl⟩
        · rintro ⟨j, hj, rfl⟩; exact ⟨j, hj, rfl⟩)
  unfold isZeroIndexed
  simp only [hno, hs, Bool.false_eq_true, ↓reduceIte, List.length_map, List.length_range, beq_self_eq_true]

/-- ids are exactly `-1` and `0 .. k-1` -/
theorem isZeroIndexed_of_range_ctrl {ids : List Int} {k : Nat}
    (hmem : ∀ x, x ∈ ids ↔ x = -1 ∨ ∃ j : Nat, j < k ∧ x = (j : Int)) : isZeroIndexed ids = true := by
  have hyes : ids.contains (-1) = true := by
    rw [List.contains_eq_mem]
    simp only [decide_eq_true_eq]
    exact (hmem _).2 (Or.inl rfl)
  have hT : ((-1 : Int) :: (List.range k).map (fun (i : Nat) => (i : Int))).Pairwise (· < ·) := by
    rw [List.pairwise_cons]
    refine ⟨?_, pairwise_lt_range k⟩
    intro a ha
    simp only [List.mem_map, List.mem_range] at ha
    obtain ⟨j, _, rfl⟩ := ha
    omega
  have hs := sortedIds_eq (ids := ids) hT
    (by intro x; rw [hmem]; simp only [List.mem_cons, List.mem_map, List.mem_range]
        constructor
        · rintro (h | ⟨j, hj, rfl⟩)
          · exact Or.inl h
          · exact Or.inr ⟨j, hj, rfl⟩
        · rintro (h | ⟨j, hj, rfl⟩)
          · exact Or.inl h
          · exact Or.inr ⟨j, hj, rfl⟩)
  unfold isZeroIndexed
  simp only [hyes, hs, ↓reduceIte, List.length_cons, List.length_map, List.length_range, Nat.add_sub_cancel,
    beq_self_eq_true]

/-! ### `renumber`: the `index - cumsum` line -/

theorem length_renumberGo (i c : Int) (fl : List Bool) : (renumberGo i c fl).length = fl.length := by
  induction fl generalizing i c with
  | nil => rfl
  | cons f fs ih => simp [renumberGo, ih]

theorem mem_renumberGo (i c : Int) (fl : List Bool) (x : Int) :
    x ∈ renumberGo i c fl ↔ (x = -1 ∧ true ∈ fl) ∨ ∃ j : Nat, j < fl.count false ∧ x = i - c + (j : Int) := by
  induction fl generalizing i c with
  | nil => simp [renumberGo]
  | cons f fs ih =>
    cases f with
    | true =>
      simp only [renumberGo, ↓reduceIte, List.mem_cons, ih, List.count_cons, Bool.true_eq_false, Nat.add_zero,
        true_or, and_true, beq_iff_eq]
      constructor
      · rintro (h | ⟨h, _⟩ | ⟨j, hj, h⟩)
        · exact Or.inl h
        · exact Or.inl h
        · exact Or.inr ⟨j, hj, by omega⟩
      · rintro (h | ⟨j, hj, h⟩)
        · exact Or.inl h
        · exact Or.inr (Or.inr ⟨j, hj, by omega⟩)
    | false =>
      simp only [renumberGo, Bool.false_eq_true, ↓reduceIte, List.mem_cons, ih, List.count_cons, beq_self_eq_true]
      constructor
      · rintro (h | ⟨h, ht⟩ | ⟨j, hj, h⟩)
        · exact Or.inr ⟨0, by omega, by omega⟩
        · exact Or.inl ⟨h, Or.inr ht⟩
        · exact Or.inr ⟨j + 1, by omega, by omega⟩
      · rintro (⟨h, ht⟩ | ⟨j, hj, h⟩)
        · exact Or.inr (Or.inl ⟨h, ht.resolve_left (by simp)⟩)
        · cases j with
          | zero => exact Or.inl (by omega)
          | succ j => exact Or.inr (Or.inr ⟨j, by omega, by omega⟩)

/-- the ids of a freshly encoded treatment table are `{-1?} ∪ 0..k-1` (C01's density, as far as C02 needs it) -/
theorem isZeroIndexed_renumber (fl : List Bool) : isZeroIndexed (renumber fl) = true := by
  unfold renumber
  by_cases ht : true ∈ fl
  · apply isZeroIndexed_of_range_ctrl (k := fl.count false)
    intro x
    rw [mem_renumberGo]
    constructor
    · rintro (⟨h, _⟩ | ⟨j, hj, h⟩)
      · exact Or.inl h
      · exact Or.inr ⟨j, hj, by omega⟩
    · rintro (h | ⟨j, hj, h⟩)
      · exact Or.inl ⟨h, ht⟩
      · exact Or.inr ⟨j, hj, by omega⟩
  · apply isZeroIndexed_of_range (k := fl.count false)
    intro x
    rw [mem_renumberGo]
    constructor
    · rintro (⟨_, h⟩ | ⟨j, hj, h⟩)
      · exact absurd h ht
      · exact ⟨j, hj, by omega⟩
    · rintro ⟨j, hj, h⟩
      exact Or.inr ⟨j, hj, by omega⟩

theorem freshTMap_ids (ctrl : Name) (xs : List (Name × Dose)) :
    (freshTMap ctrl xs).map (·.2.2) = renumber (((xs.eraseDups).mergeSort keyLe).map (isControl ctrl)) := by
  unfold freshTMap
  simp only [List.map_map]
  have h : ((fun (x : Name × Dose × Int) => x.2.2) ∘ fun (p : (Name × Dose) × Int) => (p.1.1, p.1.2, p.2))
      = fun p => p.2 := rfl
  rw [h, List.map_snd_zip]
  simp [renumber, length_renumberGo]

theorem isZeroIndexed_freshTMap (ctrl : Name) (xs : List (Name × Dose)) :
    isZeroIndexed ((freshTMap ctrl xs).map (·.2.2)) = true := by
  rw [freshTMap_ids]; exact isZeroIndexed_renumber _

/-! ### fresh 1-d tables -/

theorem freshSMap_ids (xs : List Name) :
    (freshSMap xs).map (·.2) = (List.range ((xs.eraseDups).mergeSort nameLe).length).map (fun (i : Nat) => (i : Int)) := by
  unfold freshSMap
  simp only [List.map_map]
  have h : ((fun (x : Name × Int) => x.2) ∘ fun (p : Name × Nat) => (p.1, (p.2 : Int)))
      = (fun (i : Nat) => (i : Int)) ∘ (fun p => p.2) := rfl
  rw [h, ← List.map_map, List.zipIdx_eq_zip_range', List.map_snd_zip (by simp), List.range_eq_range']

theorem isZeroIndexed_freshSMap (xs : List Name) : isZeroIndexed ((freshSMap xs).map (·.2)) = true := by
  rw [freshSMap_ids]
  apply isZeroIndexed_of_range (k := ((xs.eraseDups).mergeSort nameLe).length)
  intro x
  simp only [List.mem_map, List.mem_range]
  constructor
  · rintro ⟨j, hj, rfl⟩; exact ⟨j, hj, rfl⟩
  · rintro ⟨j, hj, rfl⟩; exact ⟨j, hj, rfl⟩

/-- the sorted unique names a fresh 1-d table is built from -/
def uniqueNames (xs : List Name) : List Name := (xs.eraseDups).mergeSort nameLe

theorem nodup_uniqueNames (xs : List Name) : (uniqueNames xs).Nodup :=
  (List.mergeSort_perm _ _).nodup_iff.mpr (nodup_eraseDups xs)

theorem mem_uniqueNames {xs : List Name} {k : Name} : k ∈ uniqueNames xs ↔ k ∈ xs := by
  unfold uniqueNames; rw [List.mem_mergeSort, List.mem_eraseDups]

theorem sLookup_zipIdx_not_mem (u : List Name) (k : Name) (hk : k ∉ u) (start : Nat) :
    sLookup ((u.zipIdx start).map (fun p => (p.1, (p.2 : Int)))) k = [] := by
  induction u generalizing start with
  | nil => simp [sLookup]
  | cons a t ih =>
    simp only [List.mem_cons, not_or] at hk
    have hne : (a == k) = false := by simpa using fun e => hk.1 e.symm
    have := ih hk.2 (start + 1)
    simp only [sLookup] at this ⊢
    simp [hne, this]

theorem sLookup_zipIdx (u : List Name) (hn : u.Nodup) (k : Name) (hk : k ∈ u) (start : Nat) :
    sLookup ((u.zipIdx start).map (fun p => (p.1, (p.2 : Int)))) k = [((start + u.idxOf k : Nat) : Int)] := by
  induction u generalizing start with
  | nil => cases hk
  | cons a t ih =>
    rw [List.nodup_cons] at hn
    by_cases hak : a = k
    · subst hak
      have h0 := sLookup_zipIdx_not_mem t a hn.1 (start + 1)
      simp only [sLookup] at h0 ⊢
      simp [h0]
    · have hkt : k ∈ t := by
        rcases List.mem_cons.1 hk with h | h
        · exact absurd h.symm hak
        · exact h
      have hne : (a == k) = false := by simpa using hak
      have := ih hn.2 hkt (start + 1)
      simp only [sLookup] at this ⊢
      simp only [List.zipIdx_cons, List.map_cons, List.filter_cons, hne, Bool.false_eq_true, ↓reduceIte, this,
        List.idxOf_cons, cond_false]
      congr 2
      omega

/-- a fresh 1-d table looks every member up to the index of its name among the sorted unique names -/
theorem sLookup_freshSMap {xs : List Name} {k : Name} (hk : k ∈ xs) :
    sLookup (freshSMap xs) k = [(((uniqueNames xs).idxOf k : Nat) : Int)] := by
  have := sLookup_zipIdx (uniqueNames xs) (nodup_uniqueNames xs) k (mem_uniqueNames.2 hk) 0
  simpa [freshSMap, uniqueNames] using this

theorem flatten_map_singleton {α β : Type} (f : α → List β) (g : α → β) :
    ∀ (l : List α), (∀ a ∈ l, f a = [g a]) → (l.map f).flatten = l.map g
  | [], _ => rfl
  | a :: t, h => by
    simp only [List.map_cons, List.flatten_cons, h a List.mem_cons_self, List.singleton_append]
    rw [flatten_map_singleton f g t (fun b hb => h b (List.mem_cons_of_mem _ hb))]

/-- `encode_1d_array_to_0_indexed_ids(names)` never fails and returns the index among the sorted unique names -/
theorem encode1d_fresh (xs : List Name) :
    encode1d xs none = .ok (xs.map (fun k => (((uniqueNames xs).idxOf k : Nat) : Int)), freshSMap xs) := by
  unfold encode1d
  have hall : ∀ k ∈ xs, sLookup (freshSMap xs) k = [(((uniqueNames xs).idxOf k : Nat) : Int)] :=
    fun k hk => sLookup_freshSMap hk
  have hany : (xs.map (sLookup (freshSMap xs))).any (·.isEmpty) = false := by
    rw [List.any_eq_false]
    intro l hl
    obtain ⟨k, hk, rfl⟩ := List.mem_map.1 hl
    simp [hall k hk]
  simp only [hany, Bool.false_eq_true, ↓reduceIte]
  rw [flatten_map_singleton _ _ xs hall]

theorem idxOf_uniqueNames_inj {xs : List Name} {a b : Name} (ha : a ∈ xs) (hb : b ∈ xs)
    (h : (uniqueNames xs).idxOf a = (uniqueNames xs).idxOf b) : a = b := by
  have ha' := List.idxOf_lt_length_of_mem (mem_uniqueNames.2 ha)
  have hb' := List.idxOf_lt_length_of_mem (mem_uniqueNames.2 hb)
  have e1 := List.getElem_idxOf ha'
  have e2 := List.getElem_idxOf hb'
  rw [← e1, ← e2]
  simp only [h]

end Batchie.Lifecycle
