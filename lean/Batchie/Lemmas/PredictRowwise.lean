/-
  Helper lemmas for C09: numpy-style gathers are `List.map`s on in-range ids, and the array-level
  prediction functions of `Batchie.Model.Predict` are `List.mapM`s of the per-row functions.
  No algebra is used here: these hold for every carrier type.
-/
import Batchie.Model.Predict

namespace Batchie.Predict

/-! ### `List.mapM` in `Option` -/

theorem mapM_some {A B : Type} (f : A → Option B) (g : A → B) (l : List A)
    (h : ∀ a ∈ l, f a = some (g a)) : l.mapM f = some (l.map g) := by
  induction l with
  | nil => rfl
  | cons a l ih =>
    have h1 := h a (by simp)
    have h2 := ih (fun b hb => h b (by simp [hb]))
    simp [List.mapM_cons, h1, h2]

theorem mapM_none {A B : Type} (f : A → Option B) (l : List A) (a : A) (ha : a ∈ l) (h : f a = none) :
    l.mapM f = none := by
  induction l with
  | nil => cases ha
  | cons b l ih =>
    rw [List.mapM_cons]
    rcases List.mem_cons.mp ha with rfl | hm
    · simp [h]
    · simp [ih hm]

theorem mapM_length {A B : Type} (f : A → Option B) (l : List A) (ys : List B) (h : l.mapM f = some ys) :
    ys.length = l.length := by
  induction l generalizing ys with
  | nil => simp at h; subst h; rfl
  | cons a l ih =>
    rw [List.mapM_cons] at h
    cases h1 : f a with
    | none => simp [h1] at h
    | some b =>
      cases h2 : l.mapM f with
      | none => simp [h1, h2] at h
      | some bs =>
        simp [h1, h2] at h
        subst h
        simp [ih bs h2]

/-- boolean-mask selection commutes with a row-wise map in `Option` -/
theorem mapM_maskFilter {A B : Type} (f : A → Option B) (l : List A) (ys : List B) (m : List Bool)
    (h : l.mapM f = some ys) : (maskFilter l m).mapM f = some (maskFilter ys m) := by
  induction l generalizing ys m with
  | nil => simp at h; subst h; cases m <;> simp [maskFilter]
  | cons a l ih =>
    rw [List.mapM_cons] at h
    cases h1 : f a with
    | none => simp [h1] at h
    | some b =>
      cases h2 : l.mapM f with
      | none => simp [h1, h2] at h
      | some bs =>
        simp [h1, h2] at h
        subst h
        cases m with
        | nil => simp [maskFilter]
        | cons x m =>
          cases x
          · simpa [maskFilter] using ih bs m h2
          · simp [maskFilter, List.mapM_cons, h1, ih bs m h2]

theorem mapM_getElem {A B : Type} (f : A → Option B) (l : List A) (ys : List B) (h : l.mapM f = some ys)
    (i : Nat) (hi : i < l.length) : ∃ (hy : i < ys.length), f l[i] = some ys[i] := by
  induction l generalizing ys i with
  | nil => cases hi
  | cons a l ih =>
    rw [List.mapM_cons] at h
    cases h1 : f a with
    | none => simp [h1] at h
    | some b =>
      cases h2 : l.mapM f with
      | none => simp [h1, h2] at h
      | some bs =>
        simp [h1, h2] at h
        subst h
        cases i with
        | zero => exact ⟨by simp, by simpa using h1⟩
        | succ j =>
          obtain ⟨hy, e⟩ := ih bs h2 j (by simpa using hi)
          exact ⟨by simpa using hy, by simpa using e⟩

/-- re-indexing the rows (any selection, permutation or repetition given by positions) re-indexes
    the row-wise result the same way -/
theorem mapM_reindex {A B : Type} (f : A → Option B) (l : List A) (ys : List B) (h : l.mapM f = some ys)
    (da : A) (db : B) (idx : List Nat) (hidx : ∀ i ∈ idx, i < l.length) :
    (idx.map (fun i => l.getD i da)).mapM f = some (idx.map (fun i => ys.getD i db)) := by
  rw [List.mapM_map]
  apply mapM_some
  intro i hi
  obtain ⟨hy, e⟩ := mapM_getElem f l ys h i (hidx i hi)
  have hl := hidx i hi
  simp [List.getD_eq_getElem?_getD, hl, hy, e]

/-! ### indexing -/

theorem pos_lt {n : Nat} {t : Int} (h : inRange n t = true) : pos n t < n := by
  simp only [inRange, Bool.and_eq_true, decide_eq_true_eq] at h
  unfold pos
  split <;> omega

theorem pyIndex?_of_inRange {β : Type} (arr : List β) (t : Int) (d : β) (h : inRange arr.length t = true) :
    pyIndex? arr t = some (arr.getD (pos arr.length t) d) := by
  have hp := pos_lt h
  simp [pyIndex?, h, List.getD_eq_getElem?_getD, hp]

theorem pyIndex?_of_not_inRange {β : Type} (arr : List β) (t : Int) (h : inRange arr.length t = false) :
    pyIndex? arr t = none := by
  simp [pyIndex?, h]

theorem gather?_ok {β : Type} (arr : List β) (ts : List Int) (d : β)
    (h : ∀ t ∈ ts, inRange arr.length t = true) :
    gather? arr ts = some (ts.map (fun t => arr.getD (pos arr.length t) d)) :=
  mapM_some _ _ _ (fun t ht => pyIndex?_of_inRange arr t d (h t ht))

theorem gather?_bad {β : Type} (arr : List β) (ts : List Int) (t : Int) (ht : t ∈ ts)
    (h : inRange arr.length t = false) : gather? arr ts = none :=
  mapM_none _ _ t ht (pyIndex?_of_not_inRange arr t h)

theorem maskedZero_map {β : Type} (zero : β → β) (g : Int → β) (ts : List Int) :
    maskedZero zero (ts.map g) ts = ts.map (fun t => if t = -1 then zero (g t) else g t) := by
  induction ts with
  | nil => rfl
  | cons t ts ih =>
    simp only [maskedZero, List.map_cons, List.zipWith_cons_cons] at ih ⊢
    rw [ih]
    by_cases h : t = -1 <;> simp [h]

theorem gatherCopyZero_ok {β : Type} (zero : β → β) (arr : List β) (ts : List Int) (d : β)
    (h : ∀ t ∈ ts, inRange arr.length t = true) :
    gatherCopyZero zero arr ts
      = some (ts.map (fun t => if t = -1 then zero (arr.getD (pos arr.length t) d) else arr.getD (pos arr.length t) d)) := by
  simp [gatherCopyZero, gather?_ok arr ts d h, maskedZero_map]

theorem gatherCopyZero_bad {β : Type} (zero : β → β) (arr : List β) (ts : List Int) (t : Int) (ht : t ∈ ts)
    (h : inRange arr.length t = false) : gatherCopyZero zero arr ts = none := by
  simp [gatherCopyZero, gather?_bad arr ts t ht h]

/-! ### the array-level predictions are row-wise -/

section
variable {α : Type} [Add α] [Mul α] [OfNat α 0]

omit [Add α] [Mul α] in
theorem czRow_eq (arr : List (List α)) (t : Int) (h : inRange arr.length t = true) :
    czRow arr t = if t = -1 then zeroRow (arr.getD (pos arr.length t) []) else arr.getD (pos arr.length t) [] := by
  simp [czRow, pyIndex?_of_inRange arr t [] h]

omit [Add α] [Mul α] in
theorem czCell_eq (arr : List α) (t : Int) (h : inRange arr.length t = true) :
    czCell arr t = if t = -1 then zeroCell (arr.getD (pos arr.length t) 0) else arr.getD (pos arr.length t) 0 := by
  simp [czCell, pyIndex?_of_inRange arr t 0 h]

theorem predictMean_all_ok (θ : Theta α) (rows : List Row) (h : ∀ r ∈ rows, rowOk θ r = true) :
    predictMean θ rows = some (rows.map (predictRowVal θ)) := by
  have hs : ∀ t ∈ rows.map (·.s), inRange θ.W.length t = true := by
    intro t ht; obtain ⟨r, hr, rfl⟩ := List.mem_map.mp ht
    have := h r hr; simp only [rowOk, Bool.and_eq_true] at this; exact this.1.1.1.1.1.1.1
  have h20 : ∀ t ∈ rows.map (·.t0), inRange θ.V2.length t = true := by
    intro t ht; obtain ⟨r, hr, rfl⟩ := List.mem_map.mp ht
    have := h r hr; simp only [rowOk, Bool.and_eq_true] at this; exact this.1.1.1.1.1.1.2
  have h21 : ∀ t ∈ rows.map (·.t1), inRange θ.V2.length t = true := by
    intro t ht; obtain ⟨r, hr, rfl⟩ := List.mem_map.mp ht
    have := h r hr; simp only [rowOk, Bool.and_eq_true] at this; exact this.1.1.1.1.1.2
  have h10 : ∀ t ∈ rows.map (·.t0), inRange θ.V1.length t = true := by
    intro t ht; obtain ⟨r, hr, rfl⟩ := List.mem_map.mp ht
    have := h r hr; simp only [rowOk, Bool.and_eq_true] at this; exact this.1.1.1.1.2
  have h11 : ∀ t ∈ rows.map (·.t1), inRange θ.V1.length t = true := by
    intro t ht; obtain ⟨r, hr, rfl⟩ := List.mem_map.mp ht
    have := h r hr; simp only [rowOk, Bool.and_eq_true] at this; exact this.1.1.1.2
  have hs0 : ∀ t ∈ rows.map (·.s), inRange θ.W0.length t = true := by
    intro t ht; obtain ⟨r, hr, rfl⟩ := List.mem_map.mp ht
    have := h r hr; simp only [rowOk, Bool.and_eq_true] at this; exact this.1.1.2
  have h00 : ∀ t ∈ rows.map (·.t0), inRange θ.V0.length t = true := by
    intro t ht; obtain ⟨r, hr, rfl⟩ := List.mem_map.mp ht
    have := h r hr; simp only [rowOk, Bool.and_eq_true] at this; exact this.1.2
  have h01 : ∀ t ∈ rows.map (·.t1), inRange θ.V0.length t = true := by
    intro t ht; obtain ⟨r, hr, rfl⟩ := List.mem_map.mp ht
    have := h r hr; simp only [rowOk, Bool.and_eq_true] at this; exact this.2
  unfold predictMean
  simp only [gather?_ok θ.W _ [] hs, gatherCopyZero_ok zeroRow θ.V2 _ [] h20, gatherCopyZero_ok zeroRow θ.V2 _ [] h21,
    gatherCopyZero_ok zeroRow θ.V1 _ [] h10, gatherCopyZero_ok zeroRow θ.V1 _ [] h11, gather?_ok θ.W0 _ 0 hs0,
    gatherCopyZero_ok zeroCell θ.V0 _ 0 h00, gatherCopyZero_ok zeroCell θ.V0 _ 0 h01]
  simp only [Option.bind_some, bind, pure]
  congr 1
  clear hs h20 h21 h10 h11 hs0 h00 h01
  induction rows with
  | nil => rfl
  | cons r rows ih =>
    have hr := h r (by simp)
    simp only [rowOk, Bool.and_eq_true] at hr
    obtain ⟨⟨⟨⟨⟨⟨⟨a1, a2⟩, a3⟩, a4⟩, a5⟩, a6⟩, a7⟩, a8⟩ := hr
    simp only [List.map_cons, List.zipWith_cons_cons]
    rw [ih (fun r' hr' => h r' (by simp [hr']))]
    simp only [predictRowVal, czRow_eq _ _ a2, czRow_eq _ _ a3, czRow_eq _ _ a4, czRow_eq _ _ a5, czCell_eq _ _ a7,
      czCell_eq _ _ a8, pyIndex?_of_inRange θ.W r.s [] a1, pyIndex?_of_inRange θ.W0 r.s 0 a6, Option.getD_some]

theorem predictMean_bad (θ : Theta α) (rows : List Row) (r : Row) (hr : r ∈ rows) (h : rowOk θ r = false) :
    predictMean θ rows = none := by
  have ms : r.s ∈ rows.map (·.s) := List.mem_map_of_mem hr
  have m0 : r.t0 ∈ rows.map (·.t0) := List.mem_map_of_mem hr
  have m1 : r.t1 ∈ rows.map (·.t1) := List.mem_map_of_mem hr
  simp only [rowOk, Bool.and_eq_false_iff] at h
  unfold predictMean
  rcases h with ((((((h | h) | h) | h) | h) | h) | h) | h
  · simp [gather?_bad _ _ _ ms h]
  · simp [gatherCopyZero_bad zeroRow _ _ _ m0 h]
  · simp [gatherCopyZero_bad zeroRow _ _ _ m1 h]
  · simp [gatherCopyZero_bad zeroRow _ _ _ m0 h]
  · simp [gatherCopyZero_bad zeroRow _ _ _ m1 h]
  · simp [gather?_bad _ _ _ ms h]
  · simp [gatherCopyZero_bad zeroCell _ _ _ m0 h]
  · simp [gatherCopyZero_bad zeroCell _ _ _ m1 h]

/-- `predict(θ, data, viability=False)` is the row-wise map of the per-experiment prediction
    (and fails exactly when some row's ids are not indices of θ's tables) -/
theorem predictMean_rowwise (θ : Theta α) (rows : List Row) :
    predictMean θ rows = rows.mapM (predictRow? θ) := by
  by_cases h : ∀ r ∈ rows, rowOk θ r = true
  · rw [predictMean_all_ok θ rows h]
    exact (mapM_some _ _ _ (fun r hr => by simp [predictRow?, h r hr])).symm
  · have h' : ∃ r ∈ rows, rowOk θ r = false := by
      apply Classical.byContradiction; intro hn; apply h; intro r hr
      cases hx : rowOk θ r with
      | true => rfl
      | false => exact absurd ⟨r, hr, hx⟩ hn
    obtain ⟨r, hr, hb⟩ := h'
    rw [predictMean_bad θ rows r hr hb]
    exact (mapM_none _ _ r hr (by simp [predictRow?, hb])).symm

theorem predictSingleMean_rowwise (θ : Theta α) (rows : List Row1) :
    predictSingleMean θ rows = rows.mapM (predictSingleRow? θ) := by
  by_cases h : ∀ r ∈ rows, row1Ok θ r = true
  · have hs : ∀ t ∈ rows.map (·.s), inRange θ.W.length t = true := by
      intro t ht; obtain ⟨r, hr, rfl⟩ := List.mem_map.mp ht
      have := h r hr; simp only [row1Ok, Bool.and_eq_true] at this; exact this.1.1.1
    have h10 : ∀ t ∈ rows.map (·.t), inRange θ.V1.length t = true := by
      intro t ht; obtain ⟨r, hr, rfl⟩ := List.mem_map.mp ht
      have := h r hr; simp only [row1Ok, Bool.and_eq_true] at this; exact this.1.1.2
    have hs0 : ∀ t ∈ rows.map (·.s), inRange θ.W0.length t = true := by
      intro t ht; obtain ⟨r, hr, rfl⟩ := List.mem_map.mp ht
      have := h r hr; simp only [row1Ok, Bool.and_eq_true] at this; exact this.1.2
    have h00 : ∀ t ∈ rows.map (·.t), inRange θ.V0.length t = true := by
      intro t ht; obtain ⟨r, hr, rfl⟩ := List.mem_map.mp ht
      have := h r hr; simp only [row1Ok, Bool.and_eq_true] at this; exact this.2
    rw [mapM_some (predictSingleRow? θ) (predictSingleRowVal θ) rows (fun r hr => by simp [predictSingleRow?, h r hr])]
    unfold predictSingleMean
    simp only [gather?_ok θ.W _ [] hs, gatherCopyZero_ok zeroRow θ.V1 _ [] h10, gather?_ok θ.W0 _ 0 hs0,
      gatherCopyZero_ok zeroCell θ.V0 _ 0 h00]
    simp only [Option.bind_some, bind, pure]
    congr 1
    clear hs h10 hs0 h00
    induction rows with
    | nil => rfl
    | cons r rows ih =>
      have hr := h r (by simp)
      simp only [row1Ok, Bool.and_eq_true] at hr
      obtain ⟨⟨⟨a1, a2⟩, a3⟩, a4⟩ := hr
      simp only [List.map_cons, List.zipWith_cons_cons]
      rw [ih (fun r' hr' => h r' (by simp [hr']))]
      simp only [predictSingleRowVal, czRow_eq _ _ a2, czCell_eq _ _ a4, pyIndex?_of_inRange θ.W r.s [] a1,
        pyIndex?_of_inRange θ.W0 r.s 0 a3, Option.getD_some]
  · have h' : ∃ r ∈ rows, row1Ok θ r = false := by
      apply Classical.byContradiction; intro hn; apply h; intro r hr
      cases hx : row1Ok θ r with
      | true => rfl
      | false => exact absurd ⟨r, hr, hx⟩ hn
    obtain ⟨r, hr, hb⟩ := h'
    rw [mapM_none (predictSingleRow? θ) rows r hr (by simp [predictSingleRow?, hb])]
    have ms : r.s ∈ rows.map (·.s) := List.mem_map_of_mem hr
    have m0 : r.t ∈ rows.map (·.t) := List.mem_map_of_mem hr
    simp only [row1Ok, Bool.and_eq_false_iff] at hb
    unfold predictSingleMean
    rcases hb with ((hb | hb) | hb) | hb
    · simp [gather?_bad _ _ _ ms hb]
    · simp [gatherCopyZero_bad zeroRow _ _ _ m0 hb]
    · simp [gather?_bad _ _ _ ms hb]
    · simp [gatherCopyZero_bad zeroCell _ _ _ m0 hb]

theorem interactionMean_rowwise (θ : ThetaI α) (rows : List Row) :
    interactionMean θ rows = rows.mapM (interactionRow? θ) := by
  by_cases h : ∀ r ∈ rows, rowOkI θ r = true
  · have hs : ∀ t ∈ rows.map (·.s), inRange θ.W.length t = true := by
      intro t ht; obtain ⟨r, hr, rfl⟩ := List.mem_map.mp ht
      have := h r hr; simp only [rowOkI, Bool.and_eq_true] at this; exact this.1.1
    have h20 : ∀ t ∈ rows.map (·.t0), inRange θ.V2.length t = true := by
      intro t ht; obtain ⟨r, hr, rfl⟩ := List.mem_map.mp ht
      have := h r hr; simp only [rowOkI, Bool.and_eq_true] at this; exact this.1.2
    have h21 : ∀ t ∈ rows.map (·.t1), inRange θ.V2.length t = true := by
      intro t ht; obtain ⟨r, hr, rfl⟩ := List.mem_map.mp ht
      have := h r hr; simp only [rowOkI, Bool.and_eq_true] at this; exact this.2
    rw [mapM_some (interactionRow? θ) (interactionRowVal θ) rows (fun r hr => by simp [interactionRow?, h r hr])]
    unfold interactionMean
    simp only [gather?_ok θ.W _ [] hs, gatherCopyZero_ok zeroRow θ.V2 _ [] h20, gatherCopyZero_ok zeroRow θ.V2 _ [] h21]
    simp only [Option.bind_some, bind, pure]
    congr 1
    clear hs h20 h21
    induction rows with
    | nil => rfl
    | cons r rows ih =>
      have hr := h r (by simp)
      simp only [rowOkI, Bool.and_eq_true] at hr
      obtain ⟨⟨a1, a2⟩, a3⟩ := hr
      simp only [List.map_cons, List.zipWith_cons_cons]
      rw [ih (fun r' hr' => h r' (by simp [hr']))]
      simp only [interactionRowVal, czRow_eq _ _ a2, czRow_eq _ _ a3, pyIndex?_of_inRange θ.W r.s [] a1, Option.getD_some]
  · have h' : ∃ r ∈ rows, rowOkI θ r = false := by
      apply Classical.byContradiction; intro hn; apply h; intro r hr
      cases hx : rowOkI θ r with
      | true => rfl
      | false => exact absurd ⟨r, hr, hx⟩ hn
    obtain ⟨r, hr, hb⟩ := h'
    rw [mapM_none (interactionRow? θ) rows r hr (by simp [interactionRow?, hb])]
    have ms : r.s ∈ rows.map (·.s) := List.mem_map_of_mem hr
    have m0 : r.t0 ∈ rows.map (·.t0) := List.mem_map_of_mem hr
    have m1 : r.t1 ∈ rows.map (·.t1) := List.mem_map_of_mem hr
    simp only [rowOkI, Bool.and_eq_false_iff] at hb
    unfold interactionMean
    rcases hb with (hb | hb) | hb
    · simp [gather?_bad _ _ _ ms hb]
    · simp [gatherCopyZero_bad zeroRow _ _ _ m0 hb]
    · simp [gatherCopyZero_bad zeroRow _ _ _ m1 hb]

end

/-- post-composing a row-wise map with a cell function -/
theorem mapM_then_map {A B C : Type} (f : A → Option B) (g : B → C) (l : List A) :
    (l.mapM f).map (List.map g) = l.mapM (fun a => (f a).map g) := by
  induction l with
  | nil => rfl
  | cons a l ih =>
    rw [List.mapM_cons, List.mapM_cons, ← ih]
    cases f a <;> cases l.mapM f <;> simp

/-- zipping two row-wise maps over the same rows -/
theorem mapM_zipWith {A B C D : Type} (f : A → Option B) (g : A → Option C) (h : B → C → D) (l : List A)
    (bs : List B) (cs : List C) (hf : l.mapM f = some bs) (hg : l.mapM g = some cs) :
    l.mapM (fun a => do let b ← f a; let c ← g a; pure (h b c)) = some (List.zipWith h bs cs) := by
  induction l generalizing bs cs with
  | nil => simp at hf hg; subst hf; subst hg; rfl
  | cons a l ih =>
    rw [List.mapM_cons] at hf hg ⊢
    cases h1 : f a with
    | none => simp [h1] at hf
    | some b =>
      cases h2 : l.mapM f with
      | none => simp [h1, h2] at hf
      | some bs' =>
        cases h3 : g a with
        | none => simp [h3] at hg
        | some c =>
          cases h4 : l.mapM g with
          | none => simp [h3, h4] at hg
          | some cs' =>
            simp [h1, h2] at hf
            simp [h3, h4] at hg
            subst hf; subst hg
            rw [ih bs' cs' h2 h4]
            simp

end Batchie.Predict
