/-
  C01 helper lemmas, part 9: completeness of the density test, and acceptance of mappings that batchie
  produced for a superset of the data.
-/
import Batchie.Lemmas.EncodeSuccess

namespace Batchie.Screen
open Batchie.Proto

/-- strictly ascending integer lists with the same members are equal -/
theorem strictSorted_ext (l₁ l₂ : List Int) (h₁ : l₁.Pairwise (· < ·)) (h₂ : l₂.Pairwise (· < ·))
    (h : ∀ x, x ∈ l₁ ↔ x ∈ l₂) : l₁ = l₂ := by
  induction l₁ generalizing l₂ with
  | nil =>
    cases l₂ with
    | nil => rfl
    | cons b l₂ => exact absurd ((h b).mpr (by simp)) (by simp)
  | cons a l₁ ih =>
    cases l₂ with
    | nil => exact absurd ((h a).mp (by simp)) (by simp)
    | cons b l₂ =>
      rw [List.pairwise_cons] at h₁ h₂
      have hab : a = b := by
        have h1 := (h a).mp (by simp)
        have h2 := (h b).mpr (by simp)
        rcases List.mem_cons.mp h1 with h1 | h1
        · exact h1
        · rcases List.mem_cons.mp h2 with h2 | h2
          · exact h2.symm
          · have := h₁.1 b h2; have := h₂.1 a h1; omega
      subst hab
      congr 1
      apply ih _ h₁.2 h₂.2
      intro x
      constructor
      · intro hx
        rcases List.mem_cons.mp ((h x).mp (List.mem_cons_of_mem _ hx)) with h3 | h3
        · have := h₁.1 x hx; omega
        · exact h3
      · intro hx
        rcases List.mem_cons.mp ((h x).mpr (List.mem_cons_of_mem _ hx)) with h3 | h3
        · have := h₂.1 x hx; omega
        · exact h3

theorem pairwise_lt_range_cast (n : Nat) : ((List.range n).map (fun (i : Nat) => (i : Int))).Pairwise (· < ·) := by
  rw [List.pairwise_map]
  exact (List.pairwise_lt_range).imp (fun h => by omega)

theorem sortedUniqueInt_strict (ids : List Int) :
    ((ids.eraseDups).mergeSort (fun a b => decide (a ≤ b))).Pairwise (· < ·) := by
  have hs : ((ids.eraseDups).mergeSort (fun a b => decide (a ≤ b))).Pairwise (fun a b => decide (a ≤ b) = true) :=
    List.pairwise_mergeSort (by intro a b c; simp only [decide_eq_true_eq]; omega)
      (by intro a b; simp only [Bool.or_eq_true, decide_eq_true_eq]; omega) _
  have hn := nodup_sorted_unique (fun (a b : Int) => decide (a ≤ b)) ids
  exact (hs.and hn).imp (fun ⟨h1, h2⟩ => by simp only [decide_eq_true_eq] at h1; omega)

/-- completeness of `numpy_array_is_0_indexed_integers`: an id array that is `{-1?} ∪ {0, …, n-1}` is accepted -/
theorem isZeroIndexed_complete (ids : List Int) (n : Nat)
    (h : ∀ x : Int, x ∈ ids ↔ ((x = -1 ∧ (-1 : Int) ∈ ids) ∨ (0 ≤ x ∧ x < (n : Int)))) : isZeroIndexed ids = true := by
  unfold isZeroIndexed
  simp only
  have hmem : ∀ x, x ∈ (ids.eraseDups).mergeSort (fun a b => decide (a ≤ b)) ↔ x ∈ ids := mem_sorted_unique _ _
  have hstrict := sortedUniqueInt_strict ids
  generalize (ids.eraseDups).mergeSort (fun a b => decide (a ≤ b)) = u at hmem hstrict
  have hrange : ∀ (x : Int), x ∈ (List.range n).map (fun (i : Nat) => (i : Int)) ↔ (0 ≤ x ∧ x < (n : Int)) := by
    intro x
    simp only [List.mem_map, List.mem_range]
    constructor
    · rintro ⟨i, hi, rfl⟩; omega
    · rintro ⟨h0, h1⟩; exact ⟨x.toNat, by omega, by omega⟩
  split
  · rename_i hc
    have hc' : (-1 : Int) ∈ ids := by simpa using hc
    have hu : u = (-1 : Int) :: (List.range n).map (fun (i : Nat) => (i : Int)) := by
      apply strictSorted_ext _ _ hstrict
      · rw [List.pairwise_cons]
        refine ⟨?_, pairwise_lt_range_cast n⟩
        intro x hx; have := (hrange x).mp hx; omega
      · intro x
        rw [hmem, h x, List.mem_cons, hrange]
        constructor
        · rintro (⟨h1, _⟩ | h1); exact Or.inl h1; exact Or.inr h1
        · rintro (h1 | h1); exact Or.inl ⟨h1, hc'⟩; exact Or.inr h1
    have hl : u.length - 1 = n := by rw [hu]; simp
    rw [hl, beq_iff_eq]; exact hu
  · rename_i hc
    have hc' : (-1 : Int) ∉ ids := by simpa using hc
    have hu : u = (List.range n).map (fun (i : Nat) => (i : Int)) := by
      apply strictSorted_ext _ _ hstrict (pairwise_lt_range_cast n)
      intro x
      rw [hmem, h x, hrange]
      constructor
      · rintro (⟨_, h1⟩ | h1); exact absurd h1 hc'; exact h1
      · intro h1; exact Or.inr h1
    have hl : u.length = n := by rw [hu]; simp
    rw [hl, beq_iff_eq]; exact hu

/-- a treatment table batchie produced passes the density test -/
theorem isZeroIndexed_freshTMap (ctrl : Name) (xs : List (Name × Dose)) :
    isZeroIndexed ((freshTMap ctrl xs).map (·.2.2)) = true := by
  apply isZeroIndexed_complete _ (nNonControl ctrl xs)
  intro x
  have := freshTMap_id_mem_iff ctrl xs x
  constructor
  · intro hx
    by_cases h1 : x = -1
    · exact Or.inl ⟨h1, h1 ▸ hx⟩
    · exact Or.inr (this.mp ⟨hx, h1⟩)
  · rintro (⟨h1, h2⟩ | h1)
    · rw [h1]; exact h2
    · exact (this.mpr h1).1

theorem isZeroIndexed_freshSMap (xs : List Name) : isZeroIndexed ((freshSMap xs).map (·.2)) = true := by
  apply isZeroIndexed_complete _ (sortedNames xs).length
  intro x
  rw [freshSMap_ids]
  simp only [List.mem_map, List.mem_range]
  constructor
  · rintro ⟨i, hi, rfl⟩; exact Or.inr (by omega)
  · rintro (⟨h1, ⟨i, _, h2⟩⟩ | ⟨h0, h1⟩)
    · omega
    · exact ⟨x.toNat, by omega, by omega⟩

/-- a screen built with mappings batchie produced for a superset of its data -/
def mkSuperset (r : Raw) (tm : TMap) (sm : SMap) : Screen :=
  { ctrl := r.ctrl, arity := r.arity, tnames := r.tnames, tdoses := r.tdoses, snames := r.snames, pnames := r.pnames,
    obs := obsOf r, mask := maskOf r,
    tids := unflattenColumns ((allKeys r).map (tId tm)) r.tnames.length r.arity,
    sids := r.snames.map (sId sm), pids := r.pnames.map (sId (freshSMap r.pnames)),
    tmap := tm, smap := sm, pmap := freshSMap r.pnames }

/-- **Superset mappings are accepted**: a well-shaped screen whose supplied mappings are the tables batchie built
    (with any control name) for data containing the screen's cells / sample names is constructed successfully. -/
theorem mk?_superset (r : Raw) (w : WellShaped r) (ctrl' : Name) (tdata : List (Name × Dose)) (sdata : List Name)
    (ht : r.tmap = some (freshTMap ctrl' tdata)) (hs : r.smap = some (freshSMap sdata))
    (hsubT : ∀ k ∈ allKeys r, k ∈ tdata) (hsubS : ∀ k ∈ r.snames, k ∈ sdata) :
    mk? r = .ok (mkSuperset r (freshTMap ctrl' tdata) (freshSMap sdata)) := by
  rw [mk?_ok_iff]
  exact
    { len_tdoses := w.len_tdoses, len_snames := w.len_snames, len_pnames := w.len_pnames,
      arity_tnames := w.arity_tnames, arity_tdoses := w.arity_tdoses, mask_needs_obs := w.mask_needs_obs,
      len_obs := w.len_obs, len_mask := w.len_mask, uniform := w.uniform,
      tmap_dense := by simp [tmapBad, ht, isZeroIndexed_freshTMap],
      smap_dense := by simp [smapBad, hs, isZeroIndexed_freshSMap],
      tenc := ⟨_, encodeTreatments_total r.ctrl (allKeys r) r.tmap (freshTMap ctrl' tdata) (by rw [ht])
                    (by rw [freshTMap_keys]; exact sortedKeys_nodup tdata)
                    (by intro k hk; rw [freshTMap_keys]; exact (mem_sortedKeys tdata k).mpr (hsubT k hk)),
               by rw [List.length_map, length_allKeys r w.len_tdoses], rfl⟩,
      senc := encode1d_total r.snames r.smap (freshSMap sdata) (by rw [hs])
                (by rw [freshSMap_names]; exact sortedNames_nodup sdata)
                (by intro k hk; rw [freshSMap_names]; exact (mem_sortedNames sdata k).mpr (hsubS k hk)),
      len_sids := by simp [mkSuperset, w.len_snames],
      penc := encode1d_fresh r.pnames,
      ctrl_eq := rfl, arity_eq := rfl, tnames_eq := rfl, tdoses_eq := rfl, snames_eq := rfl, pnames_eq := rfl,
      obs_eq := rfl, mask_eq := rfl }

end Batchie.Screen
