/-
  The precision matrix `Q = prec·XᵀX + diag λ` a vector block hands to `sample_mvn_from_precision` is positive
  definite as soon as `prec ≥ 0` and the prior precisions `λ` are positive — so `N(Q⁻¹ b, Q⁻¹)` is a proper law and the
  Cholesky factorisation exists.
-/
import Mathlib.Algebra.Order.BigOperators.Group.Finset
import Batchie.Lemmas.GibbsBlock

namespace Batchie.Gibbs
open Finset

theorem blockQ_quad (N D : ℕ) (prec : ℝ) (X : ℕ → ℕ → ℝ) (lam x : ℕ → ℝ) :
    ∑ d ∈ range D, ∑ e ∈ range D, x d * blockQ N prec X lam d e * x e
      = prec * ∑ n ∈ range N, (∑ d ∈ range D, X n d * x d)^2 + ∑ d ∈ range D, lam d * x d ^ 2 := by
  rw [← quad_reorder, mul_sum, ← sum_add_distrib]
  apply sum_congr rfl; intro d hd
  unfold blockQ
  simp only [mul_add, add_mul, sum_add_distrib, mul_ite, ite_mul, mul_zero, zero_mul, sum_ite_eq, hd, if_true]
  rw [mul_sum]; congr 1
  · apply sum_congr rfl; intro e _; ring
  · ring

theorem blockQ_posdef (N D : ℕ) (prec : ℝ) (X : ℕ → ℕ → ℝ) (lam x : ℕ → ℝ) (hprec : 0 ≤ prec)
    (hlam : ∀ d, d < D → 0 < lam d) (hx : ∃ d, d < D ∧ x d ≠ 0) :
    0 < ∑ d ∈ range D, ∑ e ∈ range D, x d * blockQ N prec X lam d e * x e := by
  rw [blockQ_quad]
  have h1 : 0 ≤ prec * ∑ n ∈ range N, (∑ d ∈ range D, X n d * x d)^2 :=
    mul_nonneg hprec (sum_nonneg (fun n _ => sq_nonneg _))
  have h2 : 0 < ∑ d ∈ range D, lam d * x d ^ 2 := by
    obtain ⟨d, hd, hxd⟩ := hx
    apply sum_pos'
    · intro i hi; exact mul_nonneg (le_of_lt (hlam i (mem_range.mp hi))) (sq_nonneg _)
    · exact ⟨d, mem_range.mpr hd, mul_pos (hlam d hd) (by positivity)⟩
  linarith

theorem Blk.Q_posdef (b : Blk ℝ) (hns : b.NoSelf) (prec : ℝ) (hprec : 0 ≤ prec) (hlam : ∀ d, d < b.D → 0 < b.lam d)
    (x : ℕ → ℝ) (hx : ∃ d, d < b.D ∧ x d ≠ 0) :
    0 < ∑ d ∈ range b.D, ∑ e ∈ range b.D, x d * b.Q prec d e * x e := by
  simp only [Blk.Q_spec b hns]
  exact blockQ_posdef b.N b.D prec b.design b.lam x hprec hlam hx

end Batchie.Gibbs
