/-
  C01 helper lemmas, part 4: the left-merge lookup (`DataFrame.merge(how="left")`), the two encoders,
  and the fresh sample / plate table.
-/
import Batchie.Lemmas.EncodeFresh

namespace Batchie.Screen
open Batchie.Proto

/-! ### lookup in a treatment table -/

theorem mem_of_mem_tLookup (tm : TMap) (k : Name × Dose) (i : Int) (h : i ∈ tLookup tm k) : (k.1, k.2, i) ∈ tm := by
  simp only [tLookup, List.mem_map, List.mem_filter, Bool.and_eq_true, beq_iff_eq] at h
  obtain ⟨e, ⟨he, h1, h2⟩, rfl⟩ := h
  rw [← h1, ← h2]; exact he

theorem mem_tLookup_of_mem (tm : TMap) (k : Name × Dose) (i : Int) (h : (k.1, k.2, i) ∈ tm) : i ∈ tLookup tm k := by
  simp only [tLookup, List.mem_map, List.mem_filter, Bool.and_eq_true, beq_iff_eq]
  exact ⟨_, ⟨h, rfl, rfl⟩, rfl⟩

theorem tLookup_eq_nil_iff (tm : TMap) (k : Name × Dose) : tLookup tm k = [] ↔ k ∉ tm.map tKey := by
  constructor
  · intro h hk
    obtain ⟨e, he, rfl⟩ := List.mem_map.mp hk
    have := mem_tLookup_of_mem tm (tKey e) e.2.2 he
    rw [h] at this; simp at this
  · intro h
    cases hl : tLookup tm k with
    | nil => rfl
    | cons i l =>
      exfalso; apply h
      have := mem_of_mem_tLookup tm k i (by rw [hl]; simp)
      exact List.mem_map.mpr ⟨_, this, rfl⟩

/-- with unique keys the lookup returns exactly the one matching id -/
theorem tLookup_of_mem (tm : TMap) (hnd : (tm.map tKey).Nodup) (k : Name × Dose) (i : Int) (h : (k.1, k.2, i) ∈ tm) :
    tLookup tm k = [i] := by
  induction tm with
  | nil => simp at h
  | cons e tm ih =>
    rw [List.map_cons, List.nodup_cons] at hnd
    rcases List.mem_cons.mp h with rfl | h'
    · have hrest : tLookup tm k = [] := by
        rw [tLookup_eq_nil_iff]; exact hnd.1
      simp only [tLookup, List.filter_cons, beq_self_eq_true, Bool.and_self, if_true, List.map_cons] at hrest ⊢
      rw [hrest]
    · have hne : ¬ (e.1 = k.1 ∧ e.2.1 = k.2) := by
        rintro ⟨h1, h2⟩
        apply hnd.1
        have : tKey e = k := Prod.ext h1 h2
        rw [this]
        exact List.mem_map.mpr ⟨_, h', rfl⟩
      have := ih hnd.2 h'
      simp only [tLookup, List.filter_cons] at this ⊢
      have hb : (e.1 == k.1 && e.2.1 == k.2) = false := by
        rw [Bool.eq_false_iff]; intro hb
        simp only [Bool.and_eq_true, beq_iff_eq] at hb; exact hne hb
      rw [hb]; exact this

/-! ### flattening the per-row hits -/

theorem flatten_length_ge (hits : List (List Int)) (hne : ∀ h ∈ hits, h ≠ []) : hits.length ≤ hits.flatten.length := by
  induction hits with
  | nil => simp
  | cons h hits ih =>
    have h1 : h ≠ [] := hne h (by simp)
    have h2 := ih (fun x hx => hne x (by simp [hx]))
    have : 0 < h.length := List.length_pos_iff.mpr h1
    simp only [List.flatten_cons, List.length_append, List.length_cons]; omega

/-- if no row misses and the flattened result has one id per row, every row matched exactly once -/
theorem hits_singletons (hits : List (List Int)) (hne : ∀ h ∈ hits, h ≠ []) (hlen : hits.flatten.length = hits.length) :
    hits = hits.flatten.map (fun i => [i]) := by
  induction hits with
  | nil => simp
  | cons h hits ih =>
    have h1 : h ≠ [] := hne h (by simp)
    have hne' : ∀ x ∈ hits, x ≠ [] := fun x hx => hne x (by simp [hx])
    have h2 := flatten_length_ge hits hne'
    have hpos : 0 < h.length := List.length_pos_iff.mpr h1
    simp only [List.flatten_cons, List.length_append, List.length_cons] at hlen
    have hl1 : h.length = 1 := by omega
    have hl2 : hits.flatten.length = hits.length := by omega
    obtain ⟨i, rfl⟩ := List.length_eq_one_iff.mp hl1
    have := ih hne' hl2
    simp only [List.flatten_cons, List.singleton_append, List.map_cons]
    rw [← this]

theorem flatten_map_singleton {κ : Type} (f : κ → Int) (xs : List κ) : (xs.map (fun a => [f a])).flatten = xs.map f := by
  induction xs with
  | nil => rfl
  | cons x xs ih => simp [ih]

/-! ### the treatment encoder -/

theorem lookupStep_ok_iff {κ : Type} (look : κ → List Int) (xs : List κ) (ids : List Int) {μ : Type} (tm0 tm : μ) :
    (if (xs.map look).any (·.isEmpty) = true then (Except.error Err.valueError : Except Err (List Int × μ))
      else .ok ((xs.map look).flatten, tm0)) = .ok (ids, tm) ↔
      tm = tm0 ∧ (∀ k ∈ xs, look k ≠ []) ∧ ids = (xs.map look).flatten := by
  by_cases hany : (xs.map look).any (·.isEmpty) = true
  · rw [if_pos hany]
    constructor
    · intro h; cases h
    · rintro ⟨_, h, _⟩
      exfalso
      simp only [List.any_map, List.any_eq_true, Function.comp, List.isEmpty_iff] at hany
      obtain ⟨k, hk, hk'⟩ := hany
      exact h k hk hk'
  · rw [if_neg hany]
    simp only [List.any_map, List.any_eq_true, Function.comp, List.isEmpty_iff, not_exists, not_and] at hany
    constructor
    · intro h
      injection h with h
      injection h with h1 h2
      subst h1 h2
      exact ⟨rfl, hany, rfl⟩
    · rintro ⟨rfl, _, rfl⟩; rfl

theorem encodeTreatments_ok_iff (ctrl : Name) (xs : List (Name × Dose)) (ex : Option TMap) (ids : List Int) (tm : TMap) :
    encodeTreatments ctrl xs ex = .ok (ids, tm) ↔
      tm = (match ex with | some m => m | none => freshTMap ctrl xs) ∧ (∀ k ∈ xs, tLookup tm k ≠ []) ∧
        ids = (xs.map (tLookup tm)).flatten := by
  unfold encodeTreatments
  cases ex with
  | none =>
    simp only
    rw [lookupStep_ok_iff]
    constructor
    · rintro ⟨rfl, h⟩; exact ⟨rfl, h⟩
    · rintro ⟨rfl, h⟩; exact ⟨rfl, h⟩
  | some m =>
    simp only
    rw [lookupStep_ok_iff]
    constructor
    · rintro ⟨rfl, h⟩; exact ⟨rfl, h⟩
    · rintro ⟨rfl, h⟩; exact ⟨rfl, h⟩

/-- decoding: whenever the encoder succeeded with one id per input, every id is the table's id of that input's key -/
theorem encodeTreatments_decode (ctrl : Name) (xs : List (Name × Dose)) (ex : Option TMap) (ids : List Int) (tm : TMap)
    (h : encodeTreatments ctrl xs ex = .ok (ids, tm)) (hlen : ids.length = xs.length)
    (j : Nat) (hj : j < xs.length) : (xs[j].1, xs[j].2, ids[j]'(hlen ▸ hj)) ∈ tm := by
  obtain ⟨_, hne, hids⟩ := (encodeTreatments_ok_iff ctrl xs ex ids tm).mp h
  have hne' : ∀ h ∈ xs.map (tLookup tm), h ≠ [] := by
    intro h hh; obtain ⟨k, hk, rfl⟩ := List.mem_map.mp hh; exact hne k hk
  have hs := hits_singletons (xs.map (tLookup tm)) hne' (by rw [← hids, hlen]; simp)
  rw [← hids] at hs
  have hj' : j < (xs.map (tLookup tm)).length := by simpa using hj
  have : (xs.map (tLookup tm))[j] = [ids[j]'(hlen ▸ hj)] := by
    have h1 : (xs.map (tLookup tm))[j] = (ids.map (fun i => [i]))[j]'(by simp; omega) := by
      congr 1
    rw [h1]; simp
  apply mem_of_mem_tLookup
  rw [List.getElem_map] at this
  rw [this]; simp

/-- id of a key in a table (first match; `0` when absent) -/
def tId (tm : TMap) (k : Name × Dose) : Int := (tLookup tm k).headD 0

/-- with a table of unique keys covering the data the encoder succeeds with one id per input (never fails, never duplicates) -/
theorem encodeTreatments_total (ctrl : Name) (xs : List (Name × Dose)) (ex : Option TMap) (tm : TMap)
    (htm : tm = (match ex with | some m => m | none => freshTMap ctrl xs))
    (hnd : (tm.map tKey).Nodup) (hcov : ∀ k ∈ xs, k ∈ tm.map tKey) :
    encodeTreatments ctrl xs ex = .ok (xs.map (tId tm), tm) := by
  rw [encodeTreatments_ok_iff]
  refine ⟨htm, ?_, ?_⟩
  · intro k hk; rw [Ne, tLookup_eq_nil_iff]; exact fun h => h (hcov k hk)
  · have : ∀ k ∈ xs, tLookup tm k = [tId tm k] := by
      intro k hk
      obtain ⟨e, he, rfl⟩ := List.mem_map.mp (hcov k hk)
      have := tLookup_of_mem tm hnd (tKey e) e.2.2 he
      simp [tId, this]
    rw [List.map_congr_left this]
    exact (flatten_map_singleton _ _).symm

theorem freshTMap_keys (ctrl : Name) (xs : List (Name × Dose)) : (freshTMap ctrl xs).map tKey = sortedKeys xs := by
  rw [freshTMap_eq_freshTable, freshTable_keys]

theorem encodeTreatments_fresh (ctrl : Name) (xs : List (Name × Dose)) :
    encodeTreatments ctrl xs none = .ok (xs.map (tId (freshTMap ctrl xs)), freshTMap ctrl xs) := by
  apply encodeTreatments_total ctrl xs none _ rfl
  · rw [freshTMap_keys]; exact sortedKeys_nodup xs
  · intro k hk; rw [freshTMap_keys]; exact (mem_sortedKeys xs k).mpr hk

/-! ### the sample / plate table and encoder -/

theorem freshSMap_names (xs : List Name) : (freshSMap xs).map (·.1) = sortedNames xs := by
  simp only [freshSMap, sortedNames, List.map_map]
  have : ((fun (x : Name × Int) => x.1) ∘ fun (p : Name × Nat) => (p.1, (p.2 : Int))) = Prod.fst := rfl
  rw [this]
  exact List.zipIdx_map_fst 0 _

theorem freshSMap_ids (xs : List Name) :
    (freshSMap xs).map (·.2) = (List.range (sortedNames xs).length).map (fun (i : Nat) => (i : Int)) := by
  simp only [freshSMap, sortedNames, List.map_map]
  have : ((fun (x : Name × Int) => x.2) ∘ fun (p : Name × Nat) => (p.1, (p.2 : Int))) = (fun (i : Nat) => (i : Int)) ∘ Prod.snd := rfl
  rw [this, ← List.map_map, List.zipIdx_map_snd, List.range_eq_range']

theorem freshSMap_length (xs : List Name) : (freshSMap xs).length = (sortedNames xs).length := by
  simp [freshSMap, sortedNames]

theorem freshSMap_getElem (xs : List Name) (k : Nat) (hk : k < (sortedNames xs).length) :
    (freshSMap xs)[k]'(by rw [freshSMap_length]; exact hk) = ((sortedNames xs)[k], (k : Int)) := by
  simp [freshSMap, sortedNames]

theorem mem_freshSMap (xs : List Name) (e : Name × Int) :
    e ∈ freshSMap xs ↔ ∃ k, ∃ (hk : k < (sortedNames xs).length), e = ((sortedNames xs)[k], (k : Int)) := by
  constructor
  · intro h
    obtain ⟨k, hk, rfl⟩ := List.getElem_of_mem h
    have hk' : k < (sortedNames xs).length := by rw [freshSMap_length] at hk; exact hk
    exact ⟨k, hk', freshSMap_getElem xs k hk'⟩
  · rintro ⟨k, hk, rfl⟩
    rw [← freshSMap_getElem xs k hk]
    exact List.getElem_mem _

theorem mem_of_mem_sLookup (sm : SMap) (k : Name) (i : Int) (h : i ∈ sLookup sm k) : (k, i) ∈ sm := by
  simp only [sLookup, List.mem_map, List.mem_filter, beq_iff_eq] at h
  obtain ⟨e, ⟨he, h1⟩, rfl⟩ := h
  rw [← h1]; exact he

theorem mem_sLookup_of_mem (sm : SMap) (k : Name) (i : Int) (h : (k, i) ∈ sm) : i ∈ sLookup sm k := by
  simp only [sLookup, List.mem_map, List.mem_filter, beq_iff_eq]
  exact ⟨_, ⟨h, rfl⟩, rfl⟩

theorem sLookup_eq_nil_iff (sm : SMap) (k : Name) : sLookup sm k = [] ↔ k ∉ sm.map (·.1) := by
  constructor
  · intro h hk
    obtain ⟨e, he, rfl⟩ := List.mem_map.mp hk
    have := mem_sLookup_of_mem sm e.1 e.2 he
    rw [h] at this; simp at this
  · intro h
    cases hl : sLookup sm k with
    | nil => rfl
    | cons i l =>
      exfalso; apply h
      have := mem_of_mem_sLookup sm k i (by rw [hl]; simp)
      exact List.mem_map.mpr ⟨_, this, rfl⟩

theorem sLookup_of_mem (sm : SMap) (hnd : (sm.map (·.1)).Nodup) (k : Name) (i : Int) (h : (k, i) ∈ sm) :
    sLookup sm k = [i] := by
  induction sm with
  | nil => simp at h
  | cons e sm ih =>
    rw [List.map_cons, List.nodup_cons] at hnd
    rcases List.mem_cons.mp h with rfl | h'
    · have hrest : sLookup sm k = [] := by
        rw [sLookup_eq_nil_iff]; exact hnd.1
      simp only [sLookup, List.filter_cons, beq_self_eq_true, if_true, List.map_cons] at hrest ⊢
      rw [hrest]
    · have hne : ¬ (e.1 = k) := by
        intro h1
        apply hnd.1
        rw [h1]
        exact List.mem_map.mpr ⟨_, h', rfl⟩
      have := ih hnd.2 h'
      simp only [sLookup, List.filter_cons] at this ⊢
      have hb : (e.1 == k) = false := by
        rw [Bool.eq_false_iff]; intro hb
        exact hne (beq_iff_eq.mp hb)
      rw [hb]; exact this

theorem encode1d_ok_iff (xs : List Name) (ex : Option SMap) (ids : List Int) (sm : SMap) :
    encode1d xs ex = .ok (ids, sm) ↔
      sm = (match ex with | some m => m | none => freshSMap xs) ∧ (∀ k ∈ xs, sLookup sm k ≠ []) ∧
        ids = (xs.map (sLookup sm)).flatten := by
  unfold encode1d
  cases ex with
  | none =>
    simp only
    rw [lookupStep_ok_iff]
    constructor
    · rintro ⟨rfl, h⟩; exact ⟨rfl, h⟩
    · rintro ⟨rfl, h⟩; exact ⟨rfl, h⟩
  | some m =>
    simp only
    rw [lookupStep_ok_iff]
    constructor
    · rintro ⟨rfl, h⟩; exact ⟨rfl, h⟩
    · rintro ⟨rfl, h⟩; exact ⟨rfl, h⟩

theorem encode1d_decode (xs : List Name) (ex : Option SMap) (ids : List Int) (sm : SMap)
    (h : encode1d xs ex = .ok (ids, sm)) (hlen : ids.length = xs.length)
    (j : Nat) (hj : j < xs.length) : (xs[j], ids[j]'(hlen ▸ hj)) ∈ sm := by
  obtain ⟨_, hne, hids⟩ := (encode1d_ok_iff xs ex ids sm).mp h
  have hne' : ∀ h ∈ xs.map (sLookup sm), h ≠ [] := by
    intro h hh; obtain ⟨k, hk, rfl⟩ := List.mem_map.mp hh; exact hne k hk
  have hs := hits_singletons (xs.map (sLookup sm)) hne' (by rw [← hids, hlen]; simp)
  rw [← hids] at hs
  have hj' : j < (xs.map (sLookup sm)).length := by simpa using hj
  have : (xs.map (sLookup sm))[j] = [ids[j]'(hlen ▸ hj)] := by
    have h1 : (xs.map (sLookup sm))[j] = (ids.map (fun i => [i]))[j]'(by simp; omega) := by
      congr 1
    rw [h1]; simp
  apply mem_of_mem_sLookup
  rw [List.getElem_map] at this
  rw [this]; simp

def sId (sm : SMap) (k : Name) : Int := (sLookup sm k).headD 0

theorem encode1d_total (xs : List Name) (ex : Option SMap) (sm : SMap)
    (hsm : sm = (match ex with | some m => m | none => freshSMap xs))
    (hnd : (sm.map (·.1)).Nodup) (hcov : ∀ k ∈ xs, k ∈ sm.map (·.1)) :
    encode1d xs ex = .ok (xs.map (sId sm), sm) := by
  rw [encode1d_ok_iff]
  refine ⟨hsm, ?_, ?_⟩
  · intro k hk; rw [Ne, sLookup_eq_nil_iff]; exact fun h => h (hcov k hk)
  · have : ∀ k ∈ xs, sLookup sm k = [sId sm k] := by
      intro k hk
      obtain ⟨e, he, rfl⟩ := List.mem_map.mp (hcov k hk)
      have := sLookup_of_mem sm hnd e.1 e.2 he
      simp [sId, this]
    rw [List.map_congr_left this]
    exact (flatten_map_singleton _ _).symm

theorem encode1d_fresh (xs : List Name) : encode1d xs none = .ok (xs.map (sId (freshSMap xs)), freshSMap xs) := by
  apply encode1d_total xs none _ rfl
  · rw [freshSMap_names]; exact sortedNames_nodup xs
  · intro k hk; rw [freshSMap_names]; exact (mem_sortedNames xs k).mpr hk

end Batchie.Screen
