/-
  Helper lemmas for C20: the loops of `calculate_synergy` (`Batchie.Model.Metrics.synergy`).
-/
import Batchie.Lemmas.MetricsEffects

namespace Batchie.Metrics
open Batchie.Predict (sumL OfCount maskFilter)
open Batchie.Proto

variable {R : Type} [Field R]

/-! ### the inner loop -/

theorem collectStep_none (map : List ((Int × Int) × R)) (strict : Bool) (s t : Int) (effs : List R)
    (h : map.lookup (s, t) = none) :
    collectStep map strict s effs t = if strict then .error .valueError else .ok effs := by
  simp [collectStep, h]

theorem collectStep_some (map : List ((Int × Int) × R)) (strict : Bool) (s t : Int) (effs : List R) (e : R)
    (h : map.lookup (s, t) = some e) : collectStep map strict s effs t = .ok (effs ++ [e]) := by
  simp [collectStep, h]

theorem collect_lenient_aux (map : List ((Int × Int) × R)) (s : Int) (cur : List Int) (acc : List R) :
    cur.foldlM (collectStep map false s) acc
      = .ok (acc ++ cur.filterMap (fun t => map.lookup (s, t))) := by
  induction cur generalizing acc with
  | nil => simp [pure, Except.pure]
  | cons t cur ih =>
    rw [List.foldlM_cons, List.filterMap_cons]
    cases h : map.lookup (s, t) with
    | none =>
      rw [collectStep_none map false s t acc h]
      simp only [Bool.false_eq_true, if_false, bind, Except.bind]
      exact ih acc
    | some e =>
      rw [collectStep_some map false s t acc e h]
      simp only [bind, Except.bind]
      rw [ih (acc ++ [e])]; simp

theorem collect_lenient (map : List ((Int × Int) × R)) (s : Int) (cur : List Int) :
    collectEffects map false s cur = .ok (cur.filterMap (fun t => map.lookup (s, t))) := by
  have := collect_lenient_aux map s cur []
  simpa [collectEffects] using this

theorem collect_strict_aux (map : List ((Int × Int) × R)) (s : Int) (cur : List Int) (acc : List R) :
    cur.foldlM (collectStep map true s) acc
      = if cur.all (fun t => (map.lookup (s, t)).isSome) then .ok (acc ++ cur.filterMap (fun t => map.lookup (s, t)))
        else .error .valueError := by
  induction cur generalizing acc with
  | nil => simp [pure, Except.pure]
  | cons t cur ih =>
    rw [List.foldlM_cons, List.filterMap_cons, List.all_cons]
    cases h : map.lookup (s, t) with
    | none =>
      rw [collectStep_none map true s t acc h]
      simp [bind, Except.bind]
    | some e =>
      rw [collectStep_some map true s t acc e h]
      simp only [bind, Except.bind]
      rw [ih (acc ++ [e])]
      simp only [Option.isSome_some, Bool.true_and, List.append_assoc, List.singleton_append]

theorem collect_strict (map : List ((Int × Int) × R)) (s : Int) (cur : List Int) :
    collectEffects map true s cur
      = if cur.all (fun t => (map.lookup (s, t)).isSome) then .ok (cur.filterMap (fun t => map.lookup (s, t)))
        else .error .valueError := by
  have := collect_strict_aux map s cur []
  simpa [collectEffects] using this

theorem filterMap_length_le {A B : Type} (f : A → Option B) (l : List A) : (l.filterMap f).length ≤ l.length := by
  induction l with
  | nil => simp
  | cons a l ih =>
    rw [List.filterMap_cons]
    cases f a <;> simp <;> omega

/-- the test `len(current_treatment_ids) != len(single_effects)` succeeds exactly when every
    non-control treatment had an entry -/
theorem filterMap_length_eq_iff {A B : Type} (f : A → Option B) (l : List A) :
    (l.filterMap f).length = l.length ↔ l.all (fun a => (f a).isSome) = true := by
  induction l with
  | nil => simp
  | cons a l ih =>
    rw [List.filterMap_cons]
    cases h : f a with
    | none =>
      have := filterMap_length_le f l
      simp [h]; omega
    | some b => simp [h, ih]

theorem filterMap_eq_map_of_all {A B : Type} (f : A → Option B) (d : B) (l : List A)
    (h : l.all (fun a => (f a).isSome) = true) : l.filterMap f = l.map (fun a => (f a).getD d) := by
  induction l with
  | nil => rfl
  | cons a l ih =>
    simp only [List.all_cons, Bool.and_eq_true] at h
    rw [List.filterMap_cons]
    cases hf : f a with
    | none => simp [hf] at h
    | some b => simp [ih h.2, hf]

/-! ### the outer loop -/

/-- one iteration of the outer loop, as a partial function of the row -/
def stepLookup (map : List ((Int × Int) × R)) (r : Int × List Int × R) : Option (Int × List Int × R) :=
  blissDef (fun s t => map.lookup (s, t)) r

theorem outer_lenient (map : List ((Int × Int) × R)) (rows : List (Int × List Int × R)) (acc : List (Int × List Int × R)) :
    rows.foldlM (synergyStep map false) acc
      = .ok (acc ++ rows.filterMap (stepLookup map)) := by
  induction rows generalizing acc with
  | nil => simp [pure, Except.pure]
  | cons r rows ih =>
    rw [List.foldlM_cons, List.filterMap_cons]
    simp only [synergyStep, collect_lenient, bind, Except.bind, pure, Except.pure]
    by_cases hall : (r.2.1.filter (fun t => t != -1)).all (fun t => (map.lookup (r.1, t)).isSome) = true
    · have hlen := (filterMap_length_eq_iff (fun t => map.lookup (r.1, t)) _).mpr hall
      have hstep : stepLookup map r = some (r.1, r.2.1.filter (fun t => t != -1),
          prodL ((r.2.1.filter (fun t => t != -1)).filterMap (fun t => map.lookup (r.1, t))) - r.2.2) := by
        simp only [stepLookup, blissDef, hall, if_true]
        rw [filterMap_eq_map_of_all _ 1 _ hall]
      rw [if_neg (by rw [hlen]; simp), hstep]
      simp only
      rw [ih]; simp
    · have hne : ¬ ((r.2.1.filter (fun t => t != -1)).filterMap (fun t => map.lookup (r.1, t))).length
          = (r.2.1.filter (fun t => t != -1)).length :=
        (filterMap_length_eq_iff (fun t => map.lookup (r.1, t)) (r.2.1.filter (fun t => t != -1))).not.mpr hall
      have hstep : stepLookup map r = none := by
        simp only [stepLookup, blissDef, hall, Bool.false_eq_true, if_false]
      rw [if_pos (by simp only [bne_iff_ne, ne_eq]; exact fun h => hne h.symm), hstep]
      simp only
      exact ih acc

theorem outer_strict (map : List ((Int × Int) × R)) (rows : List (Int × List Int × R)) (acc : List (Int × List Int × R)) :
    rows.foldlM (synergyStep map true) acc
      = if rows.all (fun r => (stepLookup map r).isSome) then .ok (acc ++ rows.filterMap (stepLookup map))
        else .error .valueError := by
  induction rows generalizing acc with
  | nil => simp [pure, Except.pure]
  | cons r rows ih =>
    rw [List.foldlM_cons, List.filterMap_cons, List.all_cons]
    simp only [synergyStep, collect_strict, bind, Except.bind, pure, Except.pure]
    by_cases hall : (r.2.1.filter (fun t => t != -1)).all (fun t => (map.lookup (r.1, t)).isSome) = true
    · have hlen := (filterMap_length_eq_iff (fun t => map.lookup (r.1, t)) _).mpr hall
      have hstep : stepLookup map r = some (r.1, r.2.1.filter (fun t => t != -1),
          prodL ((r.2.1.filter (fun t => t != -1)).filterMap (fun t => map.lookup (r.1, t))) - r.2.2) := by
        simp only [stepLookup, blissDef, hall, if_true]
        rw [filterMap_eq_map_of_all _ 1 _ hall]
      rw [if_pos hall]
      simp only
      rw [if_neg (by rw [hlen]; simp), hstep]
      simp only [Option.isSome_some, Bool.true_and]
      rw [ih]
      split <;> simp
    · have hstep : stepLookup map r = none := by
        simp only [stepLookup, blissDef, hall, Bool.false_eq_true, if_false]
      rw [if_neg hall, hstep]
      simp

/-! ### the rows the loop runs over -/

theorem zip3_maskFilter (rows : List (Int × List Int × R)) (p : (Int × List Int × R) → Bool) :
    List.zip (maskFilter (rows.map (·.1)) (rows.map p))
      (List.zip (maskFilter (rows.map (·.2.1)) (rows.map p)) (maskFilter (rows.map (·.2.2)) (rows.map p)))
      = rows.filter p := by
  rw [maskFilter_map_map, maskFilter_map_map, maskFilter_map_map]
  generalize rows.filter p = l
  induction l with
  | nil => rfl
  | cons a l ih => simp [ih]

end Batchie.Metrics
