/-
  C19 -- uninterrupted executions in prospective mode: one process run per iteration (`main`'s loop ends by itself after the
  last plate of a batch), i.e. the process schedule `usched`.
-/
import Batchie.Lemmas.OrchRun

namespace Batchie.Orchestrator

variable (cfg : Cfg)

theorem runProcs_append (a b : List (List (Option Nat))) :
    ∀ (t : Tree) (tr : List Event),
      runProcs cfg (a ++ b) t tr = runProcs cfg b (runProcs cfg a t tr).1 (runProcs cfg a t tr).2 := by
  induction a with
  | nil => intro t tr; rfl
  | cons s ss ih => intro t tr; simp only [List.cons_append, runProcs]; exact ih _ _

/-- the process runs of an uninterrupted prospective execution that completes the steps `p`: one run of `B` calls per full
    iteration, then one run with a call per completed plate of the current iteration -/
def usched (B : Nat) (p : Prog) : List (List (Option Nat)) :=
  List.replicate p.cs.length (List.replicate B none) ++ [List.replicate p.cur.length none]

/-- **every `CRun` of prospective mode is what the uninterrupted process runs `usched` produce** -/
theorem uninterrupted_reaches_procs (hml : MarkerLast cfg) (hB : 1 ≤ cfg.B) (hmode : cfg.mode = .prospective)
    {p : Prog} (hc : CRun cfg p) :
    ∃ t0 tr0, runProcs cfg (List.replicate p.cs.length (List.replicate cfg.B none)) Tree.empty [] = (t0, tr0) ∧
      (runSched cfg (List.replicate p.cur.length none) t0 tr0).halted = false ∧
      (runSched cfg (List.replicate p.cur.length none) t0 tr0).tree = cleanTree cfg p ∧
      completedOf (runSched cfg (List.replicate p.cur.length none) t0 tr0).events = p.flat ∧
      launchedOf (runSched cfg (List.replicate p.cur.length none) t0 tr0).events = p.flat := by
  induction hc with
  | nil => exact ⟨Tree.empty, [], rfl, rfl, rfl, rfl, rfl⟩
  | @push p l hc' hf hl ih =>
    obtain ⟨t0, tr0, h0, hh, ht, hco, hla⟩ := ih
    have hp := hc'.ok cfg hB
    have hpos := planLaunch_pos cfg hl
    have hinv := invoke_none_clean cfg hml hB hc' hf hl (decide (p ≠ Prog.empty)) (by simp)
    -- one more uninterrupted call after the calls of the current process run
    have hstep : runSched cfg (List.replicate (p.cur.length + 1) none) t0 tr0 =
        ⟨⟨true, treeIters cfg (p.push cfg.B l) .none⟩,
          (runSched cfg (List.replicate p.cur.length none) t0 tr0).events ++ [.launched l, .completed l],
          decide (¬ (p.cur.length + 1 < cfg.B))⟩ := by
      rw [List.replicate_succ', runSched_append cfg _ _ _ _ hh, runSched_cons, ht, cleanTree_eq, hinv]
      simp only [hmode, true_and, hpos.2]
      by_cases hb : p.cur.length + 1 < cfg.B
      · simp only [hb, not_true_eq_false, decide_false, Bool.false_eq_true, ↓reduceIte]
        rfl
      · simp only [hb, not_false_eq_true, decide_true, ↓reduceIte]
    unfold Prog.push
    by_cases hb : p.cur.length + 1 = cfg.B
    · -- the batch is complete: this process run ends by itself, the next one has not made a call yet
      simp only [hb, ↓reduceIte, List.length_append, List.length_singleton, List.length_nil, List.replicate_zero]
      rw [List.replicate_succ', runProcs_append, h0]
      simp only [runProcs]
      rw [← hb, hstep]
      have hpush : p.push cfg.B l = ⟨p.cs ++ [p.cur ++ [l]], []⟩ := by unfold Prog.push; simp [hb]
      refine ⟨_, _, rfl, rfl, ?_, ?_, ?_⟩
      · simp only [runSched]
        rw [hpush]
        simp [cleanTree, Prog.empty]
      · simp only [runSched]
        rw [completedOf_append, hco, ← hpush, Prog.flat_push]; simp [completedOf]
      · simp only [runSched]
        rw [launchedOf_append, hla, ← hpush, Prog.flat_push]; simp [launchedOf]
    · simp only [hb, ↓reduceIte, List.length_append, List.length_singleton]
      have hlt : p.cur.length + 1 < cfg.B := by have := hp.2; omega
      have hpush : p.push cfg.B l = ⟨p.cs, p.cur ++ [l]⟩ := by unfold Prog.push; simp [hb]
      refine ⟨t0, tr0, h0, ?_, ?_, ?_, ?_⟩
      · rw [hstep]; simp [hlt]
      · rw [hstep, ← hpush]; simp [cleanTree, Prog.push_ne_empty]
      · rw [hstep, completedOf_append, hco, ← hpush, Prog.flat_push]; simp [completedOf]
      · rw [hstep, launchedOf_append, hla, ← hpush, Prog.flat_push]; simp [launchedOf]

/-- ... as one statement about `runProcs` -/
theorem uninterrupted_procs (hml : MarkerLast cfg) (hB : 1 ≤ cfg.B) (hmode : cfg.mode = .prospective)
    {p : Prog} (hc : CRun cfg p) :
    (runProcs cfg (usched cfg.B p) Tree.empty []).1 = cleanTree cfg p ∧
    completedOf (runProcs cfg (usched cfg.B p) Tree.empty []).2 = p.flat ∧
    launchedOf (runProcs cfg (usched cfg.B p) Tree.empty []).2 = p.flat := by
  obtain ⟨t0, tr0, h0, _, ht, hco, hla⟩ := uninterrupted_reaches_procs cfg hml hB hmode hc
  unfold usched
  rw [runProcs_append, h0]
  simp only [runProcs]
  exact ⟨ht, hco, hla⟩

end Batchie.Orchestrator
