/-
  C13 lemmas: `SampleSegregatingPermutationPlateGenerator`.
    * decimal plate names are injective (`decDigits_inj`, `genName_inj`),
    * `np.array_split` (`arraySplit`): concatenation, sub-lists, section size bound,
    * the loop `segChunks`, the labelling `labelOf`, and the post-condition of `genSegregating`:
      every plate holds rows of a single sample and at most `max_plate_size` of them,
    * regression witness for the generator before the fix.
-/
import Batchie.Lemmas.PrepWrap
namespace Batchie.Prep
open Batchie.Proto Batchie.Screen

/-! ### decimal names -/

/-- left inverse of `decDigits`: read a list of digit code points as a decimal number -/
def ofDec (ds : List Nat) : Nat := ds.foldl (fun acc d => acc * 10 + (d - 48)) 0

theorem ofDec_append_single (ds : List Nat) (d : Nat) : ofDec (ds ++ [d]) = ofDec ds * 10 + (d - 48) := by
  simp [ofDec, List.foldl_append]

theorem ofDec_decDigitsF (f n : Nat) (h : n < 10 ^ (f + 1)) : ofDec (decDigitsF f n) = n := by
  induction f generalizing n with
  | zero =>
    have h' : n < 10 := by simpa using h
    simp [decDigitsF, ofDec]
    omega
  | succ f ih =>
    unfold decDigitsF
    split
    · simp [ofDec]
    · rw [ofDec_append_single, ih (n / 10) (by rw [Nat.pow_succ] at h; omega)]
      omega

theorem ofDec_decDigits (n : Nat) : ofDec (decDigits n) = n := by
  unfold decDigits
  apply ofDec_decDigitsF
  have h1 : n < 10 ^ n := Nat.lt_pow_self (by omega)
  have h2 : 10 ^ n ≤ 10 ^ (n + 1) := Nat.pow_le_pow_right (by omega) (by omega)
  omega

theorem decDigits_inj (a b : Nat) (h : decDigits a = decDigits b) : a = b := by
  have := congrArg ofDec h
  rwa [ofDec_decDigits, ofDec_decDigits] at this

theorem genName_inj (a b : Nat) (h : genName a = genName b) : a = b := by
  unfold genName at h
  exact decDigits_inj a b (List.append_cancel_left h)

theorem genName_ne_nil (a : Nat) : genName a ≠ [] := by
  simp [genName, genPrefix]

/-! ### `np.array_split` -/

theorem sum_splitSizes_aux (q r k : Nat) :
    ((List.range k).map (fun i => if i < r then q + 1 else q)).sum = k * q + min r k := by
  induction k with
  | zero => simp
  | succ k ih =>
    rw [List.range_succ, List.map_append, List.sum_append, ih]
    simp only [List.map_cons, List.map_nil, List.sum_cons, List.sum_nil, Nat.succ_mul]
    split <;> omega

theorem sum_splitSizes (len k : Nat) (hk : 0 < k) : (splitSizes len k).sum = len := by
  unfold splitSizes
  rw [sum_splitSizes_aux]
  have h1 := Nat.mod_lt len hk
  have h2 := Nat.div_add_mod len k
  rw [Nat.min_eq_left (Nat.le_of_lt h1)]
  exact h2

theorem takeChunks_flatten {α : Type} (l : List α) (ns : List Nat) : (takeChunks l ns).flatten = l.take ns.sum := by
  induction ns generalizing l with
  | nil => simp [takeChunks]
  | cons n ns ih => simp [takeChunks, ih, List.take_add]

theorem takeChunks_sublist {α : Type} (l : List α) (ns : List Nat) : ∀ c ∈ takeChunks l ns, c.Sublist l := by
  induction ns generalizing l with
  | nil => simp [takeChunks]
  | cons n ns ih =>
    intro c hc
    simp only [takeChunks, List.mem_cons] at hc
    rcases hc with rfl | hc
    · exact List.take_sublist _ _
    · exact (ih _ c hc).trans (List.drop_sublist _ _)

theorem takeChunks_length {α : Type} (l : List α) (ns : List Nat) : ∀ c ∈ takeChunks l ns, ∃ n ∈ ns, c.length ≤ n := by
  induction ns generalizing l with
  | nil => simp [takeChunks]
  | cons n ns ih =>
    intro c hc
    simp only [takeChunks, List.mem_cons] at hc
    rcases hc with rfl | hc
    · exact ⟨n, List.mem_cons_self, by simp; omega⟩
    · obtain ⟨m, hm, hle⟩ := ih _ c hc
      exact ⟨m, List.mem_cons_of_mem _ hm, hle⟩

/-- the sections of `np.array_split(l, k)` concatenate to `l` -/
theorem arraySplit_flatten {α : Type} (l : List α) (k : Nat) (hk : 0 < k) : (arraySplit l k).flatten = l := by
  unfold arraySplit
  rw [takeChunks_flatten, sum_splitSizes _ _ hk, List.take_length]

/-- every section is a sub-list of `l` -/
theorem arraySplit_sublist {α : Type} (l : List α) (k : Nat) : ∀ c ∈ arraySplit l k, c.Sublist l :=
  takeChunks_sublist l _

theorem mem_splitSizes {a k n : Nat} (h : n ∈ splitSizes a k) : n ≤ a / k + 1 ∧ (a % k = 0 → n ≤ a / k) := by
  unfold splitSizes at h
  obtain ⟨i, _, rfl⟩ := List.mem_map.mp h
  constructor
  · split <;> omega
  · intro h0
    rw [h0]
    simp

theorem le_ceilDiv_mul (a m : Nat) (hm : 0 < m) : a ≤ ceilDiv a m * m := by
  unfold ceilDiv
  have h1 := Nat.div_add_mod (a + m - 1) m
  have h2 := Nat.mod_lt (a + m - 1) hm
  rw [Nat.mul_comm] at h1
  omega

theorem ceilDiv_pos (a m : Nat) (ha : 0 < a) (hm : 0 < m) : 0 < ceilDiv a m := by
  unfold ceilDiv
  exact Nat.div_pos (by omega) hm

/-- `np.array_split(l, ceil(len(l) / m))` has sections of at most `m` elements -/
theorem arraySplit_length_le {α : Type} (l : List α) (m : Nat) (hm : 0 < m) :
    ∀ c ∈ arraySplit l (ceilDiv l.length m), c.length ≤ m := by
  intro c hc
  unfold arraySplit at hc
  obtain ⟨n, hn, hle⟩ := takeChunks_length _ _ c hc
  refine Nat.le_trans hle ?_
  obtain ⟨h1, h2⟩ := mem_splitSizes hn
  generalize hk : ceilDiv l.length m = k at *
  have hkm : l.length ≤ k * m := hk ▸ le_ceilDiv_mul l.length m hm
  have hk0 : 0 < k := by
    rcases Nat.eq_zero_or_pos k with h0 | h0
    · subst h0; simp [splitSizes] at hn
    · exact h0
  have hdm := Nat.div_add_mod l.length k
  by_cases hr : l.length % k = 0
  · have := h2 hr
    rw [hr] at hdm
    have : k * (l.length / k) ≤ k * m := by omega
    have := Nat.le_of_mul_le_mul_left this hk0
    omega
  · have : k * (l.length / k) < k * m := by omega
    have := Nat.lt_of_mul_lt_mul_left this
    omega

/-! ### the result is the input with new plate labels -/

theorem genSegregating_rows {mx : Int} {perms : List (List Nat)} {u nu : Screen} (h : genSegregating mx perms u = .ok nu) :
    ∃ labels : List Name, labels.length = (rowsOf u).length ∧ rowsOf nu = setPlates (rowsOf u) labels := by
  unfold genSegregating at h
  obtain ⟨chunks, _, h⟩ := bind_ok h
  exact ⟨_, by simp, (build_ok h).rows_eq⟩

/-! ### the loop over the samples -/

/-- what a successful run of the loop guarantees about the recorded sections -/
structure SegOk (sids : List Int) (mx : Int) (xs : List Int) (chunks : List (List Nat)) : Prop where
  pos : xs ≠ [] → 0 < mx
  chunk : ∀ c ∈ chunks, c.Nodup ∧ (c.length : Int) ≤ mx ∧ ∃ x ∈ xs, ∀ i ∈ c, i ∈ idxOfId sids x
  cover : ∀ x ∈ xs, ∀ i ∈ idxOfId sids x, ∃ c ∈ chunks, i ∈ c

theorem segChunks_ok {sids : List Int} {mx : Int} : ∀ (xs : List Int) (log chunks : List (List Nat)),
    segChunks sids mx xs log = .ok chunks → SegOk sids mx xs chunks
  | [], log, chunks, h => by
    simp only [segChunks] at h
    cases h
    exact ⟨fun h => absurd rfl h, by simp, by simp⟩
  | x :: xs, [], chunks, h => by
    simp only [segChunks] at h
    split at h
    · cases h
    · split at h <;> cases h
  | x :: xs, perm :: rest, chunks, h => by
    simp only [segChunks] at h
    split at h
    · cases h
    rename_i h0
    split at h
    · cases h
    rename_i hneg
    split at h
    · cases h
    rename_i hperm
    obtain ⟨more, hmore, h⟩ := bind_ok h
    have ih := segChunks_ok xs rest more hmore
    have hc : chunks = arraySplit perm (ceilDiv (idxOfId sids x).length mx.toNat) ++ more := by
      cases h; rfl
    have hpos : 0 < mx := by
      have : mx ≠ 0 := by simpa using h0
      omega
    have hm : 0 < mx.toNat := by omega
    have hp : perm.Perm (idxOfId sids x) := by
      have : perm.isPerm (idxOfId sids x) = true := by simpa using hperm
      exact List.isPerm_iff.mp this
    have hlen : (idxOfId sids x).length = perm.length := hp.length_eq.symm
    have hnd : perm.Nodup := hp.nodup_iff.mpr (nodup_idxOfId sids x)
    subst hc
    refine ⟨fun _ => hpos, ?_, ?_⟩
    · intro c hc
      rcases List.mem_append.mp hc with hc | hc
      · have hsub := arraySplit_sublist _ _ c hc
        rw [hlen] at hc
        have hle := arraySplit_length_le perm mx.toNat hm c hc
        refine ⟨hnd.sublist hsub, by omega, x, List.mem_cons_self, ?_⟩
        intro i hi
        exact hp.mem_iff.mp (hsub.subset hi)
      · obtain ⟨h1, h2, y, hy, h3⟩ := ih.chunk c hc
        exact ⟨h1, h2, y, List.mem_cons_of_mem _ hy, h3⟩
    · intro y hy i hi
      rcases List.mem_cons.mp hy with rfl | hy
      · have hip : i ∈ perm := hp.mem_iff.mpr hi
        have hk : 0 < ceilDiv (idxOfId sids y).length mx.toNat :=
          ceilDiv_pos _ _ (List.length_pos_of_mem hi) hm
        rw [← arraySplit_flatten perm _ hk] at hip
        obtain ⟨c, hc, hic⟩ := List.mem_flatten.mp hip
        exact ⟨c, List.mem_append_left _ hc, hic⟩
      · obtain ⟨c, hc, hic⟩ := ih.cover y hy i hi
        exact ⟨c, List.mem_append_right _ hc, hic⟩

/-! ### labels -/

/-- a label `generated_plate_j` is only written to the indices of section `j` -/
theorem labelOf_eq_genName {chunks : List (List Nat)} {i j : Nat} (h : labelOf chunks i = genName j) :
    ∃ c, chunks[j]? = some c ∧ i ∈ c := by
  unfold labelOf at h
  split at h
  · rename_i c hfind
    have hj : c.2 = j := genName_inj _ _ h
    have hp := List.find?_some hfind
    have hmem := List.mem_of_find?_eq_some hfind
    rw [List.mem_reverse] at hmem
    obtain ⟨c1, c2⟩ := c
    simp only at hj hp
    subst hj
    exact ⟨c1, List.mem_zipIdx_iff_getElem?.mp hmem, by simpa using hp⟩
  · exact absurd h.symm (genName_ne_nil j)

/-- every index in some section carries a generated label -/
theorem labelOf_of_mem {chunks : List (List Nat)} {i : Nat} {c : List Nat} (hc : c ∈ chunks) (hi : i ∈ c) :
    ∃ j, labelOf chunks i = genName j := by
  unfold labelOf
  split
  · rename_i c' _
    exact ⟨c'.2, rfl⟩
  · rename_i hnone
    exfalso
    rw [List.find?_eq_none] at hnone
    obtain ⟨j, hj, rfl⟩ := List.getElem_of_mem hc
    have hmem : (chunks[j], j) ∈ chunks.zipIdx.reverse := by
      rw [List.mem_reverse, List.mem_zipIdx_iff_getElem?]
      simp [hj]
    have := hnone _ hmem
    simp at this
    exact this hi

theorem setPlates_range (rows : List Row) (L : Nat → Name) :
    setPlates rows ((List.range rows.length).map L) = (List.range rows.length).map (fun i => { rows[i]! with plate := L i }) := by
  unfold setPlates
  apply List.ext_getElem
  · simp
  · intro i h1 h2
    have hi : i < rows.length := by simpa using h2
    have e : rows[i]?.getD default = rows[i] := by simp [hi]
    simp [e]

/-! ### the post-condition of C13 -/

/-- the rows of the result, position by position -/
theorem genSegregating_rows_range {mx : Int} {perms : List (List Nat)} {u nu : Screen}
    (h : genSegregating mx perms u = .ok nu) :
    ∃ chunks, segChunks u.sids mx (uniqueSorted u.sids) perms = .ok chunks ∧
      rowsOf nu = (List.range (rowsOf u).length).map (fun i => { (rowsOf u)[i]! with plate := labelOf chunks i }) := by
  unfold genSegregating at h
  obtain ⟨chunks, hch, h⟩ := bind_ok h
  exact ⟨chunks, hch, by rw [(build_ok h).rows_eq, setPlates_range]⟩

/-- every row index lies in a section of its own sample, and so carries a generated label -/
theorem segChunks_label {sids : List Int} {mx : Int} {log chunks : List (List Nat)}
    (h : segChunks sids mx (uniqueSorted sids) log = .ok chunks) {i : Nat} (hi : i < sids.length) :
    ∃ j c, labelOf chunks i = genName j ∧ chunks[j]? = some c ∧ i ∈ c := by
  have ok := segChunks_ok _ _ _ h
  have hx : sids[i] ∈ uniqueSorted sids := mem_uniqueSorted.mpr (List.getElem_mem hi)
  obtain ⟨c, hc, hic⟩ := ok.cover _ hx i (mem_idxOfId.mpr ⟨hi, rfl⟩)
  obtain ⟨j, hj⟩ := labelOf_of_mem hc hic
  obtain ⟨c', hc', hic'⟩ := labelOf_eq_genName hj
  exact ⟨j, c', hj, hc', hic'⟩

/-- **C13 post-condition** of `SampleSegregatingPermutationPlateGenerator` on every screen the wrapper hands to it
    (a screen built from rows without mappings): rows sharing a plate share the sample, and every plate that occurs
    holds at most `max_plate_size` rows; a non-empty screen is only accepted with a positive limit. -/
theorem genSegregating_shape {c : Name} {a : Nat} {rows : List Row} {u nu : Screen} {mx : Int} {perms : List (List Nat)}
    (hu : build c a rows = .ok u) (h : genSegregating mx perms u = .ok nu) :
    (∀ r1 ∈ rowsOf nu, ∀ r2 ∈ rowsOf nu, r1.plate = r2.plate → r1.sample = r2.sample) ∧
    (∀ p : Name, p ∈ (rowsOf nu).map (·.plate) → (((rowsOf nu).filter (fun r => r.plate == p)).length : Int) ≤ mx) ∧
    (rows ≠ [] → 0 < mx) := by
  have bu := build_ok hu
  obtain ⟨chunks, hch, hrows⟩ := genSegregating_rows_range h
  rw [bu.rows_eq] at hrows
  have ok := segChunks_ok _ _ _ hch
  have hsl : u.sids.length = rows.length := by rw [bu.sids_eq]; simp
  -- the sample id of row `i`
  have hsid : ∀ i (hi : i < rows.length), u.sids[i]'(hsl ▸ hi)
      = sId (freshSMap (rows.map (·.sample))) (rows[i]).sample := by
    intro i hi
    simp [bu.sids_eq]
  -- rows in one section have the same sample name
  have hsame : ∀ cc ∈ chunks, ∀ i1 ∈ cc, ∀ i2 ∈ cc, ∀ (h1 : i1 < rows.length) (h2 : i2 < rows.length),
      (rows[i1]).sample = (rows[i2]).sample := by
    intro cc hcc i1 hi1 i2 hi2 h1 h2
    obtain ⟨_, _, x, _, hin⟩ := ok.chunk cc hcc
    obtain ⟨_, e1⟩ := mem_idxOfId.mp (hin i1 hi1)
    obtain ⟨_, e2⟩ := mem_idxOfId.mp (hin i2 hi2)
    have e : u.sids[i1]'(hsl ▸ h1) = u.sids[i2]'(hsl ▸ h2) := e1.trans e2.symm
    rw [hsid i1 h1, hsid i2 h2] at e
    exact sId_inj _ _ _ (List.mem_map.mpr ⟨_, List.getElem_mem h1, rfl⟩)
      (List.mem_map.mpr ⟨_, List.getElem_mem h2, rfl⟩) e
  -- membership in the rows of the result
  have hmem : ∀ r ∈ rowsOf nu, ∃ i, ∃ (hi : i < rows.length), r.plate = labelOf chunks i ∧ r.sample = (rows[i]).sample := by
    intro r hr
    rw [hrows] at hr
    obtain ⟨i, hi, rfl⟩ := List.mem_map.mp hr
    have hi' : i < rows.length := List.mem_range.mp hi
    exact ⟨i, hi', rfl, by rw [getElem!_pos rows i hi']⟩
  have hpos : rows ≠ [] → 0 < mx := by
    intro hne
    apply ok.pos
    have h0 : 0 < u.sids.length := by rw [hsl]; exact List.length_pos_iff.mpr hne
    intro he
    have : u.sids[0] ∈ uniqueSorted u.sids := mem_uniqueSorted.mpr (List.getElem_mem h0)
    rw [he] at this
    simp at this
  refine ⟨?_, ?_, hpos⟩
  · intro r1 hr1 r2 hr2 hp
    obtain ⟨i1, h1, p1, s1⟩ := hmem r1 hr1
    obtain ⟨i2, h2, p2, s2⟩ := hmem r2 hr2
    obtain ⟨j, cc, hj, hcc, hi1⟩ := segChunks_label hch (hsl ▸ h1)
    have hj2 : labelOf chunks i2 = genName j := by rw [← p2, ← hp, p1, hj]
    obtain ⟨cc', hcc', hi2⟩ := labelOf_eq_genName hj2
    have : cc' = cc := by rw [hcc] at hcc'; injection hcc' with e; exact e.symm
    subst this
    rw [s1, s2]
    exact hsame cc' (List.mem_of_getElem? hcc) i1 hi1 i2 hi2 h1 h2
  · intro p hp
    obtain ⟨r, hr, rfl⟩ := List.mem_map.mp hp
    obtain ⟨i0, h0, p0, _⟩ := hmem r hr
    obtain ⟨j, cc, hj, hcc, _⟩ := segChunks_label hch (hsl ▸ h0)
    obtain ⟨hnd, hle, _⟩ := ok.chunk cc (List.mem_of_getElem? hcc)
    rw [hrows, List.filter_map, List.length_map]
    have hsubset : (List.range rows.length).filter ((fun r' : Row => r'.plate == r.plate) ∘
        fun i => { rows[i]! with plate := labelOf chunks i }) ⊆ cc := by
      intro i hi
      have hl := (List.mem_filter.mp hi).2
      simp only [Function.comp, beq_iff_eq] at hl
      rw [p0, hj] at hl
      obtain ⟨cc', hcc', hi'⟩ := labelOf_eq_genName hl
      have : cc' = cc := by rw [hcc] at hcc'; injection hcc' with e; exact e.symm
      exact this ▸ hi'
    have hnd' := List.Nodup.sublist (List.filter_sublist (p := ((fun r' : Row => r'.plate == r.plate) ∘
        fun i => { rows[i]! with plate := labelOf chunks i }))) (List.nodup_range (n := rows.length))
    have := (List.subperm_of_subset hnd' hsubset).length_le
    omega

/-- the literal "no plate name has more than `max_plate_size` rows" form, for a non-negative limit
    (for an empty screen the generator returns the empty screen whatever the limit, so a negative limit
    cannot bound the count `0`) -/
theorem genSegregating_shape_all {c : Name} {a : Nat} {rows : List Row} {u nu : Screen} {mx : Int} {perms : List (List Nat)}
    (hu : build c a rows = .ok u) (h : genSegregating mx perms u = .ok nu) (h0 : 0 ≤ mx ∨ rows ≠ []) :
    (∀ r1 ∈ rowsOf nu, ∀ r2 ∈ rowsOf nu, r1.plate = r2.plate → r1.sample = r2.sample) ∧
    (∀ p : Name, (((rowsOf nu).filter (fun r => r.plate == p)).length : Int) ≤ mx) := by
  obtain ⟨h1, h2, h3⟩ := genSegregating_shape hu h
  refine ⟨h1, fun p => ?_⟩
  by_cases hp : p ∈ (rowsOf nu).map (·.plate)
  · exact h2 p hp
  · have : (rowsOf nu).filter (fun r => r.plate == p) = [] := by
      apply filter_eq_nil_of_forall
      intro r hr
      have : r.plate ≠ p := fun e => hp (List.mem_map.mpr ⟨r, hr, e⟩)
      simpa using this
    rw [this]
    rcases h0 with h0 | h0
    · simpa using h0
    · have := h3 h0
      simp only [List.length_nil]
      omega

/-! ### regression witness: the generator before the fix -/

/-- decidable equality of loop results (file-local, so that the concrete witnesses go through `decide`) -/
@[instance_reducible] private def decEqSegResult : DecidableEq (Except Err (List (List Nat)))
  | .ok x, .ok y => if h : x = y then isTrue (h ▸ rfl) else isFalse (fun e => h (by injection e))
  | .error x, .error y => if h : x = y then isTrue (h ▸ rfl) else isFalse (fun e => h (by injection e))
  | .ok _, .error _ => isFalse (fun e => by cases e)
  | .error _, .ok _ => isFalse (fun e => by cases e)

attribute [local instance] decEqSegResult

/-- before the fix only samples **above** the limit got plates: with sample ids `0,0,1,1,2,2,2,2,2` and limit 3
    rows 0 (sample 0) and 2 (sample 1) both keep the plate name `""` -/
theorem segregating_old_lumps_witness :
    segChunksOld [0, 0, 1, 1, 2, 2, 2, 2, 2] 3 [0, 1, 2] [[4, 5, 6, 7, 8]] = .ok [[4, 5, 6], [7, 8]] ∧
    labelOf [[4, 5, 6], [7, 8]] 0 = [] ∧ labelOf [[4, 5, 6], [7, 8]] 2 = [] := by
  decide

/-- the fixed generator gives rows 0 and 2 different plates -/
theorem segregating_new_separates_witness :
    segChunks [0, 0, 1, 1, 2, 2, 2, 2, 2] 3 [0, 1, 2] [[0, 1], [2, 3], [4, 5, 6, 7, 8]]
      = .ok [[0, 1], [2, 3], [4, 5, 6], [7, 8]] ∧
    labelOf [[0, 1], [2, 3], [4, 5, 6], [7, 8]] 0 = genName 0 ∧
    labelOf [[0, 1], [2, 3], [4, 5, 6], [7, 8]] 2 = genName 1 ∧
    labelOf [[0, 1], [2, 3], [4, 5, 6], [7, 8]] 0 ≠ labelOf [[0, 1], [2, 3], [4, 5, 6], [7, 8]] 2 := by
  decide

end Batchie.Prep
