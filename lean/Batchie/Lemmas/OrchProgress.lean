/-
  C19 -- progress: uninterrupted calls of the step function on any reachable directory of the concrete pipeline
  complete one step each, until `run_next_retrospective_step` returns False.
-/
import Batchie.Lemmas.OrchSim
import Batchie.Lemmas.OrchHalt

namespace Batchie.Orchestrator

/-! ## structure of uninterrupted runs (any pipeline) -/

theorem launchOf_plate0 {mode : Mode} {t : Tree} {nx : Next} {e : Option (List Nat)} {l : Launch}
    (h : launchOf mode t nx e = .ok l) (hp : nx.plate = 0) : l.wf ≠ .nextPlate := by
  intro hw
  exact (launchOf_nextPlate_plate h hw).1 hp

theorem CRun_flat_nil (cfg : Cfg) {p : Prog} (hc : CRun cfg p) (he : p.flat = []) : p = Prog.empty :=
  hc.unique cfg .nil (by rw [he]; rfl)

theorem CRun_structure (cfg : Cfg) {p : Prog} (hc : CRun cfg p) :
    (∀ l, p.flat.head? = some l → planLaunch cfg Prog.empty = .ok l) ∧
    (∀ c ∈ p.cs ++ [p.cur], ∀ l0, c.head? = some l0 → l0.wf ≠ .nextPlate) := by
  induction hc with
  | nil => simp [Prog.empty, Prog.flat]
  | @push p l hc' _ hl ih =>
    have hl0 : l.wf ≠ .nextPlate ∨ p.cur ≠ [] := by
      by_cases hcur : p.cur = []
      · left
        apply launchOf_plate0 hl
        rw [nextOfProg_plate, hcur]; rfl
      · right; exact hcur
    have hhead : ∀ l0, (p.cur ++ [l]).head? = some l0 → l0.wf ≠ .nextPlate := by
      intro l0 h0
      cases hcur : p.cur with
      | nil =>
        rw [hcur] at h0
        simp at h0
        subst h0
        rcases hl0 with h | h
        · exact h
        · exact absurd hcur h
      | cons a b =>
        rw [hcur] at h0
        simp at h0
        subst h0
        exact ih.2 p.cur (by simp) a (by rw [hcur]; rfl)
    constructor
    · intro l0 h0
      rw [Prog.flat_push] at h0
      by_cases he : p.flat = []
      · rw [he] at h0
        simp at h0
        subst h0
        rw [← CRun_flat_nil cfg hc' he]
        exact hl
      · apply ih.1
        cases hf : p.flat with
        | nil => exact absurd hf he
        | cons a b => rw [hf] at h0; simpa using h0
    · intro c hc0 l0 h0
      unfold Prog.push at hc0
      by_cases hb : p.cur.length + 1 = cfg.B
      · simp only [hb, ↓reduceIte, List.mem_append, List.mem_singleton] at hc0
        rcases hc0 with (hc0 | hc0) | hc0
        · exact ih.2 c (by simp [hc0]) l0 h0
        · subst hc0; exact hhead l0 h0
        · subst hc0; simp at h0
      · simp only [hb, ↓reduceIte, List.mem_append, List.mem_singleton] at hc0
        rcases hc0 with hc0 | hc0
        · exact ih.2 c (by simp [hc0]) l0 h0
        · subst hc0; exact hhead l0 h0

/-! ## one uninterrupted call of the step function (any pipeline) -/

section general
variable (cfg : Cfg)

/-- an uninterrupted call on a directory without a partial plate directory performs the planned step completely -/
theorem invokeCore_none_quiet (hml : MarkerLast cfg) (hB : 1 ≤ cfg.B) {p : Prog} {jk : Junk} (hq : Quiet p jk)
    (hc : CRun cfg p) (hf : ¬ isFinished cfg p) {l : Launch} (hl : planLaunch cfg p = .ok l) :
    invokeCore cfg none ⟨true, treeIters cfg p jk⟩ =
      ⟨⟨true, treeIters cfg (p.push cfg.B l) .none⟩, [.launched l, .completed l],
        decide (cfg.mode = .prospective ∧ ¬ (l.plate + 1 < cfg.B))⟩ := by
  have hm := hml.hasMarker
  have hp := hc.ok cfg hB
  unfold invokeCore
  rw [planStep_quiet cfg hm hB p hp (hc.wf cfg) jk hq, if_neg hf, hl]
  simp only [takeB, doneB, restB, Option.map_none, Bool.not_true, Bool.false_eq_true, ↓reduceIte]
  obtain ⟨jk', happ, _, _, hdone⟩ := pre_take cfg p jk hq (preOf p jk).length
  rw [List.take_length] at happ
  rw [happ, hdone (Nat.le_refl _)]
  have hpub := (pub_take cfg hml p l (planLaunch_allowed cfg hl) (planLaunch_pos cfg hl) (pubActions cfg l).length).2 (Nat.le_refl _)
  rw [List.take_length] at hpub
  rw [hpub]
  have hrem : removalEvents (preOf p jk) = [] := by
    have := removalEvents_preOf_take p jk (preOf p jk).length
    rwa [List.take_length] at this
  rw [hrem]
  rfl

/-- ... and the invariant holds afterwards with one more completed step and no junk -/
theorem step_none_quiet (hml : MarkerLast cfg) (hB : 1 ≤ cfg.B) {tr : List Event} {p : Prog} {jk : Junk}
    (h : GI cfg ⟨true, treeIters cfg p jk⟩ tr p jk) (hq : Quiet p jk) (hf : ¬ isFinished cfg p) {l : Launch}
    (hl : planLaunch cfg p = .ok l) :
    GI cfg (invokeCore cfg none ⟨true, treeIters cfg p jk⟩).tree
      (tr ++ (invokeCore cfg none ⟨true, treeIters cfg p jk⟩).events) (p.push cfg.B l) .none ∧
    (invokeCore cfg none ⟨true, treeIters cfg p jk⟩).halted = decide (cfg.mode = .prospective ∧ ¬ (l.plate + 1 < cfg.B)) := by
  rw [invokeCore_none_quiet cfg hml hB hq h.crun hf hl]
  refine ⟨?_, rfl⟩
  exact {
    iters := rfl
    junk := trivial
    jkcur := by intro hh; cases hh
    out := by intro hh; cases hh
    crun := .push h.crun hf hl
    comp := by
      rw [completedOf_append, h.comp, Prog.flat_push]
      simp [completedOf]
    launched := by
      intro l' hl'
      rw [launchedOf_append, List.mem_append] at hl'
      left
      rw [Prog.flat_push, List.mem_append]
      rcases hl' with hl' | hl'
      · rcases h.launched l' hl' with h1 | ⟨_, h2⟩
        · exact Or.inl h1
        · rw [hl] at h2; injection h2 with e; subst e; simp
      · simp [launchedOf] at hl'; subst hl'; simp
    noScript := by
      intro e he
      rw [List.mem_append] at he
      rcases he with he | he
      · exact h.noScript e he
      · simp at he; rcases he with rfl | rfl <;> (intro i j hh; cases hh)
    userSafe := h.userSafe.append_noUser (by
      intro e he; simp at he; rcases he with rfl | rfl <;> (intro i j hh; cases hh))
    lord := by
      apply h.lord.append
      intro a' b l' hsplit
      cases a' with
      | nil =>
        simp only [List.nil_append, List.cons.injEq, Event.launched.injEq] at hsplit
        rw [← hsplit.1, h.comp, stepNo_planLaunch cfg hB h.crun hl]
        simp [completedOf]
      | cons x a'' =>
        simp only [List.cons_append, List.cons.injEq] at hsplit
        have h2 := hsplit.2
        cases a'' with
        | nil => simp at h2
        | cons y a3 =>
          simp only [List.cons_append, List.cons.injEq] at h2
          have := congrArg List.length h2.2
          simp at this }

/-- a call on a directory with a partial plate directory names it; after its removal no partial directory is left -/
theorem step_junk (hml : MarkerLast cfg) (hB : 1 ≤ cfg.B) {tr : List Event} {p : Prog} {s : Option (List File)}
    (h : GI cfg ⟨true, treeIters cfg p (.plate s)⟩ tr p (.plate s)) (k : Option Nat) :
    ∃ jk', Quiet p jk' ∧
      GI cfg (invokeCore cfg k ⟨true, treeIters cfg p (.plate s)⟩).tree
        (tr ++ (invokeCore cfg k ⟨true, treeIters cfg p (.plate s)⟩).events) p jk' ∧
      (invokeCore cfg k ⟨true, treeIters cfg p (.plate s)⟩).halted = false := by
  have hm := hml.hasMarker
  have hp := h.crun.ok cfg hB
  unfold invokeCore
  rw [planStep_junk cfg hm hB p hp (h.crun.wf cfg) s h.junk true]
  simp only
  rw [userRemove_junk]
  refine ⟨(if p.cur = [] then Junk.emptyIter else Junk.none), ?_, ?_, trivial⟩
  · by_cases hc : p.cur = []
    · simp only [hc, ↓reduceIte]; exact Or.inr ⟨rfl, hc⟩
    · simp only [hc, ↓reduceIte]; exact Or.inl rfl
  have hnext : ∀ l ∈ completedOf tr, ¬ (l.iter = p.cs.length ∧ l.plate = p.cur.length) := by
    intro l hl hpos
    rw [h.comp] at hl
    have hs := h.crun.steps cfg hB
    have : stepNo cfg.B l ∈ List.range p.flat.length := by
      rw [← hs]; exact List.mem_map_of_mem hl
    rw [List.mem_range, flat_length hp] at this
    simp only [stepNo, hpos.1, hpos.2] at this
    omega
  exact {
    iters := rfl
    junk := by split <;> trivial
    jkcur := by intro he; split at he; assumption; cases he
    out := by intro h; cases h
    crun := h.crun
    comp := by rw [completedOf_append]; simpa [completedOf] using h.comp
    launched := by
      intro l hl
      rw [launchedOf_append] at hl
      simp only [launchedOf, List.filterMap_cons, List.filterMap_nil, List.append_nil] at hl
      exact h.launched l hl
    noScript := by
      intro e he
      rw [List.mem_append] at he
      rcases he with he | he
      · exact h.noScript e he
      · simp only [List.mem_singleton] at he; subst he; intro i j hh; cases hh
    userSafe := h.userSafe.append_user _ _ hnext
    lord := by
      apply h.lord.append
      intro a' b l hsplit
      cases a' with
      | nil => simp at hsplit
      | cons x a'' =>
        simp only [List.cons_append, List.cons.injEq] at hsplit
        have := congrArg List.length hsplit.2
        simp at this }

end general

/-! ## the concrete pipeline never lacks an input -/

variable (sc : SimCfg)

theorem sim_planLaunch_empty (B : Nat) :
    planLaunch (simCfg B sc) Prog.empty = .ok ⟨.initial, 0, 0, none, none, [], none⟩ := by
  simp [planLaunch, launchOf, simCfg, nextOfProg, lastStep, Prog.empty]

theorem sim_nx_screen (B : Nat) {p : Prog} (hc : CRun (simCfg B sc) p) (hne : p.flat ≠ []) :
    ∃ s, (nextOfProg (simCfg B sc) p).screen = some s := by
  obtain ⟨lp, hlp⟩ := getLast?_isSome_of_ne hne
  have h := ((nextOfProg_of_CRun (simCfg B sc) hc).1 lp hlp).2
  simp only [simCfg] at h
  rw [sim_screenOf] at h
  exact ⟨_, h⟩

/-- every step the script plans on a clean directory of the concrete pipeline can be launched: the test screen, the
    predecessor's screen and the chain files of plate_0 of the iteration are there -/
theorem sim_planLaunch_ok (B : Nat) (hB : 1 ≤ B) {p : Prog} (hc : CRun (simCfg B sc) p) :
    ∃ l, planLaunch (simCfg B sc) p = .ok l := by
  have hp := hc.ok (simCfg B sc) hB
  obtain ⟨hhead, hheads⟩ := CRun_structure (simCfg B sc) hc
  by_cases hne : p.flat = []
  · rw [CRun_flat_nil _ hc hne]; exact ⟨_, sim_planLaunch_empty sc B⟩
  obtain ⟨s, hs⟩ := sim_nx_screen sc B hc hne
  have hmode : (simCfg B sc).mode = .retrospective := rfl
  unfold planLaunch launchOf
  rw [hmode]
  simp only [nextOfProg_iter, nextOfProg_plate, hs]
  by_cases h00 : p.cs.length = 0 ∧ p.cur.length = 0
  · exfalso
    have : p.flat.length = 0 := by rw [flat_length hp, h00.1, h00.2]; simp
    exact hne (List.length_eq_zero_iff.mp this)
  rw [if_neg h00]
  by_cases hp0 : p.cur.length = 0
  · rw [if_pos hp0]
    have hcs : p.cs ≠ [] := by intro e; apply h00; rw [e]; exact ⟨rfl, hp0⟩
    cases hcs' : p.cs with
    | nil => exact absurd hcs' hcs
    | cons c0 cs' =>
      have hc0 : c0.length = B := hp.1 c0 (by rw [hcs']; simp)
      cases hc0' : c0 with
      | nil => rw [hc0'] at hc0; simp at hc0; omega
      | cons l00 r =>
        have hl00 : l00.wf = .initial := by
          have := hhead l00 (by simp [Prog.flat, hcs', hc0'])
          rw [sim_planLaunch_empty] at this
          injection this with this
          rw [← this]
        have hfi : findIter 0 (treeIters (simCfg B sc) p (.plate none)) =
            some ⟨0, ⟨0, some (simPubs sc l00)⟩ :: platesFrom (simCfg B sc) 1 r⟩ := by
          simp [treeIters, hcs', hc0', itersFrom, platesFrom, findIter, simCfg]
        rw [hfi]
        simp [findPlate, testScreenOf, PlateDir.files, findKind, simPubs, hl00]
  · rw [if_neg hp0]
    cases hcur : p.cur with
    | nil => rw [hcur] at hp0; exact absurd rfl hp0
    | cons l0 rest =>
      rw [chainsOf_junk (simCfg B sc) p l0 rest hcur]
      have hw : l0.wf ≠ .nextPlate := hheads p.cur (by simp) l0 (by rw [hcur]; rfl)
      have hal : allowed (simCfg B sc).mode l0.wf = true :=
        hc.wf (simCfg B sc) l0 (by simp [Prog.flat, hcur])
      cases hwf : l0.wf with
      | nextPlate => exact absurd hwf hw
      | prospFirst => rw [hwf] at hal; simp [simCfg, allowed] at hal
      | initial => simp [simCfg, simPubs, simCore, hwf, Kind.isThetas, Kind.isDist]
      | firstBatch => simp [simCfg, simPubs, simCore, hwf, Kind.isThetas, Kind.isDist]

/-! ## progress of the concrete simulation -/

def junkW : Junk → Nat
  | .plate _ => 1
  | _ => 0

theorem runSched_append_halted (cfg : Cfg) (a b : List (Option Nat)) :
    ∀ (t : Tree) (tr : List Event), (runSched cfg a t tr).halted = true →
      runSched cfg (a ++ b) t tr = runSched cfg a t tr := by
  induction a with
  | nil => intro t tr h; simp [runSched] at h
  | cons k ks ih =>
    intro t tr h
    rw [List.cons_append, runSched_cons, runSched_cons]
    rw [runSched_cons] at h
    split
    · rfl
    · rename_i hh
      rw [if_neg hh] at h
      exact ih _ _ h

theorem invokeCore_finished (cfg : Cfg) (hml : MarkerLast cfg) (hB : 1 ≤ cfg.B) {p : Prog} {jk : Junk}
    (hc : CRun cfg p) (hq : Quiet p jk) (hf : isFinished cfg p) (k : Option Nat) :
    (invokeCore cfg k ⟨true, treeIters cfg p jk⟩).halted = true := by
  unfold invokeCore
  rw [planStep_quiet cfg hml.hasMarker hB p (hc.ok cfg hB) (hc.wf cfg) jk hq, if_pos hf]

theorem sim_finished_iff (B : Nat) {p : Prog} (hc : CRun (simCfg B sc) p) (hne : p.flat ≠ []) :
    isFinished (simCfg B sc) p ↔ cntBits sc.N (outMask sc p) = 0 := by
  unfold isFinished
  rw [sim_lastMeta sc B hc hne]
  constructor
  · rintro ⟨_, h⟩; injection h
  · intro h; exact ⟨rfl, by rw [h]⟩

theorem sim_progress (B : Nat) (hB : 1 ≤ B) (hsel : SelOK sc) (h0 : 0 < cntBits sc.N sc.M0) :
    ∀ (n : Nat) {t : Tree} {tr : List Event} {p : Prog} {jk : Junk}, GI (simCfg B sc) t tr p jk →
      2 * cntBits sc.N (outMask sc p) + junkW jk + 1 ≤ n →
      (runSched (simCfg B sc) (List.replicate n none) t tr).halted = true := by
  have hml := sim_markerLast sc B
  have hB' : 1 ≤ (simCfg B sc).B := hB
  intro n
  induction n with
  | zero => intro t tr p jk _ hn; omega
  | succ n ih =>
    intro t tr p jk h hn
    rw [List.replicate_succ, runSched_cons]
    -- reduce to the core on an existing output directory
    have core : ∀ (t' : Tree), GI (simCfg B sc) t' tr p jk → t'.out = true →
        (invokeCore (simCfg B sc) none t').halted = true ∨
        ∃ p' jk', GI (simCfg B sc) (invokeCore (simCfg B sc) none t').tree (tr ++ (invokeCore (simCfg B sc) none t').events) p' jk' ∧
          2 * cntBits sc.N (outMask sc p') + junkW jk' + 1 ≤ n := by
      intro t' h' hout
      have ht : t' = ⟨true, treeIters (simCfg B sc) p jk⟩ := by
        cases t'; simp only [Tree.mk.injEq]; exact ⟨hout, h'.iters⟩
      subst ht
      cases hjk : jk with
      | plate s =>
        subst hjk
        right
        obtain ⟨jk', hq, hg, _⟩ := step_junk (simCfg B sc) hml hB' h' none
        refine ⟨p, jk', hg, ?_⟩
        have : junkW jk' = 0 := by rcases hq with rfl | ⟨rfl, _⟩ <;> rfl
        simp only [junkW] at hn
        omega
      | none => subst hjk; exact quiet h' (Or.inl rfl) hn
      | emptyIter => subst hjk; exact quiet h' (Or.inr ⟨rfl, h'.jkcur rfl⟩) hn
    by_cases hout : t.out = true
    · have hinv : invoke (simCfg B sc) none t = invokeCore (simCfg B sc) none t := by
        unfold invoke; rw [if_pos hout]
      rw [hinv]
      rcases core t h hout with hh | ⟨p', jk', hg, hm⟩
      · rw [if_pos hh]
      · split
        · rfl
        · exact ih hg hm
    · have hinv : invoke (simCfg B sc) none t = invokeCore (simCfg B sc) none (Action.mkdirOut.apply t) := by
        unfold invoke; rw [if_neg hout]; simp [doneB, restB]
      rw [hinv]
      have h' : GI (simCfg B sc) (Action.mkdirOut.apply t) tr p jk :=
        { iters := h.iters, junk := h.junk, jkcur := h.jkcur, out := (by intro hh; cases hh),
          crun := h.crun, comp := h.comp, launched := h.launched, noScript := h.noScript, userSafe := h.userSafe,
          lord := h.lord }
      rcases core _ h' rfl with hh | ⟨p', jk', hg, hm⟩
      · rw [if_pos hh]
      · split
        · rfl
        · exact ih hg hm
where
  quiet {n : Nat} {tr : List Event} {p : Prog} {jk : Junk}
      (h' : GI (simCfg B sc) ⟨true, treeIters (simCfg B sc) p jk⟩ tr p jk) (hq : Quiet p jk)
      (hn : 2 * cntBits sc.N (outMask sc p) + junkW jk + 1 ≤ n + 1) :
      (invokeCore (simCfg B sc) none ⟨true, treeIters (simCfg B sc) p jk⟩).halted = true ∨
      ∃ p' jk', GI (simCfg B sc) (invokeCore (simCfg B sc) none ⟨true, treeIters (simCfg B sc) p jk⟩).tree
          (tr ++ (invokeCore (simCfg B sc) none ⟨true, treeIters (simCfg B sc) p jk⟩).events) p' jk' ∧
        2 * cntBits sc.N (outMask sc p') + junkW jk' + 1 ≤ n := by
    have hml := sim_markerLast sc B
    have hB' : 1 ≤ (simCfg B sc).B := hB
    by_cases hf : isFinished (simCfg B sc) p
    · left; exact invokeCore_finished (simCfg B sc) hml hB' h'.crun hq hf none
    · right
      obtain ⟨l, hl⟩ := sim_planLaunch_ok sc B hB h'.crun
      obtain ⟨hg, _⟩ := step_none_quiet (simCfg B sc) hml hB' h' hq hf hl
      refine ⟨_, _, hg, ?_⟩
      have i1 := (simInv sc B hB hsel h0 h'.crun).count
      have i2 := (simInv sc B hB hsel h0 (CRun.push h'.crun hf hl)).count
      rw [Prog.flat_push, List.length_append, List.length_singleton] at i2
      have : junkW Junk.none = 0 := rfl
      have hB'' : (simCfg B sc).B = B := rfl
      rw [hB''] at i2 ⊢
      omega

end Batchie.Orchestrator
