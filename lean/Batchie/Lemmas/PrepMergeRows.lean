/-
  C11 / C13 helper lemmas, part 9: the merge-smoother theorems of `PrepMerge*.lean` (stated on the plate-name and
  sample-id columns) restated on rows and sample *names*, for the screens the wrapper hands to the smoothers.
-/
import Batchie.Lemmas.PrepMerge3
import Batchie.Lemmas.PrepPerm
import Batchie.Lemmas.PrepNPlate
namespace Batchie.Prep
open Batchie.Proto Batchie.Screen

/-- renaming the plate of every row -/
def renamePlates (ρ : Name → Name) (rows : List Row) : List Row := rows.map (fun r => { r with plate := ρ r.plate })

theorem setPlates_map_rename (rows : List Row) (ρ : Name → Name) :
    setPlates rows ((rows.map (·.plate)).map ρ) = renamePlates ρ rows := by
  unfold setPlates renamePlates
  induction rows with
  | nil => rfl
  | cons r rows ih => simp only [List.map_cons, List.zipWith_cons_cons, ih]

theorem zip_cols {c : Name} {a : Nat} {rows : List Row} {u : Screen} (B : BuildOk c a rows u) :
    u.pnames.zip u.sids = rows.map (fun r => (r.plate, sId (freshSMap (rows.map (·.sample))) r.sample)) := by
  rw [B.pnames_eq, B.sids_eq, List.map_map, List.zip_map']
  rfl

theorem sample_inj {rows : List Row} {r1 r2 : Row} (h1 : r1 ∈ rows) (h2 : r2 ∈ rows)
    (h : sId (freshSMap (rows.map (·.sample))) r1.sample = sId (freshSMap (rows.map (·.sample))) r2.sample) :
    r1.sample = r2.sample :=
  sId_inj _ _ _ (List.mem_map_of_mem h1) (List.mem_map_of_mem h2) h

/-- shape shared by both merge smoothers: the result is the input with plates renamed by a function `ρ`
    (so plates only merge), and two rows end up on the same plate only if they were on the same plate before
    or belong to the same sample -/
structure MergeShape (rows nuRows : List Row) : Prop where
  rename : ∃ ρ : Name → Name, nuRows = renamePlates ρ rows ∧
    ∀ r1 ∈ rows, ∀ r2 ∈ rows, ρ r1.plate = ρ r2.plate → r1.plate = r2.plate ∨ r1.sample = r2.sample

theorem mergeShape_of_coarsen {c : Name} {a : Nat} {rows : List Row} {u nu : Screen} (hu : build c a rows = .ok u)
    (hrel : rowsOf nu = setPlates (rowsOf u) nu.pnames)
    (hco : ∃ ρ : Name → Name, nu.pnames = u.pnames.map ρ ∧
      ∀ p s q t, (p, s) ∈ u.pnames.zip u.sids → (q, t) ∈ u.pnames.zip u.sids → ρ p = ρ q → p = q ∨ s = t) :
    MergeShape rows (rowsOf nu) := by
  have B := build_ok hu
  obtain ⟨ρ, hpn, hsame⟩ := hco
  refine ⟨ρ, ?_, ?_⟩
  · rw [hrel, hpn, B.rows_eq, B.pnames_eq, setPlates_map_rename]
  · intro r1 h1 r2 h2 e
    rw [zip_cols B] at hsame
    rcases hsame _ _ _ _ (List.mem_map_of_mem (f := fun r => (r.plate, sId (freshSMap (rows.map (·.sample))) r.sample)) h1)
      (List.mem_map_of_mem (f := fun r => (r.plate, sId (freshSMap (rows.map (·.sample))) r.sample)) h2) e with h | h
    · exact Or.inl h
    · exact Or.inr (sample_inj h1 h2 h)

theorem mergeMin_shape {c : Name} {a : Nat} {rows : List Row} {u nu : Screen} {k : Int} {pops : List Nat}
    (hu : build c a rows = .ok u) (h : mergeMin k pops u = .ok nu) : MergeShape rows (rowsOf nu) :=
  mergeShape_of_coarsen hu (mergeMin_relabels h).1 (mergeMin_coarsen h)

theorem mergeTopBottom_shape {c : Name} {a : Nat} {rows : List Row} {u nu : Screen} {n : Int}
    (hu : build c a rows = .ok u) (h : mergeTopBottom n u = .ok nu) : MergeShape rows (rowsOf nu) :=
  mergeShape_of_coarsen hu (mergeTopBottom_relabels h).1 (mergeTopBottom_coarsen h)

theorem renamePlates_unlabelled (ρ : Name → Name) (rows : List Row) : (renamePlates ρ rows).map unlabelled = rows.map unlabelled := by
  unfold renamePlates
  rw [List.map_map]; rfl

theorem renamePlates_mask (ρ : Name → Name) (rows : List Row) (hm : ∀ r ∈ rows, r.mask = false) :
    ∀ r ∈ renamePlates ρ rows, r.mask = false := by
  intro r hr
  obtain ⟨x, hx, rfl⟩ := List.mem_map.mp hr
  exact hm x hx

/-- plate size by name -/
def plateSize (rows : List Row) (p : Name) : Nat := (rows.filter (fun r => r.plate == p)).length

theorem filter_pnames_length (rows : List Row) (p : Name) :
    ((rows.map (·.plate)).filter (· == p)).length = plateSize rows p := by
  unfold plateSize
  rw [List.filter_map, List.length_map]; rfl

/-- columns of the relabelled screen in terms of its rows -/
theorem merged_cols {c : Name} {a : Nat} {rows : List Row} {u nu : Screen} (B : BuildOk c a rows u)
    (hrel : rowsOf nu = setPlates (rowsOf u) nu.pnames) (hlen : nu.pnames.length = u.pnames.length) (hs : nu.sids = u.sids) :
    nu.pnames = (rowsOf nu).map (·.plate) ∧
      nu.pnames.zip nu.sids = (rowsOf nu).map (fun r => (r.plate, sId (freshSMap (rows.map (·.sample))) r.sample)) := by
  have hl : nu.pnames.length = rows.length := by rw [hlen, B.pnames_eq]; simp
  rw [B.rows_eq] at hrel
  obtain ⟨_, _, f3, f4⟩ := setPlates_fields rows nu.pnames hl
  have e1 : nu.pnames = (rowsOf nu).map (·.plate) := by rw [hrel, f3]
  refine ⟨e1, ?_⟩
  have e2 : nu.sids = ((rowsOf nu).map (·.sample)).map (sId (freshSMap (rows.map (·.sample)))) := by
    rw [hs, B.sids_eq, hrel, f4]
  rw [e2, List.map_map]
  conv => lhs; rw [e1]
  rw [List.zip_map']
  rfl

/-- **MergeMin stops exactly when it may** (rows form): any two plates of one sample left by the smoother together
    exceed the limit; and every plate produced by merging respects the limit -/
theorem mergeMin_stops_rows {c : Name} {a : Nat} {rows : List Row} {u nu : Screen} {k : Int} {pops : List Nat}
    (hu : build c a rows = .ok u) (h : mergeMin k pops u = .ok nu) :
    (∀ r1 ∈ rowsOf nu, ∀ r2 ∈ rowsOf nu, r1.sample = r2.sample → r1.plate ≠ r2.plate →
        k < (plateSize (rowsOf nu) r1.plate + plateSize (rowsOf nu) r2.plate : Int)) ∧
    (∀ ρ : Name → Name, rowsOf nu = renamePlates ρ rows → ∀ r1 ∈ rows, ∀ r2 ∈ rows, ρ r1.plate = ρ r2.plate →
        r1.plate ≠ r2.plate → (plateSize (rowsOf nu) (ρ r1.plate) : Int) ≤ k) := by
  have B := build_ok hu
  obtain ⟨hrel, hlen, hs, _⟩ := mergeMin_relabels h
  obtain ⟨e1, e2⟩ := merged_cols B hrel hlen hs
  constructor
  · intro r1 h1 r2 h2 hsm hpl
    have := mergeMin_stops h r1.plate (sId (freshSMap (rows.map (·.sample))) r1.sample) r2.plate
      (sId (freshSMap (rows.map (·.sample))) r2.sample)
      (by rw [e2]; exact List.mem_map_of_mem (f := fun r => (r.plate, sId (freshSMap (rows.map (·.sample))) r.sample)) h1)
      (by rw [e2]; exact List.mem_map_of_mem (f := fun r => (r.plate, sId (freshSMap (rows.map (·.sample))) r.sample)) h2)
      (by rw [hsm]) hpl
    rw [e1, filter_pnames_length, filter_pnames_length] at this
    exact this
  · intro ρ hρ r1 h1 r2 h2 e hne
    have hnp : nu.pnames = (rows.map (·.plate)).map ρ := by
      rw [e1, hρ]; unfold renamePlates; rw [List.map_map, List.map_map]; rfl
    have hz : u.pnames.zip nu.pnames = rows.map (fun r => (r.plate, ρ r.plate)) := by
      rw [B.pnames_eq, hnp, List.map_map, List.zip_map']; rfl
    have := mergeMin_within h r1.plate (ρ r1.plate) r2.plate (ρ r2.plate)
      (by rw [hz]; exact List.mem_map_of_mem (f := fun r => (r.plate, ρ r.plate)) h1)
      (by rw [hz]; exact List.mem_map_of_mem (f := fun r => (r.plate, ρ r.plate)) h2) e hne
    rw [e1, filter_pnames_length] at this
    exact this

theorem platesOn_rows (rows nuRows : List Row) (hs : nuRows.map (·.sample) = rows.map (·.sample)) (σ : Name) (hσ : σ ∈ rows.map (·.sample)) :
    ((List.zip (nuRows.map (·.plate)) ((nuRows.map (·.sample)).map (sId (freshSMap (rows.map (·.sample)))))).filter
        (·.2 == sId (freshSMap (rows.map (·.sample))) σ)).map (·.1)
      = (nuRows.filter (fun r => r.sample == σ)).map (·.plate) := by
  rw [List.map_map, List.zip_map', List.filter_map, List.map_map]
  have : (nuRows.filter ((fun x : Name × Int => x.2 == sId (freshSMap (rows.map (·.sample))) σ) ∘
      fun r : Row => (r.plate, ((sId (freshSMap (rows.map (·.sample)))) ∘ fun r : Row => r.sample) r)))
      = nuRows.filter (fun r => r.sample == σ) := by
    apply List.filter_congr
    intro r hr
    have hr' : r.sample ∈ rows.map (·.sample) := hs ▸ List.mem_map_of_mem hr
    simp only [Function.comp]
    rw [Bool.eq_iff_iff]
    simp only [beq_iff_eq]
    constructor
    · intro e; exact sId_inj _ _ _ hr' hσ e
    · intro e; rw [e]
  rw [this]
  rfl

/-- **MergeTopBottom halves, rounding up** (rows form): for every sample of the screen, the number of distinct plates
    on its rows after `n` iterations is `halve` applied `n` times to the number before -/
theorem mergeTopBottom_halves_rows {c : Name} {a : Nat} {rows : List Row} {u nu : Screen} {n : Int}
    (hu : build c a rows = .ok u) (h : mergeTopBottom n u = .ok nu) (σ : Name) (hσ : σ ∈ rows.map (·.sample)) :
    (distinctPlates (rowsOf nu) σ).length = halve^[n.toNat] (distinctPlates rows σ).length := by
  have B := build_ok hu
  obtain ⟨hrel, hlen, hs, _⟩ := mergeTopBottom_relabels h
  obtain ⟨e1, _⟩ := merged_cols B hrel hlen hs
  have hl : nu.pnames.length = rows.length := by rw [hlen, B.pnames_eq]; simp
  have hsm : (rowsOf nu).map (·.sample) = rows.map (·.sample) := by
    rw [hrel, B.rows_eq]; exact (setPlates_fields rows nu.pnames hl).2.2.2
  have hx : sId (freshSMap (rows.map (·.sample))) σ ∈ u.sids := by rw [B.sids_eq]; exact List.mem_map_of_mem hσ
  have := mergeTopBottom_halves h _ hx
  have e2 : nu.sids = ((rowsOf nu).map (·.sample)).map (sId (freshSMap (rows.map (·.sample)))) := by rw [hs, B.sids_eq, hsm]
  rw [e2, B.sids_eq, B.pnames_eq] at this
  conv at this => lhs; rw [e1]
  rw [platesOn_rows rows (rowsOf nu) hsm σ hσ, platesOn_rows rows rows rfl σ hσ] at this
  exact this

end Batchie.Prep
