/-
  Plate-level facts: the constructor's uniformity test as a proposition, masks built by the lifecycle
  operations are uniform, `reveal_plates` at plate level, counters, `set_observed`.
-/
import Batchie.Model.Retro
import Batchie.Lemmas.LifecycleMk

namespace Batchie.Lifecycle
open Batchie.Proto Batchie.Screen Batchie.Retro

/-! ### `maskFilter` -/

theorem maskFilter_eq_filter_zip {α β : Type} (f : β → Bool) :
    ∀ (xs : List α) (ks : List β), maskFilter xs (ks.map f) = ((ks.zip xs).filter (fun z => f z.1)).map (·.2)
  | [], ks => by cases ks <;> simp [maskFilter]
  | x :: xs, [] => by simp [maskFilter]
  | x :: xs, k :: ks => by
    simp only [List.map_cons, maskFilter, List.zip_cons_cons, List.filter_cons]
    cases f k <;> simp [maskFilter_eq_filter_zip f xs ks]

theorem mem_of_mem_maskFilter {α : Type} {x : α} : ∀ {xs : List α} {m : List Bool}, x ∈ maskFilter xs m → x ∈ xs
  | [], m, h => by cases m <;> simp [maskFilter] at h
  | a :: as, [], h => by simp [maskFilter] at h
  | a :: as, b :: bs, h => by
    simp only [maskFilter] at h
    cases b with
    | false =>
      simp only [Bool.false_eq_true, ↓reduceIte] at h
      exact List.mem_cons_of_mem _ (mem_of_mem_maskFilter h)
    | true =>
      simp only [↓reduceIte, List.mem_cons] at h
      rcases h with h | h
      · exact h ▸ List.mem_cons_self
      · exact List.mem_cons_of_mem _ (mem_of_mem_maskFilter h)

theorem zipWith_or_get! (a b : List Bool) (i : Nat) (h1 : i < a.length) (h2 : i < b.length) :
    (List.zipWith (· || ·) a b)[i]! = (a[i]! || b[i]!) := by
  rw [getElem!_pos _ i (by simp [List.length_zipWith]; omega), getElem!_pos a i h1, getElem!_pos b i h2,
    List.getElem_zipWith]

/-! ### plate uniformity as a proposition -/

/-- rows of one plate agree on the mask (rows as `(plate name, mask)` pairs) -/
def PU (z : List (Name × Bool)) : Prop := ∀ x ∈ z, ∀ y ∈ z, x.1 = y.1 → x.2 = y.2

theorem head!_mem {l : List Bool} (h : l ≠ []) : l.head! ∈ l := by
  cases l with
  | nil => exact absurd rfl h
  | cons a t => simp [List.head!]

theorem plateUniform_iff (pn : List Name) (mask : List Bool) :
    plateUniform pn mask = true ↔ PU (pn.zip mask) := by
  unfold plateUniform PU
  simp only [List.all_eq_true, List.mem_eraseDups, beq_iff_eq]
  constructor
  · intro h x hx y hy hxy
    have hp : x.1 ∈ pn := (List.of_mem_zip (a := x.1) (b := x.2) hx).1
    have hm := h x.1 hp
    rw [maskFilter_eq_filter_zip (fun k => k == x.1)] at hm
    have hx' : x.2 ∈ ((pn.zip mask).filter (fun z => z.1 == x.1)).map (·.2) :=
      List.mem_map.2 ⟨x, List.mem_filter.2 ⟨hx, by simp⟩, rfl⟩
    have hy' : y.2 ∈ ((pn.zip mask).filter (fun z => z.1 == x.1)).map (·.2) :=
      List.mem_map.2 ⟨y, List.mem_filter.2 ⟨hy, by simp [hxy]⟩, rfl⟩
    rw [hm _ hx', hm _ hy']
  · intro h p _ b hb
    rw [maskFilter_eq_filter_zip (fun k => k == p)] at hb ⊢
    have hne : ((pn.zip mask).filter (fun z => z.1 == p)).map (·.2) ≠ [] := List.ne_nil_of_mem hb
    have hh := head!_mem hne
    obtain ⟨x, hx, rfl⟩ := List.mem_map.1 hb
    obtain ⟨y, hy, hye⟩ := List.mem_map.1 hh
    rw [← hye]
    simp only [List.mem_filter, beq_iff_eq] at hx hy
    exact h x hx.1 y hy.1 (hx.2.trans hy.2.symm)

/-- index form: rows `i`, `j` on the same plate have the same mask -/
theorem PU_index {pn : List Name} {mask : List Bool} (h : PU (pn.zip mask)) (i j : Nat)
    (hi : i < pn.length) (hj : j < pn.length) (hi' : i < mask.length) (hj' : j < mask.length)
    (hp : pn[i] = pn[j]) : mask[i] = mask[j] := by
  have hx : (pn[i], mask[i]) ∈ pn.zip mask := by
    rw [List.mem_iff_getElem]
    exact ⟨i, by simp [List.length_zip]; omega, by simp⟩
  have hy : (pn[j], mask[j]) ∈ pn.zip mask := by
    rw [List.mem_iff_getElem]
    exact ⟨j, by simp [List.length_zip]; omega, by simp⟩
  exact h _ hx _ hy hp

theorem plateUniform_replicate (pn : List Name) (n : Nat) (c : Bool) : plateUniform pn (List.replicate n c) = true := by
  rw [plateUniform_iff]
  intro x hx y hy _
  have hx2 := (List.of_mem_zip (a := x.1) (b := x.2) hx).2
  have hy2 := (List.of_mem_zip (a := y.1) (b := y.2) hy).2
  rw [List.mem_replicate] at hx2 hy2
  rw [hx2.2, hy2.2]

theorem zip_zipWith_map {α : Type} (h : α → Bool) :
    ∀ (ks : List α) (m : List Bool),
      ks.zip (List.zipWith (· || ·) m (ks.map h)) = (ks.zip m).map (fun z => (z.1, z.2 || h z.1))
  | [], m => by simp
  | k :: ks, [] => by simp
  | k :: ks, b :: m => by simp [zip_zipWith_map h ks m]

/-- OR-ing a uniform mask with a mask that is a function of the plate keeps it uniform -/
theorem plateUniform_or (pn : List Name) (m : List Bool) (h : Name → Bool) (hu : plateUniform pn m = true) :
    plateUniform pn (List.zipWith (· || ·) m (pn.map h)) = true := by
  rw [plateUniform_iff] at hu ⊢
  rw [zip_zipWith_map]
  intro x hx y hy hxy
  obtain ⟨z, hz, rfl⟩ := List.mem_map.1 hx
  obtain ⟨w, hw, rfl⟩ := List.mem_map.1 hy
  simp only at hxy ⊢
  rw [hu z hz w hw hxy, hxy]

/-! ### plate ids and plate names of a constructed screen -/

theorem pids_eq {s : Screen} (h : WF s) :
    s.pids = s.pnames.map (fun k => (((uniqueNames s.pnames).idxOf k : Nat) : Int)) := by
  have := h.penc
  rw [encode1d_fresh] at this
  injection this with this
  injection this with h1 _
  exact h1.symm

theorem pmap_eq {s : Screen} (h : WF s) : s.pmap = freshSMap s.pnames := by
  have := h.penc
  rw [encode1d_fresh] at this
  injection this with this
  injection this with _ h2
  exact h2.symm

theorem length_pids {s : Screen} (h : WF s) : s.pids.length = s.tnames.length := by
  rw [pids_eq h, List.length_map, h.len_pn]

/-- rows have the same plate id iff they have the same plate name -/
theorem pids_inj {s : Screen} (h : WF s) (i j : Nat) (hi : i < s.pnames.length) (hj : j < s.pnames.length) :
    (s.pids[i]'(by rw [length_pids h, ← h.len_pn]; exact hi) = s.pids[j]'(by rw [length_pids h, ← h.len_pn]; exact hj))
      ↔ s.pnames[i] = s.pnames[j] := by
  simp only [pids_eq h, List.getElem_map]
  constructor
  · intro e
    have e' : (uniqueNames s.pnames).idxOf s.pnames[i] = (uniqueNames s.pnames).idxOf s.pnames[j] := by omega
    exact idxOf_uniqueNames_inj (List.getElem_mem hi) (List.getElem_mem hj) e'
  · intro e; rw [e]

/-! ### the lifecycle operations on a well-formed screen, in closed form -/

theorem rebuild_eq (s : Screen) (m : List Bool) : rebuild s m = mk? (rowsRaw s m) := rfl

theorem size_eq {s : Screen} (h : WF s) : s.size = s.tnames.length := h.len_sn

theorem maskScreen_eq {s : Screen} (h : WF s) :
    maskScreen s = .ok { s with mask := List.replicate s.size false } := by
  unfold maskScreen
  rw [rebuild_eq, mk?_rowsRaw h _ (by simp [size_eq h]) (plateUniform_replicate _ _ _)]

theorem unmaskScreen_eq {s : Screen} (h : WF s) :
    unmaskScreen s = .ok { s with mask := List.replicate s.size true } := by
  unfold unmaskScreen
  rw [rebuild_eq, mk?_rowsRaw h _ (by simp [size_eq h]) (plateUniform_replicate _ _ _)]

theorem revealMask_eq {s : Screen} (h : WF s) (ids : List Int) :
    revealMask s ids = s.pnames.map (fun k => ids.contains (((uniqueNames s.pnames).idxOf k : Nat) : Int)) := by
  unfold revealMask
  rw [pids_eq h, List.map_map]
  rfl

theorem revealPlates_eq {s : Screen} (h : WF s) (ids : List Int) (hr : revealRefused s ids = false) :
    revealPlates s ids = .ok { s with mask := List.zipWith (· || ·) s.mask (revealMask s ids) } := by
  unfold revealPlates
  simp only [hr, Bool.false_eq_true, ↓reduceIte]
  rw [rebuild_eq, mk?_rowsRaw h]
  · simp [revealMask, length_pids h, h.len_mask]
  · rw [revealMask_eq h]
    exact plateUniform_or _ _ _ h.uniform

theorem revealPlates_refused (s : Screen) (ids : List Int) (hr : revealRefused s ids = true) :
    revealPlates s ids = .error .valueError := by
  unfold revealPlates
  simp only [hr, ↓reduceIte]

/-! ### plate level -/

theorem plateObserved_or (pids : List Int) (c : Int → Bool) (p : Int) :
    ∀ (m : List Bool),
      (maskFilter (List.zipWith (· || ·) m (pids.map c)) (pids.map (· == p))).all id
        = ((maskFilter m (pids.map (· == p))).all id || c p) := by
  induction pids with
  | nil => intro m; cases m <;> simp [maskFilter]
  | cons q qs ih =>
    intro m
    cases m with
    | nil => simp [maskFilter]
    | cons b bs =>
      simp only [List.map_cons, List.zipWith_cons_cons, maskFilter]
      by_cases hq : (q == p) = true
      · have : q = p := by simpa using hq
        subst this
        simp only [hq, ↓reduceIte, List.all_cons, id, ih bs]
        cases b <;> cases c q <;> simp
      · simp only [hq, Bool.false_eq_true, ↓reduceIte, ih bs]

theorem countP_split {α : Type} (a b : α → Bool) (l : List α) :
    l.countP (fun x => !a x) = l.countP (fun x => !(a x || b x)) + l.countP (fun x => !a x && b x) := by
  induction l with
  | nil => rfl
  | cons x xs ih =>
    simp only [List.countP_cons, ih]
    cases a x <;> cases b x <;> simp <;> omega

/-! ### `set_observed` -/

theorem maskFilter_assignMasked_sel {α : Type} :
    ∀ (obs : List α) (sel : List Bool) (vals : List α), sel.length = obs.length → vals.length = sel.count true →
      maskFilter (assignMasked obs sel vals) sel = vals
  | [], sel, vals, h1, h2 => by
    have : sel = [] := List.length_eq_zero_iff.1 h1
    subst this
    have : vals = [] := List.length_eq_zero_iff.1 (by simpa using h2)
    subst this
    simp [assignMasked, maskFilter]
  | a :: as, [], vals, h1, _ => by simp at h1
  | a :: as, true :: ms, [], _, h2 => by simp at h2
  | a :: as, true :: ms, v :: vs, h1, h2 => by
    simp only [assignMasked, maskFilter, ↓reduceIte]
    rw [maskFilter_assignMasked_sel as ms vs (by simpa using h1) (by simpa using h2)]
  | a :: as, false :: ms, vals, h1, h2 => by
    simp only [assignMasked, maskFilter, Bool.false_eq_true, ↓reduceIte]
    exact maskFilter_assignMasked_sel as ms vals (by simpa using h1) (by simpa using h2)

theorem maskFilter_assignMasked_not {α : Type} :
    ∀ (obs : List α) (sel : List Bool) (vals : List α), sel.length = obs.length → vals.length = sel.count true →
      maskFilter (assignMasked obs sel vals) (sel.map (!·)) = maskFilter obs (sel.map (!·))
  | [], sel, vals, _, _ => by
    cases sel <;> cases vals <;> simp [assignMasked, maskFilter]
  | a :: as, [], vals, h1, _ => by simp at h1
  | a :: as, true :: ms, [], _, h2 => by simp at h2
  | a :: as, true :: ms, v :: vs, h1, h2 => by
    simp only [assignMasked, List.map_cons, Bool.not_true, maskFilter, Bool.false_eq_true, ↓reduceIte]
    exact maskFilter_assignMasked_not as ms vs (by simpa using h1) (by simpa using h2)
  | a :: as, false :: ms, vals, h1, h2 => by
    simp only [assignMasked, List.map_cons, Bool.not_false, maskFilter, ↓reduceIte]
    rw [maskFilter_assignMasked_not as ms vals (by simpa using h1) (by simpa using h2)]

theorem length_assignMasked {α : Type} :
    ∀ (obs : List α) (sel : List Bool) (vals : List α), (assignMasked obs sel vals).length = obs.length
  | [], sel, vals => by cases sel <;> simp [assignMasked]
  | a :: as, [], vals => by simp [assignMasked]
  | a :: as, true :: ms, [] => by simp [assignMasked, length_assignMasked as ms []]
  | a :: as, true :: ms, v :: vs => by simp [assignMasked, length_assignMasked as ms vs]
  | a :: as, false :: ms, vals => by simp [assignMasked, length_assignMasked as ms vals]

end Batchie.Lifecycle
