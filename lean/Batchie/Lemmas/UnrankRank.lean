/-
  C15 -- the combinatorial number system: `prank k [c_k, …, c_1] = Σ C(c_i, i)` is a strictly
  monotone (lexicographic order) bijection from strictly descending `k`-tuples below `m` onto
  `[0, C(m,k))`.  Pure `Nat` facts; no reference to the generated code except through `prank`.
-/
import Batchie.Lemmas.UnrankLoop
import Mathlib.Data.List.Nodup

namespace Batchie.Lemmas.Unrank

/-- a strictly descending `k`-tuple below `m` has rank `< C(m,k)` -/
theorem prank_lt : ∀ (l : List Nat) (k m : Nat), l.length = k → l.Pairwise (· > ·) →
    (∀ x ∈ l, x < m) → prank k l < m.choose k := by
  intro l
  induction l with
  | nil => intro k m hk _ _; subst hk; simp [prank]
  | cons c cs ih =>
    intro k m hk hp hm
    obtain ⟨j, rfl⟩ : ∃ j, k = j + 1 := ⟨cs.length, by simpa using hk.symm⟩
    have hlen : cs.length = j := by simpa using hk
    rw [List.pairwise_cons] at hp
    have h1 := ih j c hlen hp.2 (fun x hx => hp.1 x hx)
    have hc : c + 1 ≤ m := hm c (by simp)
    have h2 : (c+1).choose (j+1) ≤ m.choose (j+1) := Nat.choose_le_choose _ hc
    have h3 : (c+1).choose (j+1) = c.choose j + c.choose (j+1) := Nat.choose_succ_succ c j
    simp only [prank, Nat.add_sub_cancel]
    omega

/-- a smaller head gives a smaller rank, whatever the tails -/
theorem prank_head_lt (c c' : Nat) (cs cs' : List Nat) (k : Nat) (hlen : (c :: cs).length = k)
    (hp : (c :: cs).Pairwise (· > ·)) (hcc : c < c') :
    prank k (c :: cs) < prank k (c' :: cs') := by
  have h1 := prank_lt (c :: cs) k (c+1) hlen hp (by
    intro x hx
    rcases List.mem_cons.1 hx with rfl | hx
    · omega
    · have := (List.pairwise_cons.1 hp).1 x hx; omega)
  have h2 : (c+1).choose k ≤ c'.choose k := Nat.choose_le_choose _ hcc
  have h3 : c'.choose k ≤ prank k (c' :: cs') := by simp [prank]
  omega

/-- `prank` reflects the strict order: a smaller rank means a lexicographically smaller tuple -/
theorem lex_of_prank_lt : ∀ (l l' : List Nat) (k : Nat), l.length = k → l'.length = k →
    l.Pairwise (· > ·) → l'.Pairwise (· > ·) → prank k l < prank k l' → List.Lex (· < ·) l l' := by
  intro l
  induction l with
  | nil =>
    intro l' k hk hk' _ _ h
    subst hk
    have : l' = [] := List.eq_nil_of_length_eq_zero hk'
    subst this; simp [prank] at h
  | cons c cs ih =>
    intro l' k hk hk' hp hp' h
    cases l' with
    | nil => simp at hk'; subst hk'; simp at hk
    | cons c' cs' =>
      rcases Nat.lt_trichotomy c c' with hlt | heq | hgt
      · exact List.Lex.rel hlt
      · subst heq
        apply List.Lex.cons
        have hl : cs.length = k - 1 := by simp at hk; omega
        have hl' : cs'.length = k - 1 := by simp at hk'; omega
        apply ih cs' (k-1) hl hl' (List.pairwise_cons.1 hp).2 (List.pairwise_cons.1 hp').2
        simp only [prank] at h; omega
      · have := prank_head_lt c' c cs' cs k hk' hp' hgt
        omega

/-- `prank` is injective on strictly descending tuples of the same length -/
theorem prank_inj : ∀ (l l' : List Nat) (k : Nat), l.length = k → l'.length = k →
    l.Pairwise (· > ·) → l'.Pairwise (· > ·) → prank k l = prank k l' → l = l' := by
  intro l
  induction l with
  | nil =>
    intro l' k hk hk' _ _ _
    subst hk
    exact (List.eq_nil_of_length_eq_zero hk').symm
  | cons c cs ih =>
    intro l' k hk hk' hp hp' h
    cases l' with
    | nil => simp at hk'; subst hk'; simp at hk
    | cons c' cs' =>
      rcases Nat.lt_trichotomy c c' with hlt | heq | hgt
      · have := prank_head_lt c c' cs cs' k hk hp hlt; omega
      · subst heq
        have hl : cs.length = k - 1 := by simp at hk; omega
        have hl' : cs'.length = k - 1 := by simp at hk'; omega
        have := ih cs' (k-1) hl hl' (List.pairwise_cons.1 hp).2 (List.pairwise_cons.1 hp').2
          (by simp only [prank] at h; omega)
        rw [this]
      · have := prank_head_lt c' c cs' cs k hk' hp' hgt; omega

/-- casting to `Int` preserves the lexicographic order -/
theorem lex_map_cast : ∀ (l l' : List Nat), List.Lex (· < ·) l l' →
    List.Lex (· < ·) (l.map (fun (c : Nat) => (c : Int))) (l'.map (fun (c : Nat) => (c : Int))) := by
  intro l l' h
  induction h with
  | nil => exact List.Lex.nil
  | rel h => exact List.Lex.rel (by show ((_ : Nat) : Int) < ((_ : Nat) : Int); exact_mod_cast h)
  | cons _ ih => exact List.Lex.cons ih

/-- the readable rank on integer tuples: the head (largest element) of a `k`-tuple is position
    `k`, the last element position `1`:  `rank [c_k, …, c_1] = Σ_i C(c_i, i)` -/
def rank : List Int → Nat
  | [] => 0
  | c :: cs => c.toNat.choose (cs.length + 1) + rank cs

theorem rank_map_cast (l : List Nat) :
    rank (l.map (fun (c : Nat) => (c : Int))) = prank l.length l := by
  induction l with
  | nil => rfl
  | cons c cs ih => simp [rank, prank, ih]

/-- a list of non-negative integers is the cast of a list of naturals -/
theorem exists_nat_list (c : List Int) (h : ∀ x ∈ c, 0 ≤ x) :
    c = (c.map Int.toNat).map (fun (c : Nat) => (c : Int)) := by
  induction c with
  | nil => rfl
  | cons a as ih =>
    have ha : 0 ≤ a := h a (by simp)
    have := ih (fun x hx => h x (List.mem_cons_of_mem _ hx))
    simp only [List.map_cons]
    rw [← this, Int.toNat_of_nonneg ha]

theorem pairwise_map_cast (l : List Nat) :
    (l.map (fun (c : Nat) => (c : Int))).Pairwise (· > ·) ↔ l.Pairwise (· > ·) := by
  rw [List.pairwise_map]
  constructor <;> intro h <;> exact h.imp (by intro a b hab; omega)

/-- `flatMap` over `range n` of pairwise disjoint duplicate-free lists is duplicate-free -/
theorem nodup_flatMap_range {β : Type} (n : Nat) (f : Nat → List β) (h1 : ∀ i, (f i).Nodup)
    (h2 : ∀ i j, i < j → ∀ x, x ∈ f i → x ∈ f j → False) : ((List.range n).flatMap f).Nodup := by
  rw [List.nodup_flatMap]
  refine ⟨fun i _ => h1 i, ?_⟩
  exact (List.pairwise_lt_range (n := n)).imp (fun {a b} hab => by
    show List.Disjoint (f a) (f b)
    intro x hx hy; exact h2 a b hab x hx hy)

/-- every triple `i > j > l` of `{0..n-1}`, as descending integer tuples -/
def allTriples (n : Nat) : List (List Int) :=
  (List.range n).flatMap fun (i : Nat) => (List.range i).flatMap fun (j : Nat) =>
    (List.range j).map fun (l : Nat) => [(i : Int), (j : Int), (l : Int)]

theorem mem_allTriples (n : Nat) (t : List Int) :
    t ∈ allTriples n ↔ ∃ i j l : Nat, t = [(i : Int), (j : Int), (l : Int)] ∧ l < j ∧ j < i ∧ i < n := by
  unfold allTriples
  simp only [List.mem_flatMap, List.mem_map, List.mem_range]
  constructor
  · rintro ⟨i, hi, j, hj, l, hl, rfl⟩; exact ⟨i, j, l, rfl, hl, hj, hi⟩
  · rintro ⟨i, j, l, rfl, hl, hj, hi⟩; exact ⟨i, hi, j, hj, l, hl, rfl⟩

theorem nodup_allTriples (n : Nat) : (allTriples n).Nodup := by
  unfold allTriples
  apply nodup_flatMap_range
  · intro i
    apply nodup_flatMap_range
    · intro j
      apply List.Nodup.map_on _ List.nodup_range
      intro a _ b _ h
      simpa using h
    · intro j j' hjj x hx hx'
      simp only [List.mem_map, List.mem_range] at hx hx'
      obtain ⟨l, _, rfl⟩ := hx
      obtain ⟨l', _, h⟩ := hx'
      simp at h; omega
  · intro i i' hii x hx hx'
    simp only [List.mem_flatMap, List.mem_map, List.mem_range] at hx hx'
    obtain ⟨j, _, l, _, rfl⟩ := hx
    obtain ⟨j', _, l', _, h⟩ := hx'
    simp at h; omega

end Batchie.Lemmas.Unrank
