/-
  C11 helper lemmas, part 6: relabelling rows (`setPlates`, `clearMask`) and the PlatePermutationPlateGenerator.
-/
import Batchie.Lemmas.PrepWrap
namespace Batchie.Prep
open Batchie.Proto Batchie.Screen

theorem setPlates_length (rows : List Row) (pn : List Name) (h : pn.length = rows.length) :
    (setPlates rows pn).length = rows.length := by
  simp [setPlates, h]

theorem setPlates_fields (rows : List Row) (pn : List Name) (h : pn.length = rows.length) :
    (setPlates rows pn).map Row.exp = rows.map Row.exp ∧ (setPlates rows pn).map (·.mask) = rows.map (·.mask) ∧
      (setPlates rows pn).map (·.plate) = pn ∧ (setPlates rows pn).map (·.sample) = rows.map (·.sample) := by
  induction rows generalizing pn with
  | nil => cases pn <;> simp_all [setPlates]
  | cons r rows ih =>
    cases pn with
    | nil => simp at h
    | cons p pn =>
      have h' : pn.length = rows.length := by simpa using h
      obtain ⟨i1, i2, i3, i4⟩ := ih pn h'
      simp only [setPlates, List.zipWith_cons_cons, List.map_cons] at *
      exact ⟨by rw [i1]; rfl, by rw [i2], by rw [i3], by rw [i4]⟩

theorem setPlates_unlabelled (rows : List Row) (pn : List Name) (h : pn.length = rows.length) :
    (setPlates rows pn).map unlabelled = rows.map unlabelled := by
  induction rows generalizing pn with
  | nil => cases pn <;> simp_all [setPlates]
  | cons r rows ih =>
    cases pn with
    | nil => simp at h
    | cons p pn =>
      have h' : pn.length = rows.length := by simpa using h
      have := ih pn h'
      simp only [setPlates, List.zipWith_cons_cons, List.map_cons] at *
      rw [this]; rfl

theorem setPlates_mem_mask (rows : List Row) (pn : List Name) (hm : ∀ r ∈ rows, r.mask = false) :
    ∀ r ∈ setPlates rows pn, r.mask = false := by
  intro r hr
  unfold setPlates at hr
  obtain ⟨i, hi, rfl⟩ := List.getElem_of_mem hr
  simp only [List.getElem_zipWith]
  exact hm _ (List.getElem_mem _)

theorem clearMask_fields (rows : List Row) :
    (clearMask rows).map Row.exp = rows.map Row.exp ∧ (clearMask rows).map (·.plate) = rows.map (·.plate) ∧
      (clearMask rows).map (·.sample) = rows.map (·.sample) ∧ ∀ r ∈ clearMask rows, r.mask = false := by
  unfold clearMask
  refine ⟨by rw [List.map_map]; rfl, by rw [List.map_map]; rfl, by rw [List.map_map]; rfl, ?_⟩
  intro r hr
  obtain ⟨x, _, rfl⟩ := List.mem_map.mp hr
  rfl

theorem clearMask_unlabelled (rows : List Row) (hm : ∀ r ∈ rows, r.mask = false) :
    (clearMask rows).map unlabelled = rows.map unlabelled := by
  unfold clearMask
  rw [List.map_map]
  apply List.map_congr_left
  intro r hr
  simp only [Function.comp, unlabelled, Row.exp]
  rw [hm r hr]

theorem mem_maskFilter {α : Type} {l : List α} {m : List Bool} {a : α} (h : a ∈ maskFilter l m) : a ∈ l :=
  (maskFilter_sublist l m).subset h

/-- **PlatePermutationPlateGenerator** on an all-unobserved screen: experiments and masks conserved; the plate labels
    of the output are a permutation of the plate labels of the input -/
theorem genPermutation_spec {force perm : List Name} {u nu : Screen} (h : genPermutation force perm u = .ok nu)
    (hm : ∀ r ∈ rowsOf u, r.mask = false) :
    ((rowsOf nu).map unlabelled).Perm ((rowsOf u).map unlabelled) ∧ (∀ r ∈ rowsOf nu, r.mask = false) ∧
      ((rowsOf nu).map (·.plate)).Perm ((rowsOf u).map (·.plate)) := by
  unfold genPermutation at h
  simp only at h
  generalize hsel : (if force.isEmpty = true then List.map (fun _ => true) (rowsOf u)
      else List.map (fun r => !force.contains r.plate) (rowsOf u)) = sel at h
  have hsl : sel.length = (rowsOf u).length := by
    rw [← hsel]; split <;> simp
  obtain ⟨tp, htp, h⟩ := bind_ok h
  have Btp := select_ok htp
  rw [Btp.rows_eq] at h
  split at h
  · cases h
  rename_i hperm
  have hperm' : perm.Perm ((maskFilter (rowsOf u) sel).map (·.plate)) := by
    rw [← List.isPerm_iff]; simpa using hperm
  have hpl : perm.length = (maskFilter (rowsOf u) sel).length := by rw [hperm'.length_eq]; simp
  obtain ⟨pm, hpm, h⟩ := bind_ok h
  have Bpm := build_ok hpm
  have hmtp : ∀ r ∈ maskFilter (rowsOf u) sel, r.mask = false := fun r hr => hm r (mem_maskFilter hr)
  have e1 : (rowsOf pm).map unlabelled = (maskFilter (rowsOf u) sel).map unlabelled := by
    rw [Bpm.rows_eq, clearMask_unlabelled _ (setPlates_mem_mask _ _ hmtp), setPlates_unlabelled _ _ hpl]
  have e2 : ∀ r ∈ rowsOf pm, r.mask = false := by rw [Bpm.rows_eq]; exact (clearMask_fields _).2.2.2
  have e3 : ((rowsOf pm).map (·.plate)).Perm ((maskFilter (rowsOf u) sel).map (·.plate)) := by
    rw [Bpm.rows_eq, (clearMask_fields _).2.1, (setPlates_fields _ _ hpl).2.2.1]; exact hperm'
  split at h
  · obtain ⟨np, hnp, h⟩ := bind_ok h
    have Bnp := select_ok hnp
    have Bc := combine_ok h
    rw [Bc.rows_eq, Bnp.rows_eq]
    refine ⟨?_, ?_, ?_⟩
    · rw [List.map_append, e1, ← List.map_append]
      exact (maskFilter_perm_split _ _ hsl).map _
    · intro r hr
      rcases List.mem_append.mp hr with hr | hr
      · exact e2 r hr
      · exact hm r (mem_maskFilter hr)
    · rw [List.map_append]
      refine (List.Perm.append_right _ e3).trans ?_
      rw [← List.map_append]
      exact (maskFilter_perm_split _ _ hsl).map _
  · rename_i hall
    cases h
    have hall' : ∀ b ∈ sel, b = true := by simpa using hall
    have hfull : maskFilter (rowsOf u) sel = rowsOf u := by
      have hs : sel = (rowsOf u).map (fun _ => true) := by
        apply List.ext_getElem (by simpa using hsl)
        intro i h1 h2
        simp [hall' _ (List.getElem_mem h1)]
      rw [hs, maskFilter_map_pred]; simp
    rw [hfull] at e1 e3
    exact ⟨e1 ▸ List.Perm.refl _, e2, e3⟩

end Batchie.Prep
