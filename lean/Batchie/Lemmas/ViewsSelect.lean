/-
  C14 helper lemmas added by the audit: `select_unique_zipped_numpy_arrays` on the per-slot id columns that
  `filter_dataset_to_unique_treatments` builds gives the same mask as the model's unique filter on (sample id, id row) keys.
-/
import Batchie.Lemmas.ViewsExpr

namespace Batchie.Views
open Batchie.Proto Batchie.Screen

theorem Forall₂.exists_of_mem_right {α β : Type} {R : α → β → Prop} {l₁ : List α} {l₂ : List β} (hr : Forall₂ R l₁ l₂) (b : β) (hb : b ∈ l₂) :
    ∃ a, a ∈ l₁ ∧ R a b := by
  induction hr with
  | nil => cases hb
  | cons hab _ ih =>
    rcases List.mem_cons.mp hb with rfl | hb'
    · exact ⟨_, by simp, hab⟩
    · obtain ⟨a, ha, h⟩ := ih hb'
      exact ⟨a, by simp [ha], h⟩

theorem uniqueMaskGo_map_inj {α β : Type} [BEq α] [LawfulBEq α] [BEq β] [LawfulBEq β] (f : α → β)
    (hf : ∀ a b, f a = f b → a = b) (seen ks : List α) :
    uniqueMaskGo (seen.map f) (ks.map f) = uniqueMaskGo seen ks := by
  induction ks generalizing seen with
  | nil => rfl
  | cons k ks ih =>
    have hc : (seen.map f).contains (f k) = seen.contains k := by
      rw [Bool.eq_iff_iff]
      simp only [List.contains_eq_mem, List.mem_map, decide_eq_true_eq]
      constructor
      · rintro ⟨a, ha, hfa⟩; rw [← hf _ _ hfa]; exact ha
      · intro h; exact ⟨k, h, rfl⟩
    simp only [List.map_cons, uniqueMaskGo, hc]
    split
    · rw [ih seen]
    · rw [← ih (k :: seen)]; rfl

/-- the unique mask only depends on which rows are equal: an injective re-encoding of the keys does not change it -/
theorem uniqueMask_map_inj {α β : Type} [BEq α] [LawfulBEq α] [BEq β] [LawfulBEq β] (f : α → β)
    (hf : ∀ a b, f a = f b → a = b) (ks : List α) : uniqueMask (ks.map f) = uniqueMask ks :=
  uniqueMaskGo_map_inj f hf [] ks

/-- zipping the sample-id column with the per-slot columns of an id table gives the rows `sid :: id row` -/
theorem zipColumns_uniq (sids : List Int) (tids : List (List Int)) (a : Nat) (hl : tids.length = sids.length)
    (hrow : ∀ row ∈ tids, row.length = a) :
    zipColumns (sids :: (List.range a).map (fun j => column tids j)) sids.length = (sids.zip tids).map (fun p => p.1 :: p.2) := by
  apply List.ext_getElem
  · simp [zipColumns, hl]
  · intro i h1 h2
    have hi : i < sids.length := by simpa [zipColumns] using h1
    have hi' : i < tids.length := by rw [hl]; exact hi
    simp only [zipColumns, List.getElem_map, List.getElem_range, List.map_cons, List.map_map, List.getElem_zip]
    congr 1
    · exact getElem!_pos sids i hi
    · apply List.ext_getElem
      · simp [hrow _ (List.getElem_mem hi')]
      · intro j hj1 hj2
        have hj : j < a := by simpa using hj1
        have hjr : j < tids[i].length := by rw [hrow _ (List.getElem_mem hi')]; exact hj
        simp only [List.getElem_map, List.getElem_range, Function.comp, column]
        rw [getElem!_pos (tids.map (fun r => r[j]!)) i (by simpa using hi')]
        simp only [List.getElem_map]
        exact getElem!_pos tids[i] j hjr

theorem length_maskFilter_le {α : Type} (xs : List α) (sel : List Bool) : (maskFilter xs sel).length ≤ xs.length := by
  induction xs generalizing sel with
  | nil => cases sel <;> simp [maskFilter]
  | cons x xs ih =>
    cases sel with
    | nil => simp [maskFilter]
    | cons b bs =>
      cases b
      · simp only [maskFilter, Bool.false_eq_true, if_false, List.length_cons]; have := ih bs; omega
      · simp only [maskFilter, if_true, List.length_cons]; have := ih bs; omega

theorem mem_maskFilter {α : Type} (xs : List α) (sel : List Bool) (x : α) (h : x ∈ maskFilter xs sel) : x ∈ xs := by
  induction xs generalizing sel with
  | nil => cases sel <;> simp [maskFilter] at h
  | cons y ys ih =>
    cases sel with
    | nil => simp [maskFilter] at h
    | cons b bs =>
      cases b
      · simp only [maskFilter, Bool.false_eq_true, if_false] at h; exact List.mem_cons_of_mem _ (ih bs h)
      · simp only [maskFilter, if_true, List.mem_cons] at h
        rcases h with rfl | h
        · exact List.mem_cons_self
        · exact List.mem_cons_of_mem _ (ih bs h)

/-- **the code path of `filter_dataset_to_unique_treatments`** — `select_unique_zipped_numpy_arrays([sample_ids] +
    [treatment_ids[:, j] for j in range(arity)])` on the rows of a view — succeeds and yields exactly the model's mask on
    the (sample id, treatment-id row) keys -/
theorem selectUnique_uniqColumns (s : Screen) (sel : List Bool) (hs : sel.length = s.sids.length) (ht : sel.length = s.tids.length)
    (hrow : ∀ row ∈ s.tids, row.length = s.arity) :
    selectUnique (uniqColumns s sel) = .ok (uniqueMask (uniqKeys s sel)) := by
  have hl : (maskFilter s.tids sel).length = (maskFilter s.sids sel).length := by
    rw [length_maskFilter _ _ ht.symm, length_maskFilter _ _ hs.symm]
  have hrow' : ∀ row ∈ maskFilter s.tids sel, row.length = s.arity := fun row h => hrow row (mem_maskFilter _ _ _ h)
  have hany : ((List.range s.arity).map (fun j => column (maskFilter s.tids sel) j)).any
      (fun x => x.length != (maskFilter s.sids sel).length) = false := by
    rw [List.any_eq_false]
    intro x hx
    obtain ⟨j, _, rfl⟩ := List.mem_map.mp hx
    simp [column, hl]
  simp only [selectUnique, uniqColumns, hany, Bool.false_eq_true, if_false]
  rw [zipColumns_uniq _ _ s.arity hl hrow', uniqKeys]
  congr 1
  exact uniqueMask_map_inj (fun p : Int × List Int => p.1 :: p.2)
    (fun a b h => by
      obtain ⟨a1, a2⟩ := a; obtain ⟨b1, b2⟩ := b
      simp only [List.cons.injEq] at h
      rw [h.1, h.2]) _

end Batchie.Views
