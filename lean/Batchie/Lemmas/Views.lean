/-
  C14 helper lemmas, part 1: boolean-mask indexing, scatter, union, complement.
-/
import Batchie.Model.ViewExpr

namespace Batchie.Views
open Batchie.Proto Batchie.Screen

/-! ### `maskFilter` (`arr[mask]`) -/

@[simp] theorem maskFilter_nil_left {α : Type} (m : List Bool) : maskFilter ([] : List α) m = [] := by
  cases m <;> rfl

@[simp] theorem maskFilter_nil_right {α : Type} (xs : List α) : maskFilter xs [] = [] := by
  cases xs <;> rfl

@[simp] theorem maskFilter_cons_true {α : Type} (a : α) (xs : List α) (m : List Bool) :
    maskFilter (a :: xs) (true :: m) = a :: maskFilter xs m := by simp [maskFilter]

@[simp] theorem maskFilter_cons_false {α : Type} (a : α) (xs : List α) (m : List Bool) :
    maskFilter (a :: xs) (false :: m) = maskFilter xs m := by simp [maskFilter]

theorem length_maskFilter {α : Type} (xs : List α) (m : List Bool) (h : xs.length = m.length) :
    (maskFilter xs m).length = m.count true := by
  induction xs generalizing m with
  | nil => cases m with
    | nil => rfl
    | cons b m => simp at h
  | cons a xs ih =>
    cases m with
    | nil => simp at h
    | cons b m =>
      have h' : xs.length = m.length := by simpa using h
      cases b <;> simp [ih m h']

theorem maskFilter_map {α β : Type} (f : α → β) (xs : List α) (m : List Bool) :
    maskFilter (xs.map f) m = (maskFilter xs m).map f := by
  induction xs generalizing m with
  | nil => simp
  | cons a xs ih =>
    cases m with
    | nil => simp
    | cons b m => cases b <;> simp [ih]

theorem maskFilter_zip {α β : Type} (xs : List α) (ys : List β) (m : List Bool) :
    maskFilter (xs.zip ys) m = (maskFilter xs m).zip (maskFilter ys m) := by
  induction xs generalizing ys m with
  | nil => simp
  | cons a xs ih =>
    cases ys with
    | nil => simp
    | cons y ys =>
      cases m with
      | nil => simp
      | cons b m => cases b <;> simp [ih]

theorem maskFilter_sublist {α : Type} (xs : List α) (m : List Bool) : (maskFilter xs m).Sublist xs := by
  induction xs generalizing m with
  | nil => simp
  | cons a xs ih =>
    cases m with
    | nil => simp
    | cons b m =>
      cases b
      · simp only [maskFilter_cons_false]; exact (ih m).cons a
      · simp only [maskFilter_cons_true]; exact (ih m).cons_cons a

theorem mem_of_mem_maskFilter {α : Type} {xs : List α} {m : List Bool} {a : α} (h : a ∈ maskFilter xs m) : a ∈ xs :=
  (maskFilter_sublist xs m).subset h

/-- `arr[mask]` is the list of `arr`'s entries paired with a `true`, in order -/
theorem maskFilter_eq_zip_filter {α : Type} (xs : List α) (m : List Bool) :
    maskFilter xs m = ((xs.zip m).filter (·.2)).map (·.1) := by
  induction xs generalizing m with
  | nil => simp
  | cons a xs ih =>
    cases m with
    | nil => simp
    | cons b m => cases b <;> simp [ih]

theorem maskFilter_all_true {α : Type} (xs : List α) : maskFilter xs (List.replicate xs.length true) = xs := by
  induction xs with
  | nil => rfl
  | cons a xs ih => simp [List.replicate_succ, ih]

theorem maskFilter_all_false {α : Type} (xs : List α) (n : Nat) : maskFilter xs (List.replicate n false) = [] := by
  induction xs generalizing n with
  | nil => simp
  | cons a xs ih => cases n <;> simp [List.replicate_succ, ih]

/-! ### selected positions -/

theorem selIdxFrom_shift (k : Nat) (m : List Bool) : selIdxFrom k m = (selIdxFrom 0 m).map (· + k) := by
  induction m generalizing k with
  | nil => rfl
  | cons b m ih =>
    cases b
    · simp only [selIdxFrom]
      rw [ih (k + 1), ih (0 + 1)]
      simp only [List.map_map]
      apply List.map_congr_left; intro i _; simp only [Function.comp]; omega
    · simp only [selIdxFrom, List.map_cons]
      rw [ih (k + 1), ih (0 + 1)]
      simp only [List.map_map]
      congr 1
      · omega
      · apply List.map_congr_left; intro i _; simp only [Function.comp]; omega

theorem selIdx_cons (b : Bool) (m : List Bool) :
    selIdx (b :: m) = (if b then [0] else []) ++ (selIdx m).map (· + 1) := by
  cases b <;> simp [selIdx, selIdxFrom, selIdxFrom_shift 1 m]

theorem length_selIdx (m : List Bool) : (selIdx m).length = m.count true := by
  induction m with
  | nil => rfl
  | cons b m ih => cases b <;> simp [selIdx_cons, ih]

/-- the selected positions are exactly the positions holding `true` -/
theorem mem_selIdx (m : List Bool) (i : Nat) : i ∈ selIdx m ↔ m[i]? = some true := by
  induction m generalizing i with
  | nil => simp [selIdx, selIdxFrom]
  | cons b m ih =>
    rw [selIdx_cons]
    cases i with
    | zero => cases b <;> simp
    | succ i =>
      cases b <;> simp [ih i]

/-- …listed in strictly ascending (parent) order -/
theorem selIdx_sorted (m : List Bool) : (selIdx m).Pairwise (· < ·) := by
  induction m with
  | nil => simp [selIdx, selIdxFrom]
  | cons b m ih =>
    rw [selIdx_cons]
    have h2 : ((selIdx m).map (· + 1)).Pairwise (· < ·) := by
      rw [List.pairwise_map]; exact ih.imp (fun h => by omega)
    cases b
    · simpa using h2
    · simp only [if_true, List.singleton_append, List.pairwise_cons]
      refine ⟨?_, h2⟩
      intro a ha
      obtain ⟨j, _, rfl⟩ := List.mem_map.mp ha
      omega

/-- **`arr[mask]` = the parent's entries at the selected positions, in parent order** -/
theorem maskFilter_eq_selIdx {α : Type} (xs : List α) (m : List Bool) (h : xs.length = m.length) :
    (maskFilter xs m).map some = (selIdx m).map (fun i => xs[i]?) := by
  induction xs generalizing m with
  | nil => cases m with
    | nil => rfl
    | cons b m => simp at h
  | cons a xs ih =>
    cases m with
    | nil => simp at h
    | cons b m =>
      have h' : xs.length = m.length := by simpa using h
      rw [selIdx_cons]
      cases b
      · simp only [maskFilter_cons_false, ih m h', Bool.false_eq_true, if_false, List.nil_append, List.map_map]
        apply List.map_congr_left; intro i _; simp
      · simp only [maskFilter_cons_true, List.map_cons, ih m h', if_true, List.singleton_append, List.map_map]
        congr 1

/-! ### `scatter` (nested subsetting) -/

theorem length_scatter (o i : List Bool) : (scatter o i).length = o.length := by
  induction o generalizing i with
  | nil => cases i <;> rfl
  | cons b o ih =>
    cases b
    · simp [scatter, ih]
    · cases i <;> simp [scatter, ih]

/-- **composition of selections**: indexing with the scattered mask is indexing twice -/
theorem maskFilter_scatter {α : Type} (xs : List α) (o i : List Bool) (h : i.length = o.count true) :
    maskFilter xs (scatter o i) = maskFilter (maskFilter xs o) i := by
  induction o generalizing xs i with
  | nil => cases i <;> simp [scatter]
  | cons b o ih =>
    cases xs with
    | nil => simp
    | cons a xs =>
      cases b
      · simp only [scatter, maskFilter_cons_false]
        exact ih xs i (by simpa using h)
      · cases i with
        | nil => simp at h
        | cons c i =>
          have h' : i.length = o.count true := by simpa using h
          cases c <;> simp [scatter, ih xs i h']

theorem count_scatter (o i : List Bool) (h : i.length = o.count true) : (scatter o i).count true = i.count true := by
  have h1 := maskFilter_scatter (List.replicate o.length ()) o i h
  have h2 := congrArg List.length h1
  rw [length_maskFilter _ _ (by simp [length_scatter]), length_maskFilter _ _ (by rw [length_maskFilter _ _ (by simp)]; exact h.symm)] at h2
  exact h2

/-- a row is in the nested subset iff it is in the outer view and the inner mask selects its rank within the outer view -/
theorem scatter_getElem? (o i : List Bool) (h : i.length = o.count true) (k : Nat) (hk : k < o.length) :
    (scatter o i)[k]? = some (o[k] && (i[(o.take k).count true]?).getD false) := by
  induction o generalizing i k with
  | nil => simp at hk
  | cons b o ih =>
    cases b
    · cases k with
      | zero => simp [scatter]
      | succ k =>
        simp only [scatter, List.getElem?_cons_succ, List.getElem_cons_succ, List.take_succ_cons]
        rw [ih i (by simpa using h) k (by simpa using hk)]
        simp
    · cases i with
      | nil => simp at h
      | cons c i =>
        have h' : i.length = o.count true := by simpa using h
        cases k with
        | zero => simp [scatter]
        | succ k =>
          simp only [scatter, List.getElem?_cons_succ, List.getElem_cons_succ, List.take_succ_cons]
          rw [ih i h' k (by simpa using hk)]
          simp

/-- the nested subset only ever selects rows of the outer view -/
theorem scatter_le (o i : List Bool) (h : i.length = o.count true) (k : Nat) (hk : (scatter o i)[k]? = some true) :
    o[k]? = some true := by
  have hk' : k < o.length := by
    have := (List.getElem?_eq_some_iff.mp hk).1
    rwa [length_scatter] at this
  rw [scatter_getElem? o i h k hk'] at hk
  simp only [Option.some.injEq, Bool.and_eq_true] at hk
  rw [List.getElem?_eq_getElem hk', hk.1]

/-! ### union and complement -/

theorem length_orSel (a b : List Bool) (h : a.length = b.length) : (orSel a b).length = a.length := by
  simp [orSel, h]

theorem orSel_getElem? (a b : List Bool) (k : Nat) :
    (orSel a b)[k]? = (a[k]?).bind fun x => (b[k]?).map fun y => (x || y) := by
  simp only [orSel, List.getElem?_zipWith]
  cases a[k]? <;> cases b[k]? <;> simp

/-- membership semantics of `combine`: a row is selected iff it is selected by one of the operands -/
theorem orSel_true_iff (a b : List Bool) (h : a.length = b.length) (k : Nat) :
    (orSel a b)[k]? = some true ↔ (a[k]? = some true ∨ b[k]? = some true) := by
  rw [orSel_getElem?]
  by_cases hk : k < a.length
  · have hk' : k < b.length := h ▸ hk
    rw [List.getElem?_eq_getElem hk, List.getElem?_eq_getElem hk']
    simp
  · rw [List.getElem?_eq_none (by omega), List.getElem?_eq_none (by omega)]
    simp

theorem orSel_comm (a b : List Bool) : orSel a b = orSel b a := by
  simp only [orSel]
  rw [List.zipWith_comm]
  congr 1; funext x y; exact Bool.or_comm y x

theorem orSel_self (a : List Bool) : orSel a a = a := by
  induction a with
  | nil => rfl
  | cons x a ih => simp only [orSel, List.zipWith_cons_cons, Bool.or_self] at ih ⊢; rw [ih]

theorem not_getElem? (a : List Bool) (k : Nat) : (a.map (!·))[k]? = (a[k]?).map (!·) := by simp

theorem not_not_sel (a : List Bool) : (a.map (!·)).map (!·) = a := by
  induction a with
  | nil => rfl
  | cons x a ih => simp only [List.map_cons, Bool.not_not, ih]

/-- a selection and its complement split every attribute of the parent: together they are a permutation of it -/
theorem maskFilter_compl_perm {α : Type} (xs : List α) (m : List Bool) (h : xs.length = m.length) :
    (maskFilter xs m ++ maskFilter xs (m.map (!·))).Perm xs := by
  induction xs generalizing m with
  | nil => simp
  | cons a xs ih =>
    cases m with
    | nil => simp at h
    | cons b m =>
      have h' : xs.length = m.length := by simpa using h
      cases b
      · simp only [maskFilter_cons_false, List.map_cons, Bool.not_false, maskFilter_cons_true]
        exact (List.perm_middle).trans ((ih m h').cons a)
      · simp only [maskFilter_cons_true, List.map_cons, Bool.not_true, maskFilter_cons_false, List.cons_append]
        exact (ih m h').cons a

theorem count_not (m : List Bool) : (m.map (!·)).count true = m.length - m.count true := by
  induction m with
  | nil => rfl
  | cons b m ih =>
    have := List.count_le_length (a := true) (l := m)
    cases b <;> simp [ih] <;> omega

end Batchie.Views
