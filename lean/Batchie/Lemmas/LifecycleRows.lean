/-
  Row-level reading of a constructed screen: every treatment id is the (unique) hit of the cell's
  (name, dose) in the screen's treatment mapping, every sample id the hit of the sample name in the
  sample mapping.  This is what "ids are lookups in ONE table" means for C03.
-/
import Batchie.Lemmas.LifecyclePersist

namespace Batchie.Lifecycle
open Batchie.Proto Batchie.Screen

theorem length_le_flatten {β : Type} : ∀ (L : List (List β)), (∀ x ∈ L, x ≠ []) → L.length ≤ L.flatten.length
  | [], _ => by simp
  | x :: t, h => by
    have hx : 0 < x.length := List.length_pos_iff.2 (h x List.mem_cons_self)
    have := length_le_flatten t (fun y hy => h y (List.mem_cons_of_mem _ hy))
    simp only [List.length_cons, List.flatten_cons, List.length_append]
    omega

/-- if no list is empty and the concatenation is as long as the number of lists, every list is a singleton -/
theorem all_singleton {β : Type} : ∀ (L : List (List β)), (∀ x ∈ L, x ≠ []) → L.flatten.length = L.length →
    ∀ x ∈ L, x.length = 1
  | [], _, _ => by simp
  | x :: t, h, hl => by
    have hx : 0 < x.length := List.length_pos_iff.2 (h x List.mem_cons_self)
    have ht := length_le_flatten t (fun y hy => h y (List.mem_cons_of_mem _ hy))
    simp only [List.length_cons, List.flatten_cons, List.length_append] at hl
    intro y hy
    rcases List.mem_cons.1 hy with rfl | hy
    · omega
    · exact all_singleton t (fun z hz => h z (List.mem_cons_of_mem _ hz)) (by omega) y hy

theorem eq_singleton_headD {β : Type} (d : β) (l : List β) (h : l.length = 1) : l = [l.headD d] := by
  match l, h with
  | [a], _ => rfl

theorem flatMap_column_getElem? {α : Type} [Inhabited α] (rows : List (List α)) (a c r : Nat) (hc : c < a)
    (hr : r < rows.length) :
    ((List.range a).flatMap (fun i => column rows i))[c * rows.length + r]? = some ((rows[r]!)[c]!) := by
  induction a with
  | zero => omega
  | succ a ih =>
    rw [List.range_succ, List.flatMap_append]
    have hlen : ((List.range a).flatMap (fun i => column rows i)).length = a * rows.length := by
      clear ih hc
      induction a with
      | zero => simp
      | succ a ih2 =>
        rw [List.range_succ, List.flatMap_append, List.length_append, ih2]
        simp [column, Nat.succ_mul]
    by_cases hca : c < a
    · have hlt : c * rows.length + r < a * rows.length := by
        have : (c + 1) * rows.length ≤ a * rows.length := Nat.mul_le_mul_right _ hca
        rw [Nat.succ_mul] at this
        omega
      rw [List.getElem?_append_left (by rw [hlen]; exact hlt)]
      exact ih hca
    · have hce : c = a := by omega
      subst hce
      rw [List.getElem?_append_right (by rw [hlen]; omega), hlen]
      simp only [Nat.add_sub_cancel_left, List.flatMap_cons, List.flatMap_nil, List.append_nil]
      simp [column, hr]

theorem cellsOf_getElem? (ar : Nat) (tn : List (List Name)) (td : List (List Dose)) (hl : td.length = tn.length)
    (c r : Nat) (hc : c < ar) (hr : r < tn.length) :
    (cellsOf ar tn td)[c * tn.length + r]? = some ((tn[r]!)[c]!, (td[r]!)[c]!) := by
  unfold cellsOf
  rw [List.getElem?_zip_eq_some]
  refine ⟨flatMap_column_getElem? tn ar c r hc hr, ?_⟩
  have := flatMap_column_getElem? td ar c r hc (by rw [hl]; exact hr)
  rw [hl] at this
  exact this

theorem unflattenColumns_get (tf : List Int) (n a r c : Nat) (hr : r < n) (hc : c < a) :
    ((unflattenColumns tf n a)[r]!)[c]! = tf[c * n + r]! := by
  simp [unflattenColumns, hr, hc]

/-- every id of a constructed screen is the unique hit of its name in the screen's own table -/
structure RowsEncoded (s : Screen) : Prop where
  treat : ∀ r c, r < s.tnames.length → c < s.arity →
    tLookup s.tmap ((s.tnames[r]!)[c]!, (s.tdoses[r]!)[c]!) = [(s.tids[r]!)[c]!]
  sample : ∀ r, r < s.snames.length → sLookup s.smap (s.snames[r]!) = [s.sids[r]!]

theorem rowsEncoded_of_wf {s : Screen} (h : WF s) : RowsEncoded s := by
  constructor
  · intro r c hr hc
    obtain ⟨tf, hte, hlen, htids⟩ := h.tenc
    unfold encodeTreatments at hte
    simp only at hte
    split at hte
    · cases hte
    rename_i g
    injection hte with hte
    injection hte with htf _
    simp only [Bool.not_eq_true, List.any_eq_false, List.mem_map, forall_exists_index, and_imp,
      forall_apply_eq_imp_iff₂, List.isEmpty_iff] at g
    have hcl := length_cellsOf s.arity s.tnames s.tdoses h.len_td
    have hsing := all_singleton ((cellsOf s.arity s.tnames s.tdoses).map (tLookup s.tmap))
      (by intro x hx; obtain ⟨k, hk, rfl⟩ := List.mem_map.1 hx; exact g k hk)
      (by rw [htf, hlen, List.length_map, hcl, Nat.mul_comm])
    have hall : ∀ k ∈ cellsOf s.arity s.tnames s.tdoses, tLookup s.tmap k = [(tLookup s.tmap k).headD 0] :=
      fun k hk => eq_singleton_headD 0 _ (hsing _ (List.mem_map.2 ⟨k, hk, rfl⟩))
    have hflat := flatten_map_singleton (tLookup s.tmap) (fun k => (tLookup s.tmap k).headD 0) _ hall
    rw [hflat] at htf
    have hcell := cellsOf_getElem? s.arity s.tnames s.tdoses h.len_td c r hc hr
    have hk : ((s.tnames[r]!)[c]!, (s.tdoses[r]!)[c]!) ∈ cellsOf s.arity s.tnames s.tdoses :=
      List.mem_of_getElem? hcell
    rw [hall _ hk, htids, unflattenColumns_get tf _ _ r c hr hc, ← htf]
    simp only [List.getElem!_eq_getElem?_getD, List.getElem?_map, hcell, Option.map_some, Option.getD_some]
  · intro r hr
    have hse := h.senc
    unfold encode1d at hse
    simp only at hse
    split at hse
    · cases hse
    rename_i g
    injection hse with hse
    injection hse with hids _
    simp only [Bool.not_eq_true, List.any_eq_false, List.mem_map, forall_exists_index, and_imp,
      forall_apply_eq_imp_iff₂, List.isEmpty_iff] at g
    have hsing := all_singleton (s.snames.map (sLookup s.smap))
      (by intro x hx; obtain ⟨k, hk, rfl⟩ := List.mem_map.1 hx; exact g k hk)
      (by rw [hids, h.len_sids, List.length_map, h.len_sn])
    have hall : ∀ k ∈ s.snames, sLookup s.smap k = [(sLookup s.smap k).headD 0] :=
      fun k hk => eq_singleton_headD 0 _ (hsing _ (List.mem_map.2 ⟨k, hk, rfl⟩))
    have hflat := flatten_map_singleton (sLookup s.smap) (fun k => (sLookup s.smap k).headD 0) _ hall
    rw [hflat] at hids
    have hk : s.snames[r]! ∈ s.snames := by
      rw [List.getElem!_eq_getElem?_getD, List.getElem?_eq_getElem hr]; exact List.getElem_mem hr
    rw [hall _ hk, ← hids]
    simp [hr]

end Batchie.Lifecycle
