/-
  Sweep-level bookkeeping for C08: the sweep as a composition, which fields each stage leaves alone,
  the visiting order recorded in the log, the clip bounds.
-/
import Mathlib.Tactic.NormNum
import Batchie.Lemmas.GibbsState

namespace Batchie.Gibbs
open Finset

/-- the Gaussian half of the sweep -/
noncomputable def gaussPart (dt : Data ℝ) (ω : Draws ℝ) (st : State ℝ) : State ℝ :=
  v1Step dt ω (v2Step dt ω (wStep dt ω (v0Step dt ω (w0Step dt ω (alphaStep dt (reconstructMu dt st))))))

theorem mcmcStep_eq (dt : Data ℝ) (ω : Draws ℝ) (st : State ℝ) :
    mcmcStep dt ω st = precWStep dt ω (precV1Step dt ω (precV2Step dt ω (precObsStep dt ω
      (precV0Step dt ω (precW0Step dt ω (gaussPart dt ω st)))))) := rfl

/-! ### sites logged by each stage -/

def sitesOf (s : State ℝ) : List Site := s.log.map (·.site)

theorem iter_sites (n : ℕ) (f : ℕ → State ℝ → State ℝ) (mk : ℕ → Site)
    (hf : ∀ i s, sitesOf (f i s) = sitesOf s ++ [mk i]) (s : State ℝ) :
    sitesOf (iter n f s) = sitesOf s ++ (List.range n).map mk := by
  induction n with
  | zero => simp [iter]
  | succ k ih => rw [iter, hf, ih, List.range_succ, List.map_append, List.append_assoc]; rfl

theorem sites_push (s : State ℝ) (r : Rec ℝ) : sitesOf (s.push r) = sitesOf s ++ [r.site] := by
  simp [sitesOf, State.push]

theorem record_site (b : Blk ℝ) (site : Site) (y Mu : ℕ → ℝ) (prec : ℝ) : (b.record site y Mu prec).site = site := by
  unfold Blk.record; split <;> rfl

theorem wNext_log (dt : Data ℝ) (st : State ℝ) (c : ℕ) (v : Option (ℕ → ℝ)) : (wNext dt st c v).log = st.log := by
  cases v with
  | none => rfl
  | some w => unfold wNext; simp only; split <;> rfl

theorem v2Next_log (dt : Data ℝ) (st : State ℝ) (m : ℕ) (v : Option (ℕ → ℝ)) : (v2Next dt st m v).log = st.log := by
  cases v with
  | none => rfl
  | some w => unfold v2Next; simp only; split <;> rfl

theorem v1Next_log (dt : Data ℝ) (st : State ℝ) (m : ℕ) (v : Option (ℕ → ℝ)) : (v1Next dt st m v).log = st.log := by
  cases v with
  | none => rfl
  | some w => unfold v1Next; simp only; split <;> rfl

theorem sites_reconstruct (dt : Data ℝ) (st : State ℝ) : sitesOf (reconstructMu dt st) = sitesOf st := by
  unfold reconstructMu; split <;> rfl

theorem sites_alpha (dt : Data ℝ) (st : State ℝ) : sitesOf (alphaStep dt st) = sitesOf st ++ [Site.alpha] := by
  unfold alphaStep; split <;> simp [sitesOf, State.push]

theorem sites_w0Step (dt : Data ℝ) (ω : Draws ℝ) (st : State ℝ) :
    sitesOf (w0Step dt ω st) = sitesOf st ++ (List.range dt.nC).map Site.W0 :=
  iter_sites _ _ _ (fun c s => by simp [w0Block, sitesOf, w0Next, State.push]) st

theorem sites_v0Step (dt : Data ℝ) (ω : Draws ℝ) (st : State ℝ) :
    sitesOf (v0Step dt ω st) = sitesOf st ++ (List.range dt.nT).map Site.V0 :=
  iter_sites _ _ _ (fun c s => by simp [v0Block, sitesOf, v0Next, State.push]) st

theorem sites_wStep (dt : Data ℝ) (ω : Draws ℝ) (st : State ℝ) :
    sitesOf (wStep dt ω st) = sitesOf st ++ (List.range dt.nC).map Site.W :=
  iter_sites _ _ _ (fun c s => by
    unfold wBlock; rw [sites_push, record_site]; unfold sitesOf; rw [wNext_log]) st

theorem sites_v2Step (dt : Data ℝ) (ω : Draws ℝ) (st : State ℝ) :
    sitesOf (v2Step dt ω st) = sitesOf st ++ (List.range dt.nT).map Site.V2 :=
  iter_sites _ _ _ (fun c s => by
    unfold v2Block; rw [sites_push, record_site]; unfold sitesOf; rw [v2Next_log]) st

theorem sites_v1Step (dt : Data ℝ) (ω : Draws ℝ) (st : State ℝ) :
    sitesOf (v1Step dt ω st) = sitesOf st ++ (List.range dt.nT).map Site.V1 :=
  iter_sites _ _ _ (fun c s => by
    unfold v1Block; rw [sites_push, record_site]; unfold sitesOf; rw [v1Next_log]) st

theorem sites_precW0 (dt : Data ℝ) (ω : Draws ℝ) (st : State ℝ) :
    sitesOf (precW0Step dt ω st) = sitesOf st ++ [Site.tau0] := by
  simp [precW0Step, sitesOf, State.push]

theorem sites_precV0 (dt : Data ℝ) (ω : Draws ℝ) (st : State ℝ) :
    sitesOf (precV0Step dt ω st) = sitesOf st ++ [Site.phi0aux, Site.phi0, Site.eta0aux, Site.eta0] := by
  simp [precV0Step, sitesOf, State.push]

theorem sites_precObs (dt : Data ℝ) (ω : Draws ℝ) (st : State ℝ) :
    sitesOf (precObsStep dt ω st) = sitesOf st ++ [Site.prec] := by
  simp [precObsStep, sitesOf, State.push]

theorem sites_precV2 (dt : Data ℝ) (ω : Draws ℝ) (st : State ℝ) :
    sitesOf (precV2Step dt ω st) = sitesOf st ++ [Site.phi2aux, Site.phi2, Site.eta2aux, Site.eta2] := by
  simp [precV2Step, sitesOf, State.push]

theorem sites_precV1 (dt : Data ℝ) (ω : Draws ℝ) (st : State ℝ) :
    sitesOf (precV1Step dt ω st) = sitesOf st ++ [Site.phi1aux, Site.phi1, Site.eta1aux, Site.eta1] := by
  simp [precV1Step, sitesOf, State.push]

theorem sites_precW (dt : Data ℝ) (ω : Draws ℝ) (st : State ℝ) :
    sitesOf (precWStep dt ω st) = sitesOf st ++ (List.range dt.D).map Site.gam := by
  unfold precWStep
  show sitesOf (iter dt.D (gamBlock dt ω) st) = _
  exact iter_sites _ _ _ (fun c s => by simp [gamBlock, sitesOf, State.push]) st

theorem sites_sweep (dt : Data ℝ) (ω : Draws ℝ) (st : State ℝ) :
    sitesOf (mcmcStep dt ω st) = sitesOf st ++ schedule dt.nC dt.nT dt.D := by
  rw [mcmcStep_eq, sites_precW, sites_precV1, sites_precV2, sites_precObs, sites_precV0, sites_precW0]
  unfold gaussPart
  rw [sites_v1Step, sites_v2Step, sites_wStep, sites_v0Step, sites_w0Step, sites_alpha, sites_reconstruct]
  simp only [schedule, List.append_assoc, List.cons_append, List.nil_append]

theorem schedule_nodup (nC nT D : ℕ) : (schedule nC nT D).Nodup := by
  have inj : ∀ (f : ℕ → Site), Function.Injective f → ∀ n, ((List.range n).map f).Nodup :=
    fun f hf n => (List.nodup_range).map hf
  have h1 := inj Site.W0 (fun a b h => by injection h) nC
  have h2 := inj Site.V0 (fun a b h => by injection h) nT
  have h3 := inj Site.W (fun a b h => by injection h) nC
  have h4 := inj Site.V2 (fun a b h => by injection h) nT
  have h5 := inj Site.V1 (fun a b h => by injection h) nT
  have h6 := inj Site.gam (fun a b h => by injection h) D
  unfold schedule
  simp only [List.nodup_append, List.nodup_cons, List.mem_cons, List.mem_append, List.mem_map, List.mem_range,
    List.not_mem_nil, List.nodup_nil, h1, h2, h3, h4, h5, h6]
  and_intros <;> aesop

/-! ### clip bounds -/

theorem clip_mem (x lo hi : ℝ) (h : lo ≤ hi) : lo ≤ clip x lo hi ∧ clip x lo hi ≤ hi := by
  unfold clip
  exact ⟨le_min (le_max_right x lo) h, min_le_right _ _⟩

theorem big_val : (big : ℝ) = 1000000 := rfl

theorem lowOf_pos_le (n : ℝ) (hn : 0 ≤ n) : 0 < lowOf n ∧ lowOf n ≤ 1 := by
  unfold lowOf
  rw [sqrt_real]
  have h1 : (1 : ℝ) ≤ Real.sqrt (1 + n) := Real.one_le_sqrt.mpr (by linarith)
  have hpos : 0 < Real.sqrt (1 + n) := by linarith
  refine ⟨by positivity, ?_⟩
  rw [div_le_one hpos]; exact h1

theorem lowOf_le_big (n : ℝ) (hn : 0 ≤ n) : lowOf n ≤ (big : ℝ) := by
  have := (lowOf_pos_le n hn).2
  rw [big_val]; linarith

theorem natTo_nonneg (n : ℕ) : (0 : ℝ) ≤ natTo n := by rw [natTo_eq]; exact Nat.cast_nonneg n

theorem occ_nonneg (dt : Data ℝ) (m : ℕ) : 0 ≤ occ dt m := by
  unfold occ
  simp only [sumN_eq]
  apply add_nonneg <;> exact sum_nonneg (fun n _ => by split <;> norm_num)

/-- `x ∈ [1/√(1+n), 10⁶]` -/
def InRange (n x : ℝ) : Prop := lowOf n ≤ x ∧ x ≤ big

theorem clip_inRange (x n : ℝ) (hn : 0 ≤ n) : InRange n (clip x (lowOf n) big) :=
  clip_mem x (lowOf n) big (lowOf_le_big n hn)

theorem inRange_pos (n x : ℝ) (hn : 0 ≤ n) (h : InRange n x) : 0 < x :=
  lt_of_lt_of_le (lowOf_pos_le n hn).1 h.1

/-! ### frames: what the stages leave alone -/

/-- fields the gamma-process loop never writes -/
def SameButGam (s t : State ℝ) : Prop :=
  t.tau0 = s.tau0 ∧ t.eta0 = s.eta0 ∧ t.phi0 = s.phi0 ∧ t.prec = s.prec ∧ t.eta2 = s.eta2 ∧ t.phi2 = s.phi2
    ∧ t.eta1 = s.eta1 ∧ t.phi1 = s.phi1 ∧ t.alpha = s.alpha ∧ t.W = s.W ∧ t.W0 = s.W0 ∧ t.V2 = s.V2 ∧ t.V1 = s.V1
    ∧ t.V0 = s.V0 ∧ t.Mu = s.Mu

theorem gamIter_frame (dt : Data ℝ) (ω : Draws ℝ) (s : State ℝ) (n : ℕ) : SameButGam s (iter n (gamBlock dt ω) s) :=
  iter_induction (SameButGam s) n _ s ⟨rfl, rfl, rfl, rfl, rfl, rfl, rfl, rfl, rfl, rfl, rfl, rfl, rfl, rfl, rfl⟩
    (fun _ _ _ ht => ht)

theorem precW_frame (dt : Data ℝ) (ω : Draws ℝ) (s : State ℝ) : SameButGam s (precWStep dt ω s) :=
  gamIter_frame dt ω s dt.D

theorem wNext_alpha (dt : Data ℝ) (st : State ℝ) (c : ℕ) (v : Option (ℕ → ℝ)) : (wNext dt st c v).alpha = st.alpha := by
  cases v with
  | none => rfl
  | some w => unfold wNext; simp only; split <;> rfl

theorem v2Next_alpha (dt : Data ℝ) (st : State ℝ) (m : ℕ) (v : Option (ℕ → ℝ)) : (v2Next dt st m v).alpha = st.alpha := by
  cases v with
  | none => rfl
  | some w => unfold v2Next; simp only; split <;> rfl

theorem v1Next_alpha (dt : Data ℝ) (st : State ℝ) (m : ℕ) (v : Option (ℕ → ℝ)) : (v1Next dt st m v).alpha = st.alpha := by
  cases v with
  | none => rfl
  | some w => unfold v1Next; simp only; split <;> rfl

theorem gaussPart_alpha (dt : Data ℝ) (ω : Draws ℝ) (st : State ℝ) :
    (gaussPart dt ω st).alpha = (alphaStep dt (reconstructMu dt st)).alpha := by
  unfold gaussPart
  have e5 : ∀ s, (v1Step dt ω s).alpha = s.alpha := fun s =>
    iter_induction (fun t => t.alpha = s.alpha) _ _ s rfl (fun m _ t ht => by
      show (v1Next dt t m (ω.v1 m)).alpha = s.alpha; rw [v1Next_alpha]; exact ht)
  have e4 : ∀ s, (v2Step dt ω s).alpha = s.alpha := fun s =>
    iter_induction (fun t => t.alpha = s.alpha) _ _ s rfl (fun m _ t ht => by
      show (v2Next dt t m (ω.v2 m)).alpha = s.alpha; rw [v2Next_alpha]; exact ht)
  have e3 : ∀ s, (wStep dt ω s).alpha = s.alpha := fun s =>
    iter_induction (fun t => t.alpha = s.alpha) _ _ s rfl (fun m _ t ht => by
      show (wNext dt t m (ω.w m)).alpha = s.alpha; rw [wNext_alpha]; exact ht)
  have e2 : ∀ s, (v0Step dt ω s).alpha = s.alpha := fun s =>
    iter_induction (fun t : State ℝ => t.alpha = s.alpha) dt.nT (v0Block dt ω) s rfl (fun m _ t ht => ht)
  have e1 : ∀ s, (w0Step dt ω s).alpha = s.alpha := fun s =>
    iter_induction (fun t : State ℝ => t.alpha = s.alpha) dt.nC (w0Block dt ω) s rfl (fun m _ t ht => ht)
  rw [e5, e4, e3, e2, e1]

theorem precW0_alpha (dt : Data ℝ) (ω : Draws ℝ) (s : State ℝ) : (precW0Step dt ω s).alpha = s.alpha := rfl
theorem precV0_alpha (dt : Data ℝ) (ω : Draws ℝ) (s : State ℝ) : (precV0Step dt ω s).alpha = s.alpha := rfl
theorem precObs_alpha (dt : Data ℝ) (ω : Draws ℝ) (s : State ℝ) : (precObsStep dt ω s).alpha = s.alpha := rfl
theorem precV2_alpha (dt : Data ℝ) (ω : Draws ℝ) (s : State ℝ) : (precV2Step dt ω s).alpha = s.alpha := rfl
theorem precV1_alpha (dt : Data ℝ) (ω : Draws ℝ) (s : State ℝ) : (precV1Step dt ω s).alpha = s.alpha := rfl
theorem precW_alpha (dt : Data ℝ) (ω : Draws ℝ) (s : State ℝ) : (precWStep dt ω s).alpha = s.alpha :=
  (precW_frame dt ω s).2.2.2.2.2.2.2.2.1

theorem sweep_alpha (dt : Data ℝ) (ω : Draws ℝ) (st : State ℝ) :
    (mcmcStep dt ω st).alpha = (alphaStep dt (reconstructMu dt st)).alpha := by
  rw [mcmcStep_eq, precW_alpha, precV1_alpha, precV2_alpha, precObs_alpha, precV0_alpha, precW0_alpha]
  exact gaussPart_alpha dt ω st

/-- the clip bounds of every precision after a sweep -/
structure InBounds (dt : Data ℝ) (s : State ℝ) : Prop where
  tau0 : InRange (natTo dt.N) s.tau0
  eta0 : InRange (natTo dt.N) s.eta0
  phi0 : ∀ m, InRange (occ dt m) (s.phi0 m)
  prec : dt.N ≠ 0 → InRange (natTo dt.N) s.prec
  eta2 : ∀ d, InRange (natTo dt.N) (s.eta2 d)
  phi2 : ∀ m d, InRange (occ dt m) (s.phi2 m d)
  eta1 : ∀ d, InRange (natTo dt.N) (s.eta1 d)
  phi1 : ∀ m d, InRange (occ dt m) (s.phi1 m d)
  tau : ∀ d, InRange (natTo dt.N) (s.tau d)

theorem sweep_inBounds (dt : Data ℝ) (ω : Draws ℝ) (st : State ℝ) : InBounds dt (mcmcStep dt ω st) := by
  rw [mcmcStep_eq]
  obtain ⟨f1, f2, f3, f4, f5, f6, f7, f8, -⟩ := precW_frame dt ω (precV1Step dt ω (precV2Step dt ω (precObsStep dt ω
      (precV0Step dt ω (precW0Step dt ω (gaussPart dt ω st))))))
  have hN := natTo_nonneg dt.N
  constructor
  · rw [f1]; exact clip_inRange _ _ hN
  · rw [f2]; exact clip_inRange _ _ hN
  · intro m; rw [f3]; exact clip_inRange _ _ (occ_nonneg dt m)
  · intro h; rw [f4]
    show InRange _ (if dt.N = 0 then ω.prec else clip ω.prec (lowOf (natTo dt.N)) big)
    rw [if_neg h]; exact clip_inRange _ _ hN
  · intro d; rw [f5]; exact clip_inRange _ _ hN
  · intro m d; rw [f6]; exact clip_inRange _ _ (occ_nonneg dt m)
  · intro d; rw [f7]; exact clip_inRange _ _ hN
  · intro m d; rw [f8]; exact clip_inRange _ _ (occ_nonneg dt m)
  · intro d; exact clip_inRange _ _ hN

end Batchie.Gibbs
