/-
  C19 -- the directory the script names as incomplete (`namedIncomplete`): what it is on every reachable directory, and what
  removing exactly it does.
-/
import Batchie.Model.OrchRegress
import Batchie.Lemmas.OrchRun

namespace Batchie.Orchestrator

/-- `planStep` (hence `invokeCore`, `runSched`, every resume theorem) removes exactly the named directory -/
theorem planStep_named_iff (cfg : Cfg) (t : Tree) (i j : Nat) :
    planStep cfg t = .named i j ↔ namedIncomplete cfg.B t = some (i, j) := by
  unfold planStep namedIncomplete
  cases h : examine cfg.B t with
  | err e =>
    simp only [Option.some.injEq]
    constructor
    · intro hh; injection hh with h1 h2; exact Prod.ext h1 h2
    · intro hh; rw [Prod.ext_iff] at hh; simp only at hh; rw [hh.1, hh.2]
  | ok nx =>
    simp only
    constructor
    · intro hh
      split at hh
      · cases hh
      · split at hh <;> cases hh
    · intro hh; cases hh

variable (cfg : Cfg)

/-- **what is named**: on every reachable directory the script names a directory exactly when there is a partial plate
    directory, and then it names THAT directory `iter_<#complete iterations>/plate_<#complete plates of the batch>` -- the
    directory of the step that was running, never one holding a completed step -/
theorem namedIncomplete_reachable (hB : 1 ≤ cfg.B) (hm : HasMarker cfg) (p : Prog) (hc : CRun cfg p) (jk : Junk)
    (hj : JunkOK jk) (o : Bool) :
    namedIncomplete cfg.B ⟨o, treeIters cfg p jk⟩ =
      (match jk with
       | .plate _ => some (p.cs.length, p.cur.length)
       | _ => none) := by
  unfold namedIncomplete
  rw [examine_treeIters cfg hm cfg.B hB p (hc.ok cfg hB) (hc.wf cfg) jk hj o]
  cases jk <;> rfl

/-- **removing exactly the named directory**: every completed step is still there (the directory is the uninterrupted one,
    plus at most an empty iteration directory), nothing is named any more, and the scan answers exactly what it answers on
    the uninterrupted run's directory: the rerun continues at the same (iteration, plate) -- `(p.cs.length, p.cur.length)`,
    the successor of the last completed step -- with the same metadata and screen.  Every batch size ≥ 1, both modes. -/
theorem remove_named_resumes (hB : 1 ≤ cfg.B) (hm : HasMarker cfg) (p : Prog) (hc : CRun cfg p)
    (s : Option (List File)) (o : Bool) :
    ∃ jk', Quiet p jk' ∧
      userRemove p.cs.length p.cur.length ⟨o, treeIters cfg p (.plate s)⟩ = ⟨o, treeIters cfg p jk'⟩ ∧
      namedIncomplete cfg.B ⟨o, treeIters cfg p jk'⟩ = none ∧
      examine cfg.B ⟨o, treeIters cfg p jk'⟩ = examine cfg.B ⟨o, treeIters cfg p .none⟩ ∧
      examine cfg.B ⟨o, treeIters cfg p jk'⟩ = .ok (nextOfProg cfg p) ∧
      (nextOfProg cfg p).iter = p.cs.length ∧ (nextOfProg cfg p).plate = p.cur.length := by
  refine ⟨(if p.cur = [] then Junk.emptyIter else Junk.none), ?_, userRemove_junk cfg p s o, ?_, ?_, ?_,
    nextOfProg_iter cfg p, nextOfProg_plate cfg p⟩
  · by_cases h : p.cur = []
    · simp only [h, ↓reduceIte]; exact Or.inr ⟨rfl, h⟩
    · simp only [h, ↓reduceIte]; exact Or.inl rfl
  all_goals
    have hp := hc.ok cfg hB
    have hw := hc.wf cfg
    by_cases h : p.cur = []
  · simp only [h, ↓reduceIte]
    rw [namedIncomplete_reachable cfg hB hm p hc .emptyIter trivial o]
  · simp only [h, ↓reduceIte]
    rw [namedIncomplete_reachable cfg hB hm p hc .none trivial o]
  · simp only [h, ↓reduceIte]
    rw [examine_treeIters cfg hm cfg.B hB p hp hw .emptyIter trivial o,
      examine_treeIters cfg hm cfg.B hB p hp hw .none trivial o]
  · simp only [h, ↓reduceIte]
  · simp only [h, ↓reduceIte]
    rw [examine_treeIters cfg hm cfg.B hB p hp hw .emptyIter trivial o]
  · simp only [h, ↓reduceIte]
    rw [examine_treeIters cfg hm cfg.B hB p hp hw .none trivial o]

end Batchie.Orchestrator
