/-
  Bridge between the executable helpers of `Model/Gibbs.lean` (`sumN`, `prodN`, `anyN`, `iter`,
  `natTo`, `upd`) and Mathlib's `Finset` sums over `ℝ`, plus the generic completing-the-square
  identity of a linear-Gaussian block (DESIGN appendix C.2) in the `Finset.range` form the block
  theorems use.
-/
import Mathlib.Algebra.BigOperators.Group.Finset.Basic
import Mathlib.Algebra.BigOperators.Group.Finset.Sigma
import Mathlib.Algebra.BigOperators.Ring.Finset
import Mathlib.Algebra.Order.BigOperators.Ring.Finset
import Mathlib.Data.Real.Basic
import Mathlib.Analysis.Real.Sqrt
import Mathlib.Tactic.Ring
import Mathlib.Tactic.Linarith
import Batchie.Model.Gibbs

namespace Batchie.Gibbs
open Finset

noncomputable instance : HasSqrt ℝ := ⟨Real.sqrt⟩

theorem sqrt_real (x : ℝ) : sqrt x = Real.sqrt x := rfl

theorem sumN_eq (n : ℕ) (f : ℕ → ℝ) : sumN n f = ∑ i ∈ range n, f i := by
  induction n with
  | zero => simp [sumN]
  | succ k ih => rw [sumN, ih, sum_range_succ]

theorem prodN_eq (n : ℕ) (f : ℕ → ℝ) : prodN n f = ∏ i ∈ range n, f i := by
  induction n with
  | zero => simp [prodN]
  | succ k ih => rw [prodN, ih, prod_range_succ]

theorem natTo_eq (n : ℕ) : (natTo n : ℝ) = n := by
  unfold natTo; rw [sumN_eq]; simp

theorem anyN_iff (n : ℕ) (p : ℕ → Bool) : anyN n p = true ↔ ∃ i, i < n ∧ p i = true := by
  induction n with
  | zero => simp [anyN]
  | succ k ih =>
    rw [anyN, Bool.or_eq_true, ih]
    constructor
    · rintro (⟨i, hi, hp⟩ | hp)
      · exact ⟨i, Nat.lt_succ_of_lt hi, hp⟩
      · exact ⟨k, Nat.lt_succ_self k, hp⟩
    · rintro ⟨i, hi, hp⟩
      rcases Nat.lt_succ_iff_lt_or_eq.mp hi with h | h
      · exact Or.inl ⟨i, h, hp⟩
      · subst h; exact Or.inr hp

theorem anyN_false_iff (n : ℕ) (p : ℕ → Bool) : anyN n p = false ↔ ∀ i, i < n → p i = false := by
  rw [← Bool.not_eq_true, anyN_iff]
  constructor
  · intro h i hi
    by_contra hc
    exact h ⟨i, hi, by simpa using hc⟩
  · rintro h ⟨i, hi, hp⟩
    rw [h i hi] at hp; exact Bool.false_ne_true hp

/-- an invariant kept by every body of a `for` loop holds after the loop -/
theorem iter_induction {σ : Type} (P : σ → Prop) (n : ℕ) (f : ℕ → σ → σ) (s : σ)
    (h0 : P s) (hstep : ∀ i, i < n → ∀ t, P t → P (f i t)) : P (iter n f s) := by
  induction n with
  | zero => exact h0
  | succ k ih =>
    rw [iter]
    exact hstep k (Nat.lt_succ_self k) _ (ih (fun i hi t ht => hstep i (Nat.lt_succ_of_lt hi) t ht))

@[simp] theorem upd_same {β : Type} (f : ℕ → β) (i : ℕ) (v : β) : upd f i v i = v := by simp [upd]

theorem upd_other {β : Type} (f : ℕ → β) (i j : ℕ) (v : β) (h : j ≠ i) : upd f i v j = f j := by
  simp [upd, h]

theorem upd_self_eq {β : Type} (f : ℕ → β) (i : ℕ) : upd f i (f i) = f := by
  funext j; unfold upd; split
  · next h => rw [h]
  · rfl

/-! ### generic linear-Gaussian block -/

section gaussian
variable (N D : ℕ)

/-- `½·prec·Σ_n (r_n − ⟨X_n,x⟩)² + ½ Σ_d λ_d x_d²` -/
noncomputable def blockEnergy (prec : ℝ) (X : ℕ → ℕ → ℝ) (r : ℕ → ℝ) (lam x : ℕ → ℝ) : ℝ :=
  (1/2) * prec * ∑ n ∈ range N, (r n - ∑ d ∈ range D, X n d * x d)^2 + (1/2) * ∑ d ∈ range D, lam d * x d ^ 2

/-- `Q = prec·XᵀX + diag λ` -/
noncomputable def blockQ (prec : ℝ) (X : ℕ → ℕ → ℝ) (lam : ℕ → ℝ) (d e : ℕ) : ℝ :=
  prec * (∑ n ∈ range N, X n d * X n e) + (if d = e then lam d else 0)

/-- `b = prec·Xᵀr` -/
noncomputable def blockB (prec : ℝ) (X : ℕ → ℕ → ℝ) (r : ℕ → ℝ) (d : ℕ) : ℝ :=
  prec * ∑ n ∈ range N, X n d * r n

theorem quad_reorder (X : ℕ → ℕ → ℝ) (x : ℕ → ℝ) :
    ∑ d ∈ range D, ∑ e ∈ range D, x d * (∑ n ∈ range N, X n d * X n e) * x e
      = ∑ n ∈ range N, (∑ d ∈ range D, X n d * x d)^2 := by
  calc ∑ d ∈ range D, ∑ e ∈ range D, x d * (∑ n ∈ range N, X n d * X n e) * x e
      = ∑ d ∈ range D, ∑ e ∈ range D, ∑ n ∈ range N, (X n d * x d) * (X n e * x e) := by
        apply sum_congr rfl; intro d _; apply sum_congr rfl; intro e _
        rw [mul_sum, sum_mul]; apply sum_congr rfl; intro n _; ring
    _ = ∑ d ∈ range D, ∑ n ∈ range N, ∑ e ∈ range D, (X n d * x d) * (X n e * x e) := by
        apply sum_congr rfl; intro d _; rw [sum_comm]
    _ = ∑ n ∈ range N, ∑ d ∈ range D, ∑ e ∈ range D, (X n d * x d) * (X n e * x e) := sum_comm
    _ = ∑ n ∈ range N, (∑ d ∈ range D, X n d * x d)^2 := by
        apply sum_congr rfl; intro n _; rw [pow_two, sum_mul_sum]

theorem lin_reorder (X : ℕ → ℕ → ℝ) (r x : ℕ → ℝ) :
    ∑ d ∈ range D, (∑ n ∈ range N, X n d * r n) * x d = ∑ n ∈ range N, r n * ∑ d ∈ range D, X n d * x d := by
  calc ∑ d ∈ range D, (∑ n ∈ range N, X n d * r n) * x d
      = ∑ d ∈ range D, ∑ n ∈ range N, r n * (X n d * x d) := by
        apply sum_congr rfl; intro d _; rw [sum_mul]; apply sum_congr rfl; intro n _; ring
    _ = ∑ n ∈ range N, ∑ d ∈ range D, r n * (X n d * x d) := sum_comm
    _ = _ := by apply sum_congr rfl; intro n _; rw [mul_sum]

/-- completing the square: the energy of a linear-Gaussian block, relative to its value at `0`,
    is `½ xᵀQx − bᵀx` -/
theorem gaussian_block (prec : ℝ) (X : ℕ → ℕ → ℝ) (r : ℕ → ℝ) (lam x : ℕ → ℝ) :
    blockEnergy N D prec X r lam x - blockEnergy N D prec X r lam (fun _ => 0)
      = (1/2) * ∑ d ∈ range D, ∑ e ∈ range D, x d * blockQ N prec X lam d e * x e
        - ∑ d ∈ range D, blockB N prec X r d * x d := by
  have hQ : ∑ d ∈ range D, ∑ e ∈ range D, x d * blockQ N prec X lam d e * x e
      = prec * ∑ n ∈ range N, (∑ d ∈ range D, X n d * x d)^2 + ∑ d ∈ range D, lam d * x d ^ 2 := by
    rw [← quad_reorder, mul_sum, ← sum_add_distrib]
    apply sum_congr rfl; intro d hd
    unfold blockQ
    simp only [mul_add, add_mul, sum_add_distrib, mul_ite, ite_mul, mul_zero, zero_mul, sum_ite_eq, hd, if_true]
    rw [mul_sum]; congr 1
    · apply sum_congr rfl; intro e _; ring
    · ring
  have hb : ∑ d ∈ range D, blockB N prec X r d * x d
      = prec * ∑ n ∈ range N, r n * ∑ d ∈ range D, X n d * x d := by
    rw [← lin_reorder, mul_sum]; apply sum_congr rfl; intro d _; unfold blockB; ring
  rw [hQ, hb]
  unfold blockEnergy
  simp only [mul_zero, sum_const_zero, sub_zero, ne_eq, OfNat.ofNat_ne_zero, not_false_eq_true,
    zero_pow, add_zero]
  have : ∀ n, (r n - ∑ d ∈ range D, X n d * x d)^2
      = r n ^2 - 2 * (r n * ∑ d ∈ range D, X n d * x d) + (∑ d ∈ range D, X n d * x d)^2 := by
    intro n; ring
  simp only [this, sum_add_distrib, sum_sub_distrib, ← mul_sum]
  ring

end gaussian

end Batchie.Gibbs
