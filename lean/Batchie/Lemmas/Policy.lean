/-
  Helper lemmas for C16 (k-per-sample policy): counting facts, what `chosen` / `filterEligible`
  compute, the batch invariant and its preservation by every allowed selection, the divisibility
  lemma behind "full batches", and the link between `select_next_plate`'s plumbing
  (`batchPlates` / `candidates`) and the abstract selection step.
-/
import Batchie.Model.Policy

namespace Batchie.Lemmas.Policy

open Batchie.Policy
open Batchie.Proto (Err)

/-! ### counting -/

theorem mem_keys {l : List Plate} {s : Nat} : s ∈ keys l ↔ 0 < cnt l s := by
  unfold keys cnt
  rw [List.mem_eraseDups, List.countP_pos_iff]
  simp [List.mem_map]

theorem cnt_cons (p : Plate) (l : List Plate) (s : Nat) :
    cnt (p :: l) s = cnt l s + if p.sid = s then 1 else 0 := by
  unfold cnt
  rw [List.countP_cons]
  simp

theorem cnt_nil (s : Nat) : cnt [] s = 0 := rfl

theorem cnt_perm {l l' : List Plate} (h : l.Perm l') (s : Nat) : cnt l s = cnt l' s :=
  h.countP_eq _

theorem cnt_erase {p : Plate} {u : List Plate} (h : p ∈ u) (s : Nat) :
    cnt (u.erase p) s + (if p.sid = s then 1 else 0) = cnt u s := by
  have := cnt_perm (List.perm_cons_erase h) s
  rw [cnt_cons] at this
  omega

theorem cnt_pos_of_mem {p : Plate} {u : List Plate} (h : p ∈ u) : 0 < cnt u p.sid := by
  unfold cnt
  rw [List.countP_pos_iff]
  exact ⟨p, h, by simp⟩

/-! ### what the pieces of the filter compute -/

theorem mem_insufficient {k : Nat} {u : List Plate} {s : Nat} :
    s ∈ insufficient k u ↔ 0 < cnt u s ∧ cnt u s < k := by
  unfold insufficient
  rw [List.mem_filter, mem_keys]
  simp

theorem chosen_some {k : Nat} {b : List Plate} {s : Nat} (h : chosen k b = some s) :
    0 < cnt b s ∧ cnt b s < k := by
  have hm := List.mem_of_getLast? h
  rw [List.mem_filter] at hm
  exact ⟨mem_keys.1 hm.1, by simpa using hm.2⟩

theorem chosen_none {k : Nat} {b : List Plate} (h : chosen k b = none) (s : Nat) (hs : 0 < cnt b s) :
    k ≤ cnt b s := by
  unfold chosen at h
  rw [List.getLast?_eq_none_iff, List.filter_eq_nil_iff] at h
  have := h s (mem_keys.2 hs)
  simpa using this

theorem filterEligible_of_single {k : Nat} {b u : List Plate} (h : ∀ p ∈ b ++ u, p.single = true) :
    filterEligible k b u =
      match chosen k b with
      | some s => .ok (u.filter (fun p => p.sid == s))
      | none => .ok (u.filter (fun p => !(insufficient k u).contains p.sid && !(keys b).contains p.sid)) := by
  unfold filterEligible
  rw [if_pos (List.all_eq_true.2 h)]
  rfl

theorem filterEligible_ok {k : Nat} {b u el : List Plate} (h : filterEligible k b u = .ok el) :
    (∀ p ∈ b ++ u, p.single = true) ∧
    ((∃ s, chosen k b = some s ∧ el = u.filter (fun p => p.sid == s)) ∨
     (chosen k b = none ∧
        el = u.filter (fun p => !(insufficient k u).contains p.sid && !(keys b).contains p.sid))) := by
  unfold filterEligible at h
  by_cases hs : (b ++ u).all Plate.single = true
  · rw [if_pos hs] at h
    refine ⟨List.all_eq_true.1 hs, ?_⟩
    cases hc : chosen k b with
    | none =>
      rw [hc] at h
      exact Or.inr ⟨rfl, by injection h with h; exact h.symm⟩
    | some s =>
      rw [hc] at h
      exact Or.inl ⟨s, rfl, by injection h with h; exact h.symm⟩
  · rw [if_neg hs] at h
    cases h

theorem filterEligible_error {k : Nat} {b u : List Plate} (h : ∃ p ∈ b ++ u, p.single = false) :
    filterEligible k b u = .error Err.valueError := by
  unfold filterEligible
  have : ¬ (b ++ u).all Plate.single = true := by
    intro hall
    obtain ⟨p, hp, hps⟩ := h
    have := List.all_eq_true.1 hall p hp
    rw [hps] at this
    cases this
  rw [if_neg this]

/-! ### the invariant -/

/-- DESIGN.md appendix A.4 -/
structure Inv (k : Nat) (b u : List Plate) : Prop where
  /-- every plate around has exactly one sample (the filter does not raise) -/
  single : ∀ p ∈ b ++ u, p.single = true
  /-- no sample has more than `k` plates in the batch -/
  le_k : ∀ s, cnt b s ≤ k
  /-- at most one sample is in progress (has between 1 and k-1 plates in the batch) -/
  one_open : ∀ s s', 0 < cnt b s → cnt b s < k → 0 < cnt b s' → cnt b s' < k → s = s'
  /-- a sample in the batch can always be completed from the remaining plates -/
  can_finish : ∀ s, 0 < cnt b s → k ≤ cnt b s + cnt u s

theorem inv_init {k : Nat} {u0 : List Plate} (h : ∀ p ∈ u0, p.single = true) : Inv k [] u0 where
  single := by simpa using h
  le_k := by intro s; simp [cnt_nil]
  one_open := by intro s s' h1; simp [cnt_nil] at h1
  can_finish := by intro s h1; simp [cnt_nil] at h1

theorem inv_step {k : Nat} (hk : 1 ≤ k) {b u b' u' : List Plate} (hinv : Inv k b u)
    (hs : Step k (b, u) (b', u')) : Inv k b' u' := by
  cases hs with
  | mk _ _ el p _ _ hel hp hb hu =>
    obtain ⟨_, hcase⟩ := filterEligible_ok hel
    -- the selected plate is one of the unobserved ones
    have hpu : p ∈ u := by
      rcases hcase with ⟨s, _, rfl⟩ | ⟨_, rfl⟩ <;> exact (List.mem_filter.1 hp).1
    have cb : ∀ s, cnt b' s = cnt b s + if p.sid = s then 1 else 0 := by
      intro s; rw [cnt_perm hb s, cnt_cons]
    have cu : ∀ s, cnt u' s + (if p.sid = s then 1 else 0) = cnt u s := by
      intro s; rw [cnt_perm hu s]; exact cnt_erase hpu s
    have hsingle : ∀ q ∈ b' ++ u', q.single = true := by
      intro q hq
      rcases List.mem_append.1 hq with h | h
      · rcases List.mem_cons.1 (hb.mem_iff.1 h) with rfl | h'
        · exact hinv.single _ (List.mem_append.2 (Or.inr hpu))
        · exact hinv.single _ (List.mem_append.2 (Or.inl h'))
      · exact hinv.single _ (List.mem_append.2 (Or.inr (List.mem_of_mem_erase (hu.mem_iff.1 h))))
    rcases hcase with ⟨c, hc, rfl⟩ | ⟨hc, rfl⟩
    · -- a sample is in progress: the plate belongs to it
      have hpc : p.sid = c := by simpa using (List.mem_filter.1 hp).2
      obtain ⟨c0, ck⟩ := chosen_some hc
      have only_c : ∀ s, 0 < cnt b' s → cnt b' s < k → s = c := by
        intro s h0 hk'
        by_cases hsc : s = c
        · exact hsc
        · have e := cb s
          have : ¬ p.sid = s := by rw [hpc]; exact fun h => hsc h.symm
          rw [if_neg this] at e
          exact hinv.one_open s c (by omega) (by omega) c0 ck
      refine ⟨hsingle, ?_, ?_, ?_⟩
      · intro s
        have e := cb s
        have := hinv.le_k s
        by_cases h : p.sid = s
        · rw [if_pos h] at e
          have : s = c := by rw [← h, hpc]
          subst this; omega
        · rw [if_neg h] at e; omega
      · intro s s' h1 h2 h3 h4
        rw [only_c s h1 h2, only_c s' h3 h4]
      · intro s h0
        have e1 := cb s
        have e2 := cu s
        by_cases h : p.sid = s
        · rw [if_pos h] at e1 e2
          have hsc : s = c := by rw [← h, hpc]
          have := hinv.can_finish s (by rw [hsc]; exact c0)
          omega
        · rw [if_neg h] at e1 e2
          have := hinv.can_finish s (by omega)
          omega
    · -- no sample in progress: a new sample is opened, it has at least k plates left
      have hp2 := (List.mem_filter.1 hp).2
      simp only [Bool.and_eq_true, Bool.not_eq_true', List.contains_eq_mem, decide_eq_false_iff_not] at hp2
      have hb0 : cnt b p.sid = 0 := by
        have := hp2.2
        rw [mem_keys] at this
        omega
      have huk : k ≤ cnt u p.sid := by
        have h1 := hp2.1
        rw [mem_insufficient] at h1
        have := cnt_pos_of_mem hpu
        omega
      have closed : ∀ s, 0 < cnt b s → cnt b s = k := by
        intro s h0
        have := chosen_none hc s h0
        have := hinv.le_k s
        omega
      have only_p : ∀ s, 0 < cnt b' s → cnt b' s < k → s = p.sid := by
        intro s h0 hk'
        by_cases h : p.sid = s
        · exact h.symm
        · have e := cb s
          rw [if_neg h] at e
          have := closed s (by omega)
          omega
      refine ⟨hsingle, ?_, ?_, ?_⟩
      · intro s
        have e := cb s
        have := hinv.le_k s
        by_cases h : p.sid = s
        · rw [if_pos h] at e; subst h; omega
        · rw [if_neg h] at e; omega
      · intro s s' h1 h2 h3 h4
        rw [only_p s h1 h2, only_p s' h3 h4]
      · intro s h0
        have e1 := cb s
        have e2 := cu s
        by_cases h : p.sid = s
        · rw [if_pos h] at e1 e2; subst h; omega
        · rw [if_neg h] at e1 e2
          have := hinv.can_finish s (by omega)
          omega

theorem inv_of_reachable {k : Nat} (hk : 1 ≤ k) {u0 : List Plate} {st : List Plate × List Plate}
    (h : Reachable k u0 st) : Inv k st.1 st.2 := by
  induction h with
  | init h0 => exact inv_init h0
  | step s s' _ hstep ih =>
    obtain ⟨b, u⟩ := s
    obtain ⟨b', u'⟩ := s'
    exact inv_step hk ih hstep

/-! ### full batches: a list in which every sample occurs 0 or k times has length divisible by k -/

/-- remove every plate of sample `s` -/
def dropSample (l : List Plate) (s : Nat) : List Plate := l.filter (fun q => !(q.sid == s))

theorem cnt_drop_self (l : List Plate) (s : Nat) : cnt (dropSample l s) s = 0 := by
  unfold cnt dropSample
  rw [List.countP_filter, List.countP_eq_zero]
  intro a _
  simp

theorem cnt_drop_ne (l : List Plate) {s s' : Nat} (h : s' ≠ s) : cnt (dropSample l s) s' = cnt l s' := by
  unfold cnt dropSample
  rw [List.countP_filter]
  apply List.countP_congr
  intro a _
  simp
  intro h1 h2
  exact h (h1 ▸ h2)

theorem length_drop (l : List Plate) (s : Nat) : l.length = cnt l s + (dropSample l s).length := by
  induction l with
  | nil => rfl
  | cons p t ih =>
    rw [cnt_cons]
    unfold dropSample at *
    by_cases h : p.sid = s
    · rw [List.filter_cons_of_neg (by simp [h]), if_pos h, List.length_cons]; omega
    · rw [List.filter_cons_of_pos (by simp [h]), if_neg h, List.length_cons, List.length_cons]; omega

theorem dvd_length_of_zero_or_k (k : Nat) (hk : 1 ≤ k) :
    ∀ (n : Nat) (l : List Plate), l.length = n → (∀ s, cnt l s = 0 ∨ cnt l s = k) → k ∣ l.length := by
  intro n
  induction n using Nat.strongRecOn with
  | _ n ih =>
    intro l hl hall
    cases l with
    | nil => exact Nat.dvd_zero k
    | cons p t =>
      have hpos : 0 < cnt (p :: t) p.sid := cnt_pos_of_mem (List.mem_cons_self)
      have hk' : cnt (p :: t) p.sid = k := by
        rcases hall p.sid with h | h
        · omega
        · exact h
      have hlen := length_drop (p :: t) p.sid
      have hall' : ∀ s, cnt (dropSample (p :: t) p.sid) s = 0 ∨ cnt (dropSample (p :: t) p.sid) s = k := by
        intro s
        by_cases h : s = p.sid
        · subst h; exact Or.inl (cnt_drop_self _ _)
        · rw [cnt_drop_ne _ h]; exact hall s
      have hd := ih (dropSample (p :: t) p.sid).length (by omega) _ rfl hall'
      rw [hlen, hk']
      exact Nat.dvd_add (Nat.dvd_refl k) hd

theorem full_batches {k : Nat} (hk : 1 ≤ k) {b u : List Plate} (hinv : Inv k b u) (m : Nat)
    (hlen : b.length = m * k) (s : Nat) : cnt b s = 0 ∨ cnt b s = k := by
  by_cases h0 : cnt b s = 0
  · exact Or.inl h0
  by_cases hk' : cnt b s = k
  · exact Or.inr hk'
  exfalso
  have hle := hinv.le_k s
  have hall : ∀ s', cnt (dropSample b s) s' = 0 ∨ cnt (dropSample b s) s' = k := by
    intro s'
    by_cases h : s' = s
    · subst h; exact Or.inl (cnt_drop_self _ _)
    · rw [cnt_drop_ne _ h]
      by_cases h1 : cnt b s' = 0
      · exact Or.inl h1
      · by_cases h2 : cnt b s' = k
        · exact Or.inr h2
        · have := hinv.le_k s'
          exact absurd (hinv.one_open s' s (by omega) (by omega) (by omega) (by omega)) h
  have hd := dvd_length_of_zero_or_k k hk _ _ rfl hall
  have hl := length_drop b s
  have h1 : k ∣ cnt b s + (dropSample b s).length := by
    rw [← hl, hlen]; exact Nat.dvd_mul_left k m
  have h2 : k ∣ cnt b s := (Nat.dvd_add_iff_left hd).2 h1
  have := Nat.le_of_dvd (by omega) h2
  omega

/-! ### `select_next_plate`'s plumbing performs a `Step` -/

theorem filter_or_id (S : List Plate) (hS : (S.map (·.id)).Nodup) (p : Plate) (hp : p ∈ S)
    (f : Plate → Bool) (hf : f p = false) :
    (S.filter (fun x => f x || x.id == p.id)).Perm (p :: S.filter f) := by
  induction S with
  | nil => cases hp
  | cons x S' ih =>
    rw [List.map_cons, List.nodup_cons] at hS
    obtain ⟨hx, hS'⟩ := hS
    by_cases hxp : x = p
    · subst hxp
      have hne : ∀ y ∈ S', (y.id == x.id) = false := by
        intro y hy
        have : y.id ≠ x.id := fun h => hx (h ▸ List.mem_map.2 ⟨y, hy, rfl⟩)
        simpa using this
      have e : S'.filter (fun y => f y || y.id == x.id) = S'.filter f := by
        apply List.filter_congr
        intro y hy
        rw [hne y hy, Bool.or_false]
      rw [List.filter_cons_of_pos (by simp), e, List.filter_cons_of_neg (by simp [hf])]
    · have hp' : p ∈ S' := by
        rcases List.mem_cons.1 hp with h | h
        · exact absurd h.symm hxp
        · exact h
      have hid : (x.id == p.id) = false := by
        have : x.id ≠ p.id := fun h => hx (h ▸ List.mem_map.2 ⟨p, hp', rfl⟩)
        simpa using this
      have ih' := ih hS' hp'
      by_cases hfx : f x = true
      · rw [List.filter_cons_of_pos (by simp [hfx]), List.filter_cons_of_pos hfx]
        exact (List.Perm.cons x ih').trans (List.Perm.swap p x _)
      · rw [List.filter_cons_of_neg (by simp [hfx, hid]), List.filter_cons_of_neg hfx]
        exact ih'

theorem filter_and_ne (S : List Plate) (hS : (S.map (·.id)).Nodup) (p : Plate) (hp : p ∈ S)
    (g : Plate → Bool) (hg : g p = true) :
    S.filter (fun x => g x && !(x.id == p.id)) = (S.filter g).erase p := by
  induction S with
  | nil => cases hp
  | cons x S' ih =>
    rw [List.map_cons, List.nodup_cons] at hS
    obtain ⟨hx, hS'⟩ := hS
    by_cases hxp : x = p
    · subst hxp
      have hne : ∀ y ∈ S', (y.id == x.id) = false := by
        intro y hy
        have : y.id ≠ x.id := fun h => hx (h ▸ List.mem_map.2 ⟨y, hy, rfl⟩)
        simpa using this
      have e : S'.filter (fun y => g y && !(y.id == x.id)) = S'.filter g := by
        apply List.filter_congr
        intro y hy
        rw [hne y hy]; simp
      rw [List.filter_cons_of_neg (by simp), e, List.filter_cons_of_pos hg, List.erase_cons_head]
    · have hp' : p ∈ S' := by
        rcases List.mem_cons.1 hp with h | h
        · exact absurd h.symm hxp
        · exact h
      have hid : (x.id == p.id) = false := by
        have : x.id ≠ p.id := fun h => hx (h ▸ List.mem_map.2 ⟨p, hp', rfl⟩)
        simpa using this
      have ih' := ih hS' hp'
      by_cases hgx : g x = true
      · rw [List.filter_cons_of_pos (by simp [hgx, hid]), List.filter_cons_of_pos hgx,
          List.erase_cons_tail (by simpa using hxp), ih']
      · rw [List.filter_cons_of_neg (by simp [hgx]), List.filter_cons_of_neg hgx]
        exact ih'

theorem beq_dec (a b : Nat) : (a == b) = decide (a = b) := by
  by_cases h : a = b <;> simp [h]

theorem mem_candidates {screen : List Plate} {ids : List Nat} {p : Plate} :
    p ∈ candidates screen ids ↔ p ∈ screen ∧ p.observed = false ∧ p.id ∉ ids := by
  unfold candidates
  rw [List.mem_mergeSort, List.mem_filter]
  simp

/-- on a screen whose plates are listed by increasing id (as `screen.plates` is) the sort is the identity -/
theorem candidates_of_sorted {screen : List Plate} {ids : List Nat}
    (h : (screen.filter (fun p => !p.observed && !ids.contains p.id)).Pairwise
      (fun a b => decide (a.id ≤ b.id) = true)) :
    candidates screen ids = screen.filter (fun p => !p.observed && !ids.contains p.id) := by
  unfold candidates
  exact List.mergeSort_of_pairwise h

theorem select_is_step (k : Nat) (screen : List Plate) (hS : (screen.map (·.id)).Nodup)
    (ids : List Nat) (el : List Plate) (p : Plate)
    (h : eligibleOf k screen ids = .ok el) (hp : p ∈ el) :
    Step k (batchPlates screen ids, candidates screen ids)
      (batchPlates screen (ids ++ [p.id]), candidates screen (ids ++ [p.id])) := by
  refine Step.mk _ _ el p _ _ h hp ?_ ?_
  all_goals
    have hpc : p ∈ candidates screen ids := by
      obtain ⟨_, hcase⟩ := filterEligible_ok h
      rcases hcase with ⟨s, _, rfl⟩ | ⟨_, rfl⟩ <;> exact (List.mem_filter.1 hp).1
    obtain ⟨hps, hpo, hpi⟩ := mem_candidates.1 hpc
  · unfold batchPlates
    have e : (fun x : Plate => (ids ++ [p.id]).contains x.id) = (fun x => ids.contains x.id || x.id == p.id) := by
      funext x; simp [beq_dec]
    rw [e]
    exact filter_or_id screen hS p hps (fun x => ids.contains x.id) (by simpa using hpi)
  · unfold candidates
    have e : (fun x : Plate => !x.observed && !(ids ++ [p.id]).contains x.id)
        = (fun x => (!x.observed && !ids.contains x.id) && !(x.id == p.id)) := by
      funext x; simp [Bool.and_assoc, beq_dec]
    rw [e, filter_and_ne screen hS p hps (fun x => !x.observed && !ids.contains x.id) (by simp [hpo, hpi])]
    exact (List.mergeSort_perm _ _).trans ((List.mergeSort_perm _ _).symm.erase p)

/-- selection histories at the level of `select_next_plate`: the list of plate ids picked so far -/
inductive History (k : Nat) (screen : List Plate) : List Nat → Prop
  | nil : History k screen []
  | snoc (ids : List Nat) (el : List Plate) (p : Plate) :
      History k screen ids → eligibleOf k screen ids = .ok el → p ∈ el → History k screen (ids ++ [p.id])

theorem reachable_of_history {k : Nat} {screen : List Plate} (hS : (screen.map (·.id)).Nodup)
    (h1 : ∀ p ∈ screen, p.observed = false → p.single = true) {ids : List Nat}
    (h : History k screen ids) :
    Reachable k (candidates screen []) (batchPlates screen ids, candidates screen ids) := by
  induction h with
  | nil =>
    have : batchPlates screen [] = [] := by simp [batchPlates]
    rw [this]
    apply Reachable.init
    intro p hp
    obtain ⟨a, b, _⟩ := mem_candidates.1 hp
    exact h1 p a b
  | snoc ids el p _ hel hp ih =>
    exact Reachable.step _ _ ih (select_is_step k screen hS ids el p hel hp)

end Batchie.Lemmas.Policy
