/-
  C01 helper lemmas, part 6: from the flat column-major encoding back to the cells of the screen.
-/
import Batchie.Lemmas.EncodeScreen

namespace Batchie.Screen
open Batchie.Proto

theorem length_flatMap_range {α : Type} (f : Nat → List α) (n a : Nat) (hlen : ∀ i, i < a → (f i).length = n) :
    ((List.range a).flatMap f).length = a * n := by
  induction a with
  | zero => simp
  | succ a ih =>
    rw [List.range_succ, List.flatMap_append, List.length_append, ih (fun i hi => hlen i (by omega))]
    simp [hlen a (by omega), Nat.succ_mul]

/-- entry `c * n + i` of the concatenation of `a` blocks of length `n` is entry `i` of block `c` -/
theorem flatMap_range_getElem? {α : Type} (f : Nat → List α) (n a : Nat) (hlen : ∀ i, i < a → (f i).length = n)
    (c i : Nat) (hc : c < a) (hi : i < n) : ((List.range a).flatMap f)[c * n + i]? = (f c)[i]? := by
  induction a with
  | zero => omega
  | succ a ih =>
    have hl := length_flatMap_range f n a (fun i hi => hlen i (by omega))
    rw [List.range_succ, List.flatMap_append]
    by_cases hca : c < a
    · have : c * n + i < a * n := by
        have : (c + 1) * n ≤ a * n := Nat.mul_le_mul_right n hca
        rw [Nat.succ_mul] at this; omega
      rw [List.getElem?_append_left (by omega)]
      exact ih (fun i hi => hlen i (by omega)) hca
    · have hca' : c = a := by omega
      subst hca'
      rw [List.getElem?_append_right (by omega)]
      simp [hl]

theorem mul_add_lt {n a c i : Nat} (hc : c < a) (hi : i < n) : c * n + i < n * a := by
  have : (c + 1) * n ≤ a * n := Nat.mul_le_mul_right n hc
  rw [Nat.succ_mul] at this
  rw [Nat.mul_comm n a]; omega

theorem column_getElem? {α : Type} [Inhabited α] (rows : List (List α)) (c i : Nat) (hi : i < rows.length) (hc : c < rows[i].length) :
    (column rows c)[i]? = some (rows[i][c]) := by
  simp [column, hi, hc]

/-- the key the encoder sees at flat position `c * n + i` is cell `(i, c)` of the screen -/
theorem allKeys_getElem? (r : Raw) (hd : r.tdoses.length = r.tnames.length)
    (han : ∀ row ∈ r.tnames, row.length = r.arity) (had : ∀ row ∈ r.tdoses, row.length = r.arity)
    (i c : Nat) (hi : i < r.tnames.length) (hc : c < r.arity) :
    (allKeys r)[c * r.tnames.length + i]? =
      some ((r.tnames[i])[c]'(by rw [han _ (List.getElem_mem hi)]; exact hc),
            (r.tdoses[i]'(hd ▸ hi))[c]'(by rw [had _ (List.getElem_mem (hd ▸ hi))]; exact hc)) := by
  unfold allKeys
  rw [List.getElem?_zip_eq_some]
  constructor
  · rw [flatMap_range_getElem? _ r.tnames.length r.arity (by intro j _; simp [column]) c i hc hi]
    exact column_getElem? _ _ _ hi _
  · rw [flatMap_range_getElem? _ r.tnames.length r.arity (by intro j _; simp [column, hd]) c i hc hi]
    exact column_getElem? _ _ _ (hd ▸ hi) _

theorem length_allKeys (r : Raw) (hd : r.tdoses.length = r.tnames.length) : (allKeys r).length = r.tnames.length * r.arity := by
  unfold allKeys
  rw [List.length_zip, length_flatMap_range _ r.tnames.length, length_flatMap_range _ r.tnames.length]
  · simp [Nat.mul_comm]
  · intro j _; simp [column, hd]
  · intro j _; simp [column]

theorem unflattenColumns_length (flat : List Int) (n a : Nat) : (unflattenColumns flat n a).length = n := by
  simp [unflattenColumns]

theorem unflattenColumns_getElem (flat : List Int) (n a i : Nat) (hi : i < n) :
    (unflattenColumns flat n a)[i]'(by simp [unflattenColumns, hi]) = (List.range a).map (fun c => flat[c * n + i]!) := by
  simp [unflattenColumns]

/-- shape of the id table: `n` rows of `arity` ids -/
theorem MkOk.tids_shape {r : Raw} {s : Screen} (m : MkOk r s) :
    s.tids.length = r.tnames.length ∧ ∀ row ∈ s.tids, row.length = r.arity := by
  obtain ⟨tflat, _, _, htids⟩ := m.tenc
  rw [htids]
  constructor
  · simp [unflattenColumns]
  · intro row hrow
    simp only [unflattenColumns, List.mem_map, List.mem_range] at hrow
    obtain ⟨i, _, rfl⟩ := hrow
    simp

/-- every cell `(i, c)`: its name, dose and id form a row of the screen's treatment mapping -/
theorem MkOk.cell_decode {r : Raw} {s : Screen} (m : MkOk r s) (i c : Nat) (hi : i < r.tnames.length) (hc : c < r.arity) :
    ∃ (h1 : c < r.tnames[i].length) (h2 : i < r.tdoses.length) (h3 : c < r.tdoses[i].length)
      (h4 : i < s.tids.length) (h5 : c < s.tids[i].length),
      (r.tnames[i][c], r.tdoses[i][c], s.tids[i][c]) ∈ s.tmap := by
  obtain ⟨tflat, henc, hlen, htids⟩ := m.tenc
  have h1 : c < r.tnames[i].length := by rw [m.arity_tnames _ (List.getElem_mem hi)]; exact hc
  have h2 : i < r.tdoses.length := by rw [m.len_tdoses]; exact hi
  have h3 : c < r.tdoses[i].length := by rw [m.arity_tdoses _ (List.getElem_mem h2)]; exact hc
  have h4 : i < s.tids.length := by rw [m.tids_shape.1]; exact hi
  have h5 : c < s.tids[i].length := by rw [m.tids_shape.2 _ (List.getElem_mem h4)]; exact hc
  refine ⟨h1, h2, h3, h4, h5, ?_⟩
  have hj : c * r.tnames.length + i < (allKeys r).length := by
    rw [length_allKeys r m.len_tdoses]; exact mul_add_lt hc hi
  have hjf : c * r.tnames.length + i < tflat.length := by rw [hlen]; exact mul_add_lt hc hi
  have hdec := encodeTreatments_decode r.ctrl (allKeys r) r.tmap tflat s.tmap henc
    (by rw [hlen, length_allKeys r m.len_tdoses]) (c * r.tnames.length + i) hj
  have hkey := allKeys_getElem? r m.len_tdoses m.arity_tnames m.arity_tdoses i c hi hc
  rw [List.getElem?_eq_getElem hj] at hkey
  injection hkey with hkey
  have hid : s.tids[i][c] = tflat[c * r.tnames.length + i] := by
    have : s.tids[i] = (List.range r.arity).map (fun c => tflat[c * r.tnames.length + i]!) := by
      have := unflattenColumns_getElem tflat r.tnames.length r.arity i hi
      simp only [← htids] at this
      exact this
    simp only [this, List.getElem_map, List.getElem_range]
    exact getElem!_pos tflat _ hjf
  rw [hid]
  rw [hkey] at hdec
  exact hdec

/-- every id stored in the screen's id table is the id of some row of the screen's treatment mapping -/
theorem MkOk.tid_mem {r : Raw} {s : Screen} (m : MkOk r s) (row : List Int) (hrow : row ∈ s.tids) (id : Int) (hid : id ∈ row) :
    ∃ e ∈ s.tmap, e.2.2 = id := by
  obtain ⟨i, hi, rfl⟩ := List.getElem_of_mem hrow
  obtain ⟨c, hc, rfl⟩ := List.getElem_of_mem hid
  have hi' : i < r.tnames.length := by rw [← m.tids_shape.1]; exact hi
  have hc' : c < r.arity := by rw [← m.tids_shape.2 _ (List.getElem_mem hi)]; exact hc
  obtain ⟨_, _, _, _, _, hmem⟩ := m.cell_decode i c hi' hc'
  exact ⟨_, hmem, rfl⟩

theorem MkOk.sample_decode {r : Raw} {s : Screen} (m : MkOk r s) (i : Nat) (hi : i < r.snames.length) :
    ∃ (h : i < s.sids.length), (r.snames[i], s.sids[i]) ∈ s.smap := by
  have hl : s.sids.length = r.snames.length := by rw [m.len_sids, m.len_snames]
  exact ⟨hl ▸ hi, encode1d_decode r.snames r.smap s.sids s.smap m.senc hl i hi⟩

theorem MkOk.pmap_eq {r : Raw} {s : Screen} (m : MkOk r s) :
    s.pmap = freshSMap r.pnames ∧ s.pids = r.pnames.map (sId (freshSMap r.pnames)) := by
  have h := m.penc
  rw [encode1d_fresh] at h
  injection h with h
  injection h with h1 h2
  exact ⟨h2.symm, h1.symm⟩

theorem MkOk.plate_decode {r : Raw} {s : Screen} (m : MkOk r s) (i : Nat) (hi : i < r.pnames.length) :
    ∃ (h : i < s.pids.length), (r.pnames[i], s.pids[i]) ∈ s.pmap := by
  have hl : s.pids.length = r.pnames.length := by rw [m.pmap_eq.2]; simp
  exact ⟨hl ▸ hi, encode1d_decode r.pnames none s.pids s.pmap m.penc hl i hi⟩

theorem MkOk.sid_mem {r : Raw} {s : Screen} (m : MkOk r s) (id : Int) (hid : id ∈ s.sids) : ∃ e ∈ s.smap, e.2 = id := by
  obtain ⟨i, hi, rfl⟩ := List.getElem_of_mem hid
  have hi' : i < r.snames.length := by rw [m.len_snames, ← m.len_sids]; exact hi
  obtain ⟨_, hmem⟩ := m.sample_decode i hi'
  exact ⟨_, hmem, rfl⟩

theorem MkOk.tmap_eq {r : Raw} {s : Screen} (m : MkOk r s) :
    s.tmap = (match r.tmap with | some m => m | none => freshTMap r.ctrl (allKeys r)) := by
  obtain ⟨tflat, henc, _, _⟩ := m.tenc
  exact ((encodeTreatments_ok_iff _ _ _ _ _).mp henc).1

theorem MkOk.smap_eq {r : Raw} {s : Screen} (m : MkOk r s) :
    s.smap = (match r.smap with | some m => m | none => freshSMap r.snames) :=
  ((encode1d_ok_iff _ _ _ _).mp m.senc).1

/-- coverage: every cell key of an accepted screen has a row in the mapping that was used -/
theorem MkOk.covered {r : Raw} {s : Screen} (m : MkOk r s) : ∀ k ∈ allKeys r, k ∈ s.tmap.map tKey := by
  obtain ⟨tflat, henc, _, _⟩ := m.tenc
  intro k hk
  have := ((encodeTreatments_ok_iff _ _ _ _ _).mp henc).2.1 k hk
  rw [Ne, tLookup_eq_nil_iff] at this
  exact Decidable.not_not.mp this

theorem MkOk.samples_covered {r : Raw} {s : Screen} (m : MkOk r s) : ∀ k ∈ r.snames, k ∈ s.smap.map (·.1) := by
  intro k hk
  have := ((encode1d_ok_iff _ _ _ _).mp m.senc).2.1 k hk
  rw [Ne, sLookup_eq_nil_iff] at this
  exact Decidable.not_not.mp this

end Batchie.Screen
