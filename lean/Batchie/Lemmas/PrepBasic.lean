/-
  C11 / C13 helper lemmas, part 1: rows of constructed screens, `maskFilter`, faithful sample / plate ids.
  Builds on the C01 lemmas (`mk?_ok_iff`, `encode1d_fresh`).
-/
import Batchie.Model.Prep
import Batchie.Lemmas.EncodeCells
namespace Batchie.Prep
open Batchie.Proto Batchie.Screen

/-! ### `Except` -/

theorem bind_ok {ε α β : Type} {x : Except ε α} {f : α → Except ε β} {b : β} (h : (x >>= f) = .ok b) :
    ∃ a, x = .ok a ∧ f a = .ok b := by
  cases x with
  | error e => simp [bind, Except.bind] at h
  | ok a => exact ⟨a, rfl, h⟩

theorem map_ok {ε α β : Type} {x : Except ε α} {f : α → β} {b : β} (h : (f <$> x) = .ok b) :
    ∃ a, x = .ok a ∧ f a = b := by
  cases x with
  | error e => simp [Functor.map, Except.map] at h
  | ok a => simp [Functor.map, Except.map] at h; exact ⟨a, rfl, h⟩

/-! ### rows of a constructed screen -/

theorem rowsOf_of_fields {s : Screen} {rows : List Row}
    (h1 : s.snames = rows.map (·.sample)) (h2 : s.tnames = rows.map (·.tn)) (h3 : s.tdoses = rows.map (·.td))
    (h4 : s.obs = rows.map (·.obs)) (h5 : s.pnames = rows.map (·.plate)) (h6 : s.mask = rows.map (·.mask)) :
    rowsOf s = rows := by
  unfold rowsOf
  rw [h1, h2, h3, h4, h5, h6]
  simp only [List.zip_map', List.map_map]
  conv => rhs; rw [← List.map_id rows]
  rfl

/-- what `Screen(...)` from rows guarantees when it succeeds (any mappings) -/
structure RawOk (rows : List Row) (s : Screen) : Prop where
  rows_eq : rowsOf s = rows
  snames_eq : s.snames = rows.map (·.sample)
  pnames_eq : s.pnames = rows.map (·.plate)
  mask_eq : s.mask = rows.map (·.mask)
  pids_eq : s.pids = (rows.map (·.plate)).map (sId (freshSMap (rows.map (·.plate))))
  tids_len : s.tids.length = rows.length
  sids_len : s.sids.length = rows.length
  uniform : plateUniform (rows.map (·.plate)) (rows.map (·.mask)) = true

theorem raw_ok {c : Name} {a : Nat} {rows : List Row} {tm : Option TMap} {sm : Option SMap} {s : Screen}
    (h : mk? (rawOfRows c a rows tm sm) = .ok s) : RawOk rows s ∧ s.ctrl = c ∧ s.arity = a := by
  have m := (mk?_ok_iff _ _).mp h
  have hm : maskOf (rawOfRows c a rows tm sm) = rows.map (·.mask) := rfl
  have ho : obsOf (rawOfRows c a rows tm sm) = rows.map (·.obs) := rfl
  refine ⟨⟨?_, m.snames_eq, m.pnames_eq, by rw [m.mask_eq, hm], m.pmap_eq.2, ?_, ?_, ?_⟩, m.ctrl_eq, m.arity_eq⟩
  · exact rowsOf_of_fields m.snames_eq m.tnames_eq m.tdoses_eq (by rw [m.obs_eq, ho]) m.pnames_eq (by rw [m.mask_eq, hm])
  · rw [m.tids_shape.1]; simp [rawOfRows]
  · rw [m.len_sids]; simp [rawOfRows]
  · have := m.uniform; rw [hm] at this; exact this

/-- what `build` (no mappings: `to_screen`, `combine`, generators) guarantees: additionally fresh sample ids -/
structure BuildOk (c : Name) (a : Nat) (rows : List Row) (s : Screen) : Prop extends RawOk rows s where
  ctrl_eq : s.ctrl = c
  arity_eq : s.arity = a
  sids_eq : s.sids = (rows.map (·.sample)).map (sId (freshSMap (rows.map (·.sample))))

theorem build_ok {c : Name} {a : Nat} {rows : List Row} {s : Screen} (h : build c a rows = .ok s) : BuildOk c a rows s := by
  have m := (mk?_ok_iff _ _).mp h
  have hs : s.sids = (rows.map (·.sample)).map (sId (freshSMap (rows.map (·.sample)))) := by
    have := m.senc
    simp only [rawOfRows] at this
    rw [encode1d_fresh] at this
    injection this with this
    injection this with h1 _
    exact h1.symm
  obtain ⟨r, hc, ha⟩ := raw_ok h
  exact { toRawOk := r, ctrl_eq := hc, arity_eq := ha, sids_eq := hs }

/-- fresh ids are faithful: equal ids only for equal names -/
theorem sId_inj (xs : List Name) (a b : Name) (ha : a ∈ xs) (hb : b ∈ xs)
    (h : sId (freshSMap xs) a = sId (freshSMap xs) b) : a = b := by
  have key : ∀ k ∈ xs, ∃ j, ∃ (hj : j < (sortedNames xs).length), (sortedNames xs)[j] = k ∧ sId (freshSMap xs) k = (j : Int) := by
    intro k hk
    have hk' : k ∈ sortedNames xs := (mem_sortedNames xs k).mpr hk
    obtain ⟨j, hj, rfl⟩ := List.getElem_of_mem hk'
    refine ⟨j, hj, rfl, ?_⟩
    have hmem : ((sortedNames xs)[j], (j : Int)) ∈ freshSMap xs := (mem_freshSMap xs _).mpr ⟨j, hj, rfl⟩
    have hnd : ((freshSMap xs).map (·.1)).Nodup := by rw [freshSMap_names]; exact sortedNames_nodup xs
    have := sLookup_of_mem (freshSMap xs) hnd _ _ hmem
    simp [sId, this]
  obtain ⟨j, hj, rfl, e1⟩ := key a ha
  obtain ⟨j', hj', rfl, e2⟩ := key b hb
  rw [e1, e2] at h
  have : j = j' := by exact_mod_cast h
  subst this; rfl

/-! ### maskFilter -/

theorem maskFilter_nil_right {α : Type} (l : List α) : maskFilter l [] = [] := by cases l <;> rfl

theorem maskFilter_sublist {α : Type} (l : List α) (m : List Bool) : (maskFilter l m).Sublist l := by
  induction l generalizing m with
  | nil => simp [maskFilter]
  | cons a l ih =>
    cases m with
    | nil => simp [maskFilter]
    | cons b m =>
      cases b
      · simpa [maskFilter] using (ih m).cons a
      · simpa [maskFilter] using (ih m).cons_cons a

theorem maskFilter_map {α β : Type} (f : α → β) (l : List α) (m : List Bool) :
    maskFilter (l.map f) m = (maskFilter l m).map f := by
  induction l generalizing m with
  | nil => simp [maskFilter]
  | cons a l ih =>
    cases m with
    | nil => simp [maskFilter]
    | cons b m => cases b <;> simp [maskFilter, ih]

theorem maskFilter_zip {α β : Type} (l : List α) (l' : List β) (m : List Bool) :
    maskFilter (l.zip l') m = (maskFilter l m).zip (maskFilter l' m) := by
  induction l generalizing l' m with
  | nil => simp [maskFilter]
  | cons a l ih =>
    cases l' with
    | nil => simp [maskFilter]
    | cons a' l' =>
      cases m with
      | nil => simp [maskFilter]
      | cons b m => cases b <;> simp [maskFilter, ih]

theorem maskFilter_map_pred {α : Type} (p : α → Bool) (l : List α) : maskFilter l (l.map p) = l.filter p := by
  induction l with
  | nil => rfl
  | cons a l ih => cases h : p a <;> simp [maskFilter, h, ih]

theorem maskFilter_perm_split {α : Type} (l : List α) (m : List Bool) (h : m.length = l.length) :
    (maskFilter l m ++ maskFilter l (m.map (!·))).Perm l := by
  induction l generalizing m with
  | nil => simp [maskFilter]
  | cons a l ih =>
    cases m with
    | nil => simp at h
    | cons b m =>
      have h' : m.length = l.length := by simpa using h
      cases b
      · simp only [maskFilter, List.map_cons, Bool.not_false, Bool.false_eq_true, if_false, if_true]
        exact (List.perm_middle).trans ((ih m h').cons a)
      · simp only [maskFilter, List.map_cons, Bool.not_true, Bool.false_eq_true, if_false, if_true, List.cons_append]
        exact (ih m h').cons a

theorem maskFilter_eq_range {α : Type} [Inhabited α] (l : List α) (m : List Bool) (h : m.length = l.length) :
    maskFilter l m = ((List.range l.length).filter (fun i => m[i]!)).map (fun i => l[i]!) := by
  induction l generalizing m with
  | nil => simp [maskFilter]
  | cons a l ih =>
    cases m with
    | nil => simp at h
    | cons b m =>
      have h' : m.length = l.length := by simpa using h
      have hr : List.range (l.length + 1) = 0 :: (List.range l.length).map Nat.succ := by
        rw [List.range_succ_eq_map]
      rw [List.length_cons, hr, List.filter_cons, List.filter_map]
      have e1 : ((fun i => (b :: m)[i]!) ∘ Nat.succ) = fun i => m[i]! := by
        funext i; simp
      have e2 : ((fun i => (a :: l)[i]!) ∘ Nat.succ) = fun i => l[i]! := by
        funext i; simp
      rw [e1]
      cases b
      · simp only [maskFilter, Bool.false_eq_true, if_false]
        rw [ih m h']
        simp [List.map_map]
      · simp only [maskFilter, if_true]
        rw [ih m h']
        simp [List.map_map]

theorem length_selOfIdx (n : Nat) (c : List Nat) : (selOfIdx n c).length = n := by simp [selOfIdx]

/-- rows picked by `np.isin(arange(n), chosen)` -/
theorem maskFilter_selOfIdx {α : Type} [Inhabited α] (l : List α) (c : List Nat) :
    maskFilter l (selOfIdx l.length c) = ((List.range l.length).filter (fun i => c.contains i)).map (fun i => l[i]!) := by
  rw [maskFilter_eq_range l _ (length_selOfIdx _ _)]
  congr 1
  apply List.filter_congr
  intro i hi
  have hi' : i < l.length := List.mem_range.mp hi
  simp [selOfIdx, hi']

/-! ### any constructed screen -/

/-- facts about any constructed screen, phrased on its rows -/
structure ScreenFacts (s : Screen) : Prop where
  snames_eq : s.snames = (rowsOf s).map (·.sample)
  pnames_eq : s.pnames = (rowsOf s).map (·.plate)
  mask_eq : s.mask = (rowsOf s).map (·.mask)
  pids_eq : s.pids = s.pnames.map (sId (freshSMap s.pnames))
  tids_len : s.tids.length = (rowsOf s).length
  sids_len : s.sids.length = (rowsOf s).length

theorem rowsOf_cols {s : Screen} (n : Nat) (h1 : s.snames.length = n) (h2 : s.tnames.length = n) (h3 : s.tdoses.length = n)
    (h4 : s.obs.length = n) (h5 : s.pnames.length = n) (h6 : s.mask.length = n) :
    (rowsOf s).length = n ∧ s.snames = (rowsOf s).map (·.sample) ∧ s.pnames = (rowsOf s).map (·.plate) ∧
      s.mask = (rowsOf s).map (·.mask) := by
  unfold rowsOf
  refine ⟨by simp [List.length_zip]; omega, ?_, ?_, ?_⟩
  · simp only [List.map_map]
    have : ((fun x : Row => x.sample) ∘ mkRow) = Prod.fst ∘ Prod.fst ∘ Prod.fst ∘ Prod.fst ∘ Prod.fst := rfl
    rw [this]
    simp only [← List.map_map]
    rw [List.map_fst_zip (by simp [List.length_zip]; omega), List.map_fst_zip (by simp [List.length_zip]; omega),
      List.map_fst_zip (by simp [List.length_zip]; omega), List.map_fst_zip (by simp [List.length_zip]; omega),
      List.map_fst_zip (by omega)]
  · simp only [List.map_map]
    have : ((fun x : Row => x.plate) ∘ mkRow) = Prod.snd ∘ Prod.fst := rfl
    rw [this]
    simp only [← List.map_map]
    rw [List.map_fst_zip (by simp [List.length_zip]; omega), List.map_snd_zip (by simp [List.length_zip]; omega)]
  · simp only [List.map_map]
    have : ((fun x : Row => x.mask) ∘ mkRow) = Prod.snd := rfl
    rw [this]
    rw [List.map_snd_zip (by simp [List.length_zip]; omega)]

theorem facts_of_mk {r : Raw} {s : Screen} (h : mk? r = .ok s) : ScreenFacts s := by
  have m := (mk?_ok_iff r s).mp h
  have ho : s.obs.length = r.tnames.length := by
    rw [m.obs_eq]
    have := m.len_obs
    unfold obsLenBad at this; unfold obsOf
    cases hobs : r.obs with
    | none => simp
    | some o => rw [hobs] at this; simpa using this
  obtain ⟨hl, e1, e2, e3⟩ := rowsOf_cols (s := s) r.tnames.length (by rw [m.snames_eq, m.len_snames]) (by rw [m.tnames_eq])
    (by rw [m.tdoses_eq, m.len_tdoses]) ho (by rw [m.pnames_eq, m.len_pnames]) (by rw [m.mask_eq, m.len_mask])
  refine ⟨e1, e2, e3, ?_, by rw [hl, m.tids_shape.1], by rw [hl, m.len_sids]⟩
  have := m.pmap_eq.2; rw [← m.pnames_eq] at this; exact this

end Batchie.Prep
