/-
  Lemmas for C18 about the draw-source model `Batchie.Model.Rand`.
-/
import Batchie.Model.Rand

namespace Batchie.Rand

/-! ### `OnlyG` is preserved by the program combinators -/

theorem OnlyG.bind {α β : Type} {p : Prog α} (hp : OnlyG p) {f : α → Prog β}
    (hf : ∀ a, OnlyG (f a)) : OnlyG (p.bind f) := by
  induction hp with
  | ret a => exact hf a
  | draw k c _ ih => exact OnlyG.draw k _ ih

theorem OnlyG.map {α β : Type} {p : Prog α} (hp : OnlyG p) (f : α → β) : OnlyG (p.map f) :=
  hp.bind (fun a => OnlyG.ret (f a))

def allG (es : List Event) : Bool := es.all (fun e => e.src == .supplied)

theorem onlyG_fromEvents : ∀ (es : List Event), allG es = true → OnlyG (fromEvents es)
  | [], _ => OnlyG.ret []
  | e :: es, h => by
    simp only [allG, List.all_cons, Bool.and_eq_true, beq_iff_eq] at h
    obtain ⟨s, k⟩ := e
    simp only at h
    rw [fromEvents, h.1]
    exact OnlyG.draw k _ (fun v => (onlyG_fromEvents es (by simpa [allG] using h.2)).map _)

theorem onlyG_drawWhile (k : Kind) (more : List Nat → Bool) :
    ∀ (fuel : Nat) (acc : List Nat), OnlyG (drawWhile .supplied k more fuel acc)
  | 0, acc => OnlyG.ret acc
  | fuel + 1, acc => by
    rw [drawWhile]
    split
    · exact OnlyG.draw k _ (fun v => onlyG_drawWhile k more fuel _)
    · exact OnlyG.ret acc

theorem onlyG_seq {p q : Prog (List Nat)} (hp : OnlyG p) (hq : OnlyG q) : OnlyG (seq p q) :=
  hp.bind (fun _ => hq.map _)

theorem onlyG_seqAll : ∀ (ps : List (Prog (List Nat))), (∀ p ∈ ps, OnlyG p) → OnlyG (seqAll ps)
  | [], _ => OnlyG.ret []
  | p :: ps, h =>
    onlyG_seq (h p (by simp)) (onlyG_seqAll ps (fun q hq => h q (by simp [hq])))

/-! ### `allG` bookkeeping -/

@[simp] theorem allG_nil : allG [] = true := rfl
@[simp] theorem allG_append (a b : List Event) : allG (a ++ b) = (allG a && allG b) := by
  simp [allG]
@[simp] theorem allG_cons (e : Event) (es : List Event) :
    allG (e :: es) = (e.src == .supplied && allG es) := by simp [allG]
@[simp] theorem allG_rep (n : Nat) (k : Kind) : allG (rep n .supplied k) = true := by
  simp [allG, rep, ev]
@[simp] theorem allG_wrapped (b : Bool) (es : List Event) (h : allG es = true) :
    allG (wrapped b es) = true := by
  cases b <;> simp [wrapped, h]
theorem allG_flatten (ls : List (List Event)) (h : ∀ l ∈ ls, allG l = true) :
    allG ls.flatten = true := by
  induction ls with
  | nil => rfl
  | cons l ls ih => simp [h l (by simp), ih (fun l' hl' => h l' (by simp [hl']))]
theorem allG_flatMap {α : Type} (xs : List α) (f : α → List Event) (h : ∀ x, allG (f x) = true) :
    allG (xs.flatMap f) = true := by
  induction xs with
  | nil => rfl
  | cons x xs ih => simp [h x, ih]

theorem allG_genEvents (g : GenKind) (anchors : Bool) (n k : Nat) :
    allG (genEvents g anchors n k) = true := by
  cases g <;> cases anchors <;> simp [genEvents, pairwiseEvents, ev]

theorem allG_smootherEvents (s : SmootherKind) (n : Nat) : allG (smootherEvents s n) = true := by
  cases s <;> simp [smootherEvents]

theorem allG_scorerEvents (s : ScorerKind) (n : Nat) : allG (scorerEvents .supplied s n) = true := by
  cases s <;> simp [scorerEvents]

theorem allG_mvn : allG (mvnEvents true) = true := by simp [mvnEvents, ev]

theorem allG_vecBlock (units : List Bool) : allG (vecBlock true units) = true :=
  allG_flatMap _ _ (fun has => by cases has <;> simp [mvnEvents, ev, rnd])

theorem allG_scalarBlock (units : List Bool) : allG (scalarBlock true units) = true := by
  simp [allG, scalarBlock, ev, rnd]

theorem allG_shrinkBlock (c : SweepCfg) : allG (shrinkBlock true c) = true := by
  cases h : c.localShrinkage <;> simp [shrinkBlock, h, rnd]

theorem allG_precWBlock (c : SweepCfg) : allG (precWBlock true c) = true := by
  cases h : c.multGamma <;> simp [precWBlock, h, rnd, ev]

theorem allG_sweep (m : ModelKind) (c : SweepCfg) : allG (sweepEvents true m c) = true := by
  cases m
  · simp only [sweepEvents, sweepComboEvents, allG_append, allG_scalarBlock, allG_vecBlock,
      allG_shrinkBlock, allG_precWBlock, Bool.and_true]
    cases c.hasObs <;> cases c.fakeIntercept <;> simp [ev, rnd]
  · simp [sweepEvents, sweepInterEvents, allG_vecBlock, allG_shrinkBlock, allG_precWBlock, ev, rnd]

theorem allG_sampleMCMC (m : ModelKind) (c : SweepCfg) (steps : Nat) :
    allG (sampleMCMCEvents m c steps) = true :=
  allG_flatten _ (fun l hl => by rw [List.eq_of_mem_replicate hl]; exact allG_sweep m c)

/-! ### running a G-only program -/

theorem run_onlyG {α : Type} {p : Prog α} (h : OnlyG p) :
    ∀ (g γ γ' ω ω' : Stream),
      (run p ⟨g, γ, ω⟩).out = (run p ⟨g, γ', ω'⟩).out ∧
      (run p ⟨g, γ, ω⟩).trace = (run p ⟨g, γ', ω'⟩).trace ∧
      (run p ⟨g, γ, ω⟩).world.g = (run p ⟨g, γ', ω'⟩).world.g ∧
      (run p ⟨g, γ, ω⟩).world.γ = γ ∧ (run p ⟨g, γ, ω⟩).world.ω = ω := by
  induction h with
  | ret a => intro g γ γ' ω ω'; exact ⟨rfl, rfl, rfl, rfl, rfl⟩
  | draw k c _ ih =>
    intro g γ γ' ω ω'
    have := ih (g 0) g.tail γ γ' ω ω'
    simp only [run, World.pop]
    exact ⟨this.1, by rw [this.2.1], this.2.2.1, this.2.2.2.1, this.2.2.2.2⟩

/-- every event of a G-only run is tagged `supplied` -/
theorem trace_onlyG {α : Type} {p : Prog α} (h : OnlyG p) :
    ∀ (w : World), ∀ e ∈ (run p w).trace, e.src = .supplied := by
  induction h with
  | ret a => intro w e he; simp [run] at he
  | draw k c _ ih =>
    intro w e he
    simp only [run, List.mem_cons] at he
    rcases he with rfl | he
    · rfl
    · exact ih _ _ e he

/-- the trace of `fromEvents es` is `es`, in every world -/
theorem trace_fromEvents : ∀ (es : List Event) (w : World), (run (fromEvents es) w).trace = es
  | [], _ => rfl
  | e :: es, w => by
    have key : ∀ (p : Prog (List Nat)) (f : List Nat → List Nat) (w : World),
        (run (p.map f) w).trace = (run p w).trace := by
      intro p
      induction p with
      | ret a => intro f w; rfl
      | draw s k c ih => intro f w; simp only [Prog.map, Prog.bind, run]; congr 1; exact ih _ f _
    simp only [fromEvents, run]
    rw [key, trace_fromEvents es]

end Batchie.Rand
