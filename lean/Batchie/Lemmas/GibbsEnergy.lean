/-
  The documented model as an energy (negative log-density) over `ℝ`, and how it depends on one
  Gaussian block.

  likelihood   y_n ~ N(mu_n, 1/prec),  mu_n = alpha + W0[c] + V0[d1] + V0[d2]
                                              + <W[c], V1[d1]+V1[d2]> + <W[c], V2[d1]∘V2[d2]>   (control contributes 0)
  priors       W0[c] ~ N(0, 1/tau0),  V0[m] ~ N(0, 1/(phi0[m]·eta0)),  W[c,d] ~ N(0, 1/tau_d),
               V2[m,d] ~ N(0, 1/(phi2[m,d]·eta2[d])),  V1[m,d] ~ N(0, 1/(phi1[m,d]·eta1[d]))
  (read off the code's own no-data branches).  `energy` keeps the terms that depend on the Gaussian blocks;
  the normalisers and the hyper-priors of the precisions do not, and are treated in the gamma theorems.
-/
import Batchie.Lemmas.GibbsState

namespace Batchie.Gibbs
open Finset

noncomputable def likEnergy (dt : Data ℝ) (st : State ℝ) : ℝ :=
  (1/2) * st.prec * ∑ n ∈ range dt.N, (dt.y n - mu dt st n)^2
noncomputable def priW0 (dt : Data ℝ) (st : State ℝ) : ℝ :=
  (1/2) * ∑ c ∈ range dt.nC, st.tau0 * st.W0 c ^ 2
noncomputable def priV0 (dt : Data ℝ) (st : State ℝ) : ℝ :=
  (1/2) * ∑ m ∈ range dt.nT, (st.phi0 m * st.eta0) * st.V0 m ^ 2
noncomputable def priW (dt : Data ℝ) (st : State ℝ) : ℝ :=
  (1/2) * ∑ c ∈ range dt.nC, ∑ d ∈ range dt.D, st.tau d * st.W c d ^ 2
noncomputable def priV2 (dt : Data ℝ) (st : State ℝ) : ℝ :=
  (1/2) * ∑ m ∈ range dt.nT, ∑ d ∈ range dt.D, (st.phi2 m d * st.eta2 d) * st.V2 m d ^ 2
noncomputable def priV1 (dt : Data ℝ) (st : State ℝ) : ℝ :=
  (1/2) * ∑ m ∈ range dt.nT, ∑ d ∈ range dt.D, (st.phi1 m d * st.eta1 d) * st.V1 m d ^ 2

/-- negative log of the documented joint density, as a function of the Gaussian blocks -/
noncomputable def energy (dt : Data ℝ) (st : State ℝ) : ℝ :=
  likEnergy dt st + priW0 dt st + priV0 dt st + priW dt st + priV2 dt st + priV1 dt st

/-- a sum over units with one unit replaced: the replaced unit's term plus the untouched rest -/
theorem sum_upd_split {β : Type} (n c : ℕ) (hc : c < n) (f : ℕ → β) (a : β) (g : β → ℝ) :
    ∑ i ∈ range n, g (upd f c a i) = g a + ∑ i ∈ (range n).erase c, g (f i) := by
  rw [← add_sum_erase (range n) _ (mem_range.mpr hc), upd_same]
  congr 1
  apply sum_congr rfl; intro i hi
  rw [upd_other _ _ _ _ (ne_of_mem_erase hi)]

theorem lik_of_affine (dt : Data ℝ) (st : State ℝ) (D : ℕ) (base : ℕ → ℝ) (X : ℕ → ℕ → ℝ) (x : ℕ → ℝ)
    (h : ∀ n, n < dt.N → mu dt st n = base n + ∑ d ∈ range D, X n d * x d) :
    likEnergy dt st = (1/2) * st.prec * ∑ n ∈ range dt.N, ((dt.y n - base n) - ∑ d ∈ range D, X n d * x d)^2 := by
  unfold likEnergy
  congr 1
  apply sum_congr rfl; intro n hn
  rw [h n (mem_range.mp hn)]; ring

/-! ### vector blocks: energy as a function of the block = `blockEnergy` + terms free of the block -/

theorem energy_W (dt : Data ℝ) (st : State ℝ) (c : ℕ) (hc : c < dt.nC) (x : ℕ → ℝ) :
    energy dt (setW st c x)
      = blockEnergy dt.N dt.D st.prec (wBlk dt st c).design (fun n => dt.y n - mu dt (setW st c (fun _ => 0)) n) st.tau x
        + ((1/2) * ∑ i ∈ (range dt.nC).erase c, ∑ d ∈ range dt.D, st.tau d * st.W i d ^ 2
            + priW0 dt st + priV0 dt st + priV2 dt st + priV1 dt st) := by
  unfold energy blockEnergy
  rw [lik_of_affine dt (setW st c x) dt.D _ _ x (fun n _ => mu_affine_W dt st c x n)]
  have hp : priW dt (setW st c x) = (1/2) * (∑ d ∈ range dt.D, st.tau d * x d ^ 2
      + ∑ i ∈ (range dt.nC).erase c, ∑ d ∈ range dt.D, st.tau d * st.W i d ^ 2) := by
    unfold priW setW
    rw [sum_upd_split dt.nC c hc st.W x (fun row => ∑ d ∈ range dt.D, st.tau d * row d ^ 2)]
  rw [hp]
  show _ + priW0 dt st + priV0 dt st + _ + priV2 dt st + priV1 dt st = _
  show (1/2) * st.prec * _ + _ + _ + _ + _ + _ = _
  ring

theorem energy_V2 (dt : Data ℝ) (hw : WellFormed dt) (hp : NoSelfPair dt) (st : State ℝ) (m : ℕ) (hm : m < dt.nT)
    (x : ℕ → ℝ) :
    energy dt (setV2 st m x)
      = blockEnergy dt.N dt.D st.prec (v2Blk dt st m).design (fun n => dt.y n - mu dt (setV2 st m (fun _ => 0)) n)
          (fun d => st.phi2 m d * st.eta2 d) x
        + ((1/2) * ∑ i ∈ (range dt.nT).erase m, ∑ d ∈ range dt.D, (st.phi2 i d * st.eta2 d) * st.V2 i d ^ 2
            + priW0 dt st + priV0 dt st + priW dt st + priV1 dt st) := by
  unfold energy blockEnergy
  rw [lik_of_affine dt (setV2 st m x) dt.D _ _ x (fun n hn => mu_affine_V2 dt hw hp st m x n hn)]
  have hq : priV2 dt (setV2 st m x) = (1/2) * (∑ d ∈ range dt.D, (st.phi2 m d * st.eta2 d) * x d ^ 2
      + ∑ i ∈ (range dt.nT).erase m, ∑ d ∈ range dt.D, (st.phi2 i d * st.eta2 d) * st.V2 i d ^ 2) := by
    unfold priV2 setV2
    have := sum_upd_split dt.nT m hm st.V2 x
    sorry
  sorry

end Batchie.Gibbs
