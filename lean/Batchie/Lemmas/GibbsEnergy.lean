/-
  The documented model as an energy (negative log-density) over `ℝ`, and how it depends on one
  Gaussian block.

  likelihood   y_n ~ N(mu_n, 1/prec),  mu_n = alpha + W0[c] + V0[d1] + V0[d2]
                                              + <W[c], V1[d1]+V1[d2]> + <W[c], V2[d1]∘V2[d2]>   (control contributes 0)
  priors       W0[c] ~ N(0, 1/tau0),  V0[m] ~ N(0, 1/(phi0[m]·eta0)),  W[c,d] ~ N(0, 1/tau_d),
               V2[m,d] ~ N(0, 1/(phi2[m,d]·eta2[d])),  V1[m,d] ~ N(0, 1/(phi1[m,d]·eta1[d]))
  (read off the code's own no-data branches).  `energy` keeps the terms that depend on the Gaussian blocks;
  the normalisers and the hyper-priors of the precisions do not, and are treated in the gamma theorems.
-/
import Batchie.Lemmas.GibbsState

namespace Batchie.Gibbs
open Finset

noncomputable def likEnergy (dt : Data ℝ) (st : State ℝ) : ℝ :=
  (1/2) * st.prec * ∑ n ∈ range dt.N, (dt.y n - mu dt st n)^2
noncomputable def priW0 (dt : Data ℝ) (st : State ℝ) : ℝ :=
  (1/2) * ∑ c ∈ range dt.nC, st.tau0 * st.W0 c ^ 2
noncomputable def priV0 (dt : Data ℝ) (st : State ℝ) : ℝ :=
  (1/2) * ∑ m ∈ range dt.nT, (st.phi0 m * st.eta0) * st.V0 m ^ 2
noncomputable def priW (dt : Data ℝ) (st : State ℝ) : ℝ :=
  (1/2) * ∑ c ∈ range dt.nC, ∑ d ∈ range dt.D, st.tau d * st.W c d ^ 2
noncomputable def priV2 (dt : Data ℝ) (st : State ℝ) : ℝ :=
  (1/2) * ∑ m ∈ range dt.nT, ∑ d ∈ range dt.D, (st.phi2 m d * st.eta2 d) * st.V2 m d ^ 2
noncomputable def priV1 (dt : Data ℝ) (st : State ℝ) : ℝ :=
  (1/2) * ∑ m ∈ range dt.nT, ∑ d ∈ range dt.D, (st.phi1 m d * st.eta1 d) * st.V1 m d ^ 2

/-- negative log of the documented joint density, as a function of the Gaussian blocks -/
noncomputable def energy (dt : Data ℝ) (st : State ℝ) : ℝ :=
  likEnergy dt st + priW0 dt st + priV0 dt st + priW dt st + priV2 dt st + priV1 dt st

/-- a sum over units with one unit replaced: the replaced unit's term plus the untouched rest -/
theorem sum_upd_split {β : Type} (n c : ℕ) (hc : c < n) (f : ℕ → β) (a : β) (g : ℕ → β → ℝ) :
    ∑ i ∈ range n, g i (upd f c a i) = g c a + ∑ i ∈ (range n).erase c, g i (f i) := by
  rw [← add_sum_erase (range n) _ (mem_range.mpr hc), upd_same]
  congr 1
  apply sum_congr rfl; intro i hi
  rw [upd_other _ _ _ _ (ne_of_mem_erase hi)]

theorem lik_of_affine (dt : Data ℝ) (st : State ℝ) (D : ℕ) (base : ℕ → ℝ) (X : ℕ → ℕ → ℝ) (x : ℕ → ℝ)
    (h : ∀ n, n < dt.N → mu dt st n = base n + ∑ d ∈ range D, X n d * x d) :
    likEnergy dt st = (1/2) * st.prec * ∑ n ∈ range dt.N, ((dt.y n - base n) - ∑ d ∈ range D, X n d * x d)^2 := by
  unfold likEnergy
  congr 1
  apply sum_congr rfl; intro n hn
  rw [h n (mem_range.mp hn)]; ring

/-! ### vector blocks: energy as a function of the block = `blockEnergy` + terms free of the block -/

theorem energy_W (dt : Data ℝ) (st : State ℝ) (c : ℕ) (hc : c < dt.nC) (x : ℕ → ℝ) :
    energy dt (setW st c x)
      = blockEnergy dt.N dt.D st.prec (wBlk dt st c).design (fun n => dt.y n - mu dt (setW st c (fun _ => 0)) n) st.tau x
        + ((1/2) * ∑ i ∈ (range dt.nC).erase c, ∑ d ∈ range dt.D, st.tau d * st.W i d ^ 2
            + priW0 dt st + priV0 dt st + priV2 dt st + priV1 dt st) := by
  unfold energy blockEnergy
  rw [lik_of_affine dt (setW st c x) dt.D _ _ x (fun n _ => mu_affine_W dt st c x n)]
  have hp : priW dt (setW st c x) = (1/2) * (∑ d ∈ range dt.D, st.tau d * x d ^ 2
      + ∑ i ∈ (range dt.nC).erase c, ∑ d ∈ range dt.D, st.tau d * st.W i d ^ 2) := by
    unfold priW setW
    rw [sum_upd_split dt.nC c hc st.W x (fun _ row => ∑ d ∈ range dt.D, st.tau d * row d ^ 2)]
  rw [hp]
  show _ + priW0 dt st + priV0 dt st + _ + priV2 dt st + priV1 dt st = _
  show (1/2) * st.prec * _ + _ + _ + _ + _ + _ = _
  ring

theorem energy_V2 (dt : Data ℝ) (hw : WellFormed dt) (hp : NoSelfPair dt) (st : State ℝ) (m : ℕ) (hm : m < dt.nT)
    (x : ℕ → ℝ) :
    energy dt (setV2 st m x)
      = blockEnergy dt.N dt.D st.prec (v2Blk dt st m).design (fun n => dt.y n - mu dt (setV2 st m (fun _ => 0)) n)
          (fun d => st.phi2 m d * st.eta2 d) x
        + ((1/2) * ∑ i ∈ (range dt.nT).erase m, ∑ d ∈ range dt.D, (st.phi2 i d * st.eta2 d) * st.V2 i d ^ 2
            + priW0 dt st + priV0 dt st + priW dt st + priV1 dt st) := by
  unfold energy blockEnergy
  rw [lik_of_affine dt (setV2 st m x) dt.D _ _ x (fun n hn => mu_affine_V2 dt hw hp st m x n hn)]
  have hq : priV2 dt (setV2 st m x) = (1/2) * (∑ d ∈ range dt.D, (st.phi2 m d * st.eta2 d) * x d ^ 2
      + ∑ i ∈ (range dt.nT).erase m, ∑ d ∈ range dt.D, (st.phi2 i d * st.eta2 d) * st.V2 i d ^ 2) := by
    unfold priV2 setV2
    rw [sum_upd_split dt.nT m hm st.V2 x (fun i row => ∑ d ∈ range dt.D, (st.phi2 i d * st.eta2 d) * row d ^ 2)]
  rw [hq]
  show _ + priW0 dt st + priV0 dt st + priW dt st + _ + priV1 dt st = _
  show (1/2) * st.prec * _ + _ + _ + _ + _ + _ = _
  ring

theorem energy_V1 (dt : Data ℝ) (hw : WellFormed dt) (hp : NoSelfPair dt) (st : State ℝ) (m : ℕ) (hm : m < dt.nT)
    (x : ℕ → ℝ) :
    energy dt (setV1 st m x)
      = blockEnergy dt.N dt.D st.prec (v1Blk dt st m).design (fun n => dt.y n - mu dt (setV1 st m (fun _ => 0)) n)
          (fun d => st.phi1 m d * st.eta1 d) x
        + ((1/2) * ∑ i ∈ (range dt.nT).erase m, ∑ d ∈ range dt.D, (st.phi1 i d * st.eta1 d) * st.V1 i d ^ 2
            + priW0 dt st + priV0 dt st + priW dt st + priV2 dt st) := by
  unfold energy blockEnergy
  rw [lik_of_affine dt (setV1 st m x) dt.D _ _ x (fun n hn => mu_affine_V1 dt hw hp st m x n hn)]
  have hq : priV1 dt (setV1 st m x) = (1/2) * (∑ d ∈ range dt.D, (st.phi1 m d * st.eta1 d) * x d ^ 2
      + ∑ i ∈ (range dt.nT).erase m, ∑ d ∈ range dt.D, (st.phi1 i d * st.eta1 d) * st.V1 i d ^ 2) := by
    unfold priV1 setV1
    rw [sum_upd_split dt.nT m hm st.V1 x (fun i row => ∑ d ∈ range dt.D, (st.phi1 i d * st.eta1 d) * row d ^ 2)]
  rw [hq]
  show _ + priW0 dt st + priV0 dt st + priW dt st + priV2 dt st + _ = _
  show (1/2) * st.prec * _ + _ + _ + _ + _ + _ = _
  ring

/-! ### scalar blocks -/

theorem lik_of_affine_s (dt : Data ℝ) (st : State ℝ) (base i : ℕ → ℝ) (x : ℝ)
    (h : ∀ n, n < dt.N → mu dt st n = base n + i n * x) :
    likEnergy dt st = (1/2) * st.prec * ∑ n ∈ range dt.N, ((dt.y n - base n) - i n * x)^2 := by
  unfold likEnergy
  congr 1
  apply sum_congr rfl; intro n hn
  rw [h n (mem_range.mp hn)]; ring

theorem energy_W0 (dt : Data ℝ) (st : State ℝ) (c : ℕ) (hc : c < dt.nC) (x : ℝ) :
    energy dt (setW0 st c x)
      = ((1/2) * st.prec * ∑ n ∈ range dt.N, ((dt.y n - mu dt (setW0 st c 0) n) - sDesign (selC dt c) selNone n * x)^2
          + (1/2) * st.tau0 * x^2)
        + ((1/2) * ∑ i ∈ (range dt.nC).erase c, st.tau0 * st.W0 i ^ 2
            + priV0 dt st + priW dt st + priV2 dt st + priV1 dt st) := by
  unfold energy
  rw [lik_of_affine_s dt (setW0 st c x) _ _ x (fun n _ => mu_affine_W0 dt st c x n)]
  have hq : priW0 dt (setW0 st c x) = (1/2) * (st.tau0 * x ^ 2 + ∑ i ∈ (range dt.nC).erase c, st.tau0 * st.W0 i ^ 2) := by
    unfold priW0 setW0
    rw [sum_upd_split dt.nC c hc st.W0 x (fun _ v => st.tau0 * v ^ 2)]
  rw [hq]
  show _ + _ + priV0 dt st + priW dt st + priV2 dt st + priV1 dt st = _
  show (1/2) * st.prec * _ + _ + _ + _ + _ + _ = _
  ring

theorem energy_V0 (dt : Data ℝ) (hw : WellFormed dt) (hp : NoSelfPair dt) (st : State ℝ) (m : ℕ) (hm : m < dt.nT)
    (x : ℝ) :
    energy dt (setV0 st m x)
      = ((1/2) * st.prec * ∑ n ∈ range dt.N,
            ((dt.y n - mu dt (setV0 st m 0) n) - sDesign (sel1 dt m) (sel2 dt m) n * x)^2
          + (1/2) * (st.phi0 m * st.eta0) * x^2)
        + ((1/2) * ∑ i ∈ (range dt.nT).erase m, (st.phi0 i * st.eta0) * st.V0 i ^ 2
            + priW0 dt st + priW dt st + priV2 dt st + priV1 dt st) := by
  unfold energy
  rw [lik_of_affine_s dt (setV0 st m x) _ _ x (fun n hn => mu_affine_V0 dt hw hp st m x n hn)]
  have hq : priV0 dt (setV0 st m x) = (1/2) * ((st.phi0 m * st.eta0) * x ^ 2
      + ∑ i ∈ (range dt.nT).erase m, (st.phi0 i * st.eta0) * st.V0 i ^ 2) := by
    unfold priV0 setV0
    rw [sum_upd_split dt.nT m hm st.V0 x (fun i v => (st.phi0 i * st.eta0) * v ^ 2)]
  rw [hq]
  show _ + priW0 dt st + _ + priW dt st + priV2 dt st + priV1 dt st = _
  show (1/2) * st.prec * _ + _ + _ + _ + _ + _ = _
  ring

/-! ### the block theorems in difference form -/

theorem cur_cache_W (dt : Data ℝ) (st : State ℝ) (h : CacheOK dt st) (c : ℕ) (n : ℕ) (hn : n < dt.N) :
    st.Mu n = mu dt (setW st c (fun _ => 0)) n + ∑ d ∈ range dt.D, (wBlk dt st c).design n d * st.W c d := by
  rw [h n hn, ← mu_affine_W, setW_self]

theorem noSelf_wBlk (dt : Data ℝ) (st : State ℝ) (c : ℕ) : (wBlk dt st c).NoSelf := noSelf_selC dt c
theorem noSelf_v2Blk (dt : Data ℝ) (hp : NoSelfPair dt) (st : State ℝ) (m : ℕ) : (v2Blk dt st m).NoSelf :=
  noSelf_of_noSelfPair dt hp m
theorem noSelf_v1Blk (dt : Data ℝ) (hp : NoSelfPair dt) (st : State ℝ) (m : ℕ) : (v1Blk dt st m).NoSelf :=
  noSelf_of_noSelfPair dt hp m

theorem block_W (dt : Data ℝ) (st : State ℝ) (h : CacheOK dt st) (c : ℕ) (hc : c < dt.nC) (x : ℕ → ℝ) :
    energy dt (setW st c x) - energy dt (setW st c (fun _ => 0))
      = (1/2) * ∑ d ∈ range dt.D, ∑ e ∈ range dt.D, x d * (wBlk dt st c).Q st.prec d e * x e
        - ∑ d ∈ range dt.D, (wBlk dt st c).muPart dt.y st.Mu st.prec d * x d := by
  rw [energy_W dt st c hc x, energy_W dt st c hc (fun _ => 0)]
  have G := gaussian_block dt.N dt.D st.prec (wBlk dt st c).design
    (fun n => dt.y n - mu dt (setW st c (fun _ => 0)) n) st.tau x
  have hQ : ∀ d e, (wBlk dt st c).Q st.prec d e = blockQ dt.N st.prec (wBlk dt st c).design st.tau d e :=
    fun d e => Blk.Q_spec _ (noSelf_wBlk dt st c) _ d e
  have hB : ∀ d, (wBlk dt st c).muPart dt.y st.Mu st.prec d
      = blockB dt.N st.prec (wBlk dt st c).design (fun n => dt.y n - mu dt (setW st c (fun _ => 0)) n) d :=
    fun d => Blk.muPart_spec _ (noSelf_wBlk dt st c) _ _ (fun n => mu dt (setW st c (fun _ => 0)) n) _
      (fun n hn => cur_cache_W dt st h c n hn) d
  simp only [hQ, hB]
  linarith [G]


theorem cur_cache_V2 (dt : Data ℝ) (hw : WellFormed dt) (hp : NoSelfPair dt) (st : State ℝ) (h : CacheOK dt st) (m : ℕ) (n : ℕ) (hn : n < dt.N) :
    st.Mu n = mu dt (setV2 st m (fun _ => 0)) n + ∑ d ∈ range dt.D, (v2Blk dt st m).design n d * st.V2 m d := by
  rw [h n hn, ← mu_affine_V2 dt hw hp st m _ n hn, setV2_self]

theorem block_V2 (dt : Data ℝ) (hw : WellFormed dt) (hp : NoSelfPair dt) (st : State ℝ) (h : CacheOK dt st) (m : ℕ) (hm : m < dt.nT) (x : ℕ → ℝ) :
    energy dt (setV2 st m x) - energy dt (setV2 st m (fun _ => 0))
      = (1/2) * ∑ d ∈ range dt.D, ∑ e ∈ range dt.D, x d * (v2Blk dt st m).Q st.prec d e * x e
        - ∑ d ∈ range dt.D, (v2Blk dt st m).muPart dt.y st.Mu st.prec d * x d := by
  rw [energy_V2 dt hw hp st m hm x, energy_V2 dt hw hp st m hm (fun _ => 0)]
  have G := gaussian_block dt.N dt.D st.prec (v2Blk dt st m).design
    (fun n => dt.y n - mu dt (setV2 st m (fun _ => 0)) n) (fun d => st.phi2 m d * st.eta2 d) x
  have hQ : ∀ d e, (v2Blk dt st m).Q st.prec d e
      = blockQ dt.N st.prec (v2Blk dt st m).design (fun d => st.phi2 m d * st.eta2 d) d e :=
    fun d e => Blk.Q_spec _ (noSelf_v2Blk dt hp st m) _ d e
  have hB : ∀ d, (v2Blk dt st m).muPart dt.y st.Mu st.prec d
      = blockB dt.N st.prec (v2Blk dt st m).design (fun n => dt.y n - mu dt (setV2 st m (fun _ => 0)) n) d :=
    fun d => Blk.muPart_spec _ (noSelf_v2Blk dt hp st m) _ _ (fun n => mu dt (setV2 st m (fun _ => 0)) n) _
      (fun n hn => cur_cache_V2 dt hw hp st h m n hn) d
  simp only [hQ, hB]
  linarith [G]

theorem cur_cache_V1 (dt : Data ℝ) (hw : WellFormed dt) (hp : NoSelfPair dt) (st : State ℝ) (h : CacheOK dt st) (m : ℕ) (n : ℕ) (hn : n < dt.N) :
    st.Mu n = mu dt (setV1 st m (fun _ => 0)) n + ∑ d ∈ range dt.D, (v1Blk dt st m).design n d * st.V1 m d := by
  rw [h n hn, ← mu_affine_V1 dt hw hp st m _ n hn, setV1_self]

theorem block_V1 (dt : Data ℝ) (hw : WellFormed dt) (hp : NoSelfPair dt) (st : State ℝ) (h : CacheOK dt st) (m : ℕ) (hm : m < dt.nT) (x : ℕ → ℝ) :
    energy dt (setV1 st m x) - energy dt (setV1 st m (fun _ => 0))
      = (1/2) * ∑ d ∈ range dt.D, ∑ e ∈ range dt.D, x d * (v1Blk dt st m).Q st.prec d e * x e
        - ∑ d ∈ range dt.D, (v1Blk dt st m).muPart dt.y st.Mu st.prec d * x d := by
  rw [energy_V1 dt hw hp st m hm x, energy_V1 dt hw hp st m hm (fun _ => 0)]
  have G := gaussian_block dt.N dt.D st.prec (v1Blk dt st m).design
    (fun n => dt.y n - mu dt (setV1 st m (fun _ => 0)) n) (fun d => st.phi1 m d * st.eta1 d) x
  have hQ : ∀ d e, (v1Blk dt st m).Q st.prec d e
      = blockQ dt.N st.prec (v1Blk dt st m).design (fun d => st.phi1 m d * st.eta1 d) d e :=
    fun d e => Blk.Q_spec _ (noSelf_v1Blk dt hp st m) _ d e
  have hB : ∀ d, (v1Blk dt st m).muPart dt.y st.Mu st.prec d
      = blockB dt.N st.prec (v1Blk dt st m).design (fun n => dt.y n - mu dt (setV1 st m (fun _ => 0)) n) d :=
    fun d => Blk.muPart_spec _ (noSelf_v1Blk dt hp st m) _ _ (fun n => mu dt (setV1 st m (fun _ => 0)) n) _
      (fun n hn => cur_cache_V1 dt hw hp st h m n hn) d
  simp only [hQ, hB]
  linarith [G]

theorem cur_cache_W0 (dt : Data ℝ) (st : State ℝ) (h : CacheOK dt st) (c : ℕ) (n : ℕ) (hn : n < dt.N) :
    st.Mu n = mu dt (setW0 st c 0) n + sDesign (selC dt c) selNone n * st.W0 c := by
  rw [h n hn, ← mu_affine_W0, setW0_self]

theorem cur_cache_V0 (dt : Data ℝ) (hw : WellFormed dt) (hp : NoSelfPair dt) (st : State ℝ) (h : CacheOK dt st)
    (m : ℕ) (n : ℕ) (hn : n < dt.N) :
    st.Mu n = mu dt (setV0 st m 0) n + sDesign (sel1 dt m) (sel2 dt m) n * st.V0 m := by
  rw [h n hn, ← mu_affine_V0 dt hw hp st m _ n hn, setV0_self]

/-- canonical parameters of the conditional of `W0[c]` -/
noncomputable def qW0 (dt : Data ℝ) (st : State ℝ) (c : ℕ) : ℝ := sQ dt.N (selC dt c) selNone st.prec st.tau0
noncomputable def bW0 (dt : Data ℝ) (st : State ℝ) (c : ℕ) : ℝ :=
  sB dt.N (selC dt c) selNone st.prec (fun n => dt.y n - mu dt (setW0 st c 0) n)
noncomputable def qV0 (dt : Data ℝ) (st : State ℝ) (m : ℕ) : ℝ :=
  sQ dt.N (sel1 dt m) (sel2 dt m) st.prec (st.phi0 m * st.eta0)
noncomputable def bV0 (dt : Data ℝ) (st : State ℝ) (m : ℕ) : ℝ :=
  sB dt.N (sel1 dt m) (sel2 dt m) st.prec (fun n => dt.y n - mu dt (setV0 st m 0) n)

theorem block_W0 (dt : Data ℝ) (st : State ℝ) (c : ℕ) (hc : c < dt.nC) (x : ℝ) :
    energy dt (setW0 st c x) - energy dt (setW0 st c 0) = (1/2) * qW0 dt st c * x^2 - bW0 dt st c * x := by
  rw [energy_W0 dt st c hc x, energy_W0 dt st c hc 0]
  have G := scalar_block dt.N (selC dt c) selNone st.prec st.tau0 (fun n => dt.y n - mu dt (setW0 st c 0) n) x
  unfold qW0 bW0
  linarith [G]

theorem block_V0 (dt : Data ℝ) (hw : WellFormed dt) (hp : NoSelfPair dt) (st : State ℝ) (m : ℕ) (hm : m < dt.nT)
    (x : ℝ) :
    energy dt (setV0 st m x) - energy dt (setV0 st m 0) = (1/2) * qV0 dt st m * x^2 - bV0 dt st m * x := by
  rw [energy_V0 dt hw hp st m hm x, energy_V0 dt hw hp st m hm 0]
  have G := scalar_block dt.N (sel1 dt m) (sel2 dt m) st.prec (st.phi0 m * st.eta0)
    (fun n => dt.y n - mu dt (setV0 st m 0) n) x
  unfold qV0 bV0
  linarith [G]

theorem args_W0 (dt : Data ℝ) (st : State ℝ) (h : CacheOK dt st) (c : ℕ) :
    w0Args dt st c = ⟨bW0 dt st c / qW0 dt st c, 1 / Real.sqrt (qW0 dt st c)⟩ :=
  sArgs_spec dt.N (selC dt c) selNone (noSelf_selC dt c) dt.y st.Mu (fun n => mu dt (setW0 st c 0) n)
    st.prec st.tau0 (st.W0 c) (fun n hn => cur_cache_W0 dt st h c n hn)

theorem args_V0 (dt : Data ℝ) (hw : WellFormed dt) (hp : NoSelfPair dt) (st : State ℝ) (h : CacheOK dt st) (m : ℕ) :
    v0Args dt st m = ⟨bV0 dt st m / qV0 dt st m, 1 / Real.sqrt (qV0 dt st m)⟩ :=
  sArgs_spec dt.N (sel1 dt m) (sel2 dt m) (noSelf_of_noSelfPair dt hp m) dt.y st.Mu
    (fun n => mu dt (setV0 st m 0) n) st.prec (st.phi0 m * st.eta0) (st.V0 m)
    (fun n hn => cur_cache_V0 dt hw hp st h m n hn)

theorem sQ_pos (N : ℕ) (s1 s2 : ℕ → Bool) (prec lam : ℝ) (hp : 0 ≤ prec) (hl : 0 < lam) : 0 < sQ N s1 s2 prec lam := by
  unfold sQ
  have : 0 ≤ ∑ n ∈ range N, sDesign s1 s2 n * sDesign s1 s2 n := sum_nonneg (fun n _ => mul_self_nonneg _)
  have := mul_nonneg hp this
  linarith

end Batchie.Gibbs
