/-
  C17, VI branch under the translator: the generated `Batchie.Gen.SamplingVI.run n r`
  (`model.reset_model(); rng = default_rng(seed); model.set_rng(rng);
    samples = model.sample(num_samples=results.n_thetas); for theta in samples: results.add_theta(theta)`)
  with `r` = length of the list the model returned.  Event codes: 2 reset, 3 set_rng,
  4 followed by its argument = `model.sample(num_samples=·)`, 1 = `results.add_theta`.
-/
import Batchie.Lemmas.SamplingSchedule

namespace Batchie.Lemmas.SamplingVI

open Batchie.PyInt
open Batchie.Gen.SamplingVI
open Batchie.Lemmas.SamplingSchedule (pyRange_zero_one pyRange_neg)

/-- the body of the `for theta in samples` loop, as in the generated text -/
def addF : St → Int → St := fun (st : St) (v : Int) =>
  let st : St := { st with theta := v }
  let st : St := { st with out := st.out ++ [(1 : Int)] }
  st

theorem add_fold_out (l : List Int) (st : St) :
    (l.foldl addF st).out = st.out ++ List.replicate l.length (1 : Int) ∧
    (l.foldl addF st).err = st.err ∧ (l.foldl addF st).n_thetas = st.n_thetas := by
  induction l generalizing st with
  | nil => simp
  | cons a l ih =>
    rw [List.foldl_cons]
    obtain ⟨h1, h2, h3⟩ := ih (addF st a)
    refine ⟨?_, ?_, ?_⟩
    · rw [h1]; simp [addF, List.replicate_succ]
    · rw [h2]; rfl
    · rw [h3]; rfl

theorem body_eq (st : St) :
    body st = (pyRange 0 st.returned 1).foldl addF
      { st with out := st.out ++ [(2 : Int)] ++ [(3 : Int)] ++ [(4 : Int), st.n_thetas] } := rfl

/-- the trace of the generated VI branch, for every `n` and every length `r ≥ 0` of the returned list -/
theorem run_out (n : Int) (r : Nat) :
    (run n (r : Int)).out = [2, 3, 4, n] ++ List.replicate r (1 : Int) ∧ (run n (r : Int)).err = false := by
  unfold run
  rw [body_eq]
  simp only []
  rw [pyRange_zero_one r]
  obtain ⟨h1, h2, _⟩ := add_fold_out ((List.range r).map (fun (i : Nat) => (i : Int)))
    { n_thetas := n, returned := (r : Int), out := [] ++ [(2 : Int)] ++ [(3 : Int)] ++ [(4 : Int), n] }
  refine ⟨?_, ?_⟩
  · rw [h1]; simp
  · rw [h2]

end Batchie.Lemmas.SamplingVI
