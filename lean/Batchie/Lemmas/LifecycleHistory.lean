/-
  Steps and histories of the simulation lifecycle: every step returns a constructed screen carrying the
  parent's mappings.
-/
import Batchie.Lemmas.LifecyclePlates
import Batchie.Lemmas.LifecycleRows

namespace Batchie.Lifecycle
open Batchie.Proto Batchie.Screen Batchie.Retro

theorem mk?_maps {r : Raw} {s : Screen} (h : mk? r = .ok s) :
    (∀ m, r.tmap = some m → s.tmap = m) ∧ (∀ m, r.smap = some m → s.smap = m) := by
  have c := (mk?_inv h).core
  obtain ⟨tf, hte, _, _⟩ := c.tenc
  exact ⟨(encodeTreatments_ok hte).2.1, (encode1d_ok c.senc).2.1⟩

theorem rebuild_maps {s t : Screen} {m : List Bool} (h : rebuild s m = .ok t) :
    Valid t ∧ t.tmap = s.tmap ∧ t.smap = s.smap := by
  have hm := mk?_maps h
  exact ⟨⟨_, h⟩, hm.1 _ rfl, hm.2 _ rfl⟩

theorem load_save_maps {s t : Screen} (h : load s.save = .ok t) :
    Valid t ∧ t.tmap = s.tmap ∧ t.smap = s.smap := by
  unfold load at h
  split at h
  · cases h
  · rw [load_save_raw] at h
    exact rebuild_maps h

theorem holdout_maps {s k t : Screen} {sel : List Bool} (h : holdout s sel = .ok (k, t)) :
    (Valid k ∧ k.tmap = s.tmap ∧ k.smap = s.smap) ∧ (Valid t ∧ t.tmap = s.tmap ∧ t.smap = s.smap) := by
  unfold holdout at h
  simp only [bind, Except.bind, pure, Except.pure, throw, throwThe, MonadExceptOf.throw] at h
  split at h
  · cases h
  split at h
  · cases h
  rename_i k' hk
  split at h
  · cases h
  rename_i t' ht
  injection h with h
  injection h with h1 h2
  subst h1 h2
  have mk := mk?_maps hk
  have mt := mk?_maps ht
  exact ⟨⟨⟨_, hk⟩, mk.1 _ rfl, mk.2 _ rfl⟩, ⟨⟨_, ht⟩, mt.1 _ rfl, mt.2 _ rfl⟩⟩

/-- the rows of the two halves are the parent's rows selected by the complement / the selection vector -/
theorem holdout_rows {s k t : Screen} {sel : List Bool} (h : holdout s sel = .ok (k, t)) :
    (k.tnames = maskFilter s.tnames (sel.map (!·)) ∧ k.tdoses = maskFilter s.tdoses (sel.map (!·))
      ∧ k.snames = maskFilter s.snames (sel.map (!·)) ∧ k.pnames = maskFilter s.pnames (sel.map (!·))
      ∧ k.obs = maskFilter s.obs (sel.map (!·)) ∧ k.mask = maskFilter s.mask (sel.map (!·)))
    ∧ (t.tnames = maskFilter s.tnames sel ∧ t.tdoses = maskFilter s.tdoses sel
      ∧ t.snames = maskFilter s.snames sel ∧ t.pnames = maskFilter s.pnames sel
      ∧ t.obs = maskFilter s.obs sel ∧ t.mask = List.replicate (sel.count true) true) := by
  unfold holdout at h
  simp only [bind, Except.bind, pure, Except.pure, throw, throwThe, MonadExceptOf.throw] at h
  split at h
  · cases h
  split at h
  · cases h
  rename_i k' hk
  split at h
  · cases h
  rename_i t' ht
  injection h with h
  injection h with h1 h2
  subst h1 h2
  have fk := mk?_inv hk
  have ft := mk?_inv ht
  exact ⟨⟨fk.core.tnames_eq, fk.core.tdoses_eq, fk.core.snames_eq, fk.core.pnames_eq, fk.obs_eq, fk.mask_eq⟩,
    ⟨ft.core.tnames_eq, ft.core.tdoses_eq, ft.core.snames_eq, ft.core.pnames_eq, ft.obs_eq, ft.mask_eq⟩⟩

/-- every step of the lifecycle returns a constructed screen with the parent's two mappings -/
theorem step_maps {op : Op} {s t : Screen} (h : step op s = .ok t) :
    Valid t ∧ t.tmap = s.tmap ∧ t.smap = s.smap := by
  cases op with
  | mask => exact rebuild_maps h
  | unmask => exact rebuild_maps h
  | reveal ids =>
    simp only [step, revealPlates] at h
    split at h
    · cases h
    · exact rebuild_maps h
  | saveLoad => exact load_save_maps h
  | holdKeep sel =>
    simp only [step] at h
    cases hh : holdout s sel with
    | error e => rw [hh] at h; cases h
    | ok p =>
      obtain ⟨k, t'⟩ := p
      rw [hh] at h
      injection h with h
      subst h
      exact (holdout_maps hh).1
  | holdTest sel =>
    simp only [step] at h
    cases hh : holdout s sel with
    | error e => rw [hh] at h; cases h
    | ok p =>
      obtain ⟨k, t'⟩ := p
      rw [hh] at h
      injection h with h
      subst h
      exact (holdout_maps hh).2

theorem run_cons {st : Op → Screen → Except Err Screen} {op : Op} {ops : List Op} {s : Screen} {trace : List Screen}
    (h : run st (op :: ops) s = .ok trace) :
    ∃ t rest, st op s = .ok t ∧ run st ops t = .ok rest ∧ trace = t :: rest := by
  simp only [run, bind, Except.bind, pure, Except.pure] at h
  split at h
  · cases h
  rename_i t ht
  split at h
  · cases h
  rename_i rest hrest
  injection h with h
  exact ⟨t, rest, ht, hrest, h.symm⟩

/-- induction over an arbitrary history: an invariant of single steps holds along the whole trace -/
theorem run_invariant {st : Op → Screen → Except Err Screen} (P : Screen → Prop)
    (hstep : ∀ op s t, P s → st op s = .ok t → P t) :
    ∀ (ops : List Op) (s : Screen) (trace : List Screen), P s → run st ops s = .ok trace → ∀ t ∈ trace, P t := by
  intro ops
  induction ops with
  | nil =>
    intro s trace _ h t ht
    simp only [run] at h
    injection h with h
    subst h
    cases ht
  | cons op ops ih =>
    intro s trace hs h t ht
    obtain ⟨t1, rest, h1, h2, rfl⟩ := run_cons h
    have hp1 := hstep op s t1 hs h1
    rcases List.mem_cons.1 ht with rfl | ht
    · exact hp1
    · exact ih t1 rest hp1 h2 t ht

/-- every screen of a trace is a constructed screen -/
theorem run_step_valid (ops : List Op) (s0 : Screen) (trace : List Screen) (hrun : run step ops s0 = .ok trace) :
    ∀ t ∈ trace, Valid t := by
  intro t ht
  induction ops generalizing s0 trace with
  | nil => simp only [run] at hrun; injection hrun with hrun; subst hrun; cases ht
  | cons op ops ih =>
    obtain ⟨t1, rest, h1, h2, rfl⟩ := run_cons hrun
    rcases List.mem_cons.1 ht with rfl | ht
    · exact (step_maps h1).1
    · exact ih t1 rest h2 ht

theorem mk?_arity_ctrl {r : Raw} {s : Screen} (h : mk? r = .ok s) : s.arity = r.arity ∧ s.ctrl = r.ctrl :=
  ⟨(mk?_inv h).core.arity_eq, (mk?_inv h).core.ctrl_eq⟩

/-- every step keeps the arity and the control name -/
theorem step_arity_ctrl {op : Op} {s t : Screen} (h : step op s = .ok t) : t.arity = s.arity ∧ t.ctrl = s.ctrl := by
  cases op with
  | mask => exact mk?_arity_ctrl h
  | unmask => exact mk?_arity_ctrl h
  | reveal ids =>
    simp only [step, revealPlates] at h
    split at h
    · cases h
    · exact mk?_arity_ctrl h
  | saveLoad =>
    simp only [step, load] at h
    split at h
    · cases h
    · exact mk?_arity_ctrl h
  | holdKeep sel =>
    simp only [step] at h
    cases hh : holdout s sel with
    | error e => rw [hh] at h; cases h
    | ok p =>
      obtain ⟨k, t'⟩ := p
      rw [hh] at h
      injection h with h
      subst h
      unfold holdout at hh
      simp only [bind, Except.bind, pure, Except.pure, throw, throwThe, MonadExceptOf.throw] at hh
      split at hh
      · cases hh
      split at hh
      · cases hh
      rename_i k' hk
      split at hh
      · cases hh
      injection hh with hh
      injection hh with h1 _
      subst h1
      exact mk?_arity_ctrl hk
  | holdTest sel =>
    simp only [step] at h
    cases hh : holdout s sel with
    | error e => rw [hh] at h; cases h
    | ok p =>
      obtain ⟨k, t'⟩ := p
      rw [hh] at h
      injection h with h
      subst h
      unfold holdout at hh
      simp only [bind, Except.bind, pure, Except.pure, throw, throwThe, MonadExceptOf.throw] at hh
      split at hh
      · cases hh
      split at hh
      · cases hh
      split at hh
      · cases hh
      rename_i t'' ht
      injection hh with hh
      injection hh with _ h2
      subst h2
      exact mk?_arity_ctrl ht

theorem tids_row_length {s : Screen} (h : WF s) (r : Nat) (hr : r < s.tnames.length) :
    (s.tids[r]!).length = s.arity := by
  obtain ⟨tf, _, _, htids⟩ := h.tenc
  rw [htids]
  simp [unflattenColumns, hr]

/-- rows with the same names and doses get the same ids, in any two screens sharing table and arity -/
theorem tids_row_eq {s t : Screen} (hs : WF s) (ht : WF t) (hm : t.tmap = s.tmap) (ha : t.arity = s.arity)
    (r1 r2 : Nat) (h1 : r1 < s.tnames.length) (h2 : r2 < t.tnames.length)
    (hn : s.tnames[r1]! = t.tnames[r2]!) (hd : s.tdoses[r1]! = t.tdoses[r2]!) : s.tids[r1]! = t.tids[r2]! := by
  apply List.ext_getElem
  · rw [tids_row_length hs r1 h1, tids_row_length ht r2 h2, ha]
  · intro c hc1 hc2
    have hc : c < s.arity := by rw [← tids_row_length hs r1 h1]; exact hc1
    have e1 := (rowsEncoded_of_wf hs).treat r1 c h1 hc
    have e2 := (rowsEncoded_of_wf ht).treat r2 c h2 (by rw [ha]; exact hc)
    rw [hm, ← hn, ← hd, e1] at e2
    rw [getElem!_pos _ c hc1, getElem!_pos _ c hc2] at e2
    injection e2 with e2

end Batchie.Lifecycle
