/-
  C15 / C05 -- facts about the call-site model (`Model/UnrankCallsite.lean`) that do not mention
  the generated unranking function: `comb3 n = C(n,3)`, the two enumerations of all triples
  (`Lemmas.Unrank.allTriples`, integer lists, used by C15; `Dbal.allTriples`, `Nat` triples, used
  by C05) correspond under `toTriple`, and a duplicate-free list of `N` naturals below `N` is a
  permutation of `range N` (what `rng.choice(N, size=N, replace=False)` returns).
-/
import Batchie.Lemmas.UnrankRank
import Batchie.Model.UnrankCallsite
import Mathlib.Data.List.Perm.Subperm

namespace Batchie.Lemmas.Unrank

open Batchie.UnrankCallsite

theorem comb3_eq (n : Nat) : comb3 n = n.choose 3 := by
  unfold comb3
  rw [Nat.choose_eq_descFactorial_div_factorial]
  simp only [Nat.descFactorial_succ, Nat.descFactorial_zero, Nat.factorial]
  congr 1
  simp only [Nat.sub_zero]
  ring

@[simp] theorem toTriple_cast (i j l : Nat) : toTriple [(i : Int), (j : Int), (l : Int)] = (i, j, l) := by
  simp [toTriple]

theorem map_toTriple_allTriples (n : Nat) :
    (allTriples n).map toTriple = Batchie.Dbal.allTriples n := by
  unfold allTriples Batchie.Dbal.allTriples
  simp only [List.map_flatMap, List.map_map]
  congr 1

/-- the numpy contract with `size = pop` forces a permutation of `range pop` -/
theorem perm_range_of_contract {N : Nat} {choice : List Nat} (h : ChoiceContract N N choice) :
    choice.Perm (List.range N) := by
  obtain ⟨hnd, hlt, hlen⟩ := h
  have hsub : choice.Subperm (List.range N) :=
    hnd.subperm (fun a ha => List.mem_range.2 (hlt a ha))
  exact hsub.perm_of_length_le (by simp [hlen])

end Batchie.Lemmas.Unrank
