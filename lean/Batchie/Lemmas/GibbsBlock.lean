/-
  Generic facts about one Gaussian block of the sampler, independent of which block it is:
  what the incremental cache update, `Q`, `mu_part`, `(mean, sd)` of `Model/Gibbs.lean`
  compute, expressed with the block's design rows.  `Lemmas/GibbsState.lean` instantiates them.
-/
import Batchie.Lemmas.GibbsSum

namespace Batchie.Gibbs
open Finset

/-! ### vector blocks -/

/-- design row of observation `n` for the block, as the code's update sees it (a row listed in
    both slices is written last from slice 2) -/
def Blk.design (b : Blk ℝ) (n d : ℕ) : ℝ :=
  if b.s2 n then b.x2 n d else if b.s1 n then b.x1 n d else 0

/-- no row is in both slices -/
def Blk.NoSelf (b : Blk ℝ) : Prop := ∀ n, n < b.N → ¬ (b.s1 n = true ∧ b.s2 n = true)

theorem Blk.muNext_spec (b : Blk ℝ) (Mu base v : ℕ → ℝ) (n : ℕ)
    (h : Mu n = base n + ∑ d ∈ range b.D, b.design n d * b.cur d) :
    b.muNext Mu v n = base n + ∑ d ∈ range b.D, b.design n d * v d := by
  unfold Blk.muNext Blk.old1 Blk.old2
  unfold Blk.design at h ⊢
  simp only [sumN_eq]
  by_cases h2 : b.s2 n = true
  · simp only [h2, if_true] at h ⊢; rw [h]; ring
  · by_cases h1 : b.s1 n = true
    · simp only [h2, h1, if_true] at h ⊢; simp only [Bool.false_eq_true, if_false] at h ⊢; rw [h]; ring
    · simp only [h2, h1] at h ⊢; simpa using h

theorem Blk.Q_spec (b : Blk ℝ) (hns : b.NoSelf) (prec : ℝ) (d e : ℕ) :
    b.Q prec d e = blockQ b.N prec b.design b.lam d e := by
  unfold Blk.Q blockQ
  simp only [sumN_eq]
  have hsum : ∑ n ∈ range b.N, (if b.s1 n then b.x1 n d * b.x1 n e else 0)
      + ∑ n ∈ range b.N, (if b.s2 n then b.x2 n d * b.x2 n e else 0)
      = ∑ n ∈ range b.N, b.design n d * b.design n e := by
    rw [← sum_add_distrib]
    apply sum_congr rfl; intro n hn
    have := hns n (mem_range.mp hn)
    unfold Blk.design
    by_cases h2 : b.s2 n = true
    · by_cases h1 : b.s1 n = true
      · exact absurd ⟨h1, h2⟩ this
      · simp [h1, h2]
    · by_cases h1 : b.s1 n = true
      · simp [h1, h2]
      · simp [h1, h2]
  rw [hsum]
  by_cases hde : d = e
  · simp only [hde, if_true]; ring
  · simp only [hde, if_false]; ring

theorem Blk.muPart_spec (b : Blk ℝ) (hns : b.NoSelf) (y Mu base : ℕ → ℝ) (prec : ℝ)
    (hc : ∀ n, n < b.N → Mu n = base n + ∑ d ∈ range b.D, b.design n d * b.cur d) (d : ℕ) :
    b.muPart y Mu prec d = blockB b.N prec b.design (fun n => y n - base n) d := by
  unfold Blk.muPart blockB Blk.old1 Blk.old2
  simp only [sumN_eq]
  rw [← sum_add_distrib, mul_comm]
  congr 1
  apply sum_congr rfl; intro n hn
  have hn' := mem_range.mp hn
  have := hns n hn'
  have hcn := hc n hn'
  unfold Blk.design at hcn ⊢
  by_cases h2 : b.s2 n = true
  · by_cases h1 : b.s1 n = true
    · exact absurd ⟨h1, h2⟩ this
    · simp only [h1, h2, if_true] at hcn ⊢
      simp only [Bool.false_eq_true, if_false, zero_add]; rw [hcn]; ring
  · by_cases h1 : b.s1 n = true
    · simp only [h1, h2, if_true] at hcn ⊢
      simp only [Bool.false_eq_true, if_false, add_zero] at hcn ⊢; rw [hcn]; ring
    · simp [h1, h2]

/-! ### scalar blocks -/

/-- indicator that the unit occurs in row `n` -/
def sDesign (s1 s2 : ℕ → Bool) (n : ℕ) : ℝ := if s1 n || s2 n then 1 else 0

def SNoSelf (N : ℕ) (s1 s2 : ℕ → Bool) : Prop := ∀ n, n < N → ¬ (s1 n = true ∧ s2 n = true)

/-- canonical precision of a scalar block: `prec·Σ i_n² + λ` -/
noncomputable def sQ (N : ℕ) (s1 s2 : ℕ → Bool) (prec lam : ℝ) : ℝ :=
  prec * (∑ n ∈ range N, sDesign s1 s2 n * sDesign s1 s2 n) + lam

/-- canonical linear coefficient of a scalar block: `prec·Σ i_n r_n` -/
noncomputable def sB (N : ℕ) (s1 s2 : ℕ → Bool) (prec : ℝ) (r : ℕ → ℝ) : ℝ :=
  prec * ∑ n ∈ range N, sDesign s1 s2 n * r n

theorem sHas_false_design (N : ℕ) (s1 s2 : ℕ → Bool) (h : sHas N s1 s2 = false) (n : ℕ) (hn : n < N) :
    sDesign s1 s2 n = 0 := by
  unfold sHas at h
  rw [Bool.or_eq_false_iff, anyN_false_iff, anyN_false_iff] at h
  simp [sDesign, h.1 n hn, h.2 n hn]

theorem sMuNext_spec (N : ℕ) (s1 s2 : ℕ → Bool) (Mu base : ℕ → ℝ) (old v : ℝ) (n : ℕ) (hn : n < N)
    (h : Mu n = base n + sDesign s1 s2 n * old) :
    sMuNext N s1 s2 Mu old v n = base n + sDesign s1 s2 n * v := by
  unfold sMuNext
  by_cases hh : sHas N s1 s2 = true
  · simp only [hh, if_true]
    unfold sDesign at h ⊢
    by_cases hs : (s1 n || s2 n) = true
    · simp only [hs, if_true] at h ⊢; rw [h]; ring
    · simp only [hs] at h ⊢; simpa using h
  · have hf : sHas N s1 s2 = false := by simpa using hh
    simp only [hf, Bool.false_eq_true, if_false]
    rw [sHas_false_design N s1 s2 hf n hn] at h ⊢
    simpa using h

theorem sCnt_spec (N : ℕ) (s1 s2 : ℕ → Bool) (hns : SNoSelf N s1 s2) :
    (sCnt N s1 s2 : ℝ) = ∑ n ∈ range N, sDesign s1 s2 n * sDesign s1 s2 n := by
  unfold sCnt
  simp only [sumN_eq]
  rw [← sum_add_distrib]
  apply sum_congr rfl; intro n hn
  have := hns n (mem_range.mp hn)
  unfold sDesign
  by_cases h1 : s1 n = true
  · by_cases h2 : s2 n = true
    · exact absurd ⟨h1, h2⟩ this
    · simp [h1, h2]
  · by_cases h2 : s2 n = true
    · simp [h1, h2]
    · simp [h1, h2]

theorem sSum_spec (N : ℕ) (s1 s2 : ℕ → Bool) (hns : SNoSelf N s1 s2) (y Mu base : ℕ → ℝ) (old : ℝ)
    (hc : ∀ n, n < N → Mu n = base n + sDesign s1 s2 n * old) :
    sSum N s1 s2 y Mu old = ∑ n ∈ range N, sDesign s1 s2 n * (y n - base n) := by
  unfold sSum
  simp only [sumN_eq]
  rw [← sum_add_distrib]
  apply sum_congr rfl; intro n hn
  have hn' := mem_range.mp hn
  have := hns n hn'
  have hcn := hc n hn'
  unfold sDesign at hcn ⊢
  by_cases h1 : s1 n = true
  · by_cases h2 : s2 n = true
    · exact absurd ⟨h1, h2⟩ this
    · simp only [h1, h2, Bool.true_or, if_true] at hcn ⊢
      simp only [Bool.false_eq_true, if_false, add_zero]; rw [hcn]; ring
  · by_cases h2 : s2 n = true
    · simp only [h1, h2, Bool.or_true, if_true] at hcn ⊢
      simp only [Bool.false_eq_true, if_false, zero_add]; rw [hcn]; ring
    · simp [h1, h2]

/-- the `(mean, sd)` the code hands to `normal` are `(b/Q, 1/√Q)` of the canonical parameters, in both
    branches (a unit without data: `Σ = 0`, so `mean = 0`, `sd = 1/√λ`) -/
theorem sArgs_spec (N : ℕ) (s1 s2 : ℕ → Bool) (hns : SNoSelf N s1 s2) (y Mu base : ℕ → ℝ) (prec lam old : ℝ)
    (hc : ∀ n, n < N → Mu n = base n + sDesign s1 s2 n * old) :
    sArgs N s1 s2 y Mu prec lam old
      = ⟨sB N s1 s2 prec (fun n => y n - base n) / sQ N s1 s2 prec lam, 1 / Real.sqrt (sQ N s1 s2 prec lam)⟩ := by
  unfold sArgs sB sQ
  by_cases hh : sHas N s1 s2 = true
  · simp only [hh, if_true]
    rw [sCnt_spec N s1 s2 hns, sSum_spec N s1 s2 hns y Mu base old hc]; rfl
  · have hf : sHas N s1 s2 = false := by simpa using hh
    simp only [hf, Bool.false_eq_true, if_false]
    have h0 : ∀ n ∈ range N, sDesign s1 s2 n = 0 := fun n hn => sHas_false_design N s1 s2 hf n (mem_range.mp hn)
    have e1 : ∑ n ∈ range N, sDesign s1 s2 n * (y n - base n) = 0 :=
      sum_eq_zero (fun n hn => by rw [h0 n hn]; ring)
    have e2 : ∑ n ∈ range N, sDesign s1 s2 n * sDesign s1 s2 n = 0 :=
      sum_eq_zero (fun n hn => by rw [h0 n hn]; ring)
    rw [e1, e2]; simp [sqrt_real]

/-- scalar completing-the-square: `½·prec·Σ(r_n − i_n x)² + ½λx²` relative to its value at `0` -/
theorem scalar_block (N : ℕ) (s1 s2 : ℕ → Bool) (prec lam : ℝ) (r : ℕ → ℝ) (x : ℝ) :
    ((1/2) * prec * ∑ n ∈ range N, (r n - sDesign s1 s2 n * x)^2 + (1/2) * lam * x^2)
      - ((1/2) * prec * ∑ n ∈ range N, (r n - sDesign s1 s2 n * 0)^2 + (1/2) * lam * (0:ℝ)^2)
      = (1/2) * sQ N s1 s2 prec lam * x^2 - sB N s1 s2 prec r * x := by
  unfold sQ sB
  have : ∀ n, (r n - sDesign s1 s2 n * x)^2
      = r n ^ 2 - 2 * x * (sDesign s1 s2 n * r n) + x^2 * (sDesign s1 s2 n * sDesign s1 s2 n) := by
    intro n; ring
  simp only [this, sum_add_distrib, sum_sub_distrib, ← mul_sum, mul_zero, sub_zero]
  ring

/-- with `Q > 0` the conditional density is exactly `N(mean, sd²)` for the `(mean, sd) = (b/Q, 1/√Q)`:
    `(½Qx² − bx) − (½Qm² − bm) = (x − m)² / (2 sd²)` -/
theorem scalar_square (Q b x : ℝ) (hQ : 0 < Q) :
    ((1/2) * Q * x^2 - b * x) - ((1/2) * Q * (b / Q)^2 - b * (b / Q))
      = (x - b / Q)^2 / (2 * (1 / Real.sqrt Q)^2) := by
  have hs : (Real.sqrt Q)^2 = Q := Real.sq_sqrt hQ.le
  have hne : Q ≠ 0 := ne_of_gt hQ
  have h2 : (1 / Real.sqrt Q)^2 = 1 / Q := by rw [one_div, inv_pow, hs, one_div]
  rw [h2]
  field_simp
  ring

end Batchie.Gibbs
