/-
  State-level lemmas for C08: how the fitted value `mu` depends on each block (affine, with exactly
  the design rows the code builds), and the instantiation of the generic block lemmas.
-/
import Batchie.Lemmas.GibbsBlock

namespace Batchie.Gibbs
open Finset

/-- the fitted-value cache agrees with the current parameters on every observation -/
def CacheOK (dt : Data ℝ) (st : State ℝ) : Prop := ∀ n, n < dt.N → st.Mu n = mu dt st n

/-- no observation has the same non-control treatment in both positions -/
def NoSelfPair (dt : Data ℝ) : Prop := ∀ n, n < dt.N → dt.dd1 n = dt.dd2 n → dt.dd1 n = -1

/-- treatment ids are `-1` (control) or non-negative -/
def WellFormed (dt : Data ℝ) : Prop := ∀ n, n < dt.N → -1 ≤ dt.dd1 n ∧ -1 ≤ dt.dd2 n

def setW0 (st : State ℝ) (c : ℕ) (x : ℝ) : State ℝ := { st with W0 := upd st.W0 c x }
def setV0 (st : State ℝ) (m : ℕ) (x : ℝ) : State ℝ := { st with V0 := upd st.V0 m x }
def setW (st : State ℝ) (c : ℕ) (x : ℕ → ℝ) : State ℝ := { st with W := upd st.W c x }
def setV2 (st : State ℝ) (m : ℕ) (x : ℕ → ℝ) : State ℝ := { st with V2 := upd st.V2 m x }
def setV1 (st : State ℝ) (m : ℕ) (x : ℕ → ℝ) : State ℝ := { st with V1 := upd st.V1 m x }

theorem setW0_self (st : State ℝ) (c : ℕ) : setW0 st c (st.W0 c) = st := by
  unfold setW0; rw [upd_self_eq]
theorem setV0_self (st : State ℝ) (m : ℕ) : setV0 st m (st.V0 m) = st := by
  unfold setV0; rw [upd_self_eq]
theorem setW_self (st : State ℝ) (c : ℕ) : setW st c (st.W c) = st := by
  unfold setW; rw [upd_self_eq]
theorem setV2_self (st : State ℝ) (m : ℕ) : setV2 st m (st.V2 m) = st := by
  unfold setV2; rw [upd_self_eq]
theorem setV1_self (st : State ℝ) (m : ℕ) : setV1 st m (st.V1 m) = st := by
  unfold setV1; rw [upd_self_eq]

/-! ### `get` under an update of one row -/

theorem toNat_eq_iff (t : ℤ) (m : ℕ) (ht : -1 ≤ t) (hne : t ≠ -1) : t.toNat = m ↔ t = (m : ℤ) := by
  omega

theorem get0_upd (V : ℕ → ℝ) (m : ℕ) (x : ℝ) (t : ℤ) (ht : -1 ≤ t) :
    get0 (upd V m x) t = if t = (m : ℤ) then x else get0 V t := by
  unfold get0 upd
  by_cases h1 : t = -1
  · have : ¬ t = (m : ℤ) := by omega
    simp only [h1, ↓reduceIte]
    rw [if_neg (by omega)]
  · simp only [h1, ↓reduceIte, toNat_eq_iff t m ht h1]

theorem getV_upd (V : ℕ → ℕ → ℝ) (m : ℕ) (x : ℕ → ℝ) (t : ℤ) (d : ℕ) (ht : -1 ≤ t) :
    getV (upd V m x) t d = if t = (m : ℤ) then x d else getV V t d := by
  unfold getV upd
  by_cases h1 : t = -1
  · simp only [h1, ↓reduceIte]
    rw [if_neg (by omega)]
  · simp only [h1, ↓reduceIte, toNat_eq_iff t m ht h1]
    split <;> rfl

theorem sel1_iff (dt : Data ℝ) (m n : ℕ) : sel1 dt m n = true ↔ dt.dd1 n = (m : ℤ) := by
  unfold sel1; exact beq_iff_eq
theorem sel2_iff (dt : Data ℝ) (m n : ℕ) : sel2 dt m n = true ↔ dt.dd2 n = (m : ℤ) := by
  unfold sel2; exact beq_iff_eq
theorem selC_iff (dt : Data ℝ) (c n : ℕ) : selC dt c n = true ↔ dt.cline n = c := by
  unfold selC; exact beq_iff_eq

theorem noSelf_of_noSelfPair (dt : Data ℝ) (h : NoSelfPair dt) (m : ℕ) :
    SNoSelf dt.N (sel1 dt m) (sel2 dt m) := by
  intro n hn ⟨h1, h2⟩
  rw [sel1_iff] at h1; rw [sel2_iff] at h2
  have := h n hn (by rw [h1, h2])
  omega

theorem noSelf_selC (dt : Data ℝ) (c : ℕ) : SNoSelf dt.N (selC dt c) selNone := by
  intro n _ ⟨_, h2⟩; simp [selNone] at h2

/-! ### `mu` is affine in every block, with the design rows the code builds -/

theorem mu_eq (dt : Data ℝ) (st : State ℝ) (n : ℕ) :
    mu dt st n = (st.alpha + st.W0 (dt.cline n) + get0 st.V0 (dt.dd1 n) + get0 st.V0 (dt.dd2 n))
      + ∑ d ∈ range dt.D, st.W (dt.cline n) d * (getV st.V1 (dt.dd1 n) d + getV st.V1 (dt.dd2 n) d)
      + ∑ d ∈ range dt.D, st.W (dt.cline n) d * getV st.V2 (dt.dd1 n) d * getV st.V2 (dt.dd2 n) d := by
  unfold mu muOf; simp only [sumN_eq]

theorem mu_affine_W0 (dt : Data ℝ) (st : State ℝ) (c : ℕ) (x : ℝ) (n : ℕ) :
    mu dt (setW0 st c x) n = mu dt (setW0 st c 0) n + sDesign (selC dt c) selNone n * x := by
  simp only [mu_eq, setW0, sDesign, selNone, Bool.or_false]
  by_cases h : dt.cline n = c
  · have hs : selC dt c n = true := (selC_iff dt c n).mpr h
    simp only [hs, ↓reduceIte, h, upd_same]; ring
  · have hs : selC dt c n = false := by
      rw [← Bool.not_eq_true]; exact fun hh => h ((selC_iff dt c n).mp hh)
    simp only [hs, Bool.false_eq_true, ↓reduceIte, upd_other _ _ _ _ h]; ring

theorem mu_affine_V0 (dt : Data ℝ) (hw : WellFormed dt) (hp : NoSelfPair dt) (st : State ℝ) (m : ℕ) (x : ℝ)
    (n : ℕ) (hn : n < dt.N) :
    mu dt (setV0 st m x) n = mu dt (setV0 st m 0) n + sDesign (sel1 dt m) (sel2 dt m) n * x := by
  have hwf := hw n hn
  have hns := noSelf_of_noSelfPair dt hp m n hn
  simp only [mu_eq, setV0, sDesign, get0_upd _ _ _ _ hwf.1, get0_upd _ _ _ _ hwf.2]
  by_cases h1 : dt.dd1 n = (m : ℤ)
  · by_cases h2 : dt.dd2 n = (m : ℤ)
    · exact absurd ⟨(sel1_iff dt m n).mpr h1, (sel2_iff dt m n).mpr h2⟩ hns
    · have hs1 := (sel1_iff dt m n).mpr h1
      simp only [h1, h2, ↓reduceIte, hs1, Bool.true_or]; ring
  · by_cases h2 : dt.dd2 n = (m : ℤ)
    · have hs2 := (sel2_iff dt m n).mpr h2
      simp only [h1, h2, ↓reduceIte, hs2, Bool.or_true]; ring
    · have hs1 : sel1 dt m n = false := by
        rw [← Bool.not_eq_true]; exact fun hh => h1 ((sel1_iff dt m n).mp hh)
      have hs2 : sel2 dt m n = false := by
        rw [← Bool.not_eq_true]; exact fun hh => h2 ((sel2_iff dt m n).mp hh)
      simp only [h1, h2, ↓reduceIte, hs1, hs2, Bool.or_self, Bool.false_eq_true]; ring

/-- bookkeeping: `a + S₁ + S₂ = a + T₁ + T₂ + U` from a term-wise identity of the summands -/
theorem sums_rearrange (s : Finset ℕ) (a : ℝ) (f1 f2 g1 g2 u : ℕ → ℝ)
    (h : ∀ d ∈ s, f1 d + f2 d = g1 d + g2 d + u d) :
    a + ∑ d ∈ s, f1 d + ∑ d ∈ s, f2 d = a + ∑ d ∈ s, g1 d + ∑ d ∈ s, g2 d + ∑ d ∈ s, u d := by
  have : ∑ d ∈ s, f1 d + ∑ d ∈ s, f2 d = ∑ d ∈ s, g1 d + ∑ d ∈ s, g2 d + ∑ d ∈ s, u d := by
    rw [← sum_add_distrib, ← sum_add_distrib, ← sum_add_distrib]
    exact sum_congr rfl h
  linarith

theorem mu_affine_W (dt : Data ℝ) (st : State ℝ) (c : ℕ) (x : ℕ → ℝ) (n : ℕ) :
    mu dt (setW st c x) n = mu dt (setW st c (fun _ => 0)) n
      + ∑ d ∈ range dt.D, (wBlk dt st c).design n d * x d := by
  simp only [mu_eq, setW, Blk.design, wBlk, selNone, wX, Bool.false_eq_true, ↓reduceIte]
  apply sums_rearrange
  intro d _
  by_cases h : dt.cline n = c
  · have hs : selC dt c n = true := (selC_iff dt c n).mpr h
    simp only [hs, ↓reduceIte, h, upd_same]; ring
  · have hs : selC dt c n = false := by
      rw [← Bool.not_eq_true]; exact fun hh => h ((selC_iff dt c n).mp hh)
    simp only [hs, Bool.false_eq_true, ↓reduceIte, upd_other _ _ _ _ h]; ring

theorem mu_affine_V2 (dt : Data ℝ) (hw : WellFormed dt) (hp : NoSelfPair dt) (st : State ℝ) (m : ℕ)
    (x : ℕ → ℝ) (n : ℕ) (hn : n < dt.N) :
    mu dt (setV2 st m x) n = mu dt (setV2 st m (fun _ => 0)) n
      + ∑ d ∈ range dt.D, (v2Blk dt st m).design n d * x d := by
  have hwf := hw n hn
  have hns := noSelf_of_noSelfPair dt hp m n hn
  simp only [mu_eq, setV2, Blk.design, v2Blk, getV_upd _ _ _ _ _ hwf.1, getV_upd _ _ _ _ _ hwf.2]
  apply sums_rearrange
  intro d _
  by_cases h1 : dt.dd1 n = (m : ℤ)
  · by_cases h2 : dt.dd2 n = (m : ℤ)
    · exact absurd ⟨(sel1_iff dt m n).mpr h1, (sel2_iff dt m n).mpr h2⟩ hns
    · have hs1 := (sel1_iff dt m n).mpr h1
      have hs2 : sel2 dt m n = false := by
        rw [← Bool.not_eq_true]; exact fun hh => h2 ((sel2_iff dt m n).mp hh)
      simp only [h1, h2, ↓reduceIte, hs1, hs2, Bool.false_eq_true]; ring
  · by_cases h2 : dt.dd2 n = (m : ℤ)
    · have hs2 := (sel2_iff dt m n).mpr h2
      simp only [h1, h2, ↓reduceIte, hs2]; ring
    · have hs1 : sel1 dt m n = false := by
        rw [← Bool.not_eq_true]; exact fun hh => h1 ((sel1_iff dt m n).mp hh)
      have hs2 : sel2 dt m n = false := by
        rw [← Bool.not_eq_true]; exact fun hh => h2 ((sel2_iff dt m n).mp hh)
      simp only [h1, h2, ↓reduceIte, hs1, hs2, Bool.false_eq_true]; ring

theorem mu_affine_V1 (dt : Data ℝ) (hw : WellFormed dt) (hp : NoSelfPair dt) (st : State ℝ) (m : ℕ)
    (x : ℕ → ℝ) (n : ℕ) (hn : n < dt.N) :
    mu dt (setV1 st m x) n = mu dt (setV1 st m (fun _ => 0)) n
      + ∑ d ∈ range dt.D, (v1Blk dt st m).design n d * x d := by
  have hwf := hw n hn
  have hns := noSelf_of_noSelfPair dt hp m n hn
  simp only [mu_eq, setV1, Blk.design, v1Blk, getV_upd _ _ _ _ _ hwf.1, getV_upd _ _ _ _ _ hwf.2]
  apply sums_rearrange
  intro d _
  by_cases h1 : dt.dd1 n = (m : ℤ)
  · by_cases h2 : dt.dd2 n = (m : ℤ)
    · exact absurd ⟨(sel1_iff dt m n).mpr h1, (sel2_iff dt m n).mpr h2⟩ hns
    · have hs1 := (sel1_iff dt m n).mpr h1
      have hs2 : sel2 dt m n = false := by
        rw [← Bool.not_eq_true]; exact fun hh => h2 ((sel2_iff dt m n).mp hh)
      simp only [h1, h2, ↓reduceIte, hs1, hs2, Bool.false_eq_true]; ring
  · by_cases h2 : dt.dd2 n = (m : ℤ)
    · have hs2 := (sel2_iff dt m n).mpr h2
      simp only [h1, h2, ↓reduceIte, hs2]; ring
    · have hs1 : sel1 dt m n = false := by
        rw [← Bool.not_eq_true]; exact fun hh => h1 ((sel1_iff dt m n).mp hh)
      have hs2 : sel2 dt m n = false := by
        rw [← Bool.not_eq_true]; exact fun hh => h2 ((sel2_iff dt m n).mp hh)
      simp only [h1, h2, ↓reduceIte, hs1, hs2, Bool.false_eq_true]; ring

end Batchie.Gibbs
