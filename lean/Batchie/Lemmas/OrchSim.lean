/-
  C19 -- the concrete "reveal one unobserved plate per step" pipeline (`Model/OrchSim.lean`): what every step of an
  uninterrupted run does to the set of unobserved plates.
-/
import Batchie.Model.OrchSim
import Batchie.Lemmas.OrchInputs

namespace Batchie.Orchestrator

/-! ## counting unobserved plates -/

theorem countP_flip (f g : Nat → Bool) (p : Nat) (hp : f p = true) (hg : g p = false)
    (hne : ∀ q, q ≠ p → g q = f q) :
    ∀ N, p < N → ((List.range N).filter g).length + 1 = ((List.range N).filter f).length := by
  intro N
  induction N with
  | zero => intro h; omega
  | succ n ih =>
    intro h
    rw [List.range_succ, List.filter_append, List.filter_append, List.length_append, List.length_append]
    by_cases hpn : p = n
    · subst hpn
      have : (List.range p).filter g = (List.range p).filter f := by
        apply List.filter_congr
        intro q hq
        exact hne q (by have := List.mem_range.mp hq; omega)
      rw [this]
      simp [hp, hg]
    · have := ih (by omega)
      have hn : g n = f n := hne n (fun e => hpn e.symm)
      simp only [List.filter_cons, List.filter_nil, hn]
      omega

theorem testBit_clear (m s q : Nat) (hs : m.testBit s = true) :
    (m ^^^ 2 ^ s).testBit q = (m.testBit q && decide (q ≠ s)) := by
  rw [Nat.testBit_xor, Nat.testBit_two_pow]
  by_cases h : s = q
  · subst h; simp [hs]
  · have : ¬ q = s := fun e => h e.symm
    simp [h, this]

theorem cntBits_clear (N m s : Nat) (hs : m.testBit s = true) (hN : s < N) :
    cntBits N (m ^^^ 2 ^ s) + 1 = cntBits N m := by
  unfold cntBits
  apply countP_flip (fun q => m.testBit q) (fun q => (m ^^^ 2 ^ s).testBit q) s hs
  · simp [testBit_clear m s s hs]
  · intro q hq; simp [testBit_clear m s q hs, hq]
  · exact hN

theorem cntBits_pos_iff (N m : Nat) : 0 < cntBits N m ↔ ∃ q, q < N ∧ m.testBit q = true := by
  unfold cntBits
  rw [List.length_pos_iff_exists_mem]
  constructor
  · rintro ⟨q, hq⟩
    rw [List.mem_filter, List.mem_range] at hq
    exact ⟨q, hq.1, hq.2⟩
  · rintro ⟨q, h1, h2⟩
    exact ⟨q, by rw [List.mem_filter, List.mem_range]; exact ⟨h1, h2⟩⟩

/-! ## what the script reads from a step directory of the concrete pipeline -/

variable (sc : SimCfg)

theorem sim_metaOf (j : Nat) (l : Launch) : metaOf ⟨j, some (simPubs sc l)⟩ = some (cntBits sc.N (mOut sc l)) := by
  cases hw : l.wf <;> simp [simPubs, simCore, hw, metaOf, PlateDir.files, findKind]

theorem sim_screenOf (j : Nat) (l : Launch) : screenOf ⟨j, some (simPubs sc l)⟩ = some ⟨.advanced, mOut sc l⟩ := by
  cases hw : l.wf <;> simp [simPubs, simCore, hw, screenOf, PlateDir.files, findKind]

theorem sim_markerLast (B : Nat) : MarkerLast (simCfg B sc) := by
  intro l _
  simp only [simCfg]
  cases hw : l.wf
  · exact ⟨[⟨.training, mIn sc l⟩, ⟨.test, 0⟩, ⟨.thetas 0, 0⟩, ⟨.dist 0, 0⟩, ⟨.selected, selOf sc l⟩, ⟨.advanced, mOut sc l⟩], cntBits sc.N (mOut sc l),
      by simp [simPubs, simCore, hw], by simp⟩
  · exact ⟨[⟨.thetas 0, 0⟩, ⟨.dist 0, 0⟩, ⟨.selected, selOf sc l⟩, ⟨.advanced, mOut sc l⟩], cntBits sc.N (mOut sc l),
      by simp [simPubs, simCore, hw], by simp⟩
  · exact ⟨[⟨.selected, selOf sc l⟩, ⟨.advanced, mOut sc l⟩], cntBits sc.N (mOut sc l), by simp [simPubs, simCore, hw], by simp⟩
  · exact ⟨[⟨.selected, selOf sc l⟩, ⟨.advanced, mOut sc l⟩], cntBits sc.N (mOut sc l), by simp [simPubs, simCore, hw], by simp⟩

/-- the selection function returns an unobserved plate whenever there is one (it may look at the excludes, it need not) -/
def SelOK : Prop := ∀ m ex, (∃ q, q < sc.N ∧ m.testBit q = true) → (sc.sel m ex) < sc.N ∧ m.testBit (sc.sel m ex) = true

/-- the unobserved mask after the completed steps `p` -/
def outMask (p : Prog) : Nat :=
  match p.flat.getLast? with
  | none => sc.M0
  | some l => mOut sc l

/-- the state of the simulation after the completed steps `p` -/
structure SimInv (p : Prog) : Prop where
  count : cntBits sc.N (outMask sc p) + p.flat.length = cntBits sc.N sc.M0
  sub : ∀ q, (outMask sc p).testBit q = true → sc.M0.testBit q = true
  revealed : ∀ l ∈ p.flat, (outMask sc p).testBit (selOf sc l) = false ∧ sc.M0.testBit (selOf sc l) = true ∧ selOf sc l < sc.N
  nodup : (p.flat.map (selOf sc)).Nodup
  markers : ∀ i l, p.flat[i]? = some l → metaOf ⟨0, some (simPubs sc l)⟩ = some (cntBits sc.N sc.M0 - (i + 1))

theorem outMask_push (B : Nat) (p : Prog) (l : Launch) : outMask sc (p.push B l) = mOut sc l := by
  unfold outMask
  rw [Prog.flat_push]
  simp

/-- the screen a planned launch starts from holds exactly the unobserved plates left by the completed steps -/
theorem sim_mIn (B : Nat) (hB : 1 ≤ B) {p : Prog} (hc : CRun (simCfg B sc) p) {l : Launch}
    (hl : planLaunch (simCfg B sc) p = .ok l) : mIn sc l = outMask sc p := by
  unfold outMask
  cases hlast : p.flat.getLast? with
  | none =>
    have he : p.flat = [] := by simpa using hlast
    have hn := (nextOfProg_of_CRun (simCfg B sc) hc).2 he
    unfold planLaunch at hl
    rw [hn] at hl
    simp [launchOf, simCfg] at hl
    rw [← hl]
    rfl
  | some lp =>
    have h := (C19_pred (simCfg B sc) hB hc hl lp hlast)
    simp only [simCfg] at h
    rw [sim_screenOf] at h
    unfold mIn
    rw [h]
    rfl
where
  C19_pred (cfg : Cfg) (hB : 1 ≤ cfg.B) {p : Prog} (hc : CRun cfg p) {l' : Launch} (hl : planLaunch cfg p = .ok l')
      (l : Launch) (hlast : p.flat.getLast? = some l) (hmode : cfg.mode = .retrospective := by rfl) :
      l'.screen = (screenOf ⟨l.plate, some (cfg.pubs l)⟩).map (fun f => ⟨l.iter, l.plate, f⟩) := by
    unfold planLaunch at hl
    rw [hmode] at hl
    rcases launchOf_retro_screen hl with h0 | ⟨h1, _⟩
    · exfalso
      rw [nextOfProg_iter, nextOfProg_plate] at h0
      have hlen : p.flat.length = 0 := by rw [flat_length (hc.ok cfg hB), h0.1, h0.2]; simp
      simp [List.length_eq_zero_iff.mp hlen] at hlast
    · rw [h1]
      exact ((nextOfProg_of_CRun cfg hc).1 l hlast).2

theorem sim_lastMeta (B : Nat) {p : Prog} (hc : CRun (simCfg B sc) p) (hne : p.flat ≠ []) :
    (nextOfProg (simCfg B sc) p).lastMeta = some (cntBits sc.N (outMask sc p)) := by
  obtain ⟨lp, hlp⟩ := getLast?_isSome_of_ne hne
  have h := ((nextOfProg_of_CRun (simCfg B sc) hc).1 lp hlp).1
  simp only [simCfg] at h
  rw [sim_metaOf] at h
  unfold outMask
  rw [hlp]
  exact h

/-- an unobserved plate is left whenever the step function plans another step -/
theorem sim_bit_left (B : Nat) (h0 : 0 < cntBits sc.N sc.M0) {p : Prog} (hc : CRun (simCfg B sc) p)
    (hnf : ¬ isFinished (simCfg B sc) p) : ∃ q, q < sc.N ∧ (outMask sc p).testBit q = true := by
  rw [← cntBits_pos_iff]
  by_cases hne : p.flat = []
  · unfold outMask; rw [hne]; exact h0
  · have hm := sim_lastMeta sc B hc hne
    unfold isFinished at hnf
    rw [hm] at hnf
    have : cntBits sc.N (outMask sc p) ≠ 0 := fun e => hnf ⟨rfl, by rw [e]⟩
    omega

/-- **every uninterrupted run of the concrete pipeline**: after `k` completed steps exactly `k` pairwise distinct,
    initially unobserved plates have been revealed and `n_unobserved_plates` has dropped by one per step -/
theorem simInv (B : Nat) (hB : 1 ≤ B) (hsel : SelOK sc) (h0 : 0 < cntBits sc.N sc.M0) {p : Prog}
    (hc : CRun (simCfg B sc) p) : SimInv sc p := by
  induction hc with
  | nil =>
    exact ⟨by simp [outMask, Prog.empty, Prog.flat], by simp [outMask, Prog.empty, Prog.flat],
      by simp [Prog.empty, Prog.flat], by simp [Prog.empty, Prog.flat], by simp [Prog.empty, Prog.flat]⟩
  | @push p l hc' hnf hl ih =>
    have hin := sim_mIn sc B hB hc' hl
    obtain ⟨hsN, hsb⟩ := hsel (mIn sc l) (l.excludes.getD []) (by rw [hin]; exact sim_bit_left sc B h0 hc' hnf)
    have hs : selOf sc l = sc.sel (mIn sc l) (l.excludes.getD []) := rfl
    rw [← hs] at hsN hsb
    have hout : mOut sc l = mIn sc l ^^^ 2 ^ selOf sc l := by unfold mOut; rw [if_pos hsb]
    have hcnt := cntBits_clear sc.N (mIn sc l) (selOf sc l) hsb hsN
    have hB' : (simCfg B sc).B = B := rfl
    rw [hB']
    refine ⟨?_, ?_, ?_, ?_, ?_⟩
    · rw [outMask_push, Prog.flat_push, List.length_append, List.length_singleton, hout]
      have := ih.count
      rw [← hin] at this
      omega
    · intro q hq
      rw [outMask_push, hout, testBit_clear _ _ _ hsb] at hq
      simp only [Bool.and_eq_true] at hq
      exact ih.sub q (by rw [← hin]; exact hq.1)
    · intro l' hl'
      rw [Prog.flat_push, List.mem_append] at hl'
      rw [outMask_push, hout, testBit_clear _ _ _ hsb]
      rcases hl' with hl' | hl'
      · obtain ⟨h1, h2, h3⟩ := ih.revealed l' hl'
        rw [← hin] at h1
        exact ⟨by simp [h1], h2, h3⟩
      · simp only [List.mem_singleton] at hl'
        subst hl'
        exact ⟨by simp, ih.sub _ (by rw [← hin]; exact hsb), hsN⟩
    · rw [Prog.flat_push, List.map_append, List.nodup_append]
      refine ⟨ih.nodup, by simp, ?_⟩
      intro a ha b hb
      simp only [List.map_cons, List.map_nil, List.mem_singleton] at hb
      subst hb
      rw [List.mem_map] at ha
      obtain ⟨l', hl', rfl⟩ := ha
      intro e
      have h1 := (ih.revealed l' hl').1
      rw [← hin, e, hsb] at h1
      cases h1
    · intro i l' hi
      rw [Prog.flat_push] at hi
      by_cases hlt : i < p.flat.length
      · rw [List.getElem?_append_left hlt] at hi
        exact ih.markers i l' hi
      · rw [List.getElem?_append_right (by omega)] at hi
        have hi' : i = p.flat.length := by
          by_cases h0' : i - p.flat.length = 0
          · omega
          · have : ([l] : List Launch)[i - p.flat.length]? = none := by
              rw [List.getElem?_eq_none_iff]; simp; omega
            rw [this] at hi; cases hi
        subst hi'
        simp only [Nat.sub_self, List.getElem?_cons_zero, Option.some.injEq] at hi
        subst hi
        rw [sim_metaOf, hout]
        have := ih.count
        rw [← hin] at this
        congr 1
        omega

end Batchie.Orchestrator
