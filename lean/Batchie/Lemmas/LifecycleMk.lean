/-
  `Screen.mk?` taken apart: a normal form of the constructor (`mkSpec` / `mkCoreSpec`, equal to `mk?`
  by unfolding), the facts a successful construction establishes (`MkFacts`, `WF`), and the converse
  for the call shape every lifecycle operation uses (all of obs / mask / mappings supplied).
-/
import Batchie.Model.Screen
import Batchie.Lemmas.LifecycleEncode

namespace Batchie.Lifecycle
open Batchie.Proto Batchie.Screen

/-- the column-major list of (name, dose) cells that `Screen.__init__` encodes -/
def cellsOf (ar : Nat) (tn : List (List Name)) (td : List (List Dose)) : List (Name × Dose) :=
  ((List.range ar).flatMap (fun i => column tn i)).zip ((List.range ar).flatMap (fun i => column td i))

def mkCore (r : Raw) (obs : List Nat) (mask : List Bool) : Except Err Screen := do
  let n := r.tnames.length
  if mask.length != n then throw .indexError
  if !plateUniform r.pnames mask then throw .valueError
  match r.tmap with
  | some m => if !isZeroIndexed (m.map (·.2.2)) then throw .valueError
  | none => pure ()
  match r.smap with
  | some m => if !isZeroIndexed (m.map (·.2)) then throw .valueError
  | none => pure ()
  let (tflat, tmap) ← encodeTreatments r.ctrl (cellsOf r.arity r.tnames r.tdoses) r.tmap
  if tflat.length != n * r.arity then throw .other
  let (sids, smap) ← encode1d r.snames r.smap
  if sids.length != n then throw .other
  let (pids, pmap) ← encode1d r.pnames none
  pure { ctrl := r.ctrl, arity := r.arity, tnames := r.tnames, tdoses := r.tdoses, snames := r.snames,
         pnames := r.pnames, obs := obs, mask := mask, tids := unflattenColumns tflat n r.arity,
         sids := sids, pids := pids, tmap := tmap, smap := smap, pmap := pmap }

def mkSpec (r : Raw) : Except Err Screen :=
  let n := r.tnames.length
  if r.tdoses.length != n || r.snames.length != n || r.pnames.length != n then .error .valueError
  else if r.tnames.any (·.length != r.arity) || r.tdoses.any (·.length != r.arity) then .error .valueError
  else if r.obs.isNone && r.mask.isSome then .error .valueError
  else match r.obs with
    | some o =>
      if o.length != n then .error .valueError
      else mkCore r o (match r.mask with | some m => m | none => List.replicate n true)
    | none => mkCore r (List.replicate n 0) (List.replicate n false)

theorem mk?_eq (r : Raw) : mk? r = mkSpec r := by
  unfold mk? mkSpec mkCore cellsOf
  rfl

def tmapBad (r : Raw) : Bool := match r.tmap with
  | some m => !isZeroIndexed (m.map (·.2.2))
  | none => false
def smapBad (r : Raw) : Bool := match r.smap with
  | some m => !isZeroIndexed (m.map (·.2))
  | none => false

def mkCoreSpec (r : Raw) (obs : List Nat) (mask : List Bool) : Except Err Screen :=
  let n := r.tnames.length
  if mask.length != n then .error .indexError
  else if !plateUniform r.pnames mask then .error .valueError
  else if tmapBad r then .error .valueError
  else if smapBad r then .error .valueError
  else (encodeTreatments r.ctrl (cellsOf r.arity r.tnames r.tdoses) r.tmap).bind fun t =>
      if t.1.length != n * r.arity then .error .other
      else (encode1d r.snames r.smap).bind fun sm =>
          if sm.1.length != n then .error .other
          else (encode1d r.pnames none).bind fun pm =>
              .ok { ctrl := r.ctrl, arity := r.arity, tnames := r.tnames, tdoses := r.tdoses, snames := r.snames,
                    pnames := r.pnames, obs := obs, mask := mask, tids := unflattenColumns t.1 n r.arity,
                    sids := sm.1, pids := pm.1, tmap := t.2, smap := sm.2, pmap := pm.2 }

theorem mkCore_eq (r : Raw) (obs : List Nat) (mask : List Bool) : mkCore r obs mask = mkCoreSpec r obs mask := by
  obtain ⟨ctrl, arity, tn, td, sn, pn, o, m, tmap, smap⟩ := r
  unfold mkCore mkCoreSpec tmapBad smapBad
  cases tmap <;> cases smap <;> simp only [bind, Except.bind, pure, Except.pure, throw, throwThe, MonadExceptOf.throw,
    Bool.false_eq_true, ↓reduceIte]

theorem bind_eq_ok {α β : Type} {x : Except Err α} {f : α → Except Err β} {b : β}
    (h : x.bind f = .ok b) : ∃ a, x = .ok a ∧ f a = .ok b := by
  cases x with
  | error e => simp [Except.bind] at h
  | ok a => exact ⟨a, rfl, h⟩

/-- what the common part of the constructor establishes -/
structure CoreFacts (r : Raw) (obs : List Nat) (mask : List Bool) (s : Screen) : Prop where
  ctrl_eq : s.ctrl = r.ctrl
  arity_eq : s.arity = r.arity
  tnames_eq : s.tnames = r.tnames
  tdoses_eq : s.tdoses = r.tdoses
  snames_eq : s.snames = r.snames
  pnames_eq : s.pnames = r.pnames
  obs_eq : s.obs = obs
  mask_eq : s.mask = mask
  len_mask : mask.length = r.tnames.length
  uniform : plateUniform r.pnames mask = true
  tz : ∀ m, r.tmap = some m → isZeroIndexed (m.map (·.2.2)) = true
  sz : ∀ m, r.smap = some m → isZeroIndexed (m.map (·.2)) = true
  tenc : ∃ tf, encodeTreatments r.ctrl (cellsOf r.arity r.tnames r.tdoses) r.tmap = .ok (tf, s.tmap)
          ∧ tf.length = r.tnames.length * r.arity ∧ s.tids = unflattenColumns tf r.tnames.length r.arity
  senc : encode1d r.snames r.smap = .ok (s.sids, s.smap)
  len_sids : s.sids.length = r.tnames.length
  penc : encode1d r.pnames none = .ok (s.pids, s.pmap)

theorem mkCoreSpec_inv {r : Raw} {obs : List Nat} {mask : List Bool} {s : Screen}
    (h : mkCoreSpec r obs mask = .ok s) : CoreFacts r obs mask s := by
  unfold mkCoreSpec at h
  simp only at h
  split at h
  · cases h
  rename_i g1
  split at h
  · cases h
  rename_i g2
  split at h
  · cases h
  rename_i g3
  split at h
  · cases h
  rename_i g4
  obtain ⟨t, ht, h⟩ := bind_eq_ok h
  split at h
  · cases h
  rename_i g5
  obtain ⟨sm, hsm, h⟩ := bind_eq_ok h
  split at h
  · cases h
  rename_i g6
  obtain ⟨pm, hpm, h⟩ := bind_eq_ok h
  cases h
  simp only [bne_iff_ne, ne_eq, Decidable.not_not, Bool.not_eq_false,
    Bool.not_eq_eq_eq_not, Bool.not_true] at g1 g2 g3 g4 g5 g6
  refine { ctrl_eq := rfl, arity_eq := rfl, tnames_eq := rfl, tdoses_eq := rfl, snames_eq := rfl, pnames_eq := rfl, obs_eq := rfl,
           mask_eq := rfl, len_mask := g1, uniform := by simpa using g2, tz := ?_, sz := ?_,
           tenc := ⟨t.1, ht, g5, rfl⟩, senc := hsm, len_sids := g6, penc := hpm }
  · intro m hm
    simp only [tmapBad, hm] at g3
    simpa using g3
  · intro m hm
    simp only [smapBad, hm] at g4
    simpa using g4

/-- what a successful `Screen(...)` establishes -/
structure MkFacts (r : Raw) (s : Screen) : Prop where
  len_td : r.tdoses.length = r.tnames.length
  len_sn : r.snames.length = r.tnames.length
  len_pn : r.pnames.length = r.tnames.length
  row_tn : r.tnames.any (·.length != r.arity) = false
  row_td : r.tdoses.any (·.length != r.arity) = false
  mask_needs_obs : r.obs = none → r.mask = none
  obs_eq : s.obs = (match r.obs with | some o => o | none => List.replicate r.tnames.length 0)
  mask_eq : s.mask = (match r.obs with
    | some _ => (match r.mask with | some m => m | none => List.replicate r.tnames.length true)
    | none => List.replicate r.tnames.length false)
  len_obs : s.obs.length = r.tnames.length
  core : CoreFacts r s.obs s.mask s

theorem mk?_inv {r : Raw} {s : Screen} (h : mk? r = .ok s) : MkFacts r s := by
  rw [mk?_eq] at h
  unfold mkSpec at h
  simp only at h
  split at h
  · cases h
  rename_i g1
  split at h
  · cases h
  rename_i g2
  split at h
  · cases h
  rename_i g3
  simp only [Bool.or_eq_true, bne_iff_ne, ne_eq, not_or, Decidable.not_not, Bool.not_eq_true] at g1 g2
  have hmo : r.obs = none → r.mask = none := by
    intro ho
    cases hm : r.mask with
    | none => rfl
    | some m => simp [ho, hm] at g3
  split at h
  · rename_i o ho
    split at h
    · cases h
    rename_i g4
    rw [mkCore_eq] at h
    have c := mkCoreSpec_inv h
    have hobs : s.obs = o := c.obs_eq
    have hmask := c.mask_eq
    refine { len_td := g1.1.1, len_sn := g1.1.2, len_pn := g1.2, row_tn := g2.1, row_td := g2.2,
             mask_needs_obs := hmo, obs_eq := by rw [ho]; exact hobs, mask_eq := by rw [ho]; exact hmask,
             len_obs := by rw [hobs]; simpa using g4, core := by rw [hobs, hmask]; exact c }
  · rename_i ho
    rw [mkCore_eq] at h
    have c := mkCoreSpec_inv h
    have hobs := c.obs_eq
    have hmask := c.mask_eq
    refine { len_td := g1.1.1, len_sn := g1.1.2, len_pn := g1.2, row_tn := g2.1, row_td := g2.2,
             mask_needs_obs := hmo, obs_eq := by rw [ho]; exact hobs, mask_eq := by rw [ho]; exact hmask,
             len_obs := by rw [hobs]; simp, core := by rw [hobs, hmask]; exact c }

/-! ### screens produced by the constructor -/

/-- `s` is the result of some call `Screen(...)` -/
def Valid (s : Screen) : Prop := ∃ r, mk? r = .ok s

/-- well-formedness of a screen, stated on the screen alone -/
structure WF (s : Screen) : Prop where
  len_td : s.tdoses.length = s.tnames.length
  len_sn : s.snames.length = s.tnames.length
  len_pn : s.pnames.length = s.tnames.length
  row_tn : s.tnames.any (·.length != s.arity) = false
  row_td : s.tdoses.any (·.length != s.arity) = false
  len_obs : s.obs.length = s.tnames.length
  len_mask : s.mask.length = s.tnames.length
  uniform : plateUniform s.pnames s.mask = true
  tz : isZeroIndexed (s.tmap.map (·.2.2)) = true
  sz : isZeroIndexed (s.smap.map (·.2)) = true
  tenc : ∃ tf, encodeTreatments s.ctrl (cellsOf s.arity s.tnames s.tdoses) (some s.tmap) = .ok (tf, s.tmap)
          ∧ tf.length = s.tnames.length * s.arity ∧ s.tids = unflattenColumns tf s.tnames.length s.arity
  senc : encode1d s.snames (some s.smap) = .ok (s.sids, s.smap)
  len_sids : s.sids.length = s.tnames.length
  penc : encode1d s.pnames none = .ok (s.pids, s.pmap)

theorem encodeTreatments_ok {ctrl : Name} {xs : List (Name × Dose)} {ex : Option TMap} {tf : List Int} {tm : TMap}
    (h : encodeTreatments ctrl xs ex = .ok (tf, tm)) :
    encodeTreatments ctrl xs (some tm) = .ok (tf, tm) ∧ (∀ m, ex = some m → tm = m)
      ∧ (ex = none → tm = freshTMap ctrl xs) := by
  unfold encodeTreatments at h ⊢
  cases ex with
  | none =>
    simp only at h ⊢
    split at h
    · cases h
    · rename_i g
      injection h with h
      injection h with h1 h2
      subst h2
      simp only [g, h1, Bool.false_eq_true, ↓reduceIte, true_and]
      exact ⟨fun m hm => (by cases hm), fun _ => trivial⟩
  | some m0 =>
    simp only at h ⊢
    split at h
    · cases h
    · rename_i g
      injection h with h
      injection h with h1 h2
      subst h2
      simp only [g, h1, Bool.false_eq_true, ↓reduceIte, true_and]
      exact ⟨fun m hm => (by cases hm; rfl), fun hm => (by cases hm)⟩

theorem encode1d_ok {xs : List Name} {ex : Option SMap} {ids : List Int} {sm : SMap}
    (h : encode1d xs ex = .ok (ids, sm)) :
    encode1d xs (some sm) = .ok (ids, sm) ∧ (∀ m, ex = some m → sm = m) ∧ (ex = none → sm = freshSMap xs) := by
  unfold encode1d at h ⊢
  cases ex with
  | none =>
    simp only at h ⊢
    split at h
    · cases h
    · rename_i g
      injection h with h
      injection h with h1 h2
      subst h2
      simp only [g, h1, Bool.false_eq_true, ↓reduceIte, true_and]
      exact ⟨fun m hm => (by cases hm), fun _ => trivial⟩
  | some m0 =>
    simp only at h ⊢
    split at h
    · cases h
    · rename_i g
      injection h with h
      injection h with h1 h2
      subst h2
      simp only [g, h1, Bool.false_eq_true, ↓reduceIte, true_and]
      exact ⟨fun m hm => (by cases hm; rfl), fun hm => (by cases hm)⟩

theorem wf_of_mk {r : Raw} {s : Screen} (h : mk? r = .ok s) : WF s := by
  have f := mk?_inv h
  have c := f.core
  obtain ⟨tf, hte, hlen, htids⟩ := c.tenc
  have te := encodeTreatments_ok hte
  have se := encode1d_ok c.senc
  refine { len_td := ?_, len_sn := ?_, len_pn := ?_, row_tn := ?_, row_td := ?_, len_obs := ?_, len_mask := ?_,
           uniform := ?_, tz := ?_, sz := ?_, tenc := ?_, senc := ?_, len_sids := ?_, penc := ?_ }
  · rw [c.tdoses_eq, c.tnames_eq]; exact f.len_td
  · rw [c.snames_eq, c.tnames_eq]; exact f.len_sn
  · rw [c.pnames_eq, c.tnames_eq]; exact f.len_pn
  · rw [c.tnames_eq, c.arity_eq]; exact f.row_tn
  · rw [c.tdoses_eq, c.arity_eq]; exact f.row_td
  · rw [c.tnames_eq]; exact f.len_obs
  · rw [c.tnames_eq]; exact c.len_mask
  · rw [c.pnames_eq]; exact c.uniform
  · cases hm : r.tmap with
    | none => rw [te.2.2 hm]; exact isZeroIndexed_freshTMap _ _
    | some m => rw [te.2.1 m hm]; exact c.tz m hm
  · cases hm : r.smap with
    | none => rw [se.2.2 hm]; exact isZeroIndexed_freshSMap _
    | some m => rw [se.2.1 m hm]; exact c.sz m hm
  · refine ⟨tf, ?_, ?_, ?_⟩
    · rw [c.ctrl_eq, c.arity_eq, c.tnames_eq, c.tdoses_eq]; exact te.1
    · rw [c.tnames_eq, c.arity_eq]; exact hlen
    · rw [c.tnames_eq, c.arity_eq]; exact htids
  · rw [c.snames_eq]; exact se.1
  · rw [c.tnames_eq]; exact c.len_sids
  · rw [c.pnames_eq]; exact c.penc

theorem Valid.wf {s : Screen} (h : Valid s) : WF s := by
  obtain ⟨r, hr⟩ := h
  exact wf_of_mk hr

/-- the call every lifecycle operation makes: the screen's own rows, observations and mappings, a new mask -/
def rowsRaw (s : Screen) (mask : List Bool) : Raw :=
  { ctrl := s.ctrl, arity := s.arity, tnames := s.tnames, tdoses := s.tdoses, snames := s.snames,
    pnames := s.pnames, obs := some s.obs, mask := some mask, tmap := some s.tmap, smap := some s.smap }

/-- rebuilding a well-formed screen from its own rows and mappings with a plate-uniform mask of the right
    length returns the same screen with that mask: no id and no mapping entry is renumbered -/
theorem mk?_rowsRaw {s : Screen} (h : WF s) (m : List Bool) (hm : m.length = s.tnames.length)
    (hu : plateUniform s.pnames m = true) : mk? (rowsRaw s m) = .ok { s with mask := m } := by
  obtain ⟨tf, hte, hlen, htids⟩ := h.tenc
  rw [mk?_eq]
  unfold mkSpec rowsRaw
  simp only [h.len_td, h.len_sn, h.len_pn, h.row_tn, h.row_td, h.len_obs, bne_self_eq_false, Bool.or_self,
    Bool.false_eq_true, ↓reduceIte, Option.isNone_some, Bool.false_and]
  rw [mkCore_eq]
  unfold mkCoreSpec tmapBad smapBad
  simp only [hm, hu, h.tz, h.sz, hte, h.senc, h.penc, hlen, h.len_sids, bne_self_eq_false, Bool.not_true,
    Bool.false_eq_true, ↓reduceIte, Except.bind, htids]

/-- the failing branches of the same call -/
theorem mk?_rowsRaw_badlen {s : Screen} (h : WF s) (m : List Bool) (hm : m.length ≠ s.tnames.length) :
    mk? (rowsRaw s m) = .error .indexError := by
  rw [mk?_eq]
  unfold mkSpec rowsRaw
  simp only [h.len_td, h.len_sn, h.len_pn, h.row_tn, h.row_td, h.len_obs, bne_self_eq_false, Bool.or_self,
    Bool.false_eq_true, ↓reduceIte, Option.isNone_some, Bool.false_and]
  rw [mkCore_eq]
  unfold mkCoreSpec
  simp [hm]

theorem mk?_rowsRaw_mixed {s : Screen} (h : WF s) (m : List Bool) (hm : m.length = s.tnames.length)
    (hu : plateUniform s.pnames m = false) : mk? (rowsRaw s m) = .error .valueError := by
  rw [mk?_eq]
  unfold mkSpec rowsRaw
  simp only [h.len_td, h.len_sn, h.len_pn, h.row_tn, h.row_td, h.len_obs, bne_self_eq_false, Bool.or_self,
    Bool.false_eq_true, ↓reduceIte, Option.isNone_some, Bool.false_and]
  rw [mkCore_eq]
  unfold mkCoreSpec
  simp [hm, hu]

theorem WF.valid {s : Screen} (h : WF s) : Valid s :=
  ⟨rowsRaw s s.mask, by rw [mk?_rowsRaw h s.mask h.len_mask h.uniform]⟩

end Batchie.Lifecycle
