/-
  Lemmas for C10 (ThetaHolder persistence and chain order) about `Batchie.Model.Thetas`.
-/
import Batchie.Model.Thetas
import Std.Data.String.ToNat
import Mathlib.Data.List.Forall2

namespace Batchie.Thetas
open Batchie.Proto

theorem mapM_ok_of_forall {α β : Type} (f : α → Except Err β) (g : α → β) :
    ∀ (l : List α), (∀ e ∈ l, f e = .ok (g e)) → l.mapM f = .ok (l.map g)
  | [], _ => rfl
  | a :: l, h => by
    rw [List.mapM_cons, h a (by simp), mapM_ok_of_forall f g l (fun e he => h e (by simp [he]))]
    rfl

theorem toString_toNat (n : Nat) : (toString n).toNat? = some n := Nat.toNat?_repr n

theorem eq_of_nodup_map {α β : Type} (f : α → β) :
    ∀ (l : List α), (l.map f).Nodup → ∀ a ∈ l, ∀ b ∈ l, f a = f b → a = b
  | [], _, a, ha, _, _, _ => by simp at ha
  | x :: l, h, a, ha, b, hb, hab => by
    simp only [List.map_cons, List.nodup_cons, List.mem_map, not_exists, not_and] at h
    simp only [List.mem_cons] at ha hb
    rcases ha with rfl | ha <;> rcases hb with rfl | hb
    · rfl
    · exact absurd hab.symm (h.1 b hb)
    · exact absurd hab (h.1 a ha)
    · exact eq_of_nodup_map f l h.2 a ha b hb hab

/-- the integer key the code sorts by, for a key that parses -/
def keyOf (s : String) : Nat := (s.toNat?).getD 0

/-- the sorted result: `(i, payload of the group named str(i))` for `i = 0..n-1` -/
theorem sortByInt_perm {α : Type} (n : Nat) (l l' : List (String × α))
    (hkeys : l.map (·.1) = (List.range n).map toString) (hperm : l'.Perm l) :
    sortByInt l' = .ok (l.map (·.2)) := by
  -- every key of l (hence of l') parses
  have hparse : ∀ e ∈ l, e.1.toNat? = some (keyOf e.1) := by
    intro e he
    have : e.1 ∈ (List.range n).map toString := hkeys ▸ List.mem_map_of_mem he
    obtain ⟨i, _, hi⟩ := List.mem_map.1 this
    rw [← hi, keyOf, toString_toNat]; rfl
  have hmap : l'.mapM intKey = .ok (l'.map (fun e => (keyOf e.1, e.2))) := by
    apply mapM_ok_of_forall
    intro e he
    rw [intKey, hparse e (hperm.mem_iff.1 he)]
  -- the keyed version of l is the target
  have hfst : (l.map (fun e => (keyOf e.1, e.2))).map (·.1) = List.range n := by
    have : (l.map (·.1)).map keyOf = List.range n := by
      rw [hkeys, List.map_map]
      conv => rhs; rw [← List.map_id (List.range n)]
      apply List.map_congr_left
      intro i _
      simp [keyOf]
    rw [← this, List.map_map, List.map_map]; rfl
  unfold sortByInt
  rw [hmap]
  show Except.ok _ = _
  congr 1
  have hsnd : l.map (·.2) = (l.map (fun e => (keyOf e.1, e.2))).map (·.2) := by
    rw [List.map_map]; rfl
  rw [hsnd]
  congr 1
  have hp : (l'.map (fun e => (keyOf e.1, e.2))).Perm (l.map (fun e => (keyOf e.1, e.2))) := hperm.map _
  refine List.Perm.eq_of_pairwise (le := fun a b => decide (a.1 ≤ b.1)) ?_ ?_ ?_
    ((List.mergeSort_perm _ _).trans hp)
  · intro a b ha hb hab hba
    have ha' : a ∈ l.map (fun e => (keyOf e.1, e.2)) := hp.mem_iff.1 (List.mem_mergeSort.1 ha)
    have hab' : a.1 = b.1 := Nat.le_antisymm (of_decide_eq_true hab) (of_decide_eq_true hba)
    exact eq_of_nodup_map (·.1) _ (by rw [hfst]; exact List.nodup_range) a ha' b hb hab'
  · apply List.pairwise_mergeSort
    · intro a b c hab hbc
      exact decide_eq_true (Nat.le_trans (of_decide_eq_true hab) (of_decide_eq_true hbc))
    · intro a b
      have := Nat.le_total a.1 b.1
      simpa using this
  · have : List.Pairwise (fun a b => a ≤ b) ((l.map (fun e => (keyOf e.1, e.2))).map (·.1)) := by
      rw [hfst]; exact (List.pairwise_lt_range).imp Nat.le_of_lt
    simpa [List.pairwise_map] using this



theorem lookup_perm {d' d : Dict} (h : d'.Perm d) (nd : (d.map (·.1)).Nodup) (k : String) :
    d'.lookup k = d.lookup k := by
  induction h with
  | nil => rfl
  | cons x _ ih =>
    simp only [List.map_cons, List.nodup_cons] at nd
    obtain ⟨a, b⟩ := x
    simp only [List.lookup_cons, ih nd.2]
  | swap x y l =>
    obtain ⟨a, b⟩ := x
    obtain ⟨a', b'⟩ := y
    simp only [List.map_cons, List.nodup_cons, List.mem_cons, not_or] at nd
    have hne : a' ≠ a := fun h => nd.1.1 h.symm
    simp only [List.lookup_cons]
    by_cases h1 : k = a
    · subst h1
      have : (k == a') = false := by simpa using fun h => hne h.symm
      simp [this]
    · have : (k == a) = false := by simpa using h1
      simp [this]
  | trans h₁ h₂ ih₁ ih₂ =>
    have nd2 := ((h₂.map (·.1)).nodup_iff).2 nd
    rw [ih₁ nd2, ih₂ nd]

theorem kwargsOk_perm (fields : List String) {d' d : Dict} (h : d'.Perm d)
    (nd : (d.map (·.1)).Nodup) : kwargsOk fields d' = kwargsOk fields d := by
  unfold kwargsOk
  rw [h.all_eq]
  congr 1
  apply List.all_congr rfl
  intro k
  rw [lookup_perm h nd]

theorem fromDicts_combo (w w0 v2 v1 v0 a p : Val) (d' sh : Dict)
    (h : d'.Perm (Sample.privDict (.combo w w0 v2 v1 v0 a p))) :
    fromDicts .combo d' sh = .ok (.combo w w0 v2 v1 v0 a p) := by
  have nd : ((Sample.privDict (.combo w w0 v2 v1 v0 a p)).map (·.1)).Nodup := by
    simp [Sample.privDict]
  unfold fromDicts
  simp only [kwargsOk_perm comboFields h nd, lookup_perm h nd]
  simp [kwargsOk, comboFields, Sample.privDict, List.lookup]



theorem tableInsert_fresh (d : Table) (k : Int × Int) (v : Int) (h : k ∉ d.map (·.1)) :
    tableInsert d k v = d ++ [(k, v)] := by
  unfold tableInsert
  have : d.any (fun e => e.1 == k) = false := by
    rw [List.any_eq_false]
    intro e he hk
    exact h (List.mem_map.2 ⟨e, he, by simpa using hk⟩)
  simp [this]

theorem foldl_tableInsert (ps : List ((Int × Int) × Int)) :
    ∀ (acc : Table), ((acc ++ ps).map (·.1)).Nodup →
      ps.foldl (fun d p => tableInsert d p.1 p.2) acc = acc ++ ps := by
  induction ps with
  | nil => intro acc _; simp
  | cons p ps ih =>
    intro acc nd
    have hfresh : p.1 ∉ acc.map (·.1) := by
      intro hmem
      rw [List.map_append, List.map_cons] at nd
      have := (List.nodup_append.1 nd).2.2 _ hmem _ (List.mem_cons_self)
      exact this rfl
    rw [List.foldl_cons, tableInsert_fresh acc p.1 p.2 hfresh]
    have : acc ++ [(p.1, p.2)] ++ ps = acc ++ p :: ps := by simp
    rw [ih (acc ++ [(p.1, p.2)]) (by rw [this]; exact nd), this]

theorem tableOfPairs_nodup (t : Table) (nd : (t.map (·.1)).Nodup) : tableOfPairs t = t := by
  unfold tableOfPairs
  rw [foldl_tableInsert t [] (by simpa using nd)]
  simp

/-- a Python dict has distinct keys: whatever sequence of insertions built it -/
theorem tableInsert_keys_nodup (d : Table) (k : Int × Int) (v : Int) (h : (d.map (·.1)).Nodup) :
    ((tableInsert d k v).map (·.1)).Nodup := by
  unfold tableInsert
  split
  · have : (d.map (fun e => if e.1 == k then (k, v) else e)).map (·.1) = d.map (·.1) := by
      rw [List.map_map]
      apply List.map_congr_left
      intro e _
      simp only [Function.comp]
      split
      · rename_i hk; simpa using (Eq.symm (by simpa using hk))
      · rfl
    rw [this]; exact h
  · rename_i hany
    rw [List.map_append, List.nodup_append]
    refine ⟨h, by simp, ?_⟩
    intro a ha b hb hab
    simp only [List.map_cons, List.map_nil, List.mem_singleton] at hb
    subst hb; subst hab
    apply hany
    rw [List.any_eq_true]
    obtain ⟨e, he, rfl⟩ := List.mem_map.1 ha
    exact ⟨e, he, by simp⟩

theorem tableOfPairs_keys_nodup (ps : List ((Int × Int) × Int)) :
    ((tableOfPairs ps).map (·.1)).Nodup := by
  unfold tableOfPairs
  suffices ∀ (acc : Table), (acc.map (·.1)).Nodup →
      ((ps.foldl (fun d p => tableInsert d p.1 p.2) acc).map (·.1)).Nodup from this [] (by simp)
  induction ps with
  | nil => intro acc h; exact h
  | cons p ps ih => intro acc h; exact ih _ (tableInsert_keys_nodup acc p.1 p.2 h)

theorem zip3_table (t : Table) :
    ((t.map (·.1.1)).zip (t.map (·.1.2))).zip (t.map (·.2)) = t := by
  induction t with
  | nil => rfl
  | cons e t ih => simp [ih]


theorem fromDicts_inter (w v2 p : Val) (tb : Table) (t0 : Sample) (d' sh' : Dict)
    (h : d'.Perm (Sample.privDict (.inter w v2 p tb)))
    (hs : sh'.Perm t0.sharedDict) (hc : t0.cls = .inter) (ht : t0.table = tb)
    (nd : (tb.map (·.1)).Nodup) :
    fromDicts .inter d' sh' = .ok (.inter w v2 p tb) := by
  have ndp : ((Sample.privDict (.inter w v2 p tb)).map (·.1)).Nodup := by
    simp [Sample.privDict]
  cases t0 with
  | combo => simp [Sample.cls] at hc
  | inter w0 v20 p0 tb0 =>
    simp only [Sample.table] at ht
    subst ht
    have nds : ((Sample.sharedDict (.inter w0 v20 p0 tb0)).map (·.1)).Nodup := by
      simp [Sample.sharedDict, K1, K2, KV]
    unfold fromDicts
    simp only [kwargsOk_perm interFields h ndp, lookup_perm h ndp, lookup_perm hs nds]
    simp [kwargsOk, interFields, Sample.privDict, Sample.sharedDict, List.lookup, K1, K2, KV,
      intArray, floatArray, zip3_table, tableOfPairs_nodup _ nd]

/-- what must hold of a sample for `save`/`load` to reproduce it in a holder whose first sample
is `t0`: same class and same lookup table (the shared parameters are written once, from `t0`) -/
def SameShared (t0 t : Sample) : Prop := t.cls = t0.cls ∧ t.table = t0.table

theorem fromDicts_roundtrip (t0 t : Sample) (d' sh' : Dict) (hsame : SameShared t0 t)
    (nd : (t0.table.map (·.1)).Nodup)
    (h : d'.Perm t.privDict) (hs : sh'.Perm t0.sharedDict) :
    fromDicts t0.cls d' sh' = .ok t := by
  cases t with
  | combo w w0 v2 v1 v0 a p =>
    have : t0.cls = .combo := hsame.1.symm
    rw [this]; exact fromDicts_combo _ _ _ _ _ _ _ _ _ h
  | inter w v2 p tb =>
    have hc : t0.cls = .inter := hsame.1.symm
    rw [hc]
    exact fromDicts_inter w v2 p tb t0 d' sh' h hs hc hsame.2.symm (by
      have := hsame.2; simp only [Sample.table] at this; rw [this]; exact nd)


/-! ### `load ∘ save` -/

/-- `g'` lists the attributes and datasets of `g` in some order -/
structure GroupPresents (g' g : Group) : Prop where
  attrs : g'.attrs.Perm g.attrs
  dsets : g'.dsets.Perm g.dsets

/-- `f'` is a presentation of the file `f`: same root attributes; the children of
`private_params`, and the attributes and datasets of every group, listed in ANY order -/
structure Presents (f' f : H5) : Prop where
  nThetas : f'.nThetas = f.nThetas
  cls : f'.cls = f.cls
  shared : GroupPresents f'.shared f.shared
  priv : ∃ l, f'.priv.Perm l ∧
    List.Forall₂ (fun a b => a.1 = b.1 ∧ GroupPresents a.2 b.2) l f.priv

theorem Presents.refl (f : H5) : Presents f f :=
  ⟨rfl, rfl, ⟨List.Perm.refl _, List.Perm.refl _⟩,
    ⟨f.priv, List.Perm.refl _, List.forall₂_same.2 (fun _ _ => ⟨rfl, List.Perm.refl _, List.Perm.refl _⟩)⟩⟩

theorem splitDict_dict_perm (d : Dict) (g' : Group) (h : GroupPresents g' (splitDict d)) :
    g'.dict.Perm d := by
  have h1 : g'.dict.Perm ((splitDict d).attrs ++ (splitDict d).dsets) := h.attrs.append h.dsets
  refine h1.trans ?_
  have := List.filter_append_perm (fun e : String × Val => !e.2.isArray) d
  simpa [splitDict] using this

theorem foldlM_loadStep (c : Cls) (sh : Dict) (N : Nat) :
    ∀ (gs : List Group) (ts : List Sample) (acc : List Sample),
      List.Forall₂ (fun g t => fromDicts c g.dict sh = .ok t) gs ts →
      acc.length + ts.length ≤ N →
      gs.foldlM (loadStep c sh) ⟨N, acc⟩ = .ok ⟨N, acc ++ ts⟩ := by
  intro gs ts acc h
  induction h generalizing acc with
  | nil => intro _; simp [pure, Except.pure]
  | @cons g t gs ts hd _ ih =>
    intro hlen
    simp only [List.length_cons] at hlen
    rw [List.foldlM_cons]
    have : loadStep c sh ⟨N, acc⟩ g = .ok ⟨N, acc ++ [t]⟩ := by
      unfold loadStep
      rw [hd]
      show addTheta ⟨N, acc⟩ t = _
      unfold addTheta
      have : ¬ (acc.length ≥ N) := by omega
      simp [this]
    rw [this]
    show List.foldlM (loadStep c sh) ⟨N, acc ++ [t]⟩ gs = _
    rw [ih (acc ++ [t]) (by simp; omega)]
    simp

theorem save_priv_keys (ts : List Sample) :
    (ts.zipIdx.map (fun p => (toString p.2, splitDict p.1.privDict))).map (·.1)
      = (List.range ts.length).map toString := by
  rw [List.map_map]
  have : (ts.zipIdx.map (fun p : Sample × Nat => p.2)) = List.range ts.length := by
    rw [List.range_eq_range']
    exact List.zipIdx_map_snd 0 ts
  rw [← this, List.map_map]
  rfl


theorem forall₂_fst_eq {α β γ : Type} {P : α × β → α × γ → Prop} {l : List (α × β)} {m : List (α × γ)}
    (h : List.Forall₂ (fun a b => a.1 = b.1 ∧ P a b) l m) : l.map (·.1) = m.map (·.1) := by
  induction h with
  | nil => rfl
  | cons hd _ ih => simp [hd.1, ih]

theorem sharedDict_storable (t : Sample) : dictStorable t.sharedDict = true := by
  cases t <;> simp [Sample.sharedDict, dictStorable, intArray, floatArray, Val.zeroDim]

theorem presented_groups_decode (t0 : Sample) (sh' : Dict) (hs : sh'.Perm t0.sharedDict)
    (nd : (t0.table.map (·.1)).Nodup) :
    ∀ (ts : List Sample) (k : Nat) (l : List (String × Group)),
      List.Forall₂ (fun a b => a.1 = b.1 ∧ GroupPresents a.2 b.2) l
        ((ts.zipIdx k).map (fun p => (toString p.2, splitDict p.1.privDict))) →
      (∀ t ∈ ts, SameShared t0 t) →
      List.Forall₂ (fun g t => fromDicts t0.cls g.dict sh' = .ok t) (l.map (·.2)) ts := by
  intro ts
  induction ts with
  | nil =>
    intro k l h _
    simp only [List.zipIdx_nil, List.map_nil, List.forall₂_nil_right_iff] at h
    subst h; exact List.Forall₂.nil
  | cons t ts ih =>
    intro k l h hH
    simp only [List.zipIdx_cons, List.map_cons, List.forall₂_cons_right_iff] at h
    obtain ⟨a, l', ha, hl', rfl⟩ := h
    simp only [List.map_cons]
    refine List.Forall₂.cons ?_ (ih (k + 1) l' hl' (fun t' ht' => hH t' (by simp [ht'])))
    exact fromDicts_roundtrip t0 t _ _ (hH t (by simp)) nd (splitDict_dict_perm _ _ ha.2) hs

theorem load_save (N : Nat) (t0 : Sample) (rest : List Sample)
    (hlen : (t0 :: rest).length ≤ N)
    (hsame : ∀ t ∈ t0 :: rest, SameShared t0 t)
    (hst : ∀ t ∈ t0 :: rest, dictStorable t.privDict = true)
    (nd : (t0.table.map (·.1)).Nodup) :
    ∃ f, save ⟨N, t0 :: rest⟩ = .ok f ∧
      ∀ f', Presents f' f → load f' = .ok ⟨N, t0 :: rest⟩ := by
  have hcond : (dictStorable t0.sharedDict && (t0 :: rest).all (fun t => dictStorable t.privDict)) = true := by
    rw [sharedDict_storable, Bool.true_and, List.all_eq_true]
    exact hst
  refine ⟨_, by simp only [save, hcond]; rfl, ?_⟩
  intro f' hp
  obtain ⟨l, hperm, hfa⟩ := hp.priv
  have hkeys : l.map (·.1) = (List.range (t0 :: rest).length).map toString := by
    rw [forall₂_fst_eq hfa]
    exact save_priv_keys (t0 :: rest)
  have hsort := sortByInt_perm _ l f'.priv hkeys hperm
  have hsh : f'.shared.dict.Perm t0.sharedDict := splitDict_dict_perm _ _ hp.shared
  have hdec := presented_groups_decode t0 f'.shared.dict hsh nd (t0 :: rest) 0 l hfa hsame
  unfold load
  rw [hsort]
  show List.foldlM (loadStep f'.cls f'.shared.dict) (Holder.empty f'.nThetas) (l.map (·.2)) = _
  rw [hp.cls, hp.nThetas]
  show List.foldlM (loadStep t0.cls f'.shared.dict) ⟨N, []⟩ (l.map (·.2)) = _
  rw [foldlM_loadStep t0.cls f'.shared.dict N _ (t0 :: rest) [] hdec (by simpa using hlen)]
  rfl


/-! ### holders filled through `add_theta` -/

theorem foldlM_addTheta (N : Nat) : ∀ (ts acc : List Sample) (h : Holder),
    ts.foldlM addTheta ⟨N, acc⟩ = .ok h → h = ⟨N, acc ++ ts⟩ ∧ (acc ++ ts).length ≤ N ∨ (ts = [] ∧ h = ⟨N, acc⟩) := by
  intro ts
  induction ts with
  | nil => intro acc h hh; right; simp [pure, Except.pure] at hh; exact ⟨rfl, hh.symm⟩
  | cons t ts ih =>
    intro acc h hh
    left
    rw [List.foldlM_cons] at hh
    by_cases hfull : acc.length ≥ N
    · simp [addTheta, hfull, bind, Except.bind] at hh
    · have hstep : addTheta ⟨N, acc⟩ t = .ok ⟨N, acc ++ [t]⟩ := by simp [addTheta, hfull]
      rw [hstep] at hh
      have hh' : ts.foldlM addTheta ⟨N, acc ++ [t]⟩ = .ok h := hh
      rcases ih (acc ++ [t]) h hh' with ⟨h1, h2⟩ | ⟨h1, h2⟩
      · exact ⟨by simpa using h1, by simpa using h2⟩
      · subst h1
        exact ⟨by simpa using h2, by simp; omega⟩

theorem fill_ok (N : Nat) (ts : List Sample) (h : Holder) (hf : fill N ts = .ok h) :
    h = ⟨N, ts⟩ ∧ (ts ≠ [] → ts.length ≤ N) := by
  rcases foldlM_addTheta N ts [] h hf with ⟨h1, h2⟩ | ⟨h1, h2⟩
  · exact ⟨by simpa using h1, fun _ => by simpa using h2⟩
  · subst h1; exact ⟨h2, fun hne => absurd rfl hne⟩

theorem Inst.table_keys_nodup (m : Inst) : (m.table.map (·.1)).Nodup := by
  unfold Inst.table
  cases m.cls
  · simp
  · exact tableOfPairs_keys_nodup _

/-! ### concat, chain ids, evaluate -/

theorem foldl_combine (rest : List Holder) : ∀ (h : Holder),
    rest.foldl combine h =
      ⟨h.size + (rest.map (·.size)).sum, h.thetas ++ rest.flatMap (·.thetas)⟩ := by
  induction rest with
  | nil => intro h; simp
  | cons r rest ih =>
    intro h
    rw [List.foldl_cons, ih]
    simp [combine, Nat.add_assoc]

theorem concat_eq (h : Holder) (rest : List Holder) :
    concat (h :: rest) =
      .ok ⟨((h :: rest).map (·.size)).sum, (h :: rest).flatMap (·.thetas)⟩ := by
  cases rest with
  | nil => simp [concat]
  | cons r rest =>
    simp only [concat]
    rw [foldl_combine]
    simp

theorem columns_complete (h : Holder) (hc : h.thetas.length = h.size) :
    columns h = .ok h.thetas := by
  unfold columns
  rw [mapM_ok_of_forall _ (fun j => (h.thetas[j]?).getD default)]
  · congr 1
    apply List.ext_getElem
    · simp [hc]
    · intro i h1 h2
      simp at h1
      simp [hc ▸ h1]
  · intro j hj
    have hj' : j < h.thetas.length := by rw [hc]; exact List.mem_range.1 hj
    unfold getTheta
    have : ¬ ((Int.ofNat j) > (h.thetas.length : Int) - 1 ∨ (Int.ofNat j) < 0) := by
      simp only [Int.ofNat_eq_natCast]; omega
    rw [if_neg this]
    simp [hj']

theorem zip_replicate {α : Type} (i : Nat) (l : List α) :
    (List.replicate l.length i).zip l = l.map (fun t => (i, t)) := by
  induction l with
  | nil => rfl
  | cons a l ih => simp [List.replicate_succ, ih]

theorem zip_chainIds (hs : List Holder) (hc : ∀ h ∈ hs, h.thetas.length = h.size) : ∀ (k : Nat),
    ((hs.zipIdx k).flatMap (fun p => List.replicate p.1.size p.2)).zip (hs.flatMap (·.thetas))
      = (hs.zipIdx k).flatMap (fun p => p.1.thetas.map (fun t => (p.2, t))) := by
  induction hs with
  | nil => intro k; rfl
  | cons h hs ih =>
    intro k
    simp only [List.zipIdx_cons, List.flatMap_cons]
    have hh : h.thetas.length = h.size := hc h (by simp)
    rw [List.zip_append (by simp [hh]), ih (fun h' hh' => hc h' (by simp [hh'])) (k + 1), ← hh,
      zip_replicate]

theorem length_chainIds (hs : List Holder) : ∀ k,
    ((hs.zipIdx k).flatMap (fun p => List.replicate p.1.size p.2)).length = (hs.map (·.size)).sum := by
  induction hs with
  | nil => intro k; rfl
  | cons h hs ih => intro k; simp [List.zipIdx_cons, ih (k + 1)]

theorem length_flatMap_thetas (hs : List Holder) (hc : ∀ h ∈ hs, h.thetas.length = h.size) :
    (hs.flatMap (·.thetas)).length = (hs.map (·.size)).sum := by
  induction hs with
  | nil => rfl
  | cons h hs ih =>
    simp [hc h (by simp), ih (fun h' hh' => hc h' (by simp [hh']))]

theorem evaluate_complete (h : Holder) (rest : List Holder)
    (hc : ∀ x ∈ h :: rest, x.thetas.length = x.size) :
    evaluate (h :: rest) =
      .ok (((h :: rest).zipIdx).flatMap (fun p => p.1.thetas.map (fun t => (p.2, t)))) := by
  unfold evaluate
  rw [concat_eq]
  show (do let cols ← columns _; _) = _
  rw [columns_complete _ (length_flatMap_thetas _ hc)]
  show (if _ then _ else _) = _
  have hl : (chainIds (h :: rest)).length = ((h :: rest).flatMap (·.thetas)).length := by
    rw [length_flatMap_thetas _ hc]; exact length_chainIds _ 0
  rw [if_neg (by simpa using hl)]
  congr 1
  exact zip_chainIds _ hc 0

end Batchie.Thetas
