/-
  C03 helper lemmas: TOTALITY of the hold-out split.  For every constructed screen and every selection vector of the
  screen's length both halves exist: `Screen(rows[sel], ..., mappings of the parent)` cannot fail, because every cell /
  sample name of a sub-list of the parent's rows has exactly one hit in the parent's tables, and a sub-list of a
  plate-uniform (plate, mask) list is plate-uniform.
-/
import Batchie.Lemmas.LifecycleHistory

namespace Batchie.Lifecycle
open Batchie.Proto Batchie.Screen Batchie.Retro

/-! ### `maskFilter` -/

theorem maskFilter_nil {α : Type} (m : List Bool) : maskFilter ([] : List α) m = [] := by cases m <;> rfl

theorem length_maskFilter {α : Type} : ∀ (xs : List α) (m : List Bool), xs.length = m.length →
    (maskFilter xs m).length = m.count true
  | [], [], _ => rfl
  | [], _ :: _, h => by simp at h
  | _ :: _, [], h => by simp at h
  | x :: xs, b :: m, h => by
    have ih := length_maskFilter xs m (by simpa using h)
    cases b <;> simp [maskFilter, ih]

theorem maskFilter_zip {α β : Type} : ∀ (xs : List α) (ys : List β) (m : List Bool),
    maskFilter (xs.zip ys) m = (maskFilter xs m).zip (maskFilter ys m)
  | [], ys, m => by simp [maskFilter_nil]
  | x :: xs, [], m => by simp [maskFilter_nil]
  | x :: xs, y :: ys, [] => by simp [maskFilter]
  | x :: xs, y :: ys, b :: m => by
    have ih := maskFilter_zip xs ys m
    cases b <;> simp [maskFilter, ih]

theorem any_maskFilter_false {α : Type} (p : α → Bool) (xs : List α) (m : List Bool) (h : xs.any p = false) :
    (maskFilter xs m).any p = false := by
  rw [List.any_eq_false] at h ⊢
  intro x hx
  exact h x (mem_of_mem_maskFilter hx)

/-! ### the cells of a sub-list of rows are cells of the rows -/

theorem zip_flatMap {ι α β : Type} (f : ι → List α) (g : ι → List β) (hl : ∀ i, (f i).length = (g i).length) :
    ∀ (l : List ι), (l.flatMap f).zip (l.flatMap g) = l.flatMap (fun i => (f i).zip (g i))
  | [] => rfl
  | i :: l => by
    simp only [List.flatMap_cons]
    rw [List.zip_append (hl i), zip_flatMap f g hl l]

theorem cellsOf_eq (ar : Nat) (tn : List (List Name)) (td : List (List Dose)) (hl : td.length = tn.length) :
    cellsOf ar tn td = (List.range ar).flatMap (fun i => (tn.zip td).map (fun p => (p.1[i]!, p.2[i]!))) := by
  unfold cellsOf
  rw [zip_flatMap _ _ (fun i => by rw [column_length, column_length, hl])]
  congr 1
  funext i
  unfold column
  rw [List.zip_map]
  rfl

theorem mem_cellsOf_sub (ar : Nat) (tn : List (List Name)) (td : List (List Dose)) (hl : td.length = tn.length)
    (sel : List Bool) (hs : sel.length = tn.length) (k : Name × Dose)
    (hk : k ∈ cellsOf ar (maskFilter tn sel) (maskFilter td sel)) : k ∈ cellsOf ar tn td := by
  have hl' : (maskFilter td sel).length = (maskFilter tn sel).length := by
    rw [length_maskFilter td sel (by omega), length_maskFilter tn sel (by omega)]
  rw [cellsOf_eq ar _ _ hl', ← maskFilter_zip] at hk
  rw [cellsOf_eq ar tn td hl]
  simp only [List.mem_flatMap, List.mem_range, List.mem_map] at hk ⊢
  obtain ⟨i, hi, p, hp, rfl⟩ := hk
  exact ⟨i, hi, p, mem_of_mem_maskFilter hp, rfl⟩

/-! ### every cell / sample name of a constructed screen has exactly one hit in the screen's tables -/

theorem tLookup_singleton_of_wf {s : Screen} (h : WF s) :
    ∀ k ∈ cellsOf s.arity s.tnames s.tdoses, (tLookup s.tmap k).length = 1 := by
  obtain ⟨tf, hte, hlen, _⟩ := h.tenc
  unfold encodeTreatments at hte
  simp only at hte
  split at hte
  · cases hte
  rename_i g
  injection hte with hte
  injection hte with htf _
  simp only [Bool.not_eq_true, List.any_eq_false, List.mem_map, forall_exists_index, and_imp,
    forall_apply_eq_imp_iff₂, List.isEmpty_iff] at g
  have hcl := length_cellsOf s.arity s.tnames s.tdoses h.len_td
  have hsing := all_singleton ((cellsOf s.arity s.tnames s.tdoses).map (tLookup s.tmap))
    (by intro x hx; obtain ⟨k, hk, rfl⟩ := List.mem_map.1 hx; exact g k hk)
    (by rw [htf, hlen, List.length_map, hcl, Nat.mul_comm])
  exact fun k hk => hsing _ (List.mem_map.2 ⟨k, hk, rfl⟩)

theorem sLookup_singleton_of_wf {s : Screen} (h : WF s) : ∀ k ∈ s.snames, (sLookup s.smap k).length = 1 := by
  have hse := h.senc
  unfold encode1d at hse
  simp only at hse
  split at hse
  · cases hse
  rename_i g
  injection hse with hse
  injection hse with hids _
  simp only [Bool.not_eq_true, List.any_eq_false, List.mem_map, forall_exists_index, and_imp,
    forall_apply_eq_imp_iff₂, List.isEmpty_iff] at g
  have hsing := all_singleton (s.snames.map (sLookup s.smap))
    (by intro x hx; obtain ⟨k, hk, rfl⟩ := List.mem_map.1 hx; exact g k hk)
    (by rw [hids, h.len_sids, List.length_map, h.len_sn])
  exact fun k hk => hsing _ (List.mem_map.2 ⟨k, hk, rfl⟩)

theorem length_flatten_singletons {β : Type} : ∀ (L : List (List β)), (∀ x ∈ L, x.length = 1) → L.flatten.length = L.length
  | [], _ => rfl
  | x :: t, h => by
    simp only [List.flatten_cons, List.length_append, List.length_cons, h x List.mem_cons_self,
      length_flatten_singletons t (fun y hy => h y (List.mem_cons_of_mem _ hy))]
    omega

theorem encodeTreatments_of_singletons (ctrl : Name) (tm : TMap) (cells : List (Name × Dose))
    (h : ∀ k ∈ cells, (tLookup tm k).length = 1) :
    ∃ tf, encodeTreatments ctrl cells (some tm) = .ok (tf, tm) ∧ tf.length = cells.length := by
  unfold encodeTreatments
  have hany : (cells.map (tLookup tm)).any (·.isEmpty) = false := by
    rw [List.any_eq_false]
    intro l hl
    obtain ⟨k, hk, rfl⟩ := List.mem_map.1 hl
    have := h k hk
    cases hq : tLookup tm k with
    | nil => rw [hq] at this; cases this
    | cons a t => simp
  simp only [hany, Bool.false_eq_true, ↓reduceIte]
  refine ⟨_, rfl, ?_⟩
  rw [length_flatten_singletons _ (by intro x hx; obtain ⟨k, hk, rfl⟩ := List.mem_map.1 hx; exact h k hk), List.length_map]

theorem encode1d_of_singletons (sm : SMap) (xs : List Name) (h : ∀ k ∈ xs, (sLookup sm k).length = 1) :
    ∃ ids, encode1d xs (some sm) = .ok (ids, sm) ∧ ids.length = xs.length := by
  unfold encode1d
  have hany : (xs.map (sLookup sm)).any (·.isEmpty) = false := by
    rw [List.any_eq_false]
    intro l hl
    obtain ⟨k, hk, rfl⟩ := List.mem_map.1 hl
    have := h k hk
    cases hq : sLookup sm k with
    | nil => rw [hq] at this; cases this
    | cons a t => simp
  simp only [hany, Bool.false_eq_true, ↓reduceIte]
  refine ⟨_, rfl, ?_⟩
  rw [length_flatten_singletons _ (by intro x hx; obtain ⟨k, hk, rfl⟩ := List.mem_map.1 hx; exact h k hk), List.length_map]

/-! ### plate uniformity of a sub-list of rows -/

theorem plateUniform_maskFilter (pn : List Name) (mask : List Bool) (sel : List Bool) (hu : plateUniform pn mask = true) :
    plateUniform (maskFilter pn sel) (maskFilter mask sel) = true := by
  rw [plateUniform_iff] at hu ⊢
  rw [← maskFilter_zip]
  intro x hx y hy hxy
  exact hu x (mem_of_mem_maskFilter hx) y (mem_of_mem_maskFilter hy) hxy

/-! ### `Screen(rows[sel], observations[sel], <mask>, mappings of the parent)` always succeeds -/

/-- the constructor call both hold-out functions make for one half -/
def subRaw (s : Screen) (sel m : List Bool) : Raw :=
  { ctrl := s.ctrl, arity := s.arity, tnames := maskFilter s.tnames sel, tdoses := maskFilter s.tdoses sel,
    snames := maskFilter s.snames sel, pnames := maskFilter s.pnames sel, obs := some (maskFilter s.obs sel),
    mask := some m, tmap := some s.tmap, smap := some s.smap }

theorem mk?_subRaw_ok {s : Screen} (h : WF s) (sel m : List Bool) (hsel : sel.length = s.tnames.length)
    (hm : m.length = sel.count true) (hu : plateUniform (maskFilter s.pnames sel) m = true) :
    ∃ t, mk? (subRaw s sel m) = .ok t := by
  have ltn := length_maskFilter s.tnames sel hsel.symm
  have ltd := length_maskFilter s.tdoses sel (by rw [h.len_td, hsel])
  have lsn := length_maskFilter s.snames sel (by rw [h.len_sn, hsel])
  have lpn := length_maskFilter s.pnames sel (by rw [h.len_pn, hsel])
  have lob := length_maskFilter s.obs sel (by rw [h.len_obs, hsel])
  have rtn := any_maskFilter_false (fun r : List Name => r.length != s.arity) s.tnames sel h.row_tn
  have rtd := any_maskFilter_false (fun r : List Dose => r.length != s.arity) s.tdoses sel h.row_td
  have hcells : ∀ k ∈ cellsOf s.arity (maskFilter s.tnames sel) (maskFilter s.tdoses sel), (tLookup s.tmap k).length = 1 :=
    fun k hk => tLookup_singleton_of_wf h k (mem_cellsOf_sub s.arity s.tnames s.tdoses h.len_td sel hsel k hk)
  obtain ⟨tf, hte, htl⟩ := encodeTreatments_of_singletons s.ctrl s.tmap _ hcells
  have hcl := length_cellsOf s.arity (maskFilter s.tnames sel) (maskFilter s.tdoses sel) (by rw [ltd, ltn])
  have htl' : tf.length = sel.count true * s.arity := by rw [htl, hcl, ltn, Nat.mul_comm]
  obtain ⟨ids, hse, hil⟩ := encode1d_of_singletons s.smap (maskFilter s.snames sel)
    (fun k hk => sLookup_singleton_of_wf h k (mem_of_mem_maskFilter hk))
  have hil' : ids.length = sel.count true := by rw [hil, lsn]
  have hpe := encode1d_fresh (maskFilter s.pnames sel)
  rw [mk?_eq]
  unfold mkSpec subRaw
  simp only [ltn, ltd, lsn, lpn, lob, rtn, rtd, bne_self_eq_false, Bool.or_self, Bool.false_eq_true, ↓reduceIte,
    Option.isNone_some, Bool.false_and]
  rw [mkCore_eq]
  unfold mkCoreSpec tmapBad smapBad
  simp only [ltn, hm, hu, h.tz, h.sz, hte, hse, hpe, htl', hil', bne_self_eq_false, Bool.not_true, Bool.false_eq_true,
    ↓reduceIte, Except.bind]
  exact ⟨_, rfl⟩

/-- **Totality of the hold-out**: for every constructed screen and every selection vector of the screen's length both
    halves exist (whatever the selection: nothing, everything, whole plates, parts of plates, observed or unobserved
    rows). -/
theorem holdout_total {s : Screen} (h : Valid s) (sel : List Bool) (hsel : sel.length = s.size) :
    ∃ k t, holdout s sel = .ok (k, t) := by
  have w := h.wf
  have hsel' : sel.length = s.tnames.length := by rw [hsel, size_eq w]
  have hk : ∃ k, holdoutKeep s sel = .ok k := by
    have := mk?_subRaw_ok w (sel.map (!·)) (maskFilter s.mask (sel.map (!·))) (by simpa using hsel')
      (length_maskFilter s.mask _ (by rw [w.len_mask]; simpa using hsel'.symm))
      (plateUniform_maskFilter s.pnames s.mask _ w.uniform)
    exact this
  have ht : ∃ t, holdoutTest s sel = .ok t :=
    mk?_subRaw_ok w sel (List.replicate (sel.count true) true) hsel' (by simp) (plateUniform_replicate _ _ _)
  obtain ⟨k, hk⟩ := hk
  obtain ⟨t, ht⟩ := ht
  refine ⟨k, t, ?_⟩
  unfold holdout
  simp only [hsel, bne_self_eq_false, Bool.false_eq_true, ↓reduceIte, hk, ht, bind, Except.bind, pure, Except.pure]

end Batchie.Lifecycle
