/-
  C19 -- shape of the output directories that executions of the orchestration script can reach
  (appendix A.2 of DESIGN.md): complete iterations, a current iteration with complete plates, and at
  most one piece of "junk" (an empty iteration directory or one marker-less plate directory).
  This file: definitions + list-level lemmas (sorting, lookups, local modifications).
-/
import Batchie.Model.Orchestrator

namespace Batchie.Orchestrator

/-! ## sorting an already sorted listing -/

theorem insertBy_of_le_all {α : Type} (key : α → Nat) (x : α) (l : List α)
    (h : ∀ y ∈ l, key x ≤ key y) : insertBy key x l = x :: l := by
  cases l with
  | nil => rfl
  | cons y ys => simp [insertBy, h y (by simp)]

theorem sortBy_eq_self {α : Type} (key : α → Nat) (l : List α)
    (h : l.Pairwise (fun a b => key a ≤ key b)) : sortBy key l = l := by
  induction l with
  | nil => rfl
  | cons x xs ih =>
    rw [List.pairwise_cons] at h
    have : sortBy key (x :: xs) = insertBy key x (sortBy key xs) := rfl
    rw [this, ih h.2, insertBy_of_le_all key x xs h.1]

/-! ## the shape -/

variable (cfg : Cfg)

/-- complete plate directories `plate_j, plate_{j+1}, ...` of the launches `ls` -/
def platesFrom (j : Nat) : List Launch → List PlateDir
  | [] => []
  | l :: ls => ⟨j, some (cfg.pubs l)⟩ :: platesFrom (j + 1) ls

/-- complete iteration directories `iter_i, iter_{i+1}, ...` -/
def itersFrom (i : Nat) : List (List Launch) → List IterDir
  | [] => []
  | c :: cs => ⟨i, platesFrom cfg 0 c⟩ :: itersFrom (i + 1) cs

/-- the completed steps: full iterations `cs` (each `B` launches) and the current iteration's `cur` -/
structure Prog where
  cs : List (List Launch)
  cur : List Launch
deriving DecidableEq, Repr

def Prog.empty : Prog := ⟨[], []⟩

def Prog.flat (p : Prog) : List Launch := p.cs.flatten ++ p.cur

def Prog.push (B : Nat) (p : Prog) (l : Launch) : Prog :=
  if p.cur.length + 1 = B then ⟨p.cs ++ [p.cur ++ [l]], []⟩ else ⟨p.cs, p.cur ++ [l]⟩

/-- the only things besides complete steps that a reachable directory contains -/
inductive Junk where
  | none
  | emptyIter                              -- `iter_i` exists, no plate directory in it (only when `cur = []`)
  | plate (sub : Option (List File))       -- the next step's plate directory, without the marker
deriving DecidableEq, Repr

def junkPlates (n : Nat) : Junk → List PlateDir
  | .plate s => [⟨n, s⟩]
  | _ => []

def lastIter (p : Prog) (jk : Junk) : List IterDir :=
  if p.cur = [] ∧ jk = .none then []
  else [⟨p.cs.length, platesFrom cfg 0 p.cur ++ junkPlates p.cur.length jk⟩]

def treeIters (p : Prog) (jk : Junk) : List IterDir := itersFrom cfg 0 p.cs ++ lastIter cfg p jk

/-! ## basic facts about `platesFrom` / `itersFrom` -/

theorem platesFrom_append (j : Nat) (a b : List Launch) :
    platesFrom cfg j (a ++ b) = platesFrom cfg j a ++ platesFrom cfg (j + a.length) b := by
  induction a generalizing j with
  | nil => simp [platesFrom]
  | cons x xs ih =>
    simp only [List.cons_append, platesFrom, ih, List.length_cons]
    have : j + 1 + xs.length = j + (xs.length + 1) := by omega
    rw [this]

theorem itersFrom_append (i : Nat) (a b : List (List Launch)) :
    itersFrom cfg i (a ++ b) = itersFrom cfg i a ++ itersFrom cfg (i + a.length) b := by
  induction a generalizing i with
  | nil => simp [itersFrom]
  | cons x xs ih =>
    simp only [List.cons_append, itersFrom, ih, List.length_cons]
    have : i + 1 + xs.length = i + (xs.length + 1) := by omega
    rw [this]

theorem platesFrom_idx (j : Nat) (ls : List Launch) :
    ∀ p ∈ platesFrom cfg j ls, j ≤ p.idx ∧ p.idx < j + ls.length := by
  induction ls generalizing j with
  | nil => simp [platesFrom]
  | cons x xs ih =>
    intro p hp
    simp only [platesFrom, List.mem_cons] at hp
    rcases hp with rfl | hp
    · simp
    · have := ih (j + 1) p hp
      simp only [List.length_cons]; omega

theorem itersFrom_idx (i : Nat) (cs : List (List Launch)) :
    ∀ it ∈ itersFrom cfg i cs, i ≤ it.idx ∧ it.idx < i + cs.length := by
  induction cs generalizing i with
  | nil => simp [itersFrom]
  | cons x xs ih =>
    intro p hp
    simp only [itersFrom, List.mem_cons] at hp
    rcases hp with rfl | hp
    · simp
    · have := ih (i + 1) p hp
      simp only [List.length_cons]; omega

theorem platesFrom_sorted (j : Nat) (ls : List Launch) :
    (platesFrom cfg j ls).Pairwise (fun a b => a.idx ≤ b.idx) := by
  induction ls generalizing j with
  | nil => simp [platesFrom]
  | cons x xs ih =>
    simp only [platesFrom, List.pairwise_cons]
    refine ⟨fun p hp => ?_, ih (j + 1)⟩
    have := platesFrom_idx cfg (j + 1) xs p hp
    omega

theorem itersFrom_sorted (i : Nat) (cs : List (List Launch)) :
    (itersFrom cfg i cs).Pairwise (fun a b => a.idx ≤ b.idx) := by
  induction cs generalizing i with
  | nil => simp [itersFrom]
  | cons x xs ih =>
    simp only [itersFrom, List.pairwise_cons]
    refine ⟨fun p hp => ?_, ih (i + 1)⟩
    have := itersFrom_idx cfg (i + 1) xs p hp
    omega

theorem lastPlates_sorted (cur : List Launch) (jk : Junk) :
    (platesFrom cfg 0 cur ++ junkPlates cur.length jk).Pairwise (fun a b => a.idx ≤ b.idx) := by
  rw [List.pairwise_append]
  refine ⟨platesFrom_sorted cfg 0 cur, ?_, ?_⟩
  · cases jk <;> simp [junkPlates]
  · intro a ha b hb
    have := platesFrom_idx cfg 0 cur a ha
    cases jk <;> simp [junkPlates] at hb
    subst hb; simp only; omega

theorem treeIters_sorted (p : Prog) (jk : Junk) :
    (treeIters cfg p jk).Pairwise (fun a b => a.idx ≤ b.idx) := by
  unfold treeIters
  rw [List.pairwise_append]
  refine ⟨itersFrom_sorted cfg 0 p.cs, ?_, ?_⟩
  · unfold lastIter; split <;> simp
  · intro a ha b hb
    have := itersFrom_idx cfg 0 p.cs a ha
    unfold lastIter at hb
    split at hb
    · simp at hb
    · simp only [List.mem_singleton] at hb
      subst hb; simp only; omega

/-! ## lookups -/

theorem findIter_append_of_lt (i : Nat) (a b : List IterDir) (h : ∀ it ∈ a, it.idx ≠ i) :
    findIter i (a ++ b) = findIter i b := by
  unfold findIter
  rw [List.find?_append]
  have : a.find? (fun it => decide (it.idx = i)) = none := by
    rw [List.find?_eq_none]
    intro x hx; simpa using h x hx
  rw [this]; rfl

theorem findIter_itersFrom_none (i k : Nat) (cs : List (List Launch)) (h : k + cs.length ≤ i) :
    ∀ it ∈ itersFrom cfg k cs, it.idx ≠ i := by
  intro it hit
  have := itersFrom_idx cfg k cs it hit
  omega

theorem findIter_treeIters_last (p : Prog) (jk : Junk) :
    findIter p.cs.length (treeIters cfg p jk) = (lastIter cfg p jk).head? := by
  unfold treeIters
  rw [findIter_append_of_lt _ _ _ (findIter_itersFrom_none cfg _ 0 p.cs (by omega))]
  unfold lastIter findIter
  split <;> simp

theorem findPlate_append_of_ne (j : Nat) (a b : List PlateDir) (h : ∀ p ∈ a, p.idx ≠ j) :
    findPlate j (a ++ b) = findPlate j b := by
  unfold findPlate
  rw [List.find?_append]
  have : a.find? (fun p => decide (p.idx = j)) = none := by
    rw [List.find?_eq_none]
    intro x hx; simpa using h x hx
  rw [this]; rfl

theorem platesFrom_ne (cur : List Launch) (j : Nat) (h : cur.length ≤ j) :
    ∀ p ∈ platesFrom cfg 0 cur, p.idx ≠ j := by
  intro p hp
  have := platesFrom_idx cfg 0 cur p hp
  omega

/-! ## local modifications -/

theorem modIter_append_last (i : Nat) (f : IterDir → IterDir) (a : List IterDir) (x : IterDir)
    (h : ∀ it ∈ a, it.idx ≠ i) (hx : x.idx = i) :
    modIter i f (a ++ [x]) = a ++ [f x] := by
  unfold modIter
  rw [List.map_append]
  congr 1
  · conv => rhs; rw [← List.map_id a]
    apply List.map_congr_left
    intro y hy; simp [h y hy]
  · simp [hx]

theorem map_plate_append_last (j : Nat) (f : PlateDir → PlateDir) (a : List PlateDir) (x : PlateDir)
    (h : ∀ p ∈ a, p.idx ≠ j) (hx : x.idx = j) :
    (a ++ [x]).map (fun p => if p.idx = j then f p else p) = a ++ [f x] := by
  rw [List.map_append]
  congr 1
  · conv => rhs; rw [← List.map_id a]
    apply List.map_congr_left
    intro y hy; simp [h y hy]
  · simp [hx]

theorem filter_plate_append_last (q : PlateDir → Bool) (a : List PlateDir) (x : PlateDir)
    (h : ∀ p ∈ a, q p = true) (hx : q x = false) :
    (a ++ [x]).filter q = a := by
  rw [List.filter_append]
  have : a.filter q = a := List.filter_eq_self.mpr h
  simp [this, hx]

end Batchie.Orchestrator
