/-
  C11 / C13 helper lemmas, part 2: plates as index lists (`idxOfId`, `plateIdx`), per-plate picks
  (the common shape of the hold-out loop and of the fixed/optimal-size loops), and the bridge from
  "rows of the output carrying plate name p" to "chosen indices inside the index list of plate p".
-/
import Batchie.Lemmas.PrepBasic
namespace Batchie.Prep
open Batchie.Proto Batchie.Screen

/-! ### index lists -/

theorem mem_idxOfId {ids : List Int} {x : Int} {i : Nat} :
    i ∈ idxOfId ids x ↔ ∃ (h : i < ids.length), ids[i] = x := by
  unfold idxOfId
  rw [List.mem_filter, List.mem_range]
  constructor
  · rintro ⟨h, e⟩
    rw [getElem!_pos ids i h] at e
    exact ⟨h, by simpa using e⟩
  · rintro ⟨h, e⟩
    refine ⟨h, ?_⟩
    rw [getElem!_pos ids i h]; simpa using e

theorem nodup_idxOfId (ids : List Int) (x : Int) : (idxOfId ids x).Nodup :=
  List.Nodup.sublist List.filter_sublist List.nodup_range

theorem idxOfId_lt {ids : List Int} {x : Int} {i : Nat} (h : i ∈ idxOfId ids x) : i < ids.length :=
  (mem_idxOfId.mp h).1

theorem idxOfId_disjoint {ids : List Int} {x y : Int} (hxy : x ≠ y) : ∀ i ∈ idxOfId ids x, i ∉ idxOfId ids y := by
  intro i hi hj
  obtain ⟨h, e⟩ := mem_idxOfId.mp hi
  obtain ⟨_, e'⟩ := mem_idxOfId.mp hj
  exact hxy (e.symm.trans e')

theorem mem_uniqueSorted {ids : List Int} {x : Int} : x ∈ uniqueSorted ids ↔ x ∈ ids := by
  unfold uniqueSorted
  rw [(List.mergeSort_perm _ _).mem_iff, List.mem_eraseDups]

theorem nodup_uniqueSorted (ids : List Int) : (uniqueSorted ids).Nodup := by
  unfold uniqueSorted
  exact (List.mergeSort_perm _ _).nodup_iff.mpr (nodup_eraseDups ids)

/-- the index lists of distinct ids are pairwise disjoint -/
theorem pairwise_disjoint_map_idxOfId (ids : List Int) (us : List Int) (h : us.Nodup) :
    (us.map (idxOfId ids)).Pairwise (fun a b => ∀ i ∈ a, i ∉ b) := by
  induction us with
  | nil => simp
  | cons u us ih =>
    rw [List.nodup_cons] at h
    rw [List.map_cons, List.pairwise_cons]
    refine ⟨?_, ih h.2⟩
    intro b hb
    obtain ⟨y, hy, rfl⟩ := List.mem_map.mp hb
    exact idxOfId_disjoint (fun e => h.1 (e ▸ hy))

/-- positions of the rows carrying name `p` -/
def posOf (pn : List Name) (p : Name) : List Nat := (List.range pn.length).filter (fun i => pn[i]! == p)

theorem idxOfId_map_inj (pn : List Name) (f : Name → Int) (hf : ∀ a ∈ pn, ∀ b ∈ pn, f a = f b → a = b) (p : Name) (hp : p ∈ pn) :
    idxOfId (pn.map f) (f p) = posOf pn p := by
  unfold idxOfId posOf
  rw [List.length_map]
  apply List.filter_congr
  intro i hi
  have hi' : i < pn.length := List.mem_range.mp hi
  rw [getElem!_pos (pn.map f) i (by simpa using hi'), getElem!_pos pn i hi', List.getElem_map]
  rw [Bool.eq_iff_iff]
  simp only [beq_iff_eq]
  constructor
  · intro h; exact hf _ (List.getElem_mem hi') _ hp h
  · intro h; rw [h]

theorem mem_posOf {pn : List Name} {p : Name} {i : Nat} : i ∈ posOf pn p ↔ ∃ (h : i < pn.length), pn[i] = p := by
  unfold posOf
  rw [List.mem_filter, List.mem_range]
  constructor
  · rintro ⟨h, e⟩
    rw [getElem!_pos pn i h] at e
    exact ⟨h, by simpa using e⟩
  · rintro ⟨h, e⟩
    refine ⟨h, ?_⟩
    rw [getElem!_pos pn i h]; simpa using e

theorem length_posOf (pn : List Name) (p : Name) : (posOf pn p).length = (pn.filter (· == p)).length := by
  unfold posOf
  induction pn with
  | nil => rfl
  | cons a l ih =>
    rw [List.length_cons, List.range_succ_eq_map, List.filter_cons, List.filter_map, List.filter_cons]
    have e : ((fun i => (a :: l)[i]! == p) ∘ Nat.succ) = fun i => l[i]! == p := by funext i; simp
    rw [e]
    simp only [List.getElem!_cons_zero]
    by_cases h : a == p <;> simp [h] <;> simpa using ih

/-! ### per-plate picks -/

/-- `picks` takes from every plate `q` of `plates` a duplicate-free list of `len q` of its indices -/
inductive Picked (len : List Nat → Nat) : List (List Nat) → List (List Nat) → Prop
  | nil : Picked len [] []
  | cons {q : List Nat} {qs : List (List Nat)} {c : List Nat} {cs : List (List Nat)} :
      c.Nodup → (∀ i ∈ c, i ∈ q) → c.length = len q → Picked len qs cs → Picked len (q :: qs) (c :: cs)

theorem Picked.mem_flatten {len : List Nat → Nat} {plates picks : List (List Nat)} (h : Picked len plates picks) :
    ∀ i ∈ picks.flatten, ∃ q ∈ plates, i ∈ q := by
  induction h with
  | nil => simp
  | cons _ hsub _ _ ih =>
    intro i hi
    rw [List.flatten_cons, List.mem_append] at hi
    rcases hi with hi | hi
    · exact ⟨_, List.mem_cons_self, hsub i hi⟩
    · obtain ⟨q, hq, hiq⟩ := ih i hi
      exact ⟨q, List.mem_cons_of_mem _ hq, hiq⟩

theorem filter_eq_self_of_forall {α : Type} (p : α → Bool) (l : List α) (h : ∀ a ∈ l, p a = true) : l.filter p = l :=
  List.filter_eq_self.mpr h

theorem filter_eq_nil_of_forall {α : Type} (p : α → Bool) (l : List α) (h : ∀ a ∈ l, p a = false) : l.filter p = [] := by
  apply List.filter_eq_nil_iff.mpr
  intro a ha; simp [h a ha]

/-- the chosen indices are duplicate-free and exactly `len t` of them lie in plate `t` -/
theorem Picked.count {len : List Nat → Nat} {plates picks : List (List Nat)} (h : Picked len plates picks)
    (hdis : plates.Pairwise (fun a b => ∀ i ∈ a, i ∉ b)) :
    picks.flatten.Nodup ∧ ∀ t ∈ plates, (picks.flatten.filter (fun i => t.contains i)).length = len t := by
  induction h with
  | nil => simp
  | @cons q qs c cs hnd hsub hlen hrest ih =>
    rw [List.pairwise_cons] at hdis
    obtain ⟨ihnd, ihcnt⟩ := ih hdis.2
    have hrestmem := hrest.mem_flatten
    constructor
    · rw [List.flatten_cons, List.nodup_append]
      refine ⟨hnd, ihnd, ?_⟩
      intro a ha b hb e
      obtain ⟨q', hq', hbq'⟩ := hrestmem b hb
      exact hdis.1 q' hq' a (hsub a ha) (e ▸ hbq')
    · intro t ht
      rw [List.flatten_cons, List.filter_append, List.length_append]
      rcases List.mem_cons.mp ht with rfl | ht'
      · rw [filter_eq_self_of_forall _ c (by intro a ha; simpa using hsub a ha)]
        rw [filter_eq_nil_of_forall _ cs.flatten (by
          intro a ha
          obtain ⟨q', hq', haq'⟩ := hrestmem a ha
          have : a ∉ t := fun hat => hdis.1 q' hq' a hat haq'
          simpa using this)]
        simp [hlen]
      · by_cases hc : c = []
        · subst hc
          simp only [List.filter_nil, List.length_nil, Nat.zero_add]
          exact ihcnt t ht'
        · rw [filter_eq_nil_of_forall _ c (by
            intro a ha
            have : a ∉ t := hdis.1 t ht' a (hsub a ha)
            simpa using this)]
          simp only [List.length_nil, Nat.zero_add]
          exact ihcnt t ht'

/-! ### counting selected rows -/

/-- for a duplicate-free list of valid indices, counting through the selection vector is counting in the list -/
theorem length_filter_range_contains (n : Nat) (c : List Nat) (P : Nat → Bool) (hnd : c.Nodup) (hlt : ∀ i ∈ c, i < n) :
    ((List.range n).filter (fun i => c.contains i && P i)).length = (c.filter P).length := by
  apply List.Perm.length_eq
  rw [List.perm_ext_iff_of_nodup (List.Nodup.sublist List.filter_sublist List.nodup_range) (List.Nodup.sublist List.filter_sublist hnd)]
  intro a
  simp only [List.mem_filter, List.mem_range, Bool.and_eq_true, List.contains_iff_mem]
  constructor
  · rintro ⟨_, h1, h2⟩; exact ⟨h1, h2⟩
  · rintro ⟨h1, h2⟩; exact ⟨hlt a h1, h1, h2⟩

/-- number of selected rows carrying plate name `p` = number of chosen indices at positions of `p` -/
theorem count_selected_plate (rows : List Row) (c : List Nat) (p : Name) (hnd : c.Nodup) (hlt : ∀ i ∈ c, i < rows.length) :
    ((maskFilter rows (selOfIdx rows.length c)).filter (fun r => r.plate == p)).length
      = (c.filter (fun i => (posOf (rows.map (·.plate)) p).contains i)).length := by
  rw [maskFilter_selOfIdx, List.filter_map, List.length_map, List.filter_filter]
  have : (List.filter (fun a => ((fun r => r.plate == p) ∘ fun i => rows[i]!) a && c.contains a) (List.range rows.length))
       = (List.filter (fun i => c.contains i && (posOf (rows.map (·.plate)) p).contains i) (List.range rows.length)) := by
    apply List.filter_congr
    intro i hi
    have hi' : i < rows.length := List.mem_range.mp hi
    rw [Bool.and_comm]
    congr 1
    simp only [Function.comp]
    rw [getElem!_pos rows i hi', Bool.eq_iff_iff]
    simp only [beq_iff_eq, List.contains_iff_mem, mem_posOf, List.length_map, List.getElem_map]
    constructor
    · intro e; exact ⟨hi', e⟩
    · rintro ⟨_, e⟩; exact e
  rw [this]
  exact length_filter_range_contains _ c _ hnd hlt

theorem filter_plate_eq_posOf_map (rows : List Row) (p : Name) :
    rows.filter (fun r => r.plate == p) = (posOf (rows.map (·.plate)) p).map (fun i => rows[i]!) := by
  rw [← maskFilter_map_pred, maskFilter_eq_range rows _ (by simp)]
  congr 1
  unfold posOf
  rw [List.length_map]
  apply List.filter_congr
  intro i hi
  have hi' : i < rows.length := List.mem_range.mp hi
  rw [getElem!_pos _ i (by simpa using hi'), getElem!_pos _ i (by simpa using hi')]
  simp

theorem posOf_eq_nil {pn : List Name} {p : Name} (h : p ∉ pn) : posOf pn p = [] := by
  apply List.eq_nil_iff_forall_not_mem.mpr
  intro i hi
  obtain ⟨hl, e⟩ := mem_posOf.mp hi
  exact h (e ▸ List.getElem_mem hl)

theorem all_congr_mem {α : Type} (l : List α) (f g : α → Bool) (h : ∀ a ∈ l, f a = g a) : l.all f = l.all g := by
  induction l with
  | nil => rfl
  | cons a l ih =>
    simp only [List.all_cons]
    rw [h a List.mem_cons_self, ih (fun b hb => h b (List.mem_cons_of_mem _ hb))]

theorem plateObserved_posOf (rows : List Row) (p : Name) :
    plateObserved (rows.map (·.mask)) (posOf (rows.map (·.plate)) p) = (rows.filter (fun r => r.plate == p)).all (·.mask) := by
  rw [filter_plate_eq_posOf_map, List.all_map]
  unfold plateObserved
  apply all_congr_mem
  intro i hi
  obtain ⟨hl, _⟩ := mem_posOf.mp hi
  have hl' : i < rows.length := by simpa using hl
  rw [getElem!_pos _ i (by simpa using hl'), Function.comp, getElem!_pos _ i hl']
  simp
end Batchie.Prep
