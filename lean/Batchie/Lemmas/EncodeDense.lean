/-
  C01 helper lemmas, part 7: the density test of supplied mappings and the experiment-space sizes.
-/
import Batchie.Lemmas.EncodeCells

namespace Batchie.Screen
open Batchie.Proto

/-- soundness of `numpy_array_is_0_indexed_integers`: an accepted id array is `{-1?} ∪ {0, …, n-1}` -/
theorem isZeroIndexed_sound (ids : List Int) (h : isZeroIndexed ids = true) :
    ∃ n : Nat, ∀ x : Int, x ∈ ids ↔ ((x = -1 ∧ (-1 : Int) ∈ ids) ∨ (0 ≤ x ∧ x < (n : Int))) := by
  unfold isZeroIndexed at h
  simp only at h
  have hmem : ∀ x, x ∈ (ids.eraseDups).mergeSort (fun a b => decide (a ≤ b)) ↔ x ∈ ids := mem_sorted_unique _ _
  have hrange : ∀ (k : Nat) (x : Int), x ∈ (List.range k).map (fun (i : Nat) => (i : Int)) ↔ (0 ≤ x ∧ x < (k : Int)) := by
    intro k x
    simp only [List.mem_map, List.mem_range]
    constructor
    · rintro ⟨i, hi, rfl⟩; omega
    · rintro ⟨h0, h1⟩; exact ⟨x.toNat, by omega, by omega⟩
  split at h
  · rename_i hc
    have hc' : (-1 : Int) ∈ ids := by simpa using hc
    have hu := eq_of_beq h
    generalize ((ids.eraseDups).mergeSort (fun a b => decide (a ≤ b))).length - 1 = k at hu
    refine ⟨k, fun x => ?_⟩
    rw [← hmem x, hu, List.mem_cons, hrange]
    constructor
    · rintro (h1 | h1)
      · exact Or.inl ⟨h1, hc'⟩
      · exact Or.inr h1
    · rintro (⟨h1, _⟩ | h1)
      · exact Or.inl h1
      · exact Or.inr h1
  · rename_i hc
    have hc' : (-1 : Int) ∉ ids := by simpa using hc
    have hu := eq_of_beq h
    generalize ((ids.eraseDups).mergeSort (fun a b => decide (a ≤ b))).length = k at hu
    refine ⟨k, fun x => ?_⟩
    rw [← hmem x, hu, hrange]
    constructor
    · intro h1; exact Or.inr h1
    · rintro (⟨_, h1⟩ | h1)
      · exact absurd h1 hc'
      · exact h1

/-! ### experiment-space sizes of fresh tables -/

theorem length_of_nodup_mem_iff {α : Type} (l₁ l₂ : List α) (d₁ : l₁.Nodup) (d₂ : l₂.Nodup) (h : ∀ a, a ∈ l₁ ↔ a ∈ l₂) :
    l₁.length = l₂.length :=
  ((List.perm_ext_iff_of_nodup d₁ d₂).mpr h).length_eq

/-- number of non-control keys of the data -/
def nNonControl (ctrl : Name) (xs : List (Name × Dose)) : Nat := (sortedKeys xs).countP (fun x => !isControl ctrl x)

theorem freshTMap_id_mem_iff (ctrl : Name) (xs : List (Name × Dose)) (x : Int) :
    (x ∈ (freshTMap ctrl xs).map (·.2.2) ∧ x ≠ -1) ↔ (0 ≤ x ∧ x < (nNonControl ctrl xs : Int)) := by
  have hnc := freshTable_noncontrol_ids ctrl (sortedKeys xs)
  rw [← freshTMap_eq_freshTable] at hnc
  have hr : (0 ≤ x ∧ x < (nNonControl ctrl xs : Int)) ↔ x ∈ (List.range (nNonControl ctrl xs)).map (fun (i : Nat) => (i : Int)) := by
    simp only [List.mem_map, List.mem_range]
    constructor
    · rintro ⟨h0, h1⟩; exact ⟨x.toNat, by omega, by omega⟩
    · rintro ⟨i, hi, rfl⟩; omega
  rw [hr, nNonControl, ← hnc]
  simp only [List.mem_map, List.mem_filter]
  constructor
  · rintro ⟨⟨e, he, rfl⟩, hne⟩
    refine ⟨e, ⟨he, ?_⟩, rfl⟩
    have := freshTable_control_iff ctrl (sortedKeys xs) e (by rw [← freshTMap_eq_freshTable]; exact he)
    cases hc : isControl ctrl (tKey e)
    · rfl
    · exact absurd (this.mpr hc) hne
  · rintro ⟨e, ⟨he, hc⟩, rfl⟩
    refine ⟨⟨e, he, rfl⟩, ?_⟩
    have := freshTable_control_iff ctrl (sortedKeys xs) e (by rw [← freshTMap_eq_freshTable]; exact he)
    intro h
    have h2 := this.mp h
    simp only [tKey] at hc
    rw [h2] at hc; simp at hc

/-- `ExperimentSpace.n_unique_treatments` of a fresh table is the number of distinct non-control (name, dose) pairs -/
theorem nUniqueTreatments_freshTMap (ctrl : Name) (xs : List (Name × Dose)) :
    nUniqueTreatments (freshTMap ctrl xs) = nNonControl ctrl xs := by
  unfold nUniqueTreatments
  have h := length_of_nodup_mem_iff
    ((((freshTMap ctrl xs).map (·.2.2)).eraseDups).filter (· != -1))
    ((List.range (nNonControl ctrl xs)).map (fun (i : Nat) => (i : Int)))
    ((nodup_eraseDups _).filter _)
    (by rw [List.Nodup, List.pairwise_map]; exact List.nodup_range.imp (fun h h' => h (Int.ofNat_inj.mp h')))
    (by
      intro a
      rw [List.mem_filter, List.mem_eraseDups]
      have := freshTMap_id_mem_iff ctrl xs a
      simp only [bne_iff_ne, ne_eq]
      rw [this]
      simp only [List.mem_map, List.mem_range]
      constructor
      · rintro ⟨h0, h1⟩; exact ⟨a.toNat, by omega, by omega⟩
      · rintro ⟨i, hi, rfl⟩; omega)
  rw [h]; simp

theorem freshTMap_id_lt (ctrl : Name) (xs : List (Name × Dose)) (e : Name × Dose × Int) (he : e ∈ freshTMap ctrl xs) :
    -1 ≤ e.2.2 ∧ e.2.2 < (nUniqueTreatments (freshTMap ctrl xs) : Int) := by
  rw [nUniqueTreatments_freshTMap]
  by_cases h : e.2.2 = -1
  · rw [h]; omega
  · have := (freshTMap_id_mem_iff ctrl xs e.2.2).mp ⟨List.mem_map.mpr ⟨e, he, rfl⟩, h⟩
    omega

theorem nUniqueSamples_freshSMap (xs : List Name) : nUniqueSamples (freshSMap xs) = (sortedNames xs).length := by
  unfold nUniqueSamples
  rw [freshSMap_names]
  exact length_of_nodup_mem_iff _ _ (nodup_eraseDups _) (sortedNames_nodup xs) (fun a => List.mem_eraseDups)

theorem freshSMap_id_lt (xs : List Name) (e : Name × Int) (he : e ∈ freshSMap xs) :
    0 ≤ e.2 ∧ e.2 < (nUniqueSamples (freshSMap xs) : Int) := by
  rw [nUniqueSamples_freshSMap]
  obtain ⟨k, hk, rfl⟩ := (mem_freshSMap xs e).mp he
  simp only; omega

end Batchie.Screen
