/-
  Lemmas about the interaction-only sampler (`Model/GibbsInter.lean`): the fitted value is affine in `W[c]` and in
  `V2[m]` with the design rows the code builds, the cache invariant, the documented energy and its dependence on one
  block, the order of the logged sites, the gamma-process loop.  Everything generic comes from `Lemmas/Gibbs*.lean`.
-/
import Batchie.Model.GibbsInter
import Batchie.Lemmas.GibbsCache
import Batchie.Lemmas.GibbsSweep
import Batchie.Lemmas.GibbsGamma

namespace Batchie.GibbsInter
open Batchie.Gibbs Finset

def CacheOKI (dt : Data ℝ) (st : IState ℝ) : Prop := ∀ n, n < dt.N → st.Mu n = muI dt st n

/-- training rows are combination rows: both ids are treatment ids (≥ 0) -/
def ComboRows (dt : Data ℝ) : Prop := ∀ n, n < dt.N → 0 ≤ dt.dd1 n ∧ 0 ≤ dt.dd2 n

/-- no row has the same treatment twice -/
def NoSelfPairI (dt : Data ℝ) : Prop := ∀ n, n < dt.N → dt.dd1 n ≠ dt.dd2 n

def setWI (st : IState ℝ) (c : ℕ) (x : ℕ → ℝ) : IState ℝ := { st with W := upd st.W c x }
def setV2I (st : IState ℝ) (m : ℕ) (x : ℕ → ℝ) : IState ℝ := { st with V2 := upd st.V2 m x }

theorem setWI_self (st : IState ℝ) (c : ℕ) : setWI st c (st.W c) = st := by unfold setWI; rw [upd_self_eq]
theorem setV2I_self (st : IState ℝ) (m : ℕ) : setV2I st m (st.V2 m) = st := by unfold setV2I; rw [upd_self_eq]

theorem gat_upd (V : ℕ → ℕ → ℝ) (m : ℕ) (x : ℕ → ℝ) (t : ℤ) (d : ℕ) (ht : 0 ≤ t) :
    gat (upd V m x) t d = if t = (m : ℤ) then x d else gat V t d := by
  unfold gat upd
  have : t.toNat = m ↔ t = (m : ℤ) := by omega
  by_cases h : t = (m : ℤ)
  · rw [if_pos (this.mpr h), if_pos h]
  · rw [if_neg (fun hh => h (this.mp hh)), if_neg h]

theorem noSelfI (dt : Data ℝ) (hp : NoSelfPairI dt) (m : ℕ) : SNoSelf dt.N (sel1 dt m) (sel2 dt m) := by
  intro n hn ⟨h1, h2⟩
  rw [sel1_iff] at h1; rw [sel2_iff] at h2
  exact hp n hn (by rw [h1, h2])

theorem muI_eq (dt : Data ℝ) (st : IState ℝ) (n : ℕ) :
    muI dt st n = ∑ d ∈ range dt.D, st.W (dt.cline n) d * gat st.V2 (dt.dd1 n) d * gat st.V2 (dt.dd2 n) d := by
  unfold muI muOfI; rw [sumN_eq]

theorem sum_rearrange1 (s : Finset ℕ) (f g u : ℕ → ℝ) (h : ∀ d ∈ s, f d = g d + u d) :
    ∑ d ∈ s, f d = ∑ d ∈ s, g d + ∑ d ∈ s, u d := by
  rw [← sum_add_distrib]; exact sum_congr rfl h

theorem muI_affine_W (dt : Data ℝ) (st : IState ℝ) (c : ℕ) (x : ℕ → ℝ) (n : ℕ) :
    muI dt (setWI st c x) n = muI dt (setWI st c (fun _ => 0)) n
      + ∑ d ∈ range dt.D, (wBlkI dt st c).design n d * x d := by
  simp only [muI_eq, setWI, Blk.design, wBlkI, selNone, wXI, Bool.false_eq_true, ↓reduceIte]
  apply sum_rearrange1
  intro d _
  by_cases h : dt.cline n = c
  · have hs : selC dt c n = true := (selC_iff dt c n).mpr h
    simp only [hs, ↓reduceIte, h, upd_same]; ring
  · have hs : selC dt c n = false := by
      rw [← Bool.not_eq_true]; exact fun hh => h ((selC_iff dt c n).mp hh)
    simp only [hs, Bool.false_eq_true, ↓reduceIte, upd_other _ _ _ _ h]; ring

theorem muI_affine_V2 (dt : Data ℝ) (hw : ComboRows dt) (hp : NoSelfPairI dt) (st : IState ℝ) (m : ℕ)
    (x : ℕ → ℝ) (n : ℕ) (hn : n < dt.N) :
    muI dt (setV2I st m x) n = muI dt (setV2I st m (fun _ => 0)) n
      + ∑ d ∈ range dt.D, (v2BlkI dt st m).design n d * x d := by
  have hwf := hw n hn
  have hns := noSelfI dt hp m n hn
  simp only [muI_eq, setV2I, Blk.design, v2BlkI, gat_upd _ _ _ _ _ hwf.1, gat_upd _ _ _ _ _ hwf.2]
  apply sum_rearrange1
  intro d _
  by_cases h1 : dt.dd1 n = (m : ℤ)
  · by_cases h2 : dt.dd2 n = (m : ℤ)
    · exact absurd ⟨(sel1_iff dt m n).mpr h1, (sel2_iff dt m n).mpr h2⟩ hns
    · have hs1 := (sel1_iff dt m n).mpr h1
      have hs2 : sel2 dt m n = false := by
        rw [← Bool.not_eq_true]; exact fun hh => h2 ((sel2_iff dt m n).mp hh)
      simp only [h1, h2, ↓reduceIte, hs1, hs2, Bool.false_eq_true]; ring
  · by_cases h2 : dt.dd2 n = (m : ℤ)
    · have hs2 := (sel2_iff dt m n).mpr h2
      simp only [h1, h2, ↓reduceIte, hs2]; ring
    · have hs1 : sel1 dt m n = false := by
        rw [← Bool.not_eq_true]; exact fun hh => h1 ((sel1_iff dt m n).mp hh)
      have hs2 : sel2 dt m n = false := by
        rw [← Bool.not_eq_true]; exact fun hh => h2 ((sel2_iff dt m n).mp hh)
      simp only [h1, h2, ↓reduceIte, hs1, hs2, Bool.false_eq_true]; ring

/-! ### cache invariant -/

theorem cacheI_push (dt : Data ℝ) (st : IState ℝ) (r : Rec ℝ) (h : CacheOKI dt st) : CacheOKI dt (st.push r) :=
  fun n hn => h n hn

theorem cacheI_reconstruct (dt : Data ℝ) (lo hi : ℝ) (st : IState ℝ) : CacheOKI dt (reconstructMu false lo hi dt st) := by
  intro n hn
  unfold reconstructMu
  have : dt.N ≠ 0 := by omega
  simp only [this, if_false, Bool.false_eq_true]
  rfl

theorem cacheI_wNext (dt : Data ℝ) (st : IState ℝ) (h : CacheOKI dt st) (c : ℕ) (v : Option (ℕ → ℝ)) :
    CacheOKI dt (wNextI dt st c v) := by
  cases v with
  | none => exact h
  | some w =>
    intro n hn
    have key := cache_blk (wBlkI dt st c) st.Mu (fun x n => muI dt (setWI st c x) n)
      (fun x n _ => muI_affine_W dt st c x n)
      (fun n hn => by show st.Mu n = muI dt (setWI st c (st.W c)) n; rw [setWI_self]; exact h n hn) w n hn
    unfold wNextI
    by_cases hh : (wBlkI dt st c).has = true
    · simp only [hh, if_true] at key ⊢; exact key
    · have hf : (wBlkI dt st c).has = false := by simpa using hh
      simp only [hf, Bool.false_eq_true, if_false] at key ⊢; exact key

theorem cacheI_v2Next (dt : Data ℝ) (hw : ComboRows dt) (hp : NoSelfPairI dt) (st : IState ℝ) (h : CacheOKI dt st)
    (m : ℕ) (v : Option (ℕ → ℝ)) : CacheOKI dt (v2NextI dt st m v) := by
  cases v with
  | none => exact h
  | some w =>
    intro n hn
    have key := cache_blk (v2BlkI dt st m) st.Mu (fun x n => muI dt (setV2I st m x) n)
      (fun x n hn => muI_affine_V2 dt hw hp st m x n hn)
      (fun n hn => by show st.Mu n = muI dt (setV2I st m (st.V2 m)) n; rw [setV2I_self]; exact h n hn) w n hn
    unfold v2NextI
    by_cases hh : (v2BlkI dt st m).has = true
    · simp only [hh, if_true] at key ⊢; exact key
    · have hf : (v2BlkI dt st m).has = false := by simpa using hh
      simp only [hf, Bool.false_eq_true, if_false] at key ⊢; exact key

theorem cacheI_wIter (dt : Data ℝ) (ω : IDraws ℝ) (st : IState ℝ) (h : CacheOKI dt st) (k : ℕ) :
    CacheOKI dt (iter k (wBlockI dt ω) st) :=
  iter_induction (CacheOKI dt) _ _ _ h (fun c _ t ht => cacheI_push dt _ _ (cacheI_wNext dt t ht c (ω.w c)))

theorem cacheI_v2Iter (dt : Data ℝ) (hw : ComboRows dt) (hp : NoSelfPairI dt) (ω : IDraws ℝ) (st : IState ℝ)
    (h : CacheOKI dt st) (k : ℕ) : CacheOKI dt (iter k (v2BlockI dt ω) st) :=
  iter_induction (CacheOKI dt) _ _ _ h (fun m _ t ht => cacheI_push dt _ _ (cacheI_v2Next dt hw hp t ht m (ω.v2 m)))

theorem cacheI_precObs (dt : Data ℝ) (ω : IDraws ℝ) (st : IState ℝ) (h : CacheOKI dt st) :
    CacheOKI dt (precObsStepI dt ω st) := fun n hn => h n hn

theorem cacheI_precV2 (dt : Data ℝ) (ω : IDraws ℝ) (st : IState ℝ) (h : CacheOKI dt st) :
    CacheOKI dt (precV2StepI dt ω st) := fun n hn => h n hn

theorem cacheI_precW (dt : Data ℝ) (ω : IDraws ℝ) (st : IState ℝ) (h : CacheOKI dt st) :
    CacheOKI dt (precWStepI dt ω st) := by
  have : CacheOKI dt (iter dt.D (gamBlockI dt ω) st) :=
    iter_induction (CacheOKI dt) _ _ _ h (fun d _ t ht => fun n hn => ht n hn)
  exact fun n hn => this n hn

theorem cacheI_stepsTail (dt : Data ℝ) (hw : ComboRows dt) (hp : NoSelfPairI dt) (ω : IDraws ℝ) :
    ∀ f ∈ stepsTailI dt ω, ∀ s, CacheOKI dt s → CacheOKI dt (f s) := by
  intro f hf s hs
  simp only [stepsTailI, List.mem_cons, List.not_mem_nil, or_false] at hf
  rcases hf with rfl | rfl | rfl | rfl | rfl
  · exact cacheI_wIter dt ω s hs dt.nC
  · exact cacheI_v2Iter dt hw hp ω s hs dt.nT
  · exact cacheI_precObs dt ω s hs
  · exact cacheI_precV2 dt ω s hs
  · exact cacheI_precW dt ω s hs

theorem cacheI_sweep (dt : Data ℝ) (hw : ComboRows dt) (hp : NoSelfPairI dt) (ω : IDraws ℝ) (st : IState ℝ) :
    CacheOKI dt (mcmcStepI dt ω st) ∧ ∀ s ∈ mcmcTraceI dt ω st, CacheOKI dt s := by
  have h0 := cacheI_reconstruct dt 0 0 st
  exact runTrace_invariant (CacheOKI dt) (stepsTailI dt ω) (cacheI_stepsTail dt hw hp ω)
    (reconstructMu false 0 0 dt st) ([] ++ [reconstructMu false 0 0 dt st]) h0
    (fun t ht => by rw [List.nil_append, List.mem_singleton] at ht; rw [ht]; exact h0)

/-! ### the documented energy of THIS model -/

noncomputable def likI (dt : Data ℝ) (st : IState ℝ) : ℝ :=
  (1/2) * st.prec * ∑ n ∈ range dt.N, (dt.y n - muI dt st n)^2
noncomputable def priWI (dt : Data ℝ) (st : IState ℝ) : ℝ :=
  (1/2) * ∑ c ∈ range dt.nC, ∑ d ∈ range dt.D, st.tau d * st.W c d ^ 2
noncomputable def priV2I (dt : Data ℝ) (st : IState ℝ) : ℝ :=
  (1/2) * ∑ m ∈ range dt.nT, ∑ d ∈ range dt.D, (st.phi2 m d * st.eta2 d) * st.V2 m d ^ 2

/-- negative log-density of the documented model as a function of the Gaussian blocks:
    `y_n ~ N(⟨W[c], V2[d1]∘V2[d2]⟩, 1/prec)`, `W[c,d] ~ N(0, 1/tau_d)`, `V2[m,d] ~ N(0, 1/(phi2[m,d]·eta2[d]))` -/
noncomputable def energyI (dt : Data ℝ) (st : IState ℝ) : ℝ := likI dt st + priWI dt st + priV2I dt st

theorem likI_of_affine (dt : Data ℝ) (st : IState ℝ) (D : ℕ) (base : ℕ → ℝ) (X : ℕ → ℕ → ℝ) (x : ℕ → ℝ)
    (h : ∀ n, n < dt.N → muI dt st n = base n + ∑ d ∈ range D, X n d * x d) :
    likI dt st = (1/2) * st.prec * ∑ n ∈ range dt.N, ((dt.y n - base n) - ∑ d ∈ range D, X n d * x d)^2 := by
  unfold likI
  congr 1
  apply sum_congr rfl; intro n hn
  rw [h n (mem_range.mp hn)]; ring

theorem sum_upd_splitI {β : Type} (n c : ℕ) (hc : c < n) (f : ℕ → β) (a : β) (g : ℕ → β → ℝ) :
    ∑ i ∈ range n, g i (upd f c a i) = g c a + ∑ i ∈ (range n).erase c, g i (f i) := by
  rw [← add_sum_erase (range n) _ (mem_range.mpr hc), upd_same]
  congr 1
  apply sum_congr rfl; intro i hi
  rw [upd_other _ _ _ _ (ne_of_mem_erase hi)]

theorem energyI_W (dt : Data ℝ) (st : IState ℝ) (c : ℕ) (hc : c < dt.nC) (x : ℕ → ℝ) :
    energyI dt (setWI st c x)
      = blockEnergy dt.N dt.D st.prec (wBlkI dt st c).design (fun n => dt.y n - muI dt (setWI st c (fun _ => 0)) n) st.tau x
        + ((1/2) * ∑ i ∈ (range dt.nC).erase c, ∑ d ∈ range dt.D, st.tau d * st.W i d ^ 2 + priV2I dt st) := by
  unfold energyI blockEnergy
  rw [likI_of_affine dt (setWI st c x) dt.D _ _ x (fun n _ => muI_affine_W dt st c x n)]
  have hp : priWI dt (setWI st c x) = (1/2) * (∑ d ∈ range dt.D, st.tau d * x d ^ 2
      + ∑ i ∈ (range dt.nC).erase c, ∑ d ∈ range dt.D, st.tau d * st.W i d ^ 2) := by
    unfold priWI setWI
    rw [sum_upd_splitI dt.nC c hc st.W x (fun _ row => ∑ d ∈ range dt.D, st.tau d * row d ^ 2)]
  rw [hp]
  show _ + _ + priV2I dt st = _
  show (1/2) * st.prec * _ + _ + _ = _
  ring

theorem energyI_V2 (dt : Data ℝ) (hw : ComboRows dt) (hp : NoSelfPairI dt) (st : IState ℝ) (m : ℕ) (hm : m < dt.nT)
    (x : ℕ → ℝ) :
    energyI dt (setV2I st m x)
      = blockEnergy dt.N dt.D st.prec (v2BlkI dt st m).design (fun n => dt.y n - muI dt (setV2I st m (fun _ => 0)) n)
          (fun d => st.phi2 m d * st.eta2 d) x
        + ((1/2) * ∑ i ∈ (range dt.nT).erase m, ∑ d ∈ range dt.D, (st.phi2 i d * st.eta2 d) * st.V2 i d ^ 2
            + priWI dt st) := by
  unfold energyI blockEnergy
  rw [likI_of_affine dt (setV2I st m x) dt.D _ _ x (fun n hn => muI_affine_V2 dt hw hp st m x n hn)]
  have hq : priV2I dt (setV2I st m x) = (1/2) * (∑ d ∈ range dt.D, (st.phi2 m d * st.eta2 d) * x d ^ 2
      + ∑ i ∈ (range dt.nT).erase m, ∑ d ∈ range dt.D, (st.phi2 i d * st.eta2 d) * st.V2 i d ^ 2) := by
    unfold priV2I setV2I
    rw [sum_upd_splitI dt.nT m hm st.V2 x (fun i row => ∑ d ∈ range dt.D, (st.phi2 i d * st.eta2 d) * row d ^ 2)]
  rw [hq]
  show _ + priWI dt st + _ = _
  show (1/2) * st.prec * _ + _ + _ = _
  ring

theorem noSelf_wBlkI (dt : Data ℝ) (st : IState ℝ) (c : ℕ) : (wBlkI dt st c).NoSelf := noSelf_selC dt c
theorem noSelf_v2BlkI (dt : Data ℝ) (hp : NoSelfPairI dt) (st : IState ℝ) (m : ℕ) : (v2BlkI dt st m).NoSelf :=
  noSelfI dt hp m

theorem curI_W (dt : Data ℝ) (st : IState ℝ) (h : CacheOKI dt st) (c : ℕ) (n : ℕ) (hn : n < dt.N) :
    st.Mu n = muI dt (setWI st c (fun _ => 0)) n + ∑ d ∈ range dt.D, (wBlkI dt st c).design n d * st.W c d := by
  rw [h n hn, ← muI_affine_W, setWI_self]

theorem curI_V2 (dt : Data ℝ) (hw : ComboRows dt) (hp : NoSelfPairI dt) (st : IState ℝ) (h : CacheOKI dt st) (m : ℕ)
    (n : ℕ) (hn : n < dt.N) :
    st.Mu n = muI dt (setV2I st m (fun _ => 0)) n + ∑ d ∈ range dt.D, (v2BlkI dt st m).design n d * st.V2 m d := by
  rw [h n hn, ← muI_affine_V2 dt hw hp st m _ n hn, setV2I_self]

theorem blockI_W (dt : Data ℝ) (st : IState ℝ) (h : CacheOKI dt st) (c : ℕ) (hc : c < dt.nC) (x : ℕ → ℝ) :
    energyI dt (setWI st c x) - energyI dt (setWI st c (fun _ => 0))
      = (1/2) * ∑ d ∈ range dt.D, ∑ e ∈ range dt.D, x d * (wBlkI dt st c).Q st.prec d e * x e
        - ∑ d ∈ range dt.D, (wBlkI dt st c).muPart dt.y st.Mu st.prec d * x d := by
  rw [energyI_W dt st c hc x, energyI_W dt st c hc (fun _ => 0)]
  have G := gaussian_block dt.N dt.D st.prec (wBlkI dt st c).design
    (fun n => dt.y n - muI dt (setWI st c (fun _ => 0)) n) st.tau x
  have hQ : ∀ d e, (wBlkI dt st c).Q st.prec d e = blockQ dt.N st.prec (wBlkI dt st c).design st.tau d e :=
    fun d e => Blk.Q_spec _ (noSelf_wBlkI dt st c) _ d e
  have hB : ∀ d, (wBlkI dt st c).muPart dt.y st.Mu st.prec d
      = blockB dt.N st.prec (wBlkI dt st c).design (fun n => dt.y n - muI dt (setWI st c (fun _ => 0)) n) d :=
    fun d => Blk.muPart_spec _ (noSelf_wBlkI dt st c) _ _ (fun n => muI dt (setWI st c (fun _ => 0)) n) _
      (fun n hn => curI_W dt st h c n hn) d
  simp only [hQ, hB]
  linarith [G]

theorem blockI_V2 (dt : Data ℝ) (hw : ComboRows dt) (hp : NoSelfPairI dt) (st : IState ℝ) (h : CacheOKI dt st) (m : ℕ)
    (hm : m < dt.nT) (x : ℕ → ℝ) :
    energyI dt (setV2I st m x) - energyI dt (setV2I st m (fun _ => 0))
      = (1/2) * ∑ d ∈ range dt.D, ∑ e ∈ range dt.D, x d * (v2BlkI dt st m).Q st.prec d e * x e
        - ∑ d ∈ range dt.D, (v2BlkI dt st m).muPart dt.y st.Mu st.prec d * x d := by
  rw [energyI_V2 dt hw hp st m hm x, energyI_V2 dt hw hp st m hm (fun _ => 0)]
  have G := gaussian_block dt.N dt.D st.prec (v2BlkI dt st m).design
    (fun n => dt.y n - muI dt (setV2I st m (fun _ => 0)) n) (fun d => st.phi2 m d * st.eta2 d) x
  have hQ : ∀ d e, (v2BlkI dt st m).Q st.prec d e
      = blockQ dt.N st.prec (v2BlkI dt st m).design (fun d => st.phi2 m d * st.eta2 d) d e :=
    fun d e => Blk.Q_spec _ (noSelf_v2BlkI dt hp st m) _ d e
  have hB : ∀ d, (v2BlkI dt st m).muPart dt.y st.Mu st.prec d
      = blockB dt.N st.prec (v2BlkI dt st m).design (fun n => dt.y n - muI dt (setV2I st m (fun _ => 0)) n) d :=
    fun d => Blk.muPart_spec _ (noSelf_v2BlkI dt hp st m) _ _ (fun n => muI dt (setV2I st m (fun _ => 0)) n) _
      (fun n hn => curI_V2 dt hw hp st h m n hn) d
  simp only [hQ, hB]
  linarith [G]

/-! ### logged sites -/

def sitesOfI (s : IState ℝ) : List Site := s.log.map (·.site)

theorem iterI_sites (n : ℕ) (f : ℕ → IState ℝ → IState ℝ) (mk : ℕ → Site)
    (hf : ∀ i s, sitesOfI (f i s) = sitesOfI s ++ [mk i]) (s : IState ℝ) :
    sitesOfI (iter n f s) = sitesOfI s ++ (List.range n).map mk := by
  induction n with
  | zero => simp [iter]
  | succ k ih => rw [iter, hf, ih, List.range_succ, List.map_append, List.append_assoc]; rfl

theorem wNextI_log (dt : Data ℝ) (st : IState ℝ) (c : ℕ) (v : Option (ℕ → ℝ)) : (wNextI dt st c v).log = st.log := by
  cases v with
  | none => rfl
  | some w => unfold wNextI; simp only; split <;> rfl

theorem v2NextI_log (dt : Data ℝ) (st : IState ℝ) (m : ℕ) (v : Option (ℕ → ℝ)) : (v2NextI dt st m v).log = st.log := by
  cases v with
  | none => rfl
  | some w => unfold v2NextI; simp only; split <;> rfl

theorem sitesI_push (s : IState ℝ) (r : Rec ℝ) : sitesOfI (s.push r) = sitesOfI s ++ [r.site] := by
  simp [sitesOfI, IState.push]

theorem mcmcStepI_eq (dt : Data ℝ) (ω : IDraws ℝ) (st : IState ℝ) :
    mcmcStepI dt ω st = precWStepI dt ω (precV2StepI dt ω (precObsStepI dt ω (v2StepI dt ω (wStepI dt ω
      (reconstructMu false 0 0 dt st))))) := rfl

theorem sitesI_sweep (dt : Data ℝ) (ω : IDraws ℝ) (st : IState ℝ) :
    sitesOfI (mcmcStepI dt ω st) = sitesOfI st ++ scheduleI dt.nC dt.nT dt.D := by
  have hW : ∀ s, sitesOfI (wStepI dt ω s) = sitesOfI s ++ (List.range dt.nC).map Site.W := fun s =>
    iterI_sites _ _ _ (fun c t => by
      unfold wBlockI; rw [sitesI_push, record_site]; unfold sitesOfI; rw [wNextI_log]) s
  have hV : ∀ s, sitesOfI (v2StepI dt ω s) = sitesOfI s ++ (List.range dt.nT).map Site.V2 := fun s =>
    iterI_sites _ _ _ (fun c t => by
      unfold v2BlockI; rw [sitesI_push, record_site]; unfold sitesOfI; rw [v2NextI_log]) s
  have hP : ∀ s, sitesOfI (precObsStepI dt ω s) = sitesOfI s ++ [Site.prec] := fun s => by
    simp [precObsStepI, sitesOfI, IState.push]
  have hP2 : ∀ s, sitesOfI (precV2StepI dt ω s) = sitesOfI s ++ [Site.phi2aux, Site.phi2, Site.eta2aux, Site.eta2] :=
    fun s => by simp [precV2StepI, sitesOfI, IState.push]
  have hG : ∀ s, sitesOfI (precWStepI dt ω s) = sitesOfI s ++ (List.range dt.D).map Site.gam := fun s => by
    unfold precWStepI
    show sitesOfI (iter dt.D (gamBlockI dt ω) s) = _
    exact iterI_sites _ _ _ (fun c t => by simp [gamBlockI, sitesOfI, IState.push]) s
  have hR : sitesOfI (reconstructMu false 0 0 dt st) = sitesOfI st := by
    unfold reconstructMu; split <;> rfl
  rw [mcmcStepI_eq, hG, hP2, hP, hV, hW, hR]
  simp only [scheduleI, List.append_assoc, List.cons_append, List.nil_append]

theorem scheduleI_nodup (nC nT D : ℕ) : (scheduleI nC nT D).Nodup := by
  have inj : ∀ (f : ℕ → Site), Function.Injective f → ∀ n, ((List.range n).map f).Nodup :=
    fun f hf n => (List.nodup_range).map hf
  have h3 := inj Site.W (fun a b h => by injection h) nC
  have h4 := inj Site.V2 (fun a b h => by injection h) nT
  have h6 := inj Site.gam (fun a b h => by injection h) D
  unfold scheduleI
  simp only [List.nodup_append, List.nodup_cons, List.mem_cons, List.mem_append, List.mem_map, List.mem_range,
    List.not_mem_nil, List.nodup_nil, h3, h4, h6]
  and_intros <;> aesop

/-! ### the gamma-process loop -/

def gamCurI (ω : IDraws ℝ) (st : IState ℝ) (d : ℕ) : ℕ → ℝ := fun l => if l < d then ω.gam l else st.gam l

theorem gamCurI_succ (ω : IDraws ℝ) (st : IState ℝ) (n : ℕ) :
    upd (gamCurI ω st n) n (ω.gam n) = gamCurI ω st (n + 1) := by
  funext l
  unfold upd gamCurI
  by_cases h : l = n
  · subst h; simp
  · rw [if_neg h]
    by_cases h2 : l < n
    · rw [if_pos h2, if_pos (by omega)]
    · rw [if_neg h2, if_neg (by omega)]

noncomputable def gamRecI (dt : Data ℝ) (ω : IDraws ℝ) (st : IState ℝ) (d : ℕ) : Rec ℝ :=
  ⟨.gam d, .gamma, [(gamArgs dt st.W (gamCurI ω st d) d).shape, (gamArgs dt st.W (gamCurI ω st d) d).scale]⟩

theorem gamIterI_spec (dt : Data ℝ) (ω : IDraws ℝ) (st : IState ℝ) (n : ℕ) :
    (iter n (gamBlockI dt ω) st).gam = gamCurI ω st n
    ∧ (iter n (gamBlockI dt ω) st).W = st.W
    ∧ (iter n (gamBlockI dt ω) st).log = st.log ++ (List.range n).map (gamRecI dt ω st)
    ∧ (iter n (gamBlockI dt ω) st).prec = st.prec ∧ (iter n (gamBlockI dt ω) st).phi2 = st.phi2
    ∧ (iter n (gamBlockI dt ω) st).eta2 = st.eta2 ∧ (iter n (gamBlockI dt ω) st).V2 = st.V2 := by
  induction n with
  | zero => exact ⟨by funext l; simp [iter, gamCurI], rfl, by simp [iter], rfl, rfl, rfl, rfl⟩
  | succ k ih =>
    obtain ⟨hg, hW, hl, h1, h2, h3, h4⟩ := ih
    rw [iter]
    refine ⟨?_, hW, ?_, h1, h2, h3, h4⟩
    · show upd (iter k (gamBlockI dt ω) st).gam k (ω.gam k) = _
      rw [hg, gamCurI_succ]
    · show (iter k (gamBlockI dt ω) st).log ++ [_] = _
      rw [hl, List.range_succ, List.map_append, List.append_assoc]
      congr 2
      show [(⟨.gam k, .gamma, _⟩ : Rec ℝ)] = [gamRecI dt ω st k]
      unfold gamRecI
      rw [hg, hW]

end Batchie.GibbsInter
