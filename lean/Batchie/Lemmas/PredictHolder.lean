/-
  Helper lemmas for C09: the stacking / averaging loops of `models/main.py`
  (`predictAll`, `predictAvg` of `Batchie.Model.Predict`).
-/
import Batchie.Lemmas.PredictAlgebra

namespace Batchie.Predict

/-! ### `List.mapM` / `List.foldlM` in `Except` -/

theorem exMapM_getElem {ε A B : Type} (f : A → Except ε B) (l : List A) (ys : List B) (h : l.mapM f = .ok ys)
    (i : Nat) (hi : i < l.length) : ∃ (hy : i < ys.length), f l[i] = .ok ys[i] := by
  induction l generalizing ys i with
  | nil => cases hi
  | cons a l ih =>
    rw [List.mapM_cons] at h
    cases h1 : f a with
    | error e => simp [h1, bind, Except.bind] at h
    | ok b =>
      cases h2 : l.mapM f with
      | error e => simp [h1, h2, bind, Except.bind] at h
      | ok bs =>
        simp [h1, h2, bind, Except.bind, pure, Except.pure] at h
        subst h
        cases i with
        | zero => exact ⟨by simp, by simpa using h1⟩
        | succ j =>
          obtain ⟨hy, e⟩ := ih bs h2 j (by simpa using hi)
          exact ⟨by simpa using hy, by simpa using e⟩

theorem exMapM_length {ε A B : Type} (f : A → Except ε B) (l : List A) (ys : List B) (h : l.mapM f = .ok ys) :
    ys.length = l.length := by
  induction l generalizing ys with
  | nil => simp [pure, Except.pure] at h; subst h; rfl
  | cons a l ih =>
    rw [List.mapM_cons] at h
    cases h1 : f a with
    | error e => simp [h1, bind, Except.bind] at h
    | ok b =>
      cases h2 : l.mapM f with
      | error e => simp [h1, h2, bind, Except.bind] at h
      | ok bs =>
        simp [h1, h2, bind, Except.bind, pure, Except.pure] at h
        subst h
        simp [ih bs h2]

/-- an accumulating loop whose step is "compute `g i`, combine" is: collect all `g i` (failing at
    the first failure), then fold -/
theorem exFoldlM_eq_mapM {ε ι A B : Type} (g : ι → Except ε B) (h : A → B → A) (l : List ι) (a : A) :
    l.foldlM (fun acc i => do let p ← g i; pure (h acc p)) a
      = (l.mapM g).map (fun P => P.foldl h a) := by
  induction l generalizing a with
  | nil => rfl
  | cons i l ih =>
    rw [List.foldlM_cons, List.mapM_cons]
    cases h1 : g i with
    | error e => simp [bind, Except.bind, Except.map]
    | ok b =>
      show List.foldlM (fun acc i => do let p ← g i; pure (h acc p)) (h a b) l = _
      rw [ih]
      cases l.mapM g <;> simp [Except.map, bind, Except.bind, pure, Except.pure]

/-! ### column sums -/

section field
variable {R : Type} [CommRing R]

theorem foldl_vadd_length (P : List (List R)) (acc : List R) (size : Nat) (ha : acc.length = size)
    (hP : ∀ p ∈ P, p.length = size) : (P.foldl vadd acc).length = size := by
  induction P generalizing acc with
  | nil => simpa using ha
  | cons p P ih =>
    simp only [List.foldl_cons]
    apply ih
    · simp [vadd, ha, hP p (by simp)]
    · intro q hq; exact hP q (by simp [hq])

theorem foldl_vadd_getD (P : List (List R)) (acc : List R) (size : Nat) (ha : acc.length = size)
    (hP : ∀ p ∈ P, p.length = size) (j : Nat) (hj : j < size) :
    (P.foldl vadd acc).getD j 0 = acc.getD j 0 + (P.map (fun p => p.getD j 0)).sum := by
  induction P generalizing acc with
  | nil => simp
  | cons p P ih =>
    simp only [List.foldl_cons, List.map_cons, List.sum_cons]
    have hp := hP p (by simp)
    rw [ih (vadd acc p) (by simp [vadd, ha, hp]) (fun q hq => hP q (by simp [hq]))]
    have : (vadd acc p).getD j 0 = acc.getD j 0 + p.getD j 0 := by
      simp [vadd, List.getD_eq_getElem?_getD, ha, hp, hj]
    rw [this]; ring

end field

end Batchie.Predict
