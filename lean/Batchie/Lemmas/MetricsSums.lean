/-
  Helper lemmas for C20: numpy-style reductions on lists of rows (`Batchie.Model.Metrics`) in terms of
  index sums.  `IsVec l n f` says the list `l` is the vector `(f 0, …, f (n-1))`; `IsMat M E K g` the
  same for a list of rows.
-/
import Batchie.Model.Metrics
import Batchie.Lemmas.PredictAlgebra
import Mathlib.Tactic.FieldSimp

namespace Batchie.Metrics
open Batchie.Predict (sumL OfCount maskFilter sumL_eq_sum)

variable {R : Type} [Field R]

theorem ofCount_eq (n : Nat) : (OfCount.ofCount n : R) = (n : R) := rfl

theorem sumRange_eq (n : Nat) (f : Nat → R) : sumRange n f = ((List.range n).map f).sum := by
  simp [sumRange, sumL_eq_sum]

theorem sumRange_zero (f : Nat → R) : sumRange 0 f = 0 := by simp [sumRange_eq]

theorem sumRange_succ (n : Nat) (f : Nat → R) : sumRange (n + 1) f = sumRange n f + f n := by
  simp only [sumRange_eq]; exact List.sum_range_succ f n

theorem sumRange_congr (n : Nat) (f g : Nat → R) (h : ∀ i, i < n → f i = g i) : sumRange n f = sumRange n g := by
  induction n with
  | zero => simp [sumRange_zero]
  | succ n ih =>
    rw [sumRange_succ, sumRange_succ, ih (fun i hi => h i (Nat.lt_succ_of_lt hi)), h n (Nat.lt_succ_self n)]

theorem sumRange_div (n : Nat) (f : Nat → R) (c : R) : sumRange n (fun i => f i / c) = sumRange n f / c := by
  induction n with
  | zero => simp [sumRange_zero]
  | succ n ih => rw [sumRange_succ, sumRange_succ, ih, add_div]

theorem sumRange_add (n : Nat) (f g : Nat → R) : sumRange n (fun i => f i + g i) = sumRange n f + sumRange n g := by
  induction n with
  | zero => simp [sumRange_zero]
  | succ n ih => rw [sumRange_succ, sumRange_succ, sumRange_succ, ih]; ring

theorem sumRange_const_zero (n : Nat) : sumRange n (fun _ => (0 : R)) = 0 := by
  induction n with
  | zero => simp [sumRange_zero]
  | succ n ih => rw [sumRange_succ, ih]; ring

/-! ### vectors -/

/-- `l` is the vector `(f 0, …, f (n-1))` -/
def IsVec (l : List R) (n : Nat) (f : Nat → R) : Prop := l.length = n ∧ ∀ i, i < n → l.getD i 0 = f i

theorem isVec_self (l : List R) : IsVec l l.length (fun i => l.getD i 0) := ⟨rfl, fun _ _ => rfl⟩

theorem IsVec.eq_map {l : List R} {n : Nat} {f : Nat → R} (h : IsVec l n f) : l = (List.range n).map f := by
  apply List.ext_getElem
  · simp [h.1]
  · intro i h1 h2
    have hi : i < n := by rw [← h.1]; exact h1
    have := h.2 i hi
    simp only [List.getD_eq_getElem?_getD, List.getElem?_eq_getElem h1, Option.getD_some] at this
    simp [this]

theorem IsVec.sum {l : List R} {n : Nat} {f : Nat → R} (h : IsVec l n f) : sumL l = sumRange n f := by
  rw [sumRange, ← h.eq_map]

theorem IsVec.map {l : List R} {n : Nat} {f : Nat → R} (h : IsVec l n f) (g : R → R) :
    IsVec (l.map g) n (fun i => g (f i)) := by
  refine ⟨by simp [h.1], ?_⟩
  intro i hi
  have := h.2 i hi
  have hl : i < l.length := by rw [h.1]; exact hi
  simp only [List.getD_eq_getElem?_getD, List.getElem?_eq_getElem hl, Option.getD_some] at this
  simp [List.getD_eq_getElem?_getD, hl, this]

theorem IsVec.congr {l : List R} {n : Nat} {f g : Nat → R} (h : IsVec l n f) (hfg : ∀ i, i < n → f i = g i) :
    IsVec l n g := ⟨h.1, fun i hi => (h.2 i hi).trans (hfg i hi)⟩

theorem IsVec.mean {l : List R} {n : Nat} {f : Nat → R} (h : IsVec l n f) :
    mean l = sumRange n f / (n : R) := by
  simp [Metrics.mean, h.sum, h.1, ofCount_eq]

theorem IsVec.npVar {l : List R} {n : Nat} {f : Nat → R} (h : IsVec l n f) :
    npVar l = sumRange n (fun i => sq (f i - sumRange n f / (n : R))) / (n : R) := by
  unfold Metrics.npVar
  simp only
  rw [h.mean, (h.map (fun x => sq (x - sumRange n f / (n : R)))).mean]

theorem isVec_of_map_range (n : Nat) (f : Nat → R) : IsVec ((List.range n).map f) n f := by
  refine ⟨by simp, ?_⟩
  intro i hi
  simp [List.getD_eq_getElem?_getD, hi]

/-! ### matrices (lists of rows) -/

/-- `M` is the `E × K` matrix with entries `g e k` -/
def IsMat (M : List (List R)) (E K : Nat) (g : Nat → Nat → R) : Prop :=
  M.length = E ∧ ∀ e, e < E → IsVec (M.getD e []) K (g e)

theorem isMat_entry (M : List (List R)) (E K : Nat) (hE : M.length = E) (hK : ∀ r ∈ M, r.length = K) :
    IsMat M E K (entry M) := by
  refine ⟨hE, ?_⟩
  intro e he
  have hl : e < M.length := by rw [hE]; exact he
  refine ⟨?_, fun k _ => rfl⟩
  rw [List.getD_eq_getElem?_getD, List.getElem?_eq_getElem hl]
  exact hK _ (List.getElem_mem _)

theorem IsMat.row_mem {M : List (List R)} {E K : Nat} {g : Nat → Nat → R} (h : IsMat M E K g) :
    ∀ r ∈ M, r.length = K := by
  intro r hr
  obtain ⟨e, he, rfl⟩ := List.mem_iff_getElem.mp hr
  have := (h.2 e (by rw [← h.1]; exact he)).1
  simpa [List.getD_eq_getElem?_getD, he] using this

theorem IsMat.flatten_sum {M : List (List R)} {E K : Nat} {g : Nat → Nat → R} (h : IsMat M E K g) :
    sumL M.flatten = sumRange E (fun e => sumRange K (g e)) := by
  rw [sumL_eq_sum, List.sum_flatten]
  have : IsVec (M.map List.sum) E (fun e => sumRange K (g e)) := by
    refine ⟨by simp [h.1], ?_⟩
    intro e he
    have hl : e < M.length := by rw [h.1]; exact he
    have hv := (h.2 e he).sum
    simp only [List.getD_eq_getElem?_getD, List.getElem?_eq_getElem hl, Option.getD_some] at hv
    simp [List.getD_eq_getElem?_getD, hl, ← hv, sumL_eq_sum]
  rw [← sumL_eq_sum, this.sum]

theorem IsMat.flatten_length {M : List (List R)} {E K : Nat} {g : Nat → Nat → R} (h : IsMat M E K g) :
    M.flatten.length = E * K := by
  rw [List.length_flatten]
  have : M.map List.length = List.replicate E K := by
    apply List.ext_getElem
    · simp [h.1]
    · intro i h1 h2
      simp only [List.getElem_map, List.getElem_replicate]
      exact h.row_mem _ (List.getElem_mem _)
  rw [this]; simp

theorem IsMat.meanAll {M : List (List R)} {E K : Nat} {g : Nat → Nat → R} (h : IsMat M E K g) :
    meanAll M = sumRange E (fun e => sumRange K (g e)) / ((E * K : Nat) : R) := by
  simp [Metrics.meanAll, Metrics.mean, h.flatten_sum, h.flatten_length, ofCount_eq]

theorem IsMat.meanAxis1 {M : List (List R)} {E K : Nat} {g : Nat → Nat → R} (h : IsMat M E K g) :
    IsVec (meanAxis1 M) E (fun e => sumRange K (g e) / (K : R)) := by
  refine ⟨by simp [Metrics.meanAxis1, h.1], ?_⟩
  intro e he
  have hl : e < M.length := by rw [h.1]; exact he
  have hv := (h.2 e he).mean
  simp only [List.getD_eq_getElem?_getD, List.getElem?_eq_getElem hl, Option.getD_some] at hv
  simp [Metrics.meanAxis1, List.getD_eq_getElem?_getD, hl, hv]

theorem isMat_sqErr {preds : List (List R)} {obs : List R} {E K : Nat} {p : Nat → Nat → R} {o : Nat → R}
    (hp : IsMat preds E K p) (ho : IsVec obs E o) :
    IsMat (sqErr preds obs) E K (fun e k => sq (p e k - o e)) := by
  refine ⟨by simp [sqErr, hp.1, ho.1], ?_⟩
  intro e he
  have h1 : e < preds.length := by rw [hp.1]; exact he
  have h2 : e < obs.length := by rw [ho.1]; exact he
  have hrow := hp.2 e he
  have hoe := ho.2 e he
  simp only [List.getD_eq_getElem?_getD, List.getElem?_eq_getElem h1, List.getElem?_eq_getElem h2, Option.getD_some] at hrow hoe
  have : (sqErr preds obs).getD e [] = (preds[e]).map (fun x => sq (x - obs[e])) := by
    simp [sqErr, List.getD_eq_getElem?_getD, h1, h2]
  rw [this, hoe]
  exact hrow.map _

end Batchie.Metrics

namespace Batchie.Metrics
open Batchie.Predict (sumL OfCount maskFilter sumL_eq_sum)

variable {R : Type} [Field R]

/-! ### column selection by a boolean mask -/

theorem maskFilter_eq_map_filter {β : Type} (d : β) (r : List β) (sel : List Bool) (h : r.length = sel.length) :
    maskFilter r sel = ((List.range r.length).filter (fun k => sel.getD k false)).map (fun k => r.getD k d) := by
  induction r generalizing sel with
  | nil => simp [maskFilter]
  | cons a r ih =>
    cases sel with
    | nil => simp at h
    | cons b sel =>
      have h' : r.length = sel.length := by simpa using h
      have := ih sel h'
      rw [List.length_cons, List.range_succ_eq_map, List.filter_cons]
      cases b
      · simp [maskFilter, this, List.filter_map, List.map_map, Function.comp_def]
      · simp [maskFilter, this, List.filter_map, List.map_map, Function.comp_def]

theorem sumL_map_eq_sumRange (cols : List Nat) (h : Nat → R) :
    sumL (cols.map h) = sumRange cols.length (fun j => h (cols.getD j 0)) := by
  have : IsVec (cols.map h) cols.length (fun j => h (cols.getD j 0)) := by
    refine ⟨by simp, ?_⟩
    intro j hj
    simp [List.getD_eq_getElem?_getD, hj]
  exact this.sum

theorem isMat_selectCols {M : List (List R)} {E K : Nat} {g : Nat → Nat → R} (h : IsMat M E K g) (sel : List Bool)
    (hsel : sel.length = K) :
    IsMat (selectCols M sel) E ((List.range K).filter (fun k => sel.getD k false)).length
      (fun e j => g e (((List.range K).filter (fun k => sel.getD k false)).getD j 0)) := by
  refine ⟨by simp [selectCols, h.1], ?_⟩
  intro e he
  have hl : e < M.length := by rw [h.1]; exact he
  have hrow := h.2 e he
  simp only [List.getD_eq_getElem?_getD, List.getElem?_eq_getElem hl, Option.getD_some] at hrow
  have hlen : (M[e]).length = sel.length := by rw [hrow.1, hsel]
  have : (selectCols M sel).getD e [] = maskFilter M[e] sel := by
    simp [selectCols, List.getD_eq_getElem?_getD, hl]
  rw [this, maskFilter_eq_map_filter 0 _ _ hlen, hrow.1]
  refine ⟨by simp, ?_⟩
  intro j hj
  generalize hc : (List.range K).filter (fun k => sel.getD k false) = cols at hj ⊢
  have hmem : cols[j] ∈ (List.range K).filter (fun k => sel.getD k false) := by rw [hc]; exact List.getElem_mem _
  have hk : cols[j] < K := by
    have := (List.mem_filter.mp hmem).1
    simpa using this
  have h1 : (cols.map (fun k => (M[e]).getD k 0)).getD j 0 = (M[e]).getD cols[j] 0 := by
    simp [List.getD_eq_getElem?_getD, hj]
  have h2 : cols.getD j 0 = cols[j] := by simp [List.getD_eq_getElem?_getD, hj]
  rw [h1]
  show (M[e]).getD cols[j] 0 = g e (cols.getD j 0)
  rw [h2]
  exact hrow.2 _ hk

/-- `np.unique` of a constant non-empty array -/
theorem uniqueSorted_const (ids : List Int) (c : Int) (hne : ids ≠ []) (h : ∀ x ∈ ids, x = c) : uniqueSorted ids = [c] := by
  cases ids with
  | nil => exact absurd rfl hne
  | cons a as =>
    have ha : a = c := h a (by simp)
    subst ha
    have : (as.filter (fun b => !b == a)) = [] := by
      apply List.filter_eq_nil_iff.mpr
      intro x hx
      simp [h x (by simp [hx])]
    unfold uniqueSorted
    rw [List.eraseDups_cons, this]
    simp [List.eraseDups_nil]

end Batchie.Metrics
