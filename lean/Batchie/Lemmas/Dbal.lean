/-
  Lemmas about the DBAL model (`Model/Dbal.lean`) at `α := ℝ`: the `ExpLog ℝ` instance, the
  padding lemma (DESIGN appendix A.5) and the `array_split` flatten lemma.
-/
import Mathlib.Analysis.SpecialFunctions.Log.Basic
import Mathlib.Tactic.Ring
import Mathlib.Tactic.Linarith
import Mathlib.Algebra.BigOperators.Group.List.Basic
import Batchie.Model.Dbal

namespace Batchie.Dbal
open List

noncomputable instance : ExpLog ℝ := ⟨Real.exp, Real.log, fun x => decide (x = 0)⟩

@[simp] theorem expLog_exp (x : ℝ) : ExpLog.exp x = Real.exp x := rfl
@[simp] theorem expLog_log (x : ℝ) : ExpLog.log x = Real.log x := rfl
@[simp] theorem expLog_isZero (x : ℝ) : ExpLog.isZero x = decide (x = 0) := rfl

theorem zipWith_pad {β γ δ ι : Type} (f : β → γ → δ) (l : List ι) (g : ι → β) (h : ι → γ) (k : Nat) (c : β) (d : γ) :
    List.zipWith f (l.map g ++ List.replicate k c) (l.map h ++ List.replicate k d)
      = l.map (fun x => f (g x) (h x)) ++ List.replicate k (f c d) := by
  induction l with
  | nil => simp
  | cons a l ih => simp [ih]

theorem map_pad {β γ ι : Type} (f : β → γ) (l : List ι) (g : ι → β) (k : Nat) (c : β) :
    (l.map g ++ List.replicate k c).map f = l.map (fun x => f (g x)) ++ List.replicate k (f c) := by
  simp

theorem sum_pad {ι : Type} (l : List ι) (g : ι → ℝ) (k : Nat) :
    (l.map g ++ List.replicate k 0).sum = (l.map g).sum := by
  simp

/-- per-experiment summand of `log_norm_factor` on a real (unmasked) cell -/
noncomputable def cellNorm (e : Experiment ℝ) (t : Triple) : ℝ :=
  1 * half * Real.log (1 / (e.v t.1 * e.v t.2.1 + e.v t.2.1 * e.v t.2.2 + e.v t.1 * e.v t.2.2))

/-- per-experiment summand of `ll` -/
noncomputable def cellLL (e : Experiment ℝ) (t : Triple) : ℝ :=
  -(half * (e.v t.1 * e.v t.2.1 * e.v t.2.2) /
      sq (e.v t.1 * e.v t.2.1 + e.v t.2.1 * e.v t.2.2 + e.v t.1 * e.v t.2.2)) *
    (e.v t.2.2 * sq (e.m t.1 - e.m t.2.1) + e.v t.2.1 * sq (e.m t.1 - e.m t.2.2) + e.v t.1 * sq (e.m t.2.1 - e.m t.2.2))

theorem comboTerm_padded (D : Nat → Nat → ℝ) (factor : ℝ) (p : Plate ℝ) (k : Nat) (t : Triple)
    (preds mask pv : List (List ℝ))
    (hp1 : rowAt preds t.1 = p.map (fun e => e.m t.1) ++ replicate k 0)
    (hp2 : rowAt preds t.2.1 = p.map (fun e => e.m t.2.1) ++ replicate k 0)
    (hp3 : rowAt preds t.2.2 = p.map (fun e => e.m t.2.2) ++ replicate k 0)
    (hv1 : rowAt pv t.1 = p.map (fun e => e.v t.1) ++ replicate k 1)
    (hv2 : rowAt pv t.2.1 = p.map (fun e => e.v t.2.1) ++ replicate k 1)
    (hv3 : rowAt pv t.2.2 = p.map (fun e => e.v t.2.2) ++ replicate k 1)
    (hm : rowAt mask t.1 = p.map (fun _ => (1 : ℝ)) ++ replicate k 0) :
    comboTerm D factor preds mask pv t
      = (logTripleDist D factor t).map
          (fun ltd => (p.map (fun e => cellNorm e t)).sum + (p.map (fun e => cellLL e t)).sum + ltd) := by
  unfold comboTerm
  simp only [hp1, hp2, hp3, hv1, hv2, hv3, hm, vAdd, vMul, vSub, vDiv, zipWith_pad, map_pad]
  have e1 : ((0 : ℝ) * half * Real.log (1 / (1 * 1 + 1 * 1 + 1 * 1))) = 0 := by simp
  have e2 : (-(half * ((1 : ℝ) * 1 * 1) / sq (1 * 1 + 1 * 1 + 1 * 1)) * (1 * sq (0 - 0) + 1 * sq (0 - 0) + 1 * sq (0 - 0))) = 0 := by
    simp [sq]
  simp only [expLog_log, e1, e2, sum_pad]
  rfl

theorem exp_cells (p : Plate ℝ) (A B : Experiment ℝ → ℝ) (c : ℝ) :
    Real.exp ((p.map A).sum + (p.map B).sum + c)
      = Real.exp c * prodL (p.map (fun e => Real.exp (A e) * Real.exp (B e))) := by
  induction p generalizing c with
  | nil => simp [prodL]
  | cons e p ih =>
    have h : (List.map A (e :: p)).sum + (List.map B (e :: p)).sum + c
        = (p.map A).sum + (p.map B).sum + (c + A e + B e) := by
      simp only [List.map_cons, List.sum_cons]; ring
    rw [h, ih]
    simp only [List.map_cons, prodL, List.foldr_cons, Real.exp_add]
    ring

theorem ll_alg (x a q : ℝ) : -(half * x / sq a) * q = -((x / ((1 + 1) * (a * a))) * q) := by
  unfold half sq; ring

theorem cell_eq_gaussTerm (e : Experiment ℝ) (t : Triple) :
    Real.exp (cellNorm e t) * Real.exp (cellLL e t) = gaussTerm e t := by
  unfold gaussTerm invSqrt cellNorm cellLL tripleA
  simp only [expLog_exp, expLog_log, one_div, Real.log_inv, ll_alg]
  congr 2
  ring

/-! ### rows of the padded arrays -/

theorem rowAt_range_map {β : Type} (n t : Nat) (F : Nat → List β) (h : t < n) :
    rowAt ((List.range n).map F) t = F t := by
  simp [rowAt, h]

theorem rowAt_padArray {β : Type} (pad : β) (hh w : Nat) (a : List (List β)) (t : Nat) (h : t < a.length) :
    rowAt (padArray pad hh w a) t = padRow pad w (rowAt a t) := by
  simp [rowAt, padArray, List.getD_eq_getElem?_getD, List.getElem?_append_left, h]

theorem rowAt_map {β γ : Type} (f : List β → List γ) (hf : f [] = []) (X : List (List β)) (t : Nat) :
    rowAt (X.map f) t = f (rowAt X t) := by
  simp only [rowAt, List.getD_eq_getElem?_getD, List.getElem?_map]
  cases X[t]? <;> simp [hf]

@[simp] theorem length_meansArray (n : Nat) (p : Plate ℝ) : (meansArray n p).length = n := by
  simp [meansArray]

@[simp] theorem length_varsArray (n : Nat) (p : Plate ℝ) : (varsArray n p).length = n := by
  simp [varsArray]

theorem row_means (n hh P t : Nat) (p : Plate ℝ) (ht : t < n) :
    rowAt (padArray 0 hh P (meansArray n p)) t
      = p.map (fun e => e.m t) ++ replicate (P - p.length) 0 := by
  rw [rowAt_padArray _ _ _ _ _ (by simpa using ht)]
  simp [meansArray, rowAt_range_map _ _ _ ht, padRow]

theorem row_vars (n hh P t : Nat) (p : Plate ℝ) (ht : t < n) :
    rowAt (padArray none hh P (someArray (varsArray n p))) t
      = p.map (fun e => some (e.v t)) ++ replicate (P - p.length) none := by
  rw [rowAt_padArray _ _ _ _ _ (by simpa [someArray] using ht)]
  simp [someArray, varsArray, rowAt_range_map _ _ _ ht, padRow]

theorem row_nanToNum (n hh P t : Nat) (p : Plate ℝ) (ht : t < n) :
    rowAt (nanToNum (padArray none hh P (someArray (varsArray n p)))) t
      = p.map (fun e => e.v t) ++ replicate (P - p.length) 1 := by
  unfold nanToNum
  rw [rowAt_map _ (by simp), row_vars _ _ _ _ _ ht]
  simp

theorem row_mask (n hh P t : Nat) (p : Plate ℝ) (ht : t < n) :
    rowAt (maskOf (padArray none hh P (someArray (varsArray n p)))) t
      = p.map (fun _ => (1 : ℝ)) ++ replicate (P - p.length) 0 := by
  unfold maskOf
  rw [rowAt_map _ (by simp), row_vars _ _ _ _ _ ht]
  simp [Function.comp_def]

/-- a triple of posterior-sample indices below `n` -/
def TripleValid (n : Nat) (t : Triple) : Prop := t.1 < n ∧ t.2.1 < n ∧ t.2.2 < n

@[simp] theorem expOrZero_none : expOrZero (none : Option ℝ) = 0 := rfl
@[simp] theorem expOrZero_some (x : ℝ) : expOrZero (some x) = Real.exp x := rfl

theorem term_eq_weight (D : Nat → Nat → ℝ) (factor : ℝ) (n hh hv P : Nat) (p : Plate ℝ) (t : Triple)
    (ht : TripleValid n t) :
    expOrZero (comboTerm D factor (padArray 0 hh P (meansArray n p))
        (maskOf (padArray none hv P (someArray (varsArray n p))))
        (nanToNum (padArray none hv P (someArray (varsArray n p)))) t)
      = tripleWeight D factor p t := by
  obtain ⟨h1, h2, h3⟩ := ht
  rw [comboTerm_padded D factor p (P - p.length) t _ _ _
    (row_means _ _ _ _ _ h1) (row_means _ _ _ _ _ h2) (row_means _ _ _ _ _ h3)
    (row_nanToNum _ _ _ _ _ h1) (row_nanToNum _ _ _ _ _ h2) (row_nanToNum _ _ _ _ _ h3)
    (row_mask _ _ _ _ _ h1)]
  unfold logTripleDist tripleWeight
  by_cases hz : distSum D t = 0
  · simp [hz]
  · simp only [expLog_isZero, hz, decide_false, Bool.false_eq_true, if_false, Option.map_some, expOrZero_some,
      expLog_exp, expLog_log]
    rw [exp_cells]
    simp only [cell_eq_gaussTerm]

/-! ### `logsumexp`: the max-shift is immaterial over the reals -/

theorem sum_pos_iff_of_nonneg (l : List ℝ) (h : ∀ x ∈ l, 0 ≤ x) : 0 < l.sum ↔ ∃ x ∈ l, 0 < x := by
  induction l with
  | nil => simp
  | cons a l ih =>
    have ha := h a (by simp)
    have hl : ∀ x ∈ l, 0 ≤ x := fun x hx => h x (by simp [hx])
    have hs : 0 ≤ l.sum := List.sum_nonneg hl
    simp only [List.sum_cons, List.mem_cons, exists_eq_or_imp]
    constructor
    · intro hpos
      by_cases h0 : 0 < a
      · exact Or.inl h0
      · have : a = 0 := le_antisymm (not_lt.mp h0) ha
        right; apply (ih hl).mp; linarith
    · rintro (h0 | hex)
      · linarith
      · have := (ih hl).mpr hex; linarith

/-- `scipy.special.logsumexp` subtracts the row maximum `M` first; over the reals that is the
    same as the unshifted form whenever the sum is positive -/
theorem logSumExp_shift (xs : List (Option ℝ)) (M : ℝ) (hpos : 0 < (xs.map expOrZero).sum) :
    logSumExp (xs.map (fun o => o.map (fun x => x - M))) + M = logSumExp xs := by
  unfold logSumExp
  have h : ((xs.map (fun o => o.map (fun x => x - M))).map expOrZero).sum
      = Real.exp (-M) * (xs.map expOrZero).sum := by
    clear hpos
    induction xs with
    | nil => simp
    | cons o xs ih =>
      simp only [List.map_cons, List.sum_cons, ih, mul_add]
      congr 1
      cases o with
      | none => simp
      | some x => simp [sub_eq_add_neg, Real.exp_add, mul_comm]
  rw [h]
  simp only [expLog_log]
  rw [Real.log_mul (Real.exp_pos _).ne' hpos.ne', Real.log_exp]
  ring

theorem expOrZero_nonneg (o : Option ℝ) : 0 ≤ expOrZero o := by
  cases o with
  | none => simp
  | some x => simpa using (Real.exp_pos x).le

theorem rowMax_all_none (xs : List (Option ℝ)) (h : ∀ o ∈ xs, o = none) : rowMax xs = none := by
  induction xs with
  | nil => rfl
  | cons o xs ih =>
    have ho : o = none := h o (by simp)
    subst ho
    simp only [rowMax]
    exact ih (fun o ho => h o (by simp [ho]))

/-- `logsumexp` as implemented (shift by the row maximum, by `0` if the row is all `-inf`) equals
    the plain `log Σ exp`, for every row -/
theorem logSumExpShifted_eq (xs : List (Option ℝ)) : logSumExpShifted xs = logSumExp xs := by
  by_cases h : ∀ o ∈ xs, o = none
  · unfold logSumExpShifted logSumExp
    rw [rowMax_all_none xs h]
    simp only []
    have h1 : xs.map (fun o => expOrZero (o.map (fun x => x - (none : Option ℝ).getD 0))) = xs.map expOrZero := by
      apply List.map_congr_left
      intro o ho
      rw [h o ho]; rfl
    rw [h1]
    simp
  · have hpos : 0 < (xs.map expOrZero).sum := by
      rw [sum_pos_iff_of_nonneg _ (by
        intro x hx; obtain ⟨o, _, rfl⟩ := List.mem_map.mp hx; exact expOrZero_nonneg o)]
      push Not at h
      obtain ⟨o, ho, hne⟩ := h
      refine ⟨expOrZero o, List.mem_map_of_mem ho, ?_⟩
      cases o with
      | none => exact absurd rfl hne
      | some x => simpa using Real.exp_pos x
    have := logSumExp_shift xs ((rowMax xs).getD 0) hpos
    rw [← this]
    unfold logSumExpShifted logSumExp
    simp only [List.map_map, Function.comp_def]

/-! ### one plate, one group -/

/-- the padding lemma: on a plate padded to any width (and any number of all-padding rows) the
    vectorised per-plate value is the direct estimator of the unpadded plate -/
theorem scorePlateDense_padded (D : Nat → Nat → ℝ) (factor : ℝ) (n hh hv P : Nat) (p : Plate ℝ)
    (triples : List Triple) (ht : ∀ t ∈ triples, TripleValid n t) :
    scorePlateDense D factor triples (padArray 0 hh P (meansArray n p))
        (padArray none hv P (someArray (varsArray n p)))
      = scoreDirect D factor p triples := by
  unfold scorePlateDense
  rw [logSumExpShifted_eq]
  unfold logSumExp scoreDirect
  rw [List.map_map]
  congr 2
  apply List.map_congr_left
  intro t htm
  exact term_eq_weight D factor n hh hv P p t (ht t htm)

theorem zipWith_map_same {ι β γ δ : Type} (f : β → γ → δ) (g : ι → β) (h : ι → γ) (l : List ι) :
    List.zipWith f (l.map g) (l.map h) = l.map (fun x => f (g x) (h x)) := by
  induction l with
  | nil => rfl
  | cons a l ih => simp [ih]

theorem shape1_vars_eq (n : Nat) (p : Plate ℝ) :
    shape1 (someArray (varsArray n p)) = shape1 (meansArray n p) := by
  simp [shape1, someArray, varsArray, meansArray, Function.comp_def]

theorem scoreGroup_eq (n : Nat) (D : Nat → Nat → ℝ) (factor : ℝ) (triples : List Triple)
    (ht : ∀ t ∈ triples, TripleValid n t) (group : List (Plate ℝ)) :
    scoreGroup n D factor triples group = group.map (fun p => scoreDirect D factor p triples) := by
  unfold scoreGroup scoreVectorised padRagged
  have hw : List.map shape1 (List.map (fun p => someArray (varsArray n p)) group)
      = List.map shape1 (List.map (meansArray n) group) := by
    simp only [List.map_map]
    apply List.map_congr_left
    intro p _
    exact shape1_vars_eq n p
  rw [hw]
  simp only [List.map_map]
  rw [zipWith_map_same]
  apply List.map_congr_left
  intro p _
  exact scorePlateDense_padded D factor n _ _ _ p triples ht

/-! ### `array_split`, the scorer loop -/

theorem splitBySizes_flatten {β : Type} (ss : List Nat) (l : List β) :
    (splitBySizes ss l).flatten = l.take ss.sum := by
  induction ss generalizing l with
  | nil => simp [splitBySizes]
  | cons s ss ih => simp [splitBySizes, ih, List.take_add]

theorem splitSizes_sum (len n : Nat) (hn : 0 < n) : (splitSizes len n).sum = len := by
  unfold splitSizes
  have h := Nat.div_add_mod len n
  have hr := Nat.mod_lt len hn
  simp only [List.sum_append, List.sum_replicate, smul_eq_mul]
  generalize len / n = q at *
  generalize len % n = r at *
  obtain ⟨k, rfl⟩ : ∃ k, n = r + k := ⟨n - r, by omega⟩
  rw [Nat.add_sub_cancel_left, ← h]
  ring

/-- `np.array_split` only cuts: concatenating the chunks gives the list back -/
theorem arraySplit_flatten {β : Type} (l : List β) (n : Nat) (hn : 0 < n) :
    (arraySplit l n).flatten = l := by
  unfold arraySplit
  rw [splitBySizes_flatten, splitSizes_sum _ _ hn, List.take_length]

theorem mapIdx_eq_map_of {β γ : Type} (f : Nat → β → γ) (g : β → γ) (l : List β)
    (h : ∀ i x, x ∈ l → f i x = g x) : l.mapIdx f = l.map g := by
  apply List.ext_getElem
  · simp
  · intro i h1 h2
    have hi : i < l.length := by simpa using h1
    simp [h i l[i] (List.getElem_mem hi)]

theorem zip_map_self {β γ : Type} (l : List β) (f : β → γ) : l.zip (l.map f) = l.map (fun x => (x, f x)) := by
  induction l with
  | nil => rfl
  | cons a l ih => simp [ih]

theorem lookup_of_nodup {β : Type} (l : List (Nat × β)) (h : (l.map Prod.fst).Nodup) (kp : Nat × β) (hm : kp ∈ l) :
    l.lookup kp.1 = some kp.2 := by
  induction l with
  | nil => cases hm
  | cons a l ih =>
    obtain ⟨k, v⟩ := a
    simp only [List.map_cons, List.nodup_cons] at h
    rcases List.mem_cons.mp hm with rfl | hm'
    · simp
    · have hne : kp.1 ≠ k := by
        intro e; apply h.1; rw [← e]; exact List.mem_map_of_mem hm'
      have hb : (kp.1 == k) = false := by simpa using hne
      simp [List.lookup_cons, hb, ih h.2 hm']

theorem ceilDiv_pos (a b : Nat) (ha : 0 < a) (hb : 0 < b) : 0 < ceilDiv a b := by
  unfold ceilDiv
  exact Nat.div_pos (by omega) hb

/-- the scorer's loop: whatever the grouping, every plate gets the direct estimator of that plate -/
theorem scorerScore_eq (n : Nat) (D : Nat → Nat → ℝ) (maxChunk : Nat) (tripless : Nat → List Triple)
    (plates : List (Nat × Plate ℝ)) (S : Plate ℝ → ℝ)
    (hmc : 0 < maxChunk) (hk : (plates.map Prod.fst).Nodup)
    (ht : ∀ g, ∀ t ∈ tripless g, TripleValid n t)
    (hS : ∀ g p, scoreDirect D 1 p (tripless g) = S p) :
    scorerScore n D maxChunk tripless plates = plates.map (fun kp => (kp.1, S kp.2)) := by
  unfold scorerScore
  by_cases he : plates.isEmpty = true
  · simp only [he, if_true]
    rw [List.isEmpty_iff] at he
    simp [he]
  · simp only [he, if_false, Bool.false_eq_true]
    have hlen : 0 < plates.length := by
      cases plates with
      | nil => simp at he
      | cons a l => simp
    have hn := ceilDiv_pos _ _ hlen hmc
    rw [mapIdx_eq_map_of _ (fun grp => grp.map (fun k => (k, S ((plates.lookup k).getD [])))) _
      (by
        intro g grp _
        show grp.zip (scoreGroup n D 1 (tripless g) (grp.map (fun k => (plates.lookup k).getD []))) = _
        rw [scoreGroup_eq n D 1 _ (ht g), List.map_map, zip_map_self]
        apply List.map_congr_left
        intro k _
        simp [hS])]
    rw [← List.map_flatten, arraySplit_flatten _ _ hn, List.map_map]
    apply List.map_congr_left
    intro kp hm
    simp [lookup_of_nodup plates hk kp hm]

/-! ### permutations, positivity, the `logsumexp` shift -/

theorem prodL_eq_prod (l : List ℝ) : prodL l = l.prod := by
  induction l with
  | nil => simp [prodL]
  | cons a l ih => simp only [prodL, List.foldr_cons, List.prod_cons] at ih ⊢; rw [ih]

theorem scoreDirect_perm_triples (D : Nat → Nat → ℝ) (f : ℝ) (p : Plate ℝ) {ts ts' : List Triple}
    (h : ts.Perm ts') : scoreDirect D f p ts = scoreDirect D f p ts' := by
  unfold scoreDirect
  rw [(h.map _).sum_eq]

theorem tripleWeight_perm (D : Nat → Nat → ℝ) (f : ℝ) {p p' : Plate ℝ} (h : p.Perm p') (t : Triple) :
    tripleWeight D f p t = tripleWeight D f p' t := by
  unfold tripleWeight
  rw [prodL_eq_prod, prodL_eq_prod, (h.map _).prod_eq]

theorem scoreDirect_perm_experiments (D : Nat → Nat → ℝ) (f : ℝ) {p p' : Plate ℝ} (h : p.Perm p')
    (ts : List Triple) : scoreDirect D f p ts = scoreDirect D f p' ts := by
  unfold scoreDirect
  congr 2
  apply List.map_congr_left
  intro t _
  exact tripleWeight_perm D f h t

theorem prodL_pos (l : List ℝ) (h : ∀ x ∈ l, 0 < x) : 0 < prodL l := by
  induction l with
  | nil => simp [prodL]
  | cons a l ih =>
    simp only [prodL, List.foldr_cons]
    exact mul_pos (h a (by simp)) (ih (fun x hx => h x (by simp [hx])))

theorem gaussTerm_pos (e : Experiment ℝ) (t : Triple) : 0 < gaussTerm e t := by
  unfold gaussTerm invSqrt
  exact mul_pos (Real.exp_pos _) (Real.exp_pos _)

theorem tripleWeight_nonneg (D : Nat → Nat → ℝ) (f : ℝ) (p : Plate ℝ) (t : Triple) :
    0 ≤ tripleWeight D f p t := by
  unfold tripleWeight
  split
  · exact le_refl _
  · exact le_of_lt (mul_pos (Real.exp_pos _) (prodL_pos _ (by
      intro x hx; obtain ⟨e, _, rfl⟩ := List.mem_map.mp hx; exact gaussTerm_pos e t)))

theorem tripleWeight_pos_iff (D : Nat → Nat → ℝ) (f : ℝ) (p : Plate ℝ) (t : Triple) :
    0 < tripleWeight D f p t ↔ distSum D t ≠ 0 := by
  unfold tripleWeight
  by_cases hz : distSum D t = 0
  · simp [hz]
  · simp only [expLog_isZero, hz, decide_false, Bool.false_eq_true, if_false, ne_eq, not_false_eq_true, iff_true]
    exact mul_pos (Real.exp_pos _) (prodL_pos _ (by
      intro x hx; obtain ⟨e, _, rfl⟩ := List.mem_map.mp hx; exact gaussTerm_pos e t))

/-- the sum inside the logarithm is positive exactly when some triple has non-zero distance -/
theorem weightSum_pos_iff (D : Nat → Nat → ℝ) (f : ℝ) (p : Plate ℝ) (ts : List Triple) :
    0 < (ts.map (tripleWeight D f p)).sum ↔ ∃ t ∈ ts, distSum D t ≠ 0 := by
  rw [sum_pos_iff_of_nonneg _ (by
    intro x hx; obtain ⟨t, _, rfl⟩ := List.mem_map.mp hx; exact tripleWeight_nonneg D f p t)]
  constructor
  · rintro ⟨x, hx, hpos⟩
    obtain ⟨t, ht, rfl⟩ := List.mem_map.mp hx
    exact ⟨t, ht, (tripleWeight_pos_iff D f p t).mp hpos⟩
  · rintro ⟨t, ht, hne⟩
    exact ⟨_, List.mem_map_of_mem ht, (tripleWeight_pos_iff D f p t).mpr hne⟩

/-! ### all triples; the three kernel entry points -/

theorem allTriples_valid (n : Nat) : ∀ t ∈ allTriples n, TripleValid n t := by
  intro t ht
  simp only [allTriples, List.mem_flatMap, List.mem_map, List.mem_range] at ht
  obtain ⟨a, ha, b, hb, c, hc, rfl⟩ := ht
  exact ⟨ha, by simp only []; omega, by simp only []; omega⟩

theorem valid_of_perm {n : Nat} {ts : List Triple} (h : ts.Perm (allTriples n)) : ∀ t ∈ ts, TripleValid n t :=
  fun t ht => allTriples_valid n t (h.mem_iff.mp ht)

theorem scoreHeteroscedastic_eq (n : Nat) (D : Nat → Nat → ℝ) (f : ℝ) (triples : List Triple)
    (ht : ∀ t ∈ triples, TripleValid n t) (group : List (Plate ℝ)) :
    scoreHeteroscedastic D f triples (group.map (meansArray n)) (group.map (varsArray n))
      = group.map (fun p => scoreDirect D f p triples) := by
  rw [← scoreGroup_eq n D f triples ht group]
  unfold scoreHeteroscedastic scoreGroup
  rw [List.map_map]
  rfl

theorem scoreVectorised_wide (n : Nat) (D : Nat → Nat → ℝ) (f : ℝ) (triples : List Triple)
    (ht : ∀ t ∈ triples, TripleValid n t) (group : List (Plate ℝ)) (hh W : Nat) :
    scoreVectorised D f triples (group.map (fun p => padArray 0 hh W (meansArray n p)))
        (group.map (fun p => padArray none hh W (someArray (varsArray n p))))
      = group.map (fun p => scoreDirect D f p triples) := by
  unfold scoreVectorised
  rw [zipWith_map_same]
  apply List.map_congr_left
  intro p _
  exact scorePlateDense_padded D f n _ _ _ p triples ht

/-- a plate whose experiments all have the per-sample variances `w` -/
def homPlate (ms : List (Nat → ℝ)) (w : Nat → ℝ) : Plate ℝ := ms.map (fun m => { m := m, v := w })

theorem maxL_replicate (n L : Nat) (hn : 0 < n) : maxL (List.replicate n L) = L := by
  induction n with
  | zero => omega
  | succ k ih =>
    cases k with
    | zero => simp [maxL]
    | succ k => 
      have := ih (by omega)
      simp only [maxL, List.replicate_succ, List.foldr_cons] at this ⊢
      rw [this]; simp

theorem shape1_meansArray (n : Nat) (hn : 0 < n) (p : Plate ℝ) : shape1 (meansArray n p) = p.length := by
  simp [shape1, meansArray, Function.comp_def, maxL_replicate _ _ hn]

theorem homoscedasticRagged_eq (n : Nat) (hn : 0 < n) (gs : List (List (Nat → ℝ) × (Nat → ℝ))) :
    homoscedasticRagged (gs.map (fun g => meansArray n (homPlate g.1 g.2))) (gs.map (fun g => (List.range n).map g.2))
      = gs.map (fun g => varsArray n (homPlate g.1 g.2)) := by
  unfold homoscedasticRagged
  rw [zipWith_map_same]
  apply List.map_congr_left
  intro g _
  simp [shape1_meansArray n hn, varsArray, homPlate, Function.comp_def]

theorem scoreHomoscedastic_eq (n : Nat) (hn : 0 < n) (D : Nat → Nat → ℝ) (f : ℝ) (triples : List Triple)
    (ht : ∀ t ∈ triples, TripleValid n t) (gs : List (List (Nat → ℝ) × (Nat → ℝ))) :
    scoreHomoscedastic D f triples (gs.map (fun g => meansArray n (homPlate g.1 g.2)))
        (gs.map (fun g => (List.range n).map g.2))
      = gs.map (fun g => scoreDirect D f (homPlate g.1 g.2) triples) := by
  have h := scoreHeteroscedastic_eq n D f triples ht (gs.map (fun g => homPlate g.1 g.2))
  simp only [List.map_map, Function.comp_def] at h
  rw [← h]
  unfold scoreHomoscedastic scoreHeteroscedastic
  rw [homoscedasticRagged_eq n hn]

/-! ### every rectangular array is `meansArray` of its columns -/

/-- `M` is a rectangular `n × L` array -/
def Rect {β : Type} (n L : Nat) (M : List (List β)) : Prop := M.length = n ∧ ∀ r ∈ M, r.length = L

theorem maxL_const_of (l : List Nat) (L : Nat) (hne : l ≠ []) (h : ∀ x ∈ l, x = L) : maxL l = L := by
  induction l with
  | nil => exact absurd rfl hne
  | cons a l ih =>
    have ha : a = L := h a (by simp)
    cases l with
    | nil => simp [maxL, ha]
    | cons b l =>
      have := ih (by simp) (fun x hx => h x (by simp [hx]))
      simp only [maxL, List.foldr_cons] at this ⊢
      rw [this, ha]; simp

theorem shape1_rect {β : Type} (n L : Nat) (hn : 0 < n) (M : List (List β)) (h : Rect n L M) : shape1 M = L := by
  unfold shape1
  apply maxL_const_of
  · intro he
    have : M = [] := by simpa using he
    rw [this] at h
    have := h.1
    simp at this
    omega
  · intro x hx
    obtain ⟨r, hr, rfl⟩ := List.mem_map.mp hx
    exact h.2 r hr

theorem list_ext_rows (n L : Nat) (M : List (List ℝ)) (h : Rect n L M) :
    (List.range n).map (fun t => (List.range L).map (fun e => (M.getD t []).getD e 0)) = M := by
  apply List.ext_getElem
  · simp [h.1]
  · intro t h1 h2
    have ht : t < M.length := h2
    have hr : M[t].length = L := h.2 _ (List.getElem_mem ht)
    simp only [List.getElem_map, List.getElem_range]
    apply List.ext_getElem
    · simp [hr]
    · intro e h3 h4
      simp [List.getD_eq_getElem?_getD, ht, h4]

theorem meansArray_plateOfArrays (n L : Nat) (hn : 0 < n) (M V : List (List ℝ)) (hM : Rect n L M) :
    meansArray n (plateOfArrays M V) = M := by
  unfold meansArray plateOfArrays
  rw [shape1_rect n L hn M hM]
  simp only [List.map_map, Function.comp_def]
  exact list_ext_rows n L M hM

theorem varsArray_plateOfArrays (n L : Nat) (hn : 0 < n) (M V : List (List ℝ)) (hM : Rect n L M) (hV : Rect n L V) :
    varsArray n (plateOfArrays M V) = V := by
  unfold varsArray plateOfArrays
  rw [shape1_rect n L hn M hM]
  simp only [List.map_map, Function.comp_def]
  exact list_ext_rows n L V hV

theorem rect_group (n : Nat) (hn : 0 < n) (preds vars : List (List (List ℝ)))
    (hshape : List.Forall₂ (fun M V => ∃ L, Rect n L M ∧ Rect n L V) preds vars) :
    preds = (List.zipWith plateOfArrays preds vars).map (meansArray n)
      ∧ vars = (List.zipWith plateOfArrays preds vars).map (varsArray n) := by
  induction hshape with
  | nil => exact ⟨rfl, rfl⟩
  | cons h _ ih =>
    obtain ⟨L, hM, hV⟩ := h
    simp only [List.zipWith_cons_cons, List.map_cons]
    rw [← ih.1, ← ih.2, meansArray_plateOfArrays n L hn _ _ hM, varsArray_plateOfArrays n L hn _ _ hM hV]
    exact ⟨rfl, rfl⟩

/-- the heteroscedastic entry point on ARBITRARY rectangular per-plate arrays -/
theorem scoreHeteroscedastic_arrays (n : Nat) (hn : 0 < n) (D : Nat → Nat → ℝ) (f : ℝ) (triples : List Triple)
    (ht : ∀ t ∈ triples, TripleValid n t) (preds vars : List (List (List ℝ)))
    (hshape : List.Forall₂ (fun M V => ∃ L, Rect n L M ∧ Rect n L V) preds vars) :
    scoreHeteroscedastic D f triples preds vars
      = List.zipWith (fun M V => scoreDirect D f (plateOfArrays M V) triples) preds vars := by
  obtain ⟨hp, hv⟩ := rect_group n hn preds vars hshape
  have key := scoreHeteroscedastic_eq n D f triples ht (List.zipWith plateOfArrays preds vars)
  rw [← hp, ← hv] at key
  rw [key, List.map_zipWith]

end Batchie.Dbal
