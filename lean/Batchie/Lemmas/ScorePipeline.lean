/-
  Lemmas about the composed scoring pipeline (`Model/ScorePipeline.lean`): the DBAL scorer model returns one score per
  plate it is given (any number type), the chunk function is `score_chunk` of the C06 model with that scorer plugged
  in, and the whole run reads the screen only through its shape.  Core Lean only.
-/
import Batchie.Model.ScorePipeline
import Batchie.Lemmas.Scores
import Batchie.Model.Train

namespace Batchie.Lemmas.ScorePipeline
open Batchie.Proto Batchie.Screen Batchie.Scores Batchie.ScorePipeline Batchie.Lemmas.Scores

/-! ### `np.array_split` of the DBAL model is the one of the scores model -/

theorem splitBySizes_eq_takeSizes {β : Type} (ks : List Nat) (l : List β) :
    Dbal.splitBySizes ks l = takeSizes ks l := by
  induction ks generalizing l with
  | nil => rfl
  | cons k ks ih => simp [Dbal.splitBySizes, takeSizes, ih]

theorem dbal_arraySplit_eq {β : Type} (l : List β) (n : Nat) : Dbal.arraySplit l n = arraySplit l n := by
  unfold Dbal.arraySplit arraySplit
  rw [splitBySizes_eq_takeSizes]
  rfl

theorem dbal_arraySplit_flatten {β : Type} (l : List β) (n : Nat) (hn : 0 < n) : (Dbal.arraySplit l n).flatten = l := by
  rw [dbal_arraySplit_eq]; exact arraySplit_flatten l n hn

theorem ceilDiv_pos (a b : Nat) (ha : 0 < a) (hb : 0 < b) : 0 < Dbal.ceilDiv a b := by
  unfold Dbal.ceilDiv
  exact Nat.div_pos (by omega) hb

theorem mapM_range_ok {β : Type} (f : Nat → Except Err β) (l : List Nat) (out : List β) (h : l.mapM f = .ok out) :
    out.length = l.length ∧ ∀ i (hi : i < l.length) (ho : i < out.length), f l[i] = .ok out[i] := by
  induction l generalizing out with
  | nil => simp [pure, Except.pure] at h; subst h; simp
  | cons a l ih =>
    rw [List.mapM_cons] at h
    obtain ⟨b, hb, h⟩ := bind_ok h
    obtain ⟨bs, hbs, h⟩ := bind_ok h
    have := pure_ok h
    subst this
    obtain ⟨h1, h2⟩ := ih bs hbs
    refine ⟨by simp [h1], ?_⟩
    intro i hi ho
    cases i with
    | zero => simpa using hb
    | succ i => simpa using h2 i (by simpa using hi) (by simpa using ho)

/-! ### one score per plate, for every number type -/

section generic
variable {α : Type} [Add α] [Sub α] [Mul α] [Div α] [Neg α] [Zero α] [One α] [Dbal.ExpLog α] [Max α]

theorem length_padRagged {β : Type} (pad : β) (a : List (List (List β))) : (Dbal.padRagged pad a).length = a.length := by
  simp [Dbal.padRagged]

theorem length_scoreGroup (n : Nat) (D : Nat → Nat → α) (f : α) (ts : List Dbal.Triple) (group : List (Dbal.Plate α)) :
    (Dbal.scoreGroup n D f ts group).length = group.length := by
  simp [Dbal.scoreGroup, Dbal.scoreVectorised, length_padRagged]

theorem map_fst_flatten_mapIdx {β γ : Type} (gs : List (List β)) (f : Nat → List β → List (β × γ))
    (h : ∀ i g, (f i g).map Prod.fst = g) : ((gs.mapIdx f).flatten).map Prod.fst = gs.flatten := by
  rw [List.map_flatten]
  congr 1
  apply List.ext_getElem
  · simp
  · intro i h1 h2
    simp [h]

/-- `GaussianDBALScorer.score` returns exactly the keys it was given, in order, whatever the sub-grouping -/
theorem scorerScore_keys (n : Nat) (D : Nat → Nat → α) (maxChunk : Nat) (hmc : 0 < maxChunk)
    (tripless : Nat → List Dbal.Triple) (plates : List (Nat × Dbal.Plate α)) :
    (Dbal.scorerScore n D maxChunk tripless plates).map Prod.fst = plates.map Prod.fst := by
  unfold Dbal.scorerScore
  by_cases he : plates.isEmpty = true
  · rw [List.isEmpty_iff] at he
    simp [he]
  · simp only [he, if_false, Bool.false_eq_true]
    have hlen : 0 < (plates.map Prod.fst).length := by
      cases plates with
      | nil => simp at he
      | cons a l => simp
    rw [map_fst_flatten_mapIdx]
    · exact dbal_arraySplit_flatten _ _ (ceilDiv_pos _ _ (by simpa using hlen) hmc)
    · intro g grp
      apply List.map_fst_zip
      rw [length_scoreGroup]
      simp

theorem length_scorerScore (n : Nat) (D : Nat → Nat → α) (maxChunk : Nat) (hmc : 0 < maxChunk)
    (tripless : Nat → List Dbal.Triple) (plates : List (Nat × Dbal.Plate α)) :
    (Dbal.scorerScore n D maxChunk tripless plates).length = plates.length := by
  have := congrArg List.length (scorerScore_keys n D maxChunk hmc tripless plates)
  simpa using this

end generic

/-! ### the composed functions -/

section pipeline
set_option linter.unusedSectionVars false
variable {α : Type} [Add α] [Sub α] [Mul α] [Div α] [Neg α] [Zero α] [One α] [OfNat α 0] [OfNat α 1] [OfScientific α]
  [LT α] [DecidableLT α] [Max α] [Predict.ExpLog α] [Dbal.ExpLog α]

theorem mapM_toScore_keys (g : α → Option Score) (l : List (Int × α)) (out : List (Int × Score))
    (h : l.mapM (fun kv => match g kv.2 with
      | some x => (Except.ok (kv.1, x) : Except Err (Int × Score))
      | none => .error .other) = .ok out) :
    out.map Prod.fst = l.map Prod.fst := by
  induction l generalizing out with
  | nil => simp [pure, Except.pure] at h; subst h; rfl
  | cons kv l ih =>
    rw [List.mapM_cons] at h
    obtain ⟨b, hb, h⟩ := bind_ok h
    obtain ⟨bs, hbs, h⟩ := bind_ok h
    have := pure_ok h
    subst this
    have hb1 : b.1 = kv.1 := by
      cases hg : g kv.2 with
      | none => simp [hg] at hb
      | some x => simp only [hg] at hb; cases hb; rfl
    simp [hb1, ih bs hbs]

/-- the numbers: one per plate handed over, in order -/
theorem dbalRaw_keys (num : Num α) (thetas : List (Predict.Theta α)) (D : Nat → Nat → α) (maxChunk : Nat)
    (tripless : Nat → List Dbal.Triple) (s : Screen) (inp : List (Int × View)) (raw : List (Int × α))
    (h : dbalRaw num thetas D maxChunk tripless s inp = .ok raw) : raw.map Prod.fst = inp.map Prod.fst := by
  unfold dbalRaw at h
  split at h
  · next he =>
    cases h
    rw [List.isEmpty_iff] at he
    simp [he]
  · obtain ⟨ps, _, h⟩ := bind_ok h
    split at h
    · cases h
    · simp only at h
      split at h
      · cases h
      · next hlen =>
        have := pure_ok h
        subst this
        apply List.map_fst_zip
        have : (Dbal.scorerScore thetas.length D maxChunk tripless ((List.range ps.length).zip ps)).length = inp.length := by
          simpa using hlen
        simp [this]

/-- the count check of `GaussianDBALScorer.score` ("Expected {} plates to be scored") never fires for `max_chunk ≥ 1`:
    once the predictions of every plate exist and there are at least three samples, the scorer answers, with the
    value of `Dbal.scorerScore` for every plate -/
theorem dbalRaw_ok_of (num : Num α) (thetas : List (Predict.Theta α)) (D : Nat → Nat → α) (maxChunk : Nat) (hmc : 0 < maxChunk)
    (tripless : Nat → List Dbal.Triple) (s : Screen) (inp : List (Int × View)) (hne : inp.isEmpty = false)
    (ps : List (Dbal.Plate α)) (hps : inp.mapM (fun e => plateOfView num thetas s e.2) = .ok ps)
    (hc : UnrankCallsite.comb3 thetas.length ≠ 0) :
    dbalRaw num thetas D maxChunk tripless s inp
      = .ok ((inp.map Prod.fst).zip ((Dbal.scorerScore thetas.length D maxChunk tripless ((List.range ps.length).zip ps)).map Prod.snd)) := by
  have hpl : ps.length = inp.length := by
    clear hne
    induction inp generalizing ps with
    | nil => simp [pure, Except.pure] at hps; subst hps; rfl
    | cons e inp ih =>
      rw [List.mapM_cons] at hps
      obtain ⟨b, _, hps⟩ := bind_ok hps
      obtain ⟨bs, hbs, hps⟩ := bind_ok hps
      have := pure_ok hps
      subst this
      simp [ih bs hbs]
  unfold dbalRaw
  simp only [hne, Bool.false_eq_true, if_false, hps, bind, Except.bind]
  have hc' : (UnrankCallsite.comb3 thetas.length == 0) = false := by simpa using hc
  have hl := length_scorerScore thetas.length D maxChunk hmc tripless ((List.range ps.length).zip ps)
  have hl' : ((Dbal.scorerScore thetas.length D maxChunk tripless ((List.range ps.length).zip ps)).length != inp.length) = false := by
    rw [hl]; simp [hpl]
  simp [hc', hl', pure, Except.pure]

theorem dbalScore_keys (num : Num α) (thetas : List (Predict.Theta α)) (D : Nat → Nat → α) (maxChunk : Nat)
    (tripless : Nat → List Dbal.Triple) (s : Screen) (inp : List (Int × View)) (out : List (Int × Score))
    (h : dbalScore num thetas D maxChunk tripless s inp = .ok out) : out.map Prod.fst = inp.map Prod.fst := by
  unfold dbalScore at h
  obtain ⟨raw, hraw, h⟩ := bind_ok h
  rw [mapM_toScore_keys num.toScore raw out h]
  exact dbalRaw_keys num thetas D maxChunk tripless s inp raw hraw

/-- `score_chunk` with the DBAL scorer IS `Batchie.Scores.scoreChunk` with `dbalScorer` plugged in; its holder lists the
    plates of the chunk once each, in order, with no zero-filled tail -/
theorem scoreChunkDbal_spec (num : Num α) (thetas : List (Predict.Theta α)) (D : Nat → Nat → α) (maxChunk : Nat)
    (tripless : Nat → List Dbal.Triple) (s : Screen) (batch : List Int) (n idx : Nat) (raw : List (Int × α)) (h : Holder)
    (hr : scoreChunkDbal num thetas D maxChunk tripless s batch n idx = .ok (raw, h)) :
    scoreChunk s 0 batch n idx (dbalScorer num thetas D maxChunk tripless s) = .ok h
    ∧ ∃ inp, scoreInputs s 0 batch n idx = .ok inp ∧ h.plateIds = inp.map Prod.fst ∧ raw.map Prod.fst = inp.map Prod.fst
        ∧ h.cur = inp.length ∧ h.size = inp.length ∧ HolderWF h := by
  unfold scoreChunkDbal at hr
  obtain ⟨inp, hinp, hr⟩ := bind_ok hr
  obtain ⟨raw', hraw, hr⟩ := bind_ok hr
  obtain ⟨out, hout, hr⟩ := bind_ok hr
  obtain ⟨h', hh, hr⟩ := bind_ok hr
  have := pure_ok hr
  cases this
  have hkeys := dbalScore_keys num thetas D maxChunk tripless s inp out hout
  have hlen : out.length = inp.length := by simpa using congrArg List.length hkeys
  have hnew := foldlM_add_new out inp.length hlen
  rw [hh] at hnew
  have hh' := Except.ok.inj hnew
  refine ⟨?_, inp, hinp, ?_, dbalRaw_keys num thetas D maxChunk tripless s inp raw hraw, ?_, ?_, ?_⟩
  · unfold scoreChunk
    simp only [hinp, bind, Except.bind]
    have : dbalScorer num thetas D maxChunk tripless s inp = out := by simp [dbalScorer, hout]
    rw [this]
    exact hh
  · rw [hh']; exact hkeys
  · rw [hh']
  · rw [hh']
  · rw [hh']; simp [HolderWF]

/-! ### the run reads the screen only through its shape -/

open Batchie.Train in
/-- the composed run on a screen is the composed run on its shape with ANY observation column -/
theorem run_withObs (num : Num α) (sh : ScreenShape) (o o' : List Nat) (thetas : List (Predict.Theta α)) (kDist kScore : Nat)
    (batch : List Int) (maxChunk : Nat) (draws : Nat → Nat → List Nat) (policy : Option Policy) :
    run num (sh.withObs o) thetas kDist kScore batch maxChunk draws policy
      = run num (sh.withObs o') thetas kDist kScore batch maxChunk draws policy := rfl

end pipeline

end Batchie.Lemmas.ScorePipeline
