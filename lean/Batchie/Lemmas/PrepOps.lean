/-
  C11 helper lemmas, part 8: the per-operation facts in the uniform shape the wrapper lemmas consume
  ("unobserved in ⇒ unobserved out", "sublist", "permutation ignoring labels").
-/
import Batchie.Lemmas.PrepPerm
import Batchie.Lemmas.PrepSmooth
import Batchie.Lemmas.PrepNPlate
import Batchie.Lemmas.PrepSeg
import Batchie.Lemmas.PrepPair
import Batchie.Lemmas.PrepCover
import Batchie.Model.PrepShipped
import Batchie.Lemmas.PrepMergeRows
namespace Batchie.Prep
open Batchie.Proto Batchie.Screen

theorem sublist_mask {a b : List Row} (h : a.Sublist b) (hm : ∀ r ∈ b, r.mask = false) : ∀ r ∈ a, r.mask = false :=
  fun r hr => hm r (h.subset hr)

theorem sublist_unlabelled {a b : List Row} (h : a.Sublist b) : (a.map unlabelled).Subperm (b.map unlabelled) :=
  (h.map unlabelled).subperm

/-- **wrapper, sub-collection with labels**: a smoother that only selects rows returns a sub-multiset of the input records -/
theorem wrap_subperm_rows {op : Screen → Except Err Screen} {s out : Screen}
    (hop : ∀ u nu, op u = .ok nu → (rowsOf nu).Sublist (rowsOf u))
    (h : wrap op s = .ok out) : (rowsOf out).Subperm (rowsOf s) := by
  rcases wrap_ok h with ⟨_, rfl⟩ | ⟨u, nu, bu, hnu, hrows⟩
  · exact List.Subperm.refl _
  · have hs := hop u nu hnu
    rw [bu.rows_eq] at hs
    rw [hrows]
    exact List.Subperm.trans ((List.subperm_append_right _).mpr hs.subperm) (rows_split_perm s).subperm

/-- the shape of a successful wrapped run, keeping the construction of the unobserved sub-screen -/
theorem wrap_ok' {op : Screen → Except Err Screen} {s out : Screen} (h : wrap op s = .ok out) :
    (unobservedRows s = [] ∧ out = s) ∨
    ∃ u nu, build s.ctrl s.arity (unobservedRows s) = .ok u ∧ op u = .ok nu ∧ rowsOf out = rowsOf nu ++ observedRows s := by
  unfold wrap at h
  simp only at h
  have eu : maskFilter (rowsOf s) (((rowsOf s).map (·.mask)).map (!·)) = unobservedRows s := by
    rw [List.map_map]; exact maskFilter_map_pred _ _
  have eo : maskFilter (rowsOf s) ((rowsOf s).map (·.mask)) = observedRows s := maskFilter_map_pred _ _
  split at h
  · rename_i hc
    left
    cases h
    refine ⟨?_, rfl⟩
    unfold unobservedRows
    apply filter_eq_nil_of_forall
    intro r hr
    simp only [Bool.not_eq_eq_eq_not, Bool.not_true, List.any_eq_false, List.mem_map,
      forall_exists_index, and_imp, forall_apply_eq_imp_iff₂] at hc
    simpa using hc r hr
  · right
    · obtain ⟨u, hu, h⟩ := bind_ok h
      obtain ⟨nu, hnu, h⟩ := bind_ok h
      unfold select at hu
      rw [eu] at hu
      refine ⟨u, nu, hu, hnu, ?_⟩
      split at h
      · rename_i hc
        cases h
        have : observedRows s = [] := by
          unfold observedRows
          apply filter_eq_nil_of_forall
          intro r hr
          simp only [Bool.not_eq_true', List.any_eq_false, List.mem_map, forall_exists_index, and_imp,
            forall_apply_eq_imp_iff₂, id] at hc
          simpa using hc r hr
        rw [this, List.append_nil]
      · obtain ⟨o, ho, h⟩ := bind_ok h
        have bo := select_ok ho
        rw [eo] at bo
        rw [(combine_ok h).rows_eq, bo.rows_eq]

/-! ### assembling the wrapped result -/

theorem assemble_perm {s out : Screen} {nuRows : List Row}
    (hp : (nuRows.map unlabelled).Perm ((unobservedRows s).map unlabelled)) (hrows : rowsOf out = nuRows ++ observedRows s) :
    ((rowsOf out).map unlabelled).Perm ((rowsOf s).map unlabelled) := by
  rw [hrows, List.map_append]
  refine (List.Perm.append_right _ hp).trans ?_
  rw [← List.map_append]
  exact (rows_split_perm s).map _

theorem assemble_subperm {s out : Screen} {nuRows : List Row}
    (hp : (nuRows.map unlabelled).Subperm ((unobservedRows s).map unlabelled)) (hrows : rowsOf out = nuRows ++ observedRows s) :
    ((rowsOf out).map unlabelled).Subperm ((rowsOf s).map unlabelled) := by
  rw [hrows, List.map_append]
  refine List.Subperm.trans ((List.subperm_append_right _).mpr hp) ?_
  rw [← List.map_append]
  exact ((rows_split_perm s).map _).subperm

theorem assemble_observed {s out : Screen} {nuRows : List Row}
    (hm : ∀ r ∈ nuRows, r.mask = false) (hrows : rowsOf out = nuRows ++ observedRows s) :
    observedRows out = observedRows s ∧ unobservedRows out = nuRows := by
  unfold observedRows unobservedRows at *
  rw [hrows]
  exact filter_mask_append _ _ hm observed_mask

theorem unlabelled_of_exp {a b : List Row} (ha : ∀ r ∈ a, r.mask = false) (hb : ∀ r ∈ b, r.mask = false)
    (h : (a.map Row.exp).Perm (b.map Row.exp)) : (a.map unlabelled).Perm (b.map unlabelled) := by
  have e : ∀ l : List Row, (∀ r ∈ l, r.mask = false) → l.map unlabelled = (l.map Row.exp).map (fun e => (e, false)) := by
    intro l hl
    rw [List.map_map]
    apply List.map_congr_left
    intro r hr
    simp [unlabelled, hl r hr]
  rw [e a ha, e b hb]
  exact h.map _

/-! ### the shipped generators on the screen the wrapper hands them -/

theorem generator_facts (g : Generator) {c : Name} {a : Nat} {rows : List Row} {u nu : Screen}
    (hu : build c a rows = .ok u) (hm : ∀ r ∈ rows, r.mask = false) (h : g.run u = .ok nu) :
    ((rowsOf nu).map unlabelled).Perm (rows.map unlabelled) ∧ ∀ r ∈ rowsOf nu, r.mask = false := by
  have B := build_ok hu
  have hm' : ∀ r ∈ rowsOf u, r.mask = false := by rw [B.rows_eq]; exact hm
  cases g with
  | permutation force perm =>
    obtain ⟨h1, h2, _⟩ := genPermutation_spec h hm'
    rw [B.rows_eq] at h1
    exact ⟨h1, h2⟩
  | segregating mx perms =>
    obtain ⟨labels, hl, hr⟩ := genSegregating_rows h
    rw [hr, B.rows_eq]
    rw [B.rows_eq] at hl
    exact ⟨by rw [setPlates_unlabelled _ _ hl], setPlates_mem_mask _ _ hm⟩
  | pairwise sub anc anchor perms assign =>
    obtain ⟨h1, h2⟩ := genPairwise_conserve_of_build hu h
    exact ⟨unlabelled_of_exp h2 hm h1, h2⟩

/-! ### the shipped smoothers on the screen the wrapper hands them -/

/-- what every (inner) smoother guarantees on an all-unobserved built screen -/
def SmoothOk (rows nuRows : List Row) : Prop :=
  (nuRows.map unlabelled).Subperm (rows.map unlabelled) ∧ ∀ r ∈ nuRows, r.mask = false

theorem smoothOk_of_sublist {rows nuRows : List Row} (h : nuRows.Sublist rows) (hm : ∀ r ∈ rows, r.mask = false) :
    SmoothOk rows nuRows := ⟨sublist_unlabelled h, sublist_mask h hm⟩

theorem smoothOk_of_shape {rows nuRows : List Row} (h : MergeShape rows nuRows) (hm : ∀ r ∈ rows, r.mask = false) :
    SmoothOk rows nuRows := by
  obtain ⟨ρ, e, _⟩ := h.rename
  subst e
  exact ⟨by rw [renamePlates_unlabelled], renamePlates_mask ρ rows hm⟩

/-- lifting an inner guarantee through the wrapper (any input screen) -/
theorem wrap_smoothOk {op : Screen → Except Err Screen}
    (hop : ∀ (c : Name) (a : Nat) (rows : List Row) (u nu : Screen), build c a rows = .ok u → (∀ r ∈ rows, r.mask = false) →
      op u = .ok nu → SmoothOk rows (rowsOf nu))
    {s out : Screen} (h : wrap op s = .ok out) :
    ((rowsOf out).map unlabelled).Subperm ((rowsOf s).map unlabelled) ∧ observedRows out = observedRows s ∧
      ((∀ r ∈ rowsOf s, r.mask = false) → ∀ r ∈ rowsOf out, r.mask = false) := by
  rcases wrap_ok' h with ⟨_, rfl⟩ | ⟨u, nu, hu, hnu, hrows⟩
  · exact ⟨List.Subperm.refl _, rfl, fun h => h⟩
  · obtain ⟨h1, h2⟩ := hop _ _ _ u nu hu unobserved_mask hnu
    refine ⟨assemble_subperm h1 hrows, (assemble_observed h2 hrows).1, ?_⟩
    intro hall r hr
    rw [hrows] at hr
    rcases List.mem_append.mp hr with hr | hr
    · exact h2 r hr
    · have := (List.mem_filter.mp hr)
      exact hall r this.1

theorem smoothOk_trans {a b c : List Row} (h1 : SmoothOk a b) (h2 : SmoothOk b c) : SmoothOk a c :=
  ⟨List.Subperm.trans h2.1 h1.1, h2.2⟩

theorem smoother_facts (sm : Smoother) {c : Name} {a : Nat} {rows : List Row} {u nu : Screen}
    (hu : build c a rows = .ok u) (hm : ∀ r ∈ rows, r.mask = false) (h : sm.run u = .ok nu) :
    SmoothOk rows (rowsOf nu) := by
  have B := build_ok hu
  have basic_mm : ∀ k pops (c : Name) (a : Nat) (rows : List Row) (u nu : Screen), build c a rows = .ok u → (∀ r ∈ rows, r.mask = false) →
      mergeMin k pops u = .ok nu → SmoothOk rows (rowsOf nu) :=
    fun k pops c a rows u nu hu hm h => smoothOk_of_shape (mergeMin_shape hu h) hm
  have basic_tb : ∀ n (c : Name) (a : Nat) (rows : List Row) (u nu : Screen), build c a rows = .ok u → (∀ r ∈ rows, r.mask = false) →
      mergeTopBottom n u = .ok nu → SmoothOk rows (rowsOf nu) :=
    fun n c a rows u nu hu hm h => smoothOk_of_shape (mergeTopBottom_shape hu h) hm
  have basic_opt : ∀ choices (c : Name) (a : Nat) (rows : List Row) (u nu : Screen), build c a rows = .ok u → (∀ r ∈ rows, r.mask = false) →
      optimalSizeSmoother choices u = .ok nu → SmoothOk rows (rowsOf nu) :=
    fun choices c a rows u nu hu hm h => smoothOk_of_sublist ((build_ok hu).rows_eq ▸ optimal_sublist h) hm
  have basic_np : ∀ k (c : Name) (a : Nat) (rows : List Row) (u nu : Screen), build c a rows = .ok u → (∀ r ∈ rows, r.mask = false) →
      nPlate k u = .ok nu → SmoothOk rows (rowsOf nu) :=
    fun k c a rows u nu hu hm h => smoothOk_of_sublist ((build_ok hu).rows_eq ▸ nPlate_sublist h) hm
  cases sm with
  | mergeMin k pops => exact basic_mm k pops _ _ _ _ _ hu hm h
  | mergeTopBottom n => exact basic_tb n _ _ _ _ _ hu hm h
  | fixedSize k choices => exact smoothOk_of_sublist (B.rows_eq ▸ fixedSize_sublist h) hm
  | optimalSize choices => exact basic_opt choices _ _ _ _ _ hu hm h
  | nPlate k => exact basic_np k _ _ _ _ _ hu hm h
  | ensemble minSize nIter minN pops choices =>
    simp only [Smoother.run, ensemble] at h
    obtain ⟨s1, h1, h⟩ := bind_ok h
    obtain ⟨s2, h2, h⟩ := bind_ok h
    obtain ⟨s3, h3, h⟩ := bind_ok h
    have hm0 : ∀ r ∈ rowsOf u, r.mask = false := by rw [B.rows_eq]; exact hm
    obtain ⟨p1, _, m1⟩ := wrap_smoothOk (basic_mm minSize pops) h1
    obtain ⟨p2, _, m2⟩ := wrap_smoothOk (basic_tb nIter) h2
    obtain ⟨p3, _, m3⟩ := wrap_smoothOk (basic_opt choices) h3
    obtain ⟨p4, _, m4⟩ := wrap_smoothOk (basic_np minN) h
    rw [B.rows_eq] at p1
    exact ⟨List.Subperm.trans p4 (List.Subperm.trans p3 (List.Subperm.trans p2 p1)), m4 (m3 (m2 (m1 hm0)))⟩

/-- the ensemble ends with the per-sample minimum smoother, so its guarantee holds for the ensemble's result -/
theorem ensemble_min {c : Name} {a : Nat} {rows : List Row} {u nu : Screen} {minSize nIter minN : Int} {pops : List Nat}
    {choices : List (List Nat)} (hu : build c a rows = .ok u) (hm : ∀ r ∈ rows, r.mask = false)
    (h : ensemble minSize nIter minN pops choices u = .ok nu) :
    ∀ r ∈ rowsOf nu, minN ≤ ((distinctPlates (rowsOf nu) r.sample).length : Int) := by
  have B := build_ok hu
  simp only [ensemble] at h
  obtain ⟨s1, h1, h⟩ := bind_ok h
  obtain ⟨s2, h2, h⟩ := bind_ok h
  obtain ⟨s3, h3, h⟩ := bind_ok h
  have hm0 : ∀ r ∈ rowsOf u, r.mask = false := by rw [B.rows_eq]; exact hm
  have m1 := (wrap_smoothOk (fun c a rows u nu hu hm h => smoothOk_of_shape (mergeMin_shape (k := minSize) (pops := pops) hu h) hm) h1).2.2 hm0
  have m2 := (wrap_smoothOk (fun c a rows u nu hu hm h => smoothOk_of_shape (mergeTopBottom_shape (n := nIter) hu h) hm) h2).2.2 m1
  have m3 := (wrap_smoothOk (fun c a rows u nu hu hm h =>
    smoothOk_of_sublist ((build_ok hu).rows_eq ▸ optimal_sublist (choices := choices) h) hm) h3).2.2 m2
  rcases wrap_ok' h with ⟨he, rfl⟩ | ⟨u4, nu4, hu4, hnu4, hrows⟩
  · intro r hr
    exfalso
    have : r ∈ unobservedRows nu := List.mem_filter.mpr ⟨hr, by simp [m3 r hr]⟩
    rw [he] at this
    exact absurd this (by simp)
  · have hobs : observedRows s3 = [] := by
      unfold observedRows
      apply filter_eq_nil_of_forall
      intro r hr; exact m3 r hr
    rw [hobs, List.append_nil] at hrows
    rw [hrows]
    exact nPlate_min hu4 hnu4

end Batchie.Prep
