/-
  C16: the id glue of `select_next_plate` (`Model/Policy.lean`: `batchPlatesRaw`, `candidatesRaw`, `batchFilter`, `selectNext`).
  The raw membership tests are the Nat-level ones on `batchFilter ids`: every id ≥ 0 -- 0 included -- counts, placeholders do not.
-/
import Batchie.Lemmas.Policy

namespace Batchie.Lemmas.PolicyGlue

open Batchie.Policy
open Batchie.Lemmas.Policy

theorem mem_batchFilter {ids : List Int} {i : Nat} : i ∈ batchFilter ids ↔ (i : Int) ∈ ids := by
  unfold batchFilter
  rw [List.mem_map]
  constructor
  · rintro ⟨a, ha, rfl⟩
    obtain ⟨h1, h2⟩ := List.mem_filter.1 ha
    have h0 : 0 ≤ a := by simpa using h2
    rw [Int.toNat_of_nonneg h0]; exact h1
  · intro h
    exact ⟨(i : Int), List.mem_filter.2 ⟨h, by simp⟩, by simp⟩

theorem contains_raw (ids : List Int) (i : Nat) : ids.contains (i : Int) = (batchFilter ids).contains i := by
  by_cases h : (i : Int) ∈ ids
  · have h' := mem_batchFilter.2 h
    simp [h, h']
  · have h' : i ∉ batchFilter ids := fun hh => h (mem_batchFilter.1 hh)
    simp [h, h']

theorem batchPlatesRaw_eq (screen : List Plate) (ids : List Int) :
    batchPlatesRaw screen ids = batchPlates screen (batchFilter ids) := by
  unfold batchPlatesRaw batchPlates
  apply List.filter_congr
  intro p _
  exact contains_raw ids p.id

theorem candidatesRaw_eq (screen : List Plate) (ids : List Int) :
    candidatesRaw screen ids = candidates screen (batchFilter ids) := by
  unfold candidatesRaw candidates
  congr 1
  apply List.filter_congr
  intro p _
  rw [contains_raw ids p.id]

theorem selectNext_eq (k : Nat) (screen : List Plate) (ids : List Int) :
    selectNext k screen ids = eligibleOf k screen (batchFilter ids) := by
  unfold selectNext eligibleOf
  rw [batchPlatesRaw_eq, candidatesRaw_eq]

end Batchie.Lemmas.PolicyGlue
