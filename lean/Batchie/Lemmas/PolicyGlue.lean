/-
  C16: the id glue of `select_next_plate` (`Model/Policy.lean`: `batchPlatesRaw`, `candidatesRaw`, `batchFilter`, `selectNext`).
  The raw membership tests are the Nat-level ones on `batchFilter ids`: every id ≥ 0 -- 0 included -- counts, placeholders do not.
-/
import Batchie.Lemmas.Policy

namespace Batchie.Lemmas.PolicyGlue

open Batchie.Policy
open Batchie.Lemmas.Policy

theorem mem_batchFilter {ids : List Int} {i : Nat} : i ∈ batchFilter ids ↔ (i : Int) ∈ ids := by
  unfold batchFilter
  rw [List.mem_map]
  constructor
  · rintro ⟨a, ha, rfl⟩
    obtain ⟨h1, h2⟩ := List.mem_filter.1 ha
    have h0 : 0 ≤ a := by simpa using h2
    rw [Int.toNat_of_nonneg h0]; exact h1
  · intro h
    exact ⟨(i : Int), List.mem_filter.2 ⟨h, by simp⟩, by simp⟩

theorem contains_raw (ids : List Int) (i : Nat) : ids.contains (i : Int) = (batchFilter ids).contains i := by
  by_cases h : (i : Int) ∈ ids
  · have h' := mem_batchFilter.2 h
    simp [h, h']
  · have h' : i ∉ batchFilter ids := fun hh => h (mem_batchFilter.1 hh)
    simp [h, h']

theorem batchPlatesRaw_eq (screen : List Plate) (ids : List Int) :
    batchPlatesRaw screen ids = batchPlates screen (batchFilter ids) := by
  unfold batchPlatesRaw batchPlates
  apply List.filter_congr
  intro p _
  exact contains_raw ids p.id

theorem candidatesRaw_eq (screen : List Plate) (ids : List Int) :
    candidatesRaw screen ids = candidates screen (batchFilter ids) := by
  unfold candidatesRaw candidates
  congr 1
  apply List.filter_congr
  intro p _
  rw [contains_raw ids p.id]

theorem selectNext_eq (k : Nat) (screen : List Plate) (ids : List Int) :
    selectNext k screen ids = eligibleOf k screen (batchFilter ids) := by
  unfold selectNext eligibleOf
  rw [batchPlatesRaw_eq, candidatesRaw_eq]

/-! ### the returned plate -/

theorem firstMin_fold_mem (l : List (Nat × Int)) (acc : Option (Nat × Int)) (b : Nat × Int)
    (h : l.foldl minStep acc = some b) : b ∈ l ∨ acc = some b := by
  induction l generalizing acc with
  | nil => exact Or.inr h
  | cons e l ih =>
    rw [List.foldl_cons] at h
    rcases ih _ h with hm | hacc
    · exact Or.inl (List.mem_cons_of_mem _ hm)
    · cases acc with
      | none =>
        simp only [minStep] at hacc
        exact Or.inl (by rw [← Option.some.inj hacc]; exact List.mem_cons_self)
      | some a =>
        simp only [minStep] at hacc
        split at hacc
        · exact Or.inl (by rw [← Option.some.inj hacc]; exact List.mem_cons_self)
        · exact Or.inr hacc

theorem firstMin_mem {l : List (Nat × Int)} {b : Nat × Int} (h : firstMin l = some b) : b ∈ l := by
  rcases firstMin_fold_mem l none b h with hm | hn
  · exact hm
  · cases hn

theorem fold_some (l : List (Nat × Int)) (x : Nat × Int) : ∃ y, l.foldl minStep (some x) = some y := by
  induction l generalizing x with
  | nil => exact ⟨x, rfl⟩
  | cons e l ih =>
    rw [List.foldl_cons]
    simp only [minStep]
    split
    · exact ih e
    · exact ih x

/-- whatever the scores are -- all equal, tied between allowed and non-allowed plates, in any storage order -- the id that comes
    back is one of the allowed ids (and an id of the table) -/
theorem argminAllowed_mem {table : List (Nat × Int)} {allowed : List Nat} {i : Nat}
    (h : argminAllowed table allowed = some i) : i ∈ allowed ∧ ∃ sc, (i, sc) ∈ table := by
  unfold argminAllowed at h
  cases hf : firstMin (table.filter (fun e => allowed.contains e.1)) with
  | none => rw [hf] at h; cases h
  | some b =>
    rw [hf] at h
    have hi : b.1 = i := by simpa using h
    obtain ⟨hb1, hb2⟩ := List.mem_filter.1 (firstMin_mem hf)
    refine ⟨by rw [← hi]; simpa using hb2, b.2, ?_⟩
    rw [← hi]; exact hb1

/-- a non-empty masked table has an argmin -/
theorem argminAllowed_some {table : List (Nat × Int)} {allowed : List Nat}
    (h : ∃ e ∈ table, e.1 ∈ allowed) : ∃ i, argminAllowed table allowed = some i := by
  obtain ⟨e, he, hea⟩ := h
  have hne : table.filter (fun e => allowed.contains e.1) ≠ [] := by
    intro hnil
    have : e ∈ table.filter (fun e => allowed.contains e.1) := List.mem_filter.2 ⟨he, by simpa using hea⟩
    rw [hnil] at this; cases this
  unfold argminAllowed
  cases hl : table.filter (fun e => allowed.contains e.1) with
  | nil => exact absurd hl hne
  | cons a l =>
    unfold firstMin
    rw [List.foldl_cons]
    obtain ⟨y, hy⟩ := fold_some l a
    have e0 : minStep none a = some a := rfl
    rw [e0, hy]
    exact ⟨y.1, rfl⟩

end Batchie.Lemmas.PolicyGlue
