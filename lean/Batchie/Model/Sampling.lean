/-
  Hand model of the parts of `batchie.sampling.sample` that the translator keeps as text
  (import-free, executable):

  * the dataflow of the generator handed to an MCMC model
        seeds = numpy.random.SeedSequence(seed).spawn(n_chains)
        rng   = numpy.random.default_rng(seeds[chain_index])
    A `SeedSequence` is modelled by what numpy documents as its identity: `(entropy, spawn_key)`
    plus the counter `n_children_spawned`; `spawn n` returns children with keys
    `spawn_key ++ [n_children_spawned + i]`; `default_rng` is an uninterpreted function of
    `(entropy, spawn_key)` (a parameter of every definition/theorem that mentions it).
    `SeedSequence(seed)` raises `ValueError` for a negative seed, `seeds[chain_index]` is Python
    list indexing (negative indices wrap, out of range raises `IndexError`).
  * the VI branch: reset, `default_rng(seed)`, `set_rng`, ONE call `sample(num_samples=n)`,
    then `add_theta` per returned element (the holder refuses more than `n_thetas`).
  * trace readers used to state the schedule property (`recordPositions`).

  What is NOT modelled: the bit streams themselves (numpy's hashing of entropy+spawn_key into
  PCG64 state); that distinct spawn keys give non-overlapping streams is numpy's design
  guarantee and is trusted.
-/
import Batchie.Model.Proto

namespace Batchie.Sampling

open Batchie.Proto

/-! ### SeedSequence -/

structure SeedSeq where
  entropy : Int
  spawnKey : List Nat
  nChildrenSpawned : Nat := 0
deriving Repr, DecidableEq

/-- `numpy.random.SeedSequence(seed)` for an integer seed -/
def seedSequence (seed : Int) : Except Err SeedSeq :=
  if seed < 0 then .error .valueError else .ok { entropy := seed, spawnKey := [], nChildrenSpawned := 0 }

/-- `SeedSequence.spawn(n)`: the list of children (the parent's counter update is irrelevant
    here, the parent is dropped after one spawn) -/
def SeedSeq.spawn (s : SeedSeq) (n : Int) : List SeedSeq :=
  (List.range n.toNat).map (fun i =>
    { entropy := s.entropy, spawnKey := s.spawnKey ++ [s.nChildrenSpawned + i], nChildrenSpawned := 0 })

/-- Python `l[i]` for a list -/
def pyGet {α : Type} (l : List α) (i : Int) : Except Err α :=
  let j : Int := if i < 0 then i + (l.length : Int) else i
  if j < 0 then .error .indexError
  else match l[j.toNat]? with
    | some x => .ok x
    | none => .error .indexError

/-- `SeedSequence(seed).spawn(n_chains)[chain_index]` -/
def chainSeed (seed nChains chainIndex : Int) : Except Err SeedSeq :=
  match seedSequence seed with
  | .error e => .error e
  | .ok s => pyGet (s.spawn nChains) chainIndex

/-- the generator handed to `model.set_rng` in the MCMC branch; `mk entropy spawn_key` stands for
    `numpy.random.default_rng(SeedSequence(entropy, spawn_key=...))` -/
def chainRng {γ : Type} (mk : Int → List Nat → γ) (seed nChains chainIndex : Int) : Except Err γ :=
  match chainSeed seed nChains chainIndex with
  | .error e => .error e
  | .ok s => .ok (mk s.entropy s.spawnKey)

/-! ### which generator the model steps with -/

/-- `model.reset_model(); model.set_rng(rng)`: whatever generator the model held before (`held`, `none` = no generator), after
    the unconditional `set_rng` it steps with the one `sample` derived from (seed, n_chains, chain_index) -/
def rngInEffect {γ : Type} (_held : Option γ) (handed : γ) : γ := handed

/-- REGRESSION DEFINITION (seeded change S7-C17, not the code in /repo): `if model.rng is None: model.set_rng(rng)` --
    a generator the model already holds is kept -/
def rngInEffectKeep {γ : Type} (held : Option γ) (handed : γ) : γ := held.getD handed

/-- REGRESSION DEFINITION (S7-C17): the event trace of that variant (2 reset, 3 set_rng, 0 step, 1 record) -/
def traceKeepRng (hasRng : Bool) (n b t : Nat) : List Int :=
  [2] ++ (if hasRng then [] else [3]) ++ List.replicate b (0 : Int)
    ++ (List.replicate n (List.replicate t (0 : Int) ++ [1])).flatten

/-- REGRESSION DEFINITION (seeded change S5-C17, not the code in /repo): `if not seed: seed = None` at the top of `sample` --
    seed 0 is falsy, `SeedSequence(None)` draws fresh entropy `osEntropy` from the operating system -/
def chainSeedFalsy (osEntropy seed nChains chainIndex : Int) : Except Err SeedSeq :=
  if seed = 0 then chainSeed osEntropy nChains chainIndex else chainSeed seed nChains chainIndex

/-! ### VI branch -/

inductive VIEvent where
  | reset
  | setRng (entropy : Int) (spawnKey : List Nat)
  | sampleCall (numSamples : Int)
  | addTheta (i : Nat)
deriving Repr, DecidableEq

/-- The VI branch.  `returned` is the length of the list the model's `sample` returns (the code
    iterates over whatever comes back).  Result: the events in order and the exception, if any.
    `default_rng(seed)` raises for a negative seed (after `reset_model` already ran); the holder's
    `add_theta` raises `ValueError` once it holds `n_thetas` elements. -/
def viRun (seed nThetas : Int) (returned : Nat) : List VIEvent × Option Err :=
  if seed < 0 then ([.reset], some .valueError)
  else
    let pre := [VIEvent.reset, .setRng seed [], .sampleCall nThetas]
    let room := nThetas.toNat
    if returned ≤ room then (pre ++ (List.range returned).map .addTheta, none)
    else (pre ++ (List.range room).map .addTheta, some .valueError)

/-! ### reading an MCMC event trace (codes of `Generated/Sampling`: 2 reset, 3 set_rng, 0 step, 1 record) -/

/-- scan a trace: `cnt` = steps seen so far; emits `cnt` at every record event -/
def recordPositionsFrom : Nat → List Int → List Nat
  | _, [] => []
  | cnt, e :: es =>
    if e = 0 then recordPositionsFrom (cnt + 1) es
    else if e = 1 then cnt :: recordPositionsFrom cnt es
    else recordPositionsFrom cnt es

/-- number of model steps that precede each `record` event of a trace -/
def recordPositions (tr : List Int) : List Nat := recordPositionsFrom 0 tr

end Batchie.Sampling
