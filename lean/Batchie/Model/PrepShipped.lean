/-
  The shipped retrospective generators / smoothers as two enumerations, each constructor carrying the operation's
  parameters *and* its choice log, with `run` = the model of `_generate_plates` / `_smooth_plates` and
  `wrapped` = the model of the public `generate_plates` / `smooth_plates`.  (C11 / C13 theorems quantify over these.)
-/
import Batchie.Model.Prep

namespace Batchie.Prep
open Batchie.Proto Batchie.Screen

inductive Generator where
  /-- `PlatePermutationPlateGenerator(force_include_plate_names)`; log: the permuted plate-name array -/
  | permutation (force : List Name) (perm : List Name)
  /-- `SampleSegregatingPermutationPlateGenerator(max_plate_size)`; log: one index permutation per sample -/
  | segregating (maxSize : Int) (perms : List (List Nat))
  /-- `PairwisePlateGenerator(subset_size, anchor_size)`; log: anchor ids, id permutations, single-agent plate assignments -/
  | pairwise (subsetSize anchorSize : Int) (anchor : List Int) (perms : List (List Int)) (assign : List (List Name))

def Generator.run : Generator → Screen → Except Err Screen
  | .permutation force perm => genPermutation force perm
  | .segregating mx perms => genSegregating mx perms
  | .pairwise sub anc anchor perms assign => genPairwise sub anc anchor perms assign

def Generator.wrapped (g : Generator) : Screen → Except Err Screen := wrap g.run

inductive Smoother where
  /-- `MergeMinPlateSmoother(min_size)`; log: identities of the plates `heappop` returned -/
  | mergeMin (minSize : Int) (pops : List Nat)
  /-- `MergeTopBottomPlateSmoother(n_iterations)` -/
  | mergeTopBottom (nIter : Int)
  /-- `FixedSizeSmoother(plate_size)`; log: one index choice per oversize plate -/
  | fixedSize (k : Int) (choices : List (List Nat))
  /-- `OptimalSizeSmoother()`; log: one index choice per oversize plate -/
  | optimalSize (choices : List (List Nat))
  /-- `NPlatePerCellLineSmoother(min_n_cell_line_plates)` -/
  | nPlate (minN : Int)
  /-- `BatchieEnsemblePlateSmoother(min_size, n_iterations, min_n_cell_line_plates)` -/
  | ensemble (minSize nIter minN : Int) (pops : List Nat) (choices : List (List Nat))

def Smoother.run : Smoother → Screen → Except Err Screen
  | .mergeMin k pops => Prep.mergeMin k pops
  | .mergeTopBottom n => Prep.mergeTopBottom n
  | .fixedSize k choices => Prep.fixedSize k choices
  | .optimalSize choices => optimalSizeSmoother choices
  | .nPlate k => Prep.nPlate k
  | .ensemble a b c pops choices => Prep.ensemble a b c pops choices

def Smoother.wrapped (sm : Smoother) : Screen → Except Err Screen := wrap sm.run

end Batchie.Prep
