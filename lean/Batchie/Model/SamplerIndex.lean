/-
  The per-unit index tables of the wrapped Gibbs samplers (`LegacySparseDrugComboImpl._update`,
  `models/sparse_combo.py:174-182`, same in `sparse_combo_interaction.py`): besides the row lists `y / cline / dd1 / dd2` the
  sampler files the NUMBER of every new row under its sample in `cline_idxs` and under its treatments in `dd1_idxs` / `dd2_idxs`.
  The Gibbs blocks visit exactly the rows listed there, so "trained on every observed experiment exactly once" needs these
  tables to partition `0 … n_obs-1` consistently with the rows — after ANY sequence of `add_observations` calls (instalments).
  Import-free, executable.  `updateManyRestart` is a REGRESSION definition (seeded change S5-C04), not code that is in /repo.
-/
namespace Batchie.SamplerIndex

/-- a `defaultdict(list)` keyed by unit id, in insertion order of the keys -/
abbrev Table := List (Int × List Nat)

def Table.get (t : Table) (k : Int) : List Nat := (t.lookup k).getD []

/-- `table[k].append(n)` -/
def Table.add : Table → Int → Nat → Table
  | [], k, n => [(k, [n])]
  | (k', l) :: rest, k, n => if k' == k then (k', l ++ [n]) :: rest else (k', l) :: Table.add rest k n

/-- one recorded experiment: `(cl, dd1, dd2)` (the value `y` plays no role for the tables) -/
structure Row where
  cl : Int
  dd1 : Int
  dd2 : Int
deriving Repr, DecidableEq

structure Sampler where
  rows : List Row
  clineIdx : Table
  dd1Idx : Table
  dd2Idx : Table
deriving Repr, DecidableEq

def Sampler.empty : Sampler := { rows := [], clineIdx := [], dd1Idx := [], dd2Idx := [] }

/-- `_update(y, cl, dd1, dd2)`: `n = self.n_obs()`, append the row, file `n` under its three keys -/
def Sampler.update (st : Sampler) (r : Row) : Sampler :=
  let n := st.rows.length
  { rows := st.rows ++ [r], clineIdx := st.clineIdx.add r.cl n, dd1Idx := st.dd1Idx.add r.dd1 n, dd2Idx := st.dd2Idx.add r.dd2 n }

/-- one `add_observations` call: `_update` per row, in order -/
def Sampler.updateMany (st : Sampler) (rows : List Row) : Sampler := rows.foldl Sampler.update st

/-- a history of `add_observations` calls (instalments) on a fresh sampler -/
def instalments (blocks : List (List Row)) : Sampler := blocks.foldl Sampler.updateMany Sampler.empty

/-- REGRESSION (S5-C04): the "vectorised" bulk helper that numbers the rows of a call from 0 instead of from `n_obs()` -/
def Sampler.updateManyRestart (st : Sampler) (rows : List Row) : Sampler :=
  { rows := st.rows ++ rows,
    clineIdx := rows.zipIdx.foldl (fun t e => t.add e.1.cl e.2) st.clineIdx,
    dd1Idx := rows.zipIdx.foldl (fun t e => t.add e.1.dd1 e.2) st.dd1Idx,
    dd2Idx := rows.zipIdx.foldl (fun t e => t.add e.1.dd2 e.2) st.dd2Idx }

def instalmentsRestart (blocks : List (List Row)) : Sampler := blocks.foldl Sampler.updateManyRestart Sampler.empty

/-- the specification: the numbers of the rows whose key is `k`, increasing -/
def indicesOf (key : Row → Int) (rows : List Row) (k : Int) : List Nat :=
  (List.range rows.length).filter (fun i => (rows[i]?.map key) == some k)

end Batchie.SamplerIndex
