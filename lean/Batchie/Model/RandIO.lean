/-
  Driver handler for C18 (import-free): the expected (source, kind) trace of a modelled operation.

    c18.trace <op> [key=value]*   ->  <src>.<kind>,<src>.<kind>,...   (`-` when empty)
    c18.excluded <op>             ->  0 | 1
    c18.ops                       ->  all operation names
    c18.calls <held id | -> <gen ids>  ->  the generator id the draws of each successive
                                      `sampling.sample` call on one model object come from

  keys: n k extra anchors unobs model(combo|inter) clines dds (0/1 strings, `-` empty) dims fake
        local mult hasobs steps scorer(random|dbal|size) init gen(none|pairwise|platePermutation|
        sampleSegregating) genN genK smoother(none|mergeMin|mergeTopBottom|fixedSize|optimalSize|
        nPlatePerCellLine|ensemble) smoothN smoothUnobs holdN
  `extra=e` sets the cover's loop decision to "fewer than n+e values drawn so far".
-/
import Batchie.Model.Proto
import Batchie.Model.Rand

namespace Batchie.RandIO
open Batchie.Proto
open Batchie.Rand

def showSrc : Src → String
  | .supplied => "G" | .global => "GLOBAL" | .fresh => "FRESH"

def showKind : Kind → String
  | .choice => "choice" | .permutation => "permutation" | .random => "random" | .normal => "normal"
  | .gamma => "gamma" | .newgen => "newgen" | .torch => "torch" | .integers => "integers"

def showTrace (es : List Event) : String :=
  if es.isEmpty then "-" else ",".intercalate (es.map (fun e => s!"{showSrc e.src}.{showKind e.kind}"))

def opNames : List (String × Op) :=
  [("sparseCover", .sparseCover), ("generatePlates", .generatePlates), ("smoothPlates", .smoothPlates),
   ("randomHoldout", .randomHoldout), ("plateBalancedHoldout", .plateBalancedHoldout), ("scorer", .scorer),
   ("kPerSamplePolicy", .kPerSamplePolicy), ("selectNextPlate", .selectNextPlate),
   ("selectNextPlateNoRng", .selectNextPlateNoRng), ("scoreChunk", .scoreChunk),
   ("scoreChunkNoRng", .scoreChunkNoRng), ("sampleMvn", .sampleMvn), ("sampleMvnNoRng", .sampleMvnNoRng),
   ("gibbsSweep", .gibbsSweep), ("gibbsSweepNoRng", .gibbsSweepNoRng), ("sampleMCMC", .sampleMCMC),
   ("sampleVI", .sampleVI), ("cliPrepareRetrospective", .cliPrepareRetrospective),
   ("cliCalculateScores", .cliCalculateScores), ("cliSelectNextPlate", .cliSelectNextPlate),
   ("cliTrainModel", .cliTrainModel), ("cliTrainModelVI", .cliTrainModelVI),
   ("cliEvaluateModel", .cliEvaluateModel), ("cliAnalyzeModelEvaluation", .cliAnalyzeModelEvaluation)]

def parseBits? (s : String) : Option (List Bool) :=
  if s == "-" then some [] else s.toList.mapM (fun c => if c == '1' then some true else if c == '0' then some false else none)

def parseGen? : String → Option GenKind
  | "none" => some .none | "pairwise" => some .pairwise | "platePermutation" => some .platePermutation
  | "sampleSegregating" => some .sampleSegregating | _ => none

def parseSmoother? : String → Option SmootherKind
  | "none" => some .none | "mergeMin" => some .mergeMin | "mergeTopBottom" => some .mergeTopBottom
  | "fixedSize" => some .fixedSize | "optimalSize" => some .optimalSize
  | "nPlatePerCellLine" => some .nPlatePerCellLine | "ensemble" => some .ensemble | _ => none

def parseScorer? : String → Option ScorerKind
  | "random" => some .random | "dbal" => some .dbal | "size" => some .size | _ => none

def setKey (a : Args) (key val : String) : Option Args :=
  match key with
  | "n" => (parseNat? val).map (fun v => { a with n := v })
  | "k" => (parseNat? val).map (fun v => { a with k := v })
  | "extra" => (parseNat? val).map (fun v => { a with k := max a.k v, more := fun vs => decide (vs.length < a.n + v) })
  | "anchors" => (parseBool? val).map (fun v => { a with anchors := v })
  | "unobs" => (parseBool? val).map (fun v => { a with hasUnobserved := v })
  | "model" => if val == "combo" then some { a with model := .combo } else if val == "inter" then some { a with model := .inter } else none
  | "clines" => (parseBits? val).map (fun v => { a with cfg := { a.cfg with clines := v } })
  | "dds" => (parseBits? val).map (fun v => { a with cfg := { a.cfg with dds := v } })
  | "dims" => (parseNat? val).map (fun v => { a with cfg := { a.cfg with dims := v } })
  | "fake" => (parseBool? val).map (fun v => { a with cfg := { a.cfg with fakeIntercept := v } })
  | "local" => (parseBool? val).map (fun v => { a with cfg := { a.cfg with localShrinkage := v } })
  | "mult" => (parseBool? val).map (fun v => { a with cfg := { a.cfg with multGamma := v } })
  | "hasobs" => (parseBool? val).map (fun v => { a with cfg := { a.cfg with hasObs := v } })
  | "steps" => (parseNat? val).map (fun v => { a with steps := v })
  | "scorer" => (parseScorer? val).map (fun v => { a with scorer := v })
  | "init" => (parseBool? val).map (fun v => { a with initCover := v })
  | "gen" => (parseGen? val).map (fun v => { a with gen := v })
  | "genN" => (parseNat? val).map (fun v => { a with genN := v })
  | "genK" => (parseNat? val).map (fun v => { a with genK := v })
  | "smoother" => (parseSmoother? val).map (fun v => { a with smoother := v })
  | "smoothN" => (parseNat? val).map (fun v => { a with smoothN := v })
  | "smoothUnobs" => (parseBool? val).map (fun v => { a with smoothUnobserved := v })
  | "holdN" => (parseNat? val).map (fun v => { a with holdN := v })
  | _ => none

def parseArgs? (toks : List String) : Option Args :=
  toks.foldlM (fun a t => match t.splitOn "=" with
    | [k, v] => setKey a k v
    | _ => none) ({} : Args)

def handle : List String → Option String
  | "c18.trace" :: op :: kvs => do
    let op ← opNames.lookup op
    let a ← parseArgs? kvs
    some (showTrace (trace op a))
  | ["c18.excluded", op] => do
    let op ← opNames.lookup op
    some (showBool op.excluded)
  | ["c18.calls", held, gens] => do
    let held ← if held == "-" then some none else (parseNat? held).map some
    let gens ← parseNatList? gens
    some (showNatList ((sampleCalls held gens).map (fun o => o.getD 0)))
  | ["c18.ops"] => some (" ".intercalate (opNames.map (·.1)))
  | _ => none

end Batchie.RandIO
