/-
  C15 / C05 -- model of the CALL SITE of the unranking function inside
  `dbal_fast_gauss_scoring_vectorized` (scoring/gaussian_dbal.py:205-218):

      n_theta_combinations = comb(n_thetas, 3, exact=True)
      if not n_theta_combinations: raise ValueError(...)
      n_combos = min(n_theta_combinations, max_combos)
      unpacked_indices = rng.choice(n_theta_combinations, size=n_combos, replace=False)
      idx1, idx2, idx3 = zip(*[get_combination_at_sorted_index(ind, n_thetas, 3) for ind in unpacked_indices])

  Import-free and executable.  The list returned by `rng.choice` is an ARGUMENT (`choice`); what
  numpy promises about it (`ChoiceContract`: `size` pairwise distinct elements of `range(pop)`) is
  a hypothesis of the theorems (`Lemmas/UnrankCallsite.lean`, `Props/C15.lean`) and is re-observed
  by the harness on every recorded draw.  The unranking itself is the translator-generated
  `Batchie.Gen.Unrank.run`; the triples are `Batchie.Dbal.Triple`s, i.e. exactly the objects the
  C05 model (`Model/Dbal.lean`) takes as its `triples` argument.

  Driver op
    unrank.callsite <n_thetas> <max_combos> <i,i,i,...>
        -> `<population>|<size>|a,b,c;a,b,c;...`   what the code passes to `rng.choice` and the
                                                   triples `zip(idx1, idx2, idx3)` it then uses
         | `err:ValueError`                         (< 3 thetas).  `max_combos = 0` is outside the model
                                                    (the present code fails to unpack `zip(*[])`)
         | `err:ZeroDivisionError` / `oof`          (never under the contract: `C15_no_error`)
-/
import Batchie.Model.Proto
import Batchie.Model.Dbal
import Batchie.Generated.Unrank

namespace Batchie.UnrankCallsite

open Batchie.Proto

/-- `scipy.special.comb(n, 3, exact=True)` -/
def comb3 (n : Nat) : Nat := n * (n - 1) * (n - 2) / 6

/-- `n_combos = min(n_theta_combinations, max_combos)` -/
def nCombos (n maxCombos : Nat) : Nat := min (comb3 n) maxCombos

/-- one row of `zip(idx1, idx2, idx3)`: the tuple yielded by the generator, as a `Dbal.Triple` -/
def toTriple : List Int → Batchie.Dbal.Triple
  | [a, b, c] => (a.toNat, b.toNat, c.toNat)
  | _ => (0, 0, 0)

/-- the triples the kernel indexes its arrays with, in the order of the drawn indices -/
def triplesOf (n : Nat) (choice : List Nat) : List Batchie.Dbal.Triple :=
  choice.map (fun (i : Nat) => toTriple (Batchie.Gen.Unrank.run (i : Int) (n : Int) 3).out)

/-- numpy's contract for `rng.choice(pop, size=size, replace=False)` -/
def ChoiceContract (pop size : Nat) (choice : List Nat) : Prop :=
  choice.Nodup ∧ (∀ i ∈ choice, i < pop) ∧ choice.length = size

instance (pop size : Nat) (choice : List Nat) : Decidable (ChoiceContract pop size choice) := by
  unfold ChoiceContract; exact inferInstance

def showTriples (ts : List Batchie.Dbal.Triple) : String :=
  if ts.isEmpty then "-" else ";".intercalate (ts.map (fun t => s!"{t.1},{t.2.1},{t.2.2}"))

def handle : List String → Option String
  | ["unrank.callsite", n, mc, choice] => do
      let n ← parseNat? n; let mc ← parseNat? mc; let choice ← parseNatList? choice
      if comb3 n == 0 then pure (showErr Err.valueError)
      else
        let sts := choice.map (fun (i : Nat) => Batchie.Gen.Unrank.run (i : Int) (n : Int) 3)
        if sts.any (·.err) then pure (showErr Err.zeroDivision)
        else if sts.any (·.oof) then pure "oof"
        else pure s!"{comb3 n}|{nCombos n mc}|{showTriples (triplesOf n choice)}"
  | _ => none

end Batchie.UnrankCallsite
