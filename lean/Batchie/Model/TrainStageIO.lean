/-
  Driver operations of the training stage (C03):

  trainrows <raw>       the rows `train_model.main()` hands the model for the constructed screen, joined by `;`
                        (`-` when nothing is handed over); one row: `<sname>|<tnames>|<tdoses>|<obs>|<sid>|<tids>`
  trainrowsmat <raw>    the same through `to_screen()` (regression definition of S7-C03)
-/
import Batchie.Model.ScreenIO
import Batchie.Model.TrainStage

namespace Batchie.TrainStageIO
open Batchie.Proto Batchie.Screen Batchie.ScreenIO Batchie.TrainStage

def showRow (r : TrainRow) : String :=
  showName r.sname ++ "|" ++ showList showName "," r.tnames ++ "|" ++ showList showDose "," r.tdoses ++ "|" ++ toString r.obs
    ++ "|" ++ toString r.sid ++ "|" ++ showIds r.tids

def showRows (rs : List TrainRow) : String := "ok " ++ showList showRow ";" rs

def handle : List String → Option String
  | "trainrows" :: rest => do
      let r ← parseRaw? rest
      match mk? r with
      | .error e => pure ("parent-" ++ showErr e)
      | .ok s => pure (showRows (trainRows s))
  | "trainrowsmat" :: rest => do
      let r ← parseRaw? rest
      match mk? r with
      | .error e => pure ("parent-" ++ showErr e)
      | .ok s => match trainRowsMaterialised s with
        | .error e => pure (showErr e)
        | .ok rs => pure (showRows rs)
  | _ => none

end Batchie.TrainStageIO
