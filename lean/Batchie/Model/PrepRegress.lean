/-
  Regression definitions for C11 / C13: models of seeded changes (code that is NOT in /repo), kept next to the faithful model
  `Model/Prep.lean` so that `Props/C11.lean` / `Props/C13.lean` can refute the property on a concrete witness for each of them.
  Import-free (only other model files) and executable.
-/
import Batchie.Model.Prep

namespace Batchie.Prep
open Batchie.Proto Batchie.Screen

/-! ### S7-C13: the combination filter made dose-blind (membership by treatment NAME instead of by (name, dose) id) -/

/-- a row is kept when every slot is the control or its treatment *name* occurs in some full-combination row -/
def comboFilterSelByName (tnames : List (List Name)) (tids : List (List Int)) : List Bool :=
  let names := (maskFilter tnames (tids.map comboRow)).flatten
  (tnames.zip tids).map (fun p => (p.1.zip p.2).all (fun c => c.2 == -1 || names.contains c.1))

def comboFilterByName (s : Screen) : Except Err Screen :=
  if s.arity < 2 then .error .valueError else select s (comboFilterSelByName s.tnames s.tids)

/-! ### S6-C13: optimal size searched over the DISTINCT sizes with the retained-plate count taken from the position among them -/

def insertNat (a : Nat) : List Nat → List Nat
  | [] => [a]
  | b :: l => if a ≤ b then a :: b :: l else b :: insertNat a l

def insSortNat : List Nat → List Nat
  | [] => []
  | a :: l => insertNat a (insSortNat l)

/-- `candidate_sizes = np.unique(plate_sizes)`, value of candidate `i` = `candidate * (len(plate_sizes) - i)` -/
def optimalSizeDistinct (sizes : List Nat) : Nat :=
  let cand := insSortNat sizes.eraseDups
  let vals := cand.zipIdx.map (fun p => p.1 * (sizes.length - p.2))
  cand[argmaxFirst vals]!

/-- number of experiments a common size `t` retains: `t × #{plates of size ≥ t}` (the quantity the property maximises) -/
def retainedBy (sizes : List Nat) (t : Nat) : Nat := t * (sizes.filter (fun x => decide (t ≤ x))).length

/-! ### S7-C11: `generate_plates` recombines with the observation values taken POSITIONALLY from the input -/

/-- the rows of the recombined screen when names / doses / samples / plates / masks come from the generator's output but the
    observation values are `concatenate([input.observations[~observed], input.observations[observed]])` -/
def recombinePositional (nuRows inputUnobs observed : List Row) : List Row :=
  List.zipWith (fun r o => { r with obs := o }) (nuRows ++ observed) ((inputUnobs ++ observed).map (·.obs))

/-- the faithful recombination (`new_unobserved.combine(observed.to_screen())`): values travel with their rows -/
def recombineFaithful (nuRows observed : List Row) : List Row := nuRows ++ observed

/-! ### S5-C11: random hold-out by two independent slices of one permutation (`shuffled[:n-k]`, `shuffled[-k:]`) -/

/-- python `l[-k:]`: the last `k` elements -- and the WHOLE list for `k = 0` -/
def pyLast (l : List Nat) (k : Nat) : List Nat := if k = 0 then l else l.drop (l.length - k)

def holdoutRandomSlices (kf : Nat → Nat) (perm : List Nat) (s : Screen) : Except Err (Screen × Screen) :=
  let rows := rowsOf s
  let n := rows.length
  if !(perm.isPerm (List.range n)) then .error .other
  else do
    let k := kf n
    let keepSel := selOfIdx n (perm.take (n - k))
    let holdSel := selOfIdx n (pyLast perm k)
    let keep ← mk? (rawOfRows s.ctrl s.arity (maskFilter rows keepSel) (some s.tmap) (some s.smap))
    let hold ← mk? (rawOfRows s.ctrl s.arity ((maskFilter rows holdSel).map (fun r => { r with mask := true })) (some s.tmap) (some s.smap))
    pure (keep, hold)

end Batchie.Prep
