/-
  Hand model of the structural part of `batchie.retrospective` that the simulation lifecycle
  uses (C03 / C12): `mask_screen`, `unmask_screen`, `reveal_plates`, the two hold-out splits
  (the random choice is an explicit selection vector), `Screen.set_observed`, and the plate
  counters of `cli/extract_screen_metadata.py`.

  Every operation builds its result exactly as the code does: through `Screen(...)` (= `mk?`)
  with the parent's rows, the new mask and -- since commit 141f07a -- the parent's
  `treatment_mapping` / `sample_mapping`.  The `…Old` variants are the constructors as they
  were before that commit (no mappings handed over); they are kept only for the regression
  lemma of C03.

  Import-free and executable; tied to /repo by harness/c12.py and harness/c03.py.
-/
import Batchie.Model.Screen

namespace Batchie.Retro
open Batchie.Proto Batchie.Screen

/-! ### observation values are opaque 64-bit patterns; the only predicates ever applied -/

/-- IEEE-754 binary64 NaN: exponent all ones, mantissa non-zero -/
def isNaNBits (b : Nat) : Bool := (b / 2 ^ 52) % 2 ^ 11 == 2047 && b % 2 ^ 52 != 0

/-- `x == 0` for a double: `+0.0` and `-0.0` -/
def isZeroBits (b : Nat) : Bool := b == 0 || b == 2 ^ 63

/-! ### rebuilding a screen from its own rows -/

/-- `Screen(treatment_names=screen.treatment_names, ..., observations=screen.observations,
    observation_mask=<mask>, treatment_mapping=screen.treatment_mapping, sample_mapping=screen.sample_mapping)` -/
def rebuild (s : Screen) (mask : List Bool) : Except Err Screen :=
  mk? { ctrl := s.ctrl, arity := s.arity, tnames := s.tnames, tdoses := s.tdoses, snames := s.snames,
        pnames := s.pnames, obs := some s.obs, mask := some mask, tmap := some s.tmap, smap := some s.smap }

/-- the same call before commit 141f07a: the mappings are not handed over -/
def rebuildOld (s : Screen) (mask : List Bool) : Except Err Screen :=
  mk? { ctrl := s.ctrl, arity := s.arity, tnames := s.tnames, tdoses := s.tdoses, snames := s.snames,
        pnames := s.pnames, obs := some s.obs, mask := some mask, tmap := none, smap := none }

/-- `mask_screen` -/
def maskScreen (s : Screen) : Except Err Screen := rebuild s (List.replicate s.size false)

/-- `unmask_screen` -/
def unmaskScreen (s : Screen) : Except Err Screen := rebuild s (List.replicate s.size true)

/-- `np.isin(screen.plate_ids, plate_ids)` -/
def revealMask (s : Screen) (ids : List Int) : List Bool := s.pids.map (fun p => ids.contains p)

/-- the two guards of `reveal_plates`: all revealed values `== 0` (true for an empty selection), or any NaN -/
def revealRefused (s : Screen) (ids : List Int) : Bool :=
  let vals := maskFilter s.obs (revealMask s ids)
  vals.all isZeroBits || vals.any isNaNBits

/-- `reveal_plates(screen, plate_ids)` -/
def revealPlates (s : Screen) (ids : List Int) : Except Err Screen :=
  if revealRefused s ids then .error .valueError
  else rebuild s (List.zipWith (· || ·) s.mask (revealMask s ids))

def maskScreenOld (s : Screen) : Except Err Screen := rebuildOld s (List.replicate s.size false)
def unmaskScreenOld (s : Screen) : Except Err Screen := rebuildOld s (List.replicate s.size true)
def revealPlatesOld (s : Screen) (ids : List Int) : Except Err Screen :=
  if revealRefused s ids then .error .valueError
  else rebuildOld s (List.zipWith (· || ·) s.mask (revealMask s ids))

/-! ### hold-out split, the random choice being the argument `sel` (true = held out) -/

/-- `Screen(rows[~sel], observations[~sel], observation_mask[~sel], mappings of the parent)` -/
def holdoutKeep (s : Screen) (sel : List Bool) : Except Err Screen :=
  let keep := sel.map (!·)
  mk? { ctrl := s.ctrl, arity := s.arity, tnames := maskFilter s.tnames keep, tdoses := maskFilter s.tdoses keep,
        snames := maskFilter s.snames keep, pnames := maskFilter s.pnames keep,
        obs := some (maskFilter s.obs keep), mask := some (maskFilter s.mask keep),
        tmap := some s.tmap, smap := some s.smap }

/-- `Screen(rows[sel], observations[sel], observation_mask=np.ones(count_nonzero(sel)), mappings of the parent)` -/
def holdoutTest (s : Screen) (sel : List Bool) : Except Err Screen :=
  mk? { ctrl := s.ctrl, arity := s.arity, tnames := maskFilter s.tnames sel, tdoses := maskFilter s.tdoses sel,
        snames := maskFilter s.snames sel, pnames := maskFilter s.pnames sel,
        obs := some (maskFilter s.obs sel), mask := some (List.replicate (sel.count true) true),
        tmap := some s.tmap, smap := some s.smap }

/-- both hold-out functions return `(keep_screen, holdout_screen)`, built in this order.
    `sel` is a boolean vector of the screen's size (the code builds it with `np.zeros(screen.size)`). -/
def holdout (s : Screen) (sel : List Bool) : Except Err (Screen × Screen) := do
  if sel.length != s.size then throw .indexError
  let k ← holdoutKeep s sel
  let t ← holdoutTest s sel
  pure (k, t)

/-- the hold-out's training half with `sample_mapping=` removed (a mutant, used by the regression lemma) -/
def holdoutKeepNoSMap (s : Screen) (sel : List Bool) : Except Err Screen :=
  let keep := sel.map (!·)
  mk? { ctrl := s.ctrl, arity := s.arity, tnames := maskFilter s.tnames keep, tdoses := maskFilter s.tdoses keep,
        snames := maskFilter s.snames keep, pnames := maskFilter s.pnames keep,
        obs := some (maskFilter s.obs keep), mask := some (maskFilter s.mask keep),
        tmap := some s.tmap, smap := none }

/-! ### `Screen.set_observed` (in-place; no validation of plate uniformity) -/

/-- `arr[sel] = vals` where `vals` has exactly as many entries as `sel` has `True`s -/
def assignMasked {α : Type} : List α → List Bool → List α → List α
  | _ :: as, true :: ms, v :: vs => v :: assignMasked as ms vs
  | a :: as, true :: ms, [] => a :: assignMasked as ms []
  | a :: as, false :: ms, vs => a :: assignMasked as ms vs
  | as, [], _ => as
  | [], _, _ => []

/-- `self._observations[sel] = observations; self._observation_mask[sel] = True`
    numpy: a boolean index of the wrong length is an `IndexError` -- except the zero-length one, which numpy
    accepts and treats as "select nothing"; a value array that neither has one entry per selected row nor
    exactly one entry (broadcast) is a `ValueError`. -/
def setObserved (s : Screen) (sel : List Bool) (vals : List Nat) : Except Err Screen :=
  if sel.length != s.size && !sel.isEmpty then .error .indexError
  else
    let k := sel.count true
    let vals? : Option (List Nat) :=
      if vals.length == k then some vals
      else if vals.length == 1 then some (List.replicate k vals.head!)
      else none
    match vals? with
    | none => .error .valueError
    | some vs => .ok { s with obs := assignMasked s.obs sel vs,
                              mask := if sel.isEmpty then s.mask else List.zipWith (· || ·) s.mask sel }

/-! ### plate counters of `extract_screen_metadata` -/

/-- `plate.is_observed` = `np.all(screen.observation_mask[screen.plate_ids == plate_id])` -/
def plateObserved (s : Screen) (p : Int) : Bool := (maskFilter s.mask (s.pids.map (· == p))).all id

/-- the loop `for plate in experiment.plates: if plate.is_observed: ... else: n_unobserved_plates += 1` -/
def nUnobservedPlates (s : Screen) : Nat := s.uniquePlateIds.countP (fun p => !plateObserved s p)

def nObservedPlates (s : Screen) : Nat := s.uniquePlateIds.countP (fun p => plateObserved s p)

def nPlates (s : Screen) : Nat := s.uniquePlateIds.length

/-! ### `Screen.combine` / `Screen.concat` (a fresh `Screen(...)` on the concatenated rows, no mappings) -/

/-- `Screen.combine(self, other)`: control names must agree (`ValueError`), `np.concatenate` of the two
    `(n, arity)` tables needs equal arity (`ValueError`), then `Screen(...)` on the concatenated rows,
    observations and masks -- so the constructor's per-plate check runs on the union. -/
def combine (a b : Screen) : Except Err Screen :=
  if a.ctrl != b.ctrl then .error .valueError
  else if a.arity != b.arity then .error .valueError
  else mk? { ctrl := a.ctrl, arity := a.arity, tnames := a.tnames ++ b.tnames, tdoses := a.tdoses ++ b.tdoses,
             snames := a.snames ++ b.snames, pnames := a.pnames ++ b.pnames, obs := some (a.obs ++ b.obs),
             mask := some (a.mask ++ b.mask), tmap := none, smap := none }

/-- `Screen.concat(screens)`: empty list `ValueError`, one screen is returned as it is, otherwise a left fold
    of `combine` -/
def concat : List Screen → Except Err Screen
  | [] => .error .valueError
  | s :: rest => rest.foldlM combine s

/-! ### operation histories -/

/-- one step of the simulation lifecycle on a single screen -/
inductive Op where
  | mask | unmask
  | reveal (ids : List Int)
  | saveLoad
  | holdKeep (sel : List Bool)     -- continue with the training half of a hold-out split
  | holdTest (sel : List Bool)     -- continue with the held-out half
deriving Repr

def step : Op → Screen → Except Err Screen
  | .mask, s => maskScreen s
  | .unmask, s => unmaskScreen s
  | .reveal ids, s => revealPlates s ids
  | .saveLoad, s => load s.save
  | .holdKeep sel, s => (holdout s sel).map (·.1)
  | .holdTest sel, s => (holdout s sel).map (·.2)

/-- the same lifecycle with the constructors as they were before commit 141f07a -/
def stepOld : Op → Screen → Except Err Screen
  | .mask, s => maskScreenOld s
  | .unmask, s => unmaskScreenOld s
  | .reveal ids, s => revealPlatesOld s ids
  | .saveLoad, s => load s.save
  | .holdKeep sel, s => (holdout s sel).map (·.1)
  | .holdTest sel, s => (holdout s sel).map (·.2)

/-- run a history; the trace lists the screen after every step (a failing step ends the run) -/
def run (st : Op → Screen → Except Err Screen) : List Op → Screen → Except Err (List Screen)
  | [], _ => .ok []
  | op :: ops, s => do
    let t ← st op s
    let rest ← run st ops t
    pure (t :: rest)

end Batchie.Retro
