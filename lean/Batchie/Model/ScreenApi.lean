/-
  Hand model of the parts of `batchie.data` around the screen that are not in `Model/Screen.lean`:

  * the `ExperimentSpace` query API (`n_unique_treatment_types`, `n_unique_doses`, `doses_for_treatment`,
    `treatment_ids_from_treatment_name`, `sample_id_from_sample_name`, `sample_name_from_sample_id`, with the
    `ValueError` of `.item()` on 0 or ≥ 2 matches),
  * the derived properties of `ScreenBase` (on a screen, and on a view = on the parent's selected rows),
  * `Screen.combine` / `Screen.concat`,
  * which observations `create_single_treatment_effect_array` averages for every cell, and when it fails with
    `KeyError` (`single_treatment_effects` is then `None`).

  Import-free apart from `Model/Screen.lean`, executable; run against the real code by `driver_c01` / `driver_c14`.
-/
import Batchie.Model.Screen

namespace Batchie.ScreenApi
open Batchie.Proto Batchie.Screen

/-! ### numpy idioms -/

/-- `np.sort(np.unique(ints))` -/
def sortedUniqueInts (l : List Int) : List Int := (l.eraseDups).mergeSort (fun a b => decide (a ≤ b))

def doseLe (a b : Dose) : Bool := decide (a ≤ b)

/-- `np.sort(np.unique(doses))` -/
def sortedUniqueDoses (l : List Dose) : List Dose := (l.eraseDups).mergeSort doseLe

/-- `arr.item()`: defined for exactly one element, `ValueError` otherwise -/
def item? {α : Type} : List α → Except Err α
  | [x] => .ok x
  | _ => .error .valueError

/-! ### `ExperimentSpace` -/

structure Space where
  tmap : TMap
  smap : SMap
  ctrl : Name
deriving Repr

/-- `ExperimentSpace.from_screen` -/
def Space.ofScreen (s : Screen) : Space := { tmap := s.tmap, smap := s.smap, ctrl := s.ctrl }

/-- `n_unique_treatment_types`: `np.unique(np.setdiff1d(names, [control])).size` -/
def Space.nUniqueTreatmentTypes (sp : Space) : Nat := (((sp.tmap.map (·.1)).eraseDups).filter (· != sp.ctrl)).length

/-- `n_unique_doses`: `np.unique(np.setdiff1d(doses, [0.0])).size` (negative doses count; `-0.0 == 0.0`) -/
def Space.nUniqueDoses (sp : Space) : Nat := (((sp.tmap.map (·.2.1)).eraseDups).filter (· != 0)).length

/-- rows of the treatment mapping with the given name: `mapping[k][mapping[0] == name]` -/
def Space.rowsOfName (sp : Space) (n : Name) : TMap := sp.tmap.filter (fun e => e.1 == n)

/-- `doses_for_treatment(name)`: `np.sort(np.unique(np.setdiff1d(doses[selection], [0.0])))` -/
def Space.dosesForTreatment (sp : Space) (n : Name) : List Dose :=
  sortedUniqueDoses (((sp.rowsOfName n).map (·.2.1)).filter (· != 0))

/-- `treatment_ids_from_treatment_name(name)`: `np.sort(np.unique(ids[selection]))` (the control sentinel included) -/
def Space.treatmentIdsFromName (sp : Space) (n : Name) : List Int := sortedUniqueInts ((sp.rowsOfName n).map (·.2.2))

/-- `sample_id_from_sample_name(name)`: `ids[names == name].item()` -/
def Space.sampleIdFromName (sp : Space) (n : Name) : Except Err Int := item? (sLookup sp.smap n)

/-- `sample_name_from_sample_id(id)`: `names[ids == id].item()` -/
def Space.sampleNameFromId (sp : Space) (i : Int) : Except Err Name := item? ((sp.smap.filter (fun e => e.2 == i)).map (·.1))

/-! ### derived properties of `ScreenBase` -/

structure Derived where
  size : Nat
  arity : Nat
  nPlates : Nat
  uniquePlateIds : List Int
  uniqueSampleIds : List Int
  uniqueTreatments : List Int
  nUniqueSamples : Nat
  nUniqueTreatments : Nat
  isObserved : Bool
  sampleSpaceSize : Nat
  treatmentSpaceSize : Nat
deriving Repr, BEq, DecidableEq

/-- the properties as `ScreenBase` computes them from `plate_ids`, `sample_ids`, `treatment_ids`, `observation_mask` and the
    mappings; `arity` is `treatment_ids.shape[1]` -/
def derivedOf (arity : Nat) (tmap : TMap) (smap : SMap) (pids sids : List Int) (tids : List (List Int)) (mask : List Bool) : Derived :=
  let up := sortedUniqueInts pids
  let us := sortedUniqueInts sids
  let ut := (sortedUniqueInts tids.flatten).filter (· != -1)          -- np.setdiff1d(np.unique(ids), [-1])
  { size := tids.length, arity := arity, nPlates := up.length, uniquePlateIds := up, uniqueSampleIds := us, uniqueTreatments := ut,
    nUniqueSamples := us.length, nUniqueTreatments := ut.length, isObserved := mask.all id,
    sampleSpaceSize := smap.length, treatmentSpaceSize := tmap.length }

/-- on a `Screen` -/
def screenDerived (s : Screen) : Derived := derivedOf s.arity s.tmap s.smap s.pids s.sids s.tids s.mask

/-- on a `ScreenSubset` / `Plate` with selection vector `sel`: every array is the parent's indexed by `sel`, the mappings are the parent's -/
def viewDerived (s : Screen) (sel : List Bool) : Derived :=
  derivedOf s.arity s.tmap s.smap (maskFilter s.pids sel) (maskFilter s.sids sel) (maskFilter s.tids sel) (maskFilter s.mask sel)

/-- `Plate.plate_id`: the single unique plate id, `ValueError` otherwise -/
def viewPlateId (s : Screen) (sel : List Bool) : Except Err Int := item? (sortedUniqueInts (maskFilter s.pids sel))

/-! ### `Screen.combine` / `Screen.concat` -/

/-- the keyword arguments `combine` hands to `Screen(...)`: rows concatenated, no mappings -/
def combineRaw (a b : Screen) : Raw :=
  { ctrl := a.ctrl, arity := a.arity, tnames := a.tnames ++ b.tnames, tdoses := a.tdoses ++ b.tdoses,
    snames := a.snames ++ b.snames, pnames := a.pnames ++ b.pnames, obs := some (a.obs ++ b.obs), mask := some (a.mask ++ b.mask),
    tmap := none, smap := none }

/-- `a.combine(b)`: different control names are refused; `np.concatenate` refuses different arities -/
def combine (a b : Screen) : Except Err Screen :=
  if a.ctrl != b.ctrl then .error .valueError
  else if a.arity != b.arity then .error .valueError
  else mk? (combineRaw a b)

def combineAll : Screen → List Screen → Except Err Screen
  | acc, [] => .ok acc
  | acc, s :: rest => (combine acc s).bind fun t => combineAll t rest

/-- `Screen.concat(screens)` -/
def concat : List Screen → Except Err Screen
  | [] => .error .valueError
  | [s] => .ok s
  | s :: rest => combineAll s rest

/-! ### `create_single_treatment_effect_array` -/

/-- a row with all but one treatment slot at the control sentinel -/
def isMono (arity : Nat) (row : List Int) : Bool := row.count (-1) == arity - 1

/-- `np.sort(row)[-1]` -/
def rowMax (row : List Int) : Int := row.foldl max (row.headD 0)

/-- indices of the monotherapy rows of sample `sid` whose single treatment is `t` -/
def monoRows (arity : Nat) (sids : List Int) (tids : List (List Int)) (sid t : Int) : List Nat :=
  ((List.range tids.length).filter (fun j => isMono arity (tids[j]!) && sids[j]! == sid && rowMax (tids[j]!) == t))

/-- For every cell: `none` for a control slot (effect `1.0`), `some idxs` for the rows whose observations are averaged.
    `.error ValueError` for arity < 2; `.ok none` when some cell has no monotherapy row (`KeyError`, the property is `None`). -/
def steSupport (arity : Nat) (sids : List Int) (tids : List (List Int)) : Except Err (Option (List (List (Option (List Nat))))) :=
  if arity < 2 then .error .valueError
  else
    let table := (List.range tids.length).map (fun i =>
      (tids[i]!).map (fun t => if t == -1 then (none : Option (List Nat)) else some (monoRows arity sids tids (sids[i]!) t)))
    if table.any (fun row => row.any (fun c => c == some [])) then .ok none else .ok (some table)

def screenSte (s : Screen) : Except Err (Option (List (List (Option (List Nat))))) := steSupport s.arity s.sids s.tids

/-- on a view the code indexes the PARENT's array: `None` iff the parent's is `None` -/
def viewSte (s : Screen) (sel : List Bool) : Except Err (Option (List (List (Option (List Nat))))) :=
  (screenSte s).map (fun o => o.map (fun table => maskFilter table sel))

end Batchie.ScreenApi
