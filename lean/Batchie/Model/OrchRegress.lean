/-
  C19 -- the directory the script NAMES as incomplete, and regression definitions for seeded changes of later rounds (code that
  is NOT in /repo; no tie).
-/
import Batchie.Model.Orchestrator

namespace Batchie.Orchestrator

/-- the directory `iter_i/plate_j` that the scan names in its "Consider deleting this directory to continue simulation: ..."
    error (the path interpolated there is the scan's `plate_dir`: see `Batchie.Gen.OrchNext.adviceVars`); `none` when the
    scan does not raise.  `planStep` / `invokeCore` remove exactly this directory (`userRemove`). -/
def namedIncomplete (B : Nat) (t : Tree) : Option (Nat × Nat) :=
  match examine B t with
  | .err e => some e.dir
  | .ok _ => none

/-- S7-C19 regression: the message interpolates `iter_dir` instead of `plate_dir` -/
def namedIncompleteIterS7 (B : Nat) (t : Tree) : Option Nat := (namedIncomplete B t).map (·.1)

/-- the user follows that advice: `rm -rf iter_i` -/
def userRemoveIter (i : Nat) (t : Tree) : Tree := { t with iters := t.iters.filter (fun it => it.idx ≠ i) }

/-! ## S6-C19 regression: `sorted(...)` without `key=dir_sort_key` (lexicographic order of the paths) -/

def decDigits (n : Nat) : List Nat := (Nat.toDigits 10 n).map Char.toNat

def lexLe : List Nat → List Nat → Bool
  | [], _ => true
  | _ :: _, [] => false
  | a :: as, b :: bs => a < b || (a == b && lexLe as bs)

def insertLex {α : Type} (key : α → Nat) (x : α) : List α → List α
  | [] => [x]
  | y :: ys => if lexLe (decDigits (key x)) (decDigits (key y)) then x :: y :: ys else y :: insertLex key x ys

def sortLex {α : Type} (key : α → Nat) (l : List α) : List α := l.foldr (insertLex key) []

def scanItersLexS6 : List IterDir → ExSt → Res ExErr ExSt
  | [], st => .ok st
  | it :: its, st =>
    let ps := sortLex PlateDir.idx it.plates
    if ps.isEmpty then scanItersLexS6 its st
    else
      match scanPlates it.idx 0 ps { st with curPlate := some 0 } with
      | .err e => .err e
      | .ok st' => scanItersLexS6 its st'

def examineLexS6 (B : Nat) (t : Tree) : Res ExErr Next :=
  match scanItersLexS6 (sortLex IterDir.idx t.iters) {} with
  | .err e => .err e
  | .ok st => .ok (nextOf B st)

/-! ## S5-C19 regression: a prospective invocation bounded by an in-process step counter

`run_next_prospective_step` returns True always; `main()` stops after `batch_size` calls of this process -- wherever in the
batch the output directory says the run is. -/

def runSchedCounterS5 (cfg : Cfg) : Nat → List (Option Nat) → Tree → List Event → InvRes
  | _, [], t, tr => ⟨t, tr, false⟩
  | n, k :: ks, t, tr =>
    let r := invoke cfg k t
    -- an exception (interruption, or the RuntimeError naming a directory) ends the process; otherwise count the step
    let died := r.events.any (fun e => match e with | .userRemoved _ _ => true | .failed _ => true | _ => false) ||
      (k.isSome && !(r.events.any (fun e => match e with | .completed _ => true | _ => false)))
    if died then ⟨r.tree, tr ++ r.events, false⟩
    else if n + 1 ≥ cfg.B then ⟨r.tree, tr ++ r.events, true⟩
    else runSchedCounterS5 cfg (n + 1) ks r.tree (tr ++ r.events)

def runProcsCounterS5 (cfg : Cfg) : List (List (Option Nat)) → Tree → List Event → Tree × List Event
  | [], t, tr => (t, tr)
  | s :: ss, t, tr =>
    let r := runSchedCounterS5 cfg 0 s t tr
    runProcsCounterS5 cfg ss r.tree r.events

end Batchie.Orchestrator
