/-
  Hand model of the Gibbs sampler of the sparse combination model
  (`/repo/src/batchie/models/sparse_combo.py`, class `LegacySparseDrugComboImpl`, DEFAULT options:
  `fake_intercept`, `individual_eff`, `mult_gamma_proc`, `local_shrinkage` all true) and of
  `/repo/src/batchie/fast_mvn.py`.  Import-free, executable, generic over the numeric type `α`
  (`Float` in the driver, `ℝ` in `Batchie.Props.C08`).

  Conventions
  * arrays are functions over `Nat` indices together with the sizes `nC` (samples / cell lines),
    `nT` (treatments, control excluded), `D` (embedding size), `N` (observations);
    treatment ids are `Int`, `-1` is the control sentinel.
  * randomness is explicit: a sweep takes a choice log `Draws α` (the value every draw returned,
    indexed by the site that consumes it) and *records* for every site the ARGUMENTS of its draw
    (`State.log`).  A block is a pair `…Args` (what the code hands to `normal` / `gamma` /
    `sample_mvn_from_precision`) and `…Next` (the successor state given the drawn value,
    including the incremental update of the fitted-value cache `Mu`).
  * `Mu[idx] += delta` with a fancy index `idx = concat(idx1, idx2)` is `Mu[idx] = Mu[idx] + delta`:
    every right-hand side is computed from the OLD `Mu`, and for a row listed twice the LAST
    write (the `idx2` one) wins.  `Blk.muNext` / `sMuNext` spell exactly that out.
  * the `try/except` around the multivariate draw: a failed Cholesky leaves the block and `Mu`
    untouched and consumes no draw; the drawn value of those sites is an `Option`.
-/
namespace Batchie.Gibbs

class HasSqrt (α : Type) where
  sqrt : α → α

instance : HasSqrt Float := ⟨Float.sqrt⟩

/-! ### generic helpers -/

/-- `Σ_{i<n} f i`, accumulated left to right -/
def sumN {α : Type} [Add α] [OfNat α 0] : Nat → (Nat → α) → α
  | 0, _ => 0
  | n + 1, f => sumN n f + f n

/-- `Π_{i<n} f i` -/
def prodN {α : Type} [Mul α] [OfNat α 1] : Nat → (Nat → α) → α
  | 0, _ => 1
  | n + 1, f => prodN n f * f n

def anyN : Nat → (Nat → Bool) → Bool
  | 0, _ => false
  | n + 1, p => anyN n p || p n

/-- `for i in range(n): s = f i s` -/
def iter {σ : Type} : Nat → (Nat → σ → σ) → σ → σ
  | 0, _, s => s
  | n + 1, f, s => f n (iter n f s)

/-- `a[i] = v` on an array seen as a function -/
def upd {β : Type} (f : Nat → β) (i : Nat) (v : β) : Nat → β := fun j => if j = i then v else f j

inductive Site where
  | alpha | W0 (c : Nat) | V0 (m : Nat) | W (c : Nat) | V2 (m : Nat) | V1 (m : Nat)
  | tau0 | phi0aux | phi0 | eta0aux | eta0 | prec
  | phi2aux | phi2 | eta2aux | eta2 | phi1aux | phi1 | eta1aux | eta1 | gam (d : Nat)
deriving DecidableEq, Repr

inductive Kind where
  | det        -- deterministic update (alpha under fake_intercept)
  | normal     -- rng.normal(mean, sd), scalars
  | normalVec  -- rng.normal(0, sd) with a vector sd (no-data branch of a vector block)
  | mvn        -- sample_mvn_from_precision(Q, mu_part=…)
  | gamma      -- rng.gamma(shape, scale)  (scale possibly an array)
deriving DecidableEq, Repr

structure Rec (α : Type) where
  site : Site
  kind : Kind
  args : List α

structure NormalArgs (α : Type) where
  mean : α
  sd : α

structure GammaArgs (α : Type) where
  shape : α
  scale : α

structure Data (α : Type) where
  nC : Nat
  nT : Nat
  D : Nat
  N : Nat
  y : Nat → α
  cline : Nat → Nat
  dd1 : Nat → Int
  dd2 : Nat → Int
  a0 : α
  b0 : α

structure State (α : Type) where
  W : Nat → Nat → α
  W0 : Nat → α
  V2 : Nat → Nat → α
  V1 : Nat → Nat → α
  V0 : Nat → α
  alpha : α
  prec : α
  tau : Nat → α
  tau0 : α
  gam : Nat → α
  phi2 : Nat → Nat → α
  phi1 : Nat → Nat → α
  phi0 : Nat → α
  eta2 : Nat → α
  eta1 : Nat → α
  eta0 : α
  Mu : Nat → α
  log : List (Rec α)

/-- the choice log of one sweep: the value returned by the draw of every site -/
structure Draws (α : Type) where
  w0 : Nat → α
  v0 : Nat → α
  w : Nat → Option (Nat → α)
  v2 : Nat → Option (Nat → α)
  v1 : Nat → Option (Nat → α)
  tau0 : α
  phi0aux : Nat → α
  phi0 : Nat → α
  eta0aux : α
  eta0 : α
  prec : α
  phi2aux : Nat → Nat → α
  phi2 : Nat → Nat → α
  eta2aux : Nat → α
  eta2 : Nat → α
  phi1aux : Nat → Nat → α
  phi1 : Nat → Nat → α
  eta1aux : Nat → α
  eta1 : Nat → α
  gam : Nat → α

/-- the exported posterior sample (`SparseDrugComboMCMCSample`) -/
structure Theta (α : Type) where
  W : Nat → Nat → α
  W0 : Nat → α
  V2 : Nat → Nat → α
  V1 : Nat → Nat → α
  V0 : Nat → α
  alpha : α
  precision : α

section
variable {α : Type} [Add α] [Mul α] [Sub α] [Neg α] [Div α] [Max α] [Min α] [HasSqrt α]
  [OfNat α 0] [OfNat α 1] [OfNat α 2] [OfNat α 3] [OfNat α 1000] [OfNat α 1000000]

def State.push (st : State α) (r : Rec α) : State α := { st with log := st.log ++ [r] }

def natTo (n : Nat) : α := sumN n (fun _ => (1 : α))
def half : α := 1 / 2
/-- `1e-3`, the stabiliser added to every gamma rate ("for stability") -/
def eps : α := 1 / 1000
/-- upper clip bound `1e6` of every precision -/
def big : α := 1000000
/-- `np.clip(x, lo, hi) = minimum(maximum(x, lo), hi)` -/
def clip (x lo hi : α) : α := min (max x lo) hi
def sqrt (x : α) : α := HasSqrt.sqrt x
/-- `C = 1.0 / np.sqrt(1 + n)` -/
def lowOf (n : α) : α := 1 / sqrt (1 + n)

def flatVec (n : Nat) (f : Nat → α) : List α := (List.range n).map f
def flatMat (n m : Nat) (f : Nat → Nat → α) : List α :=
  (List.range n).flatMap (fun i => (List.range m).map (fun j => f i j))

/-! ### `get(attr, ix)`: gather (−1 addresses the last row), copy, zero where `ix == -1`.
    The value gathered at `-1` is overwritten, so it is unobservable and not modelled. -/

def get0 (V : Nat → α) (ix : Int) : α := if ix = -1 then 0 else V ix.toNat
def getV (V : Nat → Nat → α) (ix : Int) (d : Nat) : α := if ix = -1 then 0 else V ix.toNat d

/-! ### fitted values: `_reconstruct_Mu(clip=False)` / `predict` -/

/-- one entry of `intercept + interaction1 + interaction2` -/
def muOf (D : Nat) (W : Nat → Nat → α) (W0 : Nat → α) (V2 V1 : Nat → Nat → α) (V0 : Nat → α) (alpha : α)
    (c : Nat) (t1 t2 : Int) : α :=
  (alpha + W0 c + get0 V0 t1 + get0 V0 t2)
    + sumN D (fun d => W c d * (getV V1 t1 d + getV V1 t2 d))
    + sumN D (fun d => W c d * getV V2 t1 d * getV V2 t2 d)

def mu (dt : Data α) (st : State α) (n : Nat) : α :=
  muOf dt.D st.W st.W0 st.V2 st.V1 st.V0 st.alpha (dt.cline n) (dt.dd1 n) (dt.dd2 n)

def reconstructMu (dt : Data α) (st : State α) : State α :=
  if dt.N = 0 then st else { st with Mu := fun n => mu dt st n }

/-! ### `_alpha_step` (default `fake_intercept=True`): no draw -/

def alphaValue (dt : Data α) : α := sumN dt.N dt.y / natTo dt.N

def alphaStep (dt : Data α) (st : State α) : State α :=
  if dt.N = 0 then st.push ⟨.alpha, .det, [st.alpha]⟩
  else
    let a := alphaValue dt
    ({ st with alpha := a, Mu := fun n => st.Mu n + (a - st.alpha) }).push ⟨.alpha, .det, [a]⟩

/-! ### scalar Gaussian blocks (`_W0_step`, `_V0_step`)

  `s1`/`s2` select the rows in which the block's unit occurs (for `W0[c]`: `cline == c` and
  nothing; for `V0[m]`: `dd1 == m` and `dd2 == m`); the code concatenates the two slices. -/

def sCnt (N : Nat) (s1 s2 : Nat → Bool) : α :=
  sumN N (fun n => if s1 n then (1 : α) else 0) + sumN N (fun n => if s2 n then (1 : α) else 0)

def sSum (N : Nat) (s1 s2 : Nat → Bool) (y Mu : Nat → α) (old : α) : α :=
  sumN N (fun n => if s1 n then y n - Mu n + old else 0) + sumN N (fun n => if s2 n then y n - Mu n + old else 0)

def sHas (N : Nat) (s1 s2 : Nat → Bool) : Bool := anyN N s1 || anyN N s2

/-- `(mean, stddev)` handed to `normal`; `lam` is the prior precision of the unit -/
def sArgs (N : Nat) (s1 s2 : Nat → Bool) (y Mu : Nat → α) (prec lam old : α) : NormalArgs α :=
  if sHas N s1 s2 then
    ⟨prec * sSum N s1 s2 y Mu old / (prec * sCnt N s1 s2 + lam), 1 / sqrt (prec * sCnt N s1 s2 + lam)⟩
  else ⟨0, 1 / sqrt lam⟩

/-- `Mu[idx] += new - old` (all increments equal, so a row listed twice is incremented once) -/
def sMuNext (N : Nat) (s1 s2 : Nat → Bool) (Mu : Nat → α) (old v : α) : Nat → α :=
  if sHas N s1 s2 then fun n => if s1 n || s2 n then Mu n + (v - old) else Mu n else Mu

def selC (dt : Data α) (c : Nat) (n : Nat) : Bool := dt.cline n == c
def selNone (_ : Nat) : Bool := false
def sel1 (dt : Data α) (m : Nat) (n : Nat) : Bool := dt.dd1 n == (m : Int)
def sel2 (dt : Data α) (m : Nat) (n : Nat) : Bool := dt.dd2 n == (m : Int)

def w0Args (dt : Data α) (st : State α) (c : Nat) : NormalArgs α :=
  sArgs dt.N (selC dt c) selNone dt.y st.Mu st.prec st.tau0 (st.W0 c)

def w0Next (dt : Data α) (st : State α) (c : Nat) (v : α) : State α :=
  { st with W0 := upd st.W0 c v, Mu := sMuNext dt.N (selC dt c) selNone st.Mu (st.W0 c) v }

def w0Block (dt : Data α) (ω : Draws α) (c : Nat) (st : State α) : State α :=
  let a := w0Args dt st c
  (w0Next dt st c (ω.w0 c)).push ⟨.W0 c, .normal, [a.mean, a.sd]⟩

def w0Step (dt : Data α) (ω : Draws α) (st : State α) : State α := iter dt.nC (w0Block dt ω) st

def v0Args (dt : Data α) (st : State α) (m : Nat) : NormalArgs α :=
  sArgs dt.N (sel1 dt m) (sel2 dt m) dt.y st.Mu st.prec (st.phi0 m * st.eta0) (st.V0 m)

def v0Next (dt : Data α) (st : State α) (m : Nat) (v : α) : State α :=
  { st with V0 := upd st.V0 m v, Mu := sMuNext dt.N (sel1 dt m) (sel2 dt m) st.Mu (st.V0 m) v }

def v0Block (dt : Data α) (ω : Draws α) (m : Nat) (st : State α) : State α :=
  let a := v0Args dt st m
  (v0Next dt st m (ω.v0 m)).push ⟨.V0 m, .normal, [a.mean, a.sd]⟩

def v0Step (dt : Data α) (ω : Draws α) (st : State α) : State α := iter dt.nT (v0Block dt ω) st

/-! ### vector Gaussian blocks (`_W_step`, `_V2_step`, `_V1_step`)

  What a vector block works with: two row slices (`s1`, `s2`) with their design rows
  (`x1`, `x2`), the current value `cur` of the row being resampled and its prior precisions
  `lam`.  The code concatenates slice 1 and slice 2 (`X`, `resid`, `old_contrib`, `idx`). -/

structure Blk (α : Type) where
  N : Nat
  D : Nat
  s1 : Nat → Bool
  s2 : Nat → Bool
  x1 : Nat → Nat → α
  x2 : Nat → Nat → α
  cur : Nat → α
  lam : Nat → α

/-- `old_contrib = X @ cur` -/
def Blk.old1 (b : Blk α) (n : Nat) : α := sumN b.D (fun d => b.x1 n d * b.cur d)
def Blk.old2 (b : Blk α) (n : Nat) : α := sumN b.D (fun d => b.x2 n d * b.cur d)

def Blk.has (b : Blk α) : Bool := anyN b.N b.s1 || anyN b.N b.s2

/-- `mu_part = (Xt @ resid) * prec`, `resid = y[idx] - Mu[idx] + old_contrib` -/
def Blk.muPart (b : Blk α) (y Mu : Nat → α) (prec : α) (d : Nat) : α :=
  (sumN b.N (fun n => if b.s1 n then b.x1 n d * (y n - Mu n + b.old1 n) else 0)
    + sumN b.N (fun n => if b.s2 n then b.x2 n d * (y n - Mu n + b.old2 n) else 0)) * prec

/-- `Q = (Xt @ X) * prec; Q[diag] += lam` -/
def Blk.Q (b : Blk α) (prec : α) (d e : Nat) : α :=
  let q := (sumN b.N (fun n => if b.s1 n then b.x1 n d * b.x1 n e else 0)
    + sumN b.N (fun n => if b.s2 n then b.x2 n d * b.x2 n e else 0)) * prec
  if d = e then q + b.lam d else q

/-- `Mu[idx] += X @ new - old_contrib` (last write wins for a row in both slices) -/
def Blk.muNext (b : Blk α) (Mu : Nat → α) (v : Nat → α) : Nat → α := fun n =>
  if b.s2 n then Mu n + (sumN b.D (fun d => b.x2 n d * v d) - b.old2 n)
  else if b.s1 n then Mu n + (sumN b.D (fun d => b.x1 n d * v d) - b.old1 n)
  else Mu n

/-- the flattened arguments recorded for a vector block -/
def Blk.record (b : Blk α) (site : Site) (y Mu : Nat → α) (prec : α) : Rec α :=
  if b.has then ⟨site, .mvn, flatMat b.D b.D (b.Q prec) ++ flatVec b.D (b.muPart y Mu prec)⟩
  else ⟨site, .normalVec, (0 : α) :: flatVec b.D (fun d => 1 / sqrt (b.lam d))⟩

/-- design row of sample `c`'s embedding: `tmp1 + tmp2` -/
def wX (dt : Data α) (st : State α) (n d : Nat) : α :=
  getV st.V2 (dt.dd1 n) d * getV st.V2 (dt.dd2 n) d + (getV st.V1 (dt.dd1 n) d + getV st.V1 (dt.dd2 n) d)

def wBlk (dt : Data α) (st : State α) (c : Nat) : Blk α :=
  { N := dt.N, D := dt.D, s1 := selC dt c, s2 := selNone, x1 := wX dt st, x2 := wX dt st,
    cur := st.W c, lam := st.tau }

def wNext (dt : Data α) (st : State α) (c : Nat) (v : Option (Nat → α)) : State α :=
  match v with
  | none => st
  | some w =>
    if (wBlk dt st c).has then { st with W := upd st.W c w, Mu := (wBlk dt st c).muNext st.Mu w }
    else { st with W := upd st.W c w }

def wBlock (dt : Data α) (ω : Draws α) (c : Nat) (st : State α) : State α :=
  (wNext dt st c (ω.w c)).push ((wBlk dt st c).record (.W c) dt.y st.Mu st.prec)

def wStep (dt : Data α) (ω : Draws α) (st : State α) : State α := iter dt.nC (wBlock dt ω) st

def v2Blk (dt : Data α) (st : State α) (m : Nat) : Blk α :=
  { N := dt.N, D := dt.D, s1 := sel1 dt m, s2 := sel2 dt m,
    x1 := fun n d => st.W (dt.cline n) d * getV st.V2 (dt.dd2 n) d,
    x2 := fun n d => st.W (dt.cline n) d * getV st.V2 (dt.dd1 n) d,
    cur := st.V2 m, lam := fun d => st.phi2 m d * st.eta2 d }

def v2Next (dt : Data α) (st : State α) (m : Nat) (v : Option (Nat → α)) : State α :=
  match v with
  | none => st
  | some w =>
    if (v2Blk dt st m).has then { st with V2 := upd st.V2 m w, Mu := (v2Blk dt st m).muNext st.Mu w }
    else { st with V2 := upd st.V2 m w }

def v2Block (dt : Data α) (ω : Draws α) (m : Nat) (st : State α) : State α :=
  (v2Next dt st m (ω.v2 m)).push ((v2Blk dt st m).record (.V2 m) dt.y st.Mu st.prec)

def v2Step (dt : Data α) (ω : Draws α) (st : State α) : State α := iter dt.nT (v2Block dt ω) st

def v1Blk (dt : Data α) (st : State α) (m : Nat) : Blk α :=
  { N := dt.N, D := dt.D, s1 := sel1 dt m, s2 := sel2 dt m,
    x1 := fun n d => st.W (dt.cline n) d,
    x2 := fun n d => st.W (dt.cline n) d,
    cur := st.V1 m, lam := fun d => st.phi1 m d * st.eta1 d }

def v1Next (dt : Data α) (st : State α) (m : Nat) (v : Option (Nat → α)) : State α :=
  match v with
  | none => st
  | some w =>
    if (v1Blk dt st m).has then { st with V1 := upd st.V1 m w, Mu := (v1Blk dt st m).muNext st.Mu w }
    else { st with V1 := upd st.V1 m w }

def v1Block (dt : Data α) (ω : Draws α) (m : Nat) (st : State α) : State α :=
  (v1Next dt st m (ω.v1 m)).push ((v1Blk dt st m).record (.V1 m) dt.y st.Mu st.prec)

def v1Step (dt : Data α) (ω : Draws α) (st : State α) : State α := iter dt.nT (v1Block dt ω) st

/-! ### conjugate precision blocks -/

def sqr (x : α) : α := x * x

/-- `_prec_W0_step` -/
def tau0Args (dt : Data α) (st : State α) : GammaArgs α :=
  ⟨dt.a0 + half * natTo dt.nC, 1 / (dt.b0 + half * sumN dt.nC (fun c => sqr (st.W0 c)) + eps)⟩

def precW0Step (dt : Data α) (ω : Draws α) (st : State α) : State α :=
  let a := tau0Args dt st
  ({ st with tau0 := clip ω.tau0 (lowOf (natTo dt.N)) big }).push ⟨.tau0, .gamma, [a.shape, a.scale]⟩

/-- number of rows in which treatment `m` occurs: `N1[m] + N2[m]` -/
def occ (dt : Data α) (m : Nat) : α :=
  sumN dt.N (fun n => if sel1 dt m n then (1 : α) else 0) + sumN dt.N (fun n => if sel2 dt m n then (1 : α) else 0)

/-- `_prec_V0_step`: four draws (`phiaux0`, `phi0`, `etaaux0`, `eta0`) -/
def phi0auxScale (st : State α) (m : Nat) : α := 1 / (1 + st.phi0 m)
def phi0Scale (st : State α) (aux : Nat → α) (m : Nat) : α := 1 / (aux m + half * st.eta0 * sqr (st.V0 m) + eps)
def eta0auxScale (st : State α) : α := 1 / (1 + st.eta0)
def eta0Args (dt : Data α) (st : State α) (aux : α) : GammaArgs α :=
  ⟨half * (1 + natTo dt.nT), 1 / (aux + half * sumN dt.nT (fun m => st.phi0 m * sqr (st.V0 m)) + eps)⟩

def precV0Step (dt : Data α) (ω : Draws α) (st : State α) : State α :=
  let s1 := st.push ⟨.phi0aux, .gamma, (1 : α) :: flatVec dt.nT (phi0auxScale st)⟩
  let s2 := ({ s1 with phi0 := fun m => clip (ω.phi0 m) (lowOf (occ dt m)) big }).push
    ⟨.phi0, .gamma, (1 : α) :: flatVec dt.nT (phi0Scale s1 ω.phi0aux)⟩
  let s3 := s2.push ⟨.eta0aux, .gamma, [1, eta0auxScale s2]⟩
  let a := eta0Args dt s3 ω.eta0aux
  ({ s3 with eta0 := clip ω.eta0 (lowOf (natTo dt.N)) big }).push ⟨.eta0, .gamma, [a.shape, a.scale]⟩

/-- `_prec_obs_step` -/
def precArgs (dt : Data α) (st : State α) : GammaArgs α :=
  if dt.N = 0 then ⟨dt.a0, 1 / dt.b0⟩
  else ⟨dt.a0 + half * natTo dt.N,
        1 / (dt.b0 + half * sumN dt.N (fun n => sqr (dt.y n - st.Mu n)) + eps)⟩

def precObsStep (dt : Data α) (ω : Draws α) (st : State α) : State α :=
  let a := precArgs dt st
  let p := if dt.N = 0 then ω.prec else clip ω.prec (lowOf (natTo dt.N)) big
  ({ st with prec := p }).push ⟨.prec, .gamma, [a.shape, a.scale]⟩

/-- `_prec_V2_step` / `_prec_V1_step` share their shape; `V`, `phi`, `eta` are the block's arrays -/
def phiAuxScale (phi : Nat → Nat → α) (m d : Nat) : α := 1 / (1 + phi m d)
def phiScale (V : Nat → Nat → α) (eta : Nat → α) (aux : Nat → Nat → α) (m d : Nat) : α :=
  1 / (aux m d + half * eta d * sqr (V m d) + eps)
def etaAuxScale (eta : Nat → α) (d : Nat) : α := 1 / (1 + eta d)
def etaShape (dt : Data α) : α := half * (1 + natTo dt.nT)
def etaScale (dt : Data α) (V phi : Nat → Nat → α) (aux : Nat → α) (d : Nat) : α :=
  1 / (aux d + half * sumN dt.nT (fun m => phi m d * sqr (V m d)) + eps)

def precV2Step (dt : Data α) (ω : Draws α) (st : State α) : State α :=
  let s1 := st.push ⟨.phi2aux, .gamma, (1 : α) :: flatMat dt.nT dt.D (phiAuxScale st.phi2)⟩
  let phi' : Nat → Nat → α := fun m d => clip (ω.phi2 m d) (lowOf (occ dt m)) big
  let s2 := ({ s1 with phi2 := phi' }).push
    ⟨.phi2, .gamma, (1 : α) :: flatMat dt.nT dt.D (phiScale st.V2 st.eta2 ω.phi2aux)⟩
  let s3 := s2.push ⟨.eta2aux, .gamma, (1 : α) :: flatVec dt.D (etaAuxScale st.eta2)⟩
  ({ s3 with eta2 := fun d => clip (ω.eta2 d) (lowOf (natTo dt.N)) big }).push
    ⟨.eta2, .gamma, etaShape dt :: flatVec dt.D (etaScale dt st.V2 phi' ω.eta2aux)⟩

def precV1Step (dt : Data α) (ω : Draws α) (st : State α) : State α :=
  let s1 := st.push ⟨.phi1aux, .gamma, (1 : α) :: flatMat dt.nT dt.D (phiAuxScale st.phi1)⟩
  let phi' : Nat → Nat → α := fun m d => clip (ω.phi1 m d) (lowOf (occ dt m)) big
  let s2 := ({ s1 with phi1 := phi' }).push
    ⟨.phi1, .gamma, (1 : α) :: flatMat dt.nT dt.D (phiScale st.V1 st.eta1 ω.phi1aux)⟩
  let s3 := s2.push ⟨.eta1aux, .gamma, (1 : α) :: flatVec dt.D (etaAuxScale st.eta1)⟩
  ({ s3 with eta1 := fun d => clip (ω.eta1 d) (lowOf (natTo dt.N)) big }).push
    ⟨.eta1, .gamma, etaShape dt :: flatVec dt.D (etaScale dt st.V1 phi' ω.eta1aux)⟩

/-- `_prec_W_step` (multiplicative gamma process): `gam[d]` for `d = 0 … D-1` in turn, each from
    the current `gam`; then `tau = clip(cumprod(gam))` -/
def cumprod (g : Nat → α) (e : Nat) : α := prodN (e + 1) g

def gamArgs (dt : Data α) (W : Nat → Nat → α) (g : Nat → α) (d : Nat) : GammaArgs α :=
  let a : α := if d = 0 then 2 + half * natTo dt.nC * natTo dt.D else 3 + half * natTo dt.nC * natTo (dt.D - d)
  let s : α := sumN dt.nC (fun c => sumN dt.D (fun e => if d ≤ e then cumprod g e / g d * sqr (W c e) else 0))
  ⟨a, 1 / (1 + half * s + eps)⟩

def gamBlock (dt : Data α) (ω : Draws α) (d : Nat) (st : State α) : State α :=
  let a := gamArgs dt st.W st.gam d
  ({ st with gam := upd st.gam d (ω.gam d) }).push ⟨.gam d, .gamma, [a.shape, a.scale]⟩

def precWStep (dt : Data α) (ω : Draws α) (st : State α) : State α :=
  let s := iter dt.D (gamBlock dt ω) st
  { s with tau := fun d => clip (cumprod s.gam d) (lowOf (natTo dt.N)) big }

/-! ### the sweep: `mcmc_step` -/

/-- the twelve stages after `_reconstruct_Mu`, in the order of `mcmc_step` -/
def stepsTail (dt : Data α) (ω : Draws α) : List (State α → State α) :=
  [alphaStep dt, w0Step dt ω, v0Step dt ω, wStep dt ω, v2Step dt ω, v1Step dt ω,
   precW0Step dt ω, precV0Step dt ω, precObsStep dt ω, precV2Step dt ω, precV1Step dt ω, precWStep dt ω]

def steps (dt : Data α) (ω : Draws α) : List (State α → State α) := reconstructMu dt :: stepsTail dt ω

/-- run a list of stages; second component: the state after each stage -/
def runTrace {σ : Type} (fs : List (σ → σ)) (s : σ) (acc : List σ) : σ × List σ :=
  fs.foldl (fun (a : σ × List σ) f => (f a.1, a.2 ++ [f a.1])) (s, acc)

def mcmcStep (dt : Data α) (ω : Draws α) (st : State α) : State α := (runTrace (steps dt ω) st []).1

/-- the states after each of the 13 stages of a sweep (for the correspondence run) -/
def mcmcTrace (dt : Data α) (ω : Draws α) (st : State α) : List (State α) := (runTrace (steps dt ω) st []).2

/-- a history: consecutive sweeps, one choice log each -/
def runSweeps (dt : Data α) (ωs : List (Draws α)) (st : State α) : State α :=
  ωs.foldl (fun s ω => mcmcStep dt ω s) st

/-- the documented visiting order of one sweep -/
def schedule (nC nT D : Nat) : List Site :=
  [Site.alpha] ++ (List.range nC).map Site.W0 ++ (List.range nT).map Site.V0 ++ (List.range nC).map Site.W
    ++ (List.range nT).map Site.V2 ++ (List.range nT).map Site.V1
    ++ [Site.tau0, Site.phi0aux, Site.phi0, Site.eta0aux, Site.eta0, Site.prec, Site.phi2aux, Site.phi2, Site.eta2aux,
        Site.eta2, Site.phi1aux, Site.phi1, Site.eta1aux, Site.eta1]
    ++ (List.range D).map Site.gam

/-! ### export and prediction (`get_model_state`, module-level `predict`, `predict_conditional_variance`) -/

def exportState (st : State α) : Theta α :=
  { W := st.W, W0 := st.W0, V2 := st.V2, V1 := st.V1, V0 := st.V0, alpha := st.alpha, precision := st.prec }

def predict (D : Nat) (th : Theta α) (c : Nat) (t1 t2 : Int) : α :=
  muOf D th.W th.W0 th.V2 th.V1 th.V0 th.alpha c t1 t2

def predictVariance (th : Theta α) : α := 1 / th.precision

/-! ### `sample_mvn_from_precision(Q, mu_part=b)` given the standard normal vector `z`

  `Lt = cholesky(Q).T` (upper `U`, `UᵀU = Q`); `result = solve_triangular(Lt, z, lower=False)`;
  `result += cho_solve((Lt, False), b)`, i.e. forward substitution with `Uᵀ` then back substitution
  with `U`. -/

/-- upper Cholesky factor, row by row: `U i j` for `i ≤ j` (zero below the diagonal) -/
def cholRow (Q : Nat → Nat → α) (U : Nat → Nat → α) (i : Nat) : Nat → α := fun j =>
  if j < i then 0
  else
    let s := Q i j - sumN i (fun k => U k i * U k j)
    let dii := sqrt (Q i i - sumN i (fun k => U k i * U k i))
    if j = i then dii else s / dii

/-- rows computed so far, as concrete arrays (so that row `i` reads rows `< i` without re-evaluating them) -/
def rowsFn (R : Array (Array α)) (i j : Nat) : α := (R.getD i #[]).getD j 0

def cholRows (D : Nat) (Q : Nat → Nat → α) : Nat → Array (Array α)
  | 0 => #[]
  | i + 1 =>
    let R := cholRows D Q i
    R.push (((List.range D).map (cholRow Q (rowsFn R) i)).toArray)

def chol (D : Nat) (Q : Nat → Nat → α) : Nat → Nat → α := rowsFn (cholRows D Q D)

/-- read a vector stored as an array (entries beyond the end read as 0) -/
def getA (a : Array α) (j : Nat) : α := a.getD j 0

/-- back substitution: solves `U x = z` for upper-triangular `U`; `backSub D U z k` holds the entries
    `x_i` for `i ≥ D - k` (stored in an array so that a level is computed once) -/
def backSub (D : Nat) (U : Nat → Nat → α) (z : Nat → α) : Nat → Array α
  | 0 => Array.replicate D 0
  | k + 1 =>
    let x := backSub D U z k
    let i := D - (k + 1)
    x.setIfInBounds i ((z i - sumN D (fun j => if i < j then U i j * getA x j else 0)) / U i i)

def solveUpper (D : Nat) (U : Nat → Nat → α) (z : Nat → α) : Nat → α := getA (backSub D U z D)

/-- forward substitution: solves `Uᵀ w = b` -/
def fwdSub (D : Nat) (U : Nat → Nat → α) (b : Nat → α) : Nat → Array α
  | 0 => Array.replicate D 0
  | k + 1 =>
    let w := fwdSub D U b k
    w.setIfInBounds k ((b k - sumN k (fun j => U j k * getA w j)) / U k k)

def solveLowerT (D : Nat) (U : Nat → Nat → α) (b : Nat → α) : Nat → α := getA (fwdSub D U b D)

/-- the affine map applied to `z` once the factor `U` is known -/
def mvnMap (D : Nat) (U : Nat → Nat → α) (b z : Nat → α) : Nat → α := fun d =>
  solveUpper D U z d + solveUpper D U (solveLowerT D U b) d

def sampleMvn (D : Nat) (Q : Nat → Nat → α) (b z : Nat → α) : Nat → α := mvnMap D (chol D Q) b z

end

end Batchie.Gibbs
