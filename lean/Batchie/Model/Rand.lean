/-
  Dataflow model of batchie's randomised operations for C18 (import-free, executable).

  As a two-run hyperproperty, "deterministic in the inputs and the given generator" is invisible to
  a model in which randomness is already an argument, so this model makes the SOURCE of every
  draw explicit.  There are three entropy streams:

    * `supplied` (G)  the generator handed to the operation (`rng` argument / `set_rng` / `--seed`);
    * `global`   (Γ)  the process-global numpy state (`np.random.normal`, …) -- and torch's global
                      generator, used by pyro;
    * `fresh`    (Ω)  fresh OS entropy: `np.random.default_rng()` called without a seed.

  A randomised operation is a tree `Prog α`: it either returns, or makes one draw of some kind
  from one source and continues as a function of the value drawn.  `run` executes a program in a
  `World` (the three streams), returns the output, the world afterwards and the trace of
  (source, kind) events.  Every operation of the code is described at this granularity: which
  source each draw comes from, in which order, how many (as a function of the shape of the input,
  and for the greedy cover of the values drawn); the OUTPUT is an arbitrary function of the inputs
  and of the values drawn (`Args.more` / the `out` argument of the theorems are uninterpreted).

  Code anchors are given at each definition; harness/c18.py compares the trace of (source, kind)
  events of the real code -- all three sources instrumented at once -- with `trace` below.
-/
import Batchie.Model.Proto

namespace Batchie.Rand

inductive Src where
  | supplied | global | fresh
deriving DecidableEq, Repr, Inhabited

inductive Kind where
  | choice | permutation | random | normal | gamma
  /-- `rng.integers` (the resampling step of seaborn's bootstrap) -/
  | integers
  /-- `np.random.default_rng()` without a seed: a new generator from OS entropy -/
  | newgen
  /-- torch's process-global generator (pyro sampling, `torch.randperm`) -/
  | torch
deriving DecidableEq, Repr, Inhabited

structure Event where
  src : Src
  kind : Kind
deriving DecidableEq, Repr, Inhabited

/-- an entropy stream: the values it will still deliver -/
abbrev Stream := Nat → Nat

structure World where
  g : Stream
  γ : Stream
  ω : Stream

def Stream.tail (s : Stream) : Stream := fun i => s (i + 1)

/-- take the next value of the stream `s` names -/
def World.pop (w : World) : Src → Nat × World
  | .supplied => (w.g 0, { w with g := w.g.tail })
  | .global => (w.γ 0, { w with γ := w.γ.tail })
  | .fresh => (w.ω 0, { w with ω := w.ω.tail })

inductive Prog (α : Type) where
  | ret (a : α) : Prog α
  | draw (s : Src) (k : Kind) (cont : Nat → Prog α) : Prog α

namespace Prog

def bind {α β : Type} : Prog α → (α → Prog β) → Prog β
  | .ret a, f => f a
  | .draw s k c, f => .draw s k (fun v => (c v).bind f)

def map {α β : Type} (f : α → β) (p : Prog α) : Prog β := p.bind (fun a => .ret (f a))

end Prog

structure Result (α : Type) where
  out : α
  world : World
  trace : List Event

def run {α : Type} : Prog α → World → Result α
  | .ret a, w => ⟨a, w, []⟩
  | .draw s k c, w =>
    let r := run (c (w.pop s).1) (w.pop s).2
    ⟨r.out, r.world, ⟨s, k⟩ :: r.trace⟩

/-- make the listed draws in order, collecting the values -/
def fromEvents : List Event → Prog (List Nat)
  | [] => .ret []
  | e :: es => .draw e.src e.kind (fun v => (fromEvents es).map (v :: ·))

/-- draw while `more (values so far)` (and fuel remains) -/
def drawWhile (s : Src) (k : Kind) (more : List Nat → Bool) : Nat → List Nat → Prog (List Nat)
  | 0, acc => .ret acc
  | fuel + 1, acc =>
    if more acc then .draw s k (fun v => drawWhile s k more fuel (acc ++ [v])) else .ret acc

/-- run `p`, then `q`, concatenating the collected values -/
def seq (p q : Prog (List Nat)) : Prog (List Nat) := p.bind (fun a => q.map (a ++ ·))

def seqAll : List (Prog (List Nat)) → Prog (List Nat)
  | [] => .ret []
  | p :: ps => seq p (seqAll ps)

/-- every draw of the program comes from the supplied generator -/
inductive OnlyG {α : Type} : Prog α → Prop where
  | ret (a : α) : OnlyG (.ret a)
  | draw (k : Kind) (c : Nat → Prog α) (h : ∀ v, OnlyG (c v)) : OnlyG (.draw .supplied k c)

/-! ## the operations -/

def ev (s : Src) (k : Kind) : Event := ⟨s, k⟩
def rep (n : Nat) (s : Src) (k : Kind) : List Event := List.replicate n (ev s k)

/-- shape of one Gibbs sweep: per sample / per treatment "has observations", embedding
dimension, the sampler's options, "any observation at all" -/
structure SweepCfg where
  clines : List Bool := []
  dds : List Bool := []
  dims : Nat := 1
  fakeIntercept : Bool := true
  localShrinkage : Bool := true
  multGamma : Bool := true
  hasObs : Bool := true
deriving Repr, Inhabited

inductive ScorerKind where
  | random | dbal | size
deriving DecidableEq, Repr, Inhabited

inductive GenKind where
  | none | pairwise | platePermutation | sampleSegregating
deriving DecidableEq, Repr, Inhabited

inductive SmootherKind where
  | none | mergeMin | mergeTopBottom | fixedSize | optimalSize | nPlatePerCellLine | ensemble
deriving DecidableEq, Repr, Inhabited

inductive ModelKind where
  | combo | inter
deriving DecidableEq, Repr, Inhabited

/-- the shape parameters an operation's trace depends on (unused ones are ignored) -/
structure Args where
  /-- main count: samples (cover, segregating generator), plates (smoothers, hold-out, scorers),
  sub-groups (DBAL), … -/
  n : Nat := 0
  /-- secondary count: fuel of the cover's completion loop; single-treatment samples (pairwise) -/
  k : Nat := 0
  /-- cover completion loop: "treatments remain uncovered", a function of the values drawn -/
  more : List Nat → Bool := fun _ => false
  anchors : Bool := false
  /-- `generate_plates` / `smooth_plates`: there is an unobserved subset to work on -/
  hasUnobserved : Bool := true
  cfg : SweepCfg := {}
  model : ModelKind := .combo
  /-- `n_burnin + n_thetas * thin` -/
  steps : Nat := 0
  scorer : ScorerKind := .random
  /-- prepare_retrospective_simulation: which stages are configured, and their counts -/
  initCover : Bool := false
  gen : GenKind := .none
  genN : Nat := 0
  genK : Nat := 0
  smoother : SmootherKind := .none
  smoothN : Nat := 0
  /-- prepare_retrospective_simulation: the smoother's input still has an unobserved subset -/
  smoothUnobserved : Bool := true
  holdN : Nat := 0

/-- retrospective.py:27-84 `SparseCoverPlateGenerator`: one `rng.choice` per sample, then one per
iteration of the completion loop -/
def sparseCover (a : Args) : Prog (List Nat) :=
  (fromEvents (rep a.n .supplied .choice)).bind (fun vs => drawWhile .supplied .choice a.more a.k vs)

/-- retrospective.py:128-251 `PairwisePlateGenerator._generate_plates`: two permutations with
anchors, one without; one `choice` for the control groups; one `choice` per single-treatment
sample -/
def pairwiseEvents (anchors : Bool) (nSingle : Nat) : List Event :=
  (if anchors then rep 2 .supplied .permutation else rep 1 .supplied .permutation)
    ++ [ev .supplied .choice] ++ rep nSingle .supplied .choice

def genEvents : GenKind → Bool → Nat → Nat → List Event
  | .none, _, _, _ => []
  | .pairwise, anchors, _, k => pairwiseEvents anchors k
  /- retrospective.py:278 -/
  | .platePermutation, _, _, _ => [ev .supplied .permutation]
  /- retrospective.py:312: one permutation per sample -/
  | .sampleSegregating, _, n, _ => rep n .supplied .permutation

/-- core.py:584-606 / 622-641 wrappers: nothing happens without an unobserved subset -/
def wrapped (hasUnobserved : Bool) (es : List Event) : List Event := if hasUnobserved then es else []

/-- the smoothers (retrospective.py:337-586): only the two truncating smoothers draw, one
`choice` per plate larger than the target size; the ensemble runs merge-min, merge-top-bottom,
optimal-size, n-plate in sequence -/
def smootherEvents : SmootherKind → Nat → List Event
  | .none, _ => []
  | .mergeMin, _ => []
  | .mergeTopBottom, _ => []
  | .nPlatePerCellLine, _ => []
  | .fixedSize, n => rep n .supplied .choice
  | .optimalSize, n => rep n .supplied .choice
  | .ensemble, n => rep n .supplied .choice

/-- retrospective.py:617-663 -/
def randomHoldoutEvents : List Event := [ev .supplied .choice]
/-- retrospective.py:666-723: one `choice` per unobserved plate -/
def plateHoldoutEvents (n : Nat) : List Event := rep n .supplied .choice

/-- scoring/rand.py:25 (one `rng.random()` per plate), scoring/gaussian_dbal.py:212 (one
`rng.choice` of the triples per plate sub-group), scoring/size.py (none) -- all from the
generator `score` is given -/
def scorerEvents (s : Src) : ScorerKind → Nat → List Event
  | .random, n => rep n s .random
  | .dbal, n => rep n s .choice
  | .size, _ => []

/-- scoring/main.py:149-217 `score_chunk`: without a generator it makes a fresh one -/
def scoreChunkEvents (rngGiven : Bool) (sc : ScorerKind) (n : Nat) : List Event :=
  if rngGiven then scorerEvents .supplied sc n else ev .fresh .newgen :: scorerEvents .fresh sc n

/-- scoring/main.py:79-146 `select_next_plate` (the policy, policies/k_per_sample.py, receives
the generator and never draws) -/
def selectNextPlateEvents (rngGiven : Bool) : List Event :=
  if rngGiven then [] else [ev .fresh .newgen]

/-- `select_next_plate` on a given score table (scores of the eligible plates in storage order):
`plate_id_with_minimum_score` is `argmin` -- the FIRST minimal entry, no draw, whatever the table
(ties included); the generator handed in only goes to the policy, which never draws -/
def argminFirst : List Int → Option Nat
  | [] => none
  | x :: xs =>
    match argminFirst xs with
    | none => some 0
    | some j => if xs[j]! < x then some (j + 1) else some 0

def selectOnTable (rngGiven : Bool) (_scores : List Int) : List Event := selectNextPlateEvents rngGiven

/-- the minimum of the table is attained more than once -/
def minTied (scores : List Int) : Bool :=
  match argminFirst scores with
  | none => false
  | some j => (scores.filter (fun x => x == scores[j]!)).length > 1

/-- REGRESSION definition (seeded change S8-C18, not the code): ties for the minimum are broken with
`rng.choice`, but the only caller passes no generator, so a fresh `default_rng()` is made -- only
when the minimum is tied -/
def selectOnTableOld (rngGiven : Bool) (scores : List Int) : List Event :=
  selectNextPlateEvents rngGiven ++ (if minTied scores then [ev .fresh .newgen, ev .fresh .choice] else [])

/-- fast_mvn.py:22-26 -/
def mvnEvents (rngGiven : Bool) : List Event :=
  if rngGiven then [ev .supplied .normal] else [ev .fresh .newgen, ev .fresh .normal]

/-- `self._random`: the generator set through `set_rng`, else the global numpy state
(models/sparse_combo.py:164-169) -/
def rnd (rngSet : Bool) : Src := if rngSet then .supplied else .global

/-- a per-unit block: prior draw through `_random.normal` when the unit has no data, else
`sample_mvn_from_precision(…, rng=self.rng)` -/
def vecBlock (rngSet : Bool) (units : List Bool) : List Event :=
  units.flatMap (fun has => if has then mvnEvents rngSet else [ev (rnd rngSet) .normal])

def scalarBlock (rngSet : Bool) (units : List Bool) : List Event :=
  units.map (fun _ => ev (rnd rngSet) .normal)

def shrinkBlock (rngSet : Bool) (c : SweepCfg) : List Event :=
  (if c.localShrinkage then rep 2 (rnd rngSet) .gamma else []) ++ rep 2 (rnd rngSet) .gamma

def precWBlock (rngSet : Bool) (c : SweepCfg) : List Event :=
  if c.multGamma then rep c.dims (rnd rngSet) .gamma else [ev (rnd rngSet) .gamma]

/-- models/sparse_combo.py:528-551 `mcmc_step`: alpha, W0, V0, W, V2, V1, then the precisions
(W0, V0, obs, V2, V1, W) -/
def sweepComboEvents (rngSet : Bool) (c : SweepCfg) : List Event :=
  (if c.hasObs && !c.fakeIntercept then [ev (rnd rngSet) .normal] else [])
    ++ scalarBlock rngSet c.clines ++ scalarBlock rngSet c.dds
    ++ vecBlock rngSet c.clines ++ vecBlock rngSet c.dds ++ vecBlock rngSet c.dds
    ++ [ev (rnd rngSet) .gamma] ++ shrinkBlock rngSet c ++ [ev (rnd rngSet) .gamma]
    ++ shrinkBlock rngSet c ++ shrinkBlock rngSet c ++ precWBlock rngSet c

/-- models/sparse_combo_interaction.py:374-384 `mcmc_step`: W, V2, obs precision, V2 precision,
W precision -/
def sweepInterEvents (rngSet : Bool) (c : SweepCfg) : List Event :=
  vecBlock rngSet c.clines ++ vecBlock rngSet c.dds
    ++ [ev (rnd rngSet) .gamma] ++ shrinkBlock rngSet c ++ precWBlock rngSet c

def sweepEvents (rngSet : Bool) : ModelKind → SweepCfg → List Event
  | .combo, c => sweepComboEvents rngSet c
  | .inter, c => sweepInterEvents rngSet c

/-- sampling.py:35-62: `model.set_rng(rng)`, then `n_burnin + n_thetas * thin` sweeps -/
def sampleMCMCEvents (m : ModelKind) (c : SweepCfg) (steps : Nat) : List Event :=
  (List.replicate steps (sweepEvents true m c)).flatten

/-- sampling.py:63-70 with `ComboGridFactorModel`: `set_rng` stores the generator, `sample` never
reads it -- `BatchIterator` calls `np.random.choice`, `torch.randperm`; pyro samples from torch's
global generator (models/grid_helper.py:97-119, models/grid_combo.py:692-800) -/
def sampleVIEvents (epochs : Nat) : List Event :=
  (List.replicate (epochs + 1) [ev .global .torch, ev .global .choice]).flatten ++ [ev .global .torch]

/-- cli/prepare_retrospective_simulation.py:171-270 with the generator of `--seed`: initial cover
(or, later, one `rng.choice` of the first plate), plate generator, smoother, plate-balanced
hold-out -/
def cliPrepare (a : Args) : Prog (List Nat) :=
  seqAll [
    (if a.initCover then sparseCover a else .ret []),
    fromEvents (wrapped a.hasUnobserved (genEvents a.gen a.anchors a.genN a.genK)),
    fromEvents (if a.initCover then [] else [ev .supplied .choice]),
    fromEvents (wrapped a.smoothUnobserved (smootherEvents a.smoother a.smoothN)),
    fromEvents (plateHoldoutEvents a.holdN)]

/-- `analyze_model_evaluation`: the only draws are the bootstrap of the regression band of the `n`
regression plots (one overall + one per sample), `boots` resampling draws (`rng.integers`) each
(seaborn's `n_boot`, default 1000), all from the generator `regplot` is given -/
def analyzeEvents (s : Src) (n boots : Nat) : List Event :=
  (List.replicate n (rep boots s .integers)).flatten

/-- REGRESSION definition (the tree before fix 1fd9f14, not the code): `--seed` is accepted and
ignored; every `regplot` makes its own `np.random.default_rng()` (no seed) for the bootstrap -/
def analyzeEventsOld (n boots : Nat) : List Event :=
  (List.replicate n (ev .fresh .newgen :: rep boots .fresh .integers)).flatten

/-- the names of the modelled operations -/
inductive Op where
  | sparseCover | generatePlates | smoothPlates | randomHoldout | plateBalancedHoldout
  | scorer | kPerSamplePolicy
  | selectNextPlate | selectNextPlateNoRng
  | scoreChunk | scoreChunkNoRng
  | sampleMvn | sampleMvnNoRng
  | gibbsSweep | gibbsSweepNoRng
  | sampleMCMC | sampleVI
  | cliPrepareRetrospective | cliCalculateScores | cliSelectNextPlate | cliTrainModel | cliTrainModelVI
  | cliEvaluateModel | cliAnalyzeModelEvaluation
deriving DecidableEq, Repr, Inhabited

def Op.all : List Op :=
  [.sparseCover, .generatePlates, .smoothPlates, .randomHoldout, .plateBalancedHoldout, .scorer,
   .kPerSamplePolicy, .selectNextPlate, .selectNextPlateNoRng, .scoreChunk, .scoreChunkNoRng,
   .sampleMvn, .sampleMvnNoRng, .gibbsSweep, .gibbsSweepNoRng, .sampleMCMC, .sampleVI,
   .cliPrepareRetrospective, .cliCalculateScores, .cliSelectNextPlate, .cliTrainModel, .cliTrainModelVI,
   .cliEvaluateModel, .cliAnalyzeModelEvaluation]

/-- the program of an operation; its value is the list of values drawn (the operation's output is
a function of the inputs and of this list) -/
def prog : Op → Args → Prog (List Nat)
  | .sparseCover, a => sparseCover a
  | .generatePlates, a => fromEvents (wrapped a.hasUnobserved (genEvents a.gen a.anchors a.n a.k))
  | .smoothPlates, a => fromEvents (wrapped a.hasUnobserved (smootherEvents a.smoother a.n))
  | .randomHoldout, _ => fromEvents randomHoldoutEvents
  | .plateBalancedHoldout, a => fromEvents (plateHoldoutEvents a.n)
  | .scorer, a => fromEvents (scorerEvents .supplied a.scorer a.n)
  | .kPerSamplePolicy, _ => .ret []
  | .selectNextPlate, _ => fromEvents (selectNextPlateEvents true)
  | .selectNextPlateNoRng, _ => fromEvents (selectNextPlateEvents false)
  | .scoreChunk, a => fromEvents (scoreChunkEvents true a.scorer a.n)
  | .scoreChunkNoRng, a => fromEvents (scoreChunkEvents false a.scorer a.n)
  | .sampleMvn, _ => fromEvents (mvnEvents true)
  | .sampleMvnNoRng, _ => fromEvents (mvnEvents false)
  | .gibbsSweep, a => fromEvents (sweepEvents true a.model a.cfg)
  | .gibbsSweepNoRng, a => fromEvents (sweepEvents false a.model a.cfg)
  | .sampleMCMC, a => fromEvents (sampleMCMCEvents a.model a.cfg a.steps)
  | .sampleVI, a => fromEvents (sampleVIEvents a.n)
  | .cliPrepareRetrospective, a => cliPrepare a
  /- cli/calculate_scores.py:138-148: `rng=get_prng_from_seed_argument(args)` -/
  | .cliCalculateScores, a => fromEvents (scoreChunkEvents true a.scorer a.n)
  /- cli/select_next_plate.py:108-124 -/
  | .cliSelectNextPlate, _ => fromEvents (selectNextPlateEvents true)
  /- cli/train_model.py:150-159 -> sampling.sample -/
  | .cliTrainModel, a => fromEvents (sampleMCMCEvents a.model a.cfg a.steps)
  | .cliTrainModelVI, a => fromEvents (sampleVIEvents a.n)
  /- cli/evaluate_model.py:57-90 accepts `--seed` and makes no draw at all -/
  | .cliEvaluateModel, _ => .ret []
  /- cli/analyze_model_evaluation.py:84-102 after fix 1fd9f14: `rng = get_prng_from_seed_argument(args)` is handed to both
     predicted-vs-observed scatterplots (plotting.py:32-37, 86-93: `sns.regplot(..., seed=rng)`) -/
  | .cliAnalyzeModelEvaluation, a => fromEvents (analyzeEvents .supplied a.n a.k)

/-- operations that are NOT claimed: library calls made without a generator (outside the
property: "the given generator") and the pyro/torch VI model, which ignores its generator (known
finding `C18:vi-model-ignores-rng`) -/
def Op.excluded : Op → Bool
  | .selectNextPlateNoRng | .scoreChunkNoRng | .sampleMvnNoRng | .gibbsSweepNoRng => true
  | .sampleVI | .cliTrainModelVI => true
  | _ => false

/-- cli/argument_parsing.py:59-61 `get_prng_from_seed_argument`: the generator handed to a command
is `genOfSeed seed` for EVERY value of the argument (no truthiness test: 0 is a seed like any other);
the OS entropy `ω` is not consulted -/
def cliGenerator (genOfSeed : Nat → Stream) (seed : Nat) (_ω : Stream) : Stream := genOfSeed seed

/-- REGRESSION definition (seeded change S7-C18, not the code): `if args.seed:` -- the falsy seed 0
is treated as "no seed" and the generator is made from OS entropy -/
def cliGeneratorOld (genOfSeed : Nat → Stream) (seed : Nat) (ω : Stream) : Stream :=
  if seed = 0 then ω else genOfSeed seed

/-- a command-line step: the supplied stream IS the generator built from `--seed`
(cli/argument_parsing.py:59-61; for train_model: from `(seed, n_chains, chain_index)`,
sampling.py:45-46) -/
def runCli (genOfSeed : Nat → Stream) (seed : Nat) (op : Op) (a : Args) (γ ω : Stream) :
    Result (List Nat) :=
  run (prog op a) ⟨cliGenerator genOfSeed seed ω, γ, ω⟩

/-- the commands of the model that take `--seed` and are claimed (train_model with the VI model is the known finding) -/
def Op.isSeededCommand : Op → Bool
  | .cliPrepareRetrospective | .cliCalculateScores | .cliSelectNextPlate | .cliTrainModel
  | .cliEvaluateModel | .cliAnalyzeModelEvaluation => true
  | _ => false

/-! ### regression definitions for object memory and iteration order (NOT the code) -/

/-- REGRESSION (seeded change S5-C18): a scorer object that keeps the sampled triples of its first
`score()` call (`self._triple_cache`) and, when the key is present, returns them WITHOUT drawing:
`(value used, events of the call)` and the cache afterwards -/
def dbalCachedOld (cache : Option Nat) (g : Stream) : (Nat × List Event) × Option Nat :=
  match cache with
  | some v => ((v, []), some v)
  | none => ((g 0, [ev .supplied .choice]), some (g 0))

/-- assign the `i`-th draw of `g` to the `i`-th item of the iteration order; the output is the
item → value table -/
def assignInOrder (order : List Nat) (g : Stream) : List (Nat × Nat) :=
  order.zipIdx.map (fun p => (p.1, g p.2))

/-- the value an item received (`none`: not an item) -/
def assigned (order : List Nat) (g : Stream) (item : Nat) : Option Nat := (assignInOrder order g).lookup item

/-- the code: `for sample_name in np.unique(names)` -- the iteration order is the SORTED list of the items -/
def assignSorted (items : List Nat) (g : Stream) : List (Nat × Nat) :=
  assignInOrder (items.mergeSort (fun a b => decide (a ≤ b))) g

/-- the trace of an operation in the all-zero world (for the driver; by `trace_independent` in
the lemma file the trace of a G-only operation does not depend on Γ and Ω) -/
def trace (op : Op) (a : Args) : List Event := (run (prog op a) ⟨fun _ => 0, fun _ => 0, fun _ => 0⟩).trace

/-! ## histories of calls in one process

A reusable object (scorer, plate generator, smoother, policy) is called several times in one
process, each time with the generator handed to THAT call; the process-global state and the OS
entropy are threaded from one call to the next.  The model has no per-object state: a call's program
is `prog op a`, whatever was called before. -/

/-- one call: the operation, its arguments, the generator handed to it -/
abbrev Call := Op × Args × Stream

/-- run the calls in order; `Γ` and `Ω` are whatever the previous call left -/
def runSeq : List Call → Stream → Stream → List (Result (List Nat))
  | [], _, _ => []
  | (op, a, g) :: cs, γ, ω =>
    let r := run (prog op a) ⟨g, γ, ω⟩
    r :: runSeq cs r.world.γ r.world.ω

/-! ## which generator a trained model draws from (sampling.py:45-49)

A model object may already HOLD a generator when it is handed to `sampling.sample` (constructor
argument `rng=` of `SparseDrugCombo`, an earlier `set_rng`, an earlier call of `sample`).
Generators are identified by a number; `sample` creates the generator of THIS call from
`(seed, n_chains, chain_index)` and installs it unconditionally. -/

abbrev GenId := Nat

/-- `model.reset_model(); model.set_rng(rng)`: whatever the model held, it now holds `callGen` -/
def installRng (_held : Option GenId) (callGen : GenId) : Option GenId := some callGen

/-- the generator a step of the model draws from: the installed one (`none`: global numpy state,
written `0` never occurs after `installRng`) -/
def stepGen (held : Option GenId) : Option GenId := held

/-- one call of `sampling.sample` on a model object: the new held generator and the generator
every draw of the call's `steps` sweeps comes from -/
def sampleCall (held : Option GenId) (callGen : GenId) : Option GenId × Option GenId :=
  let h := installRng held callGen
  (h, stepGen h)

/-- successive calls of `sample` on the SAME object with generators `gens`: the source of the
draws of each call -/
def sampleCalls : Option GenId → List GenId → List (Option GenId)
  | _, [] => []
  | held, g :: gs => (sampleCall held g).2 :: sampleCalls (sampleCall held g).1 gs

/-- the variant that is NOT the code (kept for the negative theorem): install only when the model
holds nothing -/
def installIfNone (held : Option GenId) (callGen : GenId) : Option GenId :=
  match held with
  | some h => some h
  | none => some callGen

def sampleCallsIfNone : Option GenId → List GenId → List (Option GenId)
  | _, [] => []
  | held, g :: gs => installIfNone held g :: sampleCallsIfNone (installIfNone held g) gs

end Batchie.Rand
