/-
  C15 driver op (import-free, executable): runs the *generated* unranking function.

    unrank <index> <n> <k>   ->  comma separated tuple (`-` for the empty tuple)
                                 | `err:ZeroDivisionError`  (a divisor was 0; Python raises there)
                                 | `oof`   (the `while` spent its fuel `n+1`; never on valid input, see
                                            `C15_no_error`; Python would still be looping)
-/
import Batchie.Model.Proto
import Batchie.Generated.Unrank

namespace Batchie.UnrankIO

open Batchie.Proto

def handle : List String → Option String
  | ["unrank", i, n, k] =>
    match parseInt? i, parseInt? n, parseInt? k with
    | some i, some n, some k =>
      let st := Batchie.Gen.Unrank.run i n k
      if st.err then some (showErr Err.zeroDivision)
      else if st.oof then some "oof"
      else some (showIntList st.out)
    | _, _, _ => none
  | _ => none

end Batchie.UnrankIO
