/-
  Hand model of `batchie.scoring.main` (whole file), `scoring/rand.py`, `scoring/size.py` and the
  glue of `cli/calculate_scores.py` / `cli/select_next_plate.py`.  Import-free and executable;
  tied to /repo by `harness/c06.py` (and `harness/c04.py` for the non-interference runs).

  Conventions
  * a plate object is represented by its plate id; the view it stands for is `Screen.getPlate`
    (`Plate.plate_id` of `screen.get_plate(x)` is `x` for every `x` in `unique_plate_ids`; the
    harness reads the ids from the real `Plate` objects, so this is part of the tie).
  * a score is finite (the exact rational of the float) or −∞; NaN is outside the property.
  * `batch_plate_ids = None` and `[]` behave identically in the code, the model has only `[]`.
  * `n_chunks`, `chunk_index` are naturals (negative values are outside the quantifier);
    `n_chunks = 0` is numpy's `ValueError`, `chunk_index ≥ n_chunks` the `IndexError`.
-/
import Batchie.Model.Screen

namespace Batchie.Scores
open Batchie.Proto Batchie.Screen

/-! ### scores -/

inductive Score where
  | negInf
  | fin (q : Rat)
deriving Repr, DecidableEq

/-- strict `<` of IEEE doubles restricted to finite values and −∞ -/
def Score.lt : Score → Score → Bool
  | .negInf, .negInf => false
  | .negInf, .fin _ => true
  | .fin _, .negInf => false
  | .fin a, .fin b => decide (a < b)

/-- the `0.0` of `np.zeros` -/
def Score.zero : Score := .fin 0

/-! ### `np.array_split` -/

/-- section sizes of `np.array_split`: `len % n` sections of `len / n + 1`, then `len / n` -/
def splitSizes (len n : Nat) : List Nat :=
  List.replicate (len % n) (len / n + 1) ++ List.replicate (n - len % n) (len / n)

def takeSizes {α : Type} : List Nat → List α → List (List α)
  | [], _ => []
  | k :: ks, l => l.take k :: takeSizes ks (l.drop k)

/-- `np.array_split(l, n)` for `n ≥ 1` (`n = 0` raises, see `chunkPlates`) -/
def arraySplit {α : Type} (l : List α) (n : Nat) : List (List α) :=
  takeSizes (splitSizes l.length n) l

/-! ### candidates and the plates handed to the scorer -/

/-- `plate.is_observed` for `plate = screen.get_plate(p)`: `np.all(observation_mask[selection])` -/
def plateObserved (s : Screen) (p : Int) : Bool :=
  (maskFilter s.mask (s.pids.map (· == p))).all id

def intLe (a b : Int) : Bool := decide (a ≤ b)

/-- `[p for p in screen.plates if not p.is_observed]`, minus the batch, `sorted` by plate id -/
def candidates (s : Screen) (batch : List Int) : List Int :=
  ((s.uniquePlateIds.filter (fun p => !plateObserved s p)).filter (fun p => !batch.contains p)).mergeSort intLe

/-- `[plate for plate in screen.plates if plate.plate_id in batch_plate_ids]` -/
def batchPlates (s : Screen) (batch : List Int) : List Int :=
  s.uniquePlateIds.filter (fun p => batch.contains p)

/-- `np.array_split(unobserved_plates, n_chunks)[chunk_index]` -/
def chunkPlates (s : Screen) (batch : List Int) (n idx : Nat) : Except Err (List Int) :=
  if n == 0 then .error .valueError
  else match (arraySplit (candidates s batch) n)[idx]? with
    | none => .error .indexError
    | some c => .ok c

/-- `filter_dataset_to_unique_treatments(plate.combine(previously_selected_plates_combined))` -/
def conditioned (s : Screen) (pid : Nat) (u : View) (p : Int) : Except Err View := do
  let c ← (s.getPlate pid p).combine u
  s.uniqueFilter c

/-- the dict `plates_to_score` of `score_chunk`, in insertion order -/
def scoreInputs (s : Screen) (pid : Nat) (batch : List Int) (n idx : Nat) : Except Err (List (Int × View)) := do
  let chunk ← chunkPlates s batch n idx
  if batch.isEmpty then
    pure (chunk.map (fun p => (p, s.getPlate pid p)))
  else
    let u ← View.concat ((batchPlates s batch).map (s.getPlate pid))
    chunk.mapM (fun p => do
      let v ← conditioned s pid u p
      pure (p, v))

/-! ### `ChunkedScoresHolder` -/

structure Holder where
  size : Nat
  scores : List Score
  plateIds : List Int
  cur : Nat
deriving Repr, DecidableEq

/-- `ChunkedScoresHolder(size)`: zero-filled arrays -/
def Holder.new (size : Nat) : Holder :=
  { size := size, scores := List.replicate size Score.zero, plateIds := List.replicate size 0, cur := 0 }

/-- `add_score`: writes at `current_index` (numpy raises `IndexError` past the end) -/
def Holder.add (h : Holder) (p : Int) (x : Score) : Except Err Holder :=
  if h.cur < h.scores.length && h.cur < h.plateIds.length then
    .ok { h with scores := h.scores.set h.cur x, plateIds := h.plateIds.set h.cur p, cur := h.cur + 1 }
  else .error .indexError

/-- `combine`: concatenates the *whole* arrays (zero-filled tails included); `size` is not updated -/
def Holder.combine (h o : Holder) : Holder :=
  { h with scores := h.scores ++ o.scores, plateIds := h.plateIds ++ o.plateIds, cur := h.cur + o.scores.length }

def Holder.concat : List Holder → Except Err Holder
  | [] => .error .valueError
  | h :: rest => .ok (rest.foldl Holder.combine h)

/-- the HDF5 file of `save_h5`: two datasets and one attribute -/
structure ScoreFile where
  scores : List Score
  plateIds : List Int
  cur : Nat
deriving Repr, DecidableEq

def Holder.save (h : Holder) : ScoreFile := { scores := h.scores, plateIds := h.plateIds, cur := h.cur }

def Holder.load (f : ScoreFile) : Holder :=
  { size := f.scores.length, scores := f.scores, plateIds := f.plateIds, cur := f.cur }

/-- the (plate id, score) cells of the arrays, zero-filled cells included -/
def Holder.entries (h : Holder) : List (Int × Score) := h.plateIds.zip h.scores

/-- `np.argmin`: index of the first minimum -/
def argminGo : Nat → Score → Nat → List Score → Nat
  | bi, _, _, [] => bi
  | bi, b, i, y :: ys => if y.lt b then argminGo i y (i + 1) ys else argminGo bi b (i + 1) ys

def argmin? : List Score → Option Nat
  | [] => none
  | x :: xs => some (argminGo 0 x 1 xs)

/-- `plate_id_with_minimum_score(eligible_plate_ids)`:
    `mask = np.isin(plate_ids, eligible)`; `plate_ids[mask][scores[mask].argmin()]`
    (`argmin` of an empty array raises `ValueError`). The mask runs over the *whole* arrays,
    i.e. a zero-filled cell counts as plate `0` with score `0.0`. -/
def Holder.plateIdWithMinimumScore (h : Holder) (allowed : Option (List Int)) : Except Err Int :=
  let mask := match allowed with
    | none => h.plateIds.map (fun _ => true)
    | some a => h.plateIds.map (fun p => a.contains p)
  let ids := maskFilter h.plateIds mask
  let sc := maskFilter h.scores mask
  match argmin? sc with
  | none => .error .valueError
  | some i => match ids[i]? with
    | some p => .ok p
    | none => .error .indexError

/-! ### scorers (the plug-in interface) -/

/-- `Scorer.score`: dict of views in, dict of scores out (both in insertion order) -/
abbrev Scorer := List (Int × View) → List (Int × Score)

/-- `RandomScorer`: one `rng.random()` per key, in key order; `draws` is the generator's stream -/
def randomScorer (draws : Nat → Rat) : Scorer :=
  fun inp => inp.zipIdx.map (fun e => (e.1.1, Score.fin (draws e.2)))

/-- `SizeScorer`: `plate.size` -/
def sizeScorer : Scorer :=
  fun inp => inp.map (fun e => (e.1, Score.fin (e.2.size : Nat)))

/-- `score_chunk`: holder of `len(plates_to_score)` cells, one `add_score` per returned item -/
def scoreChunk (s : Screen) (pid : Nat) (batch : List Int) (n idx : Nat) (sc : Scorer) : Except Err Holder := do
  let inp ← scoreInputs s pid batch n idx
  (sc inp).foldlM (fun h e => h.add e.1 e.2) (Holder.new inp.length)

/-! ### selection -/

/-- `PlatePolicy.filter_eligible_plates(batch_plates, unobserved_plates, rng)` on plate ids
    (whatever the policy draws from `rng` is part of the function) -/
abbrev Policy := List Int → List Int → List Int

def eligible (s : Screen) (policy : Option Policy) (batch : List Int) : List Int :=
  match policy with
  | none => candidates s batch
  | some f => f (batchPlates s batch) (candidates s batch)

/-- `select_next_plate`; `none` = "no eligible plates remaining". The last test is
    `screen.get_plate(best).plate_name` (an empty selection raises `IndexError`). -/
def selectNextPlate (h : Holder) (s : Screen) (policy : Option Policy) (batch : List Int) :
    Except Err (Option Int) :=
  let el := eligible s policy batch
  if el.isEmpty then .ok none
  else do
    let best ← h.plateIdWithMinimumScore (some el)
    if s.pids.contains best then .ok (some best) else .error .indexError

/-! ### the two command line wrappers -/

/-- `calculate_scores.main`: load the screen file, `score_chunk`, `save_h5` -/
def cliCalculateScores (f : Screen.File) (batch : List Int) (n idx : Nat) (sc : Scorer) : Except Err ScoreFile := do
  let s ← Screen.load f
  let h ← scoreChunk s 0 batch n idx sc
  pure h.save

/-- `select_next_plate.main`: load screen, load + concat the score files in the order given,
    select, write the plate id or `-1` -/
def cliSelectNextPlate (f : Screen.File) (files : List ScoreFile) (policy : Option Policy) (batch : List Int) :
    Except Err String := do
  let s ← Screen.load f
  let h ← Holder.concat (files.map Holder.load)
  let r ← selectNextPlate h s policy batch
  pure (match r with
    | some p => toString p
    | none => "-1")

end Batchie.Scores
