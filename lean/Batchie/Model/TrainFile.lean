/-
  The training STAGE on a file (C04): `train_model.main()` = `Screen.load_h5(file)` → `subset_observed()` → `add_observations`.
  `fileTrain` composes the persistence model of C02 (`Batchie.Screen.load`) with the training model (`Batchie.Train.trainRows`).
  An error means the stage stops before sampling: no thetas file is written.
  `loadNanToZero` / `fileTrainOld` are REGRESSION definitions (seeded change S7-C04: a log summary run on load rewrites every NaN of the
  loaded observation array to 0.0), not code that is in /repo.  Import-free, executable.
-/
import Batchie.Model.Train

namespace Batchie.TrainFile
open Batchie.Proto Batchie.Screen Batchie.Scores Batchie.Train

/-- `train_model.main()` up to the point where sampling starts -/
def fileTrain {τ : Type} (m : ModelKind) (transform : Nat → τ) (nanT : τ → Bool) (f : Screen.File) : Except Err (Trained τ) := do
  let s ← Screen.load f
  trainRows m transform nanT s

/-- `np.nan_to_num(x)` on one binary64 pattern, restricted to what matters here: NaN ↦ 0.0 -/
def nanToZero (b : Nat) : Nat := if isNaN b then 0 else b

/-- REGRESSION (S7-C04): the observation array of the loaded screen after `summary()` ran `nan_to_num(copy=False)` on it -/
def zeroNaNs (s : Screen) : Screen := { s with obs := s.obs.map nanToZero }

def loadNanToZero (f : Screen.File) : Except Err Screen := (Screen.load f).map zeroNaNs

def fileTrainOld {τ : Type} (m : ModelKind) (transform : Nat → τ) (nanT : τ → Bool) (f : Screen.File) : Except Err (Trained τ) := do
  let s ← loadNanToZero f
  trainRows m transform nanT s

end Batchie.TrainFile
