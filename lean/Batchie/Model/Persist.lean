/-
  Byte-level model of `Screen.save_h5 / load_h5` and `ExperimentSpace.save_h5 / load_h5` (C02).

  `Batchie.Screen.File` (Model/Screen.lean) keeps string tables as names.  The real files keep them as
  numpy `S<w>` tables: `np.char.encode` UTF-8 encodes every cell, numpy pads each cell with zero bytes
  to the common width `w` (at least 1), `np.char.decode` strips *all* trailing zero bytes of a cell and
  UTF-8 decodes the rest.  This file models exactly that layer (`encodeTable` / `decodeTable`) with a
  hand-written strict UTF-8 codec over code points, a byte-level file `FileB`, `saveB` / `loadB`, and the
  experiment space.  An empty string table is written by h5py as a float64 dataset, on which
  `np.char.decode` raises `TypeError`; the model does the same.

  Modelled, not verified: that h5py/HDF5/gzip hand back the bytes, float64/int64/bool datasets and the
  string attribute they were given.

  Import-free and executable; tied to /repo by harness/c02.py (ops `codec`, `saveloadb`, `space`).
-/
import Batchie.Model.Screen

namespace Batchie.Persist
open Batchie.Proto Batchie.Screen

/-! ### UTF-8 over code points (bytes are `Nat`s below 256) -/

def utf8EncodeChar (c : Nat) : List Nat :=
  if c < 0x80 then [c]
  else if c < 0x800 then [0xC0 + c / 0x40, 0x80 + c % 0x40]
  else if c < 0x10000 then [0xE0 + c / 0x1000, 0x80 + c / 0x40 % 0x40, 0x80 + c % 0x40]
  else [0xF0 + c / 0x40000, 0x80 + c / 0x1000 % 0x40, 0x80 + c / 0x40 % 0x40, 0x80 + c % 0x40]

def utf8Encode (n : Name) : List Nat := n.flatMap utf8EncodeChar

def isCont (b : Nat) : Bool := decide (0x80 ≤ b) && decide (b < 0xC0)

/-- strict decoder (rejects stray continuation bytes, truncated and overlong forms, surrogates, > U+10FFFF) -/
def utf8Decode : List Nat → Option Name
  | [] => some []
  | b0 :: rest =>
    if b0 < 0x80 then (utf8Decode rest).map (b0 :: ·)
    else if b0 < 0xC0 then none
    else if b0 < 0xE0 then
      match rest with
      | b1 :: r1 =>
        let c := (b0 - 0xC0) * 0x40 + (b1 - 0x80)
        if isCont b1 && decide (0x80 ≤ c) then (utf8Decode r1).map (c :: ·) else none
      | [] => none
    else if b0 < 0xF0 then
      match rest with
      | b1 :: b2 :: r2 =>
        let c := (b0 - 0xE0) * 0x1000 + (b1 - 0x80) * 0x40 + (b2 - 0x80)
        if isCont b1 && isCont b2 && decide (0x800 ≤ c) && !(decide (0xD800 ≤ c) && decide (c < 0xE000))
        then (utf8Decode r2).map (c :: ·) else none
      | _ => none
    else if b0 < 0xF8 then
      match rest with
      | b1 :: b2 :: b3 :: r3 =>
        let c := (b0 - 0xF0) * 0x40000 + (b1 - 0x80) * 0x1000 + (b2 - 0x80) * 0x40 + (b3 - 0x80)
        if isCont b1 && isCont b2 && isCont b3 && decide (0x10000 ≤ c) && decide (c < 0x110000)
        then (utf8Decode r3).map (c :: ·) else none
      | _ => none
    else none
termination_by l => l.length

/-! ### numpy `S<w>` string tables -/

/-- remove every trailing zero byte (what reading an `S` cell does) -/
def stripZeros : List Nat → List Nat
  | [] => []
  | b :: bs =>
    let r := stripZeros bs
    if r.isEmpty && b == 0 then [] else b :: r

def pad (w : Nat) (bs : List Nat) : List Nat := bs ++ List.replicate (w - bs.length) 0

/-- a table of `S<width>` cells -/
structure STable where
  width : Nat
  cells : List (List Nat)
deriving Repr, BEq

/-- numpy's itemsize of the encoded array: the longest cell, at least 1 -/
def tableWidth (cells : List (List Nat)) : Nat := cells.foldl (fun w c => max w c.length) 1

/-- `np.char.encode(names)` stored in an `S` array -/
def encodeTable (names : List Name) : STable :=
  let cells := names.map utf8Encode
  let w := tableWidth cells
  { width := w, cells := cells.map (pad w) }

def decodeCell (bs : List Nat) : Except Err Name :=
  match utf8Decode (stripZeros bs) with
  | some n => .ok n
  | none => .error .valueError      -- UnicodeDecodeError is a ValueError

/-- `np.char.decode(f[...][:], "utf-8")`; the empty table comes back as float64: `TypeError` -/
def decodeTable (t : STable) : Except Err (List Name) :=
  if t.cells.isEmpty then .error .typeError else t.cells.mapM decodeCell

/-- 2-d table (`treatment_names`): one common width, rows of `arity` cells -/
structure STable2 where
  width : Nat
  rows : List (List (List Nat))
deriving Repr, BEq

def encodeTable2 (rows : List (List Name)) : STable2 :=
  let cells := rows.map (·.map utf8Encode)
  let w := tableWidth cells.flatten
  { width := w, rows := cells.map (·.map (pad w)) }

def decodeTable2 (t : STable2) : Except Err (List (List Name)) :=
  if t.rows.flatten.isEmpty then .error .typeError else t.rows.mapM (·.mapM decodeCell)

/-! ### the screen file, byte level -/

structure FileB where
  ctrl : Name
  arity : Nat
  tnames : STable2
  tdoses : List (List Dose)
  tids : List (List Int)
  tmapNames : STable
  tmapDoses : List Dose
  tmapIds : List Int
  obs : List Nat
  mask : List Bool
  sids : List Int
  snames : STable
  smapNames : STable
  smapIds : List Int
  pids : List Int
  pnames : STable
deriving Repr

/-- `Screen.save_h5` -/
def saveB (s : Screen) : FileB :=
  { ctrl := s.ctrl, arity := s.arity, tnames := encodeTable2 s.tnames, tdoses := s.tdoses, tids := s.tids,
    tmapNames := encodeTable (s.tmap.map (·.1)), tmapDoses := s.tmap.map (·.2.1), tmapIds := s.tmap.map (·.2.2),
    obs := s.obs, mask := s.mask, sids := s.sids, snames := encodeTable s.snames,
    smapNames := encodeTable (s.smap.map (·.1)), smapIds := s.smap.map (·.2), pids := s.pids,
    pnames := encodeTable s.pnames }

/-- decode the string tables of a byte-level file (the `np.char.decode` calls of `load_h5`) -/
def FileB.decode (f : FileB) : Except Err File := do
  let tn ← decodeTable2 f.tnames
  let sn ← decodeTable f.snames
  let pn ← decodeTable f.pnames
  let smn ← decodeTable f.smapNames
  let tmn ← decodeTable f.tmapNames
  pure { ctrl := f.ctrl, arity := f.arity, tnames := tn, tdoses := f.tdoses, tids := f.tids, tmapNames := tmn,
         tmapDoses := f.tmapDoses, tmapIds := f.tmapIds, obs := f.obs, mask := f.mask, sids := f.sids,
         snames := sn, smapNames := smn, smapIds := f.smapIds, pids := f.pids, pnames := pn }

/-- `Screen.load_h5` on the byte-level file -/
def loadB (f : FileB) : Except Err Screen := do
  let g ← f.decode
  load g

/-! ### experiment space -/

/-- `ExperimentSpace`: the raw arrays it was given, no validation -/
structure Space where
  tnames : List Name
  tdoses : List Dose
  tids : List Int
  snames : List Name
  sids : List Int
  ctrl : Name
deriving Repr, BEq

/-- `ExperimentSpace.from_screen` -/
def Space.ofScreen (s : Screen) : Space :=
  { tnames := s.tmap.map (·.1), tdoses := s.tmap.map (·.2.1), tids := s.tmap.map (·.2.2),
    snames := s.smap.map (·.1), sids := s.smap.map (·.2), ctrl := s.ctrl }

structure SpaceFile where
  tnames : STable
  tdoses : List Dose
  tids : List Int
  snames : STable
  sids : List Int
  ctrl : Name
deriving Repr

/-- `ExperimentSpace.save_h5` -/
def Space.save (e : Space) : SpaceFile :=
  { tnames := encodeTable e.tnames, tdoses := e.tdoses, tids := e.tids, snames := encodeTable e.snames,
    sids := e.sids, ctrl := e.ctrl }

/-- `ExperimentSpace.load_h5` -/
def SpaceFile.load (f : SpaceFile) : Except Err Space := do
  let tn ← decodeTable f.tnames
  let sn ← decodeTable f.snames
  pure { tnames := tn, tdoses := f.tdoses, tids := f.tids, snames := sn, sids := f.sids, ctrl := f.ctrl }

/-- `ExperimentSpace.n_unique_treatments`, `n_unique_samples` (the embedding sizes of the models) -/
def Space.nUniqueTreatments (e : Space) : Nat := ((e.tids.eraseDups).filter (· != -1)).length
def Space.nUniqueSamples (e : Space) : Nat := (e.snames.eraseDups).length

/-- save, load, k times (drivers and the idempotence theorem) -/
def cyclesB : Nat → Screen → Except Err Screen
  | 0, s => .ok s
  | n + 1, s => do let t ← loadB (saveB s); cyclesB n t

def cycles : Nat → Screen → Except Err Screen
  | 0, s => .ok s
  | n + 1, s => do let t ← load s.save; cycles n t

def spaceCycles : Nat → Space → Except Err Space
  | 0, e => .ok e
  | n + 1, e => do let t ← e.save.load; spaceCycles n t

end Batchie.Persist
