/-
  C15 -- regression definitions around the translated unranking function (they model code that is
  NOT in /repo).  Import-free and executable.

  * S7-C15 (seeded): a guard `if k <= 0 or n <= k: return` at the top of
    `generate_combination_at_sorted_index` (`runS7`): for `n = k` nothing is yielded.  `runGuardLt` is
    the same guard with the intended `n < k`.
  * S5-C15 / S6-C15 (seeded): fast paths that shrink the `n` handed to the walk (`index <= C(mid,k)`
    instead of `<` in a bisection; a stale table of binomials built for a smaller `n`): both end up
    unranking `index` with an `n'` for which `index = C(n',k)` is NOT a valid index (`runTightened`).
-/
import Batchie.Generated.Unrank

namespace Batchie.UnrankRegress

open Batchie.Gen.Unrank

/-- S7-C15 regression: `if k <= 0 or n <= k: return` before the walk -/
def runS7 (index n k : Int) : St :=
  if k ≤ 0 ∨ n ≤ k then { index := index, n := n, k := k } else run index n k

/-- the guard with the intended comparison `n < k` -/
def runGuardLt (index n k : Int) : St :=
  if k ≤ 0 ∨ n < k then { index := index, n := n, k := k } else run index n k

/-- S5-C15 / S6-C15 regression: the walk is started from a "tightened" `n'` instead of `n` -/
def runTightened (index n' k : Int) : St := run index n' k

end Batchie.UnrankRegress
