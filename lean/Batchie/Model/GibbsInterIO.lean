/-
  Line protocol for the interaction-only Gibbs model (C08 driver, extension).

  `c08isweep nC nT D N cline dd1 dd2 failW failV2 floats`
     floats: a0 b0 | y[N] | prec tau0 | W[nC*D] V2[nT*D] tau[D] gam[D] eta2[D] phi2[nT*D] Mu[N]
       | draws: w[nC*D] v2[nT*D] prec phi2aux[nT*D] phi2[nT*D] eta2aux[D] eta2[D] gam[D]
     answer: `<log> <Mu after each of the 6 stages> <final state> <predict(export) on the rows> <variance>`
-/
import Batchie.Model.GibbsIO
import Batchie.Model.GibbsInter

namespace Batchie.GibbsInterIO
open Batchie.Proto Batchie.Gibbs Batchie.GibbsIO Batchie.GibbsInter

def stateFloatsI (dt : Data Float) (st : IState Float) : List Float :=
  [st.prec, st.tau0] ++ flatMat dt.nC dt.D st.W ++ flatMat dt.nT dt.D st.V2 ++ flatVec dt.D st.tau
    ++ flatVec dt.D st.gam ++ flatVec dt.D st.eta2 ++ flatMat dt.nT dt.D st.phi2 ++ flatVec dt.N st.Mu

def sweepI (nC nT D N : Nat) (cl : List Nat) (d1 d2 : List Int) (fW fV2 : List Bool) (fl : Array Float) :
    Option String :=
  let need := 2 + N + 2 + nC * D + nT * D + 3 * D + nT * D + N
    + (nC * D + nT * D + 1 + 2 * (nT * D) + 2 * D + D)
  if fl.size != need || cl.length != N || d1.length != N || d2.length != N then none else
  let c : Cur := ⟨fl, 0⟩
  let (a0, c) := c.one
  let (b0, c) := c.one
  let (y, c) := c.vec N
  let cla := cl.toArray
  let d1a := d1.toArray
  let d2a := d2.toArray
  let dt : Data Float := { nC := nC, nT := nT, D := D, N := N, y := y, cline := (fun n => cla.getD n 0), dd1 := (fun n => d1a.getD n 0), dd2 := (fun n => d2a.getD n 0), a0 := a0, b0 := b0 }
  let (prec, c) := c.one
  let (tau0, c) := c.one
  let (W, c) := c.mat nC D
  let (V2, c) := c.mat nT D
  let (tau, c) := c.vec D
  let (gam, c) := c.vec D
  let (eta2, c) := c.vec D
  let (phi2, c) := c.mat nT D
  let (Mu, c) := c.vec N
  let st : IState Float := { W := W, V2 := V2, prec := prec, tau := tau, tau0 := tau0, gam := gam, phi2 := phi2, eta2 := eta2, Mu := Mu, log := [] }
  let (w, c) := c.mat nC D
  let (v2, c) := c.mat nT D
  let (dprec, c) := c.one
  let (phi2aux, c) := c.mat nT D
  let (dphi2, c) := c.mat nT D
  let (eta2aux, c) := c.vec D
  let (deta2, c) := c.vec D
  let (dgam, _) := c.vec D
  let ω : IDraws Float := { w := optRows fW w, v2 := optRows fV2 v2, prec := dprec, phi2aux := phi2aux, phi2 := dphi2, eta2aux := eta2aux, eta2 := deta2, gam := dgam }
  let tr := mcmcTraceI dt ω st
  let fin := mcmcStepI dt ω st
  let th := exportStateI fin
  let logS := if fin.log.isEmpty then "-" else ";".intercalate (fin.log.map showRec)
  let musS := ";".intercalate (tr.map (fun s => showFs (flatVec N s.Mu)))
  let predS := showFs (flatVec N (fun n => predictI D th (dt.cline n) (dt.dd1 n) (dt.dd2 n)))
  some s!"{logS} {musS} {showFs (stateFloatsI dt fin)} {predS} {showF (predictVarianceI th)}"

def handle : List String → Option String
  | ["c08isweep", nC, nT, D, N, cl, d1, d2, fW, fV2, fl] => do
    let nC ← parseNat? nC
    let nT ← parseNat? nT
    let D ← parseNat? D
    let N ← parseNat? N
    let cl ← parseNatList? cl
    let d1 ← parseIntList? d1
    let d2 ← parseIntList? d2
    let fW ← parseBoolList? fW
    let fV2 ← parseBoolList? fV2
    let fl ← parseFloats? fl
    sweepI nC nT D N cl d1 d2 fW fV2 fl
  | _ => none

end Batchie.GibbsInterIO
