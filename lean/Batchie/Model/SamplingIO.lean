/-
  Driver handlers for C17 (import-free): run the generated schedule, the generator dataflow
  model and the VI-branch model on one protocol line each.

    schedule <n_thetas> <n_burnin> <thin>        -> <err 0/1> <trace: comma separated event codes | ->
    chainrng <seed> <n_chains> <chain_index>     -> <entropy> <spawn_key list | -> | err:<Class>
    vigen <n_thetas> <returned>                  -> <err 0/1> <trace of the GENERATED VI branch: 2 reset, 3 set_rng, 4,<n> sample(num_samples=n), 1 add_theta>
    vi <seed> <n_thetas> <returned>              -> <events> <ok | err:<Class>>
         events: R = reset, G<entropy>/<key> = set_rng, S<n> = sample(num_samples=n), A = add_theta
-/
import Batchie.Model.Proto
import Batchie.Model.Sampling
import Batchie.Generated.Sampling

namespace Batchie.SamplingIO

open Batchie.Proto
open Batchie.Sampling

def showEvent : VIEvent → String
  | .reset => "R"
  | .setRng e k => s!"G{e}/{showNatList k}"
  | .sampleCall n => s!"S{n}"
  | .addTheta _ => "A"

def handle : List String → Option String
  | ["schedule", n, b, t] => do
    let n ← parseInt? n
    let b ← parseInt? b
    let t ← parseInt? t
    let st := Batchie.Gen.Sampling.run n b t
    some s!"{showBool st.err} {showIntList st.out}"
  | ["chainrng", seed, n, i] => do
    let seed ← parseInt? seed
    let n ← parseInt? n
    let i ← parseInt? i
    match chainRng (fun e k => (e, k)) seed n i with
    | .ok (e, k) => some s!"{e} {showNatList k}"
    | .error err => some (showErr err)
  | ["vigen", n, r] => do
    let n ← parseInt? n
    let r ← parseInt? r
    let st := Batchie.Gen.SamplingVI.run n r
    some s!"{showBool st.err} {showIntList st.out}"
  | ["vi", seed, n, r] => do
    let seed ← parseInt? seed
    let n ← parseInt? n
    let r ← parseNat? r
    let (evs, err) := viRun seed n r
    let evs := if evs.isEmpty then "-" else ",".intercalate (evs.map showEvent)
    match err with
    | none => some s!"{evs} ok"
    | some e => some s!"{evs} {showErr e}"
  | _ => none

end Batchie.SamplingIO
