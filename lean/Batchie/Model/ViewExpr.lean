/-
  C14: expression trees of view operations over one parent screen, their evaluation with the model's
  view operations (`Model/Screen.lean`), and the set-algebra denotation they are proved to have.
  Import-free and executable (run by `driver_c14` against the real `ScreenSubset` / `Plate` objects).
-/
import Batchie.Model.Screen

namespace Batchie.Views
open Batchie.Proto Batchie.Screen

/-- a finite composition of the view operations of `batchie.data` -/
inductive ViewExpr where
  /-- `screen.subset(sel)`; `pid` is the identity of the screen object the view belongs to (0 = the screen itself) -/
  | base (pid : Nat) (sel : List Bool)
  /-- `screen.subset_observed()` / `screen.subset_unobserved()` -/
  | observed
  | unobserved
  /-- `screen.get_plate(id)` -/
  | plate (id : Int)
  /-- `view.subset(inner)` -/
  | sub (e : ViewExpr) (inner : List Bool)
  /-- `view.invert()` -/
  | inv (e : ViewExpr)
  /-- `a.combine(b)` -/
  | comb (a b : ViewExpr)
  /-- `ScreenSubset.concat([e₁, …, e_k])` -/
  | cat (es : List ViewExpr)
  /-- `filter_dataset_to_unique_treatments(view)` -/
  | uniq (e : ViewExpr)
deriving Repr

mutual
/-- evaluate with the model's operations; the first failing operation (children left to right) aborts -/
def eval (s : Screen) : ViewExpr → Except Err View
  | .base pid sel => s.subset pid sel
  | .observed => match s.subsetObserved 0 with
      | some v => .ok v
      | none => .error .keyError
  | .unobserved => match s.subsetUnobserved 0 with
      | some v => .ok v
      | none => .error .keyError
  | .plate id => .ok (s.getPlate 0 id)
  | .sub e inner => (eval s e).bind fun v => v.subset inner
  | .inv e => (eval s e).bind fun v => .ok v.invert
  | .comb a b => (eval s a).bind fun va => (eval s b).bind fun vb => va.combine vb
  | .cat es => (evalList s es).bind View.concat
  | .uniq e => (eval s e).bind fun v => s.uniqueFilter v
def evalList (s : Screen) : List ViewExpr → Except Err (List View)
  | [] => .ok []
  | e :: es => (eval s e).bind fun v => (evalList s es).bind fun vs => .ok (v :: vs)
end

/-- pointwise or of equally long selections -/
def orSel (a b : List Bool) : List Bool := List.zipWith (· || ·) a b

/-- the key `filter_dataset_to_unique_treatments` deduplicates on: (sample id, treatment ids) of the selected rows -/
def uniqKeys (s : Screen) (sel : List Bool) : List (Int × List Int) :=
  (maskFilter s.sids sel).zip (maskFilter s.tids sel)

mutual
/-- the set of parent rows an expression denotes, as a characteristic vector over the parent's rows -/
def denote (s : Screen) : ViewExpr → List Bool
  | .base _ sel => sel
  | .observed => s.mask
  | .unobserved => s.mask.map (!·)
  | .plate id => s.pids.map (· == id)
  | .sub e inner => scatter (denote s e) inner
  | .inv e => (denote s e).map (!·)
  | .comb a b => orSel (denote s a) (denote s b)
  | .cat [] => []
  | .cat (e :: es) => denoteFold s (denote s e) es
  | .uniq e => scatter (denote s e) (uniqueMask (uniqKeys s (denote s e)))
/-- `concat` of a non-empty list is the union, accumulated left to right -/
def denoteFold (s : Screen) (acc : List Bool) : List ViewExpr → List Bool
  | [] => acc
  | e :: es => denoteFold s (orSel acc (denote s e)) es
end

/-- the rows `np.vstack(arrs).T` of equally long columns -/
def zipColumns (cols : List (List Int)) (n : Nat) : List (List Int) :=
  (List.range n).map (fun i => cols.map (fun c => c[i]!))

/-- `select_unique_zipped_numpy_arrays(arrs)`: `ValueError` for no array (`np.vstack([])`) or arrays of different lengths,
    otherwise the first-occurrence mask of the zipped rows -/
def selectUnique : List (List Int) → Except Err (List Bool)
  | [] => .error .valueError
  | c :: rest =>
    if rest.any (fun x => x.length != c.length) then .error .valueError
    else .ok (uniqueMask (zipColumns (c :: rest) c.length))

/-- the arrays `filter_dataset_to_unique_treatments` hands to `select_unique_zipped_numpy_arrays` for the rows selected by
    `sel`: the sample ids and one column of treatment ids per treatment slot -/
def uniqColumns (s : Screen) (sel : List Bool) : List (List Int) :=
  maskFilter s.sids sel :: (List.range s.arity).map (fun j => column (maskFilter s.tids sel) j)

/-- per-experiment attributes of a view: the parent's arrays indexed by the selection vector -/
structure Rows where
  tnames : List (List Name)
  tdoses : List (List Dose)
  snames : List Name
  pnames : List Name
  obs : List Nat
  mask : List Bool
  tids : List (List Int)
  sids : List Int
  pids : List Int
deriving Repr, BEq

def viewRows (s : Screen) (sel : List Bool) : Rows :=
  { tnames := maskFilter s.tnames sel, tdoses := maskFilter s.tdoses sel, snames := maskFilter s.snames sel,
    pnames := maskFilter s.pnames sel, obs := maskFilter s.obs sel, mask := maskFilter s.mask sel,
    tids := maskFilter s.tids sel, sids := maskFilter s.sids sel, pids := maskFilter s.pids sel }

/-- positions of the `true` entries of a selection vector, ascending -/
def selIdxFrom (k : Nat) : List Bool → List Nat
  | [] => []
  | true :: bs => k :: selIdxFrom (k + 1) bs
  | false :: bs => selIdxFrom (k + 1) bs

def selIdx (sel : List Bool) : List Nat := selIdxFrom 0 sel

end Batchie.Views
