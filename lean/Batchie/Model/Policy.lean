/-
  Hand model of `batchie.policies.k_per_sample.KPerSamplePlatePolicy.filter_eligible_plates`
  and of the part of `batchie.scoring.main.select_next_plate` that feeds it
  (import-free, executable).

  A plate is its plate id, the list of unique sample ids of its rows (`np.unique(sample_ids)`;
  `n_unique_samples` is its length) and whether it is fully observed.  For a plate that passed
  the one-sample check, `sample_ids[0]` is the single element of that list.

  The code, line by line:
    * any plate of `batch_plates + unobserved_plates` with `n_unique_samples != 1`  -> ValueError
    * `n_plates_per_sample`                 = count of unobserved plates per sample (dict, insertion order)
    * `sample_ids_with_insufficient_plates` = its keys with count `< k`
    * `n_plates_already_selected_per_sample`= count of batch plates per sample (dict, insertion order)
    * `sample_chosen` = the LAST key (insertion order) of that dict with count `< k`, else None
    * chosen: result = unobserved plates of that sample (in order)
    * else  : result = unobserved plates whose sample is not insufficient and is not a key of the
              batch dict (so a sample that already has k -- or more -- plates in the batch is closed).
-/
import Batchie.Model.Proto

namespace Batchie.Policy

open Batchie.Proto

structure Plate where
  id : Nat
  samples : List Nat
  observed : Bool := false
deriving Repr, DecidableEq

/-- `plate.n_unique_samples == 1` -/
def Plate.single (p : Plate) : Bool := p.samples.length == 1

/-- `plate.sample_ids[0]` (only read after the one-sample check) -/
def Plate.sid (p : Plate) : Nat := p.samples.headD 0

/-- number of plates of sample `s` in a list of plates -/
def cnt (l : List Plate) (s : Nat) : Nat := l.countP (fun p => p.sid == s)

/-- keys of the `defaultdict` built by looping over the plates, in insertion order -/
def keys (l : List Plate) : List Nat := (l.map Plate.sid).eraseDups

def insufficient (k : Nat) (unobs : List Plate) : List Nat :=
  (keys unobs).filter (fun s => decide (cnt unobs s < k))

/-- `sample_chosen`: the loop overwrites, so the last qualifying key wins -/
def chosen (k : Nat) (batch : List Plate) : Option Nat :=
  ((keys batch).filter (fun s => decide (cnt batch s < k))).getLast?

def filterEligible (k : Nat) (batch unobs : List Plate) : Except Err (List Plate) :=
  if (batch ++ unobs).all Plate.single then
    match chosen k batch with
    | some s => .ok (unobs.filter (fun p => p.sid == s))
    | none =>
      .ok (unobs.filter (fun p => !(insufficient k unobs).contains p.sid && !(keys batch).contains p.sid))
  else .error .valueError

/-! ### `select_next_plate`: what is handed to the policy -/

/-- `[plate for plate in screen.plates if plate.plate_id in batch_plate_ids]` -/
def batchPlates (screen : List Plate) (ids : List Nat) : List Plate :=
  screen.filter (fun p => ids.contains p.id)

/-- `sorted([plate for plate in screen.plates if not plate.is_observed and plate.plate_id not in batch_plate_ids], key=plate_id)` -/
def candidates (screen : List Plate) (ids : List Nat) : List Plate :=
  (screen.filter (fun p => !p.observed && !ids.contains p.id)).mergeSort (fun a b => decide (a.id ≤ b.id))

/-- the eligible plates `select_next_plate` computes for a screen and the ids already in the batch -/
def eligibleOf (k : Nat) (screen : List Plate) (ids : List Nat) : Except Err (List Plate) :=
  filterEligible k (batchPlates screen ids) (candidates screen ids)

/-! ### the batch ids as they arrive (glue of `select_next_plate`) -/

/-- `[plate for plate in screen.plates if plate.plate_id in batch_plate_ids]` with the ids as the caller hands them over:
    Python ints, among them possibly `-1`, the "no plate" placeholder that the `select_next_plate` command writes.  The code
    applies NO filter: a placeholder simply matches no plate. -/
def batchPlatesRaw (screen : List Plate) (ids : List Int) : List Plate :=
  screen.filter (fun p => ids.contains (p.id : Int))

/-- `[... if not plate.is_observed and plate.plate_id not in batch_plate_ids]`, sorted by plate id -/
def candidatesRaw (screen : List Plate) (ids : List Int) : List Plate :=
  (screen.filter (fun p => !p.observed && !ids.contains (p.id : Int))).mergeSort (fun a b => decide (a.id ≤ b.id))

/-- what the membership tests amount to: the ids `≥ 0` -- plate id 0 included -- as plate ids; only placeholders drop out -/
def batchFilter (ids : List Int) : List Nat := (ids.filter (fun i => decide (0 ≤ i))).map Int.toNat

/-- `select_next_plate` up to the choice of the best score: the policy applied to (batch plates, remaining unobserved plates
    outside the batch), both computed from the raw id list -/
def selectNext (k : Nat) (screen : List Plate) (ids : List Int) : Except Err (List Plate) :=
  filterEligible k (batchPlatesRaw screen ids) (candidatesRaw screen ids)

/-- REGRESSION DEFINITION (seeded change S7-C16, not the code in /repo): the placeholder filter written with `> 0`
    (`batch_plate_ids = [i for i in batch_plate_ids if i > 0]`) before the two lists are built -/
def batchFilterGt (ids : List Int) : List Int := ids.filter (fun i => decide (0 < i))

def selectNextGt (k : Nat) (screen : List Plate) (ids : List Int) : Except Err (List Plate) :=
  selectNext k screen (batchFilterGt ids)

/-! ### which allowed plate is returned (`ChunkedScoresHolder.plate_id_with_minimum_score`) -/

/-- first entry (storage order) that attains the minimum score: `argmin` -/
def minStep (acc : Option (Nat × Int)) (e : Nat × Int) : Option (Nat × Int) :=
  match acc with
  | none => some e
  | some b => if e.2 < b.2 then some e else some b

def firstMin (l : List (Nat × Int)) : Option (Nat × Int) := l.foldl minStep none

/-- `plate_ids[mask][scores[mask].argmin()]` with `mask = isin(plate_ids, eligible ids)`: the score table (plate id, score -- equal
    numbers are equal, `-0.0` and `0.0` alike) is masked to the allowed ids FIRST, the argmin is taken inside the masked table -/
def argminAllowed (table : List (Nat × Int)) (allowed : List Nat) : Option Nat :=
  (firstMin (table.filter (fun e => allowed.contains e.1))).map (fun e => e.1)

/-- `select_next_plate` including the choice: `none` when the policy allows nothing, else the allowed plate with the best score -/
def selectPlate (k : Nat) (screen : List Plate) (ids : List Int) (table : List (Nat × Int)) : Except Err (Option Nat) :=
  match selectNext k screen ids with
  | .error e => .error e
  | .ok el => if el.isEmpty then .ok none else .ok (argminAllowed table (el.map (fun p => p.id)))

/-- REGRESSION DEFINITION (seeded change S8-C16, not the code in /repo): `best = scores[mask].min()` and then
    `plate_ids[scores == best][0]` -- the value lookup runs over the WHOLE table, the mask is lost -/
def argminValueLookup (table : List (Nat × Int)) (allowed : List Nat) : Option Nat :=
  match firstMin (table.filter (fun e => allowed.contains e.1)) with
  | none => none
  | some b => (table.find? (fun e => e.2 == b.2)).map (fun e => e.1)

/-! ### rounds -/

/-- `Screen.set_observed` applied to the rows of the plates of a finished batch: those plates become observed, nothing else
    changes (ids, samples, order of `screen.plates`). -/
def markObserved (screen : List Plate) (ids : List Nat) : List Plate :=
  screen.map (fun p => if ids.contains p.id then { p with observed := true } else p)

/-- the screen after the finished batches `done` (oldest first) were reported -/
def afterRounds (screen : List Plate) (done : List (List Nat)) : List Plate :=
  done.foldl markObserved screen

/-! ### selection histories -/

/-- One selection within a batch: some eligible plate (whichever scores best -- any of them may)
    moves from the unobserved list to the batch.  The lists are taken up to reordering because
    `select_next_plate` rebuilds both from the screen at every call. -/
inductive Step (k : Nat) : List Plate × List Plate → List Plate × List Plate → Prop
  | mk (b u el : List Plate) (p : Plate) (b' u' : List Plate) :
      filterEligible k b u = .ok el → p ∈ el → b'.Perm (p :: b) → u'.Perm (u.erase p) →
      Step k (b, u) (b', u')

/-- every state reachable from the empty batch over unobserved single-sample plates `u0` -/
inductive Reachable (k : Nat) (u0 : List Plate) : List Plate × List Plate → Prop
  | init : (∀ p ∈ u0, p.single = true) → Reachable k u0 ([], u0)
  | step (s s' : List Plate × List Plate) : Reachable k u0 s → Step k s s' → Reachable k u0 s'

end Batchie.Policy
