/-
  Line-protocol helpers for the model driver (import-free, executable).

  A line is space separated tokens.  Conventions (DESIGN.md appendix B):
    * integers in decimal, possibly negative
    * a list of integers is comma separated without spaces, the empty list is `-`
    * a list of lists uses `;` between inner lists, the empty outer list is `-`,
      an empty inner list is `_`
    * booleans are `0`/`1`
  Anything ill-formed makes the handler answer `bad-op`; the driver never defaults.
-/
namespace Batchie.Proto

def parseInt? (s : String) : Option Int := s.toInt?

def parseNat? (s : String) : Option Nat := s.toNat?

def parseIntList? (s : String) : Option (List Int) :=
  if s == "-" || s == "_" then some []
  else (s.splitOn ",").mapM parseInt?

def parseNatList? (s : String) : Option (List Nat) :=
  if s == "-" || s == "_" then some []
  else (s.splitOn ",").mapM parseNat?

def parseIntListList? (s : String) : Option (List (List Int)) :=
  if s == "-" then some []
  else (s.splitOn ";").mapM parseIntList?

def parseBool? (s : String) : Option Bool :=
  if s == "1" then some true else if s == "0" then some false else none

def parseBoolList? (s : String) : Option (List Bool) :=
  if s == "-" || s == "_" then some []
  else (s.splitOn ",").mapM parseBool?

def showIntList (l : List Int) : String :=
  if l.isEmpty then "-" else ",".intercalate (l.map toString)

def showNatList (l : List Nat) : String :=
  if l.isEmpty then "-" else ",".intercalate (l.map toString)

def showBool (b : Bool) : String := if b then "1" else "0"

def showBoolList (l : List Bool) : String :=
  if l.isEmpty then "-" else ",".intercalate (l.map showBool)

def showIntListList (l : List (List Int)) : String :=
  if l.isEmpty then "-" else ";".intercalate (l.map (fun x => if x.isEmpty then "_" else showIntList x))

def showPairs (l : List (Int × Int)) : String :=
  if l.isEmpty then "-" else ";".intercalate (l.map (fun p => s!"{p.1},{p.2}"))

/-- errors are a small enum on both sides; messages are never compared -/
inductive Err where
  | valueError | typeError | indexError | zeroDivision | runtimeError | assertion | keyError | other
deriving Repr, DecidableEq, Inhabited

def Err.toString : Err → String
  | .valueError => "ValueError" | .typeError => "TypeError" | .indexError => "IndexError"
  | .zeroDivision => "ZeroDivisionError" | .runtimeError => "RuntimeError"
  | .assertion => "AssertionError" | .keyError => "KeyError" | .other => "Other"

instance : ToString Err := ⟨Err.toString⟩

def showErr (e : Err) : String := s!"err:{e}"

end Batchie.Proto
