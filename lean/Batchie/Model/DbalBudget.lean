/-
  C05 / C15 -- how the triple BUDGET travels from the caller to the kernel's index draw, and the
  index selection itself (scoring/gaussian_dbal.py:76-161, 205-212, 319-325), with the two seeded
  variants kept as REGRESSION definitions (they model code that is NOT in /repo).

  Import-free and executable.

  * every entry point forwards the caller's budget unchanged to the kernel
      heteroscedastic wrapper:  `max_combos=max_combos`
      homoscedastic wrapper:    `max_combos=max_combos`
      scorer:                   `max_combos=self.max_triples`
    (`kernelBudget`); the kernel draws `rng.choice(C(n,3), size=min(C(n,3), budget), replace=False)`
    (`Batchie.UnrankCallsite.nCombos`, `ChoiceContract`).
  * S5-C05 (seeded): the homoscedastic wrapper delegated to the heteroscedastic one and DROPPED
    `max_combos`, so the kernel ran with the default 5000 (`kernelBudgetS5`).
  * S7-C05 (seeded): `if C(n,3) < max_combos: arange(C(n,3)) else: rng.integers(C(n,3), size=max_combos)`
    -- strict comparison, so at `max_combos = C(n,3)` the indices are drawn WITH replacement
    (`selectS7`; `selectLe` is the same two-branch code with the intended `≤`).
-/
import Batchie.Model.UnrankCallsite

namespace Batchie.DbalBudget

open Batchie.UnrankCallsite

/-- the four ways into the kernel -/
inductive EntryPoint where
  | kernel | heteroscedastic | homoscedastic | scorer
deriving DecidableEq, Repr

/-- the default `max_combos` / `max_triples` that appears in every signature -/
def defaultBudget : Nat := 5000

/-- the budget the kernel receives when the caller asked for `caller` through entry point `ep`:
    every wrapper passes it on unchanged -/
def kernelBudget (_ep : EntryPoint) (caller : Nat) : Nat := caller

/-- S5-C05 regression: the homoscedastic wrapper no longer forwards `max_combos` -/
def kernelBudgetS5 (ep : EntryPoint) (caller : Nat) : Nat :=
  match ep with
  | .homoscedastic => defaultBudget
  | _ => caller

/-- S7-C05 regression: the two-branch index selection with the STRICT comparison.
    `withRepl` is what `rng.integers(C(n,3), size=max_combos)` returned (any list of `max_combos`
    naturals below `C(n,3)` is a possible outcome). -/
def selectS7 (n budget : Nat) (withRepl : List Nat) : List Nat :=
  if comb3 n < budget then List.range (comb3 n) else withRepl.take budget

/-- the same two-branch selection with the intended `≤` -/
def selectLe (n budget : Nat) (withRepl : List Nat) : List Nat :=
  if comb3 n ≤ budget then List.range (comb3 n) else withRepl.take budget

end Batchie.DbalBudget
